import RvModel.RealInst
import RvModel.ExtInst
import RvModel.Gen.Defs
import RvModel.Hand.Samplers
import RvModel.Lemmas.C13A
import RvModel.Lemmas.C13B
import RvModel.Props.C13A
import Mathlib.Tactic.Ring
import Mathlib.Tactic.Linarith
import Mathlib.Tactic.FieldSimp
import Mathlib.Analysis.SpecialFunctions.Log.Basic
import Mathlib.Analysis.SpecialFunctions.Exp
/-!
  C13 (group B): weighted index samplers and list helpers of `src/misc/func.rs`.

  * generated: `Gen.binary_search`, `Gen.catflip_bisection`, `Gen.catflip_standard`, `Gen.catflip`, `Gen.cumsum`;
  * hand models (Hand/Samplers.lean, tied to the code by the correspondence ops of harness/src/manual_c13b.rs):
    `Hand.std01/open01/uniform01` (word ↦ variate maps of rand-0.8.5), `Hand.pflip`, `Hand.pflips`, `Hand.lnPflips`,
    `Hand.lnPflip`, `Hand.gumbelPflip`, `Hand.argmax`, `Hand.logProduct`.

  `W ws i` is the sum of the first `i` weights (Lemmas/C13B.lean); `idxR` is the accessor of the generated code.
  `-- @site` names the Rust function a theorem is about.
-/
open Real X Hand

namespace C13

/-! ## (a) the word → variate maps, for every 64-bit word -/

-- @site pflip
/-- `rng.gen::<f64>()`: a multiple of `2⁻⁵³` in `[0, 1 − 2⁻⁵³]` -/
theorem std01_range (w : Nat) (hw : w < 2 ^ 64) :
    0 ≤ (std01 w : R).val ∧ (std01 w : R).val ≤ 1 - 1 / 2 ^ 53 ∧
      ∃ k : Nat, k < 2 ^ 53 ∧ (std01 w : R).val = (k : ℝ) / 2 ^ 53 := by
  have hk : w >>> 11 < 2 ^ 53 := by rw [Nat.shiftRight_eq_div_pow]; omega
  have hk' : ((w >>> 11 : Nat) : ℝ) + 1 ≤ 2 ^ 53 := by exact_mod_cast hk
  rw [std01_val]
  refine ⟨by positivity, ?_, _, hk, rfl⟩
  rw [div_le_iff₀ (by positivity)]
  have : (1 - 1 / (2:ℝ) ^ 53) * 2 ^ 53 = 2 ^ 53 - 1 := by norm_num
  linarith

example : (std01 (2 ^ 64 - 1) : R).val ≤ 1 - 1 / 2 ^ 53 := (std01_range _ (by norm_num)).2.1

-- @site pflip
/-- the variate `0` is delivered (by the `2¹¹` words below `2¹¹`) -/
theorem std01_eq_zero_iff (w : Nat) : (std01 w : R).val = 0 ↔ w < 2 ^ 11 := by
  rw [std01_val, div_eq_zero_iff]
  have h2 : ((2:ℝ) ^ 53) ≠ 0 := by positivity
  simp only [h2, or_false, Nat.cast_eq_zero, Nat.shiftRight_eq_div_pow]
  omega

example : (std01 2047 : R).val = 0 := (std01_eq_zero_iff _).mpr (by norm_num)

-- @site ln_pflips
/-- `rng.sample(Open01)`: an odd multiple of `2⁻⁵³` in `[2⁻⁵³, 1 − 2⁻⁵³]`: never `0`, never `1` -/
theorem open01_range (w : Nat) (hw : w < 2 ^ 64) :
    1 / 2 ^ 53 ≤ (open01 w : R).val ∧ (open01 w : R).val ≤ 1 - 1 / 2 ^ 53 := by
  have hk : w >>> 12 < 2 ^ 52 := by rw [Nat.shiftRight_eq_div_pow]; omega
  have hk' : ((2 * (w >>> 12) + 1 : Nat) : ℝ) + 1 ≤ 2 ^ 53 := by
    have : 2 * (w >>> 12) + 1 + 1 ≤ 2 ^ 53 := by omega
    exact_mod_cast this
  have hk0 : (1:ℝ) ≤ ((2 * (w >>> 12) + 1 : Nat) : ℝ) := by
    have : 1 ≤ 2 * (w >>> 12) + 1 := by omega
    exact_mod_cast this
  rw [open01_val]
  constructor
  · exact div_le_div_of_nonneg_right hk0 (by positivity)
  · rw [div_le_iff₀ (by positivity)]
    have : (1 - 1 / (2:ℝ) ^ 53) * 2 ^ 53 = 2 ^ 53 - 1 := by norm_num
    linarith

example : 0 < (open01 0 : R).val := lt_of_lt_of_le (by positivity) (open01_range 0 (by norm_num)).1

-- @site pflips
/-- `rng.sample(Uniform::new(0.0, 1.0))`: a multiple of `2⁻⁵²` in `[0, 1 − 2⁻⁵²]` — `0` included -/
theorem uniform01_range (w : Nat) (hw : w < 2 ^ 64) :
    0 ≤ (uniform01 w : R).val ∧ (uniform01 w : R).val ≤ 1 - 1 / 2 ^ 52 := by
  have hk : w >>> 12 < 2 ^ 52 := by rw [Nat.shiftRight_eq_div_pow]; omega
  have hk' : ((w >>> 12 : Nat) : ℝ) + 1 ≤ 2 ^ 52 := by exact_mod_cast hk
  rw [uniform01_val]
  refine ⟨by positivity, ?_⟩
  rw [div_le_iff₀ (by positivity)]
  have : (1 - 1 / (2:ℝ) ^ 52) * 2 ^ 52 = 2 ^ 52 - 1 := by norm_num
  linarith

example : (uniform01 12345678901234567890 : R).val ≤ 1 - 1 / 2 ^ 52 := (uniform01_range _ (by norm_num)).2

-- @site pflips
/-- the generator word `0` (and every word below `2¹²`) yields the variate `0` -/
theorem uniform01_zero : (uniform01 0 : R).val = 0 := by
  rw [uniform01_val]; simp

/-! ## (b) `catflip_standard`, `binary_search`, `catflip_bisection`, `catflip` -/

-- @site catflip_standard
/-- the linear scan returns the FIRST index whose cumulative weight exceeds `r` … -/
theorem catflip_standard_spec (cws : List R) (r : R) (i : Nat) :
    Gen.catflip_standard cws r = some i ↔
      i < cws.length ∧ r.val < (idxR cws i).val ∧ ∀ j, j < i → (idxR cws j).val ≤ r.val := by
  unfold Gen.catflip_standard
  rw [List.findIdx?_eq_some_iff_getElem]
  constructor
  · rintro ⟨h, h1, h2⟩
    refine ⟨h, ?_, ?_⟩
    · rw [idxR_of_lt _ h]; simpa using h1
    · intro j hj
      rw [idxR_of_lt _ (hj.trans h)]
      have := h2 j hj
      simpa using this
  · rintro ⟨h, h1, h2⟩
    refine ⟨h, ?_, ?_⟩
    · rw [idxR_of_lt _ h] at h1; simpa using h1
    · intro j hj
      have := h2 j hj
      rw [idxR_of_lt _ (hj.trans h)] at this
      simpa using this

example : Gen.catflip_standard [(⟨1⟩ : R), ⟨2⟩, ⟨4⟩] ⟨2⟩ = some 2 := by
  rw [catflip_standard_spec]
  refine ⟨by simp, by norm_num [idxR], ?_⟩
  intro j hj
  interval_cases j <;> norm_num [idxR]

-- @site catflip_standard
/-- … and `None` iff no cumulative weight exceeds `r` -/
theorem catflip_standard_none (cws : List R) (r : R) :
    Gen.catflip_standard cws r = none ↔ ∀ j, j < cws.length → (idxR cws j).val ≤ r.val := by
  unfold Gen.catflip_standard
  rw [List.findIdx?_eq_none_iff]
  constructor
  · intro h j hj
    have := h (idxR cws j) ((mem_iff_idxR cws _).mpr ⟨j, hj, rfl⟩)
    simpa using this
  · intro h x hx
    obtain ⟨j, hj, rfl⟩ := (mem_iff_idxR cws x).mp hx
    simpa using h j hj

example : Gen.catflip_standard [(⟨1⟩ : R), ⟨2⟩] ⟨2⟩ = none := by
  rw [catflip_standard_none]
  intro j hj
  simp at hj
  interval_cases j <;> norm_num [idxR]

-- @site binary_search
/-- on a non-decreasing list shorter than `2^10000` (`FuelOK`: the fuel of the model's `while` is 10000 and the loop
    needs `⌈log₂ len⌉ + 1` iterations) `binary_search` (test `cws[mid] <= r`) returns the partition point: everything
    before it is `≤ r`, everything from it on is `> r` -/
theorem binary_search_spec (cws : List R) (r : R) (hs : SortedR cws) (hl : FuelOK cws.length) :
    Gen.binary_search cws r ≤ cws.length ∧
    (∀ j, j < Gen.binary_search cws r → (idxR cws j).val ≤ r.val) ∧
    (∀ j, Gen.binary_search cws r ≤ j → j < cws.length → r.val < (idxR cws j).val) :=
  binary_search_post cws r hs hl

example : Gen.binary_search [(⟨1⟩ : R), ⟨2⟩, ⟨4⟩] ⟨2⟩ ≤ 3 :=
  (binary_search_spec _ _ (sortedR_of_pairwise _ (by norm_num)) (length_lt_fuel _ (by simp))).1

-- @site catflip_bisection
/-- bisection returns the FIRST index whose cumulative weight is `> r` — the same index as the linear scan -/
theorem catflip_bisection_spec (cws : List R) (r : R) (hs : SortedR cws) (hl : FuelOK cws.length)
    (i : Nat) :
    Gen.catflip_bisection cws r = some i ↔
      i < cws.length ∧ r.val < (idxR cws i).val ∧ ∀ j, j < i → (idxR cws j).val ≤ r.val := by
  obtain ⟨h1, h2, h3⟩ := binary_search_post cws r hs hl
  unfold Gen.catflip_bisection
  simp only []
  generalize Gen.binary_search cws r = ix at *
  constructor
  · intro h
    split_ifs at h with hlt
    · simp only [decide_eq_true_eq] at hlt
      obtain rfl : ix = i := by simpa using h
      exact ⟨hlt, h3 ix (le_refl _) hlt, h2⟩
  · rintro ⟨hi, hri, hlo⟩
    have e : ix = i := by
      rcases lt_trichotomy ix i with h | h | h
      · have := hlo ix h
        have := h3 ix (le_refl _) (by omega)
        linarith
      · exact h
      · have := h2 i h
        linarith
    subst e
    simp [hi]

example : Gen.catflip_bisection [(⟨1⟩ : R), ⟨2⟩, ⟨4⟩] ⟨2⟩ = some 2 := by
  rw [catflip_bisection_spec _ _ (sortedR_of_pairwise _ (by norm_num)) (length_lt_fuel _ (by simp))]
  refine ⟨by simp, by norm_num [idxR], ?_⟩
  intro j hj
  interval_cases j <;> norm_num [idxR]

-- @site catflip_bisection
theorem catflip_bisection_none (cws : List R) (r : R) (hs : SortedR cws) (hl : FuelOK cws.length) :
    Gen.catflip_bisection cws r = none ↔ ∀ j, j < cws.length → (idxR cws j).val ≤ r.val := by
  obtain ⟨h1, h2, h3⟩ := binary_search_post cws r hs hl
  unfold Gen.catflip_bisection
  simp only []
  generalize Gen.binary_search cws r = ix at *
  constructor
  · intro h j hj
    split_ifs at h with hlt
    simp only [decide_eq_true_eq, not_lt] at hlt
    exact h2 j (by omega)
  · intro h
    have : ¬ ix < cws.length := by
      intro hlt
      have := h ix hlt
      have := h3 ix (le_refl _) hlt
      linarith
    simp [this]

example : Gen.catflip_bisection [(⟨1⟩ : R), ⟨2⟩] ⟨2⟩ = none := by
  rw [catflip_bisection_none _ _ (sortedR_of_pairwise _ (by norm_num)) (length_lt_fuel _ (by simp))]
  intro j hj
  simp at hj
  interval_cases j <;> norm_num [idxR]

-- @site catflip
/-- the two search strategies return the same answer on EVERY non-decreasing list and EVERY `r`, ties `cws[j] = r`
    included (after the repair `cws[mid] <= r` of `binary_search`; before it they differed exactly at the ties) -/
theorem catflip_bisection_eq_standard (cws : List R) (r : R) (hs : SortedR cws) (hl : FuelOK cws.length) :
    Gen.catflip_bisection cws r = Gen.catflip_standard cws r := by
  cases hb : Gen.catflip_bisection cws r with
  | none =>
    exact ((catflip_standard_none cws r).mpr ((catflip_bisection_none cws r hs hl).mp hb)).symm
  | some i =>
    exact ((catflip_standard_spec cws r i).mpr ((catflip_bisection_spec cws r hs hl i).mp hb)).symm

/-- a tie: `r` equal to the first cumulative weight -/
example : Gen.catflip_bisection [(⟨1⟩ : R), ⟨2⟩] ⟨1⟩ = Gen.catflip_standard [(⟨1⟩ : R), ⟨2⟩] ⟨1⟩ :=
  catflip_bisection_eq_standard _ _ (sortedR_of_pairwise _ (by norm_num)) (length_lt_fuel _ (by simp))

-- @site catflip
/-- the switch at 10 entries does not change the answer: `catflip` is the linear scan, for every non-decreasing `cws` and
    every `r` (no tie condition, `r = 0` included) -/
theorem catflip_agree (cws : List R) (r : R) (hs : SortedR cws) (hl : FuelOK cws.length) :
    Gen.catflip cws r = Gen.catflip_standard cws r := by
  unfold Gen.catflip
  split_ifs
  · exact catflip_bisection_eq_standard cws r hs hl
  · rfl

/-- the former defect witness: cumulative weights of `0,1,…,1` (10 weights), `r = 0` -/
example : Gen.catflip [(⟨0⟩ : R), ⟨1⟩, ⟨2⟩, ⟨3⟩, ⟨4⟩, ⟨5⟩, ⟨6⟩, ⟨7⟩, ⟨8⟩, ⟨9⟩] ⟨0⟩ = some 1 := by
  rw [catflip_agree _ _ (sortedR_of_pairwise _ (by norm_num)) (length_lt_fuel _ (by simp)), catflip_standard_spec]
  refine ⟨by simp, by norm_num [idxR], ?_⟩
  intro j hj
  interval_cases j; norm_num [idxR]

/-! ## (c) `cumsum` feeding the two searches: the selected index as a function of `r` -/

-- @site catflip_standard
/-- on the cumulative sums of non-negative weights the scan selects `i` iff `W_i ≤ r < W_{i+1}` -/
theorem standard_cumsum_iff (ws : List R) (hw : ∀ w ∈ ws, 0 ≤ w.val) (r : R) (hr : 0 ≤ r.val) (i : Nat) :
    Gen.catflip_standard (Gen.cumsum ws) r = some i ↔
      i < ws.length ∧ W ws i ≤ r.val ∧ r.val < W ws (i + 1) := by
  rw [catflip_standard_spec, cumsum_length']
  constructor
  · rintro ⟨hi, h1, h2⟩
    rw [cumsum_idx ws hi] at h1
    refine ⟨hi, ?_, h1⟩
    cases i with
    | zero => simpa using hr
    | succ k =>
      have := h2 k (by omega)
      rwa [cumsum_idx ws (by omega)] at this
  · rintro ⟨hi, h1, h2⟩
    refine ⟨hi, by rwa [cumsum_idx ws hi], ?_⟩
    intro j hj
    rw [cumsum_idx ws (by omega)]
    exact (W_mono ws hw (by omega : j + 1 ≤ i)).trans h1

example : Gen.catflip_standard (Gen.cumsum [(⟨1⟩ : R), ⟨0⟩, ⟨2⟩]) ⟨1⟩ = some 2 := by
  rw [standard_cumsum_iff _ (by simp) _ (by norm_num)]
  norm_num [W]

-- @site catflip_bisection
/-- on the cumulative sums of non-negative weights the bisection selects `i` iff `W_i ≤ r < W_{i+1}`, for `0 ≤ r` -/
theorem bisection_cumsum_iff (ws : List R) (hw : ∀ w ∈ ws, 0 ≤ w.val) (hl : FuelOK ws.length)
    (r : R) (hr : 0 ≤ r.val) (i : Nat) :
    Gen.catflip_bisection (Gen.cumsum ws) r = some i ↔
      i < ws.length ∧ W ws i ≤ r.val ∧ r.val < W ws (i + 1) := by
  rw [catflip_bisection_eq_standard _ _ (cumsum_sorted ws hw) (by rwa [cumsum_length'])]
  exact standard_cumsum_iff ws hw r hr i

example : Gen.catflip_bisection (Gen.cumsum [(⟨1⟩ : R), ⟨0⟩, ⟨2⟩]) ⟨1⟩ = some 2 := by
  rw [bisection_cumsum_iff _ (by simp) (length_lt_fuel _ (by simp)) _ (by norm_num)]
  norm_num [W]

-- @site catflip
/-- hence `catflip` on cumulative sums, whatever the length: `i` iff `W_i ≤ r < W_{i+1}` -/
theorem catflip_cumsum_iff (ws : List R) (hw : ∀ w ∈ ws, 0 ≤ w.val) (hl : FuelOK ws.length)
    (r : R) (hr : 0 ≤ r.val) (i : Nat) :
    Gen.catflip (Gen.cumsum ws) r = some i ↔
      i < ws.length ∧ W ws i ≤ r.val ∧ r.val < W ws (i + 1) := by
  rw [catflip_agree _ _ (cumsum_sorted ws hw) (by rwa [cumsum_length'])]
  exact standard_cumsum_iff ws hw r hr i

example : Gen.catflip (Gen.cumsum [(⟨0⟩ : R), ⟨1⟩]) ⟨0⟩ = some 1 := by
  rw [catflip_cumsum_iff _ (by simp) (length_lt_fuel _ (by simp)) _ (by norm_num)]
  norm_num [W]

/-! ## (d) `pflip` -/

-- @site pflip
/-- the loop of `pflip` is the linear scan over the cumulative sums (every carrier, `Float` included) -/
theorem pflip_eq_catflip_standard {α : Type} [RealLike α] (ws : List α) (sum : Option α) (u : α)
    (hne : ws ≠ []) :
    pflip ws sum u = Gen.catflip_standard (Gen.cumsum ws) (u * sum.getD (sumL ws)) := by
  have : ws.isEmpty = false := by cases ws with
    | nil => exact absurd rfl hne
    | cons _ _ => rfl
  cases sum <;>
  · unfold pflip Gen.catflip_standard Gen.cumsum
    simp only [this, Bool.false_eq_true, if_false]
    rw [pflipLoop_eq]
    simp only [Nat.add_zero, Option.map_id', Option.getD_none, Option.getD_some]

example : pflip [(⟨1⟩ : R), ⟨3⟩] (some ⟨4⟩) ⟨1/2⟩ =
    Gen.catflip_standard (Gen.cumsum [(⟨1⟩ : R), ⟨3⟩]) (⟨1/2⟩ * (some (⟨4⟩ : R)).getD (sumL [(⟨1⟩ : R), ⟨3⟩])) :=
  pflip_eq_catflip_standard _ _ _ (by simp)

-- @site pflip
/-- `{u | pflip w u = i}` is the interval `[W_i/S, W_{i+1}/S)`, for non-negative weights with positive sum `S`
    (`sum = None`) -/
theorem pflip_interval (ws : List R) (hw : ∀ w ∈ ws, 0 ≤ w.val) (hS : 0 < (ws.map R.val).sum)
    (u : R) (hu : 0 ≤ u.val) (i : Nat) :
    pflip ws none u = some i ↔
      i < ws.length ∧ W ws i / (ws.map R.val).sum ≤ u.val ∧ u.val < W ws (i + 1) / (ws.map R.val).sum := by
  have hne : ws ≠ [] := by rintro rfl; simp at hS
  rw [pflip_eq_catflip_standard ws none u hne, Option.getD_none]
  rw [standard_cumsum_iff ws hw _ (by rw [pflip_r_val]; positivity), pflip_r_val, div_le_iff₀ hS,
    lt_div_iff₀ hS]

example : pflip [(⟨1⟩ : R), ⟨0⟩, ⟨3⟩] none ⟨1/2⟩ = some 2 := by
  rw [pflip_interval _ (by simp) (by norm_num) _ (by norm_num)]
  norm_num [W]

-- @site pflip
/-- the length of that interval is `wᵢ/S`: the law of the index is proportional to the weights when `u` is uniform -/
theorem pflip_interval_length (ws : List R) {i : Nat} (hi : i < ws.length) :
    W ws (i + 1) / (ws.map R.val).sum - W ws i / (ws.map R.val).sum
      = (idxR ws i).val / (ws.map R.val).sum := by
  rw [W_succ ws hi]; ring

example : W [(⟨1⟩ : R), ⟨0⟩, ⟨3⟩] 3 / 4 - W [(⟨1⟩ : R), ⟨0⟩, ⟨3⟩] 2 / 4 = 3 / 4 := by
  have := pflip_interval_length [(⟨1⟩ : R), ⟨0⟩, ⟨3⟩] (i := 2) (by simp)
  norm_num [idxR] at this ⊢
  norm_num [W]

-- @site pflip
/-- for every variate in `[0, 1)` (in particular every `std01 word`) `pflip` returns an index inside the vector -/
theorem pflip_in_range (ws : List R) (hw : ∀ w ∈ ws, 0 ≤ w.val) (hS : 0 < (ws.map R.val).sum)
    (u : R) (hu : 0 ≤ u.val) (hu1 : u.val < 1) :
    ∃ i, pflip ws none u = some i ∧ i < ws.length := by
  have hne : ws ≠ [] := by rintro rfl; simp at hS
  have hpos : 0 < ws.length := List.length_pos_iff.mpr hne
  cases h : pflip ws none u with
  | some i => exact ⟨i, rfl, ((pflip_interval ws hw hS u hu i).mp h).1⟩
  | none =>
    exfalso
    rw [pflip_eq_catflip_standard ws none u hne, Option.getD_none] at h
    have := (catflip_standard_none _ _).mp h (ws.length - 1) (by rw [cumsum_length']; omega)
    rw [cumsum_idx ws (by omega), Nat.sub_add_cancel hpos, W_length, pflip_r_val] at this
    nlinarith

example : ∃ i, pflip [(⟨0⟩ : R), ⟨2⟩] none ⟨0⟩ = some i ∧ i < 2 :=
  pflip_in_range _ (by simp) (by norm_num) _ (by norm_num) (by norm_num)

-- @site pflip
/-- … and never one whose weight is zero -/
theorem pflip_positive_weight (ws : List R) (hw : ∀ w ∈ ws, 0 ≤ w.val) (hS : 0 < (ws.map R.val).sum)
    (u : R) (hu : 0 ≤ u.val) (i : Nat) (h : pflip ws none u = some i) :
    0 < (idxR ws i).val := by
  obtain ⟨hi, h1, h2⟩ := (pflip_interval ws hw hS u hu i).mp h
  have := pflip_interval_length ws hi
  have h3 : W ws i / (ws.map R.val).sum < W ws (i + 1) / (ws.map R.val).sum := lt_of_le_of_lt h1 h2
  have h4 : 0 < (idxR ws i).val / (ws.map R.val).sum := by linarith
  exact (div_pos_iff_of_pos_right hS).mp h4

example : 0 < (idxR [(⟨1⟩ : R), ⟨0⟩, ⟨3⟩] 2).val :=
  pflip_positive_weight _ (by simp) (by norm_num) ⟨1/2⟩ (by norm_num) 2 (by
    rw [pflip_interval _ (by simp) (by norm_num) _ (by norm_num)]; norm_num [W])

-- @site pflip
/-- a caller-supplied `sum` equal to the true sum changes nothing … -/
theorem pflip_supplied_sum (ws : List R) (s u : R) (hs : s.val = (ws.map R.val).sum) :
    pflip ws (some s) u = pflip ws none u := by
  have e : s = sumL ws := R.ext' (by rw [hs, sumL_eq_total])
  unfold pflip
  simp only [e]

example (u : R) : pflip [(⟨1⟩ : R), ⟨3⟩] (some ⟨4⟩) u = pflip [(⟨1⟩ : R), ⟨3⟩] none u :=
  pflip_supplied_sum _ _ _ (by norm_num)

-- @site pflip
/-- … but a supplied `sum` larger than the true sum (the function trusts it: `Crp::draw`-style callers) makes the loop
    fall through to `panic!("Could not draw from …")`: weights `[1]`, `sum = Some(2)`, `u = 1/2`. -/
theorem pflip_supplied_sum_counterexample : pflip [(⟨1⟩ : R)] (some ⟨2⟩) ⟨1/2⟩ = none := by
  simp [pflip, pflipLoop]
  norm_num

-- @site pflip
/-- headline for `pflip` (`sum = None`): for EVERY 64-bit generator word the result is an index inside the vector whose
    weight is positive -/
theorem pflip_every_word (ws : List R) (hw : ∀ w ∈ ws, 0 ≤ w.val) (hS : 0 < (ws.map R.val).sum)
    (w : Nat) (hw64 : w < 2 ^ 64) :
    ∃ i, pflip ws none (std01 w) = some i ∧ i < ws.length ∧ 0 < (idxR ws i).val := by
  obtain ⟨h0, h1, _⟩ := std01_range w hw64
  have h1' : (std01 w : R).val < 1 := lt_of_le_of_lt h1 (by norm_num)
  obtain ⟨i, hi, hlt⟩ := pflip_in_range ws hw hS _ h0 h1'
  exact ⟨i, hi, hlt, pflip_positive_weight ws hw hS _ h0 i hi⟩

example : ∃ i, pflip [(⟨0⟩ : R), ⟨2⟩] none (std01 0) = some i ∧ i < 2 ∧ 0 < (idxR [(⟨0⟩ : R), ⟨2⟩] i).val :=
  pflip_every_word _ (by simp) (by norm_num) 0 (by norm_num)

/-! ## (e) `pflips` -/

-- @site pflips
/-- `{u | draw = i} = [W_i/S, W_{i+1}/S)` for every number of weights (scan or bisection), `u = 0` included -/
theorem pflips_interval (ws : List R) (hw : ∀ w ∈ ws, 0 ≤ w.val) (hS : 0 < (ws.map R.val).sum)
    (hl : FuelOK ws.length) (u : R) (hu : 0 ≤ u.val) (i : Nat) :
    pflips1 ws u = some i ↔
      i < ws.length ∧ W ws i / (ws.map R.val).sum ≤ u.val ∧ u.val < W ws (i + 1) / (ws.map R.val).sum := by
  have hne : ws ≠ [] := by rintro rfl; simp at hS
  obtain ⟨r, hr, e⟩ := pflips1_eq ws u hne
  rw [e, catflip_cumsum_iff ws hw hl _ (by rw [hr]; positivity), hr, div_le_iff₀ hS, lt_div_iff₀ hS]

example : pflips1 [(⟨0⟩ : R), ⟨2⟩] ⟨0⟩ = some 1 := by
  rw [pflips_interval _ (by simp) (by norm_num) (length_lt_fuel _ (by simp)) _ (by norm_num)]; norm_num [W]

-- @site pflips
/-- at most 9 weights (linear scan): `{u | draw = i} = [W_i/S, W_{i+1}/S)`, `u = 0` included -/
theorem pflips_interval_small (ws : List R) (hw : ∀ w ∈ ws, 0 ≤ w.val) (hS : 0 < (ws.map R.val).sum)
    (h9 : ws.length ≤ 9) (u : R) (hu : 0 ≤ u.val) (i : Nat) :
    pflips1 ws u = some i ↔
      i < ws.length ∧ W ws i / (ws.map R.val).sum ≤ u.val ∧ u.val < W ws (i + 1) / (ws.map R.val).sum :=
  pflips_interval ws hw hS (fuelOK_of_le (by omega)) u hu i

example : pflips1 [(⟨0⟩ : R), ⟨2⟩] ⟨0⟩ = some 1 := by
  rw [pflips_interval_small _ (by simp) (by norm_num) (by simp) _ (by norm_num)]; norm_num [W]

-- @site pflips
/-- more than 9 weights (bisection): the SAME interval `[W_i/S, W_{i+1}/S)`, `u = 0` included -/
theorem pflips_interval_large (ws : List R) (hw : ∀ w ∈ ws, 0 ≤ w.val) (hS : 0 < (ws.map R.val).sum)
    (_h9 : 9 < ws.length) (hl : FuelOK ws.length) (u : R) (hu : 0 ≤ u.val) (i : Nat) :
    pflips1 ws u = some i ↔
      i < ws.length ∧ W ws i / (ws.map R.val).sum ≤ u.val ∧ u.val < W ws (i + 1) / (ws.map R.val).sum :=
  pflips_interval ws hw hS hl u hu i

example : pflips1 [(⟨1⟩ : R), ⟨1⟩, ⟨1⟩, ⟨1⟩, ⟨1⟩, ⟨1⟩, ⟨1⟩, ⟨1⟩, ⟨1⟩, ⟨1⟩] ⟨1/2⟩ = some 5 := by
  rw [pflips_interval_large _ (by simp) (by norm_num) (by simp) (length_lt_fuel _ (by simp)) _ (by norm_num)]
  norm_num [W]

-- @site pflips
/-- every draw of `pflips` lands inside the vector, for every variate in `[0,1)` (every `uniform01 word`) -/
theorem pflips_in_range (ws : List R) (hw : ∀ w ∈ ws, 0 ≤ w.val) (hS : 0 < (ws.map R.val).sum)
    (hl : FuelOK ws.length) (us : List R) (hu : ∀ u ∈ us, 0 ≤ u.val ∧ u.val < 1) :
    ∀ o ∈ pflips ws us, ∃ i, o = some i ∧ i < ws.length := by
  have hne : ws ≠ [] := by rintro rfl; simp at hS
  have hpos : 0 < ws.length := List.length_pos_iff.mpr hne
  intro o ho
  obtain ⟨u, hu', rfl⟩ := List.mem_map.mp ho
  obtain ⟨hu0, hu1⟩ := hu u hu'
  cases h : pflips1 ws u with
  | some i => exact ⟨i, rfl, ((pflips_interval ws hw hS hl u hu0 i).mp h).1⟩
  | none =>
    exfalso
    obtain ⟨r, hr, e⟩ := pflips1_eq ws u hne
    rw [e, catflip_agree _ _ (cumsum_sorted ws hw) (by rwa [cumsum_length'])] at h
    have := (catflip_standard_none _ _).mp h (ws.length - 1) (by rw [cumsum_length']; omega)
    rw [cumsum_idx ws (by omega), Nat.sub_add_cancel hpos, W_length, hr] at this
    nlinarith

example : ∀ o ∈ pflips [(⟨0⟩ : R), ⟨2⟩] [⟨0⟩, ⟨1/2⟩], ∃ i, o = some i ∧ i < 2 :=
  pflips_in_range _ (by simp) (by norm_num) (length_lt_fuel _ (by simp)) _ (by
    intro u hu; simp at hu; rcases hu with rfl | rfl <;> norm_num)

-- @site pflips
/-- no draw of `pflips` has weight zero, for every variate `0 ≤ u` (so also `u = 0 = uniform01 0`) and any length -/
theorem pflips_positive_weight (ws : List R) (hw : ∀ w ∈ ws, 0 ≤ w.val) (hS : 0 < (ws.map R.val).sum)
    (hl : FuelOK ws.length) (u : R) (hu : 0 ≤ u.val)
    (i : Nat) (h : pflips1 ws u = some i) : 0 < (idxR ws i).val := by
  obtain ⟨hi, h1, h2⟩ := (pflips_interval ws hw hS hl u hu i).mp h
  have := pflip_interval_length ws hi
  have h3 : W ws i / (ws.map R.val).sum < W ws (i + 1) / (ws.map R.val).sum := lt_of_le_of_lt h1 h2
  have h4 : 0 < (idxR ws i).val / (ws.map R.val).sum := by linarith
  exact (div_pos_iff_of_pos_right hS).mp h4

example : 0 < (idxR [(⟨0⟩ : R), ⟨2⟩] 1).val :=
  pflips_positive_weight _ (by simp) (by norm_num) (length_lt_fuel _ (by simp)) ⟨0⟩ (by norm_num)
    1 (by rw [pflips_interval_small _ (by simp) (by norm_num) (by simp) _ (by norm_num)]; norm_num [W])

-- @site pflips
/-- the former defect witness (10 weights `0,1,…,1`, generator word `0`, variate `uniform01 0 = 0`): index `1`, whose weight
    is positive (was index `0` of weight `0` before the repair of `binary_search`) -/
theorem pflips_leading_zero_weight :
    let ws : List R := [⟨0⟩, ⟨1⟩, ⟨1⟩, ⟨1⟩, ⟨1⟩, ⟨1⟩, ⟨1⟩, ⟨1⟩, ⟨1⟩, ⟨1⟩]
    pflips ws [uniform01 0] = [some 1] ∧ 0 < (idxR ws 1).val := by
  intro ws
  refine ⟨?_, by norm_num [ws, idxR]⟩
  have h : pflips1 ws (uniform01 0) = some 1 := by
    rw [pflips_interval ws (by
      intro w hw; simp only [ws, List.mem_cons, List.not_mem_nil, or_false] at hw
      rcases hw with rfl | rfl | rfl | rfl | rfl | rfl | rfl | rfl | rfl | rfl <;> norm_num)
      (by norm_num [ws]) (length_lt_fuel _ (by simp [ws])) _ (by rw [uniform01_zero]), uniform01_zero]
    norm_num [ws, W]
  simp [pflips, h]

-- @site pflips
/-- headline for `pflips`: for EVERY 64-bit generator word the draw is inside the vector and its weight is positive -/
theorem pflips_every_word (ws : List R) (hw : ∀ w ∈ ws, 0 ≤ w.val) (hS : 0 < (ws.map R.val).sum)
    (hl : FuelOK ws.length) (w : Nat) (hw64 : w < 2 ^ 64) :
    ∃ i, pflips1 ws (uniform01 w) = some i ∧ i < ws.length ∧ 0 < (idxR ws i).val := by
  obtain ⟨h0, h1⟩ := uniform01_range w hw64
  have h1' : (uniform01 w : R).val < 1 := lt_of_le_of_lt h1 (by norm_num)
  obtain ⟨i, hi, hlt⟩ := pflips_in_range ws hw hS hl [uniform01 w] (by simpa using ⟨h0, h1'⟩)
    (pflips1 ws (uniform01 w)) (by simp [pflips])
  exact ⟨i, hi, hlt, pflips_positive_weight ws hw hS hl _ h0 i hi⟩

example : ∃ i, pflips1 [(⟨0⟩ : R), ⟨2⟩] (uniform01 0) = some i ∧ i < 2 ∧ 0 < (idxR [(⟨0⟩ : R), ⟨2⟩] i).val :=
  pflips_every_word _ (by simp) (by norm_num) (length_lt_fuel _ (by simp)) 0 (by norm_num)

/-! ## (f) `argmax`, `log_product` -/

-- @site argmax
/-- for NaN-free input (exact reals) `argmax` is the strictly increasing list of ALL indices of maximal elements -/
theorem argmax_spec (xs : List R) :
    (argmax xs).Pairwise (· < ·) ∧
      ∀ i, i ∈ argmax xs ↔ i < xs.length ∧ ∀ y ∈ xs, y.val ≤ (idxR xs i).val := by
  match xs with
  | [] => simp [argmax]
  | [x] =>
    refine ⟨by simp [argmax], fun i => ?_⟩
    simp only [argmax, List.mem_singleton, List.length_singleton, Nat.lt_one_iff]
    constructor
    · rintro rfl; exact ⟨rfl, fun y hy => by rw [hy]; exact le_refl _⟩
    · exact fun h => h.1
  | x0 :: x1 :: t =>
    have e : (enumL (x0 :: x1 :: t)).drop 1 = (List.range' 1 (x1 :: t).length).zip (x1 :: t) := by
      simp [enumL, List.range_eq_range', List.range'_succ]
    simp only [argmax, e]
    obtain ⟨h1, h2⟩ := argmaxLoop_spec (x1 :: t) 1 x0 [0] (by simp) (by simp)
    refine ⟨h1, fun i => ?_⟩
    rw [h2 i]
    have hidx0 : idxR (x0 :: x1 :: t) 0 = x0 := rfl
    have hidxS : ∀ j, idxR (x0 :: x1 :: t) (j + 1) = idxR (x1 :: t) j := fun j => rfl
    constructor
    · rintro (⟨hi, hm⟩ | ⟨j, hj, rfl, hm, hall⟩)
      · simp only [List.mem_singleton] at hi; subst hi
        refine ⟨by simp, fun y hy => ?_⟩
        rw [hidx0]
        rcases List.mem_cons.mp hy with rfl | hy
        · exact le_refl _
        · exact hm y hy
      · refine ⟨by simp at hj ⊢; omega, fun y hy => ?_⟩
        rw [Nat.add_comm, hidxS]
        rcases List.mem_cons.mp hy with rfl | hy
        · exact hm
        · exact hall y hy
    · rintro ⟨hi, hall⟩
      cases i with
      | zero =>
        refine Or.inl ⟨by simp, fun y hy => ?_⟩
        have := hall y (List.mem_cons_of_mem _ hy)
        rwa [hidx0] at this
      | succ j =>
        refine Or.inr ⟨j, by simp at hi ⊢; omega, by omega, ?_, fun y hy => ?_⟩
        · have := hall x0 (by simp); rwa [hidxS] at this
        · have := hall y (List.mem_cons_of_mem _ hy); rwa [hidxS] at this

example : 4 ∈ argmax [(⟨1⟩ : R), ⟨2⟩, ⟨3⟩, ⟨4⟩, ⟨5⟩, ⟨4⟩, ⟨5⟩] ∧ 6 ∈ argmax [(⟨1⟩ : R), ⟨2⟩, ⟨3⟩, ⟨4⟩, ⟨5⟩, ⟨4⟩, ⟨5⟩] ∧
    3 ∉ argmax [(⟨1⟩ : R), ⟨2⟩, ⟨3⟩, ⟨4⟩, ⟨5⟩, ⟨4⟩, ⟨5⟩] := by
  refine ⟨?_, ?_, ?_⟩ <;> rw [(argmax_spec _).2] <;> norm_num [idxR]

-- @site log_product
/-- over exact reals `log_product` of positive numbers is the logarithm of their product (no split is ever taken: the
    splits of the Rust code only react to binary64 overflow / underflow, which `R` does not have) -/
theorem logProduct_spec (xs : List R) (hx : ∀ x ∈ xs, 0 < x.val) :
    (logProduct xs).val = Real.log (xs.map R.val).prod := by
  unfold logProduct
  rw [logProductLoop_R xs (fun x hx' => (hx x hx').ne') _ _ (by norm_num)]
  norm_num

example : (logProduct [(⟨2⟩ : R), ⟨3⟩, ⟨4⟩]).val = Real.log 24 := by
  rw [logProduct_spec _ (by simp)]; norm_num

-- @site log_product
/-- special values (`X`): for finite non-negative inputs the result is `-inf` iff some input is `0`, and `ln Π xᵢ`
    otherwise; the empty product gives `0` -/
theorem logProduct_zero_spec (xs : List ℝ) (hx : ∀ x ∈ xs, 0 ≤ x) :
    logProduct (xs.map fin) = if (0:ℝ) ∈ xs then ninf else fin (Real.log xs.prod) := by
  unfold logProduct
  have h0 : (0.0 : X) = fin 0 := by norm_num
  have h1 : (1.0 : X) = fin 1 := by norm_num
  rw [h0, h1, logProductLoop_X xs hx 1 one_pos, one_mul]

example : logProduct ([2, 0, 3].map fin) = ninf := by
  rw [logProduct_zero_spec _ (by norm_num)]; norm_num

example : logProduct (([] : List ℝ).map fin) = fin 0 := by
  rw [logProduct_zero_spec _ (by simp)]; simp

/-! ## (g) Gumbel-max samplers `ln_pflip`, `gumbel_pflip` on `X` -/

-- @site ln_pflip
/-- `ln_pflip` (Gumbel keys `ln_w − ln(−ln u)`) with variates in `(0,1)` and log-weights in `ℝ ∪ {-inf}`, ANY number of
    them `-inf`: no comparison panics, the index is inside the vector, and it is not a `-inf` index unless all are `-inf`.
    PARTIAL.  Full statement, NOT proved: for independent `U₀,…,U_{n-1}` uniform on `(0,1)`,
      `P(ln_pflip lnw U = i) = exp(lnwᵢ) / Σⱼ exp(lnwⱼ)`   (Gumbel-max: `lnwᵢ − ln(−ln Uᵢ)` are independent Gumbel variables
    with locations `lnwᵢ`).  Missing: the joint law of `n` independent variates (a measure-theoretic statement outside the
    variate-function model); it is only tested statistically. -/
theorem lnPflip_total_partial (lnw us : List X) (hlen : us.length = lnw.length) (hne : lnw ≠ [])
    (hw : ∀ w ∈ lnw, IsFinOrNinf w)
    (hu : ∀ u ∈ us, ∃ a : ℝ, u = fin a ∧ 0 < a ∧ a < 1) :
    ∃ i, lnPflip lnw us = some i ∧ i < lnw.length ∧ (fins lnw ≠ [] → idxR lnw i ≠ ninf) := by
  obtain ⟨x, t, hitems, hmem, _, _, hex⟩ :=
    items_facts lnw (us.map (fun u => RealLike.ln (-(RealLike.ln u)))) (by simpa using hlen) hne
  have hg : ∀ it ∈ x :: t, GoodLn it := by
    intro it hit
    obtain ⟨h1, h2, h3⟩ := hmem it hit
    refine ⟨?_, ?_⟩
    · rw [h2, idxR_of_lt _ h1]; exact hw _ (List.getElem_mem _)
    · obtain ⟨u, hu', e⟩ := List.mem_map.mp h3
      obtain ⟨a, rfl, ha0, ha1⟩ := hu u hu'
      have hl : 0 < -Real.log a := by linarith [Real.log_neg ha0 ha1]
      exact ⟨Real.log (-Real.log a), by rw [← e, X.ln_fin_pos ha0, X.neg_fin, X.ln_fin_pos hl]⟩
  obtain ⟨b, hb, hbm, hfin⟩ := lnPflipLoop_total t x hg
  obtain ⟨hb1, hb2, _⟩ := hmem b hbm
  refine ⟨b.1, ?_, hb1, fun hf => ?_⟩
  · unfold lnPflip
    simp only [hitems, maxBy, hb, Option.map_some]
  · rw [← hb2]
    apply hfin
    -- a finite log-weight exists, hence an item with a finite log-weight
    have := exists_ne_ninf_of_fins lnw hf
    obtain ⟨w, hw', hwn⟩ := this
    obtain ⟨it, hit, e⟩ := hex w hw'
    exact ⟨it, hit, by rw [e]; exact hwn⟩

example : ∃ i, lnPflip [fin 0, ninf, ninf] [fin (1/2), fin (1/3), fin (1/4)] = some i ∧ i < 3 := by
  obtain ⟨i, h1, h2, _⟩ := lnPflip_total_partial [fin 0, ninf, ninf] [fin (1/2), fin (1/3), fin (1/4)] rfl
    (by simp) (by simp) (by
      intro u hu; simp at hu
      rcases hu with rfl | rfl | rfl
      · exact ⟨_, rfl, by norm_num, by norm_num⟩
      · exact ⟨_, rfl, by norm_num, by norm_num⟩
      · exact ⟨_, rfl, by norm_num, by norm_num⟩)
  exact ⟨i, h1, h2⟩

-- @site ln_pflip
/-- headline for `ln_pflip`: for EVERY list of 64-bit generator words (one per weight, mapped by `Open01`) the call does
    not panic, the index is inside the vector and its log-weight is not `-inf` unless all are -/
theorem lnPflip_every_word (lnw : List X) (hne : lnw ≠ []) (hw : ∀ w ∈ lnw, IsFinOrNinf w)
    (words : List Nat) (hlen : words.length = lnw.length) (hw64 : ∀ w ∈ words, w < 2 ^ 64) :
    ∃ i, lnPflip lnw (words.map open01) = some i ∧ i < lnw.length ∧ (fins lnw ≠ [] → idxR lnw i ≠ ninf) := by
  apply lnPflip_total_partial lnw _ (by simpa using hlen) hne hw
  intro u hu
  obtain ⟨w, hw', rfl⟩ := List.mem_map.mp hu
  obtain ⟨h1, h2⟩ := open01_range w (hw64 w hw')
  exact ⟨_, open01_X w, lt_of_lt_of_le (by positivity) h1, lt_of_le_of_lt h2 (by norm_num)⟩

/-- the former panic witnesses: two `-inf` log-weights; one `-inf` and the extreme words `0`, `2⁶⁴−1` -/
example : ∃ i, lnPflip [ninf, ninf] ([0, 2 ^ 64 - 1].map open01) = some i ∧ i < 2 := by
  obtain ⟨i, h1, h2, _⟩ := lnPflip_every_word [ninf, ninf] (by simp) (by simp) [0, 2 ^ 64 - 1] rfl (by
    intro w hw; simp at hw; rcases hw with rfl | rfl <;> norm_num)
  exact ⟨i, h1, h2⟩

example : ∃ i, lnPflip [ninf, fin 0] ([2 ^ 64 - 1, 0].map open01) = some i ∧ i < 2 ∧ idxR [ninf, fin 0] i ≠ ninf := by
  obtain ⟨i, h1, h2, h3⟩ := lnPflip_every_word [ninf, fin 0] (by simp) (by simp) [2 ^ 64 - 1, 0] rfl (by
    intro w hw; simp at hw; rcases hw with rfl | rfl <;> norm_num)
  exact ⟨i, h1, h2, h3 (by simp)⟩

-- @site ln_pflip
/-- all log-weights `-inf` (an invalid weight vector): every key is `-inf`, every comparison is `Equal`, the LAST index wins
    (`Iterator::max_by`) — no panic -/
theorem lnPflip_all_ninf (u1 u2 : ℝ) (h1 : 0 < u1 ∧ u1 < 1) (h2 : 0 < u2 ∧ u2 < 1) :
    lnPflip [ninf, ninf] [fin u1, fin u2] = some 1 := by
  have r2 : List.range 2 = [0, 1] := rfl
  have l1 : 0 < -Real.log u1 := by linarith [Real.log_neg h1.1 h1.2]
  have l2 : 0 < -Real.log u2 := by linarith [Real.log_neg h2.1 h2.2]
  simp [lnPflip, maxBy, maxByLoop, r2, X.ln_fin_pos h1.1, X.ln_fin_pos h2.1, X.ln_fin_pos l1, X.ln_fin_pos l2,
    lnCmp_ninf_ninf]

example : lnPflip [ninf, ninf] [fin (1/2), fin (1/2)] = some 1 :=
  lnPflip_all_ninf _ _ (by norm_num) (by norm_num)

-- @site gumbel_pflip
/-- `gumbel_pflip` with variates in `(0,1)` and finite non-negative weights: no comparison panics, the index is inside
    the vector and, as soon as one weight is positive, its weight is positive.
    PARTIAL.  Full statement, NOT proved: `P(gumbel_pflip w U = i) = wᵢ / Σⱼ wⱼ` for independent uniform `Uⱼ` (same missing
    ingredient as `lnPflip_total_partial`). -/
theorem gumbelPflip_total_partial (ws us : List X) (hlen : us.length = ws.length) (hne : ws ≠ [])
    (hw : ∀ w ∈ ws, ∃ a : ℝ, w = fin a ∧ 0 ≤ a)
    (hu : ∀ u ∈ us, ∃ a : ℝ, u = fin a ∧ 0 < a ∧ a < 1) :
    ∃ i, gumbelPflip ws us = some i ∧ i < ws.length ∧
      ((∃ w ∈ ws, ∃ a : ℝ, w = fin a ∧ 0 < a) → ∃ a : ℝ, idxR ws i = fin a ∧ 0 < a) := by
  obtain ⟨x, t, hitems, hmem, _, _, hex⟩ :=
    items_facts ws (us.map RealLike.ln) (by simpa using hlen) hne
  have hg : ∀ it ∈ x :: t, GoodG it := by
    intro it hit
    obtain ⟨h1, h2, h3⟩ := hmem it hit
    obtain ⟨w, hw1, hw2⟩ := hw (idxR ws it.1) (by rw [idxR_of_lt _ h1]; exact List.getElem_mem _)
    obtain ⟨u, hu', e⟩ := List.mem_map.mp h3
    obtain ⟨a, rfl, ha0, ha1⟩ := hu u hu'
    exact ⟨w, Real.log a, by rw [h2, hw1], hw2, by rw [← e, X.ln_fin_pos ha0], Real.log_neg ha0 ha1⟩
  have hpc : (x :: t).Pairwise (fun a b => gumbelCmp a b ≠ none) := by
    rw [List.pairwise_iff_forall_sublist]
    intro a b hab
    obtain ⟨w1, l1, e1, _, e1', _⟩ := hg a (hab.subset (by simp))
    obtain ⟨w2, l2, e2, _, e2', _⟩ := hg b (hab.subset (by simp))
    obtain ⟨i, wa, la⟩ := a
    obtain ⟨j, wb, lb⟩ := b
    simp only at e1 e1' e2 e2'
    subst e1 e1' e2 e2'
    rw [gumbelCmp_fin]; split_ifs <;> simp
  obtain ⟨b, hb, hbm⟩ := maxByLoop_some gumbelCmp t x hpc
  obtain ⟨hb1, hb2, _⟩ := hmem b hbm
  refine ⟨b.1, ?_, hb1, fun hpos => ?_⟩
  · unfold gumbelPflip
    simp only [hitems, maxBy, hb, Option.map_some]
  · rw [← hb2]
    have key := maxByLoop_inv gumbelCmp
      (fun best t => (∀ it ∈ best :: t, GoodG it) ∧
        ((∃ a : ℝ, best.2.1 = fin a ∧ 0 < a) ∨ ∃ y ∈ t, ∃ a : ℝ, y.2.1 = fin a ∧ 0 < a))
      ?_ ?_ t x b ⟨hg, ?_⟩ hb
    · rcases key.2 with h | ⟨y, hy, _⟩
      · exact h
      · simp at hy
    · -- `Greater`: the best stays; if its weight were `0` the comparison could not be `Greater`
      rintro best y t ⟨hg, hor⟩ hc
      refine ⟨fun it hit => hg it ?_, ?_⟩
      · rcases List.mem_cons.mp hit with rfl | h
        · simp
        · simp [h]
      · rcases hor with h | ⟨y', hy', h⟩
        · exact Or.inl h
        · rcases List.mem_cons.mp hy' with rfl | hy'
          · left
            obtain ⟨w1, l1, e1, hw1, e1', hl1⟩ := hg best (by simp)
            obtain ⟨w2, l2, e2, _, e2', hl2⟩ := hg y' (by simp)
            obtain ⟨a, ha, ha0⟩ := h
            obtain ⟨i, wa, la⟩ := best
            obtain ⟨j, wb, lb⟩ := y'
            simp only at e1 e1' e2 e2' ha
            subst e1 e1' e2
            rw [X.fin_inj_iff] at ha; subst ha; subst e2'
            refine ⟨w1, rfl, lt_of_le_of_ne hw1 (fun h0 => ?_)⟩
            subst h0
            rw [gumbelCmp_fin] at hc
            have h3 : w2 * l1 < 0 := mul_neg_of_pos_of_neg ha0 hl1
            simp [h3] at hc
          · exact Or.inr ⟨y', hy', h⟩
    · -- not `Greater`: `y` becomes the best; if its weight were `0` and the old best positive, it would be `Greater`
      rintro best y t o ⟨hg, hor⟩ hc ho
      refine ⟨fun it hit => hg it (by simp [hit]), ?_⟩
      rcases hor with h | ⟨y', hy', h⟩
      · obtain ⟨w1, l1, e1, hw1, e1', hl1⟩ := hg best (by simp)
        obtain ⟨w2, l2, e2, hw2, e2', hl2⟩ := hg y (by simp)
        obtain ⟨a, ha, ha0⟩ := h
        obtain ⟨i, wa, la⟩ := best
        obtain ⟨j, wb, lb⟩ := y
        simp only at e1 e1' e2 e2' ha
        subst e1 e1' e2 e2'
        rw [X.fin_inj_iff] at ha; subst ha
        left
        refine ⟨w2, rfl, lt_of_le_of_ne hw2 (fun h0 => ?_)⟩
        subst h0
        rw [gumbelCmp_fin] at hc
        have h1 : ¬ (0 * l1 < w1 * l2) := by nlinarith
        have h2 : ¬ (0 * l1 = w1 * l2) := by nlinarith
        simp only [h1, h2, if_false, Option.some.injEq] at hc
        exact ho hc.symm
      · rcases List.mem_cons.mp hy' with rfl | hy'
        · exact Or.inl h
        · exact Or.inr ⟨y', hy', h⟩
    · obtain ⟨w, hw', a, rfl, ha⟩ := hpos
      obtain ⟨it, hit, e⟩ := hex _ hw'
      rcases List.mem_cons.mp hit with rfl | hit
      · exact Or.inl ⟨a, e, ha⟩
      · exact Or.inr ⟨it, hit, a, e, ha⟩

example : ∃ i, gumbelPflip [fin 0, fin 2] [fin (1/2), fin (1/3)] = some i ∧ i < 2 := by
  obtain ⟨i, h1, h2, _⟩ := gumbelPflip_total_partial [fin 0, fin 2] [fin (1/2), fin (1/3)] rfl (by simp)
    (by intro w hw; simp at hw; rcases hw with rfl | rfl
        · exact ⟨0, rfl, le_refl _⟩
        · exact ⟨2, rfl, by norm_num⟩)
    (by intro u hu; simp at hu; rcases hu with rfl | rfl
        · exact ⟨_, rfl, by norm_num, by norm_num⟩
        · exact ⟨_, rfl, by norm_num, by norm_num⟩)
  exact ⟨i, h1, h2⟩

-- @site gumbel_pflip
/-- headline for `gumbel_pflip` (variates from `Open01` after the repair): for EVERY list of 64-bit generator words the
    call does not panic, the index is inside the vector and its weight is positive (weights finite, `≥ 0`, not all zero) -/
theorem gumbelPflip_every_word (ws : List X) (hne : ws ≠ []) (hw : ∀ w ∈ ws, ∃ a : ℝ, w = fin a ∧ 0 ≤ a)
    (words : List Nat) (hlen : words.length = ws.length) (hw64 : ∀ w ∈ words, w < 2 ^ 64) :
    ∃ i, gumbelPflip ws (words.map open01) = some i ∧ i < ws.length ∧
      ((∃ w ∈ ws, ∃ a : ℝ, w = fin a ∧ 0 < a) → ∃ a : ℝ, idxR ws i = fin a ∧ 0 < a) := by
  apply gumbelPflip_total_partial ws _ (by simpa using hlen) hne hw
  intro u hu
  obtain ⟨w, hw', rfl⟩ := List.mem_map.mp hu
  obtain ⟨h1, h2⟩ := open01_range w (hw64 w hw')
  exact ⟨_, open01_X w, lt_of_lt_of_le (by positivity) h1, lt_of_le_of_lt h2 (by norm_num)⟩

/-- the former panic witness: weights `[1, 0]`, generator words `0` and `2⁶³` -/
example : ∃ i, gumbelPflip [fin 1, fin 0] ([0, 2 ^ 63].map open01) = some i ∧ i < 2 ∧
    ∃ a : ℝ, idxR [fin 1, fin 0] i = fin a ∧ 0 < a := by
  obtain ⟨i, h1, h2, h3⟩ := gumbelPflip_every_word [fin 1, fin 0] (by simp)
    (by intro w hw; simp at hw; rcases hw with rfl | rfl
        · exact ⟨1, rfl, by norm_num⟩
        · exact ⟨0, rfl, le_refl _⟩)
    [0, 2 ^ 63] rfl (by intro w hw; simp at hw; rcases hw with rfl | rfl <;> norm_num)
  exact ⟨i, h1, h2, h3 ⟨fin 1, by simp, 1, rfl, by norm_num⟩⟩

/-! ## (h) `ln_pflips` = `pflips ∘ exp` -/

-- @site ln_pflips
/-- `ln_pflips` on log-weights in `ℝ ∪ {-inf}` (not all `-inf`) draws exactly what `pflips` draws on the weights
    `exp(ln wᵢ)` — `-inf` entries anywhere, `normed = false` (normalisation by `logsumexp`), or `normed = true` when the
    weights do sum to one — variate by variate (`X`-model of `ln_pflips` against the `R`-model of `pflips`). -/
theorem lnPflips_eq_pflips_exp (lnw : List X) (hw : ∀ w ∈ lnw, IsFinOrNinf w) (hfin : fins lnw ≠ [])
    (hl : FuelOK lnw.length) (normed : Bool)
    (hn : normed = true → ((fins lnw).map Real.exp).sum = 1) (us : List ℝ) :
    lnPflips lnw normed (us.map fin) = pflips (expWeights lnw) (us.map R.mk) := by
  have hS : 0 < ((fins lnw).map Real.exp).sum :=
    List.sum_pos _ (fun x hx => by
      obtain ⟨t, _, rfl⟩ := List.mem_map.mp hx; exact Real.exp_pos t) (by simpa using hfin)
  generalize hSdef : ((fins lnw).map Real.exp).sum = S at hS hn
  have hsum : (lnw.map expw).sum = S := by rw [sum_expw lnw hw, hSdef]
  have hne : expWeights lnw ≠ [] := by
    intro h
    have : lnw = [] := by simpa [expWeights] using h
    subst this; simp at hfin
  have hvals : (expWeights lnw).map R.val = lnw.map expw := by
    simp [expWeights, Function.comp_def]
  have hnonneg : ∀ w ∈ expWeights lnw, 0 ≤ w.val := by
    intro w hw'
    obtain ⟨x, hx, rfl⟩ := List.mem_map.mp hw'
    exact expw_nonneg x (hw x hx)
  -- the two lists of cumulative weights are images of the same real prefix sums
  have h1 : lnCws lnw normed = (scanL (fun (a x : ℝ) => a + x) 0 (lnw.map expw)).map (fun c => fin (c / S)) := by
    have h0 : (0.0 : X) = fin (0 / S) := by norm_num
    unfold lnCws
    cases normed with
    | true =>
      have hS1 : S = 1 := hn rfl
      simp only [if_true]
      rw [h0]
      exact scanL_ln S (0 / S) hS (by rw [hS1]; simp) lnw hw 0
    | false =>
      simp only [Bool.false_eq_true, if_false]
      rw [logsumexp_spec lnw hw, if_neg hfin, hSdef, h0]
      exact scanL_ln S _ hS rfl lnw hw 0
  have h2 : Gen.cumsum (expWeights lnw) = (scanL (fun (a x : ℝ) => a + x) 0 (lnw.map expw)).map R.mk := by
    have h0 : (0.0 : R) = R.mk 0 := R.ext' (by norm_num)
    have : expWeights lnw = (lnw.map expw).map R.mk := by simp [expWeights]
    unfold Gen.cumsum
    rw [h0, this, scanL_R]
  -- `total = cws.last()` is exactly `1` in exact arithmetic: `r = u · total = u`
  have hne' : lnw.map expw ≠ [] := by
    intro h; apply hne; simp [expWeights] at h ⊢; exact h
  have htot : (lnCws lnw normed).getLast?.getD (1.0 : X) = fin 1 := by
    rw [h1, List.getLast?_map, scanL_real_last _ hne' 0, zero_add, hsum]
    simp [div_self hS.ne']
  have hlhs : lnPflips lnw normed (us.map fin) =
      us.map (fun a => Gen.catflip (lnCws lnw normed) (fin a)) := by
    unfold lnPflips
    simp only [htot, List.map_map]
    apply List.map_congr_left
    intro a _
    simp
  rw [hlhs]
  unfold pflips
  rw [List.map_map]
  apply List.map_congr_left
  intro a _
  simp only [Function.comp]
  obtain ⟨r, hr, e⟩ := pflips1_eq (expWeights lnw) (R.mk a) hne
  rw [hvals, hsum] at hr
  rw [e, h1, h2]
  apply catflip_map_congr
  · intro c
    show decide (c ≤ r.val) = decide (c / S ≤ a)
    rw [decide_eq_decide, hr]
    exact (div_le_iff₀ hS).symm
  · intro c
    show decide (r.val < c) = decide (a < c / S)
    rw [decide_eq_decide, hr]
    exact (lt_div_iff₀ hS).symm
  · rw [← h2]; exact cumsum_sorted _ hnonneg
  · rw [scanL_length]; simpa using hl

example : lnPflips [fin 0, ninf, fin 0] false ([1/4, 3/4].map fin) =
    pflips (expWeights [fin 0, ninf, fin 0]) ([1/4, 3/4].map R.mk) :=
  lnPflips_eq_pflips_exp _ (by simp) (by simp) (length_lt_fuel _ (by simp)) false (by simp) _

-- @site ln_pflips
/-- hence, for every `Open01` variate (`0 < u < 1`, `open01_range`), every draw of `ln_pflips` is an index inside the
    vector whose log-weight is not `-inf` -/
theorem lnPflips_in_range_positive (lnw : List X) (hw : ∀ w ∈ lnw, IsFinOrNinf w) (hfin : fins lnw ≠ [])
    (hl : FuelOK lnw.length) (normed : Bool)
    (hn : normed = true → ((fins lnw).map Real.exp).sum = 1) (us : List ℝ) (hu : ∀ a ∈ us, 0 < a ∧ a < 1) :
    ∀ o ∈ lnPflips lnw normed (us.map fin), ∃ i, o = some i ∧ i < lnw.length ∧ idxR lnw i ≠ ninf := by
  have hS : 0 < ((fins lnw).map Real.exp).sum :=
    List.sum_pos _ (fun x hx => by
      obtain ⟨t, _, rfl⟩ := List.mem_map.mp hx; exact Real.exp_pos t) (by simpa using hfin)
  have hvals : (expWeights lnw).map R.val = lnw.map expw := by
    simp [expWeights, Function.comp_def]
  have hnonneg : ∀ w ∈ expWeights lnw, 0 ≤ w.val := by
    intro w hw'
    obtain ⟨x, hx, rfl⟩ := List.mem_map.mp hw'
    exact expw_nonneg x (hw x hx)
  have hS' : 0 < ((expWeights lnw).map R.val).sum := by rw [hvals, sum_expw lnw hw]; exact hS
  have hlen : (expWeights lnw).length = lnw.length := by simp [expWeights]
  rw [lnPflips_eq_pflips_exp lnw hw hfin hl normed hn us]
  intro o ho
  obtain ⟨i, rfl, hi⟩ := pflips_in_range (expWeights lnw) hnonneg hS' (by rwa [hlen]) (us.map R.mk) (by
    intro u hu'
    obtain ⟨a, ha, rfl⟩ := List.mem_map.mp hu'
    exact ⟨(hu a ha).1.le, (hu a ha).2⟩) o ho
  obtain ⟨u, hu', e⟩ := List.mem_map.mp ho
  obtain ⟨a, ha, rfl⟩ := List.mem_map.mp hu'
  have hpos := pflips_positive_weight (expWeights lnw) hnonneg hS' (by rwa [hlen]) (R.mk a)
    (hu a ha).1.le i e
  refine ⟨i, rfl, by rwa [hlen] at hi, fun hninf => ?_⟩
  rw [hlen] at hi
  unfold expWeights at hpos
  rw [idxR_map_lt lnw _ hi] at hpos
  rw [idxR_of_lt lnw hi] at hninf
  rw [hninf] at hpos
  simp at hpos

example : ∀ o ∈ lnPflips [fin 0, ninf, fin 0] false ([1/4, 3/4].map fin),
    ∃ i, o = some i ∧ i < 3 ∧ idxR [fin 0, ninf, fin 0] i ≠ ninf :=
  lnPflips_in_range_positive _ (by simp) (by simp) (length_lt_fuel _ (by simp)) false (by simp) _ (by
    intro a ha; simp at ha; rcases ha with rfl | rfl <;> norm_num)

-- @site ln_pflips
/-- headline for `ln_pflips`: for EVERY list of 64-bit generator words, every draw is an index inside the vector whose
    log-weight is not `-inf` (exact arithmetic; see the report for the binary64 rounding caveat at the top variate) -/
theorem lnPflips_every_word (lnw : List X) (hw : ∀ w ∈ lnw, IsFinOrNinf w) (hfin : fins lnw ≠ [])
    (hl : FuelOK lnw.length) (normed : Bool)
    (hn : normed = true → ((fins lnw).map Real.exp).sum = 1) (words : List Nat) (hw64 : ∀ w ∈ words, w < 2 ^ 64) :
    ∀ o ∈ lnPflips lnw normed (words.map open01), ∃ i, o = some i ∧ i < lnw.length ∧ idxR lnw i ≠ ninf := by
  have e : words.map (open01 : Nat → X) = (words.map (fun w => (open01 w : R).val)).map fin := by
    rw [List.map_map]; exact List.map_congr_left (fun w _ => open01_X w)
  rw [e]
  apply lnPflips_in_range_positive lnw hw hfin hl normed hn
  intro a ha
  obtain ⟨w, hw', rfl⟩ := List.mem_map.mp ha
  obtain ⟨h1, h2⟩ := open01_range w (hw64 w hw')
  exact ⟨lt_of_lt_of_le (by positivity) h1, lt_of_le_of_lt h2 (by norm_num)⟩

example : ∀ o ∈ lnPflips [fin 0, ninf, fin 0] false ([0, 2 ^ 64 - 1].map open01),
    ∃ i, o = some i ∧ i < 3 ∧ idxR [fin 0, ninf, fin 0] i ≠ ninf :=
  lnPflips_every_word _ (by simp) (by simp) (length_lt_fuel _ (by simp)) false (by simp) _ (by
    intro w hw; simp at hw; rcases hw with rfl | rfl <;> norm_num)

/-! ## (i) the binary64 rounding argument behind `r = u · total < total` (`pflip`, `pflips`, `ln_pflips`)

  `X` and `R` have no rounding, so there `u · total < total` is immediate from `u < 1`.  On binary64 the product is rounded;
  the samplers stay total because the rounded product is still strictly below `total`.  Integer model (Lemmas/C13B.lean,
  `rne`): `total = m · 2^e` with `2^52 ≤ m < 2^53` (a positive normal number), `u = k / 2^53` with `k ≤ 2^53 − 1` (all
  three variate maps; `open01` attains the top value), exact product `(k·m / 2^53) · 2^e`, result `rne (k·m) 53 · 2^e`
  when the product stays in the binade of `m − 1`.
  NOT modelled (left to the correspondence check on the real code): the exponent range (a `total` below `2^-1021` — min normal
  and subnormals — does round back to `total`; impossible for normalised weights), and the rounding of `total` itself. -/

-- @site ln_pflips
/-- `m` not a power of two: the top variate times `m` lies in `(m−1, m−½)` and rounds to `m − 1`, the predecessor of
    `total`; every smaller variate rounds to at most that (monotonicity of round-to-nearest-even) -/
theorem scaled_variate_rounds_below (m k : Nat) (h1 : 2 ^ 52 < m) (h2 : m < 2 ^ 53) (hk : k ≤ 2 ^ 53 - 1) :
    rne ((2 ^ 53 - 1) * m) 53 = m - 1 ∧ rne (k * m) 53 ≤ m - 1 := by
  have top : rne ((2 ^ 53 - 1) * m) 53 = m - 1 := by
    unfold rne
    simp only []
    norm_num at h1 h2 ⊢
    split_ifs <;> omega
  exact ⟨top, top ▸ rne_mono53 _ _ (Nat.mul_le_mul_right m hk)⟩

example : rne ((2 ^ 53 - 1) * (2 ^ 52 + 1)) 53 = 2 ^ 52 :=
  (scaled_variate_rounds_below (2 ^ 52 + 1) 0 (by norm_num) (by norm_num) (by norm_num)).1

-- @site ln_pflips
/-- `m = 2^52` (`total` a power of two, e.g. exactly `1.0`): the top product `(2^53 − 1) · 2^{e−1}` is representable in the
    binade below (spacing `2^{e−1}`, i.e. shift 52): no rounding at all, and it is `< total` -/
theorem scaled_variate_pow2 :
    rne ((2 ^ 53 - 1) * 2 ^ 52) 52 = 2 ^ 53 - 1 ∧ ((2 ^ 53 - 1) * 2 ^ 52) % 2 ^ 52 = 0 ∧ 2 ^ 53 - 1 < 2 * 2 ^ 52 := by
  refine ⟨?_, by norm_num, by norm_num⟩
  unfold rne
  norm_num

end C13

#print axioms C13.std01_range
#print axioms C13.std01_eq_zero_iff
#print axioms C13.open01_range
#print axioms C13.uniform01_range
#print axioms C13.uniform01_zero
#print axioms C13.catflip_standard_spec
#print axioms C13.catflip_standard_none
#print axioms C13.binary_search_spec
#print axioms C13.catflip_bisection_spec
#print axioms C13.catflip_bisection_none
#print axioms C13.catflip_bisection_eq_standard
#print axioms C13.catflip_agree
#print axioms C13.catflip_cumsum_iff
#print axioms C13.pflips_interval
#print axioms C13.pflips_leading_zero_weight
#print axioms C13.standard_cumsum_iff
#print axioms C13.bisection_cumsum_iff
#print axioms C13.pflip_eq_catflip_standard
#print axioms C13.pflip_interval
#print axioms C13.pflip_interval_length
#print axioms C13.pflip_in_range
#print axioms C13.pflip_positive_weight
#print axioms C13.pflip_supplied_sum
#print axioms C13.pflip_supplied_sum_counterexample
#print axioms C13.pflips_interval_small
#print axioms C13.pflips_interval_large
#print axioms C13.pflips_in_range
#print axioms C13.pflips_positive_weight
#print axioms C13.argmax_spec
#print axioms C13.logProduct_spec
#print axioms C13.logProduct_zero_spec
#print axioms C13.lnPflip_total_partial
#print axioms C13.lnPflip_every_word
#print axioms C13.lnPflip_all_ninf
#print axioms C13.gumbelPflip_total_partial
#print axioms C13.gumbelPflip_every_word
#print axioms C13.lnPflips_eq_pflips_exp
#print axioms C13.lnPflips_in_range_positive
#print axioms C13.pflip_every_word
#print axioms C13.lnPflips_every_word
#print axioms C13.pflips_every_word
#print axioms C13.scaled_variate_rounds_below
#print axioms C13.scaled_variate_pow2
