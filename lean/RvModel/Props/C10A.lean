import RvModel.ExtInst
import RvModel.Gen.Defs
import RvModel.Spec.C10
import RvModel.Lemmas.C10
import Mathlib.Tactic.NormNum.OfScientific
import Mathlib.Tactic.Linarith
import Mathlib.Tactic.SplitIfs
/-!
  C10 (part A): checked constructors and setters accept exactly the documented domain — carrier `X`
  (NaN, ±inf and "comparisons with NaN are false" are in the model).  Distributions: Bernoulli, Beta, BetaBinomial, Binomial, Cauchy, ChiSquared, Crp, Exponential, Gamma, Gaussian, Geometric, Gev, InvChiSquared, InvGamma, InvGaussian, Kumaraswamy, Laplace, LogNormal, NegBinomial.

  Per distribution `D` (argument order = documented order of `D::new`):
  * `D_new_ok_iff`          `(∃ d, new θ = .ok d) ↔ Spec.D.Valid θ` for ALL `θ` (case split on `nan|ninf|pinf|fin`);
  * `D_new_ok_fields`, `D_new_eq_unchecked`, `D_new_inv`;
  * `D_new_err_offending`   the error names an argument that is outside its domain, with its value as payload;
  * `D_new_err_first`       … and it is the FIRST such argument; where the code checks in another order:
                            `D_new_err_first_partial` + `D_new_err_order_counterexample` (witness checked on the real code);
  * `D_set_p_ok_iff / _err / _ok_fields / _atomic / _inv`, `D_build_eq` (setters ≡ `new`),
    `D_from_emit`, `D_new_eq_from_params`.
  "Never panics" is structural: every generated function is a total `Except`-valued function.
  `-- @site` names the generated definition a theorem is about.  Spec: `Spec/C10.lean` (from the rustdoc);
  tactics (`c10_close`, `c10_eval`, `c10_spec`, `c10_elem`) and the `try_for_each` lemmas: `Lemmas/C10.lean`.

  Proof pattern (robust against harmless rewrites of the Rust validation ladders): per distribution the generated
  definitions are section-local simp lemmas; semantic theorems split every `X` argument into `nan|ninf|pinf|fin r`
  and close by `simp` + linear arithmetic; structural theorems (`_ok_fields`, `_atomic`, …) only split the `if`s.
-/
set_option linter.unusedSimpArgs false
set_option linter.unnecessarySeqFocus false
set_option linter.unreachableTactic false
set_option linter.unusedTactic false
set_option linter.unusedVariables false
open X

namespace C10

attribute [local simp] Spec.C10.IsFin Spec.C10.IsPos Spec.C10.IsUnit Spec.C10.IsPosLeOne Spec.C10.IsGeOne
  Spec.C10.IsCircle Spec.C10.IsLt Spec.C10.IsNonneg

/-! ## Bernoulli  (`src/dist/bernoulli.rs`) -/
section Bernoulli
attribute [local simp] Gen.Bernoulli.emit_params Gen.Bernoulli.from_params Gen.Bernoulli.get_p Gen.Bernoulli.new Gen.Bernoulli.new_unchecked Gen.Bernoulli.set_p Gen.Bernoulli.set_p_unchecked Spec.Bernoulli.Valid Spec.Bernoulli.Inv

-- @site Bernoulli.new
/-- `Bernoulli::new` succeeds iff every parameter is in the documented domain — for ALL values incl. NaN, ±inf -/
theorem Bernoulli_new_ok_iff (p : X) :
    (∃ d, Gen.Bernoulli.new p = .ok d) ↔ Spec.Bernoulli.Valid p := by
  rcases p with _|_|_|p <;>
    (try simp) <;> c10_close

example : ∃ d, Gen.Bernoulli.new (fin (1/2)) = .ok d := (Bernoulli_new_ok_iff ..).mpr (by c10_spec [Spec.Bernoulli.Valid])

example : ¬ ∃ d, Gen.Bernoulli.new (fin 2) = .ok d := by rw [Bernoulli_new_ok_iff]; c10_spec [Spec.Bernoulli.Valid]

-- @site Bernoulli.new
/-- on success the object carries exactly the given parameters -/
theorem Bernoulli_new_ok_fields (p : X) (d : Gen.Bernoulli X) :
    Gen.Bernoulli.new p = .ok d → d = ({ p := p } : Gen.Bernoulli X) := by
  simp only [Gen.Bernoulli.emit_params, Gen.Bernoulli.from_params, Gen.Bernoulli.get_p, Gen.Bernoulli.new, Gen.Bernoulli.new_unchecked, Gen.Bernoulli.set_p, Gen.Bernoulli.set_p_unchecked]
  split_ifs <;> simp <;> c10_close

example : Gen.Bernoulli.new (fin (1/2)) = .ok ({ p := fin (1/2) } : Gen.Bernoulli X) := by c10_eval []

-- @site Bernoulli.new
/-- checked and unchecked constructors build the same object -/
theorem Bernoulli_new_eq_unchecked (p : X) (d : Gen.Bernoulli X) :
    Gen.Bernoulli.new p = .ok d → d = Gen.Bernoulli.new_unchecked p := by
  simp only [Gen.Bernoulli.emit_params, Gen.Bernoulli.from_params, Gen.Bernoulli.get_p, Gen.Bernoulli.new, Gen.Bernoulli.new_unchecked, Gen.Bernoulli.set_p, Gen.Bernoulli.set_p_unchecked]
  split_ifs <;> simp <;> c10_close

example : Gen.Bernoulli.new (fin (1/2)) = .ok (Gen.Bernoulli.new_unchecked (fin (1/2))) := by c10_eval []

-- @site Bernoulli.new
/-- an object obtained from the checked constructor satisfies the parameter invariant -/
theorem Bernoulli_new_inv (p : X) (d : Gen.Bernoulli X) :
    Gen.Bernoulli.new p = .ok d → Spec.Bernoulli.Inv d := by
  intro h
  rw [Bernoulli_new_ok_fields p d h]
  exact (Bernoulli_new_ok_iff p).mp ⟨d, h⟩

example : Spec.Bernoulli.Inv ({ p := fin (1/2) } : Gen.Bernoulli X) := Bernoulli_new_inv (fin (1/2)) _ (by c10_eval [])

-- @site Bernoulli.new
/-- on failure the error names an argument that IS outside its documented domain and carries its value -/
theorem Bernoulli_new_err_offending (p : X) (e : Err X) :
    Gen.Bernoulli.new p = .error e →
     (¬ Spec.C10.IsUnit p ∧ (e = Err.mk "PLessThanZero" [p] ∨ e = Err.mk "PGreaterThanOne" [p] ∨ e = Err.mk "PNotFinite" [p])) := by
  rcases p with _|_|_|p <;>
    (try simp) <;> c10_close

example : ∃ e, Gen.Bernoulli.new (fin 2) = .error e := by c10_eval []

-- @site Bernoulli.new
/-- on failure the error names the FIRST offending argument in documented (argument) order -/
theorem Bernoulli_new_err_first (p : X) (e : Err X) :
    Gen.Bernoulli.new p = .error e →
     (¬ Spec.C10.IsUnit p → (e = Err.mk "PLessThanZero" [p] ∨ e = Err.mk "PGreaterThanOne" [p] ∨ e = Err.mk "PNotFinite" [p])) := by
  rcases p with _|_|_|p <;>
    (try simp) <;> c10_close

example : ∃ e, Gen.Bernoulli.new (fin 2) = .error e := by c10_eval []

-- @site Bernoulli.set_p
/-- `set_p` succeeds iff the new value is in the documented domain of `p` (finite, in [0, 1]) -/
theorem Bernoulli_set_p_ok_iff (d : Gen.Bernoulli X) (v : X) :
    (∃ d', Gen.Bernoulli.set_p d v = .ok d') ↔ Spec.C10.IsUnit v := by
  rcases v with _|_|_|v <;>
    simp <;> c10_close

example : ∃ d', Gen.Bernoulli.set_p ({ p := fin (1/2) } : Gen.Bernoulli X) (fin (1/4)) = .ok d' := (Bernoulli_set_p_ok_iff ..).mpr (by c10_spec [])

-- @site Bernoulli.set_p
/-- on failure the error carries the offending value -/
theorem Bernoulli_set_p_err (d : Gen.Bernoulli X) (v : X) (e : Err X) :
    Gen.Bernoulli.set_p d v = .error e → ¬ Spec.C10.IsUnit v ∧ (e = Err.mk "PLessThanZero" [v] ∨ e = Err.mk "PGreaterThanOne" [v] ∨ e = Err.mk "PNotFinite" [v]) := by
  rcases v with _|_|_|v <;>
    simp <;> c10_close

example : ∃ e, Gen.Bernoulli.set_p ({ p := fin (1/2) } : Gen.Bernoulli X) (fin 2) = .error e := by c10_eval []

-- @site Bernoulli.set_p
/-- on success only that field (and its cache) changes; same object as the unchecked setter -/
theorem Bernoulli_set_p_ok_fields (d d' : Gen.Bernoulli X) (v : X) :
    Gen.Bernoulli.set_p d v = .ok d' → d' = { d with p := v } ∧ d' = Gen.Bernoulli.set_p_unchecked d v := by
  simp only [Gen.Bernoulli.emit_params, Gen.Bernoulli.from_params, Gen.Bernoulli.get_p, Gen.Bernoulli.new, Gen.Bernoulli.new_unchecked, Gen.Bernoulli.set_p, Gen.Bernoulli.set_p_unchecked]
  split_ifs <;> simp <;> c10_close

example : Gen.Bernoulli.set_p ({ p := fin (1/2) } : Gen.Bernoulli X) (fin (1/4)) = .ok ({ p := fin (1/4) } : Gen.Bernoulli X) := by c10_eval []

-- @site Bernoulli.set_p
/-- failure atomicity (structural): either an error without a new state, or exactly the updated state -/
theorem Bernoulli_set_p_atomic (d : Gen.Bernoulli X) (v : X) :
    (∃ e, Gen.Bernoulli.set_p d v = .error e) ∨ (∃ d', Gen.Bernoulli.set_p d v = .ok d' ∧ d' = { d with p := v }) := by
  simp only [Gen.Bernoulli.emit_params, Gen.Bernoulli.from_params, Gen.Bernoulli.get_p, Gen.Bernoulli.new, Gen.Bernoulli.new_unchecked, Gen.Bernoulli.set_p, Gen.Bernoulli.set_p_unchecked]
  split_ifs <;> simp <;> c10_close

example : ∃ e, Gen.Bernoulli.set_p ({ p := fin (1/2) } : Gen.Bernoulli X) (fin 2) = .error e := by c10_eval []

-- @site Bernoulli.set_p
/-- a successful checked setter preserves the parameter invariant -/
theorem Bernoulli_set_p_inv (d d' : Gen.Bernoulli X) (v : X) :
    Spec.Bernoulli.Inv d → Gen.Bernoulli.set_p d v = .ok d' → Spec.Bernoulli.Inv d' := by
  rcases d with ⟨f0⟩
  rcases v with _|_|_|v <;>
    simp <;> c10_close

example : Spec.Bernoulli.Inv ({ p := fin (1/2) } : Gen.Bernoulli X) := by c10_spec [Spec.Bernoulli.Inv, Spec.Bernoulli.Valid]

-- @site Bernoulli.new
/-- a sequence of accepted setters ending in parameters θ yields the object `new θ` builds -/
theorem Bernoulli_build_eq (d d1 : Gen.Bernoulli X) (p : X) :
    Gen.Bernoulli.set_p d p = .ok d1 →
    Gen.Bernoulli.new p = .ok d1 := by
  rcases d with ⟨f0⟩
  rcases p with _|_|_|p <;>
    (try simp) <;> c10_close

example : ∃ d', Gen.Bernoulli.set_p ({ p := fin (1/2) } : Gen.Bernoulli X) (fin (1/4)) = .ok d' := by c10_eval []

-- @site Bernoulli.from_params
/-- parameter round trip -/
theorem Bernoulli_from_emit (d : Gen.Bernoulli X) :
    Gen.Bernoulli.from_params (Gen.Bernoulli.emit_params d) = d := by
  rfl

example : Gen.Bernoulli.from_params (Gen.Bernoulli.emit_params ({ p := fin (1/2) } : Gen.Bernoulli X)) = ({ p := fin (1/2) } : Gen.Bernoulli X) := by c10_eval []

-- @site Bernoulli.from_params
/-- `from_params (emit_params ·)` is the identity on every object built by the checked constructor -/
theorem Bernoulli_new_eq_from_params (p : X) (d : Gen.Bernoulli X) :
    Gen.Bernoulli.new p = .ok d → Gen.Bernoulli.from_params (Gen.Bernoulli.emit_params d) = d := by
  simp only [Gen.Bernoulli.emit_params, Gen.Bernoulli.from_params, Gen.Bernoulli.get_p, Gen.Bernoulli.new, Gen.Bernoulli.new_unchecked, Gen.Bernoulli.set_p, Gen.Bernoulli.set_p_unchecked]
  split_ifs <;> simp <;> c10_close

example : Gen.Bernoulli.new (fin (1/2)) = .ok ({ p := fin (1/2) } : Gen.Bernoulli X) := by c10_eval []

end Bernoulli

/-! ## Beta  (`src/dist/beta.rs`) -/
section Beta
attribute [local simp] Gen.Beta.emit_params Gen.Beta.from_params Gen.Beta.get_alpha Gen.Beta.get_beta Gen.Beta.new Gen.Beta.new_unchecked Gen.Beta.set_alpha Gen.Beta.set_alpha_unchecked Gen.Beta.set_beta Gen.Beta.set_beta_unchecked Spec.Beta.Valid Spec.Beta.Inv

-- @site Beta.new
/-- `Beta::new` succeeds iff every parameter is in the documented domain — for ALL values incl. NaN, ±inf -/
theorem Beta_new_ok_iff (alpha : X) (beta : X) :
    (∃ d, Gen.Beta.new alpha beta = .ok d) ↔ Spec.Beta.Valid alpha beta := by
  rcases alpha with _|_|_|alpha <;> (try simp) <;>
    rcases beta with _|_|_|beta <;>
    (try simp) <;> c10_close

example : ∃ d, Gen.Beta.new (fin 2) (fin 2) = .ok d := (Beta_new_ok_iff ..).mpr (by c10_spec [Spec.Beta.Valid])

example : ¬ ∃ d, Gen.Beta.new (fin 0) (fin 2) = .ok d := by rw [Beta_new_ok_iff]; c10_spec [Spec.Beta.Valid]

-- @site Beta.new
/-- on success the object carries exactly the given parameters -/
theorem Beta_new_ok_fields (alpha : X) (beta : X) (d : Gen.Beta X) :
    Gen.Beta.new alpha beta = .ok d → d = ({ alpha := alpha, beta := beta } : Gen.Beta X) := by
  simp only [Gen.Beta.emit_params, Gen.Beta.from_params, Gen.Beta.get_alpha, Gen.Beta.get_beta, Gen.Beta.new, Gen.Beta.new_unchecked, Gen.Beta.set_alpha, Gen.Beta.set_alpha_unchecked, Gen.Beta.set_beta, Gen.Beta.set_beta_unchecked]
  split_ifs <;> simp <;> c10_close

example : Gen.Beta.new (fin 2) (fin 2) = .ok ({ alpha := fin 2, beta := fin 2 } : Gen.Beta X) := by c10_eval []

-- @site Beta.new
/-- checked and unchecked constructors build the same object -/
theorem Beta_new_eq_unchecked (alpha : X) (beta : X) (d : Gen.Beta X) :
    Gen.Beta.new alpha beta = .ok d → d = Gen.Beta.new_unchecked alpha beta := by
  simp only [Gen.Beta.emit_params, Gen.Beta.from_params, Gen.Beta.get_alpha, Gen.Beta.get_beta, Gen.Beta.new, Gen.Beta.new_unchecked, Gen.Beta.set_alpha, Gen.Beta.set_alpha_unchecked, Gen.Beta.set_beta, Gen.Beta.set_beta_unchecked]
  split_ifs <;> simp <;> c10_close

example : Gen.Beta.new (fin 2) (fin 2) = .ok (Gen.Beta.new_unchecked (fin 2) (fin 2)) := by c10_eval []

-- @site Beta.new
/-- an object obtained from the checked constructor satisfies the parameter invariant -/
theorem Beta_new_inv (alpha : X) (beta : X) (d : Gen.Beta X) :
    Gen.Beta.new alpha beta = .ok d → Spec.Beta.Inv d := by
  intro h
  rw [Beta_new_ok_fields alpha beta d h]
  exact (Beta_new_ok_iff alpha beta).mp ⟨d, h⟩

example : Spec.Beta.Inv ({ alpha := fin 2, beta := fin 2 } : Gen.Beta X) := Beta_new_inv (fin 2) (fin 2) _ (by c10_eval [])

-- @site Beta.new
/-- on failure the error names an argument that IS outside its documented domain and carries its value -/
theorem Beta_new_err_offending (alpha : X) (beta : X) (e : Err X) :
    Gen.Beta.new alpha beta = .error e →
     (¬ Spec.C10.IsPos alpha ∧ (e = Err.mk "AlphaTooLow" [alpha] ∨ e = Err.mk "AlphaNotFinite" [alpha])) ∨
     (¬ Spec.C10.IsPos beta ∧ (e = Err.mk "BetaTooLow" [beta] ∨ e = Err.mk "BetaNotFinite" [beta])) := by
  rcases alpha with _|_|_|alpha <;> (try simp) <;>
    rcases beta with _|_|_|beta <;>
    (try simp) <;> c10_close

example : ∃ e, Gen.Beta.new (fin 0) (fin 2) = .error e := by c10_eval []

-- @site Beta.new
/-- on failure the error names the FIRST offending argument in documented (argument) order -/
theorem Beta_new_err_first (alpha : X) (beta : X) (e : Err X) :
    Gen.Beta.new alpha beta = .error e →
     (¬ Spec.C10.IsPos alpha → (e = Err.mk "AlphaTooLow" [alpha] ∨ e = Err.mk "AlphaNotFinite" [alpha])) ∧
     (Spec.C10.IsPos alpha → ¬ Spec.C10.IsPos beta → (e = Err.mk "BetaTooLow" [beta] ∨ e = Err.mk "BetaNotFinite" [beta])) := by
  rcases alpha with _|_|_|alpha <;> (try simp) <;>
    rcases beta with _|_|_|beta <;>
    (try simp) <;> c10_close

example : ∃ e, Gen.Beta.new (fin 0) (fin 2) = .error e := by c10_eval []

-- @site Beta.set_alpha
/-- `set_alpha` succeeds iff the new value is in the documented domain of `alpha` (finite, > 0) -/
theorem Beta_set_alpha_ok_iff (d : Gen.Beta X) (v : X) :
    (∃ d', Gen.Beta.set_alpha d v = .ok d') ↔ Spec.C10.IsPos v := by
  rcases v with _|_|_|v <;>
    simp <;> c10_close

example : ∃ d', Gen.Beta.set_alpha ({ alpha := fin 2, beta := fin 2 } : Gen.Beta X) (fin 7) = .ok d' := (Beta_set_alpha_ok_iff ..).mpr (by c10_spec [])

-- @site Beta.set_alpha
/-- on failure the error carries the offending value -/
theorem Beta_set_alpha_err (d : Gen.Beta X) (v : X) (e : Err X) :
    Gen.Beta.set_alpha d v = .error e → ¬ Spec.C10.IsPos v ∧ (e = Err.mk "AlphaTooLow" [v] ∨ e = Err.mk "AlphaNotFinite" [v]) := by
  rcases v with _|_|_|v <;>
    simp <;> c10_close

example : ∃ e, Gen.Beta.set_alpha ({ alpha := fin 2, beta := fin 2 } : Gen.Beta X) (fin 0) = .error e := by c10_eval []

-- @site Beta.set_alpha
/-- on success only that field (and its cache) changes; same object as the unchecked setter -/
theorem Beta_set_alpha_ok_fields (d d' : Gen.Beta X) (v : X) :
    Gen.Beta.set_alpha d v = .ok d' → d' = { d with alpha := v } ∧ d' = Gen.Beta.set_alpha_unchecked d v := by
  simp only [Gen.Beta.emit_params, Gen.Beta.from_params, Gen.Beta.get_alpha, Gen.Beta.get_beta, Gen.Beta.new, Gen.Beta.new_unchecked, Gen.Beta.set_alpha, Gen.Beta.set_alpha_unchecked, Gen.Beta.set_beta, Gen.Beta.set_beta_unchecked]
  split_ifs <;> simp <;> c10_close

example : Gen.Beta.set_alpha ({ alpha := fin 2, beta := fin 2 } : Gen.Beta X) (fin 7) = .ok ({ alpha := fin 7, beta := fin 2 } : Gen.Beta X) := by c10_eval []

-- @site Beta.set_alpha
/-- failure atomicity (structural): either an error without a new state, or exactly the updated state -/
theorem Beta_set_alpha_atomic (d : Gen.Beta X) (v : X) :
    (∃ e, Gen.Beta.set_alpha d v = .error e) ∨ (∃ d', Gen.Beta.set_alpha d v = .ok d' ∧ d' = { d with alpha := v }) := by
  simp only [Gen.Beta.emit_params, Gen.Beta.from_params, Gen.Beta.get_alpha, Gen.Beta.get_beta, Gen.Beta.new, Gen.Beta.new_unchecked, Gen.Beta.set_alpha, Gen.Beta.set_alpha_unchecked, Gen.Beta.set_beta, Gen.Beta.set_beta_unchecked]
  split_ifs <;> simp <;> c10_close

example : ∃ e, Gen.Beta.set_alpha ({ alpha := fin 2, beta := fin 2 } : Gen.Beta X) (fin 0) = .error e := by c10_eval []

-- @site Beta.set_alpha
/-- a successful checked setter preserves the parameter invariant -/
theorem Beta_set_alpha_inv (d d' : Gen.Beta X) (v : X) :
    Spec.Beta.Inv d → Gen.Beta.set_alpha d v = .ok d' → Spec.Beta.Inv d' := by
  rcases d with ⟨f0, f1⟩
  rcases v with _|_|_|v <;>
    simp <;> c10_close

example : Spec.Beta.Inv ({ alpha := fin 2, beta := fin 2 } : Gen.Beta X) := by c10_spec [Spec.Beta.Inv, Spec.Beta.Valid]

-- @site Beta.set_beta
/-- `set_beta` succeeds iff the new value is in the documented domain of `beta` (finite, > 0) -/
theorem Beta_set_beta_ok_iff (d : Gen.Beta X) (v : X) :
    (∃ d', Gen.Beta.set_beta d v = .ok d') ↔ Spec.C10.IsPos v := by
  rcases v with _|_|_|v <;>
    simp <;> c10_close

example : ∃ d', Gen.Beta.set_beta ({ alpha := fin 2, beta := fin 2 } : Gen.Beta X) (fin 7) = .ok d' := (Beta_set_beta_ok_iff ..).mpr (by c10_spec [])

-- @site Beta.set_beta
/-- on failure the error carries the offending value -/
theorem Beta_set_beta_err (d : Gen.Beta X) (v : X) (e : Err X) :
    Gen.Beta.set_beta d v = .error e → ¬ Spec.C10.IsPos v ∧ (e = Err.mk "BetaTooLow" [v] ∨ e = Err.mk "BetaNotFinite" [v]) := by
  rcases v with _|_|_|v <;>
    simp <;> c10_close

example : ∃ e, Gen.Beta.set_beta ({ alpha := fin 2, beta := fin 2 } : Gen.Beta X) (fin 0) = .error e := by c10_eval []

-- @site Beta.set_beta
/-- on success only that field (and its cache) changes; same object as the unchecked setter -/
theorem Beta_set_beta_ok_fields (d d' : Gen.Beta X) (v : X) :
    Gen.Beta.set_beta d v = .ok d' → d' = { d with beta := v } ∧ d' = Gen.Beta.set_beta_unchecked d v := by
  simp only [Gen.Beta.emit_params, Gen.Beta.from_params, Gen.Beta.get_alpha, Gen.Beta.get_beta, Gen.Beta.new, Gen.Beta.new_unchecked, Gen.Beta.set_alpha, Gen.Beta.set_alpha_unchecked, Gen.Beta.set_beta, Gen.Beta.set_beta_unchecked]
  split_ifs <;> simp <;> c10_close

example : Gen.Beta.set_beta ({ alpha := fin 2, beta := fin 2 } : Gen.Beta X) (fin 7) = .ok ({ alpha := fin 2, beta := fin 7 } : Gen.Beta X) := by c10_eval []

-- @site Beta.set_beta
/-- failure atomicity (structural): either an error without a new state, or exactly the updated state -/
theorem Beta_set_beta_atomic (d : Gen.Beta X) (v : X) :
    (∃ e, Gen.Beta.set_beta d v = .error e) ∨ (∃ d', Gen.Beta.set_beta d v = .ok d' ∧ d' = { d with beta := v }) := by
  simp only [Gen.Beta.emit_params, Gen.Beta.from_params, Gen.Beta.get_alpha, Gen.Beta.get_beta, Gen.Beta.new, Gen.Beta.new_unchecked, Gen.Beta.set_alpha, Gen.Beta.set_alpha_unchecked, Gen.Beta.set_beta, Gen.Beta.set_beta_unchecked]
  split_ifs <;> simp <;> c10_close

example : ∃ e, Gen.Beta.set_beta ({ alpha := fin 2, beta := fin 2 } : Gen.Beta X) (fin 0) = .error e := by c10_eval []

-- @site Beta.set_beta
/-- a successful checked setter preserves the parameter invariant -/
theorem Beta_set_beta_inv (d d' : Gen.Beta X) (v : X) :
    Spec.Beta.Inv d → Gen.Beta.set_beta d v = .ok d' → Spec.Beta.Inv d' := by
  rcases d with ⟨f0, f1⟩
  rcases v with _|_|_|v <;>
    simp <;> c10_close

example : Spec.Beta.Inv ({ alpha := fin 2, beta := fin 2 } : Gen.Beta X) := by c10_spec [Spec.Beta.Inv, Spec.Beta.Valid]

-- @site Beta.new
/-- a sequence of accepted setters ending in parameters θ yields the object `new θ` builds -/
theorem Beta_build_eq (d d1 d2 : Gen.Beta X) (alpha : X) (beta : X) :
    Gen.Beta.set_alpha d alpha = .ok d1 →
    Gen.Beta.set_beta d1 beta = .ok d2 →
    Gen.Beta.new alpha beta = .ok d2 := by
  rcases d with ⟨f0, f1⟩
  rcases alpha with _|_|_|alpha <;> (try simp) <;>
    rcases beta with _|_|_|beta <;>
    (try simp) <;> c10_close

example : ∃ d', Gen.Beta.set_alpha ({ alpha := fin 2, beta := fin 2 } : Gen.Beta X) (fin 7) = .ok d' := by c10_eval []

-- @site Beta.from_params
/-- parameter round trip -/
theorem Beta_from_emit (d : Gen.Beta X) :
    Gen.Beta.from_params (Gen.Beta.emit_params d) = d := by
  rfl

example : Gen.Beta.from_params (Gen.Beta.emit_params ({ alpha := fin 2, beta := fin 2 } : Gen.Beta X)) = ({ alpha := fin 2, beta := fin 2 } : Gen.Beta X) := by c10_eval []

-- @site Beta.from_params
/-- `from_params (emit_params ·)` is the identity on every object built by the checked constructor -/
theorem Beta_new_eq_from_params (alpha : X) (beta : X) (d : Gen.Beta X) :
    Gen.Beta.new alpha beta = .ok d → Gen.Beta.from_params (Gen.Beta.emit_params d) = d := by
  simp only [Gen.Beta.emit_params, Gen.Beta.from_params, Gen.Beta.get_alpha, Gen.Beta.get_beta, Gen.Beta.new, Gen.Beta.new_unchecked, Gen.Beta.set_alpha, Gen.Beta.set_alpha_unchecked, Gen.Beta.set_beta, Gen.Beta.set_beta_unchecked]
  split_ifs <;> simp <;> c10_close

example : Gen.Beta.new (fin 2) (fin 2) = .ok ({ alpha := fin 2, beta := fin 2 } : Gen.Beta X) := by c10_eval []

end Beta

/-! ## BetaBinomial  (`src/dist/beta_binom.rs`) -/
section BetaBinomial
attribute [local simp] Gen.BetaBinomial.emit_params Gen.BetaBinomial.from_params Gen.BetaBinomial.get_alpha Gen.BetaBinomial.get_beta Gen.BetaBinomial.get_n Gen.BetaBinomial.new Gen.BetaBinomial.new_unchecked Gen.BetaBinomial.set_alpha Gen.BetaBinomial.set_alpha_unchecked Gen.BetaBinomial.set_beta Gen.BetaBinomial.set_beta_unchecked Gen.BetaBinomial.set_n Gen.BetaBinomial.set_n_unchecked Spec.BetaBinomial.Valid Spec.BetaBinomial.Inv

-- @site BetaBinomial.new
/-- `BetaBinomial::new` succeeds iff every parameter is in the documented domain — for ALL values incl. NaN, ±inf -/
theorem BetaBinomial_new_ok_iff (n : Nat) (alpha : X) (beta : X) :
    (∃ d, Gen.BetaBinomial.new n alpha beta = .ok d) ↔ Spec.BetaBinomial.Valid n alpha beta := by
  rcases alpha with _|_|_|alpha <;> (try simp) <;>
    rcases beta with _|_|_|beta <;>
    (try simp) <;> c10_close

example : ∃ d, Gen.BetaBinomial.new (3) (fin 2) (fin 2) = .ok d := (BetaBinomial_new_ok_iff ..).mpr (by c10_spec [Spec.BetaBinomial.Valid])

example : ¬ ∃ d, Gen.BetaBinomial.new (0) (fin 2) (fin 2) = .ok d := by rw [BetaBinomial_new_ok_iff]; c10_spec [Spec.BetaBinomial.Valid]

-- @site BetaBinomial.new
/-- on success the object carries exactly the given parameters -/
theorem BetaBinomial_new_ok_fields (n : Nat) (alpha : X) (beta : X) (d : Gen.BetaBinomial X) :
    Gen.BetaBinomial.new n alpha beta = .ok d → d = ({ n := n, alpha := alpha, beta := beta } : Gen.BetaBinomial X) := by
  simp only [Gen.BetaBinomial.emit_params, Gen.BetaBinomial.from_params, Gen.BetaBinomial.get_alpha, Gen.BetaBinomial.get_beta, Gen.BetaBinomial.get_n, Gen.BetaBinomial.new, Gen.BetaBinomial.new_unchecked, Gen.BetaBinomial.set_alpha, Gen.BetaBinomial.set_alpha_unchecked, Gen.BetaBinomial.set_beta, Gen.BetaBinomial.set_beta_unchecked, Gen.BetaBinomial.set_n, Gen.BetaBinomial.set_n_unchecked]
  split_ifs <;> simp <;> c10_close

example : Gen.BetaBinomial.new (3) (fin 2) (fin 2) = .ok ({ n := 3, alpha := fin 2, beta := fin 2 } : Gen.BetaBinomial X) := by c10_eval []

-- @site BetaBinomial.new
/-- checked and unchecked constructors build the same object -/
theorem BetaBinomial_new_eq_unchecked (n : Nat) (alpha : X) (beta : X) (d : Gen.BetaBinomial X) :
    Gen.BetaBinomial.new n alpha beta = .ok d → d = Gen.BetaBinomial.new_unchecked n alpha beta := by
  simp only [Gen.BetaBinomial.emit_params, Gen.BetaBinomial.from_params, Gen.BetaBinomial.get_alpha, Gen.BetaBinomial.get_beta, Gen.BetaBinomial.get_n, Gen.BetaBinomial.new, Gen.BetaBinomial.new_unchecked, Gen.BetaBinomial.set_alpha, Gen.BetaBinomial.set_alpha_unchecked, Gen.BetaBinomial.set_beta, Gen.BetaBinomial.set_beta_unchecked, Gen.BetaBinomial.set_n, Gen.BetaBinomial.set_n_unchecked]
  split_ifs <;> simp <;> c10_close

example : Gen.BetaBinomial.new (3) (fin 2) (fin 2) = .ok (Gen.BetaBinomial.new_unchecked (3) (fin 2) (fin 2)) := by c10_eval []

-- @site BetaBinomial.new
/-- an object obtained from the checked constructor satisfies the parameter invariant -/
theorem BetaBinomial_new_inv (n : Nat) (alpha : X) (beta : X) (d : Gen.BetaBinomial X) :
    Gen.BetaBinomial.new n alpha beta = .ok d → Spec.BetaBinomial.Inv d := by
  intro h
  rw [BetaBinomial_new_ok_fields n alpha beta d h]
  exact (BetaBinomial_new_ok_iff n alpha beta).mp ⟨d, h⟩

example : Spec.BetaBinomial.Inv ({ n := 3, alpha := fin 2, beta := fin 2 } : Gen.BetaBinomial X) := BetaBinomial_new_inv (3) (fin 2) (fin 2) _ (by c10_eval [])

-- @site BetaBinomial.new
/-- on failure the error names an argument that IS outside its documented domain and carries its value -/
theorem BetaBinomial_new_err_offending (n : Nat) (alpha : X) (beta : X) (e : Err X) :
    Gen.BetaBinomial.new n alpha beta = .error e →
     (¬ 0 < n ∧ (e = Err.mk "NIsZero" [])) ∨
     (¬ Spec.C10.IsPos alpha ∧ (e = Err.mk "AlphaTooLow" [alpha] ∨ e = Err.mk "AlphaNotFinite" [alpha])) ∨
     (¬ Spec.C10.IsPos beta ∧ (e = Err.mk "BetaTooLow" [beta] ∨ e = Err.mk "BetaNotFinite" [beta])) := by
  rcases alpha with _|_|_|alpha <;> (try simp) <;>
    rcases beta with _|_|_|beta <;>
    (try simp) <;> c10_close

example : ∃ e, Gen.BetaBinomial.new (0) (fin 2) (fin 2) = .error e := by c10_eval []

/- FULL STATEMENT (false, see the counterexample below — the code checks alpha, beta and only then n (first argument)):
   theorem BetaBinomial_new_err_first (n : Nat) (alpha : X) (beta : X) (e : Err X) :
     Gen.BetaBinomial.new n alpha beta = .error e →
     (¬ 0 < n → (e = Err.mk "NIsZero" [])) ∧
     (0 < n → ¬ Spec.C10.IsPos alpha → (e = Err.mk "AlphaTooLow" [alpha] ∨ e = Err.mk "AlphaNotFinite" [alpha])) ∧
     (0 < n → Spec.C10.IsPos alpha → ¬ Spec.C10.IsPos beta → (e = Err.mk "BetaTooLow" [beta] ∨ e = Err.mk "BetaNotFinite" [beta]))
-/

-- @site BetaBinomial.new
/-- first-offending-argument order holds only under the extra hypotheses; the code checks alpha, beta and only then n (first argument) -/
theorem BetaBinomial_new_err_first_partial (n : Nat) (alpha : X) (beta : X) (e : Err X) :
    0 < n → Gen.BetaBinomial.new n alpha beta = .error e →
     (¬ 0 < n → (e = Err.mk "NIsZero" [])) ∧
     (0 < n → ¬ Spec.C10.IsPos alpha → (e = Err.mk "AlphaTooLow" [alpha] ∨ e = Err.mk "AlphaNotFinite" [alpha])) ∧
     (0 < n → Spec.C10.IsPos alpha → ¬ Spec.C10.IsPos beta → (e = Err.mk "BetaTooLow" [beta] ∨ e = Err.mk "BetaNotFinite" [beta])) := by
  rcases alpha with _|_|_|alpha <;> (try simp) <;>
    rcases beta with _|_|_|beta <;>
    (try simp) <;> c10_close

example : ∃ e, Gen.BetaBinomial.new (3) (fin 2) (fin 0) = .error e := by c10_eval []

-- @site BetaBinomial.new
/-- DEFECT (order clause only): an earlier argument is invalid but the error names a later one; the code checks alpha, beta and only then n (first argument) -/
theorem BetaBinomial_new_err_order_counterexample :
    ¬ (0 < (0 : Nat)) ∧
    Gen.BetaBinomial.new (0) (fin (-1)) (fin 1) = .error (Err.mk "AlphaTooLow" [fin (-1)] : Err X) := by
  c10_eval []

-- @site BetaBinomial.set_n
/-- `set_n` succeeds iff the new value is in the documented domain of `n` (> 0) -/
theorem BetaBinomial_set_n_ok_iff (d : Gen.BetaBinomial X) (v : Nat) :
    (∃ d', Gen.BetaBinomial.set_n d v = .ok d') ↔ 0 < v := by
  simp <;> c10_close

example : ∃ d', Gen.BetaBinomial.set_n ({ n := 3, alpha := fin 2, beta := fin 2 } : Gen.BetaBinomial X) (4) = .ok d' := (BetaBinomial_set_n_ok_iff ..).mpr (by c10_spec [])

-- @site BetaBinomial.set_n
/-- on failure the error carries the offending value -/
theorem BetaBinomial_set_n_err (d : Gen.BetaBinomial X) (v : Nat) (e : Err X) :
    Gen.BetaBinomial.set_n d v = .error e → ¬ 0 < v ∧ (e = Err.mk "NIsZero" []) := by
  simp <;> c10_close

example : ∃ e, Gen.BetaBinomial.set_n ({ n := 3, alpha := fin 2, beta := fin 2 } : Gen.BetaBinomial X) (0) = .error e := by c10_eval []

-- @site BetaBinomial.set_n
/-- on success only that field (and its cache) changes; same object as the unchecked setter -/
theorem BetaBinomial_set_n_ok_fields (d d' : Gen.BetaBinomial X) (v : Nat) :
    Gen.BetaBinomial.set_n d v = .ok d' → d' = { d with n := v } ∧ d' = Gen.BetaBinomial.set_n_unchecked d v := by
  simp only [Gen.BetaBinomial.emit_params, Gen.BetaBinomial.from_params, Gen.BetaBinomial.get_alpha, Gen.BetaBinomial.get_beta, Gen.BetaBinomial.get_n, Gen.BetaBinomial.new, Gen.BetaBinomial.new_unchecked, Gen.BetaBinomial.set_alpha, Gen.BetaBinomial.set_alpha_unchecked, Gen.BetaBinomial.set_beta, Gen.BetaBinomial.set_beta_unchecked, Gen.BetaBinomial.set_n, Gen.BetaBinomial.set_n_unchecked]
  split_ifs <;> simp <;> c10_close

example : Gen.BetaBinomial.set_n ({ n := 3, alpha := fin 2, beta := fin 2 } : Gen.BetaBinomial X) (4) = .ok ({ n := 4, alpha := fin 2, beta := fin 2 } : Gen.BetaBinomial X) := by c10_eval []

-- @site BetaBinomial.set_n
/-- failure atomicity (structural): either an error without a new state, or exactly the updated state -/
theorem BetaBinomial_set_n_atomic (d : Gen.BetaBinomial X) (v : Nat) :
    (∃ e, Gen.BetaBinomial.set_n d v = .error e) ∨ (∃ d', Gen.BetaBinomial.set_n d v = .ok d' ∧ d' = { d with n := v }) := by
  simp only [Gen.BetaBinomial.emit_params, Gen.BetaBinomial.from_params, Gen.BetaBinomial.get_alpha, Gen.BetaBinomial.get_beta, Gen.BetaBinomial.get_n, Gen.BetaBinomial.new, Gen.BetaBinomial.new_unchecked, Gen.BetaBinomial.set_alpha, Gen.BetaBinomial.set_alpha_unchecked, Gen.BetaBinomial.set_beta, Gen.BetaBinomial.set_beta_unchecked, Gen.BetaBinomial.set_n, Gen.BetaBinomial.set_n_unchecked]
  split_ifs <;> simp <;> c10_close

example : ∃ e, Gen.BetaBinomial.set_n ({ n := 3, alpha := fin 2, beta := fin 2 } : Gen.BetaBinomial X) (0) = .error e := by c10_eval []

-- @site BetaBinomial.set_n
/-- a successful checked setter preserves the parameter invariant -/
theorem BetaBinomial_set_n_inv (d d' : Gen.BetaBinomial X) (v : Nat) :
    Spec.BetaBinomial.Inv d → Gen.BetaBinomial.set_n d v = .ok d' → Spec.BetaBinomial.Inv d' := by
  rcases d with ⟨f0, f1, f2⟩
  simp <;> c10_close

example : Spec.BetaBinomial.Inv ({ n := 3, alpha := fin 2, beta := fin 2 } : Gen.BetaBinomial X) := by c10_spec [Spec.BetaBinomial.Inv, Spec.BetaBinomial.Valid]

-- @site BetaBinomial.set_alpha
/-- `set_alpha` succeeds iff the new value is in the documented domain of `alpha` (finite, > 0) -/
theorem BetaBinomial_set_alpha_ok_iff (d : Gen.BetaBinomial X) (v : X) :
    (∃ d', Gen.BetaBinomial.set_alpha d v = .ok d') ↔ Spec.C10.IsPos v := by
  rcases v with _|_|_|v <;>
    simp <;> c10_close

example : ∃ d', Gen.BetaBinomial.set_alpha ({ n := 3, alpha := fin 2, beta := fin 2 } : Gen.BetaBinomial X) (fin 7) = .ok d' := (BetaBinomial_set_alpha_ok_iff ..).mpr (by c10_spec [])

-- @site BetaBinomial.set_alpha
/-- on failure the error carries the offending value -/
theorem BetaBinomial_set_alpha_err (d : Gen.BetaBinomial X) (v : X) (e : Err X) :
    Gen.BetaBinomial.set_alpha d v = .error e → ¬ Spec.C10.IsPos v ∧ (e = Err.mk "AlphaTooLow" [v] ∨ e = Err.mk "AlphaNotFinite" [v]) := by
  rcases v with _|_|_|v <;>
    simp <;> c10_close

example : ∃ e, Gen.BetaBinomial.set_alpha ({ n := 3, alpha := fin 2, beta := fin 2 } : Gen.BetaBinomial X) (fin 0) = .error e := by c10_eval []

-- @site BetaBinomial.set_alpha
/-- on success only that field (and its cache) changes; same object as the unchecked setter -/
theorem BetaBinomial_set_alpha_ok_fields (d d' : Gen.BetaBinomial X) (v : X) :
    Gen.BetaBinomial.set_alpha d v = .ok d' → d' = { d with alpha := v } ∧ d' = Gen.BetaBinomial.set_alpha_unchecked d v := by
  simp only [Gen.BetaBinomial.emit_params, Gen.BetaBinomial.from_params, Gen.BetaBinomial.get_alpha, Gen.BetaBinomial.get_beta, Gen.BetaBinomial.get_n, Gen.BetaBinomial.new, Gen.BetaBinomial.new_unchecked, Gen.BetaBinomial.set_alpha, Gen.BetaBinomial.set_alpha_unchecked, Gen.BetaBinomial.set_beta, Gen.BetaBinomial.set_beta_unchecked, Gen.BetaBinomial.set_n, Gen.BetaBinomial.set_n_unchecked]
  split_ifs <;> simp <;> c10_close

example : Gen.BetaBinomial.set_alpha ({ n := 3, alpha := fin 2, beta := fin 2 } : Gen.BetaBinomial X) (fin 7) = .ok ({ n := 3, alpha := fin 7, beta := fin 2 } : Gen.BetaBinomial X) := by c10_eval []

-- @site BetaBinomial.set_alpha
/-- failure atomicity (structural): either an error without a new state, or exactly the updated state -/
theorem BetaBinomial_set_alpha_atomic (d : Gen.BetaBinomial X) (v : X) :
    (∃ e, Gen.BetaBinomial.set_alpha d v = .error e) ∨ (∃ d', Gen.BetaBinomial.set_alpha d v = .ok d' ∧ d' = { d with alpha := v }) := by
  simp only [Gen.BetaBinomial.emit_params, Gen.BetaBinomial.from_params, Gen.BetaBinomial.get_alpha, Gen.BetaBinomial.get_beta, Gen.BetaBinomial.get_n, Gen.BetaBinomial.new, Gen.BetaBinomial.new_unchecked, Gen.BetaBinomial.set_alpha, Gen.BetaBinomial.set_alpha_unchecked, Gen.BetaBinomial.set_beta, Gen.BetaBinomial.set_beta_unchecked, Gen.BetaBinomial.set_n, Gen.BetaBinomial.set_n_unchecked]
  split_ifs <;> simp <;> c10_close

example : ∃ e, Gen.BetaBinomial.set_alpha ({ n := 3, alpha := fin 2, beta := fin 2 } : Gen.BetaBinomial X) (fin 0) = .error e := by c10_eval []

-- @site BetaBinomial.set_alpha
/-- a successful checked setter preserves the parameter invariant -/
theorem BetaBinomial_set_alpha_inv (d d' : Gen.BetaBinomial X) (v : X) :
    Spec.BetaBinomial.Inv d → Gen.BetaBinomial.set_alpha d v = .ok d' → Spec.BetaBinomial.Inv d' := by
  rcases d with ⟨f0, f1, f2⟩
  rcases v with _|_|_|v <;>
    simp <;> c10_close

example : Spec.BetaBinomial.Inv ({ n := 3, alpha := fin 2, beta := fin 2 } : Gen.BetaBinomial X) := by c10_spec [Spec.BetaBinomial.Inv, Spec.BetaBinomial.Valid]

-- @site BetaBinomial.set_beta
/-- `set_beta` succeeds iff the new value is in the documented domain of `beta` (finite, > 0) -/
theorem BetaBinomial_set_beta_ok_iff (d : Gen.BetaBinomial X) (v : X) :
    (∃ d', Gen.BetaBinomial.set_beta d v = .ok d') ↔ Spec.C10.IsPos v := by
  rcases v with _|_|_|v <;>
    simp <;> c10_close

example : ∃ d', Gen.BetaBinomial.set_beta ({ n := 3, alpha := fin 2, beta := fin 2 } : Gen.BetaBinomial X) (fin 7) = .ok d' := (BetaBinomial_set_beta_ok_iff ..).mpr (by c10_spec [])

-- @site BetaBinomial.set_beta
/-- on failure the error carries the offending value -/
theorem BetaBinomial_set_beta_err (d : Gen.BetaBinomial X) (v : X) (e : Err X) :
    Gen.BetaBinomial.set_beta d v = .error e → ¬ Spec.C10.IsPos v ∧ (e = Err.mk "BetaTooLow" [v] ∨ e = Err.mk "BetaNotFinite" [v]) := by
  rcases v with _|_|_|v <;>
    simp <;> c10_close

example : ∃ e, Gen.BetaBinomial.set_beta ({ n := 3, alpha := fin 2, beta := fin 2 } : Gen.BetaBinomial X) (fin 0) = .error e := by c10_eval []

-- @site BetaBinomial.set_beta
/-- on success only that field (and its cache) changes; same object as the unchecked setter -/
theorem BetaBinomial_set_beta_ok_fields (d d' : Gen.BetaBinomial X) (v : X) :
    Gen.BetaBinomial.set_beta d v = .ok d' → d' = { d with beta := v } ∧ d' = Gen.BetaBinomial.set_beta_unchecked d v := by
  simp only [Gen.BetaBinomial.emit_params, Gen.BetaBinomial.from_params, Gen.BetaBinomial.get_alpha, Gen.BetaBinomial.get_beta, Gen.BetaBinomial.get_n, Gen.BetaBinomial.new, Gen.BetaBinomial.new_unchecked, Gen.BetaBinomial.set_alpha, Gen.BetaBinomial.set_alpha_unchecked, Gen.BetaBinomial.set_beta, Gen.BetaBinomial.set_beta_unchecked, Gen.BetaBinomial.set_n, Gen.BetaBinomial.set_n_unchecked]
  split_ifs <;> simp <;> c10_close

example : Gen.BetaBinomial.set_beta ({ n := 3, alpha := fin 2, beta := fin 2 } : Gen.BetaBinomial X) (fin 7) = .ok ({ n := 3, alpha := fin 2, beta := fin 7 } : Gen.BetaBinomial X) := by c10_eval []

-- @site BetaBinomial.set_beta
/-- failure atomicity (structural): either an error without a new state, or exactly the updated state -/
theorem BetaBinomial_set_beta_atomic (d : Gen.BetaBinomial X) (v : X) :
    (∃ e, Gen.BetaBinomial.set_beta d v = .error e) ∨ (∃ d', Gen.BetaBinomial.set_beta d v = .ok d' ∧ d' = { d with beta := v }) := by
  simp only [Gen.BetaBinomial.emit_params, Gen.BetaBinomial.from_params, Gen.BetaBinomial.get_alpha, Gen.BetaBinomial.get_beta, Gen.BetaBinomial.get_n, Gen.BetaBinomial.new, Gen.BetaBinomial.new_unchecked, Gen.BetaBinomial.set_alpha, Gen.BetaBinomial.set_alpha_unchecked, Gen.BetaBinomial.set_beta, Gen.BetaBinomial.set_beta_unchecked, Gen.BetaBinomial.set_n, Gen.BetaBinomial.set_n_unchecked]
  split_ifs <;> simp <;> c10_close

example : ∃ e, Gen.BetaBinomial.set_beta ({ n := 3, alpha := fin 2, beta := fin 2 } : Gen.BetaBinomial X) (fin 0) = .error e := by c10_eval []

-- @site BetaBinomial.set_beta
/-- a successful checked setter preserves the parameter invariant -/
theorem BetaBinomial_set_beta_inv (d d' : Gen.BetaBinomial X) (v : X) :
    Spec.BetaBinomial.Inv d → Gen.BetaBinomial.set_beta d v = .ok d' → Spec.BetaBinomial.Inv d' := by
  rcases d with ⟨f0, f1, f2⟩
  rcases v with _|_|_|v <;>
    simp <;> c10_close

example : Spec.BetaBinomial.Inv ({ n := 3, alpha := fin 2, beta := fin 2 } : Gen.BetaBinomial X) := by c10_spec [Spec.BetaBinomial.Inv, Spec.BetaBinomial.Valid]

-- @site BetaBinomial.new
/-- a sequence of accepted setters ending in parameters θ yields the object `new θ` builds -/
theorem BetaBinomial_build_eq (d d1 d2 d3 : Gen.BetaBinomial X) (n : Nat) (alpha : X) (beta : X) :
    Gen.BetaBinomial.set_n d n = .ok d1 →
    Gen.BetaBinomial.set_alpha d1 alpha = .ok d2 →
    Gen.BetaBinomial.set_beta d2 beta = .ok d3 →
    Gen.BetaBinomial.new n alpha beta = .ok d3 := by
  rcases d with ⟨f0, f1, f2⟩
  rcases alpha with _|_|_|alpha <;> (try simp) <;>
    rcases beta with _|_|_|beta <;>
    (try simp) <;> c10_close

example : ∃ d', Gen.BetaBinomial.set_n ({ n := 3, alpha := fin 2, beta := fin 2 } : Gen.BetaBinomial X) (4) = .ok d' := by c10_eval []

-- @site BetaBinomial.from_params
/-- parameter round trip -/
theorem BetaBinomial_from_emit (d : Gen.BetaBinomial X) :
    Gen.BetaBinomial.from_params (Gen.BetaBinomial.emit_params d) = d := by
  rfl

example : Gen.BetaBinomial.from_params (Gen.BetaBinomial.emit_params ({ n := 3, alpha := fin 2, beta := fin 2 } : Gen.BetaBinomial X)) = ({ n := 3, alpha := fin 2, beta := fin 2 } : Gen.BetaBinomial X) := by c10_eval []

-- @site BetaBinomial.from_params
/-- `from_params (emit_params ·)` is the identity on every object built by the checked constructor -/
theorem BetaBinomial_new_eq_from_params (n : Nat) (alpha : X) (beta : X) (d : Gen.BetaBinomial X) :
    Gen.BetaBinomial.new n alpha beta = .ok d → Gen.BetaBinomial.from_params (Gen.BetaBinomial.emit_params d) = d := by
  simp only [Gen.BetaBinomial.emit_params, Gen.BetaBinomial.from_params, Gen.BetaBinomial.get_alpha, Gen.BetaBinomial.get_beta, Gen.BetaBinomial.get_n, Gen.BetaBinomial.new, Gen.BetaBinomial.new_unchecked, Gen.BetaBinomial.set_alpha, Gen.BetaBinomial.set_alpha_unchecked, Gen.BetaBinomial.set_beta, Gen.BetaBinomial.set_beta_unchecked, Gen.BetaBinomial.set_n, Gen.BetaBinomial.set_n_unchecked]
  split_ifs <;> simp <;> c10_close

example : Gen.BetaBinomial.new (3) (fin 2) (fin 2) = .ok ({ n := 3, alpha := fin 2, beta := fin 2 } : Gen.BetaBinomial X) := by c10_eval []

end BetaBinomial

/-! ## Binomial  (`src/dist/binomial.rs`) -/
section Binomial
attribute [local simp] Gen.Binomial.emit_params Gen.Binomial.from_params Gen.Binomial.get_n Gen.Binomial.get_p Gen.Binomial.new Gen.Binomial.new_unchecked Gen.Binomial.set_n Gen.Binomial.set_n_unchecked Gen.Binomial.set_p Gen.Binomial.set_p_unchecked Spec.Binomial.Valid Spec.Binomial.Inv

-- @site Binomial.new
/-- `Binomial::new` succeeds iff every parameter is in the documented domain — for ALL values incl. NaN, ±inf -/
theorem Binomial_new_ok_iff (n : Nat) (p : X) :
    (∃ d, Gen.Binomial.new n p = .ok d) ↔ Spec.Binomial.Valid n p := by
  rcases p with _|_|_|p <;>
    (try simp) <;> c10_close

example : ∃ d, Gen.Binomial.new (3) (fin (1/2)) = .ok d := (Binomial_new_ok_iff ..).mpr (by c10_spec [Spec.Binomial.Valid])

example : ¬ ∃ d, Gen.Binomial.new (0) (fin (1/2)) = .ok d := by rw [Binomial_new_ok_iff]; c10_spec [Spec.Binomial.Valid]

-- @site Binomial.new
/-- on success the object carries exactly the given parameters -/
theorem Binomial_new_ok_fields (n : Nat) (p : X) (d : Gen.Binomial X) :
    Gen.Binomial.new n p = .ok d → d = ({ n := n, p := p } : Gen.Binomial X) := by
  simp only [Gen.Binomial.emit_params, Gen.Binomial.from_params, Gen.Binomial.get_n, Gen.Binomial.get_p, Gen.Binomial.new, Gen.Binomial.new_unchecked, Gen.Binomial.set_n, Gen.Binomial.set_n_unchecked, Gen.Binomial.set_p, Gen.Binomial.set_p_unchecked]
  split_ifs <;> simp <;> c10_close

example : Gen.Binomial.new (3) (fin (1/2)) = .ok ({ n := 3, p := fin (1/2) } : Gen.Binomial X) := by c10_eval []

-- @site Binomial.new
/-- checked and unchecked constructors build the same object -/
theorem Binomial_new_eq_unchecked (n : Nat) (p : X) (d : Gen.Binomial X) :
    Gen.Binomial.new n p = .ok d → d = Gen.Binomial.new_unchecked n p := by
  simp only [Gen.Binomial.emit_params, Gen.Binomial.from_params, Gen.Binomial.get_n, Gen.Binomial.get_p, Gen.Binomial.new, Gen.Binomial.new_unchecked, Gen.Binomial.set_n, Gen.Binomial.set_n_unchecked, Gen.Binomial.set_p, Gen.Binomial.set_p_unchecked]
  split_ifs <;> simp <;> c10_close

example : Gen.Binomial.new (3) (fin (1/2)) = .ok (Gen.Binomial.new_unchecked (3) (fin (1/2))) := by c10_eval []

-- @site Binomial.new
/-- an object obtained from the checked constructor satisfies the parameter invariant -/
theorem Binomial_new_inv (n : Nat) (p : X) (d : Gen.Binomial X) :
    Gen.Binomial.new n p = .ok d → Spec.Binomial.Inv d := by
  intro h
  rw [Binomial_new_ok_fields n p d h]
  exact (Binomial_new_ok_iff n p).mp ⟨d, h⟩

example : Spec.Binomial.Inv ({ n := 3, p := fin (1/2) } : Gen.Binomial X) := Binomial_new_inv (3) (fin (1/2)) _ (by c10_eval [])

-- @site Binomial.new
/-- on failure the error names an argument that IS outside its documented domain and carries its value -/
theorem Binomial_new_err_offending (n : Nat) (p : X) (e : Err X) :
    Gen.Binomial.new n p = .error e →
     (¬ 0 < n ∧ (e = Err.mk "NIsZero" [])) ∨
     (¬ Spec.C10.IsUnit p ∧ (e = Err.mk "PLessThanZero" [p] ∨ e = Err.mk "PGreaterThanOne" [p] ∨ e = Err.mk "PNotFinite" [p])) := by
  rcases p with _|_|_|p <;>
    (try simp) <;> c10_close

example : ∃ e, Gen.Binomial.new (0) (fin (1/2)) = .error e := by c10_eval []

-- @site Binomial.new
/-- on failure the error names the FIRST offending argument in documented (argument) order -/
theorem Binomial_new_err_first (n : Nat) (p : X) (e : Err X) :
    Gen.Binomial.new n p = .error e →
     (¬ 0 < n → (e = Err.mk "NIsZero" [])) ∧
     (0 < n → ¬ Spec.C10.IsUnit p → (e = Err.mk "PLessThanZero" [p] ∨ e = Err.mk "PGreaterThanOne" [p] ∨ e = Err.mk "PNotFinite" [p])) := by
  rcases p with _|_|_|p <;>
    (try simp) <;> c10_close

example : ∃ e, Gen.Binomial.new (0) (fin (1/2)) = .error e := by c10_eval []

-- @site Binomial.set_n
/-- `set_n` succeeds iff the new value is in the documented domain of `n` (> 0) -/
theorem Binomial_set_n_ok_iff (d : Gen.Binomial X) (v : Nat) :
    (∃ d', Gen.Binomial.set_n d v = .ok d') ↔ 0 < v := by
  simp <;> c10_close

example : ∃ d', Gen.Binomial.set_n ({ n := 3, p := fin (1/2) } : Gen.Binomial X) (4) = .ok d' := (Binomial_set_n_ok_iff ..).mpr (by c10_spec [])

-- @site Binomial.set_n
/-- on failure the error carries the offending value -/
theorem Binomial_set_n_err (d : Gen.Binomial X) (v : Nat) (e : Err X) :
    Gen.Binomial.set_n d v = .error e → ¬ 0 < v ∧ (e = Err.mk "NIsZero" []) := by
  simp <;> c10_close

example : ∃ e, Gen.Binomial.set_n ({ n := 3, p := fin (1/2) } : Gen.Binomial X) (0) = .error e := by c10_eval []

-- @site Binomial.set_n
/-- on success only that field (and its cache) changes; same object as the unchecked setter -/
theorem Binomial_set_n_ok_fields (d d' : Gen.Binomial X) (v : Nat) :
    Gen.Binomial.set_n d v = .ok d' → d' = { d with n := v } ∧ d' = Gen.Binomial.set_n_unchecked d v := by
  simp only [Gen.Binomial.emit_params, Gen.Binomial.from_params, Gen.Binomial.get_n, Gen.Binomial.get_p, Gen.Binomial.new, Gen.Binomial.new_unchecked, Gen.Binomial.set_n, Gen.Binomial.set_n_unchecked, Gen.Binomial.set_p, Gen.Binomial.set_p_unchecked]
  split_ifs <;> simp <;> c10_close

example : Gen.Binomial.set_n ({ n := 3, p := fin (1/2) } : Gen.Binomial X) (4) = .ok ({ n := 4, p := fin (1/2) } : Gen.Binomial X) := by c10_eval []

-- @site Binomial.set_n
/-- failure atomicity (structural): either an error without a new state, or exactly the updated state -/
theorem Binomial_set_n_atomic (d : Gen.Binomial X) (v : Nat) :
    (∃ e, Gen.Binomial.set_n d v = .error e) ∨ (∃ d', Gen.Binomial.set_n d v = .ok d' ∧ d' = { d with n := v }) := by
  simp only [Gen.Binomial.emit_params, Gen.Binomial.from_params, Gen.Binomial.get_n, Gen.Binomial.get_p, Gen.Binomial.new, Gen.Binomial.new_unchecked, Gen.Binomial.set_n, Gen.Binomial.set_n_unchecked, Gen.Binomial.set_p, Gen.Binomial.set_p_unchecked]
  split_ifs <;> simp <;> c10_close

example : ∃ e, Gen.Binomial.set_n ({ n := 3, p := fin (1/2) } : Gen.Binomial X) (0) = .error e := by c10_eval []

-- @site Binomial.set_n
/-- a successful checked setter preserves the parameter invariant -/
theorem Binomial_set_n_inv (d d' : Gen.Binomial X) (v : Nat) :
    Spec.Binomial.Inv d → Gen.Binomial.set_n d v = .ok d' → Spec.Binomial.Inv d' := by
  rcases d with ⟨f0, f1⟩
  simp <;> c10_close

example : Spec.Binomial.Inv ({ n := 3, p := fin (1/2) } : Gen.Binomial X) := by c10_spec [Spec.Binomial.Inv, Spec.Binomial.Valid]

-- @site Binomial.set_p
/-- `set_p` succeeds iff the new value is in the documented domain of `p` (finite, in [0, 1]) -/
theorem Binomial_set_p_ok_iff (d : Gen.Binomial X) (v : X) :
    (∃ d', Gen.Binomial.set_p d v = .ok d') ↔ Spec.C10.IsUnit v := by
  rcases v with _|_|_|v <;>
    simp <;> c10_close

example : ∃ d', Gen.Binomial.set_p ({ n := 3, p := fin (1/2) } : Gen.Binomial X) (fin (1/4)) = .ok d' := (Binomial_set_p_ok_iff ..).mpr (by c10_spec [])

-- @site Binomial.set_p
/-- on failure the error carries the offending value -/
theorem Binomial_set_p_err (d : Gen.Binomial X) (v : X) (e : Err X) :
    Gen.Binomial.set_p d v = .error e → ¬ Spec.C10.IsUnit v ∧ (e = Err.mk "PLessThanZero" [v] ∨ e = Err.mk "PGreaterThanOne" [v] ∨ e = Err.mk "PNotFinite" [v]) := by
  rcases v with _|_|_|v <;>
    simp <;> c10_close

example : ∃ e, Gen.Binomial.set_p ({ n := 3, p := fin (1/2) } : Gen.Binomial X) (fin 2) = .error e := by c10_eval []

-- @site Binomial.set_p
/-- on success only that field (and its cache) changes; same object as the unchecked setter -/
theorem Binomial_set_p_ok_fields (d d' : Gen.Binomial X) (v : X) :
    Gen.Binomial.set_p d v = .ok d' → d' = { d with p := v } ∧ d' = Gen.Binomial.set_p_unchecked d v := by
  simp only [Gen.Binomial.emit_params, Gen.Binomial.from_params, Gen.Binomial.get_n, Gen.Binomial.get_p, Gen.Binomial.new, Gen.Binomial.new_unchecked, Gen.Binomial.set_n, Gen.Binomial.set_n_unchecked, Gen.Binomial.set_p, Gen.Binomial.set_p_unchecked]
  split_ifs <;> simp <;> c10_close

example : Gen.Binomial.set_p ({ n := 3, p := fin (1/2) } : Gen.Binomial X) (fin (1/4)) = .ok ({ n := 3, p := fin (1/4) } : Gen.Binomial X) := by c10_eval []

-- @site Binomial.set_p
/-- failure atomicity (structural): either an error without a new state, or exactly the updated state -/
theorem Binomial_set_p_atomic (d : Gen.Binomial X) (v : X) :
    (∃ e, Gen.Binomial.set_p d v = .error e) ∨ (∃ d', Gen.Binomial.set_p d v = .ok d' ∧ d' = { d with p := v }) := by
  simp only [Gen.Binomial.emit_params, Gen.Binomial.from_params, Gen.Binomial.get_n, Gen.Binomial.get_p, Gen.Binomial.new, Gen.Binomial.new_unchecked, Gen.Binomial.set_n, Gen.Binomial.set_n_unchecked, Gen.Binomial.set_p, Gen.Binomial.set_p_unchecked]
  split_ifs <;> simp <;> c10_close

example : ∃ e, Gen.Binomial.set_p ({ n := 3, p := fin (1/2) } : Gen.Binomial X) (fin 2) = .error e := by c10_eval []

-- @site Binomial.set_p
/-- a successful checked setter preserves the parameter invariant -/
theorem Binomial_set_p_inv (d d' : Gen.Binomial X) (v : X) :
    Spec.Binomial.Inv d → Gen.Binomial.set_p d v = .ok d' → Spec.Binomial.Inv d' := by
  rcases d with ⟨f0, f1⟩
  rcases v with _|_|_|v <;>
    simp <;> c10_close

example : Spec.Binomial.Inv ({ n := 3, p := fin (1/2) } : Gen.Binomial X) := by c10_spec [Spec.Binomial.Inv, Spec.Binomial.Valid]

-- @site Binomial.new
/-- a sequence of accepted setters ending in parameters θ yields the object `new θ` builds -/
theorem Binomial_build_eq (d d1 d2 : Gen.Binomial X) (n : Nat) (p : X) :
    Gen.Binomial.set_n d n = .ok d1 →
    Gen.Binomial.set_p d1 p = .ok d2 →
    Gen.Binomial.new n p = .ok d2 := by
  rcases d with ⟨f0, f1⟩
  rcases p with _|_|_|p <;>
    (try simp) <;> c10_close

example : ∃ d', Gen.Binomial.set_n ({ n := 3, p := fin (1/2) } : Gen.Binomial X) (4) = .ok d' := by c10_eval []

-- @site Binomial.from_params
/-- parameter round trip -/
theorem Binomial_from_emit (d : Gen.Binomial X) :
    Gen.Binomial.from_params (Gen.Binomial.emit_params d) = d := by
  rfl

example : Gen.Binomial.from_params (Gen.Binomial.emit_params ({ n := 3, p := fin (1/2) } : Gen.Binomial X)) = ({ n := 3, p := fin (1/2) } : Gen.Binomial X) := by c10_eval []

-- @site Binomial.from_params
/-- `from_params (emit_params ·)` is the identity on every object built by the checked constructor -/
theorem Binomial_new_eq_from_params (n : Nat) (p : X) (d : Gen.Binomial X) :
    Gen.Binomial.new n p = .ok d → Gen.Binomial.from_params (Gen.Binomial.emit_params d) = d := by
  simp only [Gen.Binomial.emit_params, Gen.Binomial.from_params, Gen.Binomial.get_n, Gen.Binomial.get_p, Gen.Binomial.new, Gen.Binomial.new_unchecked, Gen.Binomial.set_n, Gen.Binomial.set_n_unchecked, Gen.Binomial.set_p, Gen.Binomial.set_p_unchecked]
  split_ifs <;> simp <;> c10_close

example : Gen.Binomial.new (3) (fin (1/2)) = .ok ({ n := 3, p := fin (1/2) } : Gen.Binomial X) := by c10_eval []

end Binomial

/-! ## Cauchy  (`src/dist/cauchy.rs`) -/
section Cauchy
attribute [local simp] Gen.Cauchy.emit_params Gen.Cauchy.from_params Gen.Cauchy.get_loc Gen.Cauchy.get_scale Gen.Cauchy.new Gen.Cauchy.new_unchecked Gen.Cauchy.set_loc Gen.Cauchy.set_loc_unchecked Gen.Cauchy.set_scale Gen.Cauchy.set_scale_unchecked Spec.Cauchy.Valid Spec.Cauchy.Inv

-- @site Cauchy.new
/-- `Cauchy::new` succeeds iff every parameter is in the documented domain — for ALL values incl. NaN, ±inf -/
theorem Cauchy_new_ok_iff (loc : X) (scale : X) :
    (∃ d, Gen.Cauchy.new loc scale = .ok d) ↔ Spec.Cauchy.Valid loc scale := by
  rcases loc with _|_|_|loc <;> (try simp) <;>
    rcases scale with _|_|_|scale <;>
    (try simp) <;> c10_close

example : ∃ d, Gen.Cauchy.new (fin (-1)) (fin 2) = .ok d := (Cauchy_new_ok_iff ..).mpr (by c10_spec [Spec.Cauchy.Valid])

example : ¬ ∃ d, Gen.Cauchy.new (nan) (fin 2) = .ok d := by rw [Cauchy_new_ok_iff]; c10_spec [Spec.Cauchy.Valid]

-- @site Cauchy.new
/-- on success the object carries exactly the given parameters -/
theorem Cauchy_new_ok_fields (loc : X) (scale : X) (d : Gen.Cauchy X) :
    Gen.Cauchy.new loc scale = .ok d → d = ({ loc := loc, scale := scale } : Gen.Cauchy X) := by
  simp only [Gen.Cauchy.emit_params, Gen.Cauchy.from_params, Gen.Cauchy.get_loc, Gen.Cauchy.get_scale, Gen.Cauchy.new, Gen.Cauchy.new_unchecked, Gen.Cauchy.set_loc, Gen.Cauchy.set_loc_unchecked, Gen.Cauchy.set_scale, Gen.Cauchy.set_scale_unchecked]
  split_ifs <;> simp <;> c10_close

example : Gen.Cauchy.new (fin (-1)) (fin 2) = .ok ({ loc := fin (-1), scale := fin 2 } : Gen.Cauchy X) := by c10_eval []

-- @site Cauchy.new
/-- checked and unchecked constructors build the same object -/
theorem Cauchy_new_eq_unchecked (loc : X) (scale : X) (d : Gen.Cauchy X) :
    Gen.Cauchy.new loc scale = .ok d → d = Gen.Cauchy.new_unchecked loc scale := by
  simp only [Gen.Cauchy.emit_params, Gen.Cauchy.from_params, Gen.Cauchy.get_loc, Gen.Cauchy.get_scale, Gen.Cauchy.new, Gen.Cauchy.new_unchecked, Gen.Cauchy.set_loc, Gen.Cauchy.set_loc_unchecked, Gen.Cauchy.set_scale, Gen.Cauchy.set_scale_unchecked]
  split_ifs <;> simp <;> c10_close

example : Gen.Cauchy.new (fin (-1)) (fin 2) = .ok (Gen.Cauchy.new_unchecked (fin (-1)) (fin 2)) := by c10_eval []

-- @site Cauchy.new
/-- an object obtained from the checked constructor satisfies the parameter invariant -/
theorem Cauchy_new_inv (loc : X) (scale : X) (d : Gen.Cauchy X) :
    Gen.Cauchy.new loc scale = .ok d → Spec.Cauchy.Inv d := by
  intro h
  rw [Cauchy_new_ok_fields loc scale d h]
  exact (Cauchy_new_ok_iff loc scale).mp ⟨d, h⟩

example : Spec.Cauchy.Inv ({ loc := fin (-1), scale := fin 2 } : Gen.Cauchy X) := Cauchy_new_inv (fin (-1)) (fin 2) _ (by c10_eval [])

-- @site Cauchy.new
/-- on failure the error names an argument that IS outside its documented domain and carries its value -/
theorem Cauchy_new_err_offending (loc : X) (scale : X) (e : Err X) :
    Gen.Cauchy.new loc scale = .error e →
     (¬ Spec.C10.IsFin loc ∧ (e = Err.mk "LocNotFinite" [loc])) ∨
     (¬ Spec.C10.IsPos scale ∧ (e = Err.mk "ScaleTooLow" [scale] ∨ e = Err.mk "ScaleNotFinite" [scale])) := by
  rcases loc with _|_|_|loc <;> (try simp) <;>
    rcases scale with _|_|_|scale <;>
    (try simp) <;> c10_close

example : ∃ e, Gen.Cauchy.new (nan) (fin 2) = .error e := by c10_eval []

-- @site Cauchy.new
/-- on failure the error names the FIRST offending argument in documented (argument) order -/
theorem Cauchy_new_err_first (loc : X) (scale : X) (e : Err X) :
    Gen.Cauchy.new loc scale = .error e →
     (¬ Spec.C10.IsFin loc → (e = Err.mk "LocNotFinite" [loc])) ∧
     (Spec.C10.IsFin loc → ¬ Spec.C10.IsPos scale → (e = Err.mk "ScaleTooLow" [scale] ∨ e = Err.mk "ScaleNotFinite" [scale])) := by
  rcases loc with _|_|_|loc <;> (try simp) <;>
    rcases scale with _|_|_|scale <;>
    (try simp) <;> c10_close

example : ∃ e, Gen.Cauchy.new (nan) (fin 2) = .error e := by c10_eval []

-- @site Cauchy.set_loc
/-- `set_loc` succeeds iff the new value is in the documented domain of `loc` (finite) -/
theorem Cauchy_set_loc_ok_iff (d : Gen.Cauchy X) (v : X) :
    (∃ d', Gen.Cauchy.set_loc d v = .ok d') ↔ Spec.C10.IsFin v := by
  rcases v with _|_|_|v <;>
    simp <;> c10_close

example : ∃ d', Gen.Cauchy.set_loc ({ loc := fin (-1), scale := fin 2 } : Gen.Cauchy X) (fin 5) = .ok d' := (Cauchy_set_loc_ok_iff ..).mpr (by c10_spec [])

-- @site Cauchy.set_loc
/-- on failure the error carries the offending value -/
theorem Cauchy_set_loc_err (d : Gen.Cauchy X) (v : X) (e : Err X) :
    Gen.Cauchy.set_loc d v = .error e → ¬ Spec.C10.IsFin v ∧ (e = Err.mk "LocNotFinite" [v]) := by
  rcases v with _|_|_|v <;>
    simp <;> c10_close

example : ∃ e, Gen.Cauchy.set_loc ({ loc := fin (-1), scale := fin 2 } : Gen.Cauchy X) (nan) = .error e := by c10_eval []

-- @site Cauchy.set_loc
/-- on success only that field (and its cache) changes; same object as the unchecked setter -/
theorem Cauchy_set_loc_ok_fields (d d' : Gen.Cauchy X) (v : X) :
    Gen.Cauchy.set_loc d v = .ok d' → d' = { d with loc := v } ∧ d' = Gen.Cauchy.set_loc_unchecked d v := by
  simp only [Gen.Cauchy.emit_params, Gen.Cauchy.from_params, Gen.Cauchy.get_loc, Gen.Cauchy.get_scale, Gen.Cauchy.new, Gen.Cauchy.new_unchecked, Gen.Cauchy.set_loc, Gen.Cauchy.set_loc_unchecked, Gen.Cauchy.set_scale, Gen.Cauchy.set_scale_unchecked]
  split_ifs <;> simp <;> c10_close

example : Gen.Cauchy.set_loc ({ loc := fin (-1), scale := fin 2 } : Gen.Cauchy X) (fin 5) = .ok ({ loc := fin 5, scale := fin 2 } : Gen.Cauchy X) := by c10_eval []

-- @site Cauchy.set_loc
/-- failure atomicity (structural): either an error without a new state, or exactly the updated state -/
theorem Cauchy_set_loc_atomic (d : Gen.Cauchy X) (v : X) :
    (∃ e, Gen.Cauchy.set_loc d v = .error e) ∨ (∃ d', Gen.Cauchy.set_loc d v = .ok d' ∧ d' = { d with loc := v }) := by
  simp only [Gen.Cauchy.emit_params, Gen.Cauchy.from_params, Gen.Cauchy.get_loc, Gen.Cauchy.get_scale, Gen.Cauchy.new, Gen.Cauchy.new_unchecked, Gen.Cauchy.set_loc, Gen.Cauchy.set_loc_unchecked, Gen.Cauchy.set_scale, Gen.Cauchy.set_scale_unchecked]
  split_ifs <;> simp <;> c10_close

example : ∃ e, Gen.Cauchy.set_loc ({ loc := fin (-1), scale := fin 2 } : Gen.Cauchy X) (nan) = .error e := by c10_eval []

-- @site Cauchy.set_loc
/-- a successful checked setter preserves the parameter invariant -/
theorem Cauchy_set_loc_inv (d d' : Gen.Cauchy X) (v : X) :
    Spec.Cauchy.Inv d → Gen.Cauchy.set_loc d v = .ok d' → Spec.Cauchy.Inv d' := by
  rcases d with ⟨f0, f1⟩
  rcases v with _|_|_|v <;>
    simp <;> c10_close

example : Spec.Cauchy.Inv ({ loc := fin (-1), scale := fin 2 } : Gen.Cauchy X) := by c10_spec [Spec.Cauchy.Inv, Spec.Cauchy.Valid]

-- @site Cauchy.set_scale
/-- `set_scale` succeeds iff the new value is in the documented domain of `scale` (finite, > 0) -/
theorem Cauchy_set_scale_ok_iff (d : Gen.Cauchy X) (v : X) :
    (∃ d', Gen.Cauchy.set_scale d v = .ok d') ↔ Spec.C10.IsPos v := by
  rcases v with _|_|_|v <;>
    simp <;> c10_close

example : ∃ d', Gen.Cauchy.set_scale ({ loc := fin (-1), scale := fin 2 } : Gen.Cauchy X) (fin 7) = .ok d' := (Cauchy_set_scale_ok_iff ..).mpr (by c10_spec [])

-- @site Cauchy.set_scale
/-- on failure the error carries the offending value -/
theorem Cauchy_set_scale_err (d : Gen.Cauchy X) (v : X) (e : Err X) :
    Gen.Cauchy.set_scale d v = .error e → ¬ Spec.C10.IsPos v ∧ (e = Err.mk "ScaleTooLow" [v] ∨ e = Err.mk "ScaleNotFinite" [v]) := by
  rcases v with _|_|_|v <;>
    simp <;> c10_close

example : ∃ e, Gen.Cauchy.set_scale ({ loc := fin (-1), scale := fin 2 } : Gen.Cauchy X) (fin 0) = .error e := by c10_eval []

-- @site Cauchy.set_scale
/-- on success only that field (and its cache) changes; same object as the unchecked setter -/
theorem Cauchy_set_scale_ok_fields (d d' : Gen.Cauchy X) (v : X) :
    Gen.Cauchy.set_scale d v = .ok d' → d' = { d with scale := v } ∧ d' = Gen.Cauchy.set_scale_unchecked d v := by
  simp only [Gen.Cauchy.emit_params, Gen.Cauchy.from_params, Gen.Cauchy.get_loc, Gen.Cauchy.get_scale, Gen.Cauchy.new, Gen.Cauchy.new_unchecked, Gen.Cauchy.set_loc, Gen.Cauchy.set_loc_unchecked, Gen.Cauchy.set_scale, Gen.Cauchy.set_scale_unchecked]
  split_ifs <;> simp <;> c10_close

example : Gen.Cauchy.set_scale ({ loc := fin (-1), scale := fin 2 } : Gen.Cauchy X) (fin 7) = .ok ({ loc := fin (-1), scale := fin 7 } : Gen.Cauchy X) := by c10_eval []

-- @site Cauchy.set_scale
/-- failure atomicity (structural): either an error without a new state, or exactly the updated state -/
theorem Cauchy_set_scale_atomic (d : Gen.Cauchy X) (v : X) :
    (∃ e, Gen.Cauchy.set_scale d v = .error e) ∨ (∃ d', Gen.Cauchy.set_scale d v = .ok d' ∧ d' = { d with scale := v }) := by
  simp only [Gen.Cauchy.emit_params, Gen.Cauchy.from_params, Gen.Cauchy.get_loc, Gen.Cauchy.get_scale, Gen.Cauchy.new, Gen.Cauchy.new_unchecked, Gen.Cauchy.set_loc, Gen.Cauchy.set_loc_unchecked, Gen.Cauchy.set_scale, Gen.Cauchy.set_scale_unchecked]
  split_ifs <;> simp <;> c10_close

example : ∃ e, Gen.Cauchy.set_scale ({ loc := fin (-1), scale := fin 2 } : Gen.Cauchy X) (fin 0) = .error e := by c10_eval []

-- @site Cauchy.set_scale
/-- a successful checked setter preserves the parameter invariant -/
theorem Cauchy_set_scale_inv (d d' : Gen.Cauchy X) (v : X) :
    Spec.Cauchy.Inv d → Gen.Cauchy.set_scale d v = .ok d' → Spec.Cauchy.Inv d' := by
  rcases d with ⟨f0, f1⟩
  rcases v with _|_|_|v <;>
    simp <;> c10_close

example : Spec.Cauchy.Inv ({ loc := fin (-1), scale := fin 2 } : Gen.Cauchy X) := by c10_spec [Spec.Cauchy.Inv, Spec.Cauchy.Valid]

-- @site Cauchy.new
/-- a sequence of accepted setters ending in parameters θ yields the object `new θ` builds -/
theorem Cauchy_build_eq (d d1 d2 : Gen.Cauchy X) (loc : X) (scale : X) :
    Gen.Cauchy.set_loc d loc = .ok d1 →
    Gen.Cauchy.set_scale d1 scale = .ok d2 →
    Gen.Cauchy.new loc scale = .ok d2 := by
  rcases d with ⟨f0, f1⟩
  rcases loc with _|_|_|loc <;> (try simp) <;>
    rcases scale with _|_|_|scale <;>
    (try simp) <;> c10_close

example : ∃ d', Gen.Cauchy.set_loc ({ loc := fin (-1), scale := fin 2 } : Gen.Cauchy X) (fin 5) = .ok d' := by c10_eval []

-- @site Cauchy.from_params
/-- parameter round trip -/
theorem Cauchy_from_emit (d : Gen.Cauchy X) :
    Gen.Cauchy.from_params (Gen.Cauchy.emit_params d) = d := by
  rfl

example : Gen.Cauchy.from_params (Gen.Cauchy.emit_params ({ loc := fin (-1), scale := fin 2 } : Gen.Cauchy X)) = ({ loc := fin (-1), scale := fin 2 } : Gen.Cauchy X) := by c10_eval []

-- @site Cauchy.from_params
/-- `from_params (emit_params ·)` is the identity on every object built by the checked constructor -/
theorem Cauchy_new_eq_from_params (loc : X) (scale : X) (d : Gen.Cauchy X) :
    Gen.Cauchy.new loc scale = .ok d → Gen.Cauchy.from_params (Gen.Cauchy.emit_params d) = d := by
  simp only [Gen.Cauchy.emit_params, Gen.Cauchy.from_params, Gen.Cauchy.get_loc, Gen.Cauchy.get_scale, Gen.Cauchy.new, Gen.Cauchy.new_unchecked, Gen.Cauchy.set_loc, Gen.Cauchy.set_loc_unchecked, Gen.Cauchy.set_scale, Gen.Cauchy.set_scale_unchecked]
  split_ifs <;> simp <;> c10_close

example : Gen.Cauchy.new (fin (-1)) (fin 2) = .ok ({ loc := fin (-1), scale := fin 2 } : Gen.Cauchy X) := by c10_eval []

end Cauchy

/-! ## ChiSquared  (`src/dist/chi_squared.rs`) -/
section ChiSquared
attribute [local simp] Gen.ChiSquared.emit_params Gen.ChiSquared.from_params Gen.ChiSquared.get_k Gen.ChiSquared.new Gen.ChiSquared.new_unchecked Gen.ChiSquared.set_k Gen.ChiSquared.set_k_unchecked Spec.ChiSquared.Valid Spec.ChiSquared.Inv

-- @site ChiSquared.new
/-- `ChiSquared::new` succeeds iff every parameter is in the documented domain — for ALL values incl. NaN, ±inf -/
theorem ChiSquared_new_ok_iff (k : X) :
    (∃ d, Gen.ChiSquared.new k = .ok d) ↔ Spec.ChiSquared.Valid k := by
  rcases k with _|_|_|k <;>
    (try simp) <;> c10_close

example : ∃ d, Gen.ChiSquared.new (fin 2) = .ok d := (ChiSquared_new_ok_iff ..).mpr (by c10_spec [Spec.ChiSquared.Valid])

example : ¬ ∃ d, Gen.ChiSquared.new (fin 0) = .ok d := by rw [ChiSquared_new_ok_iff]; c10_spec [Spec.ChiSquared.Valid]

-- @site ChiSquared.new
/-- on success the object carries exactly the given parameters -/
theorem ChiSquared_new_ok_fields (k : X) (d : Gen.ChiSquared X) :
    Gen.ChiSquared.new k = .ok d → d = ({ k := k } : Gen.ChiSquared X) := by
  simp only [Gen.ChiSquared.emit_params, Gen.ChiSquared.from_params, Gen.ChiSquared.get_k, Gen.ChiSquared.new, Gen.ChiSquared.new_unchecked, Gen.ChiSquared.set_k, Gen.ChiSquared.set_k_unchecked]
  split_ifs <;> simp <;> c10_close

example : Gen.ChiSquared.new (fin 2) = .ok ({ k := fin 2 } : Gen.ChiSquared X) := by c10_eval []

-- @site ChiSquared.new
/-- checked and unchecked constructors build the same object -/
theorem ChiSquared_new_eq_unchecked (k : X) (d : Gen.ChiSquared X) :
    Gen.ChiSquared.new k = .ok d → d = Gen.ChiSquared.new_unchecked k := by
  simp only [Gen.ChiSquared.emit_params, Gen.ChiSquared.from_params, Gen.ChiSquared.get_k, Gen.ChiSquared.new, Gen.ChiSquared.new_unchecked, Gen.ChiSquared.set_k, Gen.ChiSquared.set_k_unchecked]
  split_ifs <;> simp <;> c10_close

example : Gen.ChiSquared.new (fin 2) = .ok (Gen.ChiSquared.new_unchecked (fin 2)) := by c10_eval []

-- @site ChiSquared.new
/-- an object obtained from the checked constructor satisfies the parameter invariant -/
theorem ChiSquared_new_inv (k : X) (d : Gen.ChiSquared X) :
    Gen.ChiSquared.new k = .ok d → Spec.ChiSquared.Inv d := by
  intro h
  rw [ChiSquared_new_ok_fields k d h]
  exact (ChiSquared_new_ok_iff k).mp ⟨d, h⟩

example : Spec.ChiSquared.Inv ({ k := fin 2 } : Gen.ChiSquared X) := ChiSquared_new_inv (fin 2) _ (by c10_eval [])

-- @site ChiSquared.new
/-- on failure the error names an argument that IS outside its documented domain and carries its value -/
theorem ChiSquared_new_err_offending (k : X) (e : Err X) :
    Gen.ChiSquared.new k = .error e →
     (¬ Spec.C10.IsPos k ∧ (e = Err.mk "KTooLow" [k] ∨ e = Err.mk "KNotFinite" [k])) := by
  rcases k with _|_|_|k <;>
    (try simp) <;> c10_close

example : ∃ e, Gen.ChiSquared.new (fin 0) = .error e := by c10_eval []

-- @site ChiSquared.new
/-- on failure the error names the FIRST offending argument in documented (argument) order -/
theorem ChiSquared_new_err_first (k : X) (e : Err X) :
    Gen.ChiSquared.new k = .error e →
     (¬ Spec.C10.IsPos k → (e = Err.mk "KTooLow" [k] ∨ e = Err.mk "KNotFinite" [k])) := by
  rcases k with _|_|_|k <;>
    (try simp) <;> c10_close

example : ∃ e, Gen.ChiSquared.new (fin 0) = .error e := by c10_eval []

-- @site ChiSquared.set_k
/-- `set_k` succeeds iff the new value is in the documented domain of `k` (finite, > 0) -/
theorem ChiSquared_set_k_ok_iff (d : Gen.ChiSquared X) (v : X) :
    (∃ d', Gen.ChiSquared.set_k d v = .ok d') ↔ Spec.C10.IsPos v := by
  rcases v with _|_|_|v <;>
    simp <;> c10_close

example : ∃ d', Gen.ChiSquared.set_k ({ k := fin 2 } : Gen.ChiSquared X) (fin 7) = .ok d' := (ChiSquared_set_k_ok_iff ..).mpr (by c10_spec [])

-- @site ChiSquared.set_k
/-- on failure the error carries the offending value -/
theorem ChiSquared_set_k_err (d : Gen.ChiSquared X) (v : X) (e : Err X) :
    Gen.ChiSquared.set_k d v = .error e → ¬ Spec.C10.IsPos v ∧ (e = Err.mk "KTooLow" [v] ∨ e = Err.mk "KNotFinite" [v]) := by
  rcases v with _|_|_|v <;>
    simp <;> c10_close

example : ∃ e, Gen.ChiSquared.set_k ({ k := fin 2 } : Gen.ChiSquared X) (fin 0) = .error e := by c10_eval []

-- @site ChiSquared.set_k
/-- on success only that field (and its cache) changes; same object as the unchecked setter -/
theorem ChiSquared_set_k_ok_fields (d d' : Gen.ChiSquared X) (v : X) :
    Gen.ChiSquared.set_k d v = .ok d' → d' = { d with k := v } ∧ d' = Gen.ChiSquared.set_k_unchecked d v := by
  simp only [Gen.ChiSquared.emit_params, Gen.ChiSquared.from_params, Gen.ChiSquared.get_k, Gen.ChiSquared.new, Gen.ChiSquared.new_unchecked, Gen.ChiSquared.set_k, Gen.ChiSquared.set_k_unchecked]
  split_ifs <;> simp <;> c10_close

example : Gen.ChiSquared.set_k ({ k := fin 2 } : Gen.ChiSquared X) (fin 7) = .ok ({ k := fin 7 } : Gen.ChiSquared X) := by c10_eval []

-- @site ChiSquared.set_k
/-- failure atomicity (structural): either an error without a new state, or exactly the updated state -/
theorem ChiSquared_set_k_atomic (d : Gen.ChiSquared X) (v : X) :
    (∃ e, Gen.ChiSquared.set_k d v = .error e) ∨ (∃ d', Gen.ChiSquared.set_k d v = .ok d' ∧ d' = { d with k := v }) := by
  simp only [Gen.ChiSquared.emit_params, Gen.ChiSquared.from_params, Gen.ChiSquared.get_k, Gen.ChiSquared.new, Gen.ChiSquared.new_unchecked, Gen.ChiSquared.set_k, Gen.ChiSquared.set_k_unchecked]
  split_ifs <;> simp <;> c10_close

example : ∃ e, Gen.ChiSquared.set_k ({ k := fin 2 } : Gen.ChiSquared X) (fin 0) = .error e := by c10_eval []

-- @site ChiSquared.set_k
/-- a successful checked setter preserves the parameter invariant -/
theorem ChiSquared_set_k_inv (d d' : Gen.ChiSquared X) (v : X) :
    Spec.ChiSquared.Inv d → Gen.ChiSquared.set_k d v = .ok d' → Spec.ChiSquared.Inv d' := by
  rcases d with ⟨f0⟩
  rcases v with _|_|_|v <;>
    simp <;> c10_close

example : Spec.ChiSquared.Inv ({ k := fin 2 } : Gen.ChiSquared X) := by c10_spec [Spec.ChiSquared.Inv, Spec.ChiSquared.Valid]

-- @site ChiSquared.new
/-- a sequence of accepted setters ending in parameters θ yields the object `new θ` builds -/
theorem ChiSquared_build_eq (d d1 : Gen.ChiSquared X) (k : X) :
    Gen.ChiSquared.set_k d k = .ok d1 →
    Gen.ChiSquared.new k = .ok d1 := by
  rcases d with ⟨f0⟩
  rcases k with _|_|_|k <;>
    (try simp) <;> c10_close

example : ∃ d', Gen.ChiSquared.set_k ({ k := fin 2 } : Gen.ChiSquared X) (fin 7) = .ok d' := by c10_eval []

-- @site ChiSquared.from_params
/-- parameter round trip -/
theorem ChiSquared_from_emit (d : Gen.ChiSquared X) :
    Gen.ChiSquared.from_params (Gen.ChiSquared.emit_params d) = d := by
  rfl

example : Gen.ChiSquared.from_params (Gen.ChiSquared.emit_params ({ k := fin 2 } : Gen.ChiSquared X)) = ({ k := fin 2 } : Gen.ChiSquared X) := by c10_eval []

-- @site ChiSquared.from_params
/-- `from_params (emit_params ·)` is the identity on every object built by the checked constructor -/
theorem ChiSquared_new_eq_from_params (k : X) (d : Gen.ChiSquared X) :
    Gen.ChiSquared.new k = .ok d → Gen.ChiSquared.from_params (Gen.ChiSquared.emit_params d) = d := by
  simp only [Gen.ChiSquared.emit_params, Gen.ChiSquared.from_params, Gen.ChiSquared.get_k, Gen.ChiSquared.new, Gen.ChiSquared.new_unchecked, Gen.ChiSquared.set_k, Gen.ChiSquared.set_k_unchecked]
  split_ifs <;> simp <;> c10_close

example : Gen.ChiSquared.new (fin 2) = .ok ({ k := fin 2 } : Gen.ChiSquared X) := by c10_eval []

end ChiSquared

/-! ## Crp  (`src/dist/crp.rs`) -/
section Crp
attribute [local simp] Gen.Crp.get_alpha Gen.Crp.get_n Gen.Crp.new Gen.Crp.new_unchecked Gen.Crp.set_alpha Gen.Crp.set_alpha_unchecked Gen.Crp.set_n Gen.Crp.set_n_unchecked Spec.Crp.Valid Spec.Crp.Inv

-- @site Crp.new
/-- `Crp::new` succeeds iff every parameter is in the documented domain — for ALL values incl. NaN, ±inf -/
theorem Crp_new_ok_iff (alpha : X) (n : Nat) :
    (∃ d, Gen.Crp.new alpha n = .ok d) ↔ Spec.Crp.Valid alpha n := by
  rcases alpha with _|_|_|alpha <;>
    (try simp) <;> c10_close

example : ∃ d, Gen.Crp.new (fin 2) (3) = .ok d := (Crp_new_ok_iff ..).mpr (by c10_spec [Spec.Crp.Valid])

example : ¬ ∃ d, Gen.Crp.new (fin 0) (3) = .ok d := by rw [Crp_new_ok_iff]; c10_spec [Spec.Crp.Valid]

-- @site Crp.new
/-- on success the object carries exactly the given parameters -/
theorem Crp_new_ok_fields (alpha : X) (n : Nat) (d : Gen.Crp X) :
    Gen.Crp.new alpha n = .ok d → d = ({ alpha := alpha, n := n } : Gen.Crp X) := by
  simp only [Gen.Crp.get_alpha, Gen.Crp.get_n, Gen.Crp.new, Gen.Crp.new_unchecked, Gen.Crp.set_alpha, Gen.Crp.set_alpha_unchecked, Gen.Crp.set_n, Gen.Crp.set_n_unchecked]
  split_ifs <;> simp <;> c10_close

example : Gen.Crp.new (fin 2) (3) = .ok ({ alpha := fin 2, n := 3 } : Gen.Crp X) := by c10_eval []

-- @site Crp.new
/-- checked and unchecked constructors build the same object -/
theorem Crp_new_eq_unchecked (alpha : X) (n : Nat) (d : Gen.Crp X) :
    Gen.Crp.new alpha n = .ok d → d = Gen.Crp.new_unchecked alpha n := by
  simp only [Gen.Crp.get_alpha, Gen.Crp.get_n, Gen.Crp.new, Gen.Crp.new_unchecked, Gen.Crp.set_alpha, Gen.Crp.set_alpha_unchecked, Gen.Crp.set_n, Gen.Crp.set_n_unchecked]
  split_ifs <;> simp <;> c10_close

example : Gen.Crp.new (fin 2) (3) = .ok (Gen.Crp.new_unchecked (fin 2) (3)) := by c10_eval []

-- @site Crp.new
/-- an object obtained from the checked constructor satisfies the parameter invariant -/
theorem Crp_new_inv (alpha : X) (n : Nat) (d : Gen.Crp X) :
    Gen.Crp.new alpha n = .ok d → Spec.Crp.Inv d := by
  intro h
  rw [Crp_new_ok_fields alpha n d h]
  exact (Crp_new_ok_iff alpha n).mp ⟨d, h⟩

example : Spec.Crp.Inv ({ alpha := fin 2, n := 3 } : Gen.Crp X) := Crp_new_inv (fin 2) (3) _ (by c10_eval [])

-- @site Crp.new
/-- on failure the error names an argument that IS outside its documented domain and carries its value -/
theorem Crp_new_err_offending (alpha : X) (n : Nat) (e : Err X) :
    Gen.Crp.new alpha n = .error e →
     (¬ Spec.C10.IsPos alpha ∧ (e = Err.mk "AlphaTooLow" [alpha] ∨ e = Err.mk "AlphaNotFinite" [alpha])) ∨
     (¬ 0 < n ∧ (e = Err.mk "NIsZero" [])) := by
  rcases alpha with _|_|_|alpha <;>
    (try simp) <;> c10_close

example : ∃ e, Gen.Crp.new (fin 0) (3) = .error e := by c10_eval []

/- FULL STATEMENT (false, see the counterexample below — the code checks n (second argument) before alpha):
   theorem Crp_new_err_first (alpha : X) (n : Nat) (e : Err X) :
     Gen.Crp.new alpha n = .error e →
     (¬ Spec.C10.IsPos alpha → (e = Err.mk "AlphaTooLow" [alpha] ∨ e = Err.mk "AlphaNotFinite" [alpha])) ∧
     (Spec.C10.IsPos alpha → ¬ 0 < n → (e = Err.mk "NIsZero" []))
-/

-- @site Crp.new
/-- first-offending-argument order holds only under the extra hypotheses; the code checks n (second argument) before alpha -/
theorem Crp_new_err_first_partial (alpha : X) (n : Nat) (e : Err X) :
    0 < n → Gen.Crp.new alpha n = .error e →
     (¬ Spec.C10.IsPos alpha → (e = Err.mk "AlphaTooLow" [alpha] ∨ e = Err.mk "AlphaNotFinite" [alpha])) ∧
     (Spec.C10.IsPos alpha → ¬ 0 < n → (e = Err.mk "NIsZero" [])) := by
  rcases alpha with _|_|_|alpha <;>
    (try simp) <;> c10_close

example : ∃ e, Gen.Crp.new (fin 0) (3) = .error e := by c10_eval []

-- @site Crp.new
/-- DEFECT (order clause only): an earlier argument is invalid but the error names a later one; the code checks n (second argument) before alpha -/
theorem Crp_new_err_order_counterexample :
    ¬ Spec.C10.IsPos (nan : X) ∧
    Gen.Crp.new (nan) (0) = .error (Err.mk "NIsZero" [] : Err X) := by
  c10_eval []

-- @site Crp.set_alpha
/-- `set_alpha` succeeds iff the new value is in the documented domain of `alpha` (finite, > 0) -/
theorem Crp_set_alpha_ok_iff (d : Gen.Crp X) (v : X) :
    (∃ d', Gen.Crp.set_alpha d v = .ok d') ↔ Spec.C10.IsPos v := by
  rcases v with _|_|_|v <;>
    simp <;> c10_close

example : ∃ d', Gen.Crp.set_alpha ({ alpha := fin 2, n := 3 } : Gen.Crp X) (fin 7) = .ok d' := (Crp_set_alpha_ok_iff ..).mpr (by c10_spec [])

-- @site Crp.set_alpha
/-- on failure the error carries the offending value -/
theorem Crp_set_alpha_err (d : Gen.Crp X) (v : X) (e : Err X) :
    Gen.Crp.set_alpha d v = .error e → ¬ Spec.C10.IsPos v ∧ (e = Err.mk "AlphaTooLow" [v] ∨ e = Err.mk "AlphaNotFinite" [v]) := by
  rcases v with _|_|_|v <;>
    simp <;> c10_close

example : ∃ e, Gen.Crp.set_alpha ({ alpha := fin 2, n := 3 } : Gen.Crp X) (fin 0) = .error e := by c10_eval []

-- @site Crp.set_alpha
/-- on success only that field (and its cache) changes; same object as the unchecked setter -/
theorem Crp_set_alpha_ok_fields (d d' : Gen.Crp X) (v : X) :
    Gen.Crp.set_alpha d v = .ok d' → d' = { d with alpha := v } ∧ d' = Gen.Crp.set_alpha_unchecked d v := by
  simp only [Gen.Crp.get_alpha, Gen.Crp.get_n, Gen.Crp.new, Gen.Crp.new_unchecked, Gen.Crp.set_alpha, Gen.Crp.set_alpha_unchecked, Gen.Crp.set_n, Gen.Crp.set_n_unchecked]
  split_ifs <;> simp <;> c10_close

example : Gen.Crp.set_alpha ({ alpha := fin 2, n := 3 } : Gen.Crp X) (fin 7) = .ok ({ alpha := fin 7, n := 3 } : Gen.Crp X) := by c10_eval []

-- @site Crp.set_alpha
/-- failure atomicity (structural): either an error without a new state, or exactly the updated state -/
theorem Crp_set_alpha_atomic (d : Gen.Crp X) (v : X) :
    (∃ e, Gen.Crp.set_alpha d v = .error e) ∨ (∃ d', Gen.Crp.set_alpha d v = .ok d' ∧ d' = { d with alpha := v }) := by
  simp only [Gen.Crp.get_alpha, Gen.Crp.get_n, Gen.Crp.new, Gen.Crp.new_unchecked, Gen.Crp.set_alpha, Gen.Crp.set_alpha_unchecked, Gen.Crp.set_n, Gen.Crp.set_n_unchecked]
  split_ifs <;> simp <;> c10_close

example : ∃ e, Gen.Crp.set_alpha ({ alpha := fin 2, n := 3 } : Gen.Crp X) (fin 0) = .error e := by c10_eval []

-- @site Crp.set_alpha
/-- a successful checked setter preserves the parameter invariant -/
theorem Crp_set_alpha_inv (d d' : Gen.Crp X) (v : X) :
    Spec.Crp.Inv d → Gen.Crp.set_alpha d v = .ok d' → Spec.Crp.Inv d' := by
  rcases d with ⟨f0, f1⟩
  rcases v with _|_|_|v <;>
    simp <;> c10_close

example : Spec.Crp.Inv ({ alpha := fin 2, n := 3 } : Gen.Crp X) := by c10_spec [Spec.Crp.Inv, Spec.Crp.Valid]

-- @site Crp.set_n
/-- `set_n` succeeds iff the new value is in the documented domain of `n` (> 0) -/
theorem Crp_set_n_ok_iff (d : Gen.Crp X) (v : Nat) :
    (∃ d', Gen.Crp.set_n d v = .ok d') ↔ 0 < v := by
  simp <;> c10_close

example : ∃ d', Gen.Crp.set_n ({ alpha := fin 2, n := 3 } : Gen.Crp X) (4) = .ok d' := (Crp_set_n_ok_iff ..).mpr (by c10_spec [])

-- @site Crp.set_n
/-- on failure the error carries the offending value -/
theorem Crp_set_n_err (d : Gen.Crp X) (v : Nat) (e : Err X) :
    Gen.Crp.set_n d v = .error e → ¬ 0 < v ∧ (e = Err.mk "NIsZero" []) := by
  simp <;> c10_close

example : ∃ e, Gen.Crp.set_n ({ alpha := fin 2, n := 3 } : Gen.Crp X) (0) = .error e := by c10_eval []

-- @site Crp.set_n
/-- on success only that field (and its cache) changes; same object as the unchecked setter -/
theorem Crp_set_n_ok_fields (d d' : Gen.Crp X) (v : Nat) :
    Gen.Crp.set_n d v = .ok d' → d' = { d with n := v } ∧ d' = Gen.Crp.set_n_unchecked d v := by
  simp only [Gen.Crp.get_alpha, Gen.Crp.get_n, Gen.Crp.new, Gen.Crp.new_unchecked, Gen.Crp.set_alpha, Gen.Crp.set_alpha_unchecked, Gen.Crp.set_n, Gen.Crp.set_n_unchecked]
  split_ifs <;> simp <;> c10_close

example : Gen.Crp.set_n ({ alpha := fin 2, n := 3 } : Gen.Crp X) (4) = .ok ({ alpha := fin 2, n := 4 } : Gen.Crp X) := by c10_eval []

-- @site Crp.set_n
/-- failure atomicity (structural): either an error without a new state, or exactly the updated state -/
theorem Crp_set_n_atomic (d : Gen.Crp X) (v : Nat) :
    (∃ e, Gen.Crp.set_n d v = .error e) ∨ (∃ d', Gen.Crp.set_n d v = .ok d' ∧ d' = { d with n := v }) := by
  simp only [Gen.Crp.get_alpha, Gen.Crp.get_n, Gen.Crp.new, Gen.Crp.new_unchecked, Gen.Crp.set_alpha, Gen.Crp.set_alpha_unchecked, Gen.Crp.set_n, Gen.Crp.set_n_unchecked]
  split_ifs <;> simp <;> c10_close

example : ∃ e, Gen.Crp.set_n ({ alpha := fin 2, n := 3 } : Gen.Crp X) (0) = .error e := by c10_eval []

-- @site Crp.set_n
/-- a successful checked setter preserves the parameter invariant -/
theorem Crp_set_n_inv (d d' : Gen.Crp X) (v : Nat) :
    Spec.Crp.Inv d → Gen.Crp.set_n d v = .ok d' → Spec.Crp.Inv d' := by
  rcases d with ⟨f0, f1⟩
  simp <;> c10_close

example : Spec.Crp.Inv ({ alpha := fin 2, n := 3 } : Gen.Crp X) := by c10_spec [Spec.Crp.Inv, Spec.Crp.Valid]

-- @site Crp.new
/-- a sequence of accepted setters ending in parameters θ yields the object `new θ` builds -/
theorem Crp_build_eq (d d1 d2 : Gen.Crp X) (alpha : X) (n : Nat) :
    Gen.Crp.set_alpha d alpha = .ok d1 →
    Gen.Crp.set_n d1 n = .ok d2 →
    Gen.Crp.new alpha n = .ok d2 := by
  rcases d with ⟨f0, f1⟩
  rcases alpha with _|_|_|alpha <;>
    (try simp) <;> c10_close

example : ∃ d', Gen.Crp.set_alpha ({ alpha := fin 2, n := 3 } : Gen.Crp X) (fin 7) = .ok d' := by c10_eval []

end Crp

/-! ## Exponential  (`src/dist/exponential.rs`) -/
section Exponential
attribute [local simp] Gen.Exponential.emit_params Gen.Exponential.from_params Gen.Exponential.get_rate Gen.Exponential.new Gen.Exponential.new_unchecked Gen.Exponential.set_rate Gen.Exponential.set_rate_unchecked Spec.Exponential.Valid Spec.Exponential.Inv

-- @site Exponential.new
/-- `Exponential::new` succeeds iff every parameter is in the documented domain — for ALL values incl. NaN, ±inf -/
theorem Exponential_new_ok_iff (rate : X) :
    (∃ d, Gen.Exponential.new rate = .ok d) ↔ Spec.Exponential.Valid rate := by
  rcases rate with _|_|_|rate <;>
    (try simp) <;> c10_close

example : ∃ d, Gen.Exponential.new (fin 2) = .ok d := (Exponential_new_ok_iff ..).mpr (by c10_spec [Spec.Exponential.Valid])

example : ¬ ∃ d, Gen.Exponential.new (fin 0) = .ok d := by rw [Exponential_new_ok_iff]; c10_spec [Spec.Exponential.Valid]

-- @site Exponential.new
/-- on success the object carries exactly the given parameters -/
theorem Exponential_new_ok_fields (rate : X) (d : Gen.Exponential X) :
    Gen.Exponential.new rate = .ok d → d = ({ rate := rate } : Gen.Exponential X) := by
  simp only [Gen.Exponential.emit_params, Gen.Exponential.from_params, Gen.Exponential.get_rate, Gen.Exponential.new, Gen.Exponential.new_unchecked, Gen.Exponential.set_rate, Gen.Exponential.set_rate_unchecked]
  split_ifs <;> simp <;> c10_close

example : Gen.Exponential.new (fin 2) = .ok ({ rate := fin 2 } : Gen.Exponential X) := by c10_eval []

-- @site Exponential.new
/-- checked and unchecked constructors build the same object -/
theorem Exponential_new_eq_unchecked (rate : X) (d : Gen.Exponential X) :
    Gen.Exponential.new rate = .ok d → d = Gen.Exponential.new_unchecked rate := by
  simp only [Gen.Exponential.emit_params, Gen.Exponential.from_params, Gen.Exponential.get_rate, Gen.Exponential.new, Gen.Exponential.new_unchecked, Gen.Exponential.set_rate, Gen.Exponential.set_rate_unchecked]
  split_ifs <;> simp <;> c10_close

example : Gen.Exponential.new (fin 2) = .ok (Gen.Exponential.new_unchecked (fin 2)) := by c10_eval []

-- @site Exponential.new
/-- an object obtained from the checked constructor satisfies the parameter invariant -/
theorem Exponential_new_inv (rate : X) (d : Gen.Exponential X) :
    Gen.Exponential.new rate = .ok d → Spec.Exponential.Inv d := by
  intro h
  rw [Exponential_new_ok_fields rate d h]
  exact (Exponential_new_ok_iff rate).mp ⟨d, h⟩

example : Spec.Exponential.Inv ({ rate := fin 2 } : Gen.Exponential X) := Exponential_new_inv (fin 2) _ (by c10_eval [])

-- @site Exponential.new
/-- on failure the error names an argument that IS outside its documented domain and carries its value -/
theorem Exponential_new_err_offending (rate : X) (e : Err X) :
    Gen.Exponential.new rate = .error e →
     (¬ Spec.C10.IsPos rate ∧ (e = Err.mk "RateTooLow" [rate] ∨ e = Err.mk "RateNotFinite" [rate])) := by
  rcases rate with _|_|_|rate <;>
    (try simp) <;> c10_close

example : ∃ e, Gen.Exponential.new (fin 0) = .error e := by c10_eval []

-- @site Exponential.new
/-- on failure the error names the FIRST offending argument in documented (argument) order -/
theorem Exponential_new_err_first (rate : X) (e : Err X) :
    Gen.Exponential.new rate = .error e →
     (¬ Spec.C10.IsPos rate → (e = Err.mk "RateTooLow" [rate] ∨ e = Err.mk "RateNotFinite" [rate])) := by
  rcases rate with _|_|_|rate <;>
    (try simp) <;> c10_close

example : ∃ e, Gen.Exponential.new (fin 0) = .error e := by c10_eval []

-- @site Exponential.set_rate
/-- `set_rate` succeeds iff the new value is in the documented domain of `rate` (finite, > 0) -/
theorem Exponential_set_rate_ok_iff (d : Gen.Exponential X) (v : X) :
    (∃ d', Gen.Exponential.set_rate d v = .ok d') ↔ Spec.C10.IsPos v := by
  rcases v with _|_|_|v <;>
    simp <;> c10_close

example : ∃ d', Gen.Exponential.set_rate ({ rate := fin 2 } : Gen.Exponential X) (fin 7) = .ok d' := (Exponential_set_rate_ok_iff ..).mpr (by c10_spec [])

-- @site Exponential.set_rate
/-- on failure the error carries the offending value -/
theorem Exponential_set_rate_err (d : Gen.Exponential X) (v : X) (e : Err X) :
    Gen.Exponential.set_rate d v = .error e → ¬ Spec.C10.IsPos v ∧ (e = Err.mk "RateTooLow" [v] ∨ e = Err.mk "RateNotFinite" [v]) := by
  rcases v with _|_|_|v <;>
    simp <;> c10_close

example : ∃ e, Gen.Exponential.set_rate ({ rate := fin 2 } : Gen.Exponential X) (fin 0) = .error e := by c10_eval []

-- @site Exponential.set_rate
/-- on success only that field (and its cache) changes; same object as the unchecked setter -/
theorem Exponential_set_rate_ok_fields (d d' : Gen.Exponential X) (v : X) :
    Gen.Exponential.set_rate d v = .ok d' → d' = { d with rate := v } ∧ d' = Gen.Exponential.set_rate_unchecked d v := by
  simp only [Gen.Exponential.emit_params, Gen.Exponential.from_params, Gen.Exponential.get_rate, Gen.Exponential.new, Gen.Exponential.new_unchecked, Gen.Exponential.set_rate, Gen.Exponential.set_rate_unchecked]
  split_ifs <;> simp <;> c10_close

example : Gen.Exponential.set_rate ({ rate := fin 2 } : Gen.Exponential X) (fin 7) = .ok ({ rate := fin 7 } : Gen.Exponential X) := by c10_eval []

-- @site Exponential.set_rate
/-- failure atomicity (structural): either an error without a new state, or exactly the updated state -/
theorem Exponential_set_rate_atomic (d : Gen.Exponential X) (v : X) :
    (∃ e, Gen.Exponential.set_rate d v = .error e) ∨ (∃ d', Gen.Exponential.set_rate d v = .ok d' ∧ d' = { d with rate := v }) := by
  simp only [Gen.Exponential.emit_params, Gen.Exponential.from_params, Gen.Exponential.get_rate, Gen.Exponential.new, Gen.Exponential.new_unchecked, Gen.Exponential.set_rate, Gen.Exponential.set_rate_unchecked]
  split_ifs <;> simp <;> c10_close

example : ∃ e, Gen.Exponential.set_rate ({ rate := fin 2 } : Gen.Exponential X) (fin 0) = .error e := by c10_eval []

-- @site Exponential.set_rate
/-- a successful checked setter preserves the parameter invariant -/
theorem Exponential_set_rate_inv (d d' : Gen.Exponential X) (v : X) :
    Spec.Exponential.Inv d → Gen.Exponential.set_rate d v = .ok d' → Spec.Exponential.Inv d' := by
  rcases d with ⟨f0⟩
  rcases v with _|_|_|v <;>
    simp <;> c10_close

example : Spec.Exponential.Inv ({ rate := fin 2 } : Gen.Exponential X) := by c10_spec [Spec.Exponential.Inv, Spec.Exponential.Valid]

-- @site Exponential.new
/-- a sequence of accepted setters ending in parameters θ yields the object `new θ` builds -/
theorem Exponential_build_eq (d d1 : Gen.Exponential X) (rate : X) :
    Gen.Exponential.set_rate d rate = .ok d1 →
    Gen.Exponential.new rate = .ok d1 := by
  rcases d with ⟨f0⟩
  rcases rate with _|_|_|rate <;>
    (try simp) <;> c10_close

example : ∃ d', Gen.Exponential.set_rate ({ rate := fin 2 } : Gen.Exponential X) (fin 7) = .ok d' := by c10_eval []

-- @site Exponential.from_params
/-- parameter round trip -/
theorem Exponential_from_emit (d : Gen.Exponential X) :
    Gen.Exponential.from_params (Gen.Exponential.emit_params d) = d := by
  rfl

example : Gen.Exponential.from_params (Gen.Exponential.emit_params ({ rate := fin 2 } : Gen.Exponential X)) = ({ rate := fin 2 } : Gen.Exponential X) := by c10_eval []

-- @site Exponential.from_params
/-- `from_params (emit_params ·)` is the identity on every object built by the checked constructor -/
theorem Exponential_new_eq_from_params (rate : X) (d : Gen.Exponential X) :
    Gen.Exponential.new rate = .ok d → Gen.Exponential.from_params (Gen.Exponential.emit_params d) = d := by
  simp only [Gen.Exponential.emit_params, Gen.Exponential.from_params, Gen.Exponential.get_rate, Gen.Exponential.new, Gen.Exponential.new_unchecked, Gen.Exponential.set_rate, Gen.Exponential.set_rate_unchecked]
  split_ifs <;> simp <;> c10_close

example : Gen.Exponential.new (fin 2) = .ok ({ rate := fin 2 } : Gen.Exponential X) := by c10_eval []

end Exponential

/-! ## Gamma  (`src/dist/gamma.rs`) -/
section Gamma
attribute [local simp] Gen.Gamma.emit_params Gen.Gamma.from_params Gen.Gamma.get_rate Gen.Gamma.get_shape Gen.Gamma.new Gen.Gamma.new_unchecked Gen.Gamma.set_rate Gen.Gamma.set_rate_unchecked Gen.Gamma.set_shape Gen.Gamma.set_shape_unchecked Spec.Gamma.Valid Spec.Gamma.Inv

-- @site Gamma.new
/-- `Gamma::new` succeeds iff every parameter is in the documented domain — for ALL values incl. NaN, ±inf -/
theorem Gamma_new_ok_iff (shape : X) (rate : X) :
    (∃ d, Gen.Gamma.new shape rate = .ok d) ↔ Spec.Gamma.Valid shape rate := by
  rcases shape with _|_|_|shape <;> (try simp) <;>
    rcases rate with _|_|_|rate <;>
    (try simp) <;> c10_close

example : ∃ d, Gen.Gamma.new (fin 2) (fin 2) = .ok d := (Gamma_new_ok_iff ..).mpr (by c10_spec [Spec.Gamma.Valid])

example : ¬ ∃ d, Gen.Gamma.new (fin 0) (fin 2) = .ok d := by rw [Gamma_new_ok_iff]; c10_spec [Spec.Gamma.Valid]

-- @site Gamma.new
/-- on success the object carries exactly the given parameters -/
theorem Gamma_new_ok_fields (shape : X) (rate : X) (d : Gen.Gamma X) :
    Gen.Gamma.new shape rate = .ok d → d = ({ shape := shape, rate := rate } : Gen.Gamma X) := by
  simp only [Gen.Gamma.emit_params, Gen.Gamma.from_params, Gen.Gamma.get_rate, Gen.Gamma.get_shape, Gen.Gamma.new, Gen.Gamma.new_unchecked, Gen.Gamma.set_rate, Gen.Gamma.set_rate_unchecked, Gen.Gamma.set_shape, Gen.Gamma.set_shape_unchecked]
  split_ifs <;> simp <;> c10_close

example : Gen.Gamma.new (fin 2) (fin 2) = .ok ({ shape := fin 2, rate := fin 2 } : Gen.Gamma X) := by c10_eval []

-- @site Gamma.new
/-- checked and unchecked constructors build the same object -/
theorem Gamma_new_eq_unchecked (shape : X) (rate : X) (d : Gen.Gamma X) :
    Gen.Gamma.new shape rate = .ok d → d = Gen.Gamma.new_unchecked shape rate := by
  simp only [Gen.Gamma.emit_params, Gen.Gamma.from_params, Gen.Gamma.get_rate, Gen.Gamma.get_shape, Gen.Gamma.new, Gen.Gamma.new_unchecked, Gen.Gamma.set_rate, Gen.Gamma.set_rate_unchecked, Gen.Gamma.set_shape, Gen.Gamma.set_shape_unchecked]
  split_ifs <;> simp <;> c10_close

example : Gen.Gamma.new (fin 2) (fin 2) = .ok (Gen.Gamma.new_unchecked (fin 2) (fin 2)) := by c10_eval []

-- @site Gamma.new
/-- an object obtained from the checked constructor satisfies the parameter invariant -/
theorem Gamma_new_inv (shape : X) (rate : X) (d : Gen.Gamma X) :
    Gen.Gamma.new shape rate = .ok d → Spec.Gamma.Inv d := by
  intro h
  rw [Gamma_new_ok_fields shape rate d h]
  exact (Gamma_new_ok_iff shape rate).mp ⟨d, h⟩

example : Spec.Gamma.Inv ({ shape := fin 2, rate := fin 2 } : Gen.Gamma X) := Gamma_new_inv (fin 2) (fin 2) _ (by c10_eval [])

-- @site Gamma.new
/-- on failure the error names an argument that IS outside its documented domain and carries its value -/
theorem Gamma_new_err_offending (shape : X) (rate : X) (e : Err X) :
    Gen.Gamma.new shape rate = .error e →
     (¬ Spec.C10.IsPos shape ∧ (e = Err.mk "ShapeTooLow" [shape] ∨ e = Err.mk "ShapeNotFinite" [shape])) ∨
     (¬ Spec.C10.IsPos rate ∧ (e = Err.mk "RateTooLow" [rate] ∨ e = Err.mk "RateNotFinite" [rate])) := by
  rcases shape with _|_|_|shape <;> (try simp) <;>
    rcases rate with _|_|_|rate <;>
    (try simp) <;> c10_close

example : ∃ e, Gen.Gamma.new (fin 0) (fin 2) = .error e := by c10_eval []

/- FULL STATEMENT (false, see the counterexample below — the code tests `shape <= 0`, `rate <= 0` and only then the finiteness of shape):
   theorem Gamma_new_err_first (shape : X) (rate : X) (e : Err X) :
     Gen.Gamma.new shape rate = .error e →
     (¬ Spec.C10.IsPos shape → (e = Err.mk "ShapeTooLow" [shape] ∨ e = Err.mk "ShapeNotFinite" [shape])) ∧
     (Spec.C10.IsPos shape → ¬ Spec.C10.IsPos rate → (e = Err.mk "RateTooLow" [rate] ∨ e = Err.mk "RateNotFinite" [rate]))
-/

-- @site Gamma.new
/-- first-offending-argument order holds only under the extra hypotheses; the code tests `shape <= 0`, `rate <= 0` and only then the finiteness of shape -/
theorem Gamma_new_err_first_partial (shape : X) (rate : X) (e : Err X) :
    shape ≠ nan → shape ≠ pinf → Gen.Gamma.new shape rate = .error e →
     (¬ Spec.C10.IsPos shape → (e = Err.mk "ShapeTooLow" [shape] ∨ e = Err.mk "ShapeNotFinite" [shape])) ∧
     (Spec.C10.IsPos shape → ¬ Spec.C10.IsPos rate → (e = Err.mk "RateTooLow" [rate] ∨ e = Err.mk "RateNotFinite" [rate])) := by
  rcases shape with _|_|_|shape <;> (try simp) <;>
    rcases rate with _|_|_|rate <;>
    (try simp) <;> c10_close

example : ∃ e, Gen.Gamma.new (fin 2) (fin 0) = .error e := by c10_eval []

-- @site Gamma.new
/-- DEFECT (order clause only): an earlier argument is invalid but the error names a later one; the code tests `shape <= 0`, `rate <= 0` and only then the finiteness of shape -/
theorem Gamma_new_err_order_counterexample :
    ¬ Spec.C10.IsPos (nan : X) ∧
    Gen.Gamma.new (nan) (fin (-1)) = .error (Err.mk "RateTooLow" [fin (-1)] : Err X) := by
  c10_eval []

-- @site Gamma.set_shape
/-- `set_shape` succeeds iff the new value is in the documented domain of `shape` (finite, > 0) -/
theorem Gamma_set_shape_ok_iff (d : Gen.Gamma X) (v : X) :
    (∃ d', Gen.Gamma.set_shape d v = .ok d') ↔ Spec.C10.IsPos v := by
  rcases v with _|_|_|v <;>
    simp <;> c10_close

example : ∃ d', Gen.Gamma.set_shape ({ shape := fin 2, rate := fin 2 } : Gen.Gamma X) (fin 7) = .ok d' := (Gamma_set_shape_ok_iff ..).mpr (by c10_spec [])

-- @site Gamma.set_shape
/-- on failure the error carries the offending value -/
theorem Gamma_set_shape_err (d : Gen.Gamma X) (v : X) (e : Err X) :
    Gen.Gamma.set_shape d v = .error e → ¬ Spec.C10.IsPos v ∧ (e = Err.mk "ShapeTooLow" [v] ∨ e = Err.mk "ShapeNotFinite" [v]) := by
  rcases v with _|_|_|v <;>
    simp <;> c10_close

example : ∃ e, Gen.Gamma.set_shape ({ shape := fin 2, rate := fin 2 } : Gen.Gamma X) (fin 0) = .error e := by c10_eval []

-- @site Gamma.set_shape
/-- on success only that field (and its cache) changes; same object as the unchecked setter -/
theorem Gamma_set_shape_ok_fields (d d' : Gen.Gamma X) (v : X) :
    Gen.Gamma.set_shape d v = .ok d' → d' = { d with shape := v } ∧ d' = Gen.Gamma.set_shape_unchecked d v := by
  simp only [Gen.Gamma.emit_params, Gen.Gamma.from_params, Gen.Gamma.get_rate, Gen.Gamma.get_shape, Gen.Gamma.new, Gen.Gamma.new_unchecked, Gen.Gamma.set_rate, Gen.Gamma.set_rate_unchecked, Gen.Gamma.set_shape, Gen.Gamma.set_shape_unchecked]
  split_ifs <;> simp <;> c10_close

example : Gen.Gamma.set_shape ({ shape := fin 2, rate := fin 2 } : Gen.Gamma X) (fin 7) = .ok ({ shape := fin 7, rate := fin 2 } : Gen.Gamma X) := by c10_eval []

-- @site Gamma.set_shape
/-- failure atomicity (structural): either an error without a new state, or exactly the updated state -/
theorem Gamma_set_shape_atomic (d : Gen.Gamma X) (v : X) :
    (∃ e, Gen.Gamma.set_shape d v = .error e) ∨ (∃ d', Gen.Gamma.set_shape d v = .ok d' ∧ d' = { d with shape := v }) := by
  simp only [Gen.Gamma.emit_params, Gen.Gamma.from_params, Gen.Gamma.get_rate, Gen.Gamma.get_shape, Gen.Gamma.new, Gen.Gamma.new_unchecked, Gen.Gamma.set_rate, Gen.Gamma.set_rate_unchecked, Gen.Gamma.set_shape, Gen.Gamma.set_shape_unchecked]
  split_ifs <;> simp <;> c10_close

example : ∃ e, Gen.Gamma.set_shape ({ shape := fin 2, rate := fin 2 } : Gen.Gamma X) (fin 0) = .error e := by c10_eval []

-- @site Gamma.set_shape
/-- a successful checked setter preserves the parameter invariant -/
theorem Gamma_set_shape_inv (d d' : Gen.Gamma X) (v : X) :
    Spec.Gamma.Inv d → Gen.Gamma.set_shape d v = .ok d' → Spec.Gamma.Inv d' := by
  rcases d with ⟨f0, f1⟩
  rcases v with _|_|_|v <;>
    simp <;> c10_close

example : Spec.Gamma.Inv ({ shape := fin 2, rate := fin 2 } : Gen.Gamma X) := by c10_spec [Spec.Gamma.Inv, Spec.Gamma.Valid]

-- @site Gamma.set_rate
/-- `set_rate` succeeds iff the new value is in the documented domain of `rate` (finite, > 0) -/
theorem Gamma_set_rate_ok_iff (d : Gen.Gamma X) (v : X) :
    (∃ d', Gen.Gamma.set_rate d v = .ok d') ↔ Spec.C10.IsPos v := by
  rcases v with _|_|_|v <;>
    simp <;> c10_close

example : ∃ d', Gen.Gamma.set_rate ({ shape := fin 2, rate := fin 2 } : Gen.Gamma X) (fin 7) = .ok d' := (Gamma_set_rate_ok_iff ..).mpr (by c10_spec [])

-- @site Gamma.set_rate
/-- on failure the error carries the offending value -/
theorem Gamma_set_rate_err (d : Gen.Gamma X) (v : X) (e : Err X) :
    Gen.Gamma.set_rate d v = .error e → ¬ Spec.C10.IsPos v ∧ (e = Err.mk "RateTooLow" [v] ∨ e = Err.mk "RateNotFinite" [v]) := by
  rcases v with _|_|_|v <;>
    simp <;> c10_close

example : ∃ e, Gen.Gamma.set_rate ({ shape := fin 2, rate := fin 2 } : Gen.Gamma X) (fin 0) = .error e := by c10_eval []

-- @site Gamma.set_rate
/-- on success only that field (and its cache) changes; same object as the unchecked setter -/
theorem Gamma_set_rate_ok_fields (d d' : Gen.Gamma X) (v : X) :
    Gen.Gamma.set_rate d v = .ok d' → d' = { d with rate := v } ∧ d' = Gen.Gamma.set_rate_unchecked d v := by
  simp only [Gen.Gamma.emit_params, Gen.Gamma.from_params, Gen.Gamma.get_rate, Gen.Gamma.get_shape, Gen.Gamma.new, Gen.Gamma.new_unchecked, Gen.Gamma.set_rate, Gen.Gamma.set_rate_unchecked, Gen.Gamma.set_shape, Gen.Gamma.set_shape_unchecked]
  split_ifs <;> simp <;> c10_close

example : Gen.Gamma.set_rate ({ shape := fin 2, rate := fin 2 } : Gen.Gamma X) (fin 7) = .ok ({ shape := fin 2, rate := fin 7 } : Gen.Gamma X) := by c10_eval []

-- @site Gamma.set_rate
/-- failure atomicity (structural): either an error without a new state, or exactly the updated state -/
theorem Gamma_set_rate_atomic (d : Gen.Gamma X) (v : X) :
    (∃ e, Gen.Gamma.set_rate d v = .error e) ∨ (∃ d', Gen.Gamma.set_rate d v = .ok d' ∧ d' = { d with rate := v }) := by
  simp only [Gen.Gamma.emit_params, Gen.Gamma.from_params, Gen.Gamma.get_rate, Gen.Gamma.get_shape, Gen.Gamma.new, Gen.Gamma.new_unchecked, Gen.Gamma.set_rate, Gen.Gamma.set_rate_unchecked, Gen.Gamma.set_shape, Gen.Gamma.set_shape_unchecked]
  split_ifs <;> simp <;> c10_close

example : ∃ e, Gen.Gamma.set_rate ({ shape := fin 2, rate := fin 2 } : Gen.Gamma X) (fin 0) = .error e := by c10_eval []

-- @site Gamma.set_rate
/-- a successful checked setter preserves the parameter invariant -/
theorem Gamma_set_rate_inv (d d' : Gen.Gamma X) (v : X) :
    Spec.Gamma.Inv d → Gen.Gamma.set_rate d v = .ok d' → Spec.Gamma.Inv d' := by
  rcases d with ⟨f0, f1⟩
  rcases v with _|_|_|v <;>
    simp <;> c10_close

example : Spec.Gamma.Inv ({ shape := fin 2, rate := fin 2 } : Gen.Gamma X) := by c10_spec [Spec.Gamma.Inv, Spec.Gamma.Valid]

-- @site Gamma.new
/-- a sequence of accepted setters ending in parameters θ yields the object `new θ` builds -/
theorem Gamma_build_eq (d d1 d2 : Gen.Gamma X) (shape : X) (rate : X) :
    Gen.Gamma.set_shape d shape = .ok d1 →
    Gen.Gamma.set_rate d1 rate = .ok d2 →
    Gen.Gamma.new shape rate = .ok d2 := by
  rcases d with ⟨f0, f1⟩
  rcases shape with _|_|_|shape <;> (try simp) <;>
    rcases rate with _|_|_|rate <;>
    (try simp) <;> c10_close

example : ∃ d', Gen.Gamma.set_shape ({ shape := fin 2, rate := fin 2 } : Gen.Gamma X) (fin 7) = .ok d' := by c10_eval []

-- @site Gamma.from_params
/-- parameter round trip -/
theorem Gamma_from_emit (d : Gen.Gamma X) :
    Gen.Gamma.from_params (Gen.Gamma.emit_params d) = d := by
  rfl

example : Gen.Gamma.from_params (Gen.Gamma.emit_params ({ shape := fin 2, rate := fin 2 } : Gen.Gamma X)) = ({ shape := fin 2, rate := fin 2 } : Gen.Gamma X) := by c10_eval []

-- @site Gamma.from_params
/-- `from_params (emit_params ·)` is the identity on every object built by the checked constructor -/
theorem Gamma_new_eq_from_params (shape : X) (rate : X) (d : Gen.Gamma X) :
    Gen.Gamma.new shape rate = .ok d → Gen.Gamma.from_params (Gen.Gamma.emit_params d) = d := by
  simp only [Gen.Gamma.emit_params, Gen.Gamma.from_params, Gen.Gamma.get_rate, Gen.Gamma.get_shape, Gen.Gamma.new, Gen.Gamma.new_unchecked, Gen.Gamma.set_rate, Gen.Gamma.set_rate_unchecked, Gen.Gamma.set_shape, Gen.Gamma.set_shape_unchecked]
  split_ifs <;> simp <;> c10_close

example : Gen.Gamma.new (fin 2) (fin 2) = .ok ({ shape := fin 2, rate := fin 2 } : Gen.Gamma X) := by c10_eval []

end Gamma

/-! ## Gaussian  (`src/dist/gaussian.rs`) -/
section Gaussian
attribute [local simp] Gen.Gaussian.emit_params Gen.Gaussian.from_params Gen.Gaussian.get_mu Gen.Gaussian.get_sigma Gen.Gaussian.new Gen.Gaussian.new_unchecked Gen.Gaussian.set_mu Gen.Gaussian.set_mu_unchecked Gen.Gaussian.set_sigma Gen.Gaussian.set_sigma_unchecked Spec.Gaussian.Valid Spec.Gaussian.Inv

-- @site Gaussian.new
/-- `Gaussian::new` succeeds iff every parameter is in the documented domain — for ALL values incl. NaN, ±inf -/
theorem Gaussian_new_ok_iff (mu : X) (sigma : X) :
    (∃ d, Gen.Gaussian.new mu sigma = .ok d) ↔ Spec.Gaussian.Valid mu sigma := by
  rcases mu with _|_|_|mu <;> (try simp) <;>
    rcases sigma with _|_|_|sigma <;>
    (try simp) <;> c10_close

example : ∃ d, Gen.Gaussian.new (fin (-1)) (fin 2) = .ok d := (Gaussian_new_ok_iff ..).mpr (by c10_spec [Spec.Gaussian.Valid])

example : ¬ ∃ d, Gen.Gaussian.new (nan) (fin 2) = .ok d := by rw [Gaussian_new_ok_iff]; c10_spec [Spec.Gaussian.Valid]

-- @site Gaussian.new
/-- on success the object carries exactly the given parameters -/
theorem Gaussian_new_ok_fields (mu : X) (sigma : X) (d : Gen.Gaussian X) :
    Gen.Gaussian.new mu sigma = .ok d → d = ({ mu := mu, sigma := sigma } : Gen.Gaussian X) := by
  simp only [Gen.Gaussian.emit_params, Gen.Gaussian.from_params, Gen.Gaussian.get_mu, Gen.Gaussian.get_sigma, Gen.Gaussian.new, Gen.Gaussian.new_unchecked, Gen.Gaussian.set_mu, Gen.Gaussian.set_mu_unchecked, Gen.Gaussian.set_sigma, Gen.Gaussian.set_sigma_unchecked]
  split_ifs <;> simp <;> c10_close

example : Gen.Gaussian.new (fin (-1)) (fin 2) = .ok ({ mu := fin (-1), sigma := fin 2 } : Gen.Gaussian X) := by c10_eval []

-- @site Gaussian.new
/-- checked and unchecked constructors build the same object -/
theorem Gaussian_new_eq_unchecked (mu : X) (sigma : X) (d : Gen.Gaussian X) :
    Gen.Gaussian.new mu sigma = .ok d → d = Gen.Gaussian.new_unchecked mu sigma := by
  simp only [Gen.Gaussian.emit_params, Gen.Gaussian.from_params, Gen.Gaussian.get_mu, Gen.Gaussian.get_sigma, Gen.Gaussian.new, Gen.Gaussian.new_unchecked, Gen.Gaussian.set_mu, Gen.Gaussian.set_mu_unchecked, Gen.Gaussian.set_sigma, Gen.Gaussian.set_sigma_unchecked]
  split_ifs <;> simp <;> c10_close

example : Gen.Gaussian.new (fin (-1)) (fin 2) = .ok (Gen.Gaussian.new_unchecked (fin (-1)) (fin 2)) := by c10_eval []

-- @site Gaussian.new
/-- an object obtained from the checked constructor satisfies the parameter invariant -/
theorem Gaussian_new_inv (mu : X) (sigma : X) (d : Gen.Gaussian X) :
    Gen.Gaussian.new mu sigma = .ok d → Spec.Gaussian.Inv d := by
  intro h
  rw [Gaussian_new_ok_fields mu sigma d h]
  exact (Gaussian_new_ok_iff mu sigma).mp ⟨d, h⟩

example : Spec.Gaussian.Inv ({ mu := fin (-1), sigma := fin 2 } : Gen.Gaussian X) := Gaussian_new_inv (fin (-1)) (fin 2) _ (by c10_eval [])

-- @site Gaussian.new
/-- on failure the error names an argument that IS outside its documented domain and carries its value -/
theorem Gaussian_new_err_offending (mu : X) (sigma : X) (e : Err X) :
    Gen.Gaussian.new mu sigma = .error e →
     (¬ Spec.C10.IsFin mu ∧ (e = Err.mk "MuNotFinite" [mu])) ∨
     (¬ Spec.C10.IsPos sigma ∧ (e = Err.mk "SigmaTooLow" [sigma] ∨ e = Err.mk "SigmaNotFinite" [sigma])) := by
  rcases mu with _|_|_|mu <;> (try simp) <;>
    rcases sigma with _|_|_|sigma <;>
    (try simp) <;> c10_close

example : ∃ e, Gen.Gaussian.new (nan) (fin 2) = .error e := by c10_eval []

-- @site Gaussian.new
/-- on failure the error names the FIRST offending argument in documented (argument) order -/
theorem Gaussian_new_err_first (mu : X) (sigma : X) (e : Err X) :
    Gen.Gaussian.new mu sigma = .error e →
     (¬ Spec.C10.IsFin mu → (e = Err.mk "MuNotFinite" [mu])) ∧
     (Spec.C10.IsFin mu → ¬ Spec.C10.IsPos sigma → (e = Err.mk "SigmaTooLow" [sigma] ∨ e = Err.mk "SigmaNotFinite" [sigma])) := by
  rcases mu with _|_|_|mu <;> (try simp) <;>
    rcases sigma with _|_|_|sigma <;>
    (try simp) <;> c10_close

example : ∃ e, Gen.Gaussian.new (nan) (fin 2) = .error e := by c10_eval []

-- @site Gaussian.set_mu
/-- `set_mu` succeeds iff the new value is in the documented domain of `mu` (finite) -/
theorem Gaussian_set_mu_ok_iff (d : Gen.Gaussian X) (v : X) :
    (∃ d', Gen.Gaussian.set_mu d v = .ok d') ↔ Spec.C10.IsFin v := by
  rcases v with _|_|_|v <;>
    simp <;> c10_close

example : ∃ d', Gen.Gaussian.set_mu ({ mu := fin (-1), sigma := fin 2 } : Gen.Gaussian X) (fin 5) = .ok d' := (Gaussian_set_mu_ok_iff ..).mpr (by c10_spec [])

-- @site Gaussian.set_mu
/-- on failure the error carries the offending value -/
theorem Gaussian_set_mu_err (d : Gen.Gaussian X) (v : X) (e : Err X) :
    Gen.Gaussian.set_mu d v = .error e → ¬ Spec.C10.IsFin v ∧ (e = Err.mk "MuNotFinite" [v]) := by
  rcases v with _|_|_|v <;>
    simp <;> c10_close

example : ∃ e, Gen.Gaussian.set_mu ({ mu := fin (-1), sigma := fin 2 } : Gen.Gaussian X) (nan) = .error e := by c10_eval []

-- @site Gaussian.set_mu
/-- on success only that field (and its cache) changes; same object as the unchecked setter -/
theorem Gaussian_set_mu_ok_fields (d d' : Gen.Gaussian X) (v : X) :
    Gen.Gaussian.set_mu d v = .ok d' → d' = { d with mu := v } ∧ d' = Gen.Gaussian.set_mu_unchecked d v := by
  simp only [Gen.Gaussian.emit_params, Gen.Gaussian.from_params, Gen.Gaussian.get_mu, Gen.Gaussian.get_sigma, Gen.Gaussian.new, Gen.Gaussian.new_unchecked, Gen.Gaussian.set_mu, Gen.Gaussian.set_mu_unchecked, Gen.Gaussian.set_sigma, Gen.Gaussian.set_sigma_unchecked]
  split_ifs <;> simp <;> c10_close

example : Gen.Gaussian.set_mu ({ mu := fin (-1), sigma := fin 2 } : Gen.Gaussian X) (fin 5) = .ok ({ mu := fin 5, sigma := fin 2 } : Gen.Gaussian X) := by c10_eval []

-- @site Gaussian.set_mu
/-- failure atomicity (structural): either an error without a new state, or exactly the updated state -/
theorem Gaussian_set_mu_atomic (d : Gen.Gaussian X) (v : X) :
    (∃ e, Gen.Gaussian.set_mu d v = .error e) ∨ (∃ d', Gen.Gaussian.set_mu d v = .ok d' ∧ d' = { d with mu := v }) := by
  simp only [Gen.Gaussian.emit_params, Gen.Gaussian.from_params, Gen.Gaussian.get_mu, Gen.Gaussian.get_sigma, Gen.Gaussian.new, Gen.Gaussian.new_unchecked, Gen.Gaussian.set_mu, Gen.Gaussian.set_mu_unchecked, Gen.Gaussian.set_sigma, Gen.Gaussian.set_sigma_unchecked]
  split_ifs <;> simp <;> c10_close

example : ∃ e, Gen.Gaussian.set_mu ({ mu := fin (-1), sigma := fin 2 } : Gen.Gaussian X) (nan) = .error e := by c10_eval []

-- @site Gaussian.set_mu
/-- a successful checked setter preserves the parameter invariant -/
theorem Gaussian_set_mu_inv (d d' : Gen.Gaussian X) (v : X) :
    Spec.Gaussian.Inv d → Gen.Gaussian.set_mu d v = .ok d' → Spec.Gaussian.Inv d' := by
  rcases d with ⟨f0, f1⟩
  rcases v with _|_|_|v <;>
    simp <;> c10_close

example : Spec.Gaussian.Inv ({ mu := fin (-1), sigma := fin 2 } : Gen.Gaussian X) := by c10_spec [Spec.Gaussian.Inv, Spec.Gaussian.Valid]

-- @site Gaussian.set_sigma
/-- `set_sigma` succeeds iff the new value is in the documented domain of `sigma` (finite, > 0) -/
theorem Gaussian_set_sigma_ok_iff (d : Gen.Gaussian X) (v : X) :
    (∃ d', Gen.Gaussian.set_sigma d v = .ok d') ↔ Spec.C10.IsPos v := by
  rcases v with _|_|_|v <;>
    simp <;> c10_close

example : ∃ d', Gen.Gaussian.set_sigma ({ mu := fin (-1), sigma := fin 2 } : Gen.Gaussian X) (fin 7) = .ok d' := (Gaussian_set_sigma_ok_iff ..).mpr (by c10_spec [])

-- @site Gaussian.set_sigma
/-- on failure the error carries the offending value -/
theorem Gaussian_set_sigma_err (d : Gen.Gaussian X) (v : X) (e : Err X) :
    Gen.Gaussian.set_sigma d v = .error e → ¬ Spec.C10.IsPos v ∧ (e = Err.mk "SigmaTooLow" [v] ∨ e = Err.mk "SigmaNotFinite" [v]) := by
  rcases v with _|_|_|v <;>
    simp <;> c10_close

example : ∃ e, Gen.Gaussian.set_sigma ({ mu := fin (-1), sigma := fin 2 } : Gen.Gaussian X) (fin 0) = .error e := by c10_eval []

-- @site Gaussian.set_sigma
/-- on success only that field (and its cache) changes; same object as the unchecked setter -/
theorem Gaussian_set_sigma_ok_fields (d d' : Gen.Gaussian X) (v : X) :
    Gen.Gaussian.set_sigma d v = .ok d' → d' = { d with sigma := v } ∧ d' = Gen.Gaussian.set_sigma_unchecked d v := by
  simp only [Gen.Gaussian.emit_params, Gen.Gaussian.from_params, Gen.Gaussian.get_mu, Gen.Gaussian.get_sigma, Gen.Gaussian.new, Gen.Gaussian.new_unchecked, Gen.Gaussian.set_mu, Gen.Gaussian.set_mu_unchecked, Gen.Gaussian.set_sigma, Gen.Gaussian.set_sigma_unchecked]
  split_ifs <;> simp <;> c10_close

example : Gen.Gaussian.set_sigma ({ mu := fin (-1), sigma := fin 2 } : Gen.Gaussian X) (fin 7) = .ok ({ mu := fin (-1), sigma := fin 7 } : Gen.Gaussian X) := by c10_eval []

-- @site Gaussian.set_sigma
/-- failure atomicity (structural): either an error without a new state, or exactly the updated state -/
theorem Gaussian_set_sigma_atomic (d : Gen.Gaussian X) (v : X) :
    (∃ e, Gen.Gaussian.set_sigma d v = .error e) ∨ (∃ d', Gen.Gaussian.set_sigma d v = .ok d' ∧ d' = { d with sigma := v }) := by
  simp only [Gen.Gaussian.emit_params, Gen.Gaussian.from_params, Gen.Gaussian.get_mu, Gen.Gaussian.get_sigma, Gen.Gaussian.new, Gen.Gaussian.new_unchecked, Gen.Gaussian.set_mu, Gen.Gaussian.set_mu_unchecked, Gen.Gaussian.set_sigma, Gen.Gaussian.set_sigma_unchecked]
  split_ifs <;> simp <;> c10_close

example : ∃ e, Gen.Gaussian.set_sigma ({ mu := fin (-1), sigma := fin 2 } : Gen.Gaussian X) (fin 0) = .error e := by c10_eval []

-- @site Gaussian.set_sigma
/-- a successful checked setter preserves the parameter invariant -/
theorem Gaussian_set_sigma_inv (d d' : Gen.Gaussian X) (v : X) :
    Spec.Gaussian.Inv d → Gen.Gaussian.set_sigma d v = .ok d' → Spec.Gaussian.Inv d' := by
  rcases d with ⟨f0, f1⟩
  rcases v with _|_|_|v <;>
    simp <;> c10_close

example : Spec.Gaussian.Inv ({ mu := fin (-1), sigma := fin 2 } : Gen.Gaussian X) := by c10_spec [Spec.Gaussian.Inv, Spec.Gaussian.Valid]

-- @site Gaussian.new
/-- a sequence of accepted setters ending in parameters θ yields the object `new θ` builds -/
theorem Gaussian_build_eq (d d1 d2 : Gen.Gaussian X) (mu : X) (sigma : X) :
    Gen.Gaussian.set_mu d mu = .ok d1 →
    Gen.Gaussian.set_sigma d1 sigma = .ok d2 →
    Gen.Gaussian.new mu sigma = .ok d2 := by
  rcases d with ⟨f0, f1⟩
  rcases mu with _|_|_|mu <;> (try simp) <;>
    rcases sigma with _|_|_|sigma <;>
    (try simp) <;> c10_close

example : ∃ d', Gen.Gaussian.set_mu ({ mu := fin (-1), sigma := fin 2 } : Gen.Gaussian X) (fin 5) = .ok d' := by c10_eval []

-- @site Gaussian.from_params
/-- parameter round trip -/
theorem Gaussian_from_emit (d : Gen.Gaussian X) :
    Gen.Gaussian.from_params (Gen.Gaussian.emit_params d) = d := by
  rfl

example : Gen.Gaussian.from_params (Gen.Gaussian.emit_params ({ mu := fin (-1), sigma := fin 2 } : Gen.Gaussian X)) = ({ mu := fin (-1), sigma := fin 2 } : Gen.Gaussian X) := by c10_eval []

-- @site Gaussian.from_params
/-- `from_params (emit_params ·)` is the identity on every object built by the checked constructor -/
theorem Gaussian_new_eq_from_params (mu : X) (sigma : X) (d : Gen.Gaussian X) :
    Gen.Gaussian.new mu sigma = .ok d → Gen.Gaussian.from_params (Gen.Gaussian.emit_params d) = d := by
  simp only [Gen.Gaussian.emit_params, Gen.Gaussian.from_params, Gen.Gaussian.get_mu, Gen.Gaussian.get_sigma, Gen.Gaussian.new, Gen.Gaussian.new_unchecked, Gen.Gaussian.set_mu, Gen.Gaussian.set_mu_unchecked, Gen.Gaussian.set_sigma, Gen.Gaussian.set_sigma_unchecked]
  split_ifs <;> simp <;> c10_close

example : Gen.Gaussian.new (fin (-1)) (fin 2) = .ok ({ mu := fin (-1), sigma := fin 2 } : Gen.Gaussian X) := by c10_eval []

end Gaussian

/-! ## Geometric  (`src/dist/geometric.rs`) -/
section Geometric
attribute [local simp] Gen.Geometric.emit_params Gen.Geometric.from_params Gen.Geometric.get_p Gen.Geometric.new Gen.Geometric.new_unchecked Gen.Geometric.set_p Gen.Geometric.set_p_unchecked Spec.Geometric.Valid Spec.Geometric.Inv

-- @site Geometric.new
/-- `Geometric::new` succeeds iff every parameter is in the documented domain — for ALL values incl. NaN, ±inf -/
theorem Geometric_new_ok_iff (p : X) :
    (∃ d, Gen.Geometric.new p = .ok d) ↔ Spec.Geometric.Valid p := by
  rcases p with _|_|_|p <;>
    (try simp) <;> c10_close

example : ∃ d, Gen.Geometric.new (fin (1/2)) = .ok d := (Geometric_new_ok_iff ..).mpr (by c10_spec [Spec.Geometric.Valid])

example : ¬ ∃ d, Gen.Geometric.new (fin 0) = .ok d := by rw [Geometric_new_ok_iff]; c10_spec [Spec.Geometric.Valid]

-- @site Geometric.new
/-- on success the object carries exactly the given parameters -/
theorem Geometric_new_ok_fields (p : X) (d : Gen.Geometric X) :
    Gen.Geometric.new p = .ok d → d = ({ p := p } : Gen.Geometric X) := by
  simp only [Gen.Geometric.emit_params, Gen.Geometric.from_params, Gen.Geometric.get_p, Gen.Geometric.new, Gen.Geometric.new_unchecked, Gen.Geometric.set_p, Gen.Geometric.set_p_unchecked]
  split_ifs <;> simp <;> c10_close

example : Gen.Geometric.new (fin (1/2)) = .ok ({ p := fin (1/2) } : Gen.Geometric X) := by c10_eval []

-- @site Geometric.new
/-- checked and unchecked constructors build the same object -/
theorem Geometric_new_eq_unchecked (p : X) (d : Gen.Geometric X) :
    Gen.Geometric.new p = .ok d → d = Gen.Geometric.new_unchecked p := by
  simp only [Gen.Geometric.emit_params, Gen.Geometric.from_params, Gen.Geometric.get_p, Gen.Geometric.new, Gen.Geometric.new_unchecked, Gen.Geometric.set_p, Gen.Geometric.set_p_unchecked]
  split_ifs <;> simp <;> c10_close

example : Gen.Geometric.new (fin (1/2)) = .ok (Gen.Geometric.new_unchecked (fin (1/2))) := by c10_eval []

-- @site Geometric.new
/-- an object obtained from the checked constructor satisfies the parameter invariant -/
theorem Geometric_new_inv (p : X) (d : Gen.Geometric X) :
    Gen.Geometric.new p = .ok d → Spec.Geometric.Inv d := by
  intro h
  rw [Geometric_new_ok_fields p d h]
  exact (Geometric_new_ok_iff p).mp ⟨d, h⟩

example : Spec.Geometric.Inv ({ p := fin (1/2) } : Gen.Geometric X) := Geometric_new_inv (fin (1/2)) _ (by c10_eval [])

-- @site Geometric.new
/-- on failure the error names an argument that IS outside its documented domain and carries its value -/
theorem Geometric_new_err_offending (p : X) (e : Err X) :
    Gen.Geometric.new p = .error e →
     (¬ Spec.C10.IsPosLeOne p ∧ (e = Err.mk "PNotFinite" [p] ∨ e = Err.mk "PTooLow" [p] ∨ e = Err.mk "PGreaterThanOne" [p])) := by
  rcases p with _|_|_|p <;>
    (try simp) <;> c10_close

example : ∃ e, Gen.Geometric.new (fin 0) = .error e := by c10_eval []

-- @site Geometric.new
/-- on failure the error names the FIRST offending argument in documented (argument) order -/
theorem Geometric_new_err_first (p : X) (e : Err X) :
    Gen.Geometric.new p = .error e →
     (¬ Spec.C10.IsPosLeOne p → (e = Err.mk "PNotFinite" [p] ∨ e = Err.mk "PTooLow" [p] ∨ e = Err.mk "PGreaterThanOne" [p])) := by
  rcases p with _|_|_|p <;>
    (try simp) <;> c10_close

example : ∃ e, Gen.Geometric.new (fin 0) = .error e := by c10_eval []

-- @site Geometric.set_p
/-- `set_p` succeeds iff the new value is in the documented domain of `p` (finite, in (0, 1]) -/
theorem Geometric_set_p_ok_iff (d : Gen.Geometric X) (v : X) :
    (∃ d', Gen.Geometric.set_p d v = .ok d') ↔ Spec.C10.IsPosLeOne v := by
  rcases v with _|_|_|v <;>
    simp <;> c10_close

example : ∃ d', Gen.Geometric.set_p ({ p := fin (1/2) } : Gen.Geometric X) (fin 1) = .ok d' := (Geometric_set_p_ok_iff ..).mpr (by c10_spec [])

-- @site Geometric.set_p
/-- on failure the error carries the offending value -/
theorem Geometric_set_p_err (d : Gen.Geometric X) (v : X) (e : Err X) :
    Gen.Geometric.set_p d v = .error e → ¬ Spec.C10.IsPosLeOne v ∧ (e = Err.mk "PNotFinite" [v] ∨ e = Err.mk "PTooLow" [v] ∨ e = Err.mk "PGreaterThanOne" [v]) := by
  rcases v with _|_|_|v <;>
    simp <;> c10_close

example : ∃ e, Gen.Geometric.set_p ({ p := fin (1/2) } : Gen.Geometric X) (fin 0) = .error e := by c10_eval []

-- @site Geometric.set_p
/-- on success only that field (and its cache) changes; same object as the unchecked setter -/
theorem Geometric_set_p_ok_fields (d d' : Gen.Geometric X) (v : X) :
    Gen.Geometric.set_p d v = .ok d' → d' = { d with p := v } ∧ d' = Gen.Geometric.set_p_unchecked d v := by
  simp only [Gen.Geometric.emit_params, Gen.Geometric.from_params, Gen.Geometric.get_p, Gen.Geometric.new, Gen.Geometric.new_unchecked, Gen.Geometric.set_p, Gen.Geometric.set_p_unchecked]
  split_ifs <;> simp <;> c10_close

example : Gen.Geometric.set_p ({ p := fin (1/2) } : Gen.Geometric X) (fin 1) = .ok ({ p := fin 1 } : Gen.Geometric X) := by c10_eval []

-- @site Geometric.set_p
/-- failure atomicity (structural): either an error without a new state, or exactly the updated state -/
theorem Geometric_set_p_atomic (d : Gen.Geometric X) (v : X) :
    (∃ e, Gen.Geometric.set_p d v = .error e) ∨ (∃ d', Gen.Geometric.set_p d v = .ok d' ∧ d' = { d with p := v }) := by
  simp only [Gen.Geometric.emit_params, Gen.Geometric.from_params, Gen.Geometric.get_p, Gen.Geometric.new, Gen.Geometric.new_unchecked, Gen.Geometric.set_p, Gen.Geometric.set_p_unchecked]
  split_ifs <;> simp <;> c10_close

example : ∃ e, Gen.Geometric.set_p ({ p := fin (1/2) } : Gen.Geometric X) (fin 0) = .error e := by c10_eval []

-- @site Geometric.set_p
/-- a successful checked setter preserves the parameter invariant -/
theorem Geometric_set_p_inv (d d' : Gen.Geometric X) (v : X) :
    Spec.Geometric.Inv d → Gen.Geometric.set_p d v = .ok d' → Spec.Geometric.Inv d' := by
  rcases d with ⟨f0⟩
  rcases v with _|_|_|v <;>
    simp <;> c10_close

example : Spec.Geometric.Inv ({ p := fin (1/2) } : Gen.Geometric X) := by c10_spec [Spec.Geometric.Inv, Spec.Geometric.Valid]

-- @site Geometric.new
/-- a sequence of accepted setters ending in parameters θ yields the object `new θ` builds -/
theorem Geometric_build_eq (d d1 : Gen.Geometric X) (p : X) :
    Gen.Geometric.set_p d p = .ok d1 →
    Gen.Geometric.new p = .ok d1 := by
  rcases d with ⟨f0⟩
  rcases p with _|_|_|p <;>
    (try simp) <;> c10_close

example : ∃ d', Gen.Geometric.set_p ({ p := fin (1/2) } : Gen.Geometric X) (fin 1) = .ok d' := by c10_eval []

-- @site Geometric.from_params
/-- parameter round trip -/
theorem Geometric_from_emit (d : Gen.Geometric X) :
    Gen.Geometric.from_params (Gen.Geometric.emit_params d) = d := by
  rfl

example : Gen.Geometric.from_params (Gen.Geometric.emit_params ({ p := fin (1/2) } : Gen.Geometric X)) = ({ p := fin (1/2) } : Gen.Geometric X) := by c10_eval []

-- @site Geometric.from_params
/-- `from_params (emit_params ·)` is the identity on every object built by the checked constructor -/
theorem Geometric_new_eq_from_params (p : X) (d : Gen.Geometric X) :
    Gen.Geometric.new p = .ok d → Gen.Geometric.from_params (Gen.Geometric.emit_params d) = d := by
  simp only [Gen.Geometric.emit_params, Gen.Geometric.from_params, Gen.Geometric.get_p, Gen.Geometric.new, Gen.Geometric.new_unchecked, Gen.Geometric.set_p, Gen.Geometric.set_p_unchecked]
  split_ifs <;> simp <;> c10_close

example : Gen.Geometric.new (fin (1/2)) = .ok ({ p := fin (1/2) } : Gen.Geometric X) := by c10_eval []

end Geometric

/-! ## Gev  (`src/dist/gev.rs`) -/
section Gev
attribute [local simp] Gen.Gev.emit_params Gen.Gev.from_params Gen.Gev.get_loc Gen.Gev.get_scale Gen.Gev.get_shape Gen.Gev.new Gen.Gev.new_unchecked Gen.Gev.set_loc Gen.Gev.set_loc_unchecked Gen.Gev.set_scale Gen.Gev.set_scale_unchecked Gen.Gev.set_shape Gen.Gev.set_shape_unchecked Spec.Gev.Valid Spec.Gev.Inv

-- @site Gev.new
/-- `Gev::new` succeeds iff every parameter is in the documented domain — for ALL values incl. NaN, ±inf -/
theorem Gev_new_ok_iff (loc : X) (scale : X) (shape : X) :
    (∃ d, Gen.Gev.new loc scale shape = .ok d) ↔ Spec.Gev.Valid loc scale shape := by
  rcases loc with _|_|_|loc <;> (try simp) <;>
    rcases scale with _|_|_|scale <;> (try simp) <;>
    rcases shape with _|_|_|shape <;>
    (try simp) <;> c10_close

example : ∃ d, Gen.Gev.new (fin (-1)) (fin 2) (fin (-1)) = .ok d := (Gev_new_ok_iff ..).mpr (by c10_spec [Spec.Gev.Valid])

example : ¬ ∃ d, Gen.Gev.new (nan) (fin 2) (fin (-1)) = .ok d := by rw [Gev_new_ok_iff]; c10_spec [Spec.Gev.Valid]

-- @site Gev.new
/-- on success the object carries exactly the given parameters -/
theorem Gev_new_ok_fields (loc : X) (scale : X) (shape : X) (d : Gen.Gev X) :
    Gen.Gev.new loc scale shape = .ok d → d = ({ loc := loc, scale := scale, shape := shape } : Gen.Gev X) := by
  simp only [Gen.Gev.emit_params, Gen.Gev.from_params, Gen.Gev.get_loc, Gen.Gev.get_scale, Gen.Gev.get_shape, Gen.Gev.new, Gen.Gev.new_unchecked, Gen.Gev.set_loc, Gen.Gev.set_loc_unchecked, Gen.Gev.set_scale, Gen.Gev.set_scale_unchecked, Gen.Gev.set_shape, Gen.Gev.set_shape_unchecked]
  split_ifs <;> simp <;> c10_close

example : Gen.Gev.new (fin (-1)) (fin 2) (fin (-1)) = .ok ({ loc := fin (-1), scale := fin 2, shape := fin (-1) } : Gen.Gev X) := by c10_eval []

-- @site Gev.new
/-- checked and unchecked constructors build the same object -/
theorem Gev_new_eq_unchecked (loc : X) (scale : X) (shape : X) (d : Gen.Gev X) :
    Gen.Gev.new loc scale shape = .ok d → d = Gen.Gev.new_unchecked loc scale shape := by
  simp only [Gen.Gev.emit_params, Gen.Gev.from_params, Gen.Gev.get_loc, Gen.Gev.get_scale, Gen.Gev.get_shape, Gen.Gev.new, Gen.Gev.new_unchecked, Gen.Gev.set_loc, Gen.Gev.set_loc_unchecked, Gen.Gev.set_scale, Gen.Gev.set_scale_unchecked, Gen.Gev.set_shape, Gen.Gev.set_shape_unchecked]
  split_ifs <;> simp <;> c10_close

example : Gen.Gev.new (fin (-1)) (fin 2) (fin (-1)) = .ok (Gen.Gev.new_unchecked (fin (-1)) (fin 2) (fin (-1))) := by c10_eval []

-- @site Gev.new
/-- an object obtained from the checked constructor satisfies the parameter invariant -/
theorem Gev_new_inv (loc : X) (scale : X) (shape : X) (d : Gen.Gev X) :
    Gen.Gev.new loc scale shape = .ok d → Spec.Gev.Inv d := by
  intro h
  rw [Gev_new_ok_fields loc scale shape d h]
  exact (Gev_new_ok_iff loc scale shape).mp ⟨d, h⟩

example : Spec.Gev.Inv ({ loc := fin (-1), scale := fin 2, shape := fin (-1) } : Gen.Gev X) := Gev_new_inv (fin (-1)) (fin 2) (fin (-1)) _ (by c10_eval [])

-- @site Gev.new
/-- on failure the error names an argument that IS outside its documented domain and carries its value -/
theorem Gev_new_err_offending (loc : X) (scale : X) (shape : X) (e : Err X) :
    Gen.Gev.new loc scale shape = .error e →
     (¬ Spec.C10.IsFin loc ∧ (e = Err.mk "LocNotFinite" [loc])) ∨
     (¬ Spec.C10.IsPos scale ∧ (e = Err.mk "ScaleTooLow" [scale] ∨ e = Err.mk "ScaleNotFinite" [scale])) ∨
     (¬ Spec.C10.IsFin shape ∧ (e = Err.mk "ShapeNotFinite" [shape])) := by
  rcases loc with _|_|_|loc <;> (try simp) <;>
    rcases scale with _|_|_|scale <;> (try simp) <;>
    rcases shape with _|_|_|shape <;>
    (try simp) <;> c10_close

example : ∃ e, Gen.Gev.new (nan) (fin 2) (fin (-1)) = .error e := by c10_eval []

/- FULL STATEMENT (false, see the counterexample below — the code checks scale, shape and only then loc (first argument)):
   theorem Gev_new_err_first (loc : X) (scale : X) (shape : X) (e : Err X) :
     Gen.Gev.new loc scale shape = .error e →
     (¬ Spec.C10.IsFin loc → (e = Err.mk "LocNotFinite" [loc])) ∧
     (Spec.C10.IsFin loc → ¬ Spec.C10.IsPos scale → (e = Err.mk "ScaleTooLow" [scale] ∨ e = Err.mk "ScaleNotFinite" [scale])) ∧
     (Spec.C10.IsFin loc → Spec.C10.IsPos scale → ¬ Spec.C10.IsFin shape → (e = Err.mk "ShapeNotFinite" [shape]))
-/

-- @site Gev.new
/-- first-offending-argument order holds only under the extra hypotheses; the code checks scale, shape and only then loc (first argument) -/
theorem Gev_new_err_first_partial (loc : X) (scale : X) (shape : X) (e : Err X) :
    Spec.C10.IsFin loc → Gen.Gev.new loc scale shape = .error e →
     (¬ Spec.C10.IsFin loc → (e = Err.mk "LocNotFinite" [loc])) ∧
     (Spec.C10.IsFin loc → ¬ Spec.C10.IsPos scale → (e = Err.mk "ScaleTooLow" [scale] ∨ e = Err.mk "ScaleNotFinite" [scale])) ∧
     (Spec.C10.IsFin loc → Spec.C10.IsPos scale → ¬ Spec.C10.IsFin shape → (e = Err.mk "ShapeNotFinite" [shape])) := by
  rcases loc with _|_|_|loc <;> (try simp) <;>
    rcases scale with _|_|_|scale <;> (try simp) <;>
    rcases shape with _|_|_|shape <;>
    (try simp) <;> c10_close

example : ∃ e, Gen.Gev.new (fin (-1)) (fin 2) (pinf) = .error e := by c10_eval []

-- @site Gev.new
/-- DEFECT (order clause only): an earlier argument is invalid but the error names a later one; the code checks scale, shape and only then loc (first argument) -/
theorem Gev_new_err_order_counterexample :
    ¬ Spec.C10.IsFin (nan : X) ∧
    Gen.Gev.new (nan) (fin (-1)) (fin 0) = .error (Err.mk "ScaleTooLow" [fin (-1)] : Err X) := by
  c10_eval []

-- @site Gev.set_loc
/-- `set_loc` succeeds iff the new value is in the documented domain of `loc` (finite) -/
theorem Gev_set_loc_ok_iff (d : Gen.Gev X) (v : X) :
    (∃ d', Gen.Gev.set_loc d v = .ok d') ↔ Spec.C10.IsFin v := by
  rcases v with _|_|_|v <;>
    simp <;> c10_close

example : ∃ d', Gen.Gev.set_loc ({ loc := fin (-1), scale := fin 2, shape := fin (-1) } : Gen.Gev X) (fin 5) = .ok d' := (Gev_set_loc_ok_iff ..).mpr (by c10_spec [])

-- @site Gev.set_loc
/-- on failure the error carries the offending value -/
theorem Gev_set_loc_err (d : Gen.Gev X) (v : X) (e : Err X) :
    Gen.Gev.set_loc d v = .error e → ¬ Spec.C10.IsFin v ∧ (e = Err.mk "LocNotFinite" [v]) := by
  rcases v with _|_|_|v <;>
    simp <;> c10_close

example : ∃ e, Gen.Gev.set_loc ({ loc := fin (-1), scale := fin 2, shape := fin (-1) } : Gen.Gev X) (nan) = .error e := by c10_eval []

-- @site Gev.set_loc
/-- on success only that field (and its cache) changes; same object as the unchecked setter -/
theorem Gev_set_loc_ok_fields (d d' : Gen.Gev X) (v : X) :
    Gen.Gev.set_loc d v = .ok d' → d' = { d with loc := v } ∧ d' = Gen.Gev.set_loc_unchecked d v := by
  simp only [Gen.Gev.emit_params, Gen.Gev.from_params, Gen.Gev.get_loc, Gen.Gev.get_scale, Gen.Gev.get_shape, Gen.Gev.new, Gen.Gev.new_unchecked, Gen.Gev.set_loc, Gen.Gev.set_loc_unchecked, Gen.Gev.set_scale, Gen.Gev.set_scale_unchecked, Gen.Gev.set_shape, Gen.Gev.set_shape_unchecked]
  split_ifs <;> simp <;> c10_close

example : Gen.Gev.set_loc ({ loc := fin (-1), scale := fin 2, shape := fin (-1) } : Gen.Gev X) (fin 5) = .ok ({ loc := fin 5, scale := fin 2, shape := fin (-1) } : Gen.Gev X) := by c10_eval []

-- @site Gev.set_loc
/-- failure atomicity (structural): either an error without a new state, or exactly the updated state -/
theorem Gev_set_loc_atomic (d : Gen.Gev X) (v : X) :
    (∃ e, Gen.Gev.set_loc d v = .error e) ∨ (∃ d', Gen.Gev.set_loc d v = .ok d' ∧ d' = { d with loc := v }) := by
  simp only [Gen.Gev.emit_params, Gen.Gev.from_params, Gen.Gev.get_loc, Gen.Gev.get_scale, Gen.Gev.get_shape, Gen.Gev.new, Gen.Gev.new_unchecked, Gen.Gev.set_loc, Gen.Gev.set_loc_unchecked, Gen.Gev.set_scale, Gen.Gev.set_scale_unchecked, Gen.Gev.set_shape, Gen.Gev.set_shape_unchecked]
  split_ifs <;> simp <;> c10_close

example : ∃ e, Gen.Gev.set_loc ({ loc := fin (-1), scale := fin 2, shape := fin (-1) } : Gen.Gev X) (nan) = .error e := by c10_eval []

-- @site Gev.set_loc
/-- a successful checked setter preserves the parameter invariant -/
theorem Gev_set_loc_inv (d d' : Gen.Gev X) (v : X) :
    Spec.Gev.Inv d → Gen.Gev.set_loc d v = .ok d' → Spec.Gev.Inv d' := by
  rcases d with ⟨f0, f1, f2⟩
  rcases v with _|_|_|v <;>
    simp <;> c10_close

example : Spec.Gev.Inv ({ loc := fin (-1), scale := fin 2, shape := fin (-1) } : Gen.Gev X) := by c10_spec [Spec.Gev.Inv, Spec.Gev.Valid]

-- @site Gev.set_scale
/-- `set_scale` succeeds iff the new value is in the documented domain of `scale` (finite, > 0) -/
theorem Gev_set_scale_ok_iff (d : Gen.Gev X) (v : X) :
    (∃ d', Gen.Gev.set_scale d v = .ok d') ↔ Spec.C10.IsPos v := by
  rcases v with _|_|_|v <;>
    simp <;> c10_close

example : ∃ d', Gen.Gev.set_scale ({ loc := fin (-1), scale := fin 2, shape := fin (-1) } : Gen.Gev X) (fin 7) = .ok d' := (Gev_set_scale_ok_iff ..).mpr (by c10_spec [])

-- @site Gev.set_scale
/-- on failure the error carries the offending value -/
theorem Gev_set_scale_err (d : Gen.Gev X) (v : X) (e : Err X) :
    Gen.Gev.set_scale d v = .error e → ¬ Spec.C10.IsPos v ∧ (e = Err.mk "ScaleTooLow" [v] ∨ e = Err.mk "ScaleNotFinite" [v]) := by
  rcases v with _|_|_|v <;>
    simp <;> c10_close

example : ∃ e, Gen.Gev.set_scale ({ loc := fin (-1), scale := fin 2, shape := fin (-1) } : Gen.Gev X) (fin 0) = .error e := by c10_eval []

-- @site Gev.set_scale
/-- on success only that field (and its cache) changes; same object as the unchecked setter -/
theorem Gev_set_scale_ok_fields (d d' : Gen.Gev X) (v : X) :
    Gen.Gev.set_scale d v = .ok d' → d' = { d with scale := v } ∧ d' = Gen.Gev.set_scale_unchecked d v := by
  simp only [Gen.Gev.emit_params, Gen.Gev.from_params, Gen.Gev.get_loc, Gen.Gev.get_scale, Gen.Gev.get_shape, Gen.Gev.new, Gen.Gev.new_unchecked, Gen.Gev.set_loc, Gen.Gev.set_loc_unchecked, Gen.Gev.set_scale, Gen.Gev.set_scale_unchecked, Gen.Gev.set_shape, Gen.Gev.set_shape_unchecked]
  split_ifs <;> simp <;> c10_close

example : Gen.Gev.set_scale ({ loc := fin (-1), scale := fin 2, shape := fin (-1) } : Gen.Gev X) (fin 7) = .ok ({ loc := fin (-1), scale := fin 7, shape := fin (-1) } : Gen.Gev X) := by c10_eval []

-- @site Gev.set_scale
/-- failure atomicity (structural): either an error without a new state, or exactly the updated state -/
theorem Gev_set_scale_atomic (d : Gen.Gev X) (v : X) :
    (∃ e, Gen.Gev.set_scale d v = .error e) ∨ (∃ d', Gen.Gev.set_scale d v = .ok d' ∧ d' = { d with scale := v }) := by
  simp only [Gen.Gev.emit_params, Gen.Gev.from_params, Gen.Gev.get_loc, Gen.Gev.get_scale, Gen.Gev.get_shape, Gen.Gev.new, Gen.Gev.new_unchecked, Gen.Gev.set_loc, Gen.Gev.set_loc_unchecked, Gen.Gev.set_scale, Gen.Gev.set_scale_unchecked, Gen.Gev.set_shape, Gen.Gev.set_shape_unchecked]
  split_ifs <;> simp <;> c10_close

example : ∃ e, Gen.Gev.set_scale ({ loc := fin (-1), scale := fin 2, shape := fin (-1) } : Gen.Gev X) (fin 0) = .error e := by c10_eval []

-- @site Gev.set_scale
/-- a successful checked setter preserves the parameter invariant -/
theorem Gev_set_scale_inv (d d' : Gen.Gev X) (v : X) :
    Spec.Gev.Inv d → Gen.Gev.set_scale d v = .ok d' → Spec.Gev.Inv d' := by
  rcases d with ⟨f0, f1, f2⟩
  rcases v with _|_|_|v <;>
    simp <;> c10_close

example : Spec.Gev.Inv ({ loc := fin (-1), scale := fin 2, shape := fin (-1) } : Gen.Gev X) := by c10_spec [Spec.Gev.Inv, Spec.Gev.Valid]

-- @site Gev.set_shape
/-- `set_shape` succeeds iff the new value is in the documented domain of `shape` (finite) -/
theorem Gev_set_shape_ok_iff (d : Gen.Gev X) (v : X) :
    (∃ d', Gen.Gev.set_shape d v = .ok d') ↔ Spec.C10.IsFin v := by
  rcases v with _|_|_|v <;>
    simp <;> c10_close

example : ∃ d', Gen.Gev.set_shape ({ loc := fin (-1), scale := fin 2, shape := fin (-1) } : Gen.Gev X) (fin 5) = .ok d' := (Gev_set_shape_ok_iff ..).mpr (by c10_spec [])

-- @site Gev.set_shape
/-- on failure the error carries the offending value -/
theorem Gev_set_shape_err (d : Gen.Gev X) (v : X) (e : Err X) :
    Gen.Gev.set_shape d v = .error e → ¬ Spec.C10.IsFin v ∧ (e = Err.mk "ShapeNotFinite" [v]) := by
  rcases v with _|_|_|v <;>
    simp <;> c10_close

example : ∃ e, Gen.Gev.set_shape ({ loc := fin (-1), scale := fin 2, shape := fin (-1) } : Gen.Gev X) (nan) = .error e := by c10_eval []

-- @site Gev.set_shape
/-- on success only that field (and its cache) changes; same object as the unchecked setter -/
theorem Gev_set_shape_ok_fields (d d' : Gen.Gev X) (v : X) :
    Gen.Gev.set_shape d v = .ok d' → d' = { d with shape := v } ∧ d' = Gen.Gev.set_shape_unchecked d v := by
  simp only [Gen.Gev.emit_params, Gen.Gev.from_params, Gen.Gev.get_loc, Gen.Gev.get_scale, Gen.Gev.get_shape, Gen.Gev.new, Gen.Gev.new_unchecked, Gen.Gev.set_loc, Gen.Gev.set_loc_unchecked, Gen.Gev.set_scale, Gen.Gev.set_scale_unchecked, Gen.Gev.set_shape, Gen.Gev.set_shape_unchecked]
  split_ifs <;> simp <;> c10_close

example : Gen.Gev.set_shape ({ loc := fin (-1), scale := fin 2, shape := fin (-1) } : Gen.Gev X) (fin 5) = .ok ({ loc := fin (-1), scale := fin 2, shape := fin 5 } : Gen.Gev X) := by c10_eval []

-- @site Gev.set_shape
/-- failure atomicity (structural): either an error without a new state, or exactly the updated state -/
theorem Gev_set_shape_atomic (d : Gen.Gev X) (v : X) :
    (∃ e, Gen.Gev.set_shape d v = .error e) ∨ (∃ d', Gen.Gev.set_shape d v = .ok d' ∧ d' = { d with shape := v }) := by
  simp only [Gen.Gev.emit_params, Gen.Gev.from_params, Gen.Gev.get_loc, Gen.Gev.get_scale, Gen.Gev.get_shape, Gen.Gev.new, Gen.Gev.new_unchecked, Gen.Gev.set_loc, Gen.Gev.set_loc_unchecked, Gen.Gev.set_scale, Gen.Gev.set_scale_unchecked, Gen.Gev.set_shape, Gen.Gev.set_shape_unchecked]
  split_ifs <;> simp <;> c10_close

example : ∃ e, Gen.Gev.set_shape ({ loc := fin (-1), scale := fin 2, shape := fin (-1) } : Gen.Gev X) (nan) = .error e := by c10_eval []

-- @site Gev.set_shape
/-- a successful checked setter preserves the parameter invariant -/
theorem Gev_set_shape_inv (d d' : Gen.Gev X) (v : X) :
    Spec.Gev.Inv d → Gen.Gev.set_shape d v = .ok d' → Spec.Gev.Inv d' := by
  rcases d with ⟨f0, f1, f2⟩
  rcases v with _|_|_|v <;>
    simp <;> c10_close

example : Spec.Gev.Inv ({ loc := fin (-1), scale := fin 2, shape := fin (-1) } : Gen.Gev X) := by c10_spec [Spec.Gev.Inv, Spec.Gev.Valid]

-- @site Gev.new
/-- a sequence of accepted setters ending in parameters θ yields the object `new θ` builds -/
theorem Gev_build_eq (d d1 d2 d3 : Gen.Gev X) (loc : X) (scale : X) (shape : X) :
    Gen.Gev.set_loc d loc = .ok d1 →
    Gen.Gev.set_scale d1 scale = .ok d2 →
    Gen.Gev.set_shape d2 shape = .ok d3 →
    Gen.Gev.new loc scale shape = .ok d3 := by
  rcases d with ⟨f0, f1, f2⟩
  simp only [Gen.Gev.emit_params, Gen.Gev.from_params, Gen.Gev.get_loc, Gen.Gev.get_scale, Gen.Gev.get_shape, Gen.Gev.new, Gen.Gev.new_unchecked, Gen.Gev.set_loc, Gen.Gev.set_loc_unchecked, Gen.Gev.set_scale, Gen.Gev.set_scale_unchecked, Gen.Gev.set_shape, Gen.Gev.set_shape_unchecked]
  split_ifs <;> simp <;> c10_close

example : ∃ d', Gen.Gev.set_loc ({ loc := fin (-1), scale := fin 2, shape := fin (-1) } : Gen.Gev X) (fin 5) = .ok d' := by c10_eval []

-- @site Gev.from_params
/-- parameter round trip -/
theorem Gev_from_emit (d : Gen.Gev X) :
    Gen.Gev.from_params (Gen.Gev.emit_params d) = d := by
  rfl

example : Gen.Gev.from_params (Gen.Gev.emit_params ({ loc := fin (-1), scale := fin 2, shape := fin (-1) } : Gen.Gev X)) = ({ loc := fin (-1), scale := fin 2, shape := fin (-1) } : Gen.Gev X) := by c10_eval []

-- @site Gev.from_params
/-- `from_params (emit_params ·)` is the identity on every object built by the checked constructor -/
theorem Gev_new_eq_from_params (loc : X) (scale : X) (shape : X) (d : Gen.Gev X) :
    Gen.Gev.new loc scale shape = .ok d → Gen.Gev.from_params (Gen.Gev.emit_params d) = d := by
  simp only [Gen.Gev.emit_params, Gen.Gev.from_params, Gen.Gev.get_loc, Gen.Gev.get_scale, Gen.Gev.get_shape, Gen.Gev.new, Gen.Gev.new_unchecked, Gen.Gev.set_loc, Gen.Gev.set_loc_unchecked, Gen.Gev.set_scale, Gen.Gev.set_scale_unchecked, Gen.Gev.set_shape, Gen.Gev.set_shape_unchecked]
  split_ifs <;> simp <;> c10_close

example : Gen.Gev.new (fin (-1)) (fin 2) (fin (-1)) = .ok ({ loc := fin (-1), scale := fin 2, shape := fin (-1) } : Gen.Gev X) := by c10_eval []

end Gev

/-! ## InvChiSquared  (`src/dist/inv_chi_squared.rs`) -/
section InvChiSquared
attribute [local simp] Gen.InvChiSquared.emit_params Gen.InvChiSquared.from_params Gen.InvChiSquared.get_v Gen.InvChiSquared.new Gen.InvChiSquared.new_unchecked Gen.InvChiSquared.set_v Gen.InvChiSquared.set_v_unchecked Spec.InvChiSquared.Valid Spec.InvChiSquared.Inv

-- @site InvChiSquared.new
/-- `InvChiSquared::new` succeeds iff every parameter is in the documented domain — for ALL values incl. NaN, ±inf -/
theorem InvChiSquared_new_ok_iff (v : X) :
    (∃ d, Gen.InvChiSquared.new v = .ok d) ↔ Spec.InvChiSquared.Valid v := by
  rcases v with _|_|_|v <;>
    (try simp) <;> c10_close

example : ∃ d, Gen.InvChiSquared.new (fin 2) = .ok d := (InvChiSquared_new_ok_iff ..).mpr (by c10_spec [Spec.InvChiSquared.Valid])

example : ¬ ∃ d, Gen.InvChiSquared.new (fin 0) = .ok d := by rw [InvChiSquared_new_ok_iff]; c10_spec [Spec.InvChiSquared.Valid]

-- @site InvChiSquared.new
/-- on success the object carries exactly the given parameters -/
theorem InvChiSquared_new_ok_fields (v : X) (d : Gen.InvChiSquared X) :
    Gen.InvChiSquared.new v = .ok d → d = ({ v := v } : Gen.InvChiSquared X) := by
  simp only [Gen.InvChiSquared.emit_params, Gen.InvChiSquared.from_params, Gen.InvChiSquared.get_v, Gen.InvChiSquared.new, Gen.InvChiSquared.new_unchecked, Gen.InvChiSquared.set_v, Gen.InvChiSquared.set_v_unchecked]
  split_ifs <;> simp <;> c10_close

example : Gen.InvChiSquared.new (fin 2) = .ok ({ v := fin 2 } : Gen.InvChiSquared X) := by c10_eval []

-- @site InvChiSquared.new
/-- checked and unchecked constructors build the same object -/
theorem InvChiSquared_new_eq_unchecked (v : X) (d : Gen.InvChiSquared X) :
    Gen.InvChiSquared.new v = .ok d → d = Gen.InvChiSquared.new_unchecked v := by
  simp only [Gen.InvChiSquared.emit_params, Gen.InvChiSquared.from_params, Gen.InvChiSquared.get_v, Gen.InvChiSquared.new, Gen.InvChiSquared.new_unchecked, Gen.InvChiSquared.set_v, Gen.InvChiSquared.set_v_unchecked]
  split_ifs <;> simp <;> c10_close

example : Gen.InvChiSquared.new (fin 2) = .ok (Gen.InvChiSquared.new_unchecked (fin 2)) := by c10_eval []

-- @site InvChiSquared.new
/-- an object obtained from the checked constructor satisfies the parameter invariant -/
theorem InvChiSquared_new_inv (v : X) (d : Gen.InvChiSquared X) :
    Gen.InvChiSquared.new v = .ok d → Spec.InvChiSquared.Inv d := by
  intro h
  rw [InvChiSquared_new_ok_fields v d h]
  exact (InvChiSquared_new_ok_iff v).mp ⟨d, h⟩

example : Spec.InvChiSquared.Inv ({ v := fin 2 } : Gen.InvChiSquared X) := InvChiSquared_new_inv (fin 2) _ (by c10_eval [])

-- @site InvChiSquared.new
/-- on failure the error names an argument that IS outside its documented domain and carries its value -/
theorem InvChiSquared_new_err_offending (v : X) (e : Err X) :
    Gen.InvChiSquared.new v = .error e →
     (¬ Spec.C10.IsPos v ∧ (e = Err.mk "VTooLow" [v] ∨ e = Err.mk "VNotFinite" [v])) := by
  rcases v with _|_|_|v <;>
    (try simp) <;> c10_close

example : ∃ e, Gen.InvChiSquared.new (fin 0) = .error e := by c10_eval []

-- @site InvChiSquared.new
/-- on failure the error names the FIRST offending argument in documented (argument) order -/
theorem InvChiSquared_new_err_first (v : X) (e : Err X) :
    Gen.InvChiSquared.new v = .error e →
     (¬ Spec.C10.IsPos v → (e = Err.mk "VTooLow" [v] ∨ e = Err.mk "VNotFinite" [v])) := by
  rcases v with _|_|_|v <;>
    (try simp) <;> c10_close

example : ∃ e, Gen.InvChiSquared.new (fin 0) = .error e := by c10_eval []

-- @site InvChiSquared.set_v
/-- `set_v` succeeds iff the new value is in the documented domain of `v` (finite, > 0) -/
theorem InvChiSquared_set_v_ok_iff (d : Gen.InvChiSquared X) (v : X) :
    (∃ d', Gen.InvChiSquared.set_v d v = .ok d') ↔ Spec.C10.IsPos v := by
  rcases v with _|_|_|v <;>
    simp <;> c10_close

example : ∃ d', Gen.InvChiSquared.set_v ({ v := fin 2 } : Gen.InvChiSquared X) (fin 7) = .ok d' := (InvChiSquared_set_v_ok_iff ..).mpr (by c10_spec [])

-- @site InvChiSquared.set_v
/-- on failure the error carries the offending value -/
theorem InvChiSquared_set_v_err (d : Gen.InvChiSquared X) (v : X) (e : Err X) :
    Gen.InvChiSquared.set_v d v = .error e → ¬ Spec.C10.IsPos v ∧ (e = Err.mk "VTooLow" [v] ∨ e = Err.mk "VNotFinite" [v]) := by
  rcases v with _|_|_|v <;>
    simp <;> c10_close

example : ∃ e, Gen.InvChiSquared.set_v ({ v := fin 2 } : Gen.InvChiSquared X) (fin 0) = .error e := by c10_eval []

-- @site InvChiSquared.set_v
/-- on success only that field (and its cache) changes; same object as the unchecked setter -/
theorem InvChiSquared_set_v_ok_fields (d d' : Gen.InvChiSquared X) (v : X) :
    Gen.InvChiSquared.set_v d v = .ok d' → d' = { d with v := v } ∧ d' = Gen.InvChiSquared.set_v_unchecked d v := by
  simp only [Gen.InvChiSquared.emit_params, Gen.InvChiSquared.from_params, Gen.InvChiSquared.get_v, Gen.InvChiSquared.new, Gen.InvChiSquared.new_unchecked, Gen.InvChiSquared.set_v, Gen.InvChiSquared.set_v_unchecked]
  split_ifs <;> simp <;> c10_close

example : Gen.InvChiSquared.set_v ({ v := fin 2 } : Gen.InvChiSquared X) (fin 7) = .ok ({ v := fin 7 } : Gen.InvChiSquared X) := by c10_eval []

-- @site InvChiSquared.set_v
/-- failure atomicity (structural): either an error without a new state, or exactly the updated state -/
theorem InvChiSquared_set_v_atomic (d : Gen.InvChiSquared X) (v : X) :
    (∃ e, Gen.InvChiSquared.set_v d v = .error e) ∨ (∃ d', Gen.InvChiSquared.set_v d v = .ok d' ∧ d' = { d with v := v }) := by
  simp only [Gen.InvChiSquared.emit_params, Gen.InvChiSquared.from_params, Gen.InvChiSquared.get_v, Gen.InvChiSquared.new, Gen.InvChiSquared.new_unchecked, Gen.InvChiSquared.set_v, Gen.InvChiSquared.set_v_unchecked]
  split_ifs <;> simp <;> c10_close

example : ∃ e, Gen.InvChiSquared.set_v ({ v := fin 2 } : Gen.InvChiSquared X) (fin 0) = .error e := by c10_eval []

-- @site InvChiSquared.set_v
/-- a successful checked setter preserves the parameter invariant -/
theorem InvChiSquared_set_v_inv (d d' : Gen.InvChiSquared X) (v : X) :
    Spec.InvChiSquared.Inv d → Gen.InvChiSquared.set_v d v = .ok d' → Spec.InvChiSquared.Inv d' := by
  rcases d with ⟨f0⟩
  rcases v with _|_|_|v <;>
    simp <;> c10_close

example : Spec.InvChiSquared.Inv ({ v := fin 2 } : Gen.InvChiSquared X) := by c10_spec [Spec.InvChiSquared.Inv, Spec.InvChiSquared.Valid]

-- @site InvChiSquared.new
/-- a sequence of accepted setters ending in parameters θ yields the object `new θ` builds -/
theorem InvChiSquared_build_eq (d d1 : Gen.InvChiSquared X) (v : X) :
    Gen.InvChiSquared.set_v d v = .ok d1 →
    Gen.InvChiSquared.new v = .ok d1 := by
  rcases d with ⟨f0⟩
  rcases v with _|_|_|v <;>
    (try simp) <;> c10_close

example : ∃ d', Gen.InvChiSquared.set_v ({ v := fin 2 } : Gen.InvChiSquared X) (fin 7) = .ok d' := by c10_eval []

-- @site InvChiSquared.from_params
/-- parameter round trip -/
theorem InvChiSquared_from_emit (d : Gen.InvChiSquared X) :
    Gen.InvChiSquared.from_params (Gen.InvChiSquared.emit_params d) = d := by
  rfl

example : Gen.InvChiSquared.from_params (Gen.InvChiSquared.emit_params ({ v := fin 2 } : Gen.InvChiSquared X)) = ({ v := fin 2 } : Gen.InvChiSquared X) := by c10_eval []

-- @site InvChiSquared.from_params
/-- `from_params (emit_params ·)` is the identity on every object built by the checked constructor -/
theorem InvChiSquared_new_eq_from_params (v : X) (d : Gen.InvChiSquared X) :
    Gen.InvChiSquared.new v = .ok d → Gen.InvChiSquared.from_params (Gen.InvChiSquared.emit_params d) = d := by
  simp only [Gen.InvChiSquared.emit_params, Gen.InvChiSquared.from_params, Gen.InvChiSquared.get_v, Gen.InvChiSquared.new, Gen.InvChiSquared.new_unchecked, Gen.InvChiSquared.set_v, Gen.InvChiSquared.set_v_unchecked]
  split_ifs <;> simp <;> c10_close

example : Gen.InvChiSquared.new (fin 2) = .ok ({ v := fin 2 } : Gen.InvChiSquared X) := by c10_eval []

end InvChiSquared

/-! ## InvGamma  (`src/dist/invgamma.rs`) -/
section InvGamma
attribute [local simp] Gen.InvGamma.emit_params Gen.InvGamma.from_params Gen.InvGamma.get_scale Gen.InvGamma.get_shape Gen.InvGamma.new Gen.InvGamma.new_unchecked Gen.InvGamma.set_scale Gen.InvGamma.set_scale_unchecked Gen.InvGamma.set_shape Gen.InvGamma.set_shape_unchecked Spec.InvGamma.Valid Spec.InvGamma.Inv

-- @site InvGamma.new
/-- `InvGamma::new` succeeds iff every parameter is in the documented domain — for ALL values incl. NaN, ±inf -/
theorem InvGamma_new_ok_iff (shape : X) (scale : X) :
    (∃ d, Gen.InvGamma.new shape scale = .ok d) ↔ Spec.InvGamma.Valid shape scale := by
  rcases shape with _|_|_|shape <;> (try simp) <;>
    rcases scale with _|_|_|scale <;>
    (try simp) <;> c10_close

example : ∃ d, Gen.InvGamma.new (fin 2) (fin 2) = .ok d := (InvGamma_new_ok_iff ..).mpr (by c10_spec [Spec.InvGamma.Valid])

example : ¬ ∃ d, Gen.InvGamma.new (fin 0) (fin 2) = .ok d := by rw [InvGamma_new_ok_iff]; c10_spec [Spec.InvGamma.Valid]

-- @site InvGamma.new
/-- on success the object carries exactly the given parameters -/
theorem InvGamma_new_ok_fields (shape : X) (scale : X) (d : Gen.InvGamma X) :
    Gen.InvGamma.new shape scale = .ok d → d = ({ shape := shape, scale := scale } : Gen.InvGamma X) := by
  simp only [Gen.InvGamma.emit_params, Gen.InvGamma.from_params, Gen.InvGamma.get_scale, Gen.InvGamma.get_shape, Gen.InvGamma.new, Gen.InvGamma.new_unchecked, Gen.InvGamma.set_scale, Gen.InvGamma.set_scale_unchecked, Gen.InvGamma.set_shape, Gen.InvGamma.set_shape_unchecked]
  split_ifs <;> simp <;> c10_close

example : Gen.InvGamma.new (fin 2) (fin 2) = .ok ({ shape := fin 2, scale := fin 2 } : Gen.InvGamma X) := by c10_eval []

-- @site InvGamma.new
/-- checked and unchecked constructors build the same object -/
theorem InvGamma_new_eq_unchecked (shape : X) (scale : X) (d : Gen.InvGamma X) :
    Gen.InvGamma.new shape scale = .ok d → d = Gen.InvGamma.new_unchecked shape scale := by
  simp only [Gen.InvGamma.emit_params, Gen.InvGamma.from_params, Gen.InvGamma.get_scale, Gen.InvGamma.get_shape, Gen.InvGamma.new, Gen.InvGamma.new_unchecked, Gen.InvGamma.set_scale, Gen.InvGamma.set_scale_unchecked, Gen.InvGamma.set_shape, Gen.InvGamma.set_shape_unchecked]
  split_ifs <;> simp <;> c10_close

example : Gen.InvGamma.new (fin 2) (fin 2) = .ok (Gen.InvGamma.new_unchecked (fin 2) (fin 2)) := by c10_eval []

-- @site InvGamma.new
/-- an object obtained from the checked constructor satisfies the parameter invariant -/
theorem InvGamma_new_inv (shape : X) (scale : X) (d : Gen.InvGamma X) :
    Gen.InvGamma.new shape scale = .ok d → Spec.InvGamma.Inv d := by
  intro h
  rw [InvGamma_new_ok_fields shape scale d h]
  exact (InvGamma_new_ok_iff shape scale).mp ⟨d, h⟩

example : Spec.InvGamma.Inv ({ shape := fin 2, scale := fin 2 } : Gen.InvGamma X) := InvGamma_new_inv (fin 2) (fin 2) _ (by c10_eval [])

-- @site InvGamma.new
/-- on failure the error names an argument that IS outside its documented domain and carries its value -/
theorem InvGamma_new_err_offending (shape : X) (scale : X) (e : Err X) :
    Gen.InvGamma.new shape scale = .error e →
     (¬ Spec.C10.IsPos shape ∧ (e = Err.mk "ShapeTooLow" [shape] ∨ e = Err.mk "ShapeNotFinite" [shape])) ∨
     (¬ Spec.C10.IsPos scale ∧ (e = Err.mk "ScaleTooLow" [scale] ∨ e = Err.mk "ScaleNotFinite" [scale])) := by
  rcases shape with _|_|_|shape <;> (try simp) <;>
    rcases scale with _|_|_|scale <;>
    (try simp) <;> c10_close

example : ∃ e, Gen.InvGamma.new (fin 0) (fin 2) = .error e := by c10_eval []

/- FULL STATEMENT (false, see the counterexample below — the code tests `shape <= 0`, `scale <= 0` and only then the finiteness of shape):
   theorem InvGamma_new_err_first (shape : X) (scale : X) (e : Err X) :
     Gen.InvGamma.new shape scale = .error e →
     (¬ Spec.C10.IsPos shape → (e = Err.mk "ShapeTooLow" [shape] ∨ e = Err.mk "ShapeNotFinite" [shape])) ∧
     (Spec.C10.IsPos shape → ¬ Spec.C10.IsPos scale → (e = Err.mk "ScaleTooLow" [scale] ∨ e = Err.mk "ScaleNotFinite" [scale]))
-/

-- @site InvGamma.new
/-- first-offending-argument order holds only under the extra hypotheses; the code tests `shape <= 0`, `scale <= 0` and only then the finiteness of shape -/
theorem InvGamma_new_err_first_partial (shape : X) (scale : X) (e : Err X) :
    shape ≠ nan → shape ≠ pinf → Gen.InvGamma.new shape scale = .error e →
     (¬ Spec.C10.IsPos shape → (e = Err.mk "ShapeTooLow" [shape] ∨ e = Err.mk "ShapeNotFinite" [shape])) ∧
     (Spec.C10.IsPos shape → ¬ Spec.C10.IsPos scale → (e = Err.mk "ScaleTooLow" [scale] ∨ e = Err.mk "ScaleNotFinite" [scale])) := by
  rcases shape with _|_|_|shape <;> (try simp) <;>
    rcases scale with _|_|_|scale <;>
    (try simp) <;> c10_close

example : ∃ e, Gen.InvGamma.new (fin 2) (fin 0) = .error e := by c10_eval []

-- @site InvGamma.new
/-- DEFECT (order clause only): an earlier argument is invalid but the error names a later one; the code tests `shape <= 0`, `scale <= 0` and only then the finiteness of shape -/
theorem InvGamma_new_err_order_counterexample :
    ¬ Spec.C10.IsPos (nan : X) ∧
    Gen.InvGamma.new (nan) (fin (-1)) = .error (Err.mk "ScaleTooLow" [fin (-1)] : Err X) := by
  c10_eval []

-- @site InvGamma.set_shape
/-- `set_shape` succeeds iff the new value is in the documented domain of `shape` (finite, > 0) -/
theorem InvGamma_set_shape_ok_iff (d : Gen.InvGamma X) (v : X) :
    (∃ d', Gen.InvGamma.set_shape d v = .ok d') ↔ Spec.C10.IsPos v := by
  rcases v with _|_|_|v <;>
    simp <;> c10_close

example : ∃ d', Gen.InvGamma.set_shape ({ shape := fin 2, scale := fin 2 } : Gen.InvGamma X) (fin 7) = .ok d' := (InvGamma_set_shape_ok_iff ..).mpr (by c10_spec [])

-- @site InvGamma.set_shape
/-- on failure the error carries the offending value -/
theorem InvGamma_set_shape_err (d : Gen.InvGamma X) (v : X) (e : Err X) :
    Gen.InvGamma.set_shape d v = .error e → ¬ Spec.C10.IsPos v ∧ (e = Err.mk "ShapeTooLow" [v] ∨ e = Err.mk "ShapeNotFinite" [v]) := by
  rcases v with _|_|_|v <;>
    simp <;> c10_close

example : ∃ e, Gen.InvGamma.set_shape ({ shape := fin 2, scale := fin 2 } : Gen.InvGamma X) (fin 0) = .error e := by c10_eval []

-- @site InvGamma.set_shape
/-- on success only that field (and its cache) changes; same object as the unchecked setter -/
theorem InvGamma_set_shape_ok_fields (d d' : Gen.InvGamma X) (v : X) :
    Gen.InvGamma.set_shape d v = .ok d' → d' = { d with shape := v } ∧ d' = Gen.InvGamma.set_shape_unchecked d v := by
  simp only [Gen.InvGamma.emit_params, Gen.InvGamma.from_params, Gen.InvGamma.get_scale, Gen.InvGamma.get_shape, Gen.InvGamma.new, Gen.InvGamma.new_unchecked, Gen.InvGamma.set_scale, Gen.InvGamma.set_scale_unchecked, Gen.InvGamma.set_shape, Gen.InvGamma.set_shape_unchecked]
  split_ifs <;> simp <;> c10_close

example : Gen.InvGamma.set_shape ({ shape := fin 2, scale := fin 2 } : Gen.InvGamma X) (fin 7) = .ok ({ shape := fin 7, scale := fin 2 } : Gen.InvGamma X) := by c10_eval []

-- @site InvGamma.set_shape
/-- failure atomicity (structural): either an error without a new state, or exactly the updated state -/
theorem InvGamma_set_shape_atomic (d : Gen.InvGamma X) (v : X) :
    (∃ e, Gen.InvGamma.set_shape d v = .error e) ∨ (∃ d', Gen.InvGamma.set_shape d v = .ok d' ∧ d' = { d with shape := v }) := by
  simp only [Gen.InvGamma.emit_params, Gen.InvGamma.from_params, Gen.InvGamma.get_scale, Gen.InvGamma.get_shape, Gen.InvGamma.new, Gen.InvGamma.new_unchecked, Gen.InvGamma.set_scale, Gen.InvGamma.set_scale_unchecked, Gen.InvGamma.set_shape, Gen.InvGamma.set_shape_unchecked]
  split_ifs <;> simp <;> c10_close

example : ∃ e, Gen.InvGamma.set_shape ({ shape := fin 2, scale := fin 2 } : Gen.InvGamma X) (fin 0) = .error e := by c10_eval []

-- @site InvGamma.set_shape
/-- a successful checked setter preserves the parameter invariant -/
theorem InvGamma_set_shape_inv (d d' : Gen.InvGamma X) (v : X) :
    Spec.InvGamma.Inv d → Gen.InvGamma.set_shape d v = .ok d' → Spec.InvGamma.Inv d' := by
  rcases d with ⟨f0, f1⟩
  rcases v with _|_|_|v <;>
    simp <;> c10_close

example : Spec.InvGamma.Inv ({ shape := fin 2, scale := fin 2 } : Gen.InvGamma X) := by c10_spec [Spec.InvGamma.Inv, Spec.InvGamma.Valid]

-- @site InvGamma.set_scale
/-- `set_scale` succeeds iff the new value is in the documented domain of `scale` (finite, > 0) -/
theorem InvGamma_set_scale_ok_iff (d : Gen.InvGamma X) (v : X) :
    (∃ d', Gen.InvGamma.set_scale d v = .ok d') ↔ Spec.C10.IsPos v := by
  rcases v with _|_|_|v <;>
    simp <;> c10_close

example : ∃ d', Gen.InvGamma.set_scale ({ shape := fin 2, scale := fin 2 } : Gen.InvGamma X) (fin 7) = .ok d' := (InvGamma_set_scale_ok_iff ..).mpr (by c10_spec [])

-- @site InvGamma.set_scale
/-- on failure the error carries the offending value -/
theorem InvGamma_set_scale_err (d : Gen.InvGamma X) (v : X) (e : Err X) :
    Gen.InvGamma.set_scale d v = .error e → ¬ Spec.C10.IsPos v ∧ (e = Err.mk "ScaleTooLow" [v] ∨ e = Err.mk "ScaleNotFinite" [v]) := by
  rcases v with _|_|_|v <;>
    simp <;> c10_close

example : ∃ e, Gen.InvGamma.set_scale ({ shape := fin 2, scale := fin 2 } : Gen.InvGamma X) (fin 0) = .error e := by c10_eval []

-- @site InvGamma.set_scale
/-- on success only that field (and its cache) changes; same object as the unchecked setter -/
theorem InvGamma_set_scale_ok_fields (d d' : Gen.InvGamma X) (v : X) :
    Gen.InvGamma.set_scale d v = .ok d' → d' = { d with scale := v } ∧ d' = Gen.InvGamma.set_scale_unchecked d v := by
  simp only [Gen.InvGamma.emit_params, Gen.InvGamma.from_params, Gen.InvGamma.get_scale, Gen.InvGamma.get_shape, Gen.InvGamma.new, Gen.InvGamma.new_unchecked, Gen.InvGamma.set_scale, Gen.InvGamma.set_scale_unchecked, Gen.InvGamma.set_shape, Gen.InvGamma.set_shape_unchecked]
  split_ifs <;> simp <;> c10_close

example : Gen.InvGamma.set_scale ({ shape := fin 2, scale := fin 2 } : Gen.InvGamma X) (fin 7) = .ok ({ shape := fin 2, scale := fin 7 } : Gen.InvGamma X) := by c10_eval []

-- @site InvGamma.set_scale
/-- failure atomicity (structural): either an error without a new state, or exactly the updated state -/
theorem InvGamma_set_scale_atomic (d : Gen.InvGamma X) (v : X) :
    (∃ e, Gen.InvGamma.set_scale d v = .error e) ∨ (∃ d', Gen.InvGamma.set_scale d v = .ok d' ∧ d' = { d with scale := v }) := by
  simp only [Gen.InvGamma.emit_params, Gen.InvGamma.from_params, Gen.InvGamma.get_scale, Gen.InvGamma.get_shape, Gen.InvGamma.new, Gen.InvGamma.new_unchecked, Gen.InvGamma.set_scale, Gen.InvGamma.set_scale_unchecked, Gen.InvGamma.set_shape, Gen.InvGamma.set_shape_unchecked]
  split_ifs <;> simp <;> c10_close

example : ∃ e, Gen.InvGamma.set_scale ({ shape := fin 2, scale := fin 2 } : Gen.InvGamma X) (fin 0) = .error e := by c10_eval []

-- @site InvGamma.set_scale
/-- a successful checked setter preserves the parameter invariant -/
theorem InvGamma_set_scale_inv (d d' : Gen.InvGamma X) (v : X) :
    Spec.InvGamma.Inv d → Gen.InvGamma.set_scale d v = .ok d' → Spec.InvGamma.Inv d' := by
  rcases d with ⟨f0, f1⟩
  rcases v with _|_|_|v <;>
    simp <;> c10_close

example : Spec.InvGamma.Inv ({ shape := fin 2, scale := fin 2 } : Gen.InvGamma X) := by c10_spec [Spec.InvGamma.Inv, Spec.InvGamma.Valid]

-- @site InvGamma.new
/-- a sequence of accepted setters ending in parameters θ yields the object `new θ` builds -/
theorem InvGamma_build_eq (d d1 d2 : Gen.InvGamma X) (shape : X) (scale : X) :
    Gen.InvGamma.set_shape d shape = .ok d1 →
    Gen.InvGamma.set_scale d1 scale = .ok d2 →
    Gen.InvGamma.new shape scale = .ok d2 := by
  rcases d with ⟨f0, f1⟩
  rcases shape with _|_|_|shape <;> (try simp) <;>
    rcases scale with _|_|_|scale <;>
    (try simp) <;> c10_close

example : ∃ d', Gen.InvGamma.set_shape ({ shape := fin 2, scale := fin 2 } : Gen.InvGamma X) (fin 7) = .ok d' := by c10_eval []

-- @site InvGamma.from_params
/-- parameter round trip -/
theorem InvGamma_from_emit (d : Gen.InvGamma X) :
    Gen.InvGamma.from_params (Gen.InvGamma.emit_params d) = d := by
  rfl

example : Gen.InvGamma.from_params (Gen.InvGamma.emit_params ({ shape := fin 2, scale := fin 2 } : Gen.InvGamma X)) = ({ shape := fin 2, scale := fin 2 } : Gen.InvGamma X) := by c10_eval []

-- @site InvGamma.from_params
/-- `from_params (emit_params ·)` is the identity on every object built by the checked constructor -/
theorem InvGamma_new_eq_from_params (shape : X) (scale : X) (d : Gen.InvGamma X) :
    Gen.InvGamma.new shape scale = .ok d → Gen.InvGamma.from_params (Gen.InvGamma.emit_params d) = d := by
  simp only [Gen.InvGamma.emit_params, Gen.InvGamma.from_params, Gen.InvGamma.get_scale, Gen.InvGamma.get_shape, Gen.InvGamma.new, Gen.InvGamma.new_unchecked, Gen.InvGamma.set_scale, Gen.InvGamma.set_scale_unchecked, Gen.InvGamma.set_shape, Gen.InvGamma.set_shape_unchecked]
  split_ifs <;> simp <;> c10_close

example : Gen.InvGamma.new (fin 2) (fin 2) = .ok ({ shape := fin 2, scale := fin 2 } : Gen.InvGamma X) := by c10_eval []

end InvGamma

/-! ## InvGaussian  (`src/dist/invgaussian.rs`) -/
section InvGaussian
attribute [local simp] Gen.InvGaussian.emit_params Gen.InvGaussian.from_params Gen.InvGaussian.get_lambda Gen.InvGaussian.get_mu Gen.InvGaussian.new Gen.InvGaussian.new_unchecked Gen.InvGaussian.set_lambda Gen.InvGaussian.set_lambda_unchecked Gen.InvGaussian.set_mu Gen.InvGaussian.set_mu_unchecked Spec.InvGaussian.Valid Spec.InvGaussian.Inv

-- @site InvGaussian.new
/-- `InvGaussian::new` succeeds iff every parameter is in the documented domain — for ALL values incl. NaN, ±inf -/
theorem InvGaussian_new_ok_iff (mu : X) (lambda' : X) :
    (∃ d, Gen.InvGaussian.new mu lambda' = .ok d) ↔ Spec.InvGaussian.Valid mu lambda' := by
  rcases mu with _|_|_|mu <;> (try simp) <;>
    rcases lambda' with _|_|_|lambda' <;>
    (try simp) <;> c10_close

example : ∃ d, Gen.InvGaussian.new (fin 2) (fin 2) = .ok d := (InvGaussian_new_ok_iff ..).mpr (by c10_spec [Spec.InvGaussian.Valid])

example : ¬ ∃ d, Gen.InvGaussian.new (fin 0) (fin 2) = .ok d := by rw [InvGaussian_new_ok_iff]; c10_spec [Spec.InvGaussian.Valid]

-- @site InvGaussian.new
/-- on success the object carries exactly the given parameters -/
theorem InvGaussian_new_ok_fields (mu : X) (lambda' : X) (d : Gen.InvGaussian X) :
    Gen.InvGaussian.new mu lambda' = .ok d → d = ({ mu := mu, lambda' := lambda' } : Gen.InvGaussian X) := by
  simp only [Gen.InvGaussian.emit_params, Gen.InvGaussian.from_params, Gen.InvGaussian.get_lambda, Gen.InvGaussian.get_mu, Gen.InvGaussian.new, Gen.InvGaussian.new_unchecked, Gen.InvGaussian.set_lambda, Gen.InvGaussian.set_lambda_unchecked, Gen.InvGaussian.set_mu, Gen.InvGaussian.set_mu_unchecked]
  split_ifs <;> simp <;> c10_close

example : Gen.InvGaussian.new (fin 2) (fin 2) = .ok ({ mu := fin 2, lambda' := fin 2 } : Gen.InvGaussian X) := by c10_eval []

-- @site InvGaussian.new
/-- checked and unchecked constructors build the same object -/
theorem InvGaussian_new_eq_unchecked (mu : X) (lambda' : X) (d : Gen.InvGaussian X) :
    Gen.InvGaussian.new mu lambda' = .ok d → d = Gen.InvGaussian.new_unchecked mu lambda' := by
  simp only [Gen.InvGaussian.emit_params, Gen.InvGaussian.from_params, Gen.InvGaussian.get_lambda, Gen.InvGaussian.get_mu, Gen.InvGaussian.new, Gen.InvGaussian.new_unchecked, Gen.InvGaussian.set_lambda, Gen.InvGaussian.set_lambda_unchecked, Gen.InvGaussian.set_mu, Gen.InvGaussian.set_mu_unchecked]
  split_ifs <;> simp <;> c10_close

example : Gen.InvGaussian.new (fin 2) (fin 2) = .ok (Gen.InvGaussian.new_unchecked (fin 2) (fin 2)) := by c10_eval []

-- @site InvGaussian.new
/-- an object obtained from the checked constructor satisfies the parameter invariant -/
theorem InvGaussian_new_inv (mu : X) (lambda' : X) (d : Gen.InvGaussian X) :
    Gen.InvGaussian.new mu lambda' = .ok d → Spec.InvGaussian.Inv d := by
  intro h
  rw [InvGaussian_new_ok_fields mu lambda' d h]
  exact (InvGaussian_new_ok_iff mu lambda').mp ⟨d, h⟩

example : Spec.InvGaussian.Inv ({ mu := fin 2, lambda' := fin 2 } : Gen.InvGaussian X) := InvGaussian_new_inv (fin 2) (fin 2) _ (by c10_eval [])

-- @site InvGaussian.new
/-- on failure the error names an argument that IS outside its documented domain and carries its value -/
theorem InvGaussian_new_err_offending (mu : X) (lambda' : X) (e : Err X) :
    Gen.InvGaussian.new mu lambda' = .error e →
     (¬ Spec.C10.IsPos mu ∧ (e = Err.mk "MuNotFinite" [mu] ∨ e = Err.mk "MuTooLow" [mu])) ∨
     (¬ Spec.C10.IsPos lambda' ∧ (e = Err.mk "LambdaTooLow" [lambda'] ∨ e = Err.mk "LambdaNotFinite" [lambda'])) := by
  rcases mu with _|_|_|mu <;> (try simp) <;>
    rcases lambda' with _|_|_|lambda' <;>
    (try simp) <;> c10_close

example : ∃ e, Gen.InvGaussian.new (fin 0) (fin 2) = .error e := by c10_eval []

-- @site InvGaussian.new
/-- on failure the error names the FIRST offending argument in documented (argument) order -/
theorem InvGaussian_new_err_first (mu : X) (lambda' : X) (e : Err X) :
    Gen.InvGaussian.new mu lambda' = .error e →
     (¬ Spec.C10.IsPos mu → (e = Err.mk "MuNotFinite" [mu] ∨ e = Err.mk "MuTooLow" [mu])) ∧
     (Spec.C10.IsPos mu → ¬ Spec.C10.IsPos lambda' → (e = Err.mk "LambdaTooLow" [lambda'] ∨ e = Err.mk "LambdaNotFinite" [lambda'])) := by
  rcases mu with _|_|_|mu <;> (try simp) <;>
    rcases lambda' with _|_|_|lambda' <;>
    (try simp) <;> c10_close

example : ∃ e, Gen.InvGaussian.new (fin 0) (fin 2) = .error e := by c10_eval []

-- @site InvGaussian.set_mu
/-- `set_mu` succeeds iff the new value is in the documented domain of `mu` (finite, > 0) -/
theorem InvGaussian_set_mu_ok_iff (d : Gen.InvGaussian X) (v : X) :
    (∃ d', Gen.InvGaussian.set_mu d v = .ok d') ↔ Spec.C10.IsPos v := by
  rcases v with _|_|_|v <;>
    simp <;> c10_close

example : ∃ d', Gen.InvGaussian.set_mu ({ mu := fin 2, lambda' := fin 2 } : Gen.InvGaussian X) (fin 7) = .ok d' := (InvGaussian_set_mu_ok_iff ..).mpr (by c10_spec [])

-- @site InvGaussian.set_mu
/-- on failure the error carries the offending value -/
theorem InvGaussian_set_mu_err (d : Gen.InvGaussian X) (v : X) (e : Err X) :
    Gen.InvGaussian.set_mu d v = .error e → ¬ Spec.C10.IsPos v ∧ (e = Err.mk "MuNotFinite" [v] ∨ e = Err.mk "MuTooLow" [v]) := by
  rcases v with _|_|_|v <;>
    simp <;> c10_close

example : ∃ e, Gen.InvGaussian.set_mu ({ mu := fin 2, lambda' := fin 2 } : Gen.InvGaussian X) (fin 0) = .error e := by c10_eval []

-- @site InvGaussian.set_mu
/-- on success only that field (and its cache) changes; same object as the unchecked setter -/
theorem InvGaussian_set_mu_ok_fields (d d' : Gen.InvGaussian X) (v : X) :
    Gen.InvGaussian.set_mu d v = .ok d' → d' = { d with mu := v } ∧ d' = Gen.InvGaussian.set_mu_unchecked d v := by
  simp only [Gen.InvGaussian.emit_params, Gen.InvGaussian.from_params, Gen.InvGaussian.get_lambda, Gen.InvGaussian.get_mu, Gen.InvGaussian.new, Gen.InvGaussian.new_unchecked, Gen.InvGaussian.set_lambda, Gen.InvGaussian.set_lambda_unchecked, Gen.InvGaussian.set_mu, Gen.InvGaussian.set_mu_unchecked]
  split_ifs <;> simp <;> c10_close

example : Gen.InvGaussian.set_mu ({ mu := fin 2, lambda' := fin 2 } : Gen.InvGaussian X) (fin 7) = .ok ({ mu := fin 7, lambda' := fin 2 } : Gen.InvGaussian X) := by c10_eval []

-- @site InvGaussian.set_mu
/-- failure atomicity (structural): either an error without a new state, or exactly the updated state -/
theorem InvGaussian_set_mu_atomic (d : Gen.InvGaussian X) (v : X) :
    (∃ e, Gen.InvGaussian.set_mu d v = .error e) ∨ (∃ d', Gen.InvGaussian.set_mu d v = .ok d' ∧ d' = { d with mu := v }) := by
  simp only [Gen.InvGaussian.emit_params, Gen.InvGaussian.from_params, Gen.InvGaussian.get_lambda, Gen.InvGaussian.get_mu, Gen.InvGaussian.new, Gen.InvGaussian.new_unchecked, Gen.InvGaussian.set_lambda, Gen.InvGaussian.set_lambda_unchecked, Gen.InvGaussian.set_mu, Gen.InvGaussian.set_mu_unchecked]
  split_ifs <;> simp <;> c10_close

example : ∃ e, Gen.InvGaussian.set_mu ({ mu := fin 2, lambda' := fin 2 } : Gen.InvGaussian X) (fin 0) = .error e := by c10_eval []

-- @site InvGaussian.set_mu
/-- a successful checked setter preserves the parameter invariant -/
theorem InvGaussian_set_mu_inv (d d' : Gen.InvGaussian X) (v : X) :
    Spec.InvGaussian.Inv d → Gen.InvGaussian.set_mu d v = .ok d' → Spec.InvGaussian.Inv d' := by
  rcases d with ⟨f0, f1⟩
  rcases v with _|_|_|v <;>
    simp <;> c10_close

example : Spec.InvGaussian.Inv ({ mu := fin 2, lambda' := fin 2 } : Gen.InvGaussian X) := by c10_spec [Spec.InvGaussian.Inv, Spec.InvGaussian.Valid]

-- @site InvGaussian.set_lambda
/-- `set_lambda` succeeds iff the new value is in the documented domain of `lambda'` (finite, > 0) -/
theorem InvGaussian_set_lambda_ok_iff (d : Gen.InvGaussian X) (v : X) :
    (∃ d', Gen.InvGaussian.set_lambda d v = .ok d') ↔ Spec.C10.IsPos v := by
  rcases v with _|_|_|v <;>
    simp <;> c10_close

example : ∃ d', Gen.InvGaussian.set_lambda ({ mu := fin 2, lambda' := fin 2 } : Gen.InvGaussian X) (fin 7) = .ok d' := (InvGaussian_set_lambda_ok_iff ..).mpr (by c10_spec [])

-- @site InvGaussian.set_lambda
/-- on failure the error carries the offending value -/
theorem InvGaussian_set_lambda_err (d : Gen.InvGaussian X) (v : X) (e : Err X) :
    Gen.InvGaussian.set_lambda d v = .error e → ¬ Spec.C10.IsPos v ∧ (e = Err.mk "LambdaTooLow" [v] ∨ e = Err.mk "LambdaNotFinite" [v]) := by
  rcases v with _|_|_|v <;>
    simp <;> c10_close

example : ∃ e, Gen.InvGaussian.set_lambda ({ mu := fin 2, lambda' := fin 2 } : Gen.InvGaussian X) (fin 0) = .error e := by c10_eval []

-- @site InvGaussian.set_lambda
/-- on success only that field (and its cache) changes; same object as the unchecked setter -/
theorem InvGaussian_set_lambda_ok_fields (d d' : Gen.InvGaussian X) (v : X) :
    Gen.InvGaussian.set_lambda d v = .ok d' → d' = { d with lambda' := v } ∧ d' = Gen.InvGaussian.set_lambda_unchecked d v := by
  simp only [Gen.InvGaussian.emit_params, Gen.InvGaussian.from_params, Gen.InvGaussian.get_lambda, Gen.InvGaussian.get_mu, Gen.InvGaussian.new, Gen.InvGaussian.new_unchecked, Gen.InvGaussian.set_lambda, Gen.InvGaussian.set_lambda_unchecked, Gen.InvGaussian.set_mu, Gen.InvGaussian.set_mu_unchecked]
  split_ifs <;> simp <;> c10_close

example : Gen.InvGaussian.set_lambda ({ mu := fin 2, lambda' := fin 2 } : Gen.InvGaussian X) (fin 7) = .ok ({ mu := fin 2, lambda' := fin 7 } : Gen.InvGaussian X) := by c10_eval []

-- @site InvGaussian.set_lambda
/-- failure atomicity (structural): either an error without a new state, or exactly the updated state -/
theorem InvGaussian_set_lambda_atomic (d : Gen.InvGaussian X) (v : X) :
    (∃ e, Gen.InvGaussian.set_lambda d v = .error e) ∨ (∃ d', Gen.InvGaussian.set_lambda d v = .ok d' ∧ d' = { d with lambda' := v }) := by
  simp only [Gen.InvGaussian.emit_params, Gen.InvGaussian.from_params, Gen.InvGaussian.get_lambda, Gen.InvGaussian.get_mu, Gen.InvGaussian.new, Gen.InvGaussian.new_unchecked, Gen.InvGaussian.set_lambda, Gen.InvGaussian.set_lambda_unchecked, Gen.InvGaussian.set_mu, Gen.InvGaussian.set_mu_unchecked]
  split_ifs <;> simp <;> c10_close

example : ∃ e, Gen.InvGaussian.set_lambda ({ mu := fin 2, lambda' := fin 2 } : Gen.InvGaussian X) (fin 0) = .error e := by c10_eval []

-- @site InvGaussian.set_lambda
/-- a successful checked setter preserves the parameter invariant -/
theorem InvGaussian_set_lambda_inv (d d' : Gen.InvGaussian X) (v : X) :
    Spec.InvGaussian.Inv d → Gen.InvGaussian.set_lambda d v = .ok d' → Spec.InvGaussian.Inv d' := by
  rcases d with ⟨f0, f1⟩
  rcases v with _|_|_|v <;>
    simp <;> c10_close

example : Spec.InvGaussian.Inv ({ mu := fin 2, lambda' := fin 2 } : Gen.InvGaussian X) := by c10_spec [Spec.InvGaussian.Inv, Spec.InvGaussian.Valid]

-- @site InvGaussian.new
/-- a sequence of accepted setters ending in parameters θ yields the object `new θ` builds -/
theorem InvGaussian_build_eq (d d1 d2 : Gen.InvGaussian X) (mu : X) (lambda' : X) :
    Gen.InvGaussian.set_mu d mu = .ok d1 →
    Gen.InvGaussian.set_lambda d1 lambda' = .ok d2 →
    Gen.InvGaussian.new mu lambda' = .ok d2 := by
  rcases d with ⟨f0, f1⟩
  rcases mu with _|_|_|mu <;> (try simp) <;>
    rcases lambda' with _|_|_|lambda' <;>
    (try simp) <;> c10_close

example : ∃ d', Gen.InvGaussian.set_mu ({ mu := fin 2, lambda' := fin 2 } : Gen.InvGaussian X) (fin 7) = .ok d' := by c10_eval []

-- @site InvGaussian.from_params
/-- parameter round trip -/
theorem InvGaussian_from_emit (d : Gen.InvGaussian X) :
    Gen.InvGaussian.from_params (Gen.InvGaussian.emit_params d) = d := by
  rfl

example : Gen.InvGaussian.from_params (Gen.InvGaussian.emit_params ({ mu := fin 2, lambda' := fin 2 } : Gen.InvGaussian X)) = ({ mu := fin 2, lambda' := fin 2 } : Gen.InvGaussian X) := by c10_eval []

-- @site InvGaussian.from_params
/-- `from_params (emit_params ·)` is the identity on every object built by the checked constructor -/
theorem InvGaussian_new_eq_from_params (mu : X) (lambda' : X) (d : Gen.InvGaussian X) :
    Gen.InvGaussian.new mu lambda' = .ok d → Gen.InvGaussian.from_params (Gen.InvGaussian.emit_params d) = d := by
  simp only [Gen.InvGaussian.emit_params, Gen.InvGaussian.from_params, Gen.InvGaussian.get_lambda, Gen.InvGaussian.get_mu, Gen.InvGaussian.new, Gen.InvGaussian.new_unchecked, Gen.InvGaussian.set_lambda, Gen.InvGaussian.set_lambda_unchecked, Gen.InvGaussian.set_mu, Gen.InvGaussian.set_mu_unchecked]
  split_ifs <;> simp <;> c10_close

example : Gen.InvGaussian.new (fin 2) (fin 2) = .ok ({ mu := fin 2, lambda' := fin 2 } : Gen.InvGaussian X) := by c10_eval []

end InvGaussian

/-! ## Kumaraswamy  (`src/dist/kumaraswamy.rs`) -/
section Kumaraswamy
attribute [local simp] Gen.Kumaraswamy.emit_params Gen.Kumaraswamy.from_params Gen.Kumaraswamy.get_a Gen.Kumaraswamy.get_b Gen.Kumaraswamy.new Gen.Kumaraswamy.new_unchecked Gen.Kumaraswamy.set_a Gen.Kumaraswamy.set_a_unchecked Gen.Kumaraswamy.set_b Gen.Kumaraswamy.set_b_unchecked Spec.Kumaraswamy.Valid Spec.Kumaraswamy.Inv

-- @site Kumaraswamy.new
/-- `Kumaraswamy::new` succeeds iff every parameter is in the documented domain — for ALL values incl. NaN, ±inf -/
theorem Kumaraswamy_new_ok_iff (a : X) (b : X) :
    (∃ d, Gen.Kumaraswamy.new a b = .ok d) ↔ Spec.Kumaraswamy.Valid a b := by
  rcases a with _|_|_|a <;> (try simp) <;>
    rcases b with _|_|_|b <;>
    (try simp) <;> c10_close

example : ∃ d, Gen.Kumaraswamy.new (fin 2) (fin 2) = .ok d := (Kumaraswamy_new_ok_iff ..).mpr (by c10_spec [Spec.Kumaraswamy.Valid])

example : ¬ ∃ d, Gen.Kumaraswamy.new (fin 0) (fin 2) = .ok d := by rw [Kumaraswamy_new_ok_iff]; c10_spec [Spec.Kumaraswamy.Valid]

-- @site Kumaraswamy.new
/-- on success the object carries exactly the given parameters -/
theorem Kumaraswamy_new_ok_fields (a : X) (b : X) (d : Gen.Kumaraswamy X) :
    Gen.Kumaraswamy.new a b = .ok d → d = ({ a := a, b := b } : Gen.Kumaraswamy X) := by
  simp only [Gen.Kumaraswamy.emit_params, Gen.Kumaraswamy.from_params, Gen.Kumaraswamy.get_a, Gen.Kumaraswamy.get_b, Gen.Kumaraswamy.new, Gen.Kumaraswamy.new_unchecked, Gen.Kumaraswamy.set_a, Gen.Kumaraswamy.set_a_unchecked, Gen.Kumaraswamy.set_b, Gen.Kumaraswamy.set_b_unchecked]
  split_ifs <;> simp <;> c10_close

example : Gen.Kumaraswamy.new (fin 2) (fin 2) = .ok ({ a := fin 2, b := fin 2 } : Gen.Kumaraswamy X) := by c10_eval []

-- @site Kumaraswamy.new
/-- checked and unchecked constructors build the same object -/
theorem Kumaraswamy_new_eq_unchecked (a : X) (b : X) (d : Gen.Kumaraswamy X) :
    Gen.Kumaraswamy.new a b = .ok d → d = Gen.Kumaraswamy.new_unchecked a b := by
  simp only [Gen.Kumaraswamy.emit_params, Gen.Kumaraswamy.from_params, Gen.Kumaraswamy.get_a, Gen.Kumaraswamy.get_b, Gen.Kumaraswamy.new, Gen.Kumaraswamy.new_unchecked, Gen.Kumaraswamy.set_a, Gen.Kumaraswamy.set_a_unchecked, Gen.Kumaraswamy.set_b, Gen.Kumaraswamy.set_b_unchecked]
  split_ifs <;> simp <;> c10_close

example : Gen.Kumaraswamy.new (fin 2) (fin 2) = .ok (Gen.Kumaraswamy.new_unchecked (fin 2) (fin 2)) := by c10_eval []

-- @site Kumaraswamy.new
/-- an object obtained from the checked constructor satisfies the parameter invariant -/
theorem Kumaraswamy_new_inv (a : X) (b : X) (d : Gen.Kumaraswamy X) :
    Gen.Kumaraswamy.new a b = .ok d → Spec.Kumaraswamy.Inv d := by
  intro h
  rw [Kumaraswamy_new_ok_fields a b d h]
  exact (Kumaraswamy_new_ok_iff a b).mp ⟨d, h⟩

example : Spec.Kumaraswamy.Inv ({ a := fin 2, b := fin 2 } : Gen.Kumaraswamy X) := Kumaraswamy_new_inv (fin 2) (fin 2) _ (by c10_eval [])

-- @site Kumaraswamy.new
/-- on failure the error names an argument that IS outside its documented domain and carries its value -/
theorem Kumaraswamy_new_err_offending (a : X) (b : X) (e : Err X) :
    Gen.Kumaraswamy.new a b = .error e →
     (¬ Spec.C10.IsPos a ∧ (e = Err.mk "ATooLow" [a] ∨ e = Err.mk "ANotFinite" [a])) ∨
     (¬ Spec.C10.IsPos b ∧ (e = Err.mk "BTooLow" [b] ∨ e = Err.mk "BNotFinite" [b])) := by
  rcases a with _|_|_|a <;> (try simp) <;>
    rcases b with _|_|_|b <;>
    (try simp) <;> c10_close

example : ∃ e, Gen.Kumaraswamy.new (fin 0) (fin 2) = .error e := by c10_eval []

-- @site Kumaraswamy.new
/-- on failure the error names the FIRST offending argument in documented (argument) order -/
theorem Kumaraswamy_new_err_first (a : X) (b : X) (e : Err X) :
    Gen.Kumaraswamy.new a b = .error e →
     (¬ Spec.C10.IsPos a → (e = Err.mk "ATooLow" [a] ∨ e = Err.mk "ANotFinite" [a])) ∧
     (Spec.C10.IsPos a → ¬ Spec.C10.IsPos b → (e = Err.mk "BTooLow" [b] ∨ e = Err.mk "BNotFinite" [b])) := by
  rcases a with _|_|_|a <;> (try simp) <;>
    rcases b with _|_|_|b <;>
    (try simp) <;> c10_close

example : ∃ e, Gen.Kumaraswamy.new (fin 0) (fin 2) = .error e := by c10_eval []

-- @site Kumaraswamy.set_a
/-- `set_a` succeeds iff the new value is in the documented domain of `a` (finite, > 0) -/
theorem Kumaraswamy_set_a_ok_iff (d : Gen.Kumaraswamy X) (v : X) :
    (∃ d', Gen.Kumaraswamy.set_a d v = .ok d') ↔ Spec.C10.IsPos v := by
  rcases v with _|_|_|v <;>
    simp <;> c10_close

example : ∃ d', Gen.Kumaraswamy.set_a ({ a := fin 2, b := fin 2 } : Gen.Kumaraswamy X) (fin 7) = .ok d' := (Kumaraswamy_set_a_ok_iff ..).mpr (by c10_spec [])

-- @site Kumaraswamy.set_a
/-- on failure the error carries the offending value -/
theorem Kumaraswamy_set_a_err (d : Gen.Kumaraswamy X) (v : X) (e : Err X) :
    Gen.Kumaraswamy.set_a d v = .error e → ¬ Spec.C10.IsPos v ∧ (e = Err.mk "ATooLow" [v] ∨ e = Err.mk "ANotFinite" [v]) := by
  rcases v with _|_|_|v <;>
    simp <;> c10_close

example : ∃ e, Gen.Kumaraswamy.set_a ({ a := fin 2, b := fin 2 } : Gen.Kumaraswamy X) (fin 0) = .error e := by c10_eval []

-- @site Kumaraswamy.set_a
/-- on success only that field (and its cache) changes; same object as the unchecked setter -/
theorem Kumaraswamy_set_a_ok_fields (d d' : Gen.Kumaraswamy X) (v : X) :
    Gen.Kumaraswamy.set_a d v = .ok d' → d' = { d with a := v } ∧ d' = Gen.Kumaraswamy.set_a_unchecked d v := by
  simp only [Gen.Kumaraswamy.emit_params, Gen.Kumaraswamy.from_params, Gen.Kumaraswamy.get_a, Gen.Kumaraswamy.get_b, Gen.Kumaraswamy.new, Gen.Kumaraswamy.new_unchecked, Gen.Kumaraswamy.set_a, Gen.Kumaraswamy.set_a_unchecked, Gen.Kumaraswamy.set_b, Gen.Kumaraswamy.set_b_unchecked]
  split_ifs <;> simp <;> c10_close

example : Gen.Kumaraswamy.set_a ({ a := fin 2, b := fin 2 } : Gen.Kumaraswamy X) (fin 7) = .ok ({ a := fin 7, b := fin 2 } : Gen.Kumaraswamy X) := by c10_eval []

-- @site Kumaraswamy.set_a
/-- failure atomicity (structural): either an error without a new state, or exactly the updated state -/
theorem Kumaraswamy_set_a_atomic (d : Gen.Kumaraswamy X) (v : X) :
    (∃ e, Gen.Kumaraswamy.set_a d v = .error e) ∨ (∃ d', Gen.Kumaraswamy.set_a d v = .ok d' ∧ d' = { d with a := v }) := by
  simp only [Gen.Kumaraswamy.emit_params, Gen.Kumaraswamy.from_params, Gen.Kumaraswamy.get_a, Gen.Kumaraswamy.get_b, Gen.Kumaraswamy.new, Gen.Kumaraswamy.new_unchecked, Gen.Kumaraswamy.set_a, Gen.Kumaraswamy.set_a_unchecked, Gen.Kumaraswamy.set_b, Gen.Kumaraswamy.set_b_unchecked]
  split_ifs <;> simp <;> c10_close

example : ∃ e, Gen.Kumaraswamy.set_a ({ a := fin 2, b := fin 2 } : Gen.Kumaraswamy X) (fin 0) = .error e := by c10_eval []

-- @site Kumaraswamy.set_a
/-- a successful checked setter preserves the parameter invariant -/
theorem Kumaraswamy_set_a_inv (d d' : Gen.Kumaraswamy X) (v : X) :
    Spec.Kumaraswamy.Inv d → Gen.Kumaraswamy.set_a d v = .ok d' → Spec.Kumaraswamy.Inv d' := by
  rcases d with ⟨f0, f1⟩
  rcases v with _|_|_|v <;>
    simp <;> c10_close

example : Spec.Kumaraswamy.Inv ({ a := fin 2, b := fin 2 } : Gen.Kumaraswamy X) := by c10_spec [Spec.Kumaraswamy.Inv, Spec.Kumaraswamy.Valid]

-- @site Kumaraswamy.set_b
/-- `set_b` succeeds iff the new value is in the documented domain of `b` (finite, > 0) -/
theorem Kumaraswamy_set_b_ok_iff (d : Gen.Kumaraswamy X) (v : X) :
    (∃ d', Gen.Kumaraswamy.set_b d v = .ok d') ↔ Spec.C10.IsPos v := by
  rcases v with _|_|_|v <;>
    simp <;> c10_close

example : ∃ d', Gen.Kumaraswamy.set_b ({ a := fin 2, b := fin 2 } : Gen.Kumaraswamy X) (fin 7) = .ok d' := (Kumaraswamy_set_b_ok_iff ..).mpr (by c10_spec [])

-- @site Kumaraswamy.set_b
/-- on failure the error carries the offending value -/
theorem Kumaraswamy_set_b_err (d : Gen.Kumaraswamy X) (v : X) (e : Err X) :
    Gen.Kumaraswamy.set_b d v = .error e → ¬ Spec.C10.IsPos v ∧ (e = Err.mk "BTooLow" [v] ∨ e = Err.mk "BNotFinite" [v]) := by
  rcases v with _|_|_|v <;>
    simp <;> c10_close

example : ∃ e, Gen.Kumaraswamy.set_b ({ a := fin 2, b := fin 2 } : Gen.Kumaraswamy X) (fin 0) = .error e := by c10_eval []

-- @site Kumaraswamy.set_b
/-- on success only that field (and its cache) changes; same object as the unchecked setter -/
theorem Kumaraswamy_set_b_ok_fields (d d' : Gen.Kumaraswamy X) (v : X) :
    Gen.Kumaraswamy.set_b d v = .ok d' → d' = { d with b := v } ∧ d' = Gen.Kumaraswamy.set_b_unchecked d v := by
  simp only [Gen.Kumaraswamy.emit_params, Gen.Kumaraswamy.from_params, Gen.Kumaraswamy.get_a, Gen.Kumaraswamy.get_b, Gen.Kumaraswamy.new, Gen.Kumaraswamy.new_unchecked, Gen.Kumaraswamy.set_a, Gen.Kumaraswamy.set_a_unchecked, Gen.Kumaraswamy.set_b, Gen.Kumaraswamy.set_b_unchecked]
  split_ifs <;> simp <;> c10_close

example : Gen.Kumaraswamy.set_b ({ a := fin 2, b := fin 2 } : Gen.Kumaraswamy X) (fin 7) = .ok ({ a := fin 2, b := fin 7 } : Gen.Kumaraswamy X) := by c10_eval []

-- @site Kumaraswamy.set_b
/-- failure atomicity (structural): either an error without a new state, or exactly the updated state -/
theorem Kumaraswamy_set_b_atomic (d : Gen.Kumaraswamy X) (v : X) :
    (∃ e, Gen.Kumaraswamy.set_b d v = .error e) ∨ (∃ d', Gen.Kumaraswamy.set_b d v = .ok d' ∧ d' = { d with b := v }) := by
  simp only [Gen.Kumaraswamy.emit_params, Gen.Kumaraswamy.from_params, Gen.Kumaraswamy.get_a, Gen.Kumaraswamy.get_b, Gen.Kumaraswamy.new, Gen.Kumaraswamy.new_unchecked, Gen.Kumaraswamy.set_a, Gen.Kumaraswamy.set_a_unchecked, Gen.Kumaraswamy.set_b, Gen.Kumaraswamy.set_b_unchecked]
  split_ifs <;> simp <;> c10_close

example : ∃ e, Gen.Kumaraswamy.set_b ({ a := fin 2, b := fin 2 } : Gen.Kumaraswamy X) (fin 0) = .error e := by c10_eval []

-- @site Kumaraswamy.set_b
/-- a successful checked setter preserves the parameter invariant -/
theorem Kumaraswamy_set_b_inv (d d' : Gen.Kumaraswamy X) (v : X) :
    Spec.Kumaraswamy.Inv d → Gen.Kumaraswamy.set_b d v = .ok d' → Spec.Kumaraswamy.Inv d' := by
  rcases d with ⟨f0, f1⟩
  rcases v with _|_|_|v <;>
    simp <;> c10_close

example : Spec.Kumaraswamy.Inv ({ a := fin 2, b := fin 2 } : Gen.Kumaraswamy X) := by c10_spec [Spec.Kumaraswamy.Inv, Spec.Kumaraswamy.Valid]

-- @site Kumaraswamy.new
/-- a sequence of accepted setters ending in parameters θ yields the object `new θ` builds -/
theorem Kumaraswamy_build_eq (d d1 d2 : Gen.Kumaraswamy X) (a : X) (b : X) :
    Gen.Kumaraswamy.set_a d a = .ok d1 →
    Gen.Kumaraswamy.set_b d1 b = .ok d2 →
    Gen.Kumaraswamy.new a b = .ok d2 := by
  rcases d with ⟨f0, f1⟩
  rcases a with _|_|_|a <;> (try simp) <;>
    rcases b with _|_|_|b <;>
    (try simp) <;> c10_close

example : ∃ d', Gen.Kumaraswamy.set_a ({ a := fin 2, b := fin 2 } : Gen.Kumaraswamy X) (fin 7) = .ok d' := by c10_eval []

-- @site Kumaraswamy.from_params
/-- parameter round trip -/
theorem Kumaraswamy_from_emit (d : Gen.Kumaraswamy X) :
    Gen.Kumaraswamy.from_params (Gen.Kumaraswamy.emit_params d) = d := by
  rfl

example : Gen.Kumaraswamy.from_params (Gen.Kumaraswamy.emit_params ({ a := fin 2, b := fin 2 } : Gen.Kumaraswamy X)) = ({ a := fin 2, b := fin 2 } : Gen.Kumaraswamy X) := by c10_eval []

-- @site Kumaraswamy.from_params
/-- `from_params (emit_params ·)` is the identity on every object built by the checked constructor -/
theorem Kumaraswamy_new_eq_from_params (a : X) (b : X) (d : Gen.Kumaraswamy X) :
    Gen.Kumaraswamy.new a b = .ok d → Gen.Kumaraswamy.from_params (Gen.Kumaraswamy.emit_params d) = d := by
  simp only [Gen.Kumaraswamy.emit_params, Gen.Kumaraswamy.from_params, Gen.Kumaraswamy.get_a, Gen.Kumaraswamy.get_b, Gen.Kumaraswamy.new, Gen.Kumaraswamy.new_unchecked, Gen.Kumaraswamy.set_a, Gen.Kumaraswamy.set_a_unchecked, Gen.Kumaraswamy.set_b, Gen.Kumaraswamy.set_b_unchecked]
  split_ifs <;> simp <;> c10_close

example : Gen.Kumaraswamy.new (fin 2) (fin 2) = .ok ({ a := fin 2, b := fin 2 } : Gen.Kumaraswamy X) := by c10_eval []

end Kumaraswamy

/-! ## Laplace  (`src/dist/laplace.rs`) -/
section Laplace
attribute [local simp] Gen.Laplace.emit_params Gen.Laplace.from_params Gen.Laplace.get_b Gen.Laplace.get_mu Gen.Laplace.new Gen.Laplace.new_unchecked Gen.Laplace.set_b Gen.Laplace.set_b_unchecked Gen.Laplace.set_mu Gen.Laplace.set_mu_unchecked Spec.Laplace.Valid Spec.Laplace.Inv

-- @site Laplace.new
/-- `Laplace::new` succeeds iff every parameter is in the documented domain — for ALL values incl. NaN, ±inf -/
theorem Laplace_new_ok_iff (mu : X) (b : X) :
    (∃ d, Gen.Laplace.new mu b = .ok d) ↔ Spec.Laplace.Valid mu b := by
  rcases mu with _|_|_|mu <;> (try simp) <;>
    rcases b with _|_|_|b <;>
    (try simp) <;> c10_close

example : ∃ d, Gen.Laplace.new (fin (-1)) (fin 2) = .ok d := (Laplace_new_ok_iff ..).mpr (by c10_spec [Spec.Laplace.Valid])

example : ¬ ∃ d, Gen.Laplace.new (nan) (fin 2) = .ok d := by rw [Laplace_new_ok_iff]; c10_spec [Spec.Laplace.Valid]

-- @site Laplace.new
/-- on success the object carries exactly the given parameters -/
theorem Laplace_new_ok_fields (mu : X) (b : X) (d : Gen.Laplace X) :
    Gen.Laplace.new mu b = .ok d → d = ({ mu := mu, b := b } : Gen.Laplace X) := by
  simp only [Gen.Laplace.emit_params, Gen.Laplace.from_params, Gen.Laplace.get_b, Gen.Laplace.get_mu, Gen.Laplace.new, Gen.Laplace.new_unchecked, Gen.Laplace.set_b, Gen.Laplace.set_b_unchecked, Gen.Laplace.set_mu, Gen.Laplace.set_mu_unchecked]
  split_ifs <;> simp <;> c10_close

example : Gen.Laplace.new (fin (-1)) (fin 2) = .ok ({ mu := fin (-1), b := fin 2 } : Gen.Laplace X) := by c10_eval []

-- @site Laplace.new
/-- checked and unchecked constructors build the same object -/
theorem Laplace_new_eq_unchecked (mu : X) (b : X) (d : Gen.Laplace X) :
    Gen.Laplace.new mu b = .ok d → d = Gen.Laplace.new_unchecked mu b := by
  simp only [Gen.Laplace.emit_params, Gen.Laplace.from_params, Gen.Laplace.get_b, Gen.Laplace.get_mu, Gen.Laplace.new, Gen.Laplace.new_unchecked, Gen.Laplace.set_b, Gen.Laplace.set_b_unchecked, Gen.Laplace.set_mu, Gen.Laplace.set_mu_unchecked]
  split_ifs <;> simp <;> c10_close

example : Gen.Laplace.new (fin (-1)) (fin 2) = .ok (Gen.Laplace.new_unchecked (fin (-1)) (fin 2)) := by c10_eval []

-- @site Laplace.new
/-- an object obtained from the checked constructor satisfies the parameter invariant -/
theorem Laplace_new_inv (mu : X) (b : X) (d : Gen.Laplace X) :
    Gen.Laplace.new mu b = .ok d → Spec.Laplace.Inv d := by
  intro h
  rw [Laplace_new_ok_fields mu b d h]
  exact (Laplace_new_ok_iff mu b).mp ⟨d, h⟩

example : Spec.Laplace.Inv ({ mu := fin (-1), b := fin 2 } : Gen.Laplace X) := Laplace_new_inv (fin (-1)) (fin 2) _ (by c10_eval [])

-- @site Laplace.new
/-- on failure the error names an argument that IS outside its documented domain and carries its value -/
theorem Laplace_new_err_offending (mu : X) (b : X) (e : Err X) :
    Gen.Laplace.new mu b = .error e →
     (¬ Spec.C10.IsFin mu ∧ (e = Err.mk "MuNotFinite" [mu])) ∨
     (¬ Spec.C10.IsPos b ∧ (e = Err.mk "BTooLow" [b] ∨ e = Err.mk "BNotFinite" [b])) := by
  rcases mu with _|_|_|mu <;> (try simp) <;>
    rcases b with _|_|_|b <;>
    (try simp) <;> c10_close

example : ∃ e, Gen.Laplace.new (nan) (fin 2) = .error e := by c10_eval []

-- @site Laplace.new
/-- on failure the error names the FIRST offending argument in documented (argument) order -/
theorem Laplace_new_err_first (mu : X) (b : X) (e : Err X) :
    Gen.Laplace.new mu b = .error e →
     (¬ Spec.C10.IsFin mu → (e = Err.mk "MuNotFinite" [mu])) ∧
     (Spec.C10.IsFin mu → ¬ Spec.C10.IsPos b → (e = Err.mk "BTooLow" [b] ∨ e = Err.mk "BNotFinite" [b])) := by
  rcases mu with _|_|_|mu <;> (try simp) <;>
    rcases b with _|_|_|b <;>
    (try simp) <;> c10_close

example : ∃ e, Gen.Laplace.new (nan) (fin 2) = .error e := by c10_eval []

-- @site Laplace.set_mu
/-- `set_mu` succeeds iff the new value is in the documented domain of `mu` (finite) -/
theorem Laplace_set_mu_ok_iff (d : Gen.Laplace X) (v : X) :
    (∃ d', Gen.Laplace.set_mu d v = .ok d') ↔ Spec.C10.IsFin v := by
  rcases v with _|_|_|v <;>
    simp <;> c10_close

example : ∃ d', Gen.Laplace.set_mu ({ mu := fin (-1), b := fin 2 } : Gen.Laplace X) (fin 5) = .ok d' := (Laplace_set_mu_ok_iff ..).mpr (by c10_spec [])

-- @site Laplace.set_mu
/-- on failure the error carries the offending value -/
theorem Laplace_set_mu_err (d : Gen.Laplace X) (v : X) (e : Err X) :
    Gen.Laplace.set_mu d v = .error e → ¬ Spec.C10.IsFin v ∧ (e = Err.mk "MuNotFinite" [v]) := by
  rcases v with _|_|_|v <;>
    simp <;> c10_close

example : ∃ e, Gen.Laplace.set_mu ({ mu := fin (-1), b := fin 2 } : Gen.Laplace X) (nan) = .error e := by c10_eval []

-- @site Laplace.set_mu
/-- on success only that field (and its cache) changes; same object as the unchecked setter -/
theorem Laplace_set_mu_ok_fields (d d' : Gen.Laplace X) (v : X) :
    Gen.Laplace.set_mu d v = .ok d' → d' = { d with mu := v } ∧ d' = Gen.Laplace.set_mu_unchecked d v := by
  simp only [Gen.Laplace.emit_params, Gen.Laplace.from_params, Gen.Laplace.get_b, Gen.Laplace.get_mu, Gen.Laplace.new, Gen.Laplace.new_unchecked, Gen.Laplace.set_b, Gen.Laplace.set_b_unchecked, Gen.Laplace.set_mu, Gen.Laplace.set_mu_unchecked]
  split_ifs <;> simp <;> c10_close

example : Gen.Laplace.set_mu ({ mu := fin (-1), b := fin 2 } : Gen.Laplace X) (fin 5) = .ok ({ mu := fin 5, b := fin 2 } : Gen.Laplace X) := by c10_eval []

-- @site Laplace.set_mu
/-- failure atomicity (structural): either an error without a new state, or exactly the updated state -/
theorem Laplace_set_mu_atomic (d : Gen.Laplace X) (v : X) :
    (∃ e, Gen.Laplace.set_mu d v = .error e) ∨ (∃ d', Gen.Laplace.set_mu d v = .ok d' ∧ d' = { d with mu := v }) := by
  simp only [Gen.Laplace.emit_params, Gen.Laplace.from_params, Gen.Laplace.get_b, Gen.Laplace.get_mu, Gen.Laplace.new, Gen.Laplace.new_unchecked, Gen.Laplace.set_b, Gen.Laplace.set_b_unchecked, Gen.Laplace.set_mu, Gen.Laplace.set_mu_unchecked]
  split_ifs <;> simp <;> c10_close

example : ∃ e, Gen.Laplace.set_mu ({ mu := fin (-1), b := fin 2 } : Gen.Laplace X) (nan) = .error e := by c10_eval []

-- @site Laplace.set_mu
/-- a successful checked setter preserves the parameter invariant -/
theorem Laplace_set_mu_inv (d d' : Gen.Laplace X) (v : X) :
    Spec.Laplace.Inv d → Gen.Laplace.set_mu d v = .ok d' → Spec.Laplace.Inv d' := by
  rcases d with ⟨f0, f1⟩
  rcases v with _|_|_|v <;>
    simp <;> c10_close

example : Spec.Laplace.Inv ({ mu := fin (-1), b := fin 2 } : Gen.Laplace X) := by c10_spec [Spec.Laplace.Inv, Spec.Laplace.Valid]

-- @site Laplace.set_b
/-- `set_b` succeeds iff the new value is in the documented domain of `b` (finite, > 0) -/
theorem Laplace_set_b_ok_iff (d : Gen.Laplace X) (v : X) :
    (∃ d', Gen.Laplace.set_b d v = .ok d') ↔ Spec.C10.IsPos v := by
  rcases v with _|_|_|v <;>
    simp <;> c10_close

example : ∃ d', Gen.Laplace.set_b ({ mu := fin (-1), b := fin 2 } : Gen.Laplace X) (fin 7) = .ok d' := (Laplace_set_b_ok_iff ..).mpr (by c10_spec [])

-- @site Laplace.set_b
/-- on failure the error carries the offending value -/
theorem Laplace_set_b_err (d : Gen.Laplace X) (v : X) (e : Err X) :
    Gen.Laplace.set_b d v = .error e → ¬ Spec.C10.IsPos v ∧ (e = Err.mk "BTooLow" [v] ∨ e = Err.mk "BNotFinite" [v]) := by
  rcases v with _|_|_|v <;>
    simp <;> c10_close

example : ∃ e, Gen.Laplace.set_b ({ mu := fin (-1), b := fin 2 } : Gen.Laplace X) (fin 0) = .error e := by c10_eval []

-- @site Laplace.set_b
/-- on success only that field (and its cache) changes; same object as the unchecked setter -/
theorem Laplace_set_b_ok_fields (d d' : Gen.Laplace X) (v : X) :
    Gen.Laplace.set_b d v = .ok d' → d' = { d with b := v } ∧ d' = Gen.Laplace.set_b_unchecked d v := by
  simp only [Gen.Laplace.emit_params, Gen.Laplace.from_params, Gen.Laplace.get_b, Gen.Laplace.get_mu, Gen.Laplace.new, Gen.Laplace.new_unchecked, Gen.Laplace.set_b, Gen.Laplace.set_b_unchecked, Gen.Laplace.set_mu, Gen.Laplace.set_mu_unchecked]
  split_ifs <;> simp <;> c10_close

example : Gen.Laplace.set_b ({ mu := fin (-1), b := fin 2 } : Gen.Laplace X) (fin 7) = .ok ({ mu := fin (-1), b := fin 7 } : Gen.Laplace X) := by c10_eval []

-- @site Laplace.set_b
/-- failure atomicity (structural): either an error without a new state, or exactly the updated state -/
theorem Laplace_set_b_atomic (d : Gen.Laplace X) (v : X) :
    (∃ e, Gen.Laplace.set_b d v = .error e) ∨ (∃ d', Gen.Laplace.set_b d v = .ok d' ∧ d' = { d with b := v }) := by
  simp only [Gen.Laplace.emit_params, Gen.Laplace.from_params, Gen.Laplace.get_b, Gen.Laplace.get_mu, Gen.Laplace.new, Gen.Laplace.new_unchecked, Gen.Laplace.set_b, Gen.Laplace.set_b_unchecked, Gen.Laplace.set_mu, Gen.Laplace.set_mu_unchecked]
  split_ifs <;> simp <;> c10_close

example : ∃ e, Gen.Laplace.set_b ({ mu := fin (-1), b := fin 2 } : Gen.Laplace X) (fin 0) = .error e := by c10_eval []

-- @site Laplace.set_b
/-- a successful checked setter preserves the parameter invariant -/
theorem Laplace_set_b_inv (d d' : Gen.Laplace X) (v : X) :
    Spec.Laplace.Inv d → Gen.Laplace.set_b d v = .ok d' → Spec.Laplace.Inv d' := by
  rcases d with ⟨f0, f1⟩
  rcases v with _|_|_|v <;>
    simp <;> c10_close

example : Spec.Laplace.Inv ({ mu := fin (-1), b := fin 2 } : Gen.Laplace X) := by c10_spec [Spec.Laplace.Inv, Spec.Laplace.Valid]

-- @site Laplace.new
/-- a sequence of accepted setters ending in parameters θ yields the object `new θ` builds -/
theorem Laplace_build_eq (d d1 d2 : Gen.Laplace X) (mu : X) (b : X) :
    Gen.Laplace.set_mu d mu = .ok d1 →
    Gen.Laplace.set_b d1 b = .ok d2 →
    Gen.Laplace.new mu b = .ok d2 := by
  rcases d with ⟨f0, f1⟩
  rcases mu with _|_|_|mu <;> (try simp) <;>
    rcases b with _|_|_|b <;>
    (try simp) <;> c10_close

example : ∃ d', Gen.Laplace.set_mu ({ mu := fin (-1), b := fin 2 } : Gen.Laplace X) (fin 5) = .ok d' := by c10_eval []

-- @site Laplace.from_params
/-- parameter round trip -/
theorem Laplace_from_emit (d : Gen.Laplace X) :
    Gen.Laplace.from_params (Gen.Laplace.emit_params d) = d := by
  rfl

example : Gen.Laplace.from_params (Gen.Laplace.emit_params ({ mu := fin (-1), b := fin 2 } : Gen.Laplace X)) = ({ mu := fin (-1), b := fin 2 } : Gen.Laplace X) := by c10_eval []

-- @site Laplace.from_params
/-- `from_params (emit_params ·)` is the identity on every object built by the checked constructor -/
theorem Laplace_new_eq_from_params (mu : X) (b : X) (d : Gen.Laplace X) :
    Gen.Laplace.new mu b = .ok d → Gen.Laplace.from_params (Gen.Laplace.emit_params d) = d := by
  simp only [Gen.Laplace.emit_params, Gen.Laplace.from_params, Gen.Laplace.get_b, Gen.Laplace.get_mu, Gen.Laplace.new, Gen.Laplace.new_unchecked, Gen.Laplace.set_b, Gen.Laplace.set_b_unchecked, Gen.Laplace.set_mu, Gen.Laplace.set_mu_unchecked]
  split_ifs <;> simp <;> c10_close

example : Gen.Laplace.new (fin (-1)) (fin 2) = .ok ({ mu := fin (-1), b := fin 2 } : Gen.Laplace X) := by c10_eval []

end Laplace

/-! ## LogNormal  (`src/dist/lognormal.rs`) -/
section LogNormal
attribute [local simp] Gen.LogNormal.emit_params Gen.LogNormal.from_params Gen.LogNormal.get_mu Gen.LogNormal.get_sigma Gen.LogNormal.new Gen.LogNormal.new_unchecked Gen.LogNormal.set_mu Gen.LogNormal.set_mu_unchecked Gen.LogNormal.set_sigma Gen.LogNormal.set_sigma_unchecked Spec.LogNormal.Valid Spec.LogNormal.Inv

-- @site LogNormal.new
/-- `LogNormal::new` succeeds iff every parameter is in the documented domain — for ALL values incl. NaN, ±inf -/
theorem LogNormal_new_ok_iff (mu : X) (sigma : X) :
    (∃ d, Gen.LogNormal.new mu sigma = .ok d) ↔ Spec.LogNormal.Valid mu sigma := by
  rcases mu with _|_|_|mu <;> (try simp) <;>
    rcases sigma with _|_|_|sigma <;>
    (try simp) <;> c10_close

example : ∃ d, Gen.LogNormal.new (fin (-1)) (fin 2) = .ok d := (LogNormal_new_ok_iff ..).mpr (by c10_spec [Spec.LogNormal.Valid])

example : ¬ ∃ d, Gen.LogNormal.new (nan) (fin 2) = .ok d := by rw [LogNormal_new_ok_iff]; c10_spec [Spec.LogNormal.Valid]

-- @site LogNormal.new
/-- on success the object carries exactly the given parameters -/
theorem LogNormal_new_ok_fields (mu : X) (sigma : X) (d : Gen.LogNormal X) :
    Gen.LogNormal.new mu sigma = .ok d → d = ({ mu := mu, sigma := sigma } : Gen.LogNormal X) := by
  simp only [Gen.LogNormal.emit_params, Gen.LogNormal.from_params, Gen.LogNormal.get_mu, Gen.LogNormal.get_sigma, Gen.LogNormal.new, Gen.LogNormal.new_unchecked, Gen.LogNormal.set_mu, Gen.LogNormal.set_mu_unchecked, Gen.LogNormal.set_sigma, Gen.LogNormal.set_sigma_unchecked]
  split_ifs <;> simp <;> c10_close

example : Gen.LogNormal.new (fin (-1)) (fin 2) = .ok ({ mu := fin (-1), sigma := fin 2 } : Gen.LogNormal X) := by c10_eval []

-- @site LogNormal.new
/-- checked and unchecked constructors build the same object -/
theorem LogNormal_new_eq_unchecked (mu : X) (sigma : X) (d : Gen.LogNormal X) :
    Gen.LogNormal.new mu sigma = .ok d → d = Gen.LogNormal.new_unchecked mu sigma := by
  simp only [Gen.LogNormal.emit_params, Gen.LogNormal.from_params, Gen.LogNormal.get_mu, Gen.LogNormal.get_sigma, Gen.LogNormal.new, Gen.LogNormal.new_unchecked, Gen.LogNormal.set_mu, Gen.LogNormal.set_mu_unchecked, Gen.LogNormal.set_sigma, Gen.LogNormal.set_sigma_unchecked]
  split_ifs <;> simp <;> c10_close

example : Gen.LogNormal.new (fin (-1)) (fin 2) = .ok (Gen.LogNormal.new_unchecked (fin (-1)) (fin 2)) := by c10_eval []

-- @site LogNormal.new
/-- an object obtained from the checked constructor satisfies the parameter invariant -/
theorem LogNormal_new_inv (mu : X) (sigma : X) (d : Gen.LogNormal X) :
    Gen.LogNormal.new mu sigma = .ok d → Spec.LogNormal.Inv d := by
  intro h
  rw [LogNormal_new_ok_fields mu sigma d h]
  exact (LogNormal_new_ok_iff mu sigma).mp ⟨d, h⟩

example : Spec.LogNormal.Inv ({ mu := fin (-1), sigma := fin 2 } : Gen.LogNormal X) := LogNormal_new_inv (fin (-1)) (fin 2) _ (by c10_eval [])

-- @site LogNormal.new
/-- on failure the error names an argument that IS outside its documented domain and carries its value -/
theorem LogNormal_new_err_offending (mu : X) (sigma : X) (e : Err X) :
    Gen.LogNormal.new mu sigma = .error e →
     (¬ Spec.C10.IsFin mu ∧ (e = Err.mk "MuNotFinite" [mu])) ∨
     (¬ Spec.C10.IsPos sigma ∧ (e = Err.mk "SigmaTooLow" [sigma] ∨ e = Err.mk "SigmaNotFinite" [sigma])) := by
  rcases mu with _|_|_|mu <;> (try simp) <;>
    rcases sigma with _|_|_|sigma <;>
    (try simp) <;> c10_close

example : ∃ e, Gen.LogNormal.new (nan) (fin 2) = .error e := by c10_eval []

-- @site LogNormal.new
/-- on failure the error names the FIRST offending argument in documented (argument) order -/
theorem LogNormal_new_err_first (mu : X) (sigma : X) (e : Err X) :
    Gen.LogNormal.new mu sigma = .error e →
     (¬ Spec.C10.IsFin mu → (e = Err.mk "MuNotFinite" [mu])) ∧
     (Spec.C10.IsFin mu → ¬ Spec.C10.IsPos sigma → (e = Err.mk "SigmaTooLow" [sigma] ∨ e = Err.mk "SigmaNotFinite" [sigma])) := by
  rcases mu with _|_|_|mu <;> (try simp) <;>
    rcases sigma with _|_|_|sigma <;>
    (try simp) <;> c10_close

example : ∃ e, Gen.LogNormal.new (nan) (fin 2) = .error e := by c10_eval []

-- @site LogNormal.set_mu
/-- `set_mu` succeeds iff the new value is in the documented domain of `mu` (finite) -/
theorem LogNormal_set_mu_ok_iff (d : Gen.LogNormal X) (v : X) :
    (∃ d', Gen.LogNormal.set_mu d v = .ok d') ↔ Spec.C10.IsFin v := by
  rcases v with _|_|_|v <;>
    simp <;> c10_close

example : ∃ d', Gen.LogNormal.set_mu ({ mu := fin (-1), sigma := fin 2 } : Gen.LogNormal X) (fin 5) = .ok d' := (LogNormal_set_mu_ok_iff ..).mpr (by c10_spec [])

-- @site LogNormal.set_mu
/-- on failure the error carries the offending value -/
theorem LogNormal_set_mu_err (d : Gen.LogNormal X) (v : X) (e : Err X) :
    Gen.LogNormal.set_mu d v = .error e → ¬ Spec.C10.IsFin v ∧ (e = Err.mk "MuNotFinite" [v]) := by
  rcases v with _|_|_|v <;>
    simp <;> c10_close

example : ∃ e, Gen.LogNormal.set_mu ({ mu := fin (-1), sigma := fin 2 } : Gen.LogNormal X) (nan) = .error e := by c10_eval []

-- @site LogNormal.set_mu
/-- on success only that field (and its cache) changes; same object as the unchecked setter -/
theorem LogNormal_set_mu_ok_fields (d d' : Gen.LogNormal X) (v : X) :
    Gen.LogNormal.set_mu d v = .ok d' → d' = { d with mu := v } ∧ d' = Gen.LogNormal.set_mu_unchecked d v := by
  simp only [Gen.LogNormal.emit_params, Gen.LogNormal.from_params, Gen.LogNormal.get_mu, Gen.LogNormal.get_sigma, Gen.LogNormal.new, Gen.LogNormal.new_unchecked, Gen.LogNormal.set_mu, Gen.LogNormal.set_mu_unchecked, Gen.LogNormal.set_sigma, Gen.LogNormal.set_sigma_unchecked]
  split_ifs <;> simp <;> c10_close

example : Gen.LogNormal.set_mu ({ mu := fin (-1), sigma := fin 2 } : Gen.LogNormal X) (fin 5) = .ok ({ mu := fin 5, sigma := fin 2 } : Gen.LogNormal X) := by c10_eval []

-- @site LogNormal.set_mu
/-- failure atomicity (structural): either an error without a new state, or exactly the updated state -/
theorem LogNormal_set_mu_atomic (d : Gen.LogNormal X) (v : X) :
    (∃ e, Gen.LogNormal.set_mu d v = .error e) ∨ (∃ d', Gen.LogNormal.set_mu d v = .ok d' ∧ d' = { d with mu := v }) := by
  simp only [Gen.LogNormal.emit_params, Gen.LogNormal.from_params, Gen.LogNormal.get_mu, Gen.LogNormal.get_sigma, Gen.LogNormal.new, Gen.LogNormal.new_unchecked, Gen.LogNormal.set_mu, Gen.LogNormal.set_mu_unchecked, Gen.LogNormal.set_sigma, Gen.LogNormal.set_sigma_unchecked]
  split_ifs <;> simp <;> c10_close

example : ∃ e, Gen.LogNormal.set_mu ({ mu := fin (-1), sigma := fin 2 } : Gen.LogNormal X) (nan) = .error e := by c10_eval []

-- @site LogNormal.set_mu
/-- a successful checked setter preserves the parameter invariant -/
theorem LogNormal_set_mu_inv (d d' : Gen.LogNormal X) (v : X) :
    Spec.LogNormal.Inv d → Gen.LogNormal.set_mu d v = .ok d' → Spec.LogNormal.Inv d' := by
  rcases d with ⟨f0, f1⟩
  rcases v with _|_|_|v <;>
    simp <;> c10_close

example : Spec.LogNormal.Inv ({ mu := fin (-1), sigma := fin 2 } : Gen.LogNormal X) := by c10_spec [Spec.LogNormal.Inv, Spec.LogNormal.Valid]

-- @site LogNormal.set_sigma
/-- `set_sigma` succeeds iff the new value is in the documented domain of `sigma` (finite, > 0) -/
theorem LogNormal_set_sigma_ok_iff (d : Gen.LogNormal X) (v : X) :
    (∃ d', Gen.LogNormal.set_sigma d v = .ok d') ↔ Spec.C10.IsPos v := by
  rcases v with _|_|_|v <;>
    simp <;> c10_close

example : ∃ d', Gen.LogNormal.set_sigma ({ mu := fin (-1), sigma := fin 2 } : Gen.LogNormal X) (fin 7) = .ok d' := (LogNormal_set_sigma_ok_iff ..).mpr (by c10_spec [])

-- @site LogNormal.set_sigma
/-- on failure the error carries the offending value -/
theorem LogNormal_set_sigma_err (d : Gen.LogNormal X) (v : X) (e : Err X) :
    Gen.LogNormal.set_sigma d v = .error e → ¬ Spec.C10.IsPos v ∧ (e = Err.mk "SigmaTooLow" [v] ∨ e = Err.mk "SigmaNotFinite" [v]) := by
  rcases v with _|_|_|v <;>
    simp <;> c10_close

example : ∃ e, Gen.LogNormal.set_sigma ({ mu := fin (-1), sigma := fin 2 } : Gen.LogNormal X) (fin 0) = .error e := by c10_eval []

-- @site LogNormal.set_sigma
/-- on success only that field (and its cache) changes; same object as the unchecked setter -/
theorem LogNormal_set_sigma_ok_fields (d d' : Gen.LogNormal X) (v : X) :
    Gen.LogNormal.set_sigma d v = .ok d' → d' = { d with sigma := v } ∧ d' = Gen.LogNormal.set_sigma_unchecked d v := by
  simp only [Gen.LogNormal.emit_params, Gen.LogNormal.from_params, Gen.LogNormal.get_mu, Gen.LogNormal.get_sigma, Gen.LogNormal.new, Gen.LogNormal.new_unchecked, Gen.LogNormal.set_mu, Gen.LogNormal.set_mu_unchecked, Gen.LogNormal.set_sigma, Gen.LogNormal.set_sigma_unchecked]
  split_ifs <;> simp <;> c10_close

example : Gen.LogNormal.set_sigma ({ mu := fin (-1), sigma := fin 2 } : Gen.LogNormal X) (fin 7) = .ok ({ mu := fin (-1), sigma := fin 7 } : Gen.LogNormal X) := by c10_eval []

-- @site LogNormal.set_sigma
/-- failure atomicity (structural): either an error without a new state, or exactly the updated state -/
theorem LogNormal_set_sigma_atomic (d : Gen.LogNormal X) (v : X) :
    (∃ e, Gen.LogNormal.set_sigma d v = .error e) ∨ (∃ d', Gen.LogNormal.set_sigma d v = .ok d' ∧ d' = { d with sigma := v }) := by
  simp only [Gen.LogNormal.emit_params, Gen.LogNormal.from_params, Gen.LogNormal.get_mu, Gen.LogNormal.get_sigma, Gen.LogNormal.new, Gen.LogNormal.new_unchecked, Gen.LogNormal.set_mu, Gen.LogNormal.set_mu_unchecked, Gen.LogNormal.set_sigma, Gen.LogNormal.set_sigma_unchecked]
  split_ifs <;> simp <;> c10_close

example : ∃ e, Gen.LogNormal.set_sigma ({ mu := fin (-1), sigma := fin 2 } : Gen.LogNormal X) (fin 0) = .error e := by c10_eval []

-- @site LogNormal.set_sigma
/-- a successful checked setter preserves the parameter invariant -/
theorem LogNormal_set_sigma_inv (d d' : Gen.LogNormal X) (v : X) :
    Spec.LogNormal.Inv d → Gen.LogNormal.set_sigma d v = .ok d' → Spec.LogNormal.Inv d' := by
  rcases d with ⟨f0, f1⟩
  rcases v with _|_|_|v <;>
    simp <;> c10_close

example : Spec.LogNormal.Inv ({ mu := fin (-1), sigma := fin 2 } : Gen.LogNormal X) := by c10_spec [Spec.LogNormal.Inv, Spec.LogNormal.Valid]

-- @site LogNormal.new
/-- a sequence of accepted setters ending in parameters θ yields the object `new θ` builds -/
theorem LogNormal_build_eq (d d1 d2 : Gen.LogNormal X) (mu : X) (sigma : X) :
    Gen.LogNormal.set_mu d mu = .ok d1 →
    Gen.LogNormal.set_sigma d1 sigma = .ok d2 →
    Gen.LogNormal.new mu sigma = .ok d2 := by
  rcases d with ⟨f0, f1⟩
  rcases mu with _|_|_|mu <;> (try simp) <;>
    rcases sigma with _|_|_|sigma <;>
    (try simp) <;> c10_close

example : ∃ d', Gen.LogNormal.set_mu ({ mu := fin (-1), sigma := fin 2 } : Gen.LogNormal X) (fin 5) = .ok d' := by c10_eval []

-- @site LogNormal.from_params
/-- parameter round trip -/
theorem LogNormal_from_emit (d : Gen.LogNormal X) :
    Gen.LogNormal.from_params (Gen.LogNormal.emit_params d) = d := by
  rfl

example : Gen.LogNormal.from_params (Gen.LogNormal.emit_params ({ mu := fin (-1), sigma := fin 2 } : Gen.LogNormal X)) = ({ mu := fin (-1), sigma := fin 2 } : Gen.LogNormal X) := by c10_eval []

-- @site LogNormal.from_params
/-- `from_params (emit_params ·)` is the identity on every object built by the checked constructor -/
theorem LogNormal_new_eq_from_params (mu : X) (sigma : X) (d : Gen.LogNormal X) :
    Gen.LogNormal.new mu sigma = .ok d → Gen.LogNormal.from_params (Gen.LogNormal.emit_params d) = d := by
  simp only [Gen.LogNormal.emit_params, Gen.LogNormal.from_params, Gen.LogNormal.get_mu, Gen.LogNormal.get_sigma, Gen.LogNormal.new, Gen.LogNormal.new_unchecked, Gen.LogNormal.set_mu, Gen.LogNormal.set_mu_unchecked, Gen.LogNormal.set_sigma, Gen.LogNormal.set_sigma_unchecked]
  split_ifs <;> simp <;> c10_close

example : Gen.LogNormal.new (fin (-1)) (fin 2) = .ok ({ mu := fin (-1), sigma := fin 2 } : Gen.LogNormal X) := by c10_eval []

end LogNormal

/-! ## NegBinomial  (`src/dist/neg_binom.rs`) -/
section NegBinomial
attribute [local simp] Gen.NegBinomial.emit_params Gen.NegBinomial.from_params Gen.NegBinomial.get_p Gen.NegBinomial.get_r Gen.NegBinomial.new Gen.NegBinomial.new_unchecked Gen.NegBinomial.set_p Gen.NegBinomial.set_p_unchecked Gen.NegBinomial.set_r Gen.NegBinomial.set_r_unchecked Spec.NegBinomial.Valid Spec.NegBinomial.Inv

-- @site NegBinomial.new
/-- `NegBinomial::new` succeeds iff every parameter is in the documented domain — for ALL values incl. NaN, ±inf -/
theorem NegBinomial_new_ok_iff (r : X) (p : X) :
    (∃ d, Gen.NegBinomial.new r p = .ok d) ↔ Spec.NegBinomial.Valid r p := by
  rcases r with _|_|_|r <;> (try simp) <;>
    rcases p with _|_|_|p <;>
    (try simp) <;> c10_close

example : ∃ d, Gen.NegBinomial.new (fin 3) (fin (1/2)) = .ok d := (NegBinomial_new_ok_iff ..).mpr (by c10_spec [Spec.NegBinomial.Valid])

example : ¬ ∃ d, Gen.NegBinomial.new (fin (1/2)) (fin (1/2)) = .ok d := by rw [NegBinomial_new_ok_iff]; c10_spec [Spec.NegBinomial.Valid]

-- @site NegBinomial.new
/-- on success the object carries exactly the given parameters -/
theorem NegBinomial_new_ok_fields (r : X) (p : X) (d : Gen.NegBinomial X) :
    Gen.NegBinomial.new r p = .ok d → d = ({ r := r, p := p } : Gen.NegBinomial X) := by
  simp only [Gen.NegBinomial.emit_params, Gen.NegBinomial.from_params, Gen.NegBinomial.get_p, Gen.NegBinomial.get_r, Gen.NegBinomial.new, Gen.NegBinomial.new_unchecked, Gen.NegBinomial.set_p, Gen.NegBinomial.set_p_unchecked, Gen.NegBinomial.set_r, Gen.NegBinomial.set_r_unchecked]
  split_ifs <;> simp <;> c10_close

example : Gen.NegBinomial.new (fin 3) (fin (1/2)) = .ok ({ r := fin 3, p := fin (1/2) } : Gen.NegBinomial X) := by c10_eval []

-- @site NegBinomial.new
/-- checked and unchecked constructors build the same object -/
theorem NegBinomial_new_eq_unchecked (r : X) (p : X) (d : Gen.NegBinomial X) :
    Gen.NegBinomial.new r p = .ok d → d = Gen.NegBinomial.new_unchecked r p := by
  simp only [Gen.NegBinomial.emit_params, Gen.NegBinomial.from_params, Gen.NegBinomial.get_p, Gen.NegBinomial.get_r, Gen.NegBinomial.new, Gen.NegBinomial.new_unchecked, Gen.NegBinomial.set_p, Gen.NegBinomial.set_p_unchecked, Gen.NegBinomial.set_r, Gen.NegBinomial.set_r_unchecked]
  split_ifs <;> simp <;> c10_close

example : Gen.NegBinomial.new (fin 3) (fin (1/2)) = .ok (Gen.NegBinomial.new_unchecked (fin 3) (fin (1/2))) := by c10_eval []

-- @site NegBinomial.new
/-- an object obtained from the checked constructor satisfies the parameter invariant -/
theorem NegBinomial_new_inv (r : X) (p : X) (d : Gen.NegBinomial X) :
    Gen.NegBinomial.new r p = .ok d → Spec.NegBinomial.Inv d := by
  intro h
  rw [NegBinomial_new_ok_fields r p d h]
  exact (NegBinomial_new_ok_iff r p).mp ⟨d, h⟩

example : Spec.NegBinomial.Inv ({ r := fin 3, p := fin (1/2) } : Gen.NegBinomial X) := NegBinomial_new_inv (fin 3) (fin (1/2)) _ (by c10_eval [])

-- @site NegBinomial.new
/-- on failure the error names an argument that IS outside its documented domain and carries its value -/
theorem NegBinomial_new_err_offending (r : X) (p : X) (e : Err X) :
    Gen.NegBinomial.new r p = .error e →
     (¬ Spec.C10.IsGeOne r ∧ (e = Err.mk "RLessThanOne" [r] ∨ e = Err.mk "RNotFinite" [r])) ∨
     (¬ Spec.C10.IsUnit p ∧ (e = Err.mk "POutOfRange" [p] ∨ e = Err.mk "PNotFinite" [p])) := by
  rcases r with _|_|_|r <;> (try simp) <;>
    rcases p with _|_|_|p <;>
    (try simp) <;> c10_close

example : ∃ e, Gen.NegBinomial.new (fin (1/2)) (fin (1/2)) = .error e := by c10_eval []

-- @site NegBinomial.new
/-- on failure the error names the FIRST offending argument in documented (argument) order -/
theorem NegBinomial_new_err_first (r : X) (p : X) (e : Err X) :
    Gen.NegBinomial.new r p = .error e →
     (¬ Spec.C10.IsGeOne r → (e = Err.mk "RLessThanOne" [r] ∨ e = Err.mk "RNotFinite" [r])) ∧
     (Spec.C10.IsGeOne r → ¬ Spec.C10.IsUnit p → (e = Err.mk "POutOfRange" [p] ∨ e = Err.mk "PNotFinite" [p])) := by
  rcases r with _|_|_|r <;> (try simp) <;>
    rcases p with _|_|_|p <;>
    (try simp) <;> c10_close

example : ∃ e, Gen.NegBinomial.new (fin (1/2)) (fin (1/2)) = .error e := by c10_eval []

-- @site NegBinomial.set_r
/-- `set_r` succeeds iff the new value is in the documented domain of `r` (finite, ≥ 1) -/
theorem NegBinomial_set_r_ok_iff (d : Gen.NegBinomial X) (v : X) :
    (∃ d', Gen.NegBinomial.set_r d v = .ok d') ↔ Spec.C10.IsGeOne v := by
  rcases v with _|_|_|v <;>
    simp <;> c10_close

example : ∃ d', Gen.NegBinomial.set_r ({ r := fin 3, p := fin (1/2) } : Gen.NegBinomial X) (fin 1) = .ok d' := (NegBinomial_set_r_ok_iff ..).mpr (by c10_spec [])

-- @site NegBinomial.set_r
/-- on failure the error carries the offending value -/
theorem NegBinomial_set_r_err (d : Gen.NegBinomial X) (v : X) (e : Err X) :
    Gen.NegBinomial.set_r d v = .error e → ¬ Spec.C10.IsGeOne v ∧ (e = Err.mk "RLessThanOne" [v] ∨ e = Err.mk "RNotFinite" [v]) := by
  rcases v with _|_|_|v <;>
    simp <;> c10_close

example : ∃ e, Gen.NegBinomial.set_r ({ r := fin 3, p := fin (1/2) } : Gen.NegBinomial X) (fin (1/2)) = .error e := by c10_eval []

-- @site NegBinomial.set_r
/-- on success only that field (and its cache) changes; same object as the unchecked setter -/
theorem NegBinomial_set_r_ok_fields (d d' : Gen.NegBinomial X) (v : X) :
    Gen.NegBinomial.set_r d v = .ok d' → d' = { d with r := v } ∧ d' = Gen.NegBinomial.set_r_unchecked d v := by
  simp only [Gen.NegBinomial.emit_params, Gen.NegBinomial.from_params, Gen.NegBinomial.get_p, Gen.NegBinomial.get_r, Gen.NegBinomial.new, Gen.NegBinomial.new_unchecked, Gen.NegBinomial.set_p, Gen.NegBinomial.set_p_unchecked, Gen.NegBinomial.set_r, Gen.NegBinomial.set_r_unchecked]
  split_ifs <;> simp <;> c10_close

example : Gen.NegBinomial.set_r ({ r := fin 3, p := fin (1/2) } : Gen.NegBinomial X) (fin 1) = .ok ({ r := fin 1, p := fin (1/2) } : Gen.NegBinomial X) := by c10_eval []

-- @site NegBinomial.set_r
/-- failure atomicity (structural): either an error without a new state, or exactly the updated state -/
theorem NegBinomial_set_r_atomic (d : Gen.NegBinomial X) (v : X) :
    (∃ e, Gen.NegBinomial.set_r d v = .error e) ∨ (∃ d', Gen.NegBinomial.set_r d v = .ok d' ∧ d' = { d with r := v }) := by
  simp only [Gen.NegBinomial.emit_params, Gen.NegBinomial.from_params, Gen.NegBinomial.get_p, Gen.NegBinomial.get_r, Gen.NegBinomial.new, Gen.NegBinomial.new_unchecked, Gen.NegBinomial.set_p, Gen.NegBinomial.set_p_unchecked, Gen.NegBinomial.set_r, Gen.NegBinomial.set_r_unchecked]
  split_ifs <;> simp <;> c10_close

example : ∃ e, Gen.NegBinomial.set_r ({ r := fin 3, p := fin (1/2) } : Gen.NegBinomial X) (fin (1/2)) = .error e := by c10_eval []

-- @site NegBinomial.set_r
/-- a successful checked setter preserves the parameter invariant -/
theorem NegBinomial_set_r_inv (d d' : Gen.NegBinomial X) (v : X) :
    Spec.NegBinomial.Inv d → Gen.NegBinomial.set_r d v = .ok d' → Spec.NegBinomial.Inv d' := by
  rcases d with ⟨f0, f1⟩
  rcases v with _|_|_|v <;>
    simp <;> c10_close

example : Spec.NegBinomial.Inv ({ r := fin 3, p := fin (1/2) } : Gen.NegBinomial X) := by c10_spec [Spec.NegBinomial.Inv, Spec.NegBinomial.Valid]

-- @site NegBinomial.set_p
/-- `set_p` succeeds iff the new value is in the documented domain of `p` (finite, in [0, 1]) -/
theorem NegBinomial_set_p_ok_iff (d : Gen.NegBinomial X) (v : X) :
    (∃ d', Gen.NegBinomial.set_p d v = .ok d') ↔ Spec.C10.IsUnit v := by
  rcases v with _|_|_|v <;>
    simp <;> c10_close

example : ∃ d', Gen.NegBinomial.set_p ({ r := fin 3, p := fin (1/2) } : Gen.NegBinomial X) (fin (1/4)) = .ok d' := (NegBinomial_set_p_ok_iff ..).mpr (by c10_spec [])

-- @site NegBinomial.set_p
/-- on failure the error carries the offending value -/
theorem NegBinomial_set_p_err (d : Gen.NegBinomial X) (v : X) (e : Err X) :
    Gen.NegBinomial.set_p d v = .error e → ¬ Spec.C10.IsUnit v ∧ (e = Err.mk "POutOfRange" [v] ∨ e = Err.mk "PNotFinite" [v]) := by
  rcases v with _|_|_|v <;>
    simp <;> c10_close

example : ∃ e, Gen.NegBinomial.set_p ({ r := fin 3, p := fin (1/2) } : Gen.NegBinomial X) (fin 2) = .error e := by c10_eval []

-- @site NegBinomial.set_p
/-- on success only that field (and its cache) changes; same object as the unchecked setter -/
theorem NegBinomial_set_p_ok_fields (d d' : Gen.NegBinomial X) (v : X) :
    Gen.NegBinomial.set_p d v = .ok d' → d' = { d with p := v } ∧ d' = Gen.NegBinomial.set_p_unchecked d v := by
  simp only [Gen.NegBinomial.emit_params, Gen.NegBinomial.from_params, Gen.NegBinomial.get_p, Gen.NegBinomial.get_r, Gen.NegBinomial.new, Gen.NegBinomial.new_unchecked, Gen.NegBinomial.set_p, Gen.NegBinomial.set_p_unchecked, Gen.NegBinomial.set_r, Gen.NegBinomial.set_r_unchecked]
  split_ifs <;> simp <;> c10_close

example : Gen.NegBinomial.set_p ({ r := fin 3, p := fin (1/2) } : Gen.NegBinomial X) (fin (1/4)) = .ok ({ r := fin 3, p := fin (1/4) } : Gen.NegBinomial X) := by c10_eval []

-- @site NegBinomial.set_p
/-- failure atomicity (structural): either an error without a new state, or exactly the updated state -/
theorem NegBinomial_set_p_atomic (d : Gen.NegBinomial X) (v : X) :
    (∃ e, Gen.NegBinomial.set_p d v = .error e) ∨ (∃ d', Gen.NegBinomial.set_p d v = .ok d' ∧ d' = { d with p := v }) := by
  simp only [Gen.NegBinomial.emit_params, Gen.NegBinomial.from_params, Gen.NegBinomial.get_p, Gen.NegBinomial.get_r, Gen.NegBinomial.new, Gen.NegBinomial.new_unchecked, Gen.NegBinomial.set_p, Gen.NegBinomial.set_p_unchecked, Gen.NegBinomial.set_r, Gen.NegBinomial.set_r_unchecked]
  split_ifs <;> simp <;> c10_close

example : ∃ e, Gen.NegBinomial.set_p ({ r := fin 3, p := fin (1/2) } : Gen.NegBinomial X) (fin 2) = .error e := by c10_eval []

-- @site NegBinomial.set_p
/-- a successful checked setter preserves the parameter invariant -/
theorem NegBinomial_set_p_inv (d d' : Gen.NegBinomial X) (v : X) :
    Spec.NegBinomial.Inv d → Gen.NegBinomial.set_p d v = .ok d' → Spec.NegBinomial.Inv d' := by
  rcases d with ⟨f0, f1⟩
  rcases v with _|_|_|v <;>
    simp <;> c10_close

example : Spec.NegBinomial.Inv ({ r := fin 3, p := fin (1/2) } : Gen.NegBinomial X) := by c10_spec [Spec.NegBinomial.Inv, Spec.NegBinomial.Valid]

-- @site NegBinomial.new
/-- a sequence of accepted setters ending in parameters θ yields the object `new θ` builds -/
theorem NegBinomial_build_eq (d d1 d2 : Gen.NegBinomial X) (r : X) (p : X) :
    Gen.NegBinomial.set_r d r = .ok d1 →
    Gen.NegBinomial.set_p d1 p = .ok d2 →
    Gen.NegBinomial.new r p = .ok d2 := by
  rcases d with ⟨f0, f1⟩
  rcases r with _|_|_|r <;> (try simp) <;>
    rcases p with _|_|_|p <;>
    (try simp) <;> c10_close

example : ∃ d', Gen.NegBinomial.set_r ({ r := fin 3, p := fin (1/2) } : Gen.NegBinomial X) (fin 1) = .ok d' := by c10_eval []

-- @site NegBinomial.from_params
/-- parameter round trip -/
theorem NegBinomial_from_emit (d : Gen.NegBinomial X) :
    Gen.NegBinomial.from_params (Gen.NegBinomial.emit_params d) = d := by
  rfl

example : Gen.NegBinomial.from_params (Gen.NegBinomial.emit_params ({ r := fin 3, p := fin (1/2) } : Gen.NegBinomial X)) = ({ r := fin 3, p := fin (1/2) } : Gen.NegBinomial X) := by c10_eval []

-- @site NegBinomial.from_params
/-- `from_params (emit_params ·)` is the identity on every object built by the checked constructor -/
theorem NegBinomial_new_eq_from_params (r : X) (p : X) (d : Gen.NegBinomial X) :
    Gen.NegBinomial.new r p = .ok d → Gen.NegBinomial.from_params (Gen.NegBinomial.emit_params d) = d := by
  simp only [Gen.NegBinomial.emit_params, Gen.NegBinomial.from_params, Gen.NegBinomial.get_p, Gen.NegBinomial.get_r, Gen.NegBinomial.new, Gen.NegBinomial.new_unchecked, Gen.NegBinomial.set_p, Gen.NegBinomial.set_p_unchecked, Gen.NegBinomial.set_r, Gen.NegBinomial.set_r_unchecked]
  split_ifs <;> simp <;> c10_close

example : Gen.NegBinomial.new (fin 3) (fin (1/2)) = .ok ({ r := fin 3, p := fin (1/2) } : Gen.NegBinomial X) := by c10_eval []

end NegBinomial

end C10

#print axioms C10.Bernoulli_new_ok_iff
#print axioms C10.Bernoulli_new_ok_fields
#print axioms C10.Bernoulli_new_eq_unchecked
#print axioms C10.Bernoulli_new_inv
#print axioms C10.Bernoulli_new_err_offending
#print axioms C10.Bernoulli_new_err_first
#print axioms C10.Bernoulli_set_p_ok_iff
#print axioms C10.Bernoulli_set_p_err
#print axioms C10.Bernoulli_set_p_ok_fields
#print axioms C10.Bernoulli_set_p_atomic
#print axioms C10.Bernoulli_set_p_inv
#print axioms C10.Bernoulli_build_eq
#print axioms C10.Bernoulli_from_emit
#print axioms C10.Bernoulli_new_eq_from_params
#print axioms C10.Beta_new_ok_iff
#print axioms C10.Beta_new_ok_fields
#print axioms C10.Beta_new_eq_unchecked
#print axioms C10.Beta_new_inv
#print axioms C10.Beta_new_err_offending
#print axioms C10.Beta_new_err_first
#print axioms C10.Beta_set_alpha_ok_iff
#print axioms C10.Beta_set_alpha_err
#print axioms C10.Beta_set_alpha_ok_fields
#print axioms C10.Beta_set_alpha_atomic
#print axioms C10.Beta_set_alpha_inv
#print axioms C10.Beta_set_beta_ok_iff
#print axioms C10.Beta_set_beta_err
#print axioms C10.Beta_set_beta_ok_fields
#print axioms C10.Beta_set_beta_atomic
#print axioms C10.Beta_set_beta_inv
#print axioms C10.Beta_build_eq
#print axioms C10.Beta_from_emit
#print axioms C10.Beta_new_eq_from_params
#print axioms C10.BetaBinomial_new_ok_iff
#print axioms C10.BetaBinomial_new_ok_fields
#print axioms C10.BetaBinomial_new_eq_unchecked
#print axioms C10.BetaBinomial_new_inv
#print axioms C10.BetaBinomial_new_err_offending
#print axioms C10.BetaBinomial_new_err_first_partial
#print axioms C10.BetaBinomial_new_err_order_counterexample
#print axioms C10.BetaBinomial_set_n_ok_iff
#print axioms C10.BetaBinomial_set_n_err
#print axioms C10.BetaBinomial_set_n_ok_fields
#print axioms C10.BetaBinomial_set_n_atomic
#print axioms C10.BetaBinomial_set_n_inv
#print axioms C10.BetaBinomial_set_alpha_ok_iff
#print axioms C10.BetaBinomial_set_alpha_err
#print axioms C10.BetaBinomial_set_alpha_ok_fields
#print axioms C10.BetaBinomial_set_alpha_atomic
#print axioms C10.BetaBinomial_set_alpha_inv
#print axioms C10.BetaBinomial_set_beta_ok_iff
#print axioms C10.BetaBinomial_set_beta_err
#print axioms C10.BetaBinomial_set_beta_ok_fields
#print axioms C10.BetaBinomial_set_beta_atomic
#print axioms C10.BetaBinomial_set_beta_inv
#print axioms C10.BetaBinomial_build_eq
#print axioms C10.BetaBinomial_from_emit
#print axioms C10.BetaBinomial_new_eq_from_params
#print axioms C10.Binomial_new_ok_iff
#print axioms C10.Binomial_new_ok_fields
#print axioms C10.Binomial_new_eq_unchecked
#print axioms C10.Binomial_new_inv
#print axioms C10.Binomial_new_err_offending
#print axioms C10.Binomial_new_err_first
#print axioms C10.Binomial_set_n_ok_iff
#print axioms C10.Binomial_set_n_err
#print axioms C10.Binomial_set_n_ok_fields
#print axioms C10.Binomial_set_n_atomic
#print axioms C10.Binomial_set_n_inv
#print axioms C10.Binomial_set_p_ok_iff
#print axioms C10.Binomial_set_p_err
#print axioms C10.Binomial_set_p_ok_fields
#print axioms C10.Binomial_set_p_atomic
#print axioms C10.Binomial_set_p_inv
#print axioms C10.Binomial_build_eq
#print axioms C10.Binomial_from_emit
#print axioms C10.Binomial_new_eq_from_params
#print axioms C10.Cauchy_new_ok_iff
#print axioms C10.Cauchy_new_ok_fields
#print axioms C10.Cauchy_new_eq_unchecked
#print axioms C10.Cauchy_new_inv
#print axioms C10.Cauchy_new_err_offending
#print axioms C10.Cauchy_new_err_first
#print axioms C10.Cauchy_set_loc_ok_iff
#print axioms C10.Cauchy_set_loc_err
#print axioms C10.Cauchy_set_loc_ok_fields
#print axioms C10.Cauchy_set_loc_atomic
#print axioms C10.Cauchy_set_loc_inv
#print axioms C10.Cauchy_set_scale_ok_iff
#print axioms C10.Cauchy_set_scale_err
#print axioms C10.Cauchy_set_scale_ok_fields
#print axioms C10.Cauchy_set_scale_atomic
#print axioms C10.Cauchy_set_scale_inv
#print axioms C10.Cauchy_build_eq
#print axioms C10.Cauchy_from_emit
#print axioms C10.Cauchy_new_eq_from_params
#print axioms C10.ChiSquared_new_ok_iff
#print axioms C10.ChiSquared_new_ok_fields
#print axioms C10.ChiSquared_new_eq_unchecked
#print axioms C10.ChiSquared_new_inv
#print axioms C10.ChiSquared_new_err_offending
#print axioms C10.ChiSquared_new_err_first
#print axioms C10.ChiSquared_set_k_ok_iff
#print axioms C10.ChiSquared_set_k_err
#print axioms C10.ChiSquared_set_k_ok_fields
#print axioms C10.ChiSquared_set_k_atomic
#print axioms C10.ChiSquared_set_k_inv
#print axioms C10.ChiSquared_build_eq
#print axioms C10.ChiSquared_from_emit
#print axioms C10.ChiSquared_new_eq_from_params
#print axioms C10.Crp_new_ok_iff
#print axioms C10.Crp_new_ok_fields
#print axioms C10.Crp_new_eq_unchecked
#print axioms C10.Crp_new_inv
#print axioms C10.Crp_new_err_offending
#print axioms C10.Crp_new_err_first_partial
#print axioms C10.Crp_new_err_order_counterexample
#print axioms C10.Crp_set_alpha_ok_iff
#print axioms C10.Crp_set_alpha_err
#print axioms C10.Crp_set_alpha_ok_fields
#print axioms C10.Crp_set_alpha_atomic
#print axioms C10.Crp_set_alpha_inv
#print axioms C10.Crp_set_n_ok_iff
#print axioms C10.Crp_set_n_err
#print axioms C10.Crp_set_n_ok_fields
#print axioms C10.Crp_set_n_atomic
#print axioms C10.Crp_set_n_inv
#print axioms C10.Crp_build_eq
#print axioms C10.Exponential_new_ok_iff
#print axioms C10.Exponential_new_ok_fields
#print axioms C10.Exponential_new_eq_unchecked
#print axioms C10.Exponential_new_inv
#print axioms C10.Exponential_new_err_offending
#print axioms C10.Exponential_new_err_first
#print axioms C10.Exponential_set_rate_ok_iff
#print axioms C10.Exponential_set_rate_err
#print axioms C10.Exponential_set_rate_ok_fields
#print axioms C10.Exponential_set_rate_atomic
#print axioms C10.Exponential_set_rate_inv
#print axioms C10.Exponential_build_eq
#print axioms C10.Exponential_from_emit
#print axioms C10.Exponential_new_eq_from_params
#print axioms C10.Gamma_new_ok_iff
#print axioms C10.Gamma_new_ok_fields
#print axioms C10.Gamma_new_eq_unchecked
#print axioms C10.Gamma_new_inv
#print axioms C10.Gamma_new_err_offending
#print axioms C10.Gamma_new_err_first_partial
#print axioms C10.Gamma_new_err_order_counterexample
#print axioms C10.Gamma_set_shape_ok_iff
#print axioms C10.Gamma_set_shape_err
#print axioms C10.Gamma_set_shape_ok_fields
#print axioms C10.Gamma_set_shape_atomic
#print axioms C10.Gamma_set_shape_inv
#print axioms C10.Gamma_set_rate_ok_iff
#print axioms C10.Gamma_set_rate_err
#print axioms C10.Gamma_set_rate_ok_fields
#print axioms C10.Gamma_set_rate_atomic
#print axioms C10.Gamma_set_rate_inv
#print axioms C10.Gamma_build_eq
#print axioms C10.Gamma_from_emit
#print axioms C10.Gamma_new_eq_from_params
#print axioms C10.Gaussian_new_ok_iff
#print axioms C10.Gaussian_new_ok_fields
#print axioms C10.Gaussian_new_eq_unchecked
#print axioms C10.Gaussian_new_inv
#print axioms C10.Gaussian_new_err_offending
#print axioms C10.Gaussian_new_err_first
#print axioms C10.Gaussian_set_mu_ok_iff
#print axioms C10.Gaussian_set_mu_err
#print axioms C10.Gaussian_set_mu_ok_fields
#print axioms C10.Gaussian_set_mu_atomic
#print axioms C10.Gaussian_set_mu_inv
#print axioms C10.Gaussian_set_sigma_ok_iff
#print axioms C10.Gaussian_set_sigma_err
#print axioms C10.Gaussian_set_sigma_ok_fields
#print axioms C10.Gaussian_set_sigma_atomic
#print axioms C10.Gaussian_set_sigma_inv
#print axioms C10.Gaussian_build_eq
#print axioms C10.Gaussian_from_emit
#print axioms C10.Gaussian_new_eq_from_params
#print axioms C10.Geometric_new_ok_iff
#print axioms C10.Geometric_new_ok_fields
#print axioms C10.Geometric_new_eq_unchecked
#print axioms C10.Geometric_new_inv
#print axioms C10.Geometric_new_err_offending
#print axioms C10.Geometric_new_err_first
#print axioms C10.Geometric_set_p_ok_iff
#print axioms C10.Geometric_set_p_err
#print axioms C10.Geometric_set_p_ok_fields
#print axioms C10.Geometric_set_p_atomic
#print axioms C10.Geometric_set_p_inv
#print axioms C10.Geometric_build_eq
#print axioms C10.Geometric_from_emit
#print axioms C10.Geometric_new_eq_from_params
#print axioms C10.Gev_new_ok_iff
#print axioms C10.Gev_new_ok_fields
#print axioms C10.Gev_new_eq_unchecked
#print axioms C10.Gev_new_inv
#print axioms C10.Gev_new_err_offending
#print axioms C10.Gev_new_err_first_partial
#print axioms C10.Gev_new_err_order_counterexample
#print axioms C10.Gev_set_loc_ok_iff
#print axioms C10.Gev_set_loc_err
#print axioms C10.Gev_set_loc_ok_fields
#print axioms C10.Gev_set_loc_atomic
#print axioms C10.Gev_set_loc_inv
#print axioms C10.Gev_set_scale_ok_iff
#print axioms C10.Gev_set_scale_err
#print axioms C10.Gev_set_scale_ok_fields
#print axioms C10.Gev_set_scale_atomic
#print axioms C10.Gev_set_scale_inv
#print axioms C10.Gev_set_shape_ok_iff
#print axioms C10.Gev_set_shape_err
#print axioms C10.Gev_set_shape_ok_fields
#print axioms C10.Gev_set_shape_atomic
#print axioms C10.Gev_set_shape_inv
#print axioms C10.Gev_build_eq
#print axioms C10.Gev_from_emit
#print axioms C10.Gev_new_eq_from_params
#print axioms C10.InvChiSquared_new_ok_iff
#print axioms C10.InvChiSquared_new_ok_fields
#print axioms C10.InvChiSquared_new_eq_unchecked
#print axioms C10.InvChiSquared_new_inv
#print axioms C10.InvChiSquared_new_err_offending
#print axioms C10.InvChiSquared_new_err_first
#print axioms C10.InvChiSquared_set_v_ok_iff
#print axioms C10.InvChiSquared_set_v_err
#print axioms C10.InvChiSquared_set_v_ok_fields
#print axioms C10.InvChiSquared_set_v_atomic
#print axioms C10.InvChiSquared_set_v_inv
#print axioms C10.InvChiSquared_build_eq
#print axioms C10.InvChiSquared_from_emit
#print axioms C10.InvChiSquared_new_eq_from_params
#print axioms C10.InvGamma_new_ok_iff
#print axioms C10.InvGamma_new_ok_fields
#print axioms C10.InvGamma_new_eq_unchecked
#print axioms C10.InvGamma_new_inv
#print axioms C10.InvGamma_new_err_offending
#print axioms C10.InvGamma_new_err_first_partial
#print axioms C10.InvGamma_new_err_order_counterexample
#print axioms C10.InvGamma_set_shape_ok_iff
#print axioms C10.InvGamma_set_shape_err
#print axioms C10.InvGamma_set_shape_ok_fields
#print axioms C10.InvGamma_set_shape_atomic
#print axioms C10.InvGamma_set_shape_inv
#print axioms C10.InvGamma_set_scale_ok_iff
#print axioms C10.InvGamma_set_scale_err
#print axioms C10.InvGamma_set_scale_ok_fields
#print axioms C10.InvGamma_set_scale_atomic
#print axioms C10.InvGamma_set_scale_inv
#print axioms C10.InvGamma_build_eq
#print axioms C10.InvGamma_from_emit
#print axioms C10.InvGamma_new_eq_from_params
#print axioms C10.InvGaussian_new_ok_iff
#print axioms C10.InvGaussian_new_ok_fields
#print axioms C10.InvGaussian_new_eq_unchecked
#print axioms C10.InvGaussian_new_inv
#print axioms C10.InvGaussian_new_err_offending
#print axioms C10.InvGaussian_new_err_first
#print axioms C10.InvGaussian_set_mu_ok_iff
#print axioms C10.InvGaussian_set_mu_err
#print axioms C10.InvGaussian_set_mu_ok_fields
#print axioms C10.InvGaussian_set_mu_atomic
#print axioms C10.InvGaussian_set_mu_inv
#print axioms C10.InvGaussian_set_lambda_ok_iff
#print axioms C10.InvGaussian_set_lambda_err
#print axioms C10.InvGaussian_set_lambda_ok_fields
#print axioms C10.InvGaussian_set_lambda_atomic
#print axioms C10.InvGaussian_set_lambda_inv
#print axioms C10.InvGaussian_build_eq
#print axioms C10.InvGaussian_from_emit
#print axioms C10.InvGaussian_new_eq_from_params
#print axioms C10.Kumaraswamy_new_ok_iff
#print axioms C10.Kumaraswamy_new_ok_fields
#print axioms C10.Kumaraswamy_new_eq_unchecked
#print axioms C10.Kumaraswamy_new_inv
#print axioms C10.Kumaraswamy_new_err_offending
#print axioms C10.Kumaraswamy_new_err_first
#print axioms C10.Kumaraswamy_set_a_ok_iff
#print axioms C10.Kumaraswamy_set_a_err
#print axioms C10.Kumaraswamy_set_a_ok_fields
#print axioms C10.Kumaraswamy_set_a_atomic
#print axioms C10.Kumaraswamy_set_a_inv
#print axioms C10.Kumaraswamy_set_b_ok_iff
#print axioms C10.Kumaraswamy_set_b_err
#print axioms C10.Kumaraswamy_set_b_ok_fields
#print axioms C10.Kumaraswamy_set_b_atomic
#print axioms C10.Kumaraswamy_set_b_inv
#print axioms C10.Kumaraswamy_build_eq
#print axioms C10.Kumaraswamy_from_emit
#print axioms C10.Kumaraswamy_new_eq_from_params
#print axioms C10.Laplace_new_ok_iff
#print axioms C10.Laplace_new_ok_fields
#print axioms C10.Laplace_new_eq_unchecked
#print axioms C10.Laplace_new_inv
#print axioms C10.Laplace_new_err_offending
#print axioms C10.Laplace_new_err_first
#print axioms C10.Laplace_set_mu_ok_iff
#print axioms C10.Laplace_set_mu_err
#print axioms C10.Laplace_set_mu_ok_fields
#print axioms C10.Laplace_set_mu_atomic
#print axioms C10.Laplace_set_mu_inv
#print axioms C10.Laplace_set_b_ok_iff
#print axioms C10.Laplace_set_b_err
#print axioms C10.Laplace_set_b_ok_fields
#print axioms C10.Laplace_set_b_atomic
#print axioms C10.Laplace_set_b_inv
#print axioms C10.Laplace_build_eq
#print axioms C10.Laplace_from_emit
#print axioms C10.Laplace_new_eq_from_params
#print axioms C10.LogNormal_new_ok_iff
#print axioms C10.LogNormal_new_ok_fields
#print axioms C10.LogNormal_new_eq_unchecked
#print axioms C10.LogNormal_new_inv
#print axioms C10.LogNormal_new_err_offending
#print axioms C10.LogNormal_new_err_first
#print axioms C10.LogNormal_set_mu_ok_iff
#print axioms C10.LogNormal_set_mu_err
#print axioms C10.LogNormal_set_mu_ok_fields
#print axioms C10.LogNormal_set_mu_atomic
#print axioms C10.LogNormal_set_mu_inv
#print axioms C10.LogNormal_set_sigma_ok_iff
#print axioms C10.LogNormal_set_sigma_err
#print axioms C10.LogNormal_set_sigma_ok_fields
#print axioms C10.LogNormal_set_sigma_atomic
#print axioms C10.LogNormal_set_sigma_inv
#print axioms C10.LogNormal_build_eq
#print axioms C10.LogNormal_from_emit
#print axioms C10.LogNormal_new_eq_from_params
#print axioms C10.NegBinomial_new_ok_iff
#print axioms C10.NegBinomial_new_ok_fields
#print axioms C10.NegBinomial_new_eq_unchecked
#print axioms C10.NegBinomial_new_inv
#print axioms C10.NegBinomial_new_err_offending
#print axioms C10.NegBinomial_new_err_first
#print axioms C10.NegBinomial_set_r_ok_iff
#print axioms C10.NegBinomial_set_r_err
#print axioms C10.NegBinomial_set_r_ok_fields
#print axioms C10.NegBinomial_set_r_atomic
#print axioms C10.NegBinomial_set_r_inv
#print axioms C10.NegBinomial_set_p_ok_iff
#print axioms C10.NegBinomial_set_p_err
#print axioms C10.NegBinomial_set_p_ok_fields
#print axioms C10.NegBinomial_set_p_atomic
#print axioms C10.NegBinomial_set_p_inv
#print axioms C10.NegBinomial_build_eq
#print axioms C10.NegBinomial_from_emit
#print axioms C10.NegBinomial_new_eq_from_params
