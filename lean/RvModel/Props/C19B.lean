import RvModel.RealInst
import RvModel.Hand.Stick
import RvModel.Lemmas.C19Stick
import Mathlib.Topology.Algebra.InfiniteSum.Real
/-!
  C19 (part B) — a stick-breaking sequence is a deterministic function of its breaker and seed.

  Model: `Hand/Stick.lean`.  The generator of a `StickSequence` is used only by `_Inner::extend`, so the breaks it
  will ever produce form a fixed stream `breaks : Nat → α` (a function of `(breaker, seed)`); the theorems are
  parametric in it.  Convention of the code: `ccdf n = Π_{i<n} bᵢ` (the break is the fraction KEPT).

  1. Determinism (any carrier, hence bit-exact on binary64): along every finite sequence of calls in any order,
     `ccdf n`, `weight n`, `sf`, `cdf`, `invccdf p` and the first `n` entries of `weights n` are functions of the
     stream only (`request_order_independent`); the same for arbitrary interleavings of the individual critical
     sections of several threads (`interleaved_ccdf`, `interleaved_weight`).  NOT history independent:
     the length of `weights(n)` (`weights_history_counterexample`) and `multi_invccdf_sorted`
     (`multi_history_counterexample`; on a fresh sequence it is `map invccdf`: `multi_fresh`).
  2. Over the exact reals, breaks in (0,1): weights positive, below the remaining mass; remaining mass strictly
     decreasing; `Σ_{i<n} weight i + ccdf n = 1`; the weights sum to one iff the remaining mass tends to 0.
  3. `StickBreakingDiscrete`: `cdf n = Σ_{i≤n} f i`, `sf = 1 − cdf`, `invccdf p = min {n | sf n < p}` for `p ≤ 1`;
     `position(..) − 1` underflows for `p > 1` (`invccdf_underflow_counterexample`); `invcdf (cdf x) = x + 1`
     (`invcdf_cdf_counterexample`).
-/
set_option linter.unusedVariables false
set_option linter.unusedSimpArgs false
set_option linter.unusedTactic false

namespace C19
open Hand.Stick Hand.Stick.Sbd


/-! ### 1. determinism -/

-- @site StickSequence::ccdf (and ensure_breaks, weight, weights; StickBreakingDiscrete::sf, cdf, invccdf)
/-- one call from a state satisfying the prefix invariant: the invariant is kept and the answer is `Expected` -/
theorem serve_spec {α : Type} [RealLike α] (breaks : Nat → α) (fuel : Nat) (s : S α) (r : Req α)
    (h : SInv breaks s) (hr : NoPush r) :
    SInv breaks (serve breaks fuel s r).2 ∧ Expected breaks r (serve breaks fuel s r).1 := by
  cases r with
  | ensure n => exact ⟨(ensure_spec breaks n s h).1, rfl⟩
  | ccdf n =>
    obtain ⟨h1, h2⟩ := ensure_spec breaks n s h
    refine ⟨h1, ?_⟩
    have hl := sinv_length breaks _ h1
    simp only [Expected, serve]
    rw [sinv_getD breaks _ h1 n (by rw [hl, h2]; simp only [Nat.max_def]; split <;> omega)]
  | weight n =>
    obtain ⟨h1, h2⟩ := ensure_spec breaks (n + 1) s h
    refine ⟨h1, ?_⟩
    have hl := sinv_length breaks _ h1
    have hb : n + 1 < (ensureBreaks breaks (n + 1) s).ccdf.length := by
      rw [hl, h2]; simp only [Nat.max_def]; split <;> omega
    simp only [Expected, serve]
    rw [sinv_getD breaks _ h1 n (by omega), sinv_getD breaks _ h1 (n + 1) hb]
    rfl
  | sf x =>
    obtain ⟨h1, h2⟩ := ensure_spec breaks (x + 1) s h
    refine ⟨h1, ?_⟩
    have hl := sinv_length breaks _ h1
    simp only [Expected, serve]
    rw [sinv_getD breaks _ h1 (x + 1) (by rw [hl, h2]; simp only [Nat.max_def]; split <;> omega)]
  | cdf x =>
    obtain ⟨h1, h2⟩ := ensure_spec breaks (x + 1) s h
    refine ⟨h1, ?_⟩
    have hl := sinv_length breaks _ h1
    simp only [Expected, serve]
    rw [sinv_getD breaks _ h1 (x + 1) (by rw [hl, h2]; simp only [Nat.max_def]; split <;> omega)]
  | weights n =>
    obtain ⟨h1, h2⟩ := ensure_spec breaks n s h
    refine ⟨h1, ?_⟩
    simp only [Expected, serve]
    refine ⟨(ensureBreaks breaks n s).drawn, ?_, ?_⟩
    · rw [h2]; exact Nat.le_max_right _ _
    · rw [weightsOf_spec breaks _ h1]
  | numWeights => exact ⟨h, trivial⟩
  | invccdf p =>
    simp only [serve]
    cases he : extendUntil breaks (fun cs => RealLike.lt (cs.getLastD RealLike.nan) p) fuel s with
    | none => exact ⟨h, Or.inl rfl⟩
    | some s' =>
      obtain ⟨h1, h2, _⟩ := extendUntil_spec breaks _ fuel s s' h he
      have hl := sinv_length breaks _ h1
      have h2' : RealLike.lt (s'.ccdf.getLastD RealLike.nan) p = true := h2
      dsimp only
      cases hp : positionBelow p s'.ccdf 0 with
      | none =>
        exfalso
        have hn := positionBelow_none p s'.ccdf 0 hp
        have hlast : s'.ccdf.getLastD RealLike.nan ∈ s'.ccdf := by
          rw [List.getLastD_eq_getLast?, List.getLast?_eq_getElem?, hl]
          simp only [Nat.add_sub_cancel]
          rw [sinv_get? breaks s' h1 _ (by omega)]
          simp only [Option.getD_some]
          rw [← sinv_getD breaks s' h1 s'.drawn (by omega), List.getD_eq_getElem?_getD,
            List.getElem?_eq_getElem (by omega)]
          simp
        have := hn _ hlast
        rw [h2'] at this
        cases this
      | some j =>
        dsimp only
        refine ⟨h1, Or.inr ⟨j, ?_, rfl⟩⟩
        obtain ⟨_, ⟨q, hq1, hq2⟩, h3⟩ := positionBelow_some p s'.ccdf 0 j hp
        simp only [Nat.sub_zero] at hq1 h3
        have hj : j < s'.ccdf.length := by
          by_contra hc
          rw [List.getElem?_eq_none (by omega)] at hq1
          cases hq1
        rw [sinv_get? breaks s' h1 j hj] at hq1
        injection hq1 with hq1
        refine ⟨by rw [hq1]; exact hq2, ?_⟩
        intro i hi
        exact h3 i hi _ (sinv_get? breaks s' h1 i (by omega))
  | multi p0 ps =>
    simp only [serve]
    cases he : extendUntil breaks (fun cs => RealLike.lt (cs.getLastD RealLike.nan) p0) fuel s with
    | none => exact ⟨h, trivial⟩
    | some s' => exact ⟨(extendUntil_spec breaks _ fuel s s' h he).1, trivial⟩
  | push p => exact absurd hr (by simp [NoPush])

-- @site StickSequence::ccdf (and ensure_breaks, weight, weights; StickBreakingDiscrete::sf, cdf, invccdf)
/-- **determinism**: for every finite sequence of method calls in any order, starting from a fresh sequence,
    every answer is the function `Expected` of the break stream (hence of `(breaker, seed)`) alone -/
theorem request_order_independent {α : Type} [RealLike α] (breaks : Nat → α) (fuel : Nat)
    (reqs : List (Req α)) (hr : ∀ r ∈ reqs, NoPush r) (s : S α) (hs : SInv breaks s) :
    List.Forall₂ (Expected breaks) reqs (serveAll breaks fuel s reqs) := by
  induction reqs generalizing s with
  | nil => exact List.Forall₂.nil
  | cons r rs ih =>
    obtain ⟨h1, h2⟩ := serve_spec breaks fuel s r hs (hr r (List.mem_cons_self ..))
    exact List.Forall₂.cons h2 (ih (fun r' hr' => hr r' (List.mem_cons_of_mem _ hr')) _ h1)

example : ∃ reqs : List (Req R), (∀ r ∈ reqs, NoPush r) ∧ reqs.length = 4 :=
  ⟨[.weight 3, .ccdf 1, .invccdf ⟨0.5⟩, .weights 2], by intro r hr; simp at hr; rcases hr with rfl | rfl | rfl | rfl <;> trivial, rfl⟩

-- @site StickBreakingDiscrete::invccdf
/-- the value served for `invccdf p` is the pure function `Sbd.invccdf` of the ccdf sequence (any sufficient fuel) -/
theorem served_invccdf {α : Type} [RealLike α] (breaks : Nat → α) (p : α) (v : Nat)
    (h : Expected breaks (.invccdf p) (.nat v)) :
    ∃ j, ∀ fuel', j ≤ fuel' → Sbd.invccdf (ccdfFn breaks) fuel' p = some v := by
  rcases h with h | ⟨j, ⟨h1, h2⟩, h3⟩
  · cases h
  · injection h3 with h3
    refine ⟨j, fun fuel' hf => ?_⟩
    rw [Sbd.invccdf, firstBelow_of_isFirst (ccdfFn breaks) p fuel' 0 j h1 (fun i _ hi => h2 i hi)
      (Nat.zero_le _) (by omega), h3]
    rfl

/-! ### 2. weights and remaining mass over the exact reals -/

example : UnitBreaks (fun _ => (⟨1 / 2⟩ : R)) := fun _ => by norm_num

-- @site StickSequence::ccdf
theorem ccdf_pos (breaks : Nat → R) (hb : UnitBreaks breaks) (n : Nat) : 0 < (ccdfFn breaks n).val := by
  induction n with
  | zero => rw [ccdf_zero_val]; norm_num
  | succ n ih => rw [ccdf_succ_val]; exact mul_pos ih (hb n).1

-- @site StickSequence::ccdf
/-- the ccdf is the product of the breaks -/
theorem ccdf_eq_prod (breaks : Nat → R) (n : Nat) :
    (ccdfFn breaks n).val = ∏ i ∈ Finset.range n, (breaks i).val := by
  induction n with
  | zero => simp [ccdf_zero_val]
  | succ n ih => rw [ccdf_succ_val, Finset.prod_range_succ, ih]

-- @site StickSequence::ccdf
theorem ccdf_succ_lt (breaks : Nat → R) (hb : UnitBreaks breaks) (n : Nat) :
    (ccdfFn breaks (n + 1)).val < (ccdfFn breaks n).val := by
  rw [ccdf_succ_val]
  have := ccdf_pos breaks hb n
  nlinarith [(hb n).2]

-- @site StickSequence::ccdf
/-- remaining mass is strictly decreasing -/
theorem ccdf_strictAnti (breaks : Nat → R) (hb : UnitBreaks breaks) :
    StrictAnti (fun n => (ccdfFn breaks n).val) :=
  strictAnti_nat_of_succ_lt (ccdf_succ_lt breaks hb)

-- @site StickSequence::weight
theorem weight_val (breaks : Nat → R) (n : Nat) :
    (weightFn breaks n).val = (ccdfFn breaks n).val * (1 - (breaks n).val) := by
  simp only [weightFn, R.sub_val, ccdf_succ_val]; ring

-- @site StickSequence::weight
theorem weight_pos (breaks : Nat → R) (hb : UnitBreaks breaks) (n : Nat) : 0 < (weightFn breaks n).val := by
  simp only [weightFn, R.sub_val]
  linarith [ccdf_succ_lt breaks hb n]

-- @site StickSequence::weight
/-- a weight never exceeds the mass remaining before it -/
theorem weight_lt_remaining (breaks : Nat → R) (hb : UnitBreaks breaks) (n : Nat) :
    (weightFn breaks n).val < (ccdfFn breaks n).val := by
  simp only [weightFn, R.sub_val]
  linarith [ccdf_pos breaks hb (n + 1)]

-- @site StickSequence::weights
/-- **telescoping**: the first `n` weights and the remaining mass add up to one (any breaks) -/
theorem weights_telescope (breaks : Nat → R) (n : Nat) :
    (∑ i ∈ Finset.range n, (weightFn breaks i).val) + (ccdfFn breaks n).val = 1 := by
  induction n with
  | zero => simp [ccdf_zero_val]
  | succ n ih =>
    rw [Finset.sum_range_succ]
    simp only [weightFn, R.sub_val] at ih ⊢
    linarith

-- @site StickSequence::weights
/-- list form, as returned by `weights(n)` on a fresh sequence -/
theorem weights_telescope_list (breaks : Nat → R) (n : Nat) :
    (((List.range n).map (weightFn breaks)).map R.val).sum + (ccdfFn breaks n).val = 1 := by
  rw [← weights_telescope breaks n, List.map_map, ← List.sum_toFinset _ List.nodup_range]
  congr 2
  ext i; simp

-- @site StickSequence::weights
/-- the weights sum to one exactly when the remaining mass vanishes in the limit -/
theorem weights_hasSum (breaks : Nat → R) (hb : UnitBreaks breaks)
    (h0 : Filter.Tendsto (fun n => (ccdfFn breaks n).val) Filter.atTop (nhds 0)) :
    HasSum (fun i => (weightFn breaks i).val) 1 := by
  rw [hasSum_iff_tendsto_nat_of_nonneg (fun i => (weight_pos breaks hb i).le)]
  have : (fun n => ∑ i ∈ Finset.range n, (weightFn breaks i).val) = fun n => 1 - (ccdfFn breaks n).val := by
    funext n; linarith [weights_telescope breaks n]
  rw [this]
  simpa using h0.const_sub 1

/-! ### 3. StickBreakingDiscrete -/

-- @site StickBreakingDiscrete::cdf
/-- `cdf n = Σ_{i ≤ n} f i` -/
theorem sbd_cdf_eq_sum (breaks : Nat → R) (n : Nat) :
    (Sbd.cdf (ccdfFn breaks) n).val = ∑ i ∈ Finset.range (n + 1), (Sbd.f (ccdfFn breaks) i).val := by
  have := weights_telescope breaks (n + 1)
  simp only [Sbd.cdf, Sbd.sf, Sbd.f, R.sub_val, one_valS, weightFn] at this ⊢
  linarith

-- @site StickBreakingDiscrete::sf
/-- `sf = 1 − cdf` -/
theorem sbd_sf_eq (breaks : Nat → R) (n : Nat) :
    (Sbd.sf (ccdfFn breaks) n).val = 1 - (Sbd.cdf (ccdfFn breaks) n).val := by
  simp only [Sbd.cdf, R.sub_val, one_valS]; ring

-- @site StickBreakingDiscrete::f
/-- the pmf is positive and is the increment of the cdf -/
theorem sbd_f_eq_cdf_diff (breaks : Nat → R) (n : Nat) :
    (Sbd.f (ccdfFn breaks) (n + 1)).val = (Sbd.cdf (ccdfFn breaks) (n + 1)).val - (Sbd.cdf (ccdfFn breaks) n).val := by
  simp only [Sbd.cdf, Sbd.sf, Sbd.f, R.sub_val]; ring

-- @site StickBreakingDiscrete::invccdf
/-- **generalised inverse**: for `p ≤ 1` the value returned by `invccdf` is `min {n | sf n < p}`
    (`sf n = ccdf (n+1)`), i.e. `sf n < p ≤ sf (n − 1)` -/
theorem invccdf_spec (breaks : Nat → R) (fuel : Nat) (p : R) (n : Nat) (hp1 : p.val ≤ 1)
    (hfuel : fuel < 2 ^ 64) (h : Sbd.invccdf (ccdfFn breaks) fuel p = some n) :
    (Sbd.sf (ccdfFn breaks) n).val < p.val ∧ ∀ m, m < n → ¬ (Sbd.sf (ccdfFn breaks) m).val < p.val := by
  simp only [Sbd.invccdf, Option.map_eq_some_iff] at h
  obtain ⟨j, hj, rfl⟩ := h
  obtain ⟨_, h2, h3, h4⟩ := firstBelow_some _ _ _ _ _ hj
  have hj0 : j ≠ 0 := by
    intro e; subst e
    rw [R.lt_iff, ccdf_zero_val] at h3
    linarith
  rw [subOneWrap_pos j (by omega) (by omega)]
  have e : j - 1 + 1 = j := by omega
  refine ⟨by simpa [Sbd.sf, e] using h3, ?_⟩
  intro m hm
  have := h4 (m + 1) (by omega) (by omega)
  simpa [Sbd.sf] using this

-- @site StickBreakingDiscrete::invccdf
/-- existence: when some ccdf value within the fuel is below `p` (always the case eventually when the remaining
    mass tends to 0 and `p > 0`), `invccdf` returns -/
theorem invccdf_some (breaks : Nat → R) (fuel : Nat) (p : R) (j : Nat) (hj : j ≤ fuel)
    (hlt : (ccdfFn breaks j).val < p.val) : ∃ n, Sbd.invccdf (ccdfFn breaks) fuel p = some n := by
  classical
  have hex : ∃ i, RealLike.lt (ccdfFn breaks i) p = true := ⟨j, by simpa using hlt⟩
  have hmin : ∀ {m : Nat}, m < Nat.find hex → ¬ RealLike.lt (ccdfFn breaks m) p = true :=
    fun {m} hm => Nat.find_min hex hm
  have hle : Nat.find hex ≤ j := Nat.find_min' hex (by simpa using hlt)
  have := firstBelow_of_isFirst (ccdfFn breaks) p fuel 0 (Nat.find hex) (Nat.find_spec hex)
    (fun i _ hi => by simpa using hmin hi) (Nat.zero_le _) (by omega)
  exact ⟨subOneWrap (Nat.find hex), by simp only [Sbd.invccdf, this, Option.map_some]⟩

-- @site StickBreakingDiscrete::invccdf
/-- **underflow**: for `p > 1` already `ccdf[0] = 1 < p`, `position(..) = 0` and `0 - 1` wraps (release build;
    a debug build panics): the result is `2^64 − 1` although `min {n | sf n < p} = 0`.
    The `debug_assert!(p > 0.0 && p < 1.0)` is compiled out in release builds. -/
theorem invccdf_underflow_counterexample (breaks : Nat → R) (fuel : Nat) (p : R) (hp : 1 < p.val) :
    Sbd.invccdf (ccdfFn breaks) fuel p = some (2 ^ 64 - 1) := by
  have h0 : RealLike.lt (ccdfFn breaks 0) p = true := by rw [R.lt_iff, ccdf_zero_val]; exact hp
  have : firstBelow (ccdfFn breaks) p fuel 0 = some 0 := by
    cases fuel <;> simp [firstBelow, h0]
  simp only [Sbd.invccdf, this, Option.map_some, subOneWrap_zero]

example : ∃ p : R, 1 < p.val := ⟨⟨1.5⟩, by norm_num⟩

-- @site StickBreakingDiscrete::invcdf
/-- **quantile / cdf inconsistency at atoms**: `invcdf (cdf x) = x + 1`, not `x`: `invcdf q = min {n | cdf n > q}`
    (strict), whereas the quantile function of a discrete law is `min {n | cdf n ≥ q}` -/
theorem invcdf_cdf_counterexample (breaks : Nat → R) (hb : UnitBreaks breaks) (fuel x : Nat)
    (hf : x + 2 ≤ fuel) (hfuel : fuel < 2 ^ 64) :
    Sbd.invcdf (ccdfFn breaks) fuel (Sbd.cdf (ccdfFn breaks) x) = some (x + 1) := by
  have hanti := ccdf_strictAnti breaks hb
  have hp : ((1.0 : R) - Sbd.cdf (ccdfFn breaks) x).val = (ccdfFn breaks (x + 1)).val := by
    simp only [Sbd.cdf, Sbd.sf, R.sub_val, one_valS]; ring
  have := firstBelow_of_isFirst (ccdfFn breaks) ((1.0 : R) - Sbd.cdf (ccdfFn breaks) x) fuel 0 (x + 2)
    (by rw [R.lt_iff, hp]; exact hanti (by omega))
    (fun i _ hi => by
      rw [R.lt_false_iff, hp, not_lt]
      exact hanti.antitone (by omega))
    (Nat.zero_le _) (by omega)
  simp only [Sbd.invcdf, Sbd.invccdf, this, Option.map_some]
  rw [subOneWrap_pos _ (by omega) (by omega)]
  rfl

/-! ### 4. threads: interleavings of the individual critical sections -/

-- @site StickSequence::ccdf
/-- **threads**: `ccdf(n)` is two critical sections (`ensure_breaks(n)` under the write guard, then a read).
    Whatever critical sections of other threads run before, between and after them, the read returns `ccdfFn n` -/
theorem interleaved_ccdf {α : Type} [RealLike α] (breaks : Nat → α) (before between : List MOp) (n : Nat) :
    (mstep breaks (mrun breaks (mstep breaks (mrun breaks init before) (.ensure n)).2 between) (.readCcdf n)).1
      = some (ccdfFn breaks n) := by
  obtain ⟨h0, _⟩ := mrun_spec breaks before init (sinv_init breaks)
  obtain ⟨h1, h2⟩ := ensure_spec breaks n _ h0
  obtain ⟨h3, h4⟩ := mrun_spec breaks between _ h1
  have hl := sinv_length breaks _ h3
  have : n ≤ (ensureBreaks breaks n (mrun breaks init before)).drawn := by rw [h2]; exact Nat.le_max_right _ _
  exact sinv_get? breaks _ h3 n (by
    show n < (mrun breaks (ensureBreaks breaks n (mrun breaks init before)) between).ccdf.length
    have h4' : (ensureBreaks breaks n (mrun breaks init before)).drawn ≤
      (mrun breaks (ensureBreaks breaks n (mrun breaks init before)) between).drawn := h4
    have hl' : (mrun breaks (ensureBreaks breaks n (mrun breaks init before)) between).ccdf.length =
      (mrun breaks (ensureBreaks breaks n (mrun breaks init before)) between).drawn + 1 := hl
    omega)

-- @site StickSequence::weight
theorem interleaved_weight {α : Type} [RealLike α] (breaks : Nat → α) (before between : List MOp) (n : Nat) :
    (mstep breaks (mrun breaks (mstep breaks (mrun breaks init before) (.ensure (n + 1))).2 between)
        (.readWeight n)).1 = some (weightFn breaks n) := by
  obtain ⟨h0, _⟩ := mrun_spec breaks before init (sinv_init breaks)
  obtain ⟨h1, h2⟩ := ensure_spec breaks (n + 1) _ h0
  obtain ⟨h3, h4⟩ := mrun_spec breaks between _ h1
  have hl := sinv_length breaks _ h3
  have : n + 1 ≤ (ensureBreaks breaks (n + 1) (mrun breaks init before)).drawn := by
    rw [h2]; exact Nat.le_max_right _ _
  have hlen : n + 1 < (mrun breaks (ensureBreaks breaks (n + 1) (mrun breaks init before)) between).ccdf.length := by
    have h4' : (ensureBreaks breaks (n + 1) (mrun breaks init before)).drawn ≤
      (mrun breaks (ensureBreaks breaks (n + 1) (mrun breaks init before)) between).drawn := h4
    have hl' : (mrun breaks (ensureBreaks breaks (n + 1) (mrun breaks init before)) between).ccdf.length =
      (mrun breaks (ensureBreaks breaks (n + 1) (mrun breaks init before)) between).drawn + 1 := hl
    omega
  show ((mrun breaks (ensureBreaks breaks (n + 1) (mrun breaks init before)) between).ccdf[n]?).bind
      (fun a => ((mrun breaks (ensureBreaks breaks (n + 1) (mrun breaks init before)) between).ccdf[n + 1]?).map
        (fun b => a - b)) = _
  rw [sinv_get? breaks _ h3 n (by omega), sinv_get? breaks _ h3 (n + 1) hlen]
  rfl

/-! ### 5. what is NOT history independent -/

-- @site StickSequence::weights
/-- **`weights(n)` depends on the call history**: it returns EVERY weight materialised so far, not the first
    `n` (its rustdoc: "the weights of the first `n` sticks"): on a fresh sequence `weights(2)` has 2 entries, after
    `ccdf(10)` it has 10 — for every break stream and every carrier -/
theorem weights_history_counterexample {α : Type} [RealLike α] (breaks : Nat → α) (fuel : Nat) :
    serveAll breaks fuel init [.weights 2] = [.vals ((List.range 2).map (weightFn breaks))] ∧
    serveAll breaks fuel init [.ccdf 10, .weights 2]
      = [.val (ccdfFn breaks 10), .vals ((List.range 10).map (weightFn breaks))] := by
  have hi := sinv_init (α := α) breaks
  constructor
  · obtain ⟨h1, h2⟩ := ensure_spec breaks 2 init hi
    simp only [serveAll, serve]
    rw [weightsOf_spec breaks _ h1, h2]
    rfl
  · obtain ⟨h1, h2⟩ := ensure_spec breaks 10 init hi
    obtain ⟨h3, h4⟩ := ensure_spec breaks 2 _ h1
    simp only [serveAll, serve]
    rw [weightsOf_spec breaks _ h3, h4, h2]
    have hl := sinv_length breaks _ h1
    have hg := sinv_get? breaks _ h1 10 (by rw [hl, h2]; show 10 < Nat.max 0 10 + 1; decide)
    simp only [List.getD_eq_getElem?_getD, hg, Option.getD_some]
    rfl

-- @site StickBreakingDiscrete::multi_invccdf_sorted
/-- **`multi_invccdf_sorted` depends on the call history and can return more entries than requested**: once the
    index of the smallest probability has been emitted (`i == 0 → break`) nothing records that the slice is
    exhausted, so every further stored ccdf value below `ps[0]` emits another entry.  With breaks `1/2, 1/2, …` and
    `ps = [3/5]`: on a fresh sequence the answer is `[0]`; after `ccdf(3)` it is `[0, 1, 2]`. -/
theorem multi_history_counterexample :
    serveAll (fun _ => (⟨1 / 2⟩ : R)) 4 init [.multi ⟨3 / 5⟩ []] = [.nats [0]] ∧
    (serveAll (fun _ => (⟨1 / 2⟩ : R)) 4 init [.ccdf 3, .multi ⟨3 / 5⟩ []]).drop 1 = [.nats [0, 1, 2]] := by
  constructor
  · simp only [serveAll, serve, extendUntil, init, extend, List.getLastD, List.getLast?, lt_val, R.mul_val, one_valS,
      List.cons_append, List.nil_append, List.getLast_cons, List.getLast_singleton]
    norm_num [multiRead, enumL, multiOuter, multiInner, RealLike.gt, lt_val, one_valS]
  · simp only [serveAll, serve, ensureBreaks, extendN, extendUntil, init, extend, List.getLastD, List.getLast?, lt_val,
      R.mul_val, one_valS, List.cons_append, List.nil_append, List.length_cons, List.length_nil, List.drop_succ_cons,
      List.drop_zero]
    norm_num [multiRead, enumL, multiOuter, multiInner, RealLike.gt, lt_val, one_valS, extendN, extend, extendUntil]
    simp only [List.range_succ, List.range_zero, List.nil_append, List.cons_append, List.zip_cons_cons,
      List.zip_nil_right, multiOuter, multiInner, RealLike.gt, List.getD_cons_zero, lt_val, R.mul_val, one_valS]
    norm_num

-- @site StickBreakingDiscrete::multi_invccdf_sorted
/-- **`multi_invccdf_sorted` = `map invccdf`** (in the order of decreasing probability, as the rustdoc test
    states) on an ascending slice of probabilities `≤ ccdf 0 = 1`, PROVIDED the stored vector is the minimal one
    `[c 0, …, c m]` with `m` the first index below `ps[0]` — which is what `extend_until` leaves on a sequence that
    was not materialised further before the call (`multi_history_counterexample` shows the proviso is needed) -/
theorem multi_eq_map_invccdf (c : Nat → R) (ps : List R) (m fuel : Nat) (hne : ps ≠ [])
    (hs : ps.Pairwise (fun a b => a.val ≤ b.val)) (h1 : ∀ p ∈ ps, ¬ (c 0).val < p.val)
    (hm : IsFirstBelow c (ps.head hne) m) (hfuel : m ≤ fuel) (hf64 : fuel < 2 ^ 64) :
    (multiRead ((List.range (m + 1)).map c) ps).map some = ps.reverse.map (Sbd.invccdf c fuel) := by
  obtain ⟨hm1, hm2⟩ := hm
  rw [R.lt_iff] at hm1
  have hm0 : 1 ≤ m := by
    by_contra hc
    have : m = 0 := by omega
    subst this; exact h1 _ (List.head_mem hne) hm1
  have hlen : 0 < ps.length := List.length_pos_iff.mpr hne
  have hqs : ((List.range (m + 1)).map c).drop 1 = (List.range m).map (fun i => c (i + 1)) := by
    rw [List.range_succ_eq_map]; simp [Function.comp_def]
  have hst : (ps.take (ps.length - 1 + 1)).reverse = ps.reverse := by
    rw [Nat.sub_add_cancel hlen, List.take_length]
  have hrne : ps.reverse ≠ [] := by simpa using hne
  have hlastp : ps.reverse.getLast hrne = ps.head hne := by simp [List.getLast_reverse]
  have hqne : (List.range m).map (fun i => c (i + 1)) ≠ [] := by
    intro e
    have := congrArg List.length e
    simp at this; omega
  rw [multiRead, hqs, enumL_eq, multiOuter_abs ps _ _ _ (by omega), hst,
    absOuter_spec _ 0 ps.reverse [] hrne (by rw [List.pairwise_reverse]; exact hs) hqne
      (by
        intro q hq
        rw [hlastp]
        have hq' := List.mem_of_mem_dropLast hq
        obtain ⟨i, hi, rfl⟩ := List.mem_map.mp hq'
        -- `c (i+1)` is not the last element: it occurs in `dropLast`, so `i + 1 < m`
        rw [List.dropLast_eq_take, List.length_map, List.length_range, ← List.map_take, List.take_range] at hq
        obtain ⟨j, hj, hje⟩ := List.mem_map.mp hq
        rw [List.mem_range] at hj
        rw [← hje]
        have := hm2 (j + 1) (by omega)
        rwa [R.lt_false_iff] at this)
      (by
        rw [hlastp, List.getLast_map, List.getLast_range]
        have : m - 1 + 1 = m := by omega
        rw [this]; exact hm1)]
  simp only [List.nil_append, List.map_map, Nat.zero_add]
  apply List.map_congr_left
  intro p hp
  have hp' : p ∈ ps := List.mem_reverse.mp hp
  have hge : (ps.head hne).val ≤ p.val := by
    have := sorted_ge_last ps.reverse hrne (by rw [List.pairwise_reverse]; exact hs) p hp
    rwa [hlastp] at this
  simp only [Function.comp]
  rw [invccdf_eq_idx c p m fuel (h1 p hp') (by linarith) hfuel hf64]

-- @site StickBreakingDiscrete::multi_invccdf_sorted
/-- on a FRESH sequence `multi_invccdf_sorted(ps)` is `map invccdf` over the reversed slice -/
theorem multi_fresh (breaks : Nat → R) (p0 : R) (ps : List R) (fuel fuel' : Nat) (l : List Nat)
    (hs : (p0 :: ps).Pairwise (fun a b => a.val ≤ b.val)) (h1 : ∀ p ∈ p0 :: ps, p.val ≤ 1)
    (h : serveAll breaks fuel init [.multi p0 ps] = [.nats l]) (hf : fuel ≤ fuel') (hf64 : fuel' < 2 ^ 64) :
    l.map some = (p0 :: ps).reverse.map (Sbd.invccdf (ccdfFn breaks) fuel') := by
  simp only [serveAll, serve] at h
  cases he : extendUntil breaks (fun cs => RealLike.lt (cs.getLastD RealLike.nan) p0) fuel init with
  | none =>
    simp only [he] at h
    injection h with h _
    cases h
  | some s' =>
    simp only [he] at h
    injection h with h _
    injection h with h
    subst h
    obtain ⟨hi, hpred, _⟩ := extendUntil_spec breaks _ fuel init s' (sinv_init breaks) he
    obtain ⟨hd, hmin⟩ := extendUntil_min breaks p0 fuel init s' (sinv_init breaks) he
    have hpred' : RealLike.lt (s'.ccdf.getLastD RealLike.nan) p0 = true := hpred
    rw [sinv_last breaks s' hi] at hpred'
    have hd' : s'.drawn ≤ fuel := by
      have : (init : S R).drawn = 0 := rfl
      omega
    rw [hi]
    exact multi_eq_map_invccdf (ccdfFn breaks) (p0 :: ps) s'.drawn fuel' (by simp) hs
      (fun p hp => by rw [ccdf_zero_val]; exact not_lt.mpr (h1 p hp))
      ⟨by simpa using hpred', fun i hi' => hmin i (Nat.zero_le _) hi'⟩ (by omega) hf64

example : ∃ (p0 : R) (ps : List R), (p0 :: ps).Pairwise (fun a b => a.val ≤ b.val) ∧ ∀ p ∈ p0 :: ps, p.val ≤ 1 :=
  ⟨⟨0.2⟩, [⟨0.5⟩, ⟨0.9⟩], by simp; norm_num, by intro p hp; simp at hp; rcases hp with rfl | rfl | rfl <;> norm_num⟩

end C19

#print axioms C19.serve_spec
#print axioms C19.request_order_independent
#print axioms C19.ccdf_pos
#print axioms C19.ccdf_eq_prod
#print axioms C19.ccdf_succ_lt
#print axioms C19.ccdf_strictAnti
#print axioms C19.weight_val
#print axioms C19.weight_pos
#print axioms C19.weight_lt_remaining
#print axioms C19.weights_telescope
#print axioms C19.weights_telescope_list
#print axioms C19.weights_hasSum
#print axioms C19.sbd_cdf_eq_sum
#print axioms C19.sbd_sf_eq
#print axioms C19.sbd_f_eq_cdf_diff
#print axioms C19.invccdf_spec
#print axioms C19.invccdf_some
#print axioms C19.invccdf_underflow_counterexample
#print axioms C19.invcdf_cdf_counterexample
#print axioms C19.interleaved_ccdf
#print axioms C19.interleaved_weight
#print axioms C19.weights_history_counterexample
#print axioms C19.multi_history_counterexample
#print axioms C19.served_invccdf
#print axioms C19.multi_eq_map_invccdf
#print axioms C19.multi_fresh
