import RvModel.RealInst
import RvModel.Gen.Defs
import RvModel.Lemmas.C03
import Mathlib.Analysis.SpecialFunctions.ExpDeriv
import Mathlib.Analysis.SpecialFunctions.Pow.Deriv
import Mathlib.Analysis.SpecialFunctions.Log.Deriv
import Mathlib.Analysis.SpecialFunctions.Trigonometric.ArctanDeriv
/-!
  C03 (group A): closed-form continuous CDFs.  For every distribution, with the parameters valid as the checked
  constructor enforces them: the derivative of the object's own `cdf` is the object's own density `exp (ln_f)` on
  the interior of the support, `cdf` is monotone, lies in `[0,1]`, has the limits 0 / 1 at the ends of the support,
  and `sf = 1 - cdf`.  Carrier `R` (exact reals).
-/
open Real Filter Topology

namespace C03

/-! ### Exponential (rate > 0, support [0, ∞)) -/

-- @site Exponential.cdf_real
theorem Exponential_cdf_deriv (d : Gen.Exponential R) (x : ℝ) (hr : 0 < d.rate.val) (hx : 0 ≤ x) :
    HasDerivAt (fun t : ℝ => (Gen.Exponential.cdf_real d ⟨t⟩).val)
      (Real.exp (Gen.Exponential.ln_f_real d ⟨x⟩).val) x := by
  have hfun : (fun t : ℝ => (Gen.Exponential.cdf_real d ⟨t⟩).val) = fun t => 1 - Real.exp (-d.rate.val * t) := by
    funext t; exact Exponential_cdf_eq d t
  have hlt : ¬ x < 0 := not_lt.mpr hx
  have hln : (Gen.Exponential.ln_f_real d ⟨x⟩).val = Real.log d.rate.val + (-d.rate.val * x) := by
    simp only [Gen.Exponential.ln_f_real, mulAdd, R.lt_iff, zero_val, hlt, if_false, R.add_val, R.mul_val,
      R.neg_val, R.ln_val]
    ring
  rw [hfun, hln, Real.exp_add, Real.exp_log hr]
  have h1 : HasDerivAt (fun t : ℝ => -d.rate.val * t) (-d.rate.val) x := by
    simpa using (hasDerivAt_id x).const_mul (-d.rate.val)
  exact ((h1.exp).const_sub 1).congr_deriv (by ring)

example : HasDerivAt (fun t : ℝ => (Gen.Exponential.cdf_real (⟨⟨2⟩⟩ : Gen.Exponential R) ⟨t⟩).val)
    (Real.exp (Gen.Exponential.ln_f_real (⟨⟨2⟩⟩ : Gen.Exponential R) ⟨1⟩).val) 1 :=
  Exponential_cdf_deriv ⟨⟨2⟩⟩ 1 (by norm_num) (by norm_num)

-- @site Exponential.cdf_real
theorem Exponential_cdf_mono (d : Gen.Exponential R) (hr : 0 < d.rate.val) :
    Monotone (fun t : ℝ => (Gen.Exponential.cdf_real d ⟨t⟩).val) := by
  intro s t hst
  simp only [Exponential_cdf_eq]
  have : Real.exp (-d.rate.val * t) ≤ Real.exp (-d.rate.val * s) := Real.exp_le_exp.mpr (by nlinarith)
  linarith

-- @site Exponential.cdf_real
theorem Exponential_cdf_range (d : Gen.Exponential R) (x : ℝ) (hr : 0 < d.rate.val) (hx : 0 ≤ x) :
    0 ≤ (Gen.Exponential.cdf_real d ⟨x⟩).val ∧ (Gen.Exponential.cdf_real d ⟨x⟩).val ≤ 1 := by
  rw [Exponential_cdf_eq]
  have h1 : Real.exp (-d.rate.val * x) ≤ 1 := Real.exp_le_one_iff.mpr (by nlinarith)
  have h2 := Real.exp_pos (-d.rate.val * x)
  constructor <;> linarith

-- @site Exponential.cdf_real
theorem Exponential_cdf_tendsto_top (d : Gen.Exponential R) (hr : 0 < d.rate.val) :
    Tendsto (fun t : ℝ => (Gen.Exponential.cdf_real d ⟨t⟩).val) atTop (𝓝 1) := by
  simp only [Exponential_cdf_eq]
  have h1 : Tendsto (fun t : ℝ => d.rate.val * t) atTop atTop := tendsto_id.const_mul_atTop hr
  have h2 := (Real.tendsto_exp_neg_atTop_nhds_zero.comp h1).const_sub 1
  simpa [Function.comp_def] using h2

-- @site Exponential.cdf_real
theorem Exponential_cdf_bot (d : Gen.Exponential R) : (Gen.Exponential.cdf_real d ⟨0⟩).val = 0 := by
  rw [Exponential_cdf_eq]; simp

-- @site Exponential.sf_real
theorem Exponential_sf (d : Gen.Exponential R) (x : R) :
    (Gen.Exponential.sf_real d x).val = 1 - (Gen.Exponential.cdf_real d x).val := by
  simp only [Gen.Exponential.sf_real, R.sub_val, one_val]

example : (0:ℝ) < (⟨⟨2⟩⟩ : Gen.Exponential R).rate.val := by norm_num

/-! ### Uniform (a < b, support [a, b]) -/

-- @site Uniform.cdf_real
theorem Uniform_cdf_deriv (d : Gen.Uniform R) (x : ℝ) (hxa : d.a.val < x) (hxb : x < d.b.val) :
    HasDerivAt (fun t : ℝ => (Gen.Uniform.cdf_real d ⟨t⟩).val)
      (Real.exp (Gen.Uniform.ln_f_real d ⟨x⟩).val) x := by
  have hpos : 0 < d.b.val - d.a.val := by linarith
  have hln : (Gen.Uniform.ln_f_real d ⟨x⟩).val = -Real.log (d.b.val - d.a.val) := by
    simp only [Gen.Uniform.ln_f_real, Gen.Uniform.lnf, Bool.and_eq_true, R.le_iff, hxa.le, hxb.le, and_self,
      if_true, R.neg_val, R.ln_val, R.sub_val]
  rw [hln, Real.exp_neg, Real.exp_log hpos]
  have h1 : HasDerivAt (fun t : ℝ => (t - d.a.val) / (d.b.val - d.a.val)) ((d.b.val - d.a.val)⁻¹) x := by
    have := ((hasDerivAt_id x).sub_const d.a.val).div_const (d.b.val - d.a.val)
    exact this.congr_deriv (by simp [one_div])
  refine h1.congr_of_eventuallyEq ?_
  filter_upwards [Ioo_mem_nhds hxa hxb] with t ht
  rw [Uniform_cdf_eq, if_neg (not_lt.mpr ht.1.le), if_neg (not_le.mpr ht.2)]

example : HasDerivAt (fun t : ℝ => (Gen.Uniform.cdf_real (⟨⟨1⟩, ⟨3⟩⟩ : Gen.Uniform R) ⟨t⟩).val)
    (Real.exp (Gen.Uniform.ln_f_real (⟨⟨1⟩, ⟨3⟩⟩ : Gen.Uniform R) ⟨2⟩).val) 2 :=
  Uniform_cdf_deriv ⟨⟨1⟩, ⟨3⟩⟩ 2 (by norm_num) (by norm_num)

-- @site Uniform.cdf_real
theorem Uniform_cdf_mono (d : Gen.Uniform R) (hab : d.a.val < d.b.val) :
    Monotone (fun t : ℝ => (Gen.Uniform.cdf_real d ⟨t⟩).val) := by
  have hpos : 0 < d.b.val - d.a.val := by linarith
  intro s t hst
  simp only [Uniform_cdf_eq]
  split_ifs with h1 h2 h3 h4 h5 h6 h7 h8
  all_goals first
    | exact le_refl _
    | exact zero_le_one
    | (exfalso; linarith)
    | exact div_nonneg (by linarith) hpos.le
    | exact (div_le_one hpos).mpr (by linarith)
    | exact div_le_div_of_nonneg_right (by linarith) hpos.le

-- @site Uniform.cdf_real
theorem Uniform_cdf_range (d : Gen.Uniform R) (x : ℝ) (hab : d.a.val < d.b.val) :
    0 ≤ (Gen.Uniform.cdf_real d ⟨x⟩).val ∧ (Gen.Uniform.cdf_real d ⟨x⟩).val ≤ 1 := by
  have hpos : 0 < d.b.val - d.a.val := by linarith
  rw [Uniform_cdf_eq]
  split_ifs with h1 h2
  · exact ⟨le_refl _, zero_le_one⟩
  · exact ⟨zero_le_one, le_refl _⟩
  · exact ⟨div_nonneg (by linarith) hpos.le, (div_le_one hpos).mpr (by linarith)⟩

-- @site Uniform.cdf_real
theorem Uniform_cdf_bot (d : Gen.Uniform R) (hab : d.a.val < d.b.val) :
    (Gen.Uniform.cdf_real d ⟨d.a.val⟩).val = 0 := by
  rw [Uniform_cdf_eq, if_neg (lt_irrefl _), if_neg (not_le.mpr hab)]; simp

-- @site Uniform.cdf_real
theorem Uniform_cdf_top (d : Gen.Uniform R) (hab : d.a.val < d.b.val) :
    (Gen.Uniform.cdf_real d ⟨d.b.val⟩).val = 1 := by
  rw [Uniform_cdf_eq, if_neg (not_lt.mpr hab.le), if_pos (le_refl _)]

-- @site Uniform.sf_real
theorem Uniform_sf (d : Gen.Uniform R) (x : R) :
    (Gen.Uniform.sf_real d x).val = 1 - (Gen.Uniform.cdf_real d x).val := by
  simp only [Gen.Uniform.sf_real, R.sub_val, one_val]

/-! ### Cauchy (scale > 0, support ℝ) -/

/-- the textbook Cauchy density, as a real expression -/
noncomputable def cauchyPdf (loc scale x : ℝ) : ℝ := 1 / (π * scale * (1 + ((x - loc) / scale) ^ 2))

-- @site Cauchy.cdf_real
/-- the derivative of the generated cdf is the textbook Cauchy density, at every x -/
theorem Cauchy_cdf_deriv_spec (d : Gen.Cauchy R) (x : ℝ) (hs : 0 < d.scale.val) :
    HasDerivAt (fun t : ℝ => (Gen.Cauchy.cdf_real d ⟨t⟩).val) (cauchyPdf d.loc.val d.scale.val x) x := by
  have hfun : (fun t : ℝ => (Gen.Cauchy.cdf_real d ⟨t⟩).val) =
      fun t => 1 / π * Real.arctan ((t - d.loc.val) / d.scale.val) + 1 / 2 := by
    funext t; exact Cauchy_cdf_eq d t
  rw [hfun]
  have h1 : HasDerivAt (fun t : ℝ => (t - d.loc.val) / d.scale.val) (1 / d.scale.val) x :=
    ((hasDerivAt_id x).sub_const d.loc.val).div_const d.scale.val
  have h2 := ((h1.arctan).const_mul (1 / π)).add_const (1 / 2)
  refine h2.congr_deriv ?_
  have hpi : π ≠ 0 := Real.pi_ne_zero
  have h3 : (1 + ((x - d.loc.val) / d.scale.val) ^ 2) ≠ 0 := by positivity
  unfold cauchyPdf
  field_simp

/- Full statement (FALSE on `R` outside the window below, because `Gen.log1pexp` — misc/func.rs — switches to the
   approximations `exp z` for z ≤ -37 and is not exactly `log (1 + exp z)` there; and at x = loc the generated
   `ln_f` evaluates `ln 0`):
     Cauchy_cdf_deriv (hs : 0 < scale) :
       HasDerivAt (fun t => (cdf_real d ⟨t⟩).val) (exp (ln_f_real d ⟨x⟩).val) x                              -/
-- @site Cauchy.cdf_real
/-- cdf' = exp(ln_f) wherever `log1pexp` is exact: e⁻¹⁸ ≤ |x - loc| / scale ≤ e¹⁸ -/
theorem Cauchy_cdf_deriv_partial (d : Gen.Cauchy R) (x : ℝ) (hs : 0 < d.scale.val)
    (hlo : Real.exp (-18) * d.scale.val ≤ |x - d.loc.val|) (hhi : |x - d.loc.val| ≤ Real.exp 18 * d.scale.val) :
    HasDerivAt (fun t : ℝ => (Gen.Cauchy.cdf_real d ⟨t⟩).val)
      (Real.exp (Gen.Cauchy.ln_f_real d ⟨x⟩).val) x := by
  have habs : 0 < |x - d.loc.val| := lt_of_lt_of_le (by positivity) hlo
  have hne : x - d.loc.val ≠ 0 := abs_pos.mp habs
  set u : ℝ := 2 * (Real.log |x - d.loc.val| - Real.log d.scale.val) with hu
  have hu1 : -36 ≤ u := by
    have := Real.log_le_log (by positivity) hlo
    rw [Real.log_mul (Real.exp_pos _).ne' hs.ne', Real.log_exp] at this
    simp only [hu]; linarith
  have hu2 : u ≤ 36 := by
    have := Real.log_le_log habs hhi
    rw [Real.log_mul (Real.exp_pos _).ne' hs.ne', Real.log_exp] at this
    simp only [hu]; linarith
  have hexpu : Real.exp u = ((x - d.loc.val) / d.scale.val) ^ 2 := by
    rw [hu, ← Real.log_div habs.ne' hs.ne', mul_comm, Real.exp_mul, Real.exp_log (div_pos habs hs),
      ← abs_of_pos hs, ← abs_div, abs_of_pos hs]
    rw [show (2:ℝ) = ((2:ℕ):ℝ) by norm_num, Real.rpow_natCast, sq_abs]
  have hln : (Gen.Cauchy.ln_f_real d ⟨x⟩).val =
      -(Real.log d.scale.val + Real.log (1 + Real.exp u)) - Real.log π := by
    simp only [Gen.Cauchy.ln_f_real, Gen.logaddexp, RealLike.gt, mulAdd]
    by_cases hc : u < 0
    · have hc' : (RealLike.lt ((2.0 : R) * (RealLike.ln (RealLike.abs ((⟨x⟩ : R) - d.loc)) - RealLike.ln d.scale)
          + RealLike.ln d.scale) (RealLike.ln d.scale)) = true := by
        rw [R.lt_iff]; simp only [R.add_val, R.mul_val, R.sub_val, R.ln_val, R.abs_val, two_val]; linarith
      rw [if_pos hc']
      simp only [R.neg_val, R.sub_val, R.add_val, R.lnPi_val, R.ln_val]
      rw [log1pexp_val]
      · simp only [R.add_val, R.mul_val, R.sub_val, R.ln_val, R.abs_val, two_val]
        rw [show 2 * (Real.log |x - d.loc.val| - Real.log d.scale.val) + Real.log d.scale.val
          - Real.log d.scale.val = u by simp only [hu]; ring]
      · simp only [R.add_val, R.mul_val, R.sub_val, R.ln_val, R.abs_val, two_val]; linarith
      · simp only [R.add_val, R.mul_val, R.sub_val, R.ln_val, R.abs_val, two_val]; linarith
    · have hc' : ¬ (RealLike.lt ((2.0 : R) * (RealLike.ln (RealLike.abs ((⟨x⟩ : R) - d.loc)) - RealLike.ln d.scale)
          + RealLike.ln d.scale) (RealLike.ln d.scale)) = true := by
        rw [R.lt_iff]; simp only [R.add_val, R.mul_val, R.sub_val, R.ln_val, R.abs_val, two_val]; linarith
      rw [if_neg hc']
      by_cases hc0 : 0 < u
      · have hc'' : (RealLike.lt (RealLike.ln d.scale) ((2.0 : R) * (RealLike.ln (RealLike.abs ((⟨x⟩ : R) - d.loc))
            - RealLike.ln d.scale) + RealLike.ln d.scale)) = true := by
          rw [R.lt_iff]; simp only [R.add_val, R.mul_val, R.sub_val, R.ln_val, R.abs_val, two_val]; linarith
        rw [if_pos hc'']
        simp only [R.neg_val, R.sub_val, R.add_val, R.lnPi_val, R.ln_val]
        rw [log1pexp_val]
        · simp only [R.add_val, R.mul_val, R.sub_val, R.ln_val, R.abs_val, two_val]
          rw [show Real.log d.scale.val - (2 * (Real.log |x - d.loc.val| - Real.log d.scale.val)
            + Real.log d.scale.val) = -u by simp only [hu]; ring,
            show 2 * (Real.log |x - d.loc.val| - Real.log d.scale.val) + Real.log d.scale.val
              = u + Real.log d.scale.val by simp only [hu]]
          have : Real.log (1 + Real.exp u) = u + Real.log (1 + Real.exp (-u)) := by
            rw [Real.exp_neg, ← Real.log_exp u, ← Real.log_mul (Real.exp_pos u).ne' (by positivity), Real.log_exp]
            congr 1; field_simp; ring
          rw [this]; ring
        · simp only [R.add_val, R.mul_val, R.sub_val, R.ln_val, R.abs_val, two_val]; linarith
        · simp only [R.add_val, R.mul_val, R.sub_val, R.ln_val, R.abs_val, two_val]; linarith
      · -- equal arguments of `logaddexp` (|x - loc| = scale): the repaired code returns `ln scale + ln 2`
        have hu0 : u = 0 := le_antisymm (not_lt.mp hc0) (not_lt.mp hc)
        have hc'' : ¬ (RealLike.lt (RealLike.ln d.scale) ((2.0 : R) * (RealLike.ln (RealLike.abs ((⟨x⟩ : R) - d.loc))
            - RealLike.ln d.scale) + RealLike.ln d.scale)) = true := by
          rw [R.lt_iff]; simp only [R.add_val, R.mul_val, R.sub_val, R.ln_val, R.abs_val, two_val]; linarith
        rw [if_neg hc'']
        simp only [R.neg_val, R.sub_val, R.add_val, R.lnPi_val, R.ln_val, R.ln2_val]
        rw [hu0, Real.exp_zero]; norm_num
  have hval : Real.exp (Gen.Cauchy.ln_f_real d ⟨x⟩).val = cauchyPdf d.loc.val d.scale.val x := by
    have h1 : (0:ℝ) < 1 + Real.exp u := by positivity
    rw [hln, Real.exp_sub, Real.exp_neg, Real.exp_add, Real.exp_log hs, Real.exp_log h1, Real.exp_log Real.pi_pos,
      hexpu]
    unfold cauchyPdf
    have hpi : π ≠ 0 := Real.pi_ne_zero
    have h3 : (1 + ((x - d.loc.val) / d.scale.val) ^ 2) ≠ 0 := by positivity
    field_simp
  rw [hval]
  exact Cauchy_cdf_deriv_spec d x hs

example : HasDerivAt (fun t : ℝ => (Gen.Cauchy.cdf_real (⟨⟨1⟩, ⟨2⟩⟩ : Gen.Cauchy R) ⟨t⟩).val)
    (Real.exp (Gen.Cauchy.ln_f_real (⟨⟨1⟩, ⟨2⟩⟩ : Gen.Cauchy R) ⟨3⟩).val) 3 := by
  refine Cauchy_cdf_deriv_partial ⟨⟨1⟩, ⟨2⟩⟩ 3 (by norm_num) ?_ ?_ <;> norm_num

-- @site Cauchy.cdf_real
theorem Cauchy_cdf_mono (d : Gen.Cauchy R) (hs : 0 < d.scale.val) :
    Monotone (fun t : ℝ => (Gen.Cauchy.cdf_real d ⟨t⟩).val) := by
  intro s t hst
  simp only [Cauchy_cdf_eq]
  have h1 : (s - d.loc.val) / d.scale.val ≤ (t - d.loc.val) / d.scale.val :=
    div_le_div_of_nonneg_right (by linarith) hs.le
  have h2 := Real.arctan_strictMono.monotone h1
  have h3 : 0 ≤ 1 / π := by positivity
  nlinarith

-- @site Cauchy.cdf_real
theorem Cauchy_cdf_range (d : Gen.Cauchy R) (x : ℝ) :
    0 ≤ (Gen.Cauchy.cdf_real d ⟨x⟩).val ∧ (Gen.Cauchy.cdf_real d ⟨x⟩).val ≤ 1 := by
  rw [Cauchy_cdf_eq]
  have h1 := Real.neg_pi_div_two_lt_arctan ((x - d.loc.val) / d.scale.val)
  have h2 := Real.arctan_lt_pi_div_two ((x - d.loc.val) / d.scale.val)
  have hpi := Real.pi_pos
  constructor
  · have : -(1/2) ≤ 1 / π * Real.arctan ((x - d.loc.val) / d.scale.val) := by
      rw [div_mul_eq_mul_div, one_mul, le_div_iff₀ hpi]; linarith
    linarith
  · have : 1 / π * Real.arctan ((x - d.loc.val) / d.scale.val) ≤ 1/2 := by
      rw [div_mul_eq_mul_div, one_mul, div_le_iff₀ hpi]; linarith
    linarith

-- @site Cauchy.cdf_real
theorem Cauchy_cdf_tendsto_top (d : Gen.Cauchy R) (hs : 0 < d.scale.val) :
    Tendsto (fun t : ℝ => (Gen.Cauchy.cdf_real d ⟨t⟩).val) atTop (𝓝 1) := by
  simp only [Cauchy_cdf_eq]
  have h1 : Tendsto (fun t : ℝ => (t - d.loc.val) / d.scale.val) atTop atTop :=
    (tendsto_atTop_add_const_right atTop (-d.loc.val) tendsto_id).atTop_div_const hs
  have h2 : Tendsto (fun t : ℝ => Real.arctan ((t - d.loc.val) / d.scale.val)) atTop (𝓝 (π / 2)) :=
    (Real.tendsto_arctan_atTop.mono_right nhdsWithin_le_nhds).comp h1
  have h3 := (h2.const_mul (1 / π)).add_const (1 / 2)
  have : 1 / π * (π / 2) + 1 / 2 = 1 := by field_simp; norm_num
  rwa [this] at h3

-- @site Cauchy.cdf_real
theorem Cauchy_cdf_tendsto_bot (d : Gen.Cauchy R) (hs : 0 < d.scale.val) :
    Tendsto (fun t : ℝ => (Gen.Cauchy.cdf_real d ⟨t⟩).val) atBot (𝓝 0) := by
  simp only [Cauchy_cdf_eq]
  have h1 : Tendsto (fun t : ℝ => (t - d.loc.val) / d.scale.val) atBot atBot :=
    (tendsto_atBot_add_const_right atBot (-d.loc.val) tendsto_id).atBot_div_const hs
  have h2 : Tendsto (fun t : ℝ => Real.arctan ((t - d.loc.val) / d.scale.val)) atBot (𝓝 (-(π / 2))) :=
    (Real.tendsto_arctan_atBot.mono_right nhdsWithin_le_nhds).comp h1
  have h3 := (h2.const_mul (1 / π)).add_const (1 / 2)
  have : 1 / π * (-(π / 2)) + 1 / 2 = 0 := by field_simp; norm_num
  rwa [this] at h3

-- @site Cauchy.sf_real
theorem Cauchy_sf (d : Gen.Cauchy R) (x : R) :
    (Gen.Cauchy.sf_real d x).val = 1 - (Gen.Cauchy.cdf_real d x).val := by
  simp only [Gen.Cauchy.sf_real, R.sub_val, one_val]

/-! ### Laplace (b > 0, support ℝ) -/

-- @site Laplace.cdf_real
theorem Laplace_cdf_deriv (d : Gen.Laplace R) (x : ℝ) (hb : 0 < d.b.val) :
    HasDerivAt (fun t : ℝ => (Gen.Laplace.cdf_real d ⟨t⟩).val)
      (Real.exp (Gen.Laplace.ln_f_real d ⟨x⟩).val) x := by
  have hln : (Gen.Laplace.ln_f_real d ⟨x⟩).val =
      -|x - d.mu.val| / d.b.val + (-Real.log d.b.val) + (-Real.log 2) := by
    simp only [Gen.Laplace.ln_f_real, R.sub_val, R.div_val, R.neg_val, R.abs_val, R.ln_val, R.ln2_val]
    ring
  have hval : Real.exp (Gen.Laplace.ln_f_real d ⟨x⟩).val =
      Real.exp (-|x - d.mu.val| / d.b.val) / (2 * d.b.val) := by
    rw [hln, Real.exp_add, Real.exp_add, Real.exp_neg, Real.exp_neg, Real.exp_log hb,
      Real.exp_log (by norm_num : (0:ℝ) < 2)]
    field_simp
  rw [hval]
  -- the two branches and their derivatives
  have hg1 : ∀ y : ℝ, HasDerivAt (fun t : ℝ => 1 / 2 * Real.exp ((t - d.mu.val) / d.b.val))
      (Real.exp ((y - d.mu.val) / d.b.val) / (2 * d.b.val)) y := by
    intro y
    have h := ((((hasDerivAt_id y).sub_const d.mu.val).div_const d.b.val).exp).const_mul (1 / 2 : ℝ)
    refine h.congr_deriv ?_
    simp only [id]; field_simp
  have hg2 : ∀ y : ℝ, HasDerivAt (fun t : ℝ => 1 - 1 / 2 * Real.exp (-(t - d.mu.val) / d.b.val))
      (Real.exp (-(y - d.mu.val) / d.b.val) / (2 * d.b.val)) y := by
    intro y
    have h := (((((hasDerivAt_id y).sub_const d.mu.val).fun_neg.div_const d.b.val).exp).const_mul
      (1 / 2 : ℝ)).const_sub 1
    refine h.congr_deriv ?_
    simp only [id]; field_simp
  rcases lt_trichotomy x d.mu.val with hlt | heq | hgt
  · rw [abs_of_neg (by linarith : x - d.mu.val < 0), neg_neg]
    refine (hg1 x).congr_of_eventuallyEq ?_
    filter_upwards [Iio_mem_nhds hlt] with t ht
    rw [Laplace_cdf_eq, if_pos (Set.mem_Iio.mp ht)]
  · subst heq
    simp only [sub_self, abs_zero, neg_zero, zero_div]
    have h1 : HasDerivWithinAt (fun t : ℝ => (Gen.Laplace.cdf_real d ⟨t⟩).val)
        (Real.exp 0 / (2 * d.b.val)) (Set.Iic d.mu.val) d.mu.val := by
      have := (hg1 d.mu.val).hasDerivWithinAt (s := Set.Iic d.mu.val)
      simp only [sub_self, zero_div] at this
      refine this.congr ?_ ?_
      · intro t ht
        rw [Laplace_cdf_eq]
        rcases lt_or_eq_of_le (Set.mem_Iic.mp ht) with h | h
        · rw [if_pos h]
        · rw [h, if_neg (lt_irrefl _)]; simp; norm_num
      · rw [Laplace_cdf_eq, if_neg (lt_irrefl _)]; simp; norm_num
    have h2 : HasDerivWithinAt (fun t : ℝ => (Gen.Laplace.cdf_real d ⟨t⟩).val)
        (Real.exp 0 / (2 * d.b.val)) (Set.Ici d.mu.val) d.mu.val := by
      have := (hg2 d.mu.val).hasDerivWithinAt (s := Set.Ici d.mu.val)
      simp only [sub_self, neg_zero, zero_div] at this
      refine this.congr ?_ ?_
      · intro t ht
        rw [Laplace_cdf_eq, if_neg (not_lt.mpr (Set.mem_Ici.mp ht))]
      · rw [Laplace_cdf_eq, if_neg (lt_irrefl _)]
    have h3 := h1.union h2
    rwa [Set.Iic_union_Ici, hasDerivWithinAt_univ] at h3
  · rw [abs_of_pos (by linarith : 0 < x - d.mu.val)]
    refine (hg2 x).congr_of_eventuallyEq ?_
    filter_upwards [Ioi_mem_nhds hgt] with t ht
    rw [Laplace_cdf_eq, if_neg (not_lt.mpr (le_of_lt (Set.mem_Ioi.mp ht)))]

example : HasDerivAt (fun t : ℝ => (Gen.Laplace.cdf_real (⟨⟨1⟩, ⟨2⟩⟩ : Gen.Laplace R) ⟨t⟩).val)
    (Real.exp (Gen.Laplace.ln_f_real (⟨⟨1⟩, ⟨2⟩⟩ : Gen.Laplace R) ⟨1⟩).val) 1 :=
  Laplace_cdf_deriv ⟨⟨1⟩, ⟨2⟩⟩ 1 (by norm_num)

-- @site Laplace.cdf_real
theorem Laplace_cdf_range (d : Gen.Laplace R) (x : ℝ) (hb : 0 < d.b.val) :
    0 ≤ (Gen.Laplace.cdf_real d ⟨x⟩).val ∧ (Gen.Laplace.cdf_real d ⟨x⟩).val ≤ 1 := by
  rw [Laplace_cdf_eq]
  split_ifs with h
  · have h1 : Real.exp ((x - d.mu.val) / d.b.val) ≤ 1 :=
      Real.exp_le_one_iff.mpr (div_nonpos_of_nonpos_of_nonneg (by linarith) hb.le)
    have h2 := Real.exp_pos ((x - d.mu.val) / d.b.val)
    constructor <;> linarith
  · have h1 : Real.exp (-(x - d.mu.val) / d.b.val) ≤ 1 :=
      Real.exp_le_one_iff.mpr (div_nonpos_of_nonpos_of_nonneg (by linarith) hb.le)
    have h2 := Real.exp_pos (-(x - d.mu.val) / d.b.val)
    constructor <;> linarith

-- @site Laplace.cdf_real
theorem Laplace_cdf_mono (d : Gen.Laplace R) (hb : 0 < d.b.val) :
    Monotone (fun t : ℝ => (Gen.Laplace.cdf_real d ⟨t⟩).val) := by
  intro s t hst
  simp only [Laplace_cdf_eq]
  split_ifs with h1 h2 h2
  · have : Real.exp ((s - d.mu.val) / d.b.val) ≤ Real.exp ((t - d.mu.val) / d.b.val) :=
      Real.exp_le_exp.mpr (div_le_div_of_nonneg_right (by linarith) hb.le)
    linarith
  · have a1 : Real.exp ((s - d.mu.val) / d.b.val) ≤ 1 :=
      Real.exp_le_one_iff.mpr (div_nonpos_of_nonpos_of_nonneg (by linarith) hb.le)
    have a2 : Real.exp (-(t - d.mu.val) / d.b.val) ≤ 1 :=
      Real.exp_le_one_iff.mpr (div_nonpos_of_nonpos_of_nonneg (by linarith) hb.le)
    linarith
  · exfalso; linarith
  · have : Real.exp (-(t - d.mu.val) / d.b.val) ≤ Real.exp (-(s - d.mu.val) / d.b.val) :=
      Real.exp_le_exp.mpr (div_le_div_of_nonneg_right (by linarith) hb.le)
    linarith

-- @site Laplace.cdf_real
theorem Laplace_cdf_tendsto_top (d : Gen.Laplace R) (hb : 0 < d.b.val) :
    Tendsto (fun t : ℝ => (Gen.Laplace.cdf_real d ⟨t⟩).val) atTop (𝓝 1) := by
  have h1 : Tendsto (fun t : ℝ => (t - d.mu.val) / d.b.val) atTop atTop :=
    (tendsto_atTop_add_const_right atTop (-d.mu.val) tendsto_id).atTop_div_const hb
  have h2 := ((Real.tendsto_exp_neg_atTop_nhds_zero.comp h1).const_mul (1 / 2 : ℝ)).const_sub 1
  simp only [mul_zero, sub_zero] at h2
  refine h2.congr' ?_
  filter_upwards [eventually_ge_atTop d.mu.val] with t ht
  rw [Laplace_cdf_eq, if_neg (not_lt.mpr ht)]
  simp only [Function.comp_def, neg_div]

-- @site Laplace.cdf_real
theorem Laplace_cdf_tendsto_bot (d : Gen.Laplace R) (hb : 0 < d.b.val) :
    Tendsto (fun t : ℝ => (Gen.Laplace.cdf_real d ⟨t⟩).val) atBot (𝓝 0) := by
  have h1 : Tendsto (fun t : ℝ => (t - d.mu.val) / d.b.val) atBot atBot :=
    (tendsto_atBot_add_const_right atBot (-d.mu.val) tendsto_id).atBot_div_const hb
  have h2 := (Real.tendsto_exp_atBot.comp h1).const_mul (1 / 2 : ℝ)
  simp only [mul_zero] at h2
  refine h2.congr' ?_
  filter_upwards [eventually_lt_atBot d.mu.val] with t ht
  rw [Laplace_cdf_eq, if_pos (Set.mem_Iio.mp ht)]
  simp only [Function.comp_def]

-- @site Laplace.sf_real
theorem Laplace_sf (d : Gen.Laplace R) (x : R) :
    (Gen.Laplace.sf_real d x).val = 1 - (Gen.Laplace.cdf_real d x).val := by
  simp only [Gen.Laplace.sf_real, R.sub_val, one_val]

/-! ### Kumaraswamy (a > 0, b > 0, support (0, 1)) -/

-- @site Kumaraswamy.cdf_real
theorem Kumaraswamy_cdf_deriv (d : Gen.Kumaraswamy R) (x : ℝ) (ha : 0 < d.a.val) (hb : 0 < d.b.val)
    (hx0 : 0 < x) (hx1 : x < 1) :
    HasDerivAt (fun t : ℝ => (Gen.Kumaraswamy.cdf_real d ⟨t⟩).val)
      (Real.exp (Gen.Kumaraswamy.ln_f_real d ⟨x⟩).val) x := by
  have hfun : (fun t : ℝ => (Gen.Kumaraswamy.cdf_real d ⟨t⟩).val) =
      fun t => 1 - (1 - t ^ d.a.val) ^ d.b.val := by
    funext t; exact Kumaraswamy_cdf_eq d t
  have hxa : x ^ d.a.val < 1 := Real.rpow_lt_one hx0.le hx1 ha
  have h1pos : 0 < 1 - x ^ d.a.val := by linarith
  have hln : (Gen.Kumaraswamy.ln_f_real d ⟨x⟩).val =
      Real.log (1 - x ^ d.a.val) * (d.b.val - 1) + (Real.log x * (d.a.val - 1)
        + (Real.log d.a.val + Real.log d.b.val)) := by
    simp only [Gen.Kumaraswamy.ln_f_real, Gen.Kumaraswamy.ab_ln, mulAdd, R.add_val, R.mul_val, R.sub_val,
      R.ln_val, R.powf_val, one_val]
    ring
  rw [hfun, hln, Real.exp_add, Real.exp_add, Real.exp_add, Real.exp_mul, Real.exp_mul, Real.exp_log h1pos,
    Real.exp_log hx0, Real.exp_log ha, Real.exp_log hb]
  have h1 : HasDerivAt (fun t : ℝ => t ^ d.a.val) (d.a.val * x ^ (d.a.val - 1)) x :=
    Real.hasDerivAt_rpow_const (Or.inl hx0.ne')
  have h2 := ((h1.const_sub 1).rpow_const (p := d.b.val) (Or.inl h1pos.ne')).const_sub 1
  exact h2.congr_deriv (by ring)

example : HasDerivAt (fun t : ℝ => (Gen.Kumaraswamy.cdf_real (⟨⟨2⟩, ⟨3⟩⟩ : Gen.Kumaraswamy R) ⟨t⟩).val)
    (Real.exp (Gen.Kumaraswamy.ln_f_real (⟨⟨2⟩, ⟨3⟩⟩ : Gen.Kumaraswamy R) ⟨1/2⟩).val) (1/2) :=
  Kumaraswamy_cdf_deriv ⟨⟨2⟩, ⟨3⟩⟩ (1/2) (by norm_num) (by norm_num) (by norm_num) (by norm_num)

-- @site Kumaraswamy.cdf_real
theorem Kumaraswamy_cdf_mono (d : Gen.Kumaraswamy R) (ha : 0 < d.a.val) (hb : 0 < d.b.val) :
    MonotoneOn (fun t : ℝ => (Gen.Kumaraswamy.cdf_real d ⟨t⟩).val) (Set.Icc 0 1) := by
  intro s hs t ht hst
  simp only [Kumaraswamy_cdf_eq]
  have h1 : s ^ d.a.val ≤ t ^ d.a.val := Real.rpow_le_rpow hs.1 hst ha.le
  have h2 : t ^ d.a.val ≤ 1 := Real.rpow_le_one ht.1 ht.2 ha.le
  have h3 : (1 - t ^ d.a.val) ^ d.b.val ≤ (1 - s ^ d.a.val) ^ d.b.val :=
    Real.rpow_le_rpow (by linarith) (by linarith) hb.le
  linarith

-- @site Kumaraswamy.cdf_real
theorem Kumaraswamy_cdf_range (d : Gen.Kumaraswamy R) (x : ℝ) (ha : 0 < d.a.val) (hb : 0 < d.b.val)
    (hx0 : 0 ≤ x) (hx1 : x ≤ 1) :
    0 ≤ (Gen.Kumaraswamy.cdf_real d ⟨x⟩).val ∧ (Gen.Kumaraswamy.cdf_real d ⟨x⟩).val ≤ 1 := by
  rw [Kumaraswamy_cdf_eq]
  have h1 : 0 ≤ x ^ d.a.val := Real.rpow_nonneg hx0 _
  have h2 : x ^ d.a.val ≤ 1 := Real.rpow_le_one hx0 hx1 ha.le
  have h3 : 0 ≤ (1 - x ^ d.a.val) ^ d.b.val := Real.rpow_nonneg (by linarith) _
  have h4 : (1 - x ^ d.a.val) ^ d.b.val ≤ 1 := Real.rpow_le_one (by linarith) (by linarith) hb.le
  constructor <;> linarith

-- @site Kumaraswamy.cdf_real
theorem Kumaraswamy_cdf_bot (d : Gen.Kumaraswamy R) (ha : 0 < d.a.val) :
    (Gen.Kumaraswamy.cdf_real d ⟨0⟩).val = 0 := by
  rw [Kumaraswamy_cdf_eq, Real.zero_rpow ha.ne']; simp

-- @site Kumaraswamy.cdf_real
theorem Kumaraswamy_cdf_top (d : Gen.Kumaraswamy R) (hb : 0 < d.b.val) :
    (Gen.Kumaraswamy.cdf_real d ⟨1⟩).val = 1 := by
  rw [Kumaraswamy_cdf_eq, Real.one_rpow, sub_self, Real.zero_rpow hb.ne']; simp

-- @site Kumaraswamy.sf_real
theorem Kumaraswamy_sf (d : Gen.Kumaraswamy R) (x : R) :
    (Gen.Kumaraswamy.sf_real d x).val = 1 - (Gen.Kumaraswamy.cdf_real d x).val := by
  simp only [Gen.Kumaraswamy.sf_real, R.sub_val, one_val]

/-! ### UnitPowerLaw (alpha > 0, support (0, 1)) -/

-- @site UnitPowerLaw.cdf_real
theorem UnitPowerLaw_cdf_deriv (d : Gen.UnitPowerLaw R) (x : ℝ) (ha : 0 < d.alpha.val) (hx0 : 0 < x) :
    HasDerivAt (fun t : ℝ => (Gen.UnitPowerLaw.cdf_real d ⟨t⟩).val)
      (Real.exp (Gen.UnitPowerLaw.ln_f_real d ⟨x⟩).val) x := by
  have hfun : (fun t : ℝ => (Gen.UnitPowerLaw.cdf_real d ⟨t⟩).val) = fun t => t ^ d.alpha.val := by
    funext t; exact UnitPowerLaw_cdf_eq d t
  have hln : (Gen.UnitPowerLaw.ln_f_real d ⟨x⟩).val =
      Real.log x * (d.alpha.val - 1) + Real.log d.alpha.val := by
    simp only [Gen.UnitPowerLaw.ln_f_real, Gen.UnitPowerLaw.alpha_ln, mulAdd, R.add_val, R.mul_val, R.sub_val,
      R.ln_val, one_val]
  rw [hfun, hln, Real.exp_add, Real.exp_mul, Real.exp_log hx0, Real.exp_log ha]
  exact (Real.hasDerivAt_rpow_const (Or.inl hx0.ne')).congr_deriv (by ring)

example : HasDerivAt (fun t : ℝ => (Gen.UnitPowerLaw.cdf_real (⟨⟨3⟩⟩ : Gen.UnitPowerLaw R) ⟨t⟩).val)
    (Real.exp (Gen.UnitPowerLaw.ln_f_real (⟨⟨3⟩⟩ : Gen.UnitPowerLaw R) ⟨1/2⟩).val) (1/2) :=
  UnitPowerLaw_cdf_deriv ⟨⟨3⟩⟩ (1/2) (by norm_num) (by norm_num)

-- @site UnitPowerLaw.cdf_real
theorem UnitPowerLaw_cdf_mono (d : Gen.UnitPowerLaw R) (ha : 0 < d.alpha.val) :
    MonotoneOn (fun t : ℝ => (Gen.UnitPowerLaw.cdf_real d ⟨t⟩).val) (Set.Ici 0) := by
  intro s hs t _ hst
  simp only [UnitPowerLaw_cdf_eq]
  exact Real.rpow_le_rpow hs hst ha.le

-- @site UnitPowerLaw.cdf_real
theorem UnitPowerLaw_cdf_range (d : Gen.UnitPowerLaw R) (x : ℝ) (ha : 0 < d.alpha.val)
    (hx0 : 0 ≤ x) (hx1 : x ≤ 1) :
    0 ≤ (Gen.UnitPowerLaw.cdf_real d ⟨x⟩).val ∧ (Gen.UnitPowerLaw.cdf_real d ⟨x⟩).val ≤ 1 := by
  rw [UnitPowerLaw_cdf_eq]
  exact ⟨Real.rpow_nonneg hx0 _, Real.rpow_le_one hx0 hx1 ha.le⟩

-- @site UnitPowerLaw.cdf_real
theorem UnitPowerLaw_cdf_bot (d : Gen.UnitPowerLaw R) (ha : 0 < d.alpha.val) :
    (Gen.UnitPowerLaw.cdf_real d ⟨0⟩).val = 0 := by
  rw [UnitPowerLaw_cdf_eq, Real.zero_rpow ha.ne']

-- @site UnitPowerLaw.cdf_real
theorem UnitPowerLaw_cdf_top (d : Gen.UnitPowerLaw R) : (Gen.UnitPowerLaw.cdf_real d ⟨1⟩).val = 1 := by
  rw [UnitPowerLaw_cdf_eq, Real.one_rpow]

-- @site UnitPowerLaw.sf_real
theorem UnitPowerLaw_sf (d : Gen.UnitPowerLaw R) (x : R) :
    (Gen.UnitPowerLaw.sf_real d x).val = 1 - (Gen.UnitPowerLaw.cdf_real d x).val := by
  simp only [Gen.UnitPowerLaw.sf_real, R.sub_val, one_val]

/-! ### Pareto (shape > 0, scale > 0, support [scale, ∞)) -/

-- @site Pareto.cdf_real
theorem Pareto_cdf_deriv (d : Gen.Pareto R) (x : ℝ) (hk : 0 < d.shape.val) (hs : 0 < d.scale.val)
    (hx : d.scale.val < x) :
    HasDerivAt (fun t : ℝ => (Gen.Pareto.cdf_real d ⟨t⟩).val)
      (Real.exp (Gen.Pareto.ln_f_real d ⟨x⟩).val) x := by
  have hx0 : 0 < x := lt_trans hs hx
  have hfun : (fun t : ℝ => (Gen.Pareto.cdf_real d ⟨t⟩).val) =
      fun t => 1 - (d.scale.val / t) ^ d.shape.val := by
    funext t; exact Pareto_cdf_eq d t
  have hln : (Gen.Pareto.ln_f_real d ⟨x⟩).val =
      Real.log x * (-(d.shape.val + 1)) + (Real.log d.scale.val * d.shape.val + Real.log d.shape.val) := by
    simp only [Gen.Pareto.ln_f_real, mulAdd, R.add_val, R.mul_val, R.neg_val, R.ln_val, one_val]
    ring
  rw [hfun, hln, Real.exp_add, Real.exp_add, Real.exp_mul, Real.exp_mul, Real.exp_log hx0, Real.exp_log hs,
    Real.exp_log hk]
  have h1 : HasDerivAt (fun t : ℝ => d.scale.val / t) (-d.scale.val / x ^ 2) x := by
    have := (hasDerivAt_const x d.scale.val).div (hasDerivAt_id x) hx0.ne'
    exact this.congr_deriv (by simp)
  have hq : 0 < d.scale.val / x := div_pos hs hx0
  have h2 := ((h1.rpow_const (p := d.shape.val) (Or.inl hq.ne')).const_sub 1)
  refine h2.congr_deriv ?_
  rw [Real.rpow_neg hx0.le, Real.rpow_add_one hx0.ne', Real.rpow_sub_one hq.ne',
    Real.div_rpow hs.le hx0.le]
  have hxk : 0 < x ^ d.shape.val := Real.rpow_pos_of_pos hx0 _
  field_simp

example : HasDerivAt (fun t : ℝ => (Gen.Pareto.cdf_real (⟨⟨3⟩, ⟨2⟩⟩ : Gen.Pareto R) ⟨t⟩).val)
    (Real.exp (Gen.Pareto.ln_f_real (⟨⟨3⟩, ⟨2⟩⟩ : Gen.Pareto R) ⟨5⟩).val) 5 :=
  Pareto_cdf_deriv ⟨⟨3⟩, ⟨2⟩⟩ 5 (by norm_num) (by norm_num) (by norm_num)

-- @site Pareto.cdf_real
theorem Pareto_cdf_mono (d : Gen.Pareto R) (hk : 0 < d.shape.val) (hs : 0 < d.scale.val) :
    MonotoneOn (fun t : ℝ => (Gen.Pareto.cdf_real d ⟨t⟩).val) (Set.Ici d.scale.val) := by
  intro s hs' t _ hst
  simp only [Pareto_cdf_eq]
  have hs0 : 0 < s := lt_of_lt_of_le hs hs'
  have h1 : d.scale.val / t ≤ d.scale.val / s := div_le_div_of_nonneg_left hs.le hs0 hst
  have h2 : (d.scale.val / t) ^ d.shape.val ≤ (d.scale.val / s) ^ d.shape.val :=
    Real.rpow_le_rpow (div_nonneg hs.le (by linarith)) h1 hk.le
  linarith

-- @site Pareto.cdf_real
theorem Pareto_cdf_range (d : Gen.Pareto R) (x : ℝ) (hk : 0 < d.shape.val) (hs : 0 < d.scale.val)
    (hx : d.scale.val ≤ x) :
    0 ≤ (Gen.Pareto.cdf_real d ⟨x⟩).val ∧ (Gen.Pareto.cdf_real d ⟨x⟩).val ≤ 1 := by
  rw [Pareto_cdf_eq]
  have hx0 : 0 < x := lt_of_lt_of_le hs hx
  have h1 : 0 ≤ d.scale.val / x := (div_pos hs hx0).le
  have h2 : d.scale.val / x ≤ 1 := (div_le_one hx0).mpr hx
  have h3 : 0 ≤ (d.scale.val / x) ^ d.shape.val := Real.rpow_nonneg h1 _
  have h4 : (d.scale.val / x) ^ d.shape.val ≤ 1 := Real.rpow_le_one h1 h2 hk.le
  constructor <;> linarith

-- @site Pareto.cdf_real
theorem Pareto_cdf_bot (d : Gen.Pareto R) (hs : 0 < d.scale.val) :
    (Gen.Pareto.cdf_real d ⟨d.scale.val⟩).val = 0 := by
  rw [Pareto_cdf_eq, div_self hs.ne', Real.one_rpow, sub_self]

-- @site Pareto.cdf_real
theorem Pareto_cdf_tendsto_top (d : Gen.Pareto R) (hk : 0 < d.shape.val) :
    Tendsto (fun t : ℝ => (Gen.Pareto.cdf_real d ⟨t⟩).val) atTop (𝓝 1) := by
  simp only [Pareto_cdf_eq]
  have h1 : Tendsto (fun t : ℝ => d.scale.val / t) atTop (𝓝 0) := tendsto_const_nhds.div_atTop tendsto_id
  have h2 : Tendsto (fun t : ℝ => (d.scale.val / t) ^ d.shape.val) atTop (𝓝 ((0:ℝ) ^ d.shape.val)) :=
    (Real.continuousAt_rpow_const 0 d.shape.val (Or.inr hk.le)).tendsto.comp h1
  rw [Real.zero_rpow hk.ne'] at h2
  simpa using h2.const_sub 1

-- @site Pareto.sf_real
theorem Pareto_sf (d : Gen.Pareto R) (x : R) :
    (Gen.Pareto.sf_real d x).val = 1 - (Gen.Pareto.cdf_real d x).val := by
  simp only [Gen.Pareto.sf_real, R.sub_val, one_val]

/-! ### Gev (scale > 0; shape = 0: support ℝ; shape ≠ 0: support {x | 1 + shape (x - loc) / scale > 0}) -/

-- @site Gev.cdf_real
/-- Gumbel branch `shape = 0` -/
theorem Gev_cdf_deriv_shape0 (d : Gen.Gev R) (x : ℝ) (hσ : 0 < d.scale.val) (hs : d.shape.val = 0) :
    HasDerivAt (fun t : ℝ => (Gen.Gev.cdf_real d ⟨t⟩).val)
      (Real.exp (Gen.Gev.ln_f_real d ⟨x⟩).val) x := by
  have hfun : (fun t : ℝ => (Gen.Gev.cdf_real d ⟨t⟩).val) =
      fun t => Real.exp (-Real.exp ((d.loc.val - t) / d.scale.val)) := by
    funext t; exact Gev_cdf_eq0 d t hs
  have hln : (Gen.Gev.ln_f_real d ⟨x⟩).val =
      (d.loc.val - x) / d.scale.val + (-Real.log d.scale.val)
        + (-Real.exp ((d.loc.val - x) / d.scale.val)) := by
    simp only [Gen.Gev.ln_f_real, Gen.t, mulAdd, R.feq_iff, zero_val, hs, if_true, R.exp_val, R.neg_val,
      R.div_val, R.sub_val, R.add_val, R.mul_val, R.ln_val, one_val, Real.log_exp]
    ring
  rw [hfun, hln, Real.exp_add, Real.exp_add, Real.exp_neg (Real.log _), Real.exp_log hσ]
  have h1 : HasDerivAt (fun t : ℝ => (d.loc.val - t) / d.scale.val) (-1 / d.scale.val) x :=
    ((hasDerivAt_id x).const_sub d.loc.val).div_const d.scale.val
  have h2 := (h1.exp.fun_neg).exp
  exact h2.congr_deriv (by field_simp)

example : HasDerivAt (fun t : ℝ => (Gen.Gev.cdf_real (⟨⟨1⟩, ⟨2⟩, ⟨0⟩⟩ : Gen.Gev R) ⟨t⟩).val)
    (Real.exp (Gen.Gev.ln_f_real (⟨⟨1⟩, ⟨2⟩, ⟨0⟩⟩ : Gen.Gev R) ⟨3⟩).val) 3 :=
  Gev_cdf_deriv_shape0 ⟨⟨1⟩, ⟨2⟩, ⟨0⟩⟩ 3 (by norm_num) rfl

-- @site Gev.cdf_real
/-- branch `shape ≠ 0` (Fréchet / Weibull type), on the interior of the support -/
theorem Gev_cdf_deriv_shape_ne0 (d : Gen.Gev R) (x : ℝ) (hσ : 0 < d.scale.val) (hs : d.shape.val ≠ 0)
    (hx : 0 < 1 + d.shape.val * (x - d.loc.val) / d.scale.val) :
    HasDerivAt (fun t : ℝ => (Gen.Gev.cdf_real d ⟨t⟩).val)
      (Real.exp (Gen.Gev.ln_f_real d ⟨x⟩).val) x := by
  have hfun : (fun t : ℝ => (Gen.Gev.cdf_real d ⟨t⟩).val) =
      fun t => Real.exp (-(1 + d.shape.val * (t - d.loc.val) / d.scale.val) ^ (-1 / d.shape.val)) := by
    funext t; exact Gev_cdf_eq1 d t hs
  set w : ℝ := 1 + d.shape.val * (x - d.loc.val) / d.scale.val with hw
  have hln : (Gen.Gev.ln_f_real d ⟨x⟩).val =
      Real.log w * ((d.shape.val + 1) * (-1 / d.shape.val)) + (-Real.log d.scale.val)
        + (-w ^ (-1 / d.shape.val)) := by
    simp only [Gen.Gev.ln_f_real, Gen.t, mulAdd, R.feq_iff, zero_val, hs, if_false, R.neg_val,
      R.div_val, R.sub_val, R.add_val, R.mul_val, R.ln_val, R.powf_val, one_val]
    rw [← hw, Real.log_rpow hx]
    ring
  rw [hfun, hln, Real.exp_add, Real.exp_add, Real.exp_neg (Real.log _), Real.exp_log hσ, Real.exp_mul,
    Real.exp_log hx]
  have h1 : HasDerivAt (fun t : ℝ => 1 + d.shape.val * (t - d.loc.val) / d.scale.val)
      (d.shape.val / d.scale.val) x := by
    have := ((((hasDerivAt_id x).sub_const d.loc.val).const_mul d.shape.val).div_const d.scale.val).const_add 1
    exact this.congr_deriv (by simp)
  have h2 := ((h1.rpow_const (p := -1 / d.shape.val) (Or.inl hx.ne')).fun_neg).exp
  refine h2.congr_deriv ?_
  have he : (d.shape.val + 1) * (-1 / d.shape.val) = -1 / d.shape.val - 1 := by field_simp; ring
  rw [he, ← hw]
  field_simp

example : HasDerivAt (fun t : ℝ => (Gen.Gev.cdf_real (⟨⟨1⟩, ⟨2⟩, ⟨1/2⟩⟩ : Gen.Gev R) ⟨t⟩).val)
    (Real.exp (Gen.Gev.ln_f_real (⟨⟨1⟩, ⟨2⟩, ⟨1/2⟩⟩ : Gen.Gev R) ⟨3⟩).val) 3 :=
  Gev_cdf_deriv_shape_ne0 ⟨⟨1⟩, ⟨2⟩, ⟨1/2⟩⟩ 3 (by norm_num) (by norm_num) (by norm_num)

-- @site Gev.cdf_real
/-- 0 ≤ cdf ≤ 1, both branches (on the support for shape ≠ 0) -/
theorem Gev_cdf_range (d : Gen.Gev R) (x : ℝ)
    (hx : d.shape.val ≠ 0 → 0 ≤ 1 + d.shape.val * (x - d.loc.val) / d.scale.val) :
    0 ≤ (Gen.Gev.cdf_real d ⟨x⟩).val ∧ (Gen.Gev.cdf_real d ⟨x⟩).val ≤ 1 := by
  by_cases hs : d.shape.val = 0
  · rw [Gev_cdf_eq0 d x hs]
    exact ⟨(Real.exp_pos _).le, Real.exp_le_one_iff.mpr (neg_nonpos.mpr (Real.exp_pos _).le)⟩
  · rw [Gev_cdf_eq1 d x hs]
    exact ⟨(Real.exp_pos _).le, Real.exp_le_one_iff.mpr (neg_nonpos.mpr (Real.rpow_nonneg (hx hs) _))⟩

-- @site Gev.cdf_real
theorem Gev_cdf_mono_shape0 (d : Gen.Gev R) (hσ : 0 < d.scale.val) (hs : d.shape.val = 0) :
    Monotone (fun t : ℝ => (Gen.Gev.cdf_real d ⟨t⟩).val) := by
  intro s t hst
  simp only [Gev_cdf_eq0 d _ hs]
  apply Real.exp_le_exp.mpr
  apply neg_le_neg
  exact Real.exp_le_exp.mpr (div_le_div_of_nonneg_right (by linarith) hσ.le)

-- @site Gev.cdf_real
/-- monotone on the support {x | 1 + shape (x - loc)/scale > 0} for shape ≠ 0 -/
theorem Gev_cdf_mono_shape_ne0 (d : Gen.Gev R) (hσ : 0 < d.scale.val) (hs : d.shape.val ≠ 0) :
    MonotoneOn (fun t : ℝ => (Gen.Gev.cdf_real d ⟨t⟩).val)
      {t | 0 < 1 + d.shape.val * (t - d.loc.val) / d.scale.val} := by
  intro s hs' t ht' hst
  have hs' : 0 < 1 + d.shape.val * (s - d.loc.val) / d.scale.val := hs'
  have ht' : 0 < 1 + d.shape.val * (t - d.loc.val) / d.scale.val := ht'
  simp only [Gev_cdf_eq1 d _ hs]
  apply Real.exp_le_exp.mpr
  apply neg_le_neg
  rcases lt_or_gt_of_ne hs with hneg | hpos
  · -- shape < 0: base decreasing, exponent positive
    have hb : 1 + d.shape.val * (t - d.loc.val) / d.scale.val ≤ 1 + d.shape.val * (s - d.loc.val) / d.scale.val := by
      have : d.shape.val * (t - d.loc.val) ≤ d.shape.val * (s - d.loc.val) :=
        mul_le_mul_of_nonpos_left (by linarith) hneg.le
      have := div_le_div_of_nonneg_right this hσ.le
      linarith
    exact Real.rpow_le_rpow ht'.le hb (div_nonneg_of_nonpos (by norm_num) hneg.le)
  · -- shape > 0: base increasing, exponent negative
    have hb : 1 + d.shape.val * (s - d.loc.val) / d.scale.val ≤ 1 + d.shape.val * (t - d.loc.val) / d.scale.val := by
      have : d.shape.val * (s - d.loc.val) ≤ d.shape.val * (t - d.loc.val) :=
        mul_le_mul_of_nonneg_left (by linarith) hpos.le
      have := div_le_div_of_nonneg_right this hσ.le
      linarith
    exact Real.rpow_le_rpow_of_nonpos hs' hb (div_nonpos_of_nonpos_of_nonneg (by norm_num) hpos.le)

-- @site Gev.cdf_real
theorem Gev_cdf_tendsto_top_shape0 (d : Gen.Gev R) (hσ : 0 < d.scale.val) (hs : d.shape.val = 0) :
    Tendsto (fun t : ℝ => (Gen.Gev.cdf_real d ⟨t⟩).val) atTop (𝓝 1) := by
  simp only [Gev_cdf_eq0 d _ hs]
  have h0 : Tendsto (fun t : ℝ => (t - d.loc.val) / d.scale.val) atTop atTop :=
    (tendsto_atTop_add_const_right atTop (-d.loc.val) tendsto_id).atTop_div_const hσ
  have h1 : Tendsto (fun t : ℝ => Real.exp ((d.loc.val - t) / d.scale.val)) atTop (𝓝 0) := by
    refine (Real.tendsto_exp_neg_atTop_nhds_zero.comp h0).congr ?_
    intro t; simp only [Function.comp_def]; congr 1; ring
  have h2 := (Real.continuous_exp.tendsto _).comp h1.neg
  simpa [Function.comp_def] using h2

-- @site Gev.cdf_real
theorem Gev_cdf_tendsto_bot_shape0 (d : Gen.Gev R) (hσ : 0 < d.scale.val) (hs : d.shape.val = 0) :
    Tendsto (fun t : ℝ => (Gen.Gev.cdf_real d ⟨t⟩).val) atBot (𝓝 0) := by
  simp only [Gev_cdf_eq0 d _ hs]
  have h0 : Tendsto (fun t : ℝ => (t - d.loc.val) / d.scale.val) atBot atBot :=
    (tendsto_atBot_add_const_right atBot (-d.loc.val) tendsto_id).atBot_div_const hσ
  have h1 : Tendsto (fun t : ℝ => Real.exp ((d.loc.val - t) / d.scale.val)) atBot atTop := by
    refine (Real.tendsto_exp_atTop.comp (tendsto_neg_atBot_atTop.comp h0)).congr ?_
    intro t; simp only [Function.comp_def]; congr 1; ring
  have h2 := Real.tendsto_exp_neg_atTop_nhds_zero.comp h1
  simpa [Function.comp_def] using h2

/-! ### Gev, shape ≠ 0: limits at the ends of the support -/

-- @site Gev.cdf_real
/-- shape > 0 (Fréchet type): cdf → 1 at +∞ -/
theorem Gev_cdf_tendsto_top_shape_pos (d : Gen.Gev R) (hσ : 0 < d.scale.val) (hs : 0 < d.shape.val) :
    Tendsto (fun t : ℝ => (Gen.Gev.cdf_real d ⟨t⟩).val) atTop (𝓝 1) := by
  simp only [Gev_cdf_eq1 d _ hs.ne']
  have hw : Tendsto (fun t : ℝ => 1 + d.shape.val * (t - d.loc.val) / d.scale.val) atTop atTop :=
    tendsto_atTop_add_const_left atTop 1
      (((tendsto_atTop_add_const_right atTop (-d.loc.val) tendsto_id).const_mul_atTop hs).atTop_div_const hσ)
  have hp : Tendsto (fun t : ℝ => (1 + d.shape.val * (t - d.loc.val) / d.scale.val) ^ (-1 / d.shape.val))
      atTop (𝓝 0) := by
    have := (tendsto_rpow_neg_atTop (y := 1 / d.shape.val) (by positivity)).comp hw
    simpa only [Function.comp_def, neg_div] using this
  have := (Real.continuous_exp.tendsto _).comp hp.neg
  simpa [Function.comp_def] using this

-- @site Gev.cdf_real
/-- shape > 0: cdf → 0 at the lower end `loc - scale/shape` of the support (from inside) -/
theorem Gev_cdf_tendsto_bot_shape_pos (d : Gen.Gev R) (hσ : 0 < d.scale.val) (hs : 0 < d.shape.val) :
    Tendsto (fun t : ℝ => (Gen.Gev.cdf_real d ⟨t⟩).val) (𝓝[>] (d.loc.val - d.scale.val / d.shape.val)) (𝓝 0) := by
  simp only [Gev_cdf_eq1 d _ hs.ne']
  set lo : ℝ := d.loc.val - d.scale.val / d.shape.val with hlo
  have hc : Continuous (fun t : ℝ => 1 + d.shape.val * (t - d.loc.val) / d.scale.val) := by fun_prop
  have h0 : 1 + d.shape.val * (lo - d.loc.val) / d.scale.val = 0 := by
    simp only [hlo]; field_simp; ring
  have hw : Tendsto (fun t : ℝ => 1 + d.shape.val * (t - d.loc.val) / d.scale.val) (𝓝[>] lo) (𝓝[>] 0) := by
    refine tendsto_nhdsWithin_iff.mpr ⟨?_, ?_⟩
    · have := (hc.tendsto lo).mono_left (nhdsWithin_le_nhds (s := Set.Ioi lo))
      rwa [h0] at this
    · filter_upwards [self_mem_nhdsWithin] with t ht
      have ht' : lo < t := ht
      have : 0 < d.shape.val * (t - lo) / d.scale.val := by
        apply div_pos (mul_pos hs (by linarith)) hσ
      have e : 1 + d.shape.val * (t - d.loc.val) / d.scale.val = d.shape.val * (t - lo) / d.scale.val := by
        simp only [hlo]; field_simp; ring
      rw [Set.mem_Ioi, e]; exact this
  have hp := (tendsto_rpow_neg_nhdsGT_zero (y := -1 / d.shape.val)
    (by rw [neg_div]; exact neg_neg_of_pos (by positivity))).comp hw
  have := Real.tendsto_exp_neg_atTop_nhds_zero.comp hp
  simpa [Function.comp_def] using this

-- @site Gev.cdf_real
/-- shape < 0 (Weibull type): cdf → 0 at -∞ -/
theorem Gev_cdf_tendsto_bot_shape_neg (d : Gen.Gev R) (hσ : 0 < d.scale.val) (hs : d.shape.val < 0) :
    Tendsto (fun t : ℝ => (Gen.Gev.cdf_real d ⟨t⟩).val) atBot (𝓝 0) := by
  simp only [Gev_cdf_eq1 d _ hs.ne]
  have hw : Tendsto (fun t : ℝ => 1 + d.shape.val * (t - d.loc.val) / d.scale.val) atBot atTop :=
    tendsto_atTop_add_const_left atBot 1
      (((tendsto_atBot_add_const_right atBot (-d.loc.val) tendsto_id).const_mul_atBot_of_neg hs).atTop_div_const hσ)
  have hpos : 0 < -1 / d.shape.val := div_pos_of_neg_of_neg (by norm_num) hs
  have hp := (tendsto_rpow_atTop hpos).comp hw
  have := Real.tendsto_exp_neg_atTop_nhds_zero.comp hp
  simpa [Function.comp_def] using this

-- @site Gev.cdf_real
/-- shape < 0: cdf = 1 at the upper end `loc - scale/shape` of the support -/
theorem Gev_cdf_top_shape_neg (d : Gen.Gev R) (hσ : 0 < d.scale.val) (hs : d.shape.val < 0) :
    (Gen.Gev.cdf_real d ⟨d.loc.val - d.scale.val / d.shape.val⟩).val = 1 := by
  rw [Gev_cdf_eq1 d _ hs.ne]
  have h0 : 1 + d.shape.val * (d.loc.val - d.scale.val / d.shape.val - d.loc.val) / d.scale.val = 0 := by
    have := hs.ne; field_simp; ring
  have hpos : 0 < -1 / d.shape.val := div_pos_of_neg_of_neg (by norm_num) hs
  rw [h0, Real.zero_rpow hpos.ne', neg_zero, Real.exp_zero]

example : (0:ℝ) < (⟨⟨1⟩, ⟨2⟩, ⟨-1/2⟩⟩ : Gen.Gev R).scale.val ∧ (⟨⟨1⟩, ⟨2⟩, ⟨-1/2⟩⟩ : Gen.Gev R).shape.val < 0 := by
  constructor <;> norm_num

-- @site Gev.sf_real
theorem Gev_sf (d : Gen.Gev R) (x : R) : (Gen.Gev.sf_real d x).val = 1 - (Gen.Gev.cdf_real d x).val := by
  simp only [Gen.Gev.sf_real, R.sub_val, one_val]

/-! ### Gaussian / LogNormal: survival function only (their cdf theorems are in C03B) -/

-- @site Gaussian.sf_real
theorem Gaussian_sf (d : Gen.Gaussian R) (x : R) :
    (Gen.Gaussian.sf_real d x).val = 1 - (Gen.Gaussian.cdf_real d x).val := by
  simp only [Gen.Gaussian.sf_real, R.sub_val, one_val]

-- @site LogNormal.sf_real
theorem LogNormal_sf (d : Gen.LogNormal R) (x : R) :
    (Gen.LogNormal.sf_real d x).val = 1 - (Gen.LogNormal.cdf_real d x).val := by
  simp only [Gen.LogNormal.sf_real, R.sub_val, one_val]

end C03

#print axioms C03.Exponential_cdf_deriv
#print axioms C03.Exponential_cdf_mono
#print axioms C03.Exponential_cdf_range
#print axioms C03.Exponential_cdf_tendsto_top
#print axioms C03.Exponential_cdf_bot
#print axioms C03.Exponential_sf
#print axioms C03.Uniform_cdf_deriv
#print axioms C03.Uniform_cdf_mono
#print axioms C03.Uniform_cdf_range
#print axioms C03.Uniform_cdf_bot
#print axioms C03.Uniform_cdf_top
#print axioms C03.Uniform_sf
#print axioms C03.Cauchy_cdf_deriv_spec
#print axioms C03.Cauchy_cdf_deriv_partial
#print axioms C03.Cauchy_cdf_mono
#print axioms C03.Cauchy_cdf_range
#print axioms C03.Cauchy_cdf_tendsto_top
#print axioms C03.Cauchy_cdf_tendsto_bot
#print axioms C03.Cauchy_sf
#print axioms C03.Laplace_cdf_deriv
#print axioms C03.Laplace_cdf_range
#print axioms C03.Laplace_cdf_mono
#print axioms C03.Laplace_cdf_tendsto_top
#print axioms C03.Laplace_cdf_tendsto_bot
#print axioms C03.Laplace_sf
#print axioms C03.Kumaraswamy_cdf_deriv
#print axioms C03.Kumaraswamy_cdf_mono
#print axioms C03.Kumaraswamy_cdf_range
#print axioms C03.Kumaraswamy_cdf_bot
#print axioms C03.Kumaraswamy_cdf_top
#print axioms C03.Kumaraswamy_sf
#print axioms C03.UnitPowerLaw_cdf_deriv
#print axioms C03.UnitPowerLaw_cdf_mono
#print axioms C03.UnitPowerLaw_cdf_range
#print axioms C03.UnitPowerLaw_cdf_bot
#print axioms C03.UnitPowerLaw_cdf_top
#print axioms C03.UnitPowerLaw_sf
#print axioms C03.Pareto_cdf_deriv
#print axioms C03.Pareto_cdf_mono
#print axioms C03.Pareto_cdf_range
#print axioms C03.Pareto_cdf_bot
#print axioms C03.Pareto_cdf_tendsto_top
#print axioms C03.Pareto_sf
#print axioms C03.Gev_cdf_deriv_shape0
#print axioms C03.Gev_cdf_deriv_shape_ne0
#print axioms C03.Gev_cdf_range
#print axioms C03.Gev_cdf_mono_shape0
#print axioms C03.Gev_cdf_mono_shape_ne0
#print axioms C03.Gev_cdf_tendsto_top_shape0
#print axioms C03.Gev_cdf_tendsto_bot_shape0
#print axioms C03.Gev_cdf_tendsto_top_shape_pos
#print axioms C03.Gev_cdf_tendsto_bot_shape_pos
#print axioms C03.Gev_cdf_tendsto_bot_shape_neg
#print axioms C03.Gev_cdf_top_shape_neg
#print axioms C03.Gev_sf
#print axioms C03.Gaussian_sf
#print axioms C03.LogNormal_sf
