import RvModel.RealInst
import RvModel.Gen.Defs
import RvModel.Lemmas.C03
import Mathlib.Analysis.SpecialFunctions.ExpDeriv
import Mathlib.Analysis.SpecialFunctions.Pow.Deriv
import Mathlib.Analysis.SpecialFunctions.Log.Deriv
import Mathlib.Analysis.SpecialFunctions.Integrals.Basic
import Mathlib.MeasureTheory.Integral.IntervalIntegral.FundThmCalculus
/-!
  C03 (group B): CDFs defined through special functions.  One derivative lemma per special function of the carrier
  (`R.incGammaR`, `R.incBetaR`, `R.erfR`, from their integral definitions by the fundamental theorem of calculus),
  then for every distribution the chain-rule theorem `d/dx cdf = exp (ln_f)`: this proves the *argument mapping and
  scaling* of each CDF, which is all that rv's code contributes.
-/
open Real Filter Topology MeasureTheory

namespace C03

/-! ### the special functions of the carrier -/

-- @site Gamma.cdf_real
theorem incGammaR_hasDerivAt (a x : ℝ) (ha : 0 < a) (hx : 0 < x) :
    HasDerivAt (fun y : ℝ => R.incGammaR y a) (x ^ (a - 1) * Real.exp (-x) / Real.Gamma a) x := by
  unfold R.incGammaR
  have hint : IntervalIntegrable (fun t : ℝ => t ^ (a - 1) * Real.exp (-t)) volume 0 x :=
    (intervalIntegral.intervalIntegrable_rpow' (by linarith)).mul_continuousOn
      (Real.continuous_exp.comp continuous_neg).continuousOn
  have hmeas : StronglyMeasurableAtFilter (fun t : ℝ => t ^ (a - 1) * Real.exp (-t)) (𝓝 x) volume := by
    have : Measurable (fun t : ℝ => t ^ (a - 1) * Real.exp (-t)) := by fun_prop
    exact this.stronglyMeasurable.stronglyMeasurableAtFilter
  have hcont : ContinuousAt (fun t : ℝ => t ^ (a - 1) * Real.exp (-t)) x :=
    (Real.continuousAt_rpow_const x (a - 1) (Or.inl hx.ne')).mul
      (Real.continuous_exp.comp continuous_neg).continuousAt
  exact (intervalIntegral.integral_hasDerivAt_right hint hmeas hcont).div_const _

example : HasDerivAt (fun y : ℝ => R.incGammaR y 2) ((3:ℝ) ^ ((2:ℝ) - 1) * Real.exp (-3) / Real.Gamma 2) 3 :=
  incGammaR_hasDerivAt 2 3 (by norm_num) (by norm_num)

-- @site Beta.cdf_real
theorem incBetaR_hasDerivAt (a b x : ℝ) (ha : 0 < a) (hx0 : 0 < x) (hx1 : x < 1) :
    HasDerivAt (fun y : ℝ => R.incBetaR y a b)
      (x ^ (a - 1) * (1 - x) ^ (b - 1) / (Real.Gamma a * Real.Gamma b / Real.Gamma (a + b))) x := by
  unfold R.incBetaR
  have hint : IntervalIntegrable (fun t : ℝ => t ^ (a - 1) * (1 - t) ^ (b - 1)) volume 0 x := by
    refine (intervalIntegral.intervalIntegrable_rpow' (by linarith)).mul_continuousOn ?_
    intro t ht
    rw [Set.uIcc_of_le hx0.le] at ht
    have : 1 - t ≠ 0 := by linarith [ht.2]
    exact ((Real.continuousAt_rpow_const (1 - t) (b - 1) (Or.inl this)).comp
      (continuous_const.sub continuous_id).continuousAt).continuousWithinAt
  have hmeas : StronglyMeasurableAtFilter (fun t : ℝ => t ^ (a - 1) * (1 - t) ^ (b - 1)) (𝓝 x) volume := by
    have : Measurable (fun t : ℝ => t ^ (a - 1) * (1 - t) ^ (b - 1)) := by fun_prop
    exact this.stronglyMeasurable.stronglyMeasurableAtFilter
  have hcont : ContinuousAt (fun t : ℝ => t ^ (a - 1) * (1 - t) ^ (b - 1)) x :=
    (Real.continuousAt_rpow_const x (a - 1) (Or.inl hx0.ne')).mul
      ((Real.continuousAt_rpow_const (1 - x) (b - 1) (Or.inl (by linarith))).comp
        (continuous_const.sub continuous_id).continuousAt)
  exact (intervalIntegral.integral_hasDerivAt_right hint hmeas hcont).div_const _

example : HasDerivAt (fun y : ℝ => R.incBetaR y 2 3)
    ((1/2:ℝ) ^ ((2:ℝ) - 1) * (1 - 1/2) ^ ((3:ℝ) - 1) / (Real.Gamma 2 * Real.Gamma 3 / Real.Gamma (2 + 3))) (1/2) :=
  incBetaR_hasDerivAt 2 3 (1/2) (by norm_num) (by norm_num) (by norm_num)

-- @site Gaussian.cdf_real
theorem erfR_hasDerivAt (x : ℝ) :
    HasDerivAt R.erfR (2 / Real.sqrt π * Real.exp (-x ^ 2)) x := by
  have hc : Continuous (fun t : ℝ => Real.exp (-t ^ 2)) := by fun_prop
  have := (hc.integral_hasStrictDerivAt 0 x).hasDerivAt.const_mul (2 / Real.sqrt π)
  exact this

example : HasDerivAt R.erfR (2 / Real.sqrt π * Real.exp (-(1:ℝ) ^ 2)) 1 := erfR_hasDerivAt 1

-- @site Gaussian.cdf_real
/-- chain rule through `erfR` -/
theorem erfR_comp_hasDerivAt {g : ℝ → ℝ} {g' x : ℝ} (hg : HasDerivAt g g' x) :
    HasDerivAt (fun t => R.erfR (g t)) (2 / Real.sqrt π * Real.exp (-(g x) ^ 2) * g') x :=
  (erfR_hasDerivAt (g x)).comp x hg

-- @site Gamma.cdf_real
/-- chain rule through `incGammaR · a` -/
theorem incGammaR_comp_hasDerivAt {g : ℝ → ℝ} {g' x a : ℝ} (ha : 0 < a) (hgx : 0 < g x)
    (hg : HasDerivAt g g' x) :
    HasDerivAt (fun t => R.incGammaR (g t) a) ((g x) ^ (a - 1) * Real.exp (-(g x)) / Real.Gamma a * g') x :=
  (incGammaR_hasDerivAt a (g x) ha hgx).comp x hg

-- @site InvGamma.cdf_real
/-- the inverse-gamma pattern shared by InvGamma, InvChiSquared, ScaledInvChiSquared:
    d/dx (1 - P(a, s/x)) = s^a x^(-(a+1)) e^(-s/x) / Γ(a) -/
theorem invGamma_pattern_hasDerivAt (a s x : ℝ) (ha : 0 < a) (hs : 0 < s) (hx : 0 < x) :
    HasDerivAt (fun t : ℝ => 1 - R.incGammaR (s / t) a)
      (s ^ a * x ^ (-(a + 1)) * Real.exp (-(s / x)) / Real.Gamma a) x := by
  have h1 : HasDerivAt (fun t : ℝ => s / t) (-s / x ^ 2) x := by
    have := (hasDerivAt_const x s).div (hasDerivAt_id x) hx.ne'
    exact this.congr_deriv (by simp)
  have hq : 0 < s / x := div_pos hs hx
  have h2 := (incGammaR_comp_hasDerivAt ha hq h1).const_sub 1
  refine h2.congr_deriv ?_
  have hG : Real.Gamma a ≠ 0 := (Real.Gamma_pos_of_pos ha).ne'
  have hxa : 0 < x ^ a := Real.rpow_pos_of_pos hx _
  rw [Real.rpow_neg hx.le, Real.rpow_add_one hx.ne', Real.rpow_sub_one hq.ne', Real.div_rpow hs.le hx.le]
  field_simp

/-! ### Gamma (shape > 0, rate > 0, support (0, ∞)) -/

-- @site Gamma.cdf_real
theorem Gamma_cdf_deriv (d : Gen.Gamma R) (x : ℝ) (hk : 0 < d.shape.val) (hr : 0 < d.rate.val) (hx : 0 < x) :
    HasDerivAt (fun t : ℝ => (Gen.Gamma.cdf_real d ⟨t⟩).val)
      (Real.exp (Gen.Gamma.ln_f_real d ⟨x⟩).val) x := by
  have hfun : (fun t : ℝ => (Gen.Gamma.cdf_real d ⟨t⟩).val) =
      fun t => R.incGammaR (d.rate.val * t) d.shape.val := by
    funext t; simp only [Gen.Gamma.cdf_real, R.incGamma_val, R.mul_val]
  have hG : 0 < Real.Gamma d.shape.val := Real.Gamma_pos_of_pos hk
  have hln : (Gen.Gamma.ln_f_real d ⟨x⟩).val =
      Real.log d.rate.val * d.shape.val + (-Real.log (Real.Gamma d.shape.val))
        + (Real.log x * (d.shape.val - 1) + (-(d.rate.val * x))) := by
    simp only [Gen.Gamma.ln_f_real, Gen.Gamma.ln_rate, Gen.Gamma.ln_gamma_shape, mulAdd, R.add_val, R.mul_val,
      R.sub_val, R.neg_val, R.ln_val, R.lgamma_val, one_val]
    ring
  rw [hfun, hln, Real.exp_add, Real.exp_add, Real.exp_add, Real.exp_mul, Real.exp_mul, Real.exp_log hr,
    Real.exp_log hx, Real.exp_neg (Real.log _), Real.exp_log hG]
  have h1 : HasDerivAt (fun t : ℝ => d.rate.val * t) d.rate.val x := by
    simpa using (hasDerivAt_id x).const_mul d.rate.val
  have h2 := incGammaR_comp_hasDerivAt (g := fun t : ℝ => d.rate.val * t) hk (mul_pos hr hx) h1
  refine h2.congr_deriv ?_
  rw [Real.mul_rpow hr.le hx.le, Real.rpow_sub_one hr.ne']
  field_simp

example : HasDerivAt (fun t : ℝ => (Gen.Gamma.cdf_real (⟨⟨3⟩, ⟨2⟩⟩ : Gen.Gamma R) ⟨t⟩).val)
    (Real.exp (Gen.Gamma.ln_f_real (⟨⟨3⟩, ⟨2⟩⟩ : Gen.Gamma R) ⟨1⟩).val) 1 :=
  Gamma_cdf_deriv ⟨⟨3⟩, ⟨2⟩⟩ 1 (by norm_num) (by norm_num) (by norm_num)

-- @site Gamma.sf_real
theorem Gamma_sf (d : Gen.Gamma R) (x : R) :
    (Gen.Gamma.sf_real d x).val = 1 - (Gen.Gamma.cdf_real d x).val := by
  simp only [Gen.Gamma.sf_real, R.sub_val, one_val]

/-! ### ChiSquared (k > 0, support (0, ∞)) -/

-- @site ChiSquared.cdf_real
theorem ChiSquared_cdf_deriv (d : Gen.ChiSquared R) (x : ℝ) (hk : 0 < d.k.val) (hx : 0 < x) :
    HasDerivAt (fun t : ℝ => (Gen.ChiSquared.cdf_real d ⟨t⟩).val)
      (Real.exp (Gen.ChiSquared.ln_f_real d ⟨x⟩).val) x := by
  have hfun : (fun t : ℝ => (Gen.ChiSquared.cdf_real d ⟨t⟩).val) =
      fun t => R.incGammaR (t / 2) (d.k.val / 2) := by
    funext t; simp only [Gen.ChiSquared.cdf_real, R.incGamma_val, R.div_val, two_val]
  have hk2 : 0 < d.k.val / 2 := by linarith
  have hG : 0 < Real.Gamma (d.k.val / 2) := Real.Gamma_pos_of_pos hk2
  have h2pos : (0:ℝ) < 2 := by norm_num
  have hln : (Gen.ChiSquared.ln_f_real d ⟨x⟩).val =
      Real.log 2 * (-(d.k.val / 2)) + (Real.log x * (d.k.val / 2 - 1) + (-(x / 2)))
        + (-Real.log (Real.Gamma (d.k.val / 2))) := by
    simp only [Gen.ChiSquared.ln_f_real, mulAdd, R.add_val, R.mul_val, R.sub_val, R.neg_val, R.div_val,
      R.ln_val, R.lgamma_val, R.ln2_val, one_val, two_val]
    ring
  rw [hfun, hln, Real.exp_add, Real.exp_add, Real.exp_add, Real.exp_mul, Real.exp_mul, Real.exp_log h2pos,
    Real.exp_log hx, Real.exp_neg (Real.log _), Real.exp_log hG]
  have h1 : HasDerivAt (fun t : ℝ => t / 2) (1 / 2) x := (hasDerivAt_id x).div_const 2
  have h2 := incGammaR_comp_hasDerivAt (g := fun t : ℝ => t / 2) hk2 (by positivity) h1
  refine h2.congr_deriv ?_
  have h2k : 0 < (2:ℝ) ^ (d.k.val / 2) := Real.rpow_pos_of_pos h2pos _
  rw [Real.div_rpow hx.le h2pos.le, Real.rpow_sub_one h2pos.ne', Real.rpow_neg h2pos.le]
  field_simp

example : HasDerivAt (fun t : ℝ => (Gen.ChiSquared.cdf_real (⟨⟨3⟩⟩ : Gen.ChiSquared R) ⟨t⟩).val)
    (Real.exp (Gen.ChiSquared.ln_f_real (⟨⟨3⟩⟩ : Gen.ChiSquared R) ⟨1⟩).val) 1 :=
  ChiSquared_cdf_deriv ⟨⟨3⟩⟩ 1 (by norm_num) (by norm_num)

-- @site ChiSquared.sf_real
theorem ChiSquared_sf (d : Gen.ChiSquared R) (x : R) :
    (Gen.ChiSquared.sf_real d x).val = 1 - (Gen.ChiSquared.cdf_real d x).val := by
  simp only [Gen.ChiSquared.sf_real, R.sub_val, one_val]

/-! ### InvGamma (shape > 0, scale > 0, support (0, ∞)) -/

-- @site InvGamma.cdf_real
theorem InvGamma_cdf_deriv (d : Gen.InvGamma R) (x : ℝ) (hk : 0 < d.shape.val) (hs : 0 < d.scale.val)
    (hx : 0 < x) :
    HasDerivAt (fun t : ℝ => (Gen.InvGamma.cdf_real d ⟨t⟩).val)
      (Real.exp (Gen.InvGamma.ln_f_real d ⟨x⟩).val) x := by
  have hfun : (fun t : ℝ => (Gen.InvGamma.cdf_real d ⟨t⟩).val) =
      fun t => 1 - R.incGammaR (d.scale.val / t) d.shape.val := by
    funext t; simp only [Gen.InvGamma.cdf_real, R.incGamma_val, R.div_val, R.sub_val, one_val]
  have hG : 0 < Real.Gamma d.shape.val := Real.Gamma_pos_of_pos hk
  have hln : (Gen.InvGamma.ln_f_real d ⟨x⟩).val =
      Real.log x * (-(d.shape.val + 1)) + (Real.log d.scale.val * d.shape.val
        + (-Real.log (Real.Gamma d.shape.val))) + (-(d.scale.val / x)) := by
    simp only [Gen.InvGamma.ln_f_real, mulAdd, R.add_val, R.mul_val, R.sub_val, R.neg_val, R.div_val,
      R.ln_val, R.lgamma_val, one_val]
    ring
  rw [hfun, hln, Real.exp_add, Real.exp_add, Real.exp_add, Real.exp_mul, Real.exp_mul, Real.exp_log hs,
    Real.exp_log hx, Real.exp_neg (Real.log _), Real.exp_log hG]
  exact (invGamma_pattern_hasDerivAt d.shape.val d.scale.val x hk hs hx).congr_deriv (by ring)

example : HasDerivAt (fun t : ℝ => (Gen.InvGamma.cdf_real (⟨⟨3⟩, ⟨2⟩⟩ : Gen.InvGamma R) ⟨t⟩).val)
    (Real.exp (Gen.InvGamma.ln_f_real (⟨⟨3⟩, ⟨2⟩⟩ : Gen.InvGamma R) ⟨1⟩).val) 1 :=
  InvGamma_cdf_deriv ⟨⟨3⟩, ⟨2⟩⟩ 1 (by norm_num) (by norm_num) (by norm_num)

-- @site InvGamma.sf_real
theorem InvGamma_sf (d : Gen.InvGamma R) (x : R) :
    (Gen.InvGamma.sf_real d x).val = 1 - (Gen.InvGamma.cdf_real d x).val := by
  simp only [Gen.InvGamma.sf_real, R.sub_val, one_val]

/-! ### InvChiSquared (v > 0, support (0, ∞)) -/

-- @site InvChiSquared.cdf_real
theorem InvChiSquared_cdf_deriv (d : Gen.InvChiSquared R) (x : ℝ) (hv : 0 < d.v.val) (hx : 0 < x) :
    HasDerivAt (fun t : ℝ => (Gen.InvChiSquared.cdf_real d ⟨t⟩).val)
      (Real.exp (Gen.InvChiSquared.ln_f_real d ⟨x⟩).val) x := by
  have hfun : (fun t : ℝ => (Gen.InvChiSquared.cdf_real d ⟨t⟩).val) =
      fun t => 1 - R.incGammaR ((1 / 2) / t) (d.v.val / 2) := by
    funext t
    simp only [Gen.InvChiSquared.cdf_real, RealLike.recip, R.incGamma_val, R.div_val, R.sub_val, R.mul_val,
      one_val, two_val]
    rw [div_div]
  have hv2 : 0 < d.v.val / 2 := by linarith
  have hG : 0 < Real.Gamma (d.v.val / 2) := Real.Gamma_pos_of_pos hv2
  have h2pos : (0:ℝ) < 2 := by norm_num
  have hln : (Gen.InvChiSquared.ln_f_real d ⟨x⟩).val =
      Real.log x * (-(d.v.val / 2 + 1)) + (Real.log 2 * (-(d.v.val / 2))
        + (-Real.log (Real.Gamma (d.v.val / 2)))) + (-((1 / 2) / x)) := by
    simp only [Gen.InvChiSquared.ln_f_real, Gen.InvChiSquared.ln_f_const, RealLike.recip, mulAdd, R.add_val,
      R.mul_val, R.sub_val, R.neg_val, R.div_val, R.ln_val, R.lgamma_val, R.ln2_val, one_val, two_val]
    rw [div_div]
    ring
  rw [hfun, hln, Real.exp_add, Real.exp_add, Real.exp_add, Real.exp_mul, Real.exp_mul, Real.exp_log h2pos,
    Real.exp_log hx, Real.exp_neg (Real.log _), Real.exp_log hG]
  refine (invGamma_pattern_hasDerivAt (d.v.val / 2) (1 / 2) x hv2 (by norm_num) hx).congr_deriv ?_
  rw [Real.div_rpow (by norm_num) h2pos.le, Real.one_rpow, Real.rpow_neg h2pos.le]
  ring

example : HasDerivAt (fun t : ℝ => (Gen.InvChiSquared.cdf_real (⟨⟨3⟩⟩ : Gen.InvChiSquared R) ⟨t⟩).val)
    (Real.exp (Gen.InvChiSquared.ln_f_real (⟨⟨3⟩⟩ : Gen.InvChiSquared R) ⟨1⟩).val) 1 :=
  InvChiSquared_cdf_deriv ⟨⟨3⟩⟩ 1 (by norm_num) (by norm_num)

-- @site InvChiSquared.sf_real
theorem InvChiSquared_sf (d : Gen.InvChiSquared R) (x : R) :
    (Gen.InvChiSquared.sf_real d x).val = 1 - (Gen.InvChiSquared.cdf_real d x).val := by
  simp only [Gen.InvChiSquared.sf_real, R.sub_val, one_val]

/-! ### ScaledInvChiSquared (v > 0, t2 > 0, support (0, ∞)) -/

-- @site ScaledInvChiSquared.cdf_real
theorem ScaledInvChiSquared_cdf_deriv (d : Gen.ScaledInvChiSquared R) (x : ℝ) (hv : 0 < d.v.val)
    (ht : 0 < d.t2.val) (hx : 0 < x) :
    HasDerivAt (fun t : ℝ => (Gen.ScaledInvChiSquared.cdf_real d ⟨t⟩).val)
      (Real.exp (Gen.ScaledInvChiSquared.ln_f_real d ⟨x⟩).val) x := by
  have hfun : (fun t : ℝ => (Gen.ScaledInvChiSquared.cdf_real d ⟨t⟩).val) =
      fun t => 1 - R.incGammaR ((d.v.val * d.t2.val / 2) / t) (d.v.val / 2) := by
    funext t
    simp only [Gen.ScaledInvChiSquared.cdf_real, R.incGamma_val, R.div_val, R.sub_val, R.mul_val,
      one_val, two_val]
    rw [div_div]
  have hv2 : 0 < d.v.val / 2 := by linarith
  have hc : 0 < d.v.val * d.t2.val / 2 := by positivity
  have hG : 0 < Real.Gamma (d.v.val / 2) := Real.Gamma_pos_of_pos hv2
  have hln : (Gen.ScaledInvChiSquared.ln_f_real d ⟨x⟩).val =
      Real.log x * (-(d.v.val / 2 + 1)) + (Real.log (d.v.val * d.t2.val / 2) * (d.v.val / 2)
        + (-Real.log (Real.Gamma (d.v.val / 2)))) + (-((d.v.val * d.t2.val / 2) / x)) := by
    simp only [Gen.ScaledInvChiSquared.ln_f_real, Gen.ScaledInvChiSquared.ln_f_const,
      Gen.ScaledInvChiSquared.ln_gamma_v_2, mulAdd, R.add_val, R.mul_val, R.sub_val, R.neg_val, R.div_val,
      R.ln_val, R.lgamma_val, one_val, two_val, half_val]
    rw [show d.t2.val * d.v.val * (1 / 2) = d.v.val * d.t2.val / 2 by ring, div_div]
    ring
  rw [hfun, hln, Real.exp_add, Real.exp_add, Real.exp_add, Real.exp_mul, Real.exp_mul, Real.exp_log hc,
    Real.exp_log hx, Real.exp_neg (Real.log _), Real.exp_log hG]
  exact (invGamma_pattern_hasDerivAt (d.v.val / 2) (d.v.val * d.t2.val / 2) x hv2 hc hx).congr_deriv (by ring)

example : HasDerivAt
    (fun t : ℝ => (Gen.ScaledInvChiSquared.cdf_real (⟨⟨3⟩, ⟨2⟩⟩ : Gen.ScaledInvChiSquared R) ⟨t⟩).val)
    (Real.exp (Gen.ScaledInvChiSquared.ln_f_real (⟨⟨3⟩, ⟨2⟩⟩ : Gen.ScaledInvChiSquared R) ⟨1⟩).val) 1 :=
  ScaledInvChiSquared_cdf_deriv ⟨⟨3⟩, ⟨2⟩⟩ 1 (by norm_num) (by norm_num) (by norm_num)

-- @site ScaledInvChiSquared.sf_real
theorem ScaledInvChiSquared_sf (d : Gen.ScaledInvChiSquared R) (x : R) :
    (Gen.ScaledInvChiSquared.sf_real d x).val = 1 - (Gen.ScaledInvChiSquared.cdf_real d x).val := by
  simp only [Gen.ScaledInvChiSquared.sf_real, R.sub_val, one_val]

/-! ### Beta (alpha > 0, beta > 0, support (0, 1)) -/

-- @site Beta.cdf_real
theorem Beta_cdf_deriv (d : Gen.Beta R) (x : ℝ) (ha : 0 < d.alpha.val) (hb : 0 < d.beta.val)
    (hx0 : 0 < x) (hx1 : x < 1) :
    HasDerivAt (fun t : ℝ => (Gen.Beta.cdf_real d ⟨t⟩).val)
      (Real.exp (Gen.Beta.ln_f_real d ⟨x⟩).val) x := by
  have hfun : (fun t : ℝ => (Gen.Beta.cdf_real d ⟨t⟩).val) =
      fun t => R.incBetaR t d.alpha.val d.beta.val := by
    funext t; simp only [Gen.Beta.cdf_real, R.incBeta_val]
  have hB : 0 < Real.Gamma d.alpha.val * Real.Gamma d.beta.val / Real.Gamma (d.alpha.val + d.beta.val) :=
    div_pos (mul_pos (Real.Gamma_pos_of_pos ha) (Real.Gamma_pos_of_pos hb))
      (Real.Gamma_pos_of_pos (by linarith))
  have h1x : 0 < 1 - x := by linarith
  have hln : (Gen.Beta.ln_f_real d ⟨x⟩).val =
      Real.log x * (d.alpha.val - 1) + Real.log (1 - x) * (d.beta.val - 1)
        + (-Real.log (Real.Gamma d.alpha.val * Real.Gamma d.beta.val / Real.Gamma (d.alpha.val + d.beta.val))) := by
    simp only [Gen.Beta.ln_f_real, Gen.Beta.ln_beta_ab, mulAdd, R.add_val, R.mul_val, R.sub_val, R.ln_val,
      R.lnBeta_val, one_val]
    ring
  rw [hfun, hln, Real.exp_add, Real.exp_add, Real.exp_mul, Real.exp_mul, Real.exp_log hx0, Real.exp_log h1x,
    Real.exp_neg (Real.log _), Real.exp_log hB]
  exact (incBetaR_hasDerivAt d.alpha.val d.beta.val x ha hx0 hx1).congr_deriv (by rw [div_eq_mul_inv])

example : HasDerivAt (fun t : ℝ => (Gen.Beta.cdf_real (⟨⟨2⟩, ⟨3⟩⟩ : Gen.Beta R) ⟨t⟩).val)
    (Real.exp (Gen.Beta.ln_f_real (⟨⟨2⟩, ⟨3⟩⟩ : Gen.Beta R) ⟨1/2⟩).val) (1/2) :=
  Beta_cdf_deriv ⟨⟨2⟩, ⟨3⟩⟩ (1/2) (by norm_num) (by norm_num) (by norm_num) (by norm_num)

-- @site Beta.sf_real
theorem Beta_sf (d : Gen.Beta R) (x : R) :
    (Gen.Beta.sf_real d x).val = 1 - (Gen.Beta.cdf_real d x).val := by
  simp only [Gen.Beta.sf_real, R.sub_val, one_val]

/-! ### Gaussian (sigma > 0, support ℝ) -/

-- @site Gaussian.cdf_real
theorem Gaussian_cdf_deriv (d : Gen.Gaussian R) (x : ℝ) (hσ : 0 < d.sigma.val) :
    HasDerivAt (fun t : ℝ => (Gen.Gaussian.cdf_real d ⟨t⟩).val)
      (Real.exp (Gen.Gaussian.ln_f_real d ⟨x⟩).val) x := by
  have hfun : (fun t : ℝ => (Gen.Gaussian.cdf_real d ⟨t⟩).val) =
      fun t => 1 / 2 * (1 + R.erfR ((t - d.mu.val) / (d.sigma.val * Real.sqrt 2))) := by
    funext t
    simp only [Gen.Gaussian.cdf_real, R.erf_val, R.div_val, R.sub_val, R.mul_val, R.add_val, R.sqrt2_val,
      one_val, half_val]
  have h2pi : (0:ℝ) < 2 * π := by positivity
  have hln : (Gen.Gaussian.ln_f_real d ⟨x⟩).val =
      -(((x - d.mu.val) / (d.sigma.val * Real.sqrt 2)) ^ 2) + (-Real.log d.sigma.val)
        + (-Real.log (Real.sqrt (2 * π))) := by
    simp only [Gen.Gaussian.ln_f_real, Gen.Gaussian.ln_sigma, mulAdd, R.add_val, R.mul_val, R.sub_val,
      R.neg_val, R.div_val, R.ln_val, R.halfLn2Pi_val, half_val]
    rw [Real.log_sqrt h2pi.le, div_pow, mul_pow, Real.sq_sqrt (by norm_num : (0:ℝ) ≤ 2)]
    field_simp
    ring
  rw [hfun, hln, Real.exp_add, Real.exp_add, Real.exp_neg (Real.log _), Real.exp_neg (Real.log _),
    Real.exp_log hσ, Real.exp_log (Real.sqrt_pos.mpr h2pi)]
  have hden : d.sigma.val * Real.sqrt 2 ≠ 0 := (mul_pos hσ (Real.sqrt_pos.mpr (by norm_num))).ne'
  have h1 : HasDerivAt (fun t : ℝ => (t - d.mu.val) / (d.sigma.val * Real.sqrt 2))
      (1 / (d.sigma.val * Real.sqrt 2)) x :=
    ((hasDerivAt_id x).sub_const d.mu.val).div_const _
  have h2 := ((erfR_comp_hasDerivAt h1).const_add 1).const_mul (1 / 2 : ℝ)
  refine h2.congr_deriv ?_
  rw [Real.sqrt_mul (by norm_num : (0:ℝ) ≤ 2)]
  have hsp : Real.sqrt π ≠ 0 := (Real.sqrt_pos.mpr Real.pi_pos).ne'
  have hs2 : Real.sqrt 2 ≠ 0 := (Real.sqrt_pos.mpr (by norm_num)).ne'
  field_simp

example : HasDerivAt (fun t : ℝ => (Gen.Gaussian.cdf_real (⟨⟨1⟩, ⟨2⟩⟩ : Gen.Gaussian R) ⟨t⟩).val)
    (Real.exp (Gen.Gaussian.ln_f_real (⟨⟨1⟩, ⟨2⟩⟩ : Gen.Gaussian R) ⟨3⟩).val) 3 :=
  Gaussian_cdf_deriv ⟨⟨1⟩, ⟨2⟩⟩ 3 (by norm_num)

/-! ### LogNormal (sigma > 0, support (0, ∞)) -/

-- @site LogNormal.cdf_real
theorem LogNormal_cdf_deriv (d : Gen.LogNormal R) (x : ℝ) (hσ : 0 < d.sigma.val) (hx : 0 < x) :
    HasDerivAt (fun t : ℝ => (Gen.LogNormal.cdf_real d ⟨t⟩).val)
      (Real.exp (Gen.LogNormal.ln_f_real d ⟨x⟩).val) x := by
  have hfun : (fun t : ℝ => (Gen.LogNormal.cdf_real d ⟨t⟩).val) =
      fun t => 1 / 2 * R.erfR ((Real.log t - d.mu.val) / (Real.sqrt 2 * d.sigma.val)) + 1 / 2 := by
    funext t
    simp only [Gen.LogNormal.cdf_real, mulAdd, R.erf_val, R.div_val, R.sub_val, R.mul_val, R.add_val,
      R.sqrt2_val, R.ln_val, half_val]
  have h2pi : (0:ℝ) < 2 * π := by positivity
  have hln : (Gen.LogNormal.ln_f_real d ⟨x⟩).val =
      -(((Real.log x - d.mu.val) / (Real.sqrt 2 * d.sigma.val)) ^ 2) + (-Real.log x) + (-Real.log d.sigma.val)
        + (-Real.log (Real.sqrt (2 * π))) := by
    simp only [Gen.LogNormal.ln_f_real, mulAdd, R.add_val, R.mul_val, R.sub_val,
      R.neg_val, R.div_val, R.ln_val, R.halfLn2Pi_val, half_val]
    rw [Real.log_sqrt h2pi.le, div_pow, mul_pow, Real.sq_sqrt (by norm_num : (0:ℝ) ≤ 2)]
    field_simp
    ring
  rw [hfun, hln, Real.exp_add, Real.exp_add, Real.exp_add, Real.exp_neg (Real.log _), Real.exp_neg (Real.log _),
    Real.exp_neg (Real.log _), Real.exp_log hσ, Real.exp_log hx, Real.exp_log (Real.sqrt_pos.mpr h2pi)]
  have h1 : HasDerivAt (fun t : ℝ => (Real.log t - d.mu.val) / (Real.sqrt 2 * d.sigma.val))
      (x⁻¹ / (Real.sqrt 2 * d.sigma.val)) x :=
    ((Real.hasDerivAt_log hx.ne').sub_const d.mu.val).div_const _
  have h2 := ((erfR_comp_hasDerivAt h1).const_mul (1 / 2 : ℝ)).add_const (1 / 2)
  refine h2.congr_deriv ?_
  rw [Real.sqrt_mul (by norm_num : (0:ℝ) ≤ 2)]
  have hsp : Real.sqrt π ≠ 0 := (Real.sqrt_pos.mpr Real.pi_pos).ne'
  have hs2 : Real.sqrt 2 ≠ 0 := (Real.sqrt_pos.mpr (by norm_num)).ne'
  field_simp

example : HasDerivAt (fun t : ℝ => (Gen.LogNormal.cdf_real (⟨⟨1⟩, ⟨2⟩⟩ : Gen.LogNormal R) ⟨t⟩).val)
    (Real.exp (Gen.LogNormal.ln_f_real (⟨⟨1⟩, ⟨2⟩⟩ : Gen.LogNormal R) ⟨3⟩).val) 3 :=
  LogNormal_cdf_deriv ⟨⟨1⟩, ⟨2⟩⟩ 3 (by norm_num) (by norm_num)

end C03

#print axioms C03.incGammaR_hasDerivAt
#print axioms C03.incBetaR_hasDerivAt
#print axioms C03.erfR_hasDerivAt
#print axioms C03.erfR_comp_hasDerivAt
#print axioms C03.incGammaR_comp_hasDerivAt
#print axioms C03.invGamma_pattern_hasDerivAt
#print axioms C03.Gamma_cdf_deriv
#print axioms C03.Gamma_sf
#print axioms C03.ChiSquared_cdf_deriv
#print axioms C03.ChiSquared_sf
#print axioms C03.InvGamma_cdf_deriv
#print axioms C03.InvGamma_sf
#print axioms C03.InvChiSquared_cdf_deriv
#print axioms C03.InvChiSquared_sf
#print axioms C03.ScaledInvChiSquared_cdf_deriv
#print axioms C03.ScaledInvChiSquared_sf
#print axioms C03.Beta_cdf_deriv
#print axioms C03.Beta_sf
#print axioms C03.Gaussian_cdf_deriv
#print axioms C03.LogNormal_cdf_deriv
