import RvModel.RealInst
import RvModel.Gen.Defs
import RvModel.Lemmas.C03
import Mathlib.Analysis.SpecialFunctions.ExpDeriv
import Mathlib.Analysis.SpecialFunctions.Pow.Deriv
import Mathlib.Analysis.SpecialFunctions.Log.Deriv
import Mathlib.Analysis.SpecialFunctions.Integrals.Basic
import Mathlib.MeasureTheory.Integral.IntervalIntegral.FundThmCalculus
import Mathlib.MeasureTheory.Integral.IntegralEqImproper
import Mathlib.Analysis.SpecialFunctions.Gaussian.GaussianIntegral
import Mathlib.Analysis.Calculus.Deriv.MeanValue
/-!
  C03 (group B): CDFs defined through special functions.  One derivative lemma per special function of the carrier
  (`R.incGammaR`, `R.incBetaR`, `R.erfR`, from their integral definitions by the fundamental theorem of calculus),
  then for every distribution the chain-rule theorem `d/dx cdf = exp (ln_f)`: this proves the *argument mapping and
  scaling* of each CDF, which is all that rv's code contributes.
-/
open Real Filter Topology MeasureTheory

namespace C03

/-! ### the special functions of the carrier -/

-- @site Gamma.cdf_real
theorem incGammaR_hasDerivAt (a x : ℝ) (ha : 0 < a) (hx : 0 < x) :
    HasDerivAt (fun y : ℝ => R.incGammaR y a) (x ^ (a - 1) * Real.exp (-x) / Real.Gamma a) x := by
  unfold R.incGammaR
  have hint : IntervalIntegrable (fun t : ℝ => t ^ (a - 1) * Real.exp (-t)) volume 0 x :=
    (intervalIntegral.intervalIntegrable_rpow' (by linarith)).mul_continuousOn
      (Real.continuous_exp.comp continuous_neg).continuousOn
  have hmeas : StronglyMeasurableAtFilter (fun t : ℝ => t ^ (a - 1) * Real.exp (-t)) (𝓝 x) volume := by
    have : Measurable (fun t : ℝ => t ^ (a - 1) * Real.exp (-t)) := by fun_prop
    exact this.stronglyMeasurable.stronglyMeasurableAtFilter
  have hcont : ContinuousAt (fun t : ℝ => t ^ (a - 1) * Real.exp (-t)) x :=
    (Real.continuousAt_rpow_const x (a - 1) (Or.inl hx.ne')).mul
      (Real.continuous_exp.comp continuous_neg).continuousAt
  exact (intervalIntegral.integral_hasDerivAt_right hint hmeas hcont).div_const _

example : HasDerivAt (fun y : ℝ => R.incGammaR y 2) ((3:ℝ) ^ ((2:ℝ) - 1) * Real.exp (-3) / Real.Gamma 2) 3 :=
  incGammaR_hasDerivAt 2 3 (by norm_num) (by norm_num)

-- @site Beta.cdf_real
theorem incBetaR_hasDerivAt (a b x : ℝ) (ha : 0 < a) (hx0 : 0 < x) (hx1 : x < 1) :
    HasDerivAt (fun y : ℝ => R.incBetaR y a b)
      (x ^ (a - 1) * (1 - x) ^ (b - 1) / (Real.Gamma a * Real.Gamma b / Real.Gamma (a + b))) x := by
  unfold R.incBetaR
  have hint : IntervalIntegrable (fun t : ℝ => t ^ (a - 1) * (1 - t) ^ (b - 1)) volume 0 x := by
    refine (intervalIntegral.intervalIntegrable_rpow' (by linarith)).mul_continuousOn ?_
    intro t ht
    rw [Set.uIcc_of_le hx0.le] at ht
    have : 1 - t ≠ 0 := by linarith [ht.2]
    exact ((Real.continuousAt_rpow_const (1 - t) (b - 1) (Or.inl this)).comp
      (continuous_const.sub continuous_id).continuousAt).continuousWithinAt
  have hmeas : StronglyMeasurableAtFilter (fun t : ℝ => t ^ (a - 1) * (1 - t) ^ (b - 1)) (𝓝 x) volume := by
    have : Measurable (fun t : ℝ => t ^ (a - 1) * (1 - t) ^ (b - 1)) := by fun_prop
    exact this.stronglyMeasurable.stronglyMeasurableAtFilter
  have hcont : ContinuousAt (fun t : ℝ => t ^ (a - 1) * (1 - t) ^ (b - 1)) x :=
    (Real.continuousAt_rpow_const x (a - 1) (Or.inl hx0.ne')).mul
      ((Real.continuousAt_rpow_const (1 - x) (b - 1) (Or.inl (by linarith))).comp
        (continuous_const.sub continuous_id).continuousAt)
  exact (intervalIntegral.integral_hasDerivAt_right hint hmeas hcont).div_const _

example : HasDerivAt (fun y : ℝ => R.incBetaR y 2 3)
    ((1/2:ℝ) ^ ((2:ℝ) - 1) * (1 - 1/2) ^ ((3:ℝ) - 1) / (Real.Gamma 2 * Real.Gamma 3 / Real.Gamma (2 + 3))) (1/2) :=
  incBetaR_hasDerivAt 2 3 (1/2) (by norm_num) (by norm_num) (by norm_num)

-- @site Gaussian.cdf_real
theorem erfR_hasDerivAt (x : ℝ) :
    HasDerivAt R.erfR (2 / Real.sqrt π * Real.exp (-x ^ 2)) x := by
  have hc : Continuous (fun t : ℝ => Real.exp (-t ^ 2)) := by fun_prop
  have := (hc.integral_hasStrictDerivAt 0 x).hasDerivAt.const_mul (2 / Real.sqrt π)
  exact this

example : HasDerivAt R.erfR (2 / Real.sqrt π * Real.exp (-(1:ℝ) ^ 2)) 1 := erfR_hasDerivAt 1

-- @site Gaussian.cdf_real
/-- chain rule through `erfR` -/
theorem erfR_comp_hasDerivAt {g : ℝ → ℝ} {g' x : ℝ} (hg : HasDerivAt g g' x) :
    HasDerivAt (fun t => R.erfR (g t)) (2 / Real.sqrt π * Real.exp (-(g x) ^ 2) * g') x :=
  (erfR_hasDerivAt (g x)).comp x hg

-- @site Gamma.cdf_real
/-- chain rule through `incGammaR · a` -/
theorem incGammaR_comp_hasDerivAt {g : ℝ → ℝ} {g' x a : ℝ} (ha : 0 < a) (hgx : 0 < g x)
    (hg : HasDerivAt g g' x) :
    HasDerivAt (fun t => R.incGammaR (g t) a) ((g x) ^ (a - 1) * Real.exp (-(g x)) / Real.Gamma a * g') x :=
  (incGammaR_hasDerivAt a (g x) ha hgx).comp x hg

-- @site InvGamma.cdf_real
/-- the inverse-gamma pattern shared by InvGamma, InvChiSquared, ScaledInvChiSquared:
    d/dx (1 - P(a, s/x)) = s^a x^(-(a+1)) e^(-s/x) / Γ(a) -/
theorem invGamma_pattern_hasDerivAt (a s x : ℝ) (ha : 0 < a) (hs : 0 < s) (hx : 0 < x) :
    HasDerivAt (fun t : ℝ => 1 - R.incGammaR (s / t) a)
      (s ^ a * x ^ (-(a + 1)) * Real.exp (-(s / x)) / Real.Gamma a) x := by
  have h1 : HasDerivAt (fun t : ℝ => s / t) (-s / x ^ 2) x := by
    have := (hasDerivAt_const x s).div (hasDerivAt_id x) hx.ne'
    exact this.congr_deriv (by simp)
  have hq : 0 < s / x := div_pos hs hx
  have h2 := (incGammaR_comp_hasDerivAt ha hq h1).const_sub 1
  refine h2.congr_deriv ?_
  have hG : Real.Gamma a ≠ 0 := (Real.Gamma_pos_of_pos ha).ne'
  have hxa : 0 < x ^ a := Real.rpow_pos_of_pos hx _
  rw [Real.rpow_neg hx.le, Real.rpow_add_one hx.ne', Real.rpow_sub_one hq.ne', Real.div_rpow hs.le hx.le]
  field_simp

/-! ### further facts about `R.incGammaR` / `R.erfR`: values in [0,1], monotone, limits -/

-- @site Gamma.cdf_real
theorem gammaIntegrand_intervalIntegrable (a : ℝ) (ha : 0 < a) (u v : ℝ) :
    IntervalIntegrable (fun t : ℝ => t ^ (a - 1) * Real.exp (-t)) volume u v :=
  (intervalIntegral.intervalIntegrable_rpow' (by linarith)).mul_continuousOn
    (Real.continuous_exp.comp continuous_neg).continuousOn

-- @site Gamma.cdf_real
theorem incGammaR_zero (a : ℝ) : R.incGammaR 0 a = 0 := by simp [R.incGammaR]

-- @site Gamma.cdf_real
theorem incGammaR_mono (a : ℝ) (ha : 0 < a) : MonotoneOn (fun x : ℝ => R.incGammaR x a) (Set.Ici 0) := by
  intro x hx y _ hxy
  have hx0 : (0:ℝ) ≤ x := hx
  simp only [R.incGammaR]
  have hG : 0 < Real.Gamma a := Real.Gamma_pos_of_pos ha
  have hadd := intervalIntegral.integral_add_adjacent_intervals
    (gammaIntegrand_intervalIntegrable a ha 0 x) (gammaIntegrand_intervalIntegrable a ha x y)
  have hnn : 0 ≤ ∫ t in x..y, t ^ (a - 1) * Real.exp (-t) := by
    apply intervalIntegral.integral_nonneg hxy
    intro t ht
    exact mul_nonneg (Real.rpow_nonneg (le_trans hx0 ht.1) _) (Real.exp_pos _).le
  exact div_le_div_of_nonneg_right (by linarith) hG.le

-- @site Gamma.cdf_real
theorem incGammaR_nonneg (a x : ℝ) (ha : 0 < a) (hx : 0 ≤ x) : 0 ≤ R.incGammaR x a := by
  have := incGammaR_mono a ha (Set.mem_Ici.mpr (le_refl 0)) (Set.mem_Ici.mpr hx) hx
  simpa [incGammaR_zero] using this

-- @site Gamma.cdf_real
theorem incGammaR_tendsto_atTop (a : ℝ) (ha : 0 < a) :
    Tendsto (fun x : ℝ => R.incGammaR x a) atTop (𝓝 1) := by
  have hG : 0 < Real.Gamma a := Real.Gamma_pos_of_pos ha
  have hint : IntegrableOn (fun t : ℝ => t ^ (a - 1) * Real.exp (-t)) (Set.Ioi 0) := by
    have := Real.GammaIntegral_convergent ha
    simpa only [mul_comm] using this
  have h1 := MeasureTheory.intervalIntegral_tendsto_integral_Ioi (0:ℝ) hint tendsto_id
  have h2 : (∫ t in Set.Ioi (0:ℝ), t ^ (a - 1) * Real.exp (-t)) = Real.Gamma a := by
    rw [Real.Gamma_eq_integral ha]; simp only [mul_comm]
  rw [h2] at h1
  have h3 := h1.div_const (Real.Gamma a)
  rw [div_self hG.ne'] at h3
  exact h3

-- @site Gamma.cdf_real
theorem incGammaR_le_one (a x : ℝ) (ha : 0 < a) (hx : 0 ≤ x) : R.incGammaR x a ≤ 1 := by
  refine ge_of_tendsto (incGammaR_tendsto_atTop a ha) ?_
  filter_upwards [eventually_ge_atTop x] with y hy
  exact incGammaR_mono a ha (Set.mem_Ici.mpr hx) (Set.mem_Ici.mpr (le_trans hx hy)) hy

-- @site Gamma.cdf_real
theorem incGammaR_continuous (a : ℝ) (ha : 0 < a) : Continuous (fun x : ℝ => R.incGammaR x a) := by
  unfold R.incGammaR
  exact (intervalIntegral.continuous_primitive (gammaIntegrand_intervalIntegrable a ha) 0).div_const _

-- @site Gaussian.cdf_real
theorem erfR_mono : Monotone R.erfR := by
  apply monotone_of_deriv_nonneg
  · exact fun x => (erfR_hasDerivAt x).differentiableAt
  · intro x
    rw [(erfR_hasDerivAt x).deriv]
    positivity

-- @site Gaussian.cdf_real
theorem erfR_tendsto_atTop : Tendsto R.erfR atTop (𝓝 1) := by
  have hint : IntegrableOn (fun t : ℝ => Real.exp (-t ^ 2)) (Set.Ioi 0) := by
    have := (integrable_exp_neg_mul_sq (b := 1) one_pos).integrableOn (s := Set.Ioi 0)
    simpa using this
  have h1 := MeasureTheory.intervalIntegral_tendsto_integral_Ioi (0:ℝ) hint tendsto_id
  have h2 : (∫ t in Set.Ioi (0:ℝ), Real.exp (-t ^ 2)) = Real.sqrt π / 2 := by
    have := integral_gaussian_Ioi 1
    simpa using this
  rw [h2] at h1
  have h3 := h1.const_mul (2 / Real.sqrt π)
  have hsp : Real.sqrt π ≠ 0 := (Real.sqrt_pos.mpr Real.pi_pos).ne'
  have : 2 / Real.sqrt π * (Real.sqrt π / 2) = 1 := by field_simp
  rw [this] at h3
  exact h3

-- @site Gaussian.cdf_real
theorem erfR_neg (x : ℝ) : R.erfR (-x) = -R.erfR x := by
  unfold R.erfR
  have : (∫ t in (0:ℝ)..(-x), Real.exp (-t ^ 2)) = -∫ t in (0:ℝ)..x, Real.exp (-t ^ 2) := by
    have h := intervalIntegral.integral_comp_neg (a := 0) (b := x) (fun t : ℝ => Real.exp (-t ^ 2))
    simp only [neg_sq, neg_zero] at h
    rw [h, intervalIntegral.integral_symm]
  rw [this]; ring

-- @site Gaussian.cdf_real
theorem erfR_tendsto_atBot : Tendsto R.erfR atBot (𝓝 (-1)) := by
  have h := (erfR_tendsto_atTop.comp tendsto_neg_atBot_atTop).neg
  refine h.congr ?_
  intro x; simp only [Function.comp_def, erfR_neg, neg_neg]

-- @site Gaussian.cdf_real
theorem erfR_le_one (x : ℝ) : R.erfR x ≤ 1 :=
  erfR_mono.ge_of_tendsto erfR_tendsto_atTop x

-- @site Gaussian.cdf_real
theorem neg_one_le_erfR (x : ℝ) : -1 ≤ R.erfR x :=
  erfR_mono.le_of_tendsto erfR_tendsto_atBot x

/-! ### Gamma (shape > 0, rate > 0, support (0, ∞)) -/

-- @site Gamma.cdf_real
theorem Gamma_cdf_deriv (d : Gen.Gamma R) (x : ℝ) (hk : 0 < d.shape.val) (hr : 0 < d.rate.val) (hx : 0 < x) :
    HasDerivAt (fun t : ℝ => (Gen.Gamma.cdf_real d ⟨t⟩).val)
      (Real.exp (Gen.Gamma.ln_f_real d ⟨x⟩).val) x := by
  have hfun : (fun t : ℝ => (Gen.Gamma.cdf_real d ⟨t⟩).val) =
      fun t => R.incGammaR (d.rate.val * t) d.shape.val := by
    funext t; simp only [Gen.Gamma.cdf_real, R.incGamma_val, R.mul_val]
  have hG : 0 < Real.Gamma d.shape.val := Real.Gamma_pos_of_pos hk
  have hln : (Gen.Gamma.ln_f_real d ⟨x⟩).val =
      Real.log d.rate.val * d.shape.val + (-Real.log (Real.Gamma d.shape.val))
        + (Real.log x * (d.shape.val - 1) + (-(d.rate.val * x))) := by
    simp only [Gen.Gamma.ln_f_real, Gen.Gamma.ln_rate, Gen.Gamma.ln_gamma_shape, mulAdd, R.add_val, R.mul_val,
      R.sub_val, R.neg_val, R.ln_val, R.lgamma_val, one_val]
    ring
  rw [hfun, hln, Real.exp_add, Real.exp_add, Real.exp_add, Real.exp_mul, Real.exp_mul, Real.exp_log hr,
    Real.exp_log hx, Real.exp_neg (Real.log _), Real.exp_log hG]
  have h1 : HasDerivAt (fun t : ℝ => d.rate.val * t) d.rate.val x := by
    simpa using (hasDerivAt_id x).const_mul d.rate.val
  have h2 := incGammaR_comp_hasDerivAt (g := fun t : ℝ => d.rate.val * t) hk (mul_pos hr hx) h1
  refine h2.congr_deriv ?_
  rw [Real.mul_rpow hr.le hx.le, Real.rpow_sub_one hr.ne']
  field_simp

example : HasDerivAt (fun t : ℝ => (Gen.Gamma.cdf_real (⟨⟨3⟩, ⟨2⟩⟩ : Gen.Gamma R) ⟨t⟩).val)
    (Real.exp (Gen.Gamma.ln_f_real (⟨⟨3⟩, ⟨2⟩⟩ : Gen.Gamma R) ⟨1⟩).val) 1 :=
  Gamma_cdf_deriv ⟨⟨3⟩, ⟨2⟩⟩ 1 (by norm_num) (by norm_num) (by norm_num)

-- @site Gamma.sf_real
theorem Gamma_sf (d : Gen.Gamma R) (x : R) :
    (Gen.Gamma.sf_real d x).val = 1 - (Gen.Gamma.cdf_real d x).val := by
  simp only [Gen.Gamma.sf_real, R.sub_val, one_val]

/-! ### ChiSquared (k > 0, support (0, ∞)) -/

-- @site ChiSquared.cdf_real
theorem ChiSquared_cdf_deriv (d : Gen.ChiSquared R) (x : ℝ) (hk : 0 < d.k.val) (hx : 0 < x) :
    HasDerivAt (fun t : ℝ => (Gen.ChiSquared.cdf_real d ⟨t⟩).val)
      (Real.exp (Gen.ChiSquared.ln_f_real d ⟨x⟩).val) x := by
  have hfun : (fun t : ℝ => (Gen.ChiSquared.cdf_real d ⟨t⟩).val) =
      fun t => R.incGammaR (t / 2) (d.k.val / 2) := by
    funext t; simp only [Gen.ChiSquared.cdf_real, R.incGamma_val, R.div_val, two_val]
  have hk2 : 0 < d.k.val / 2 := by linarith
  have hG : 0 < Real.Gamma (d.k.val / 2) := Real.Gamma_pos_of_pos hk2
  have h2pos : (0:ℝ) < 2 := by norm_num
  have hln : (Gen.ChiSquared.ln_f_real d ⟨x⟩).val =
      Real.log 2 * (-(d.k.val / 2)) + (Real.log x * (d.k.val / 2 - 1) + (-(x / 2)))
        + (-Real.log (Real.Gamma (d.k.val / 2))) := by
    simp only [Gen.ChiSquared.ln_f_real, mulAdd, R.add_val, R.mul_val, R.sub_val, R.neg_val, R.div_val,
      R.ln_val, R.lgamma_val, R.ln2_val, one_val, two_val]
    ring
  rw [hfun, hln, Real.exp_add, Real.exp_add, Real.exp_add, Real.exp_mul, Real.exp_mul, Real.exp_log h2pos,
    Real.exp_log hx, Real.exp_neg (Real.log _), Real.exp_log hG]
  have h1 : HasDerivAt (fun t : ℝ => t / 2) (1 / 2) x := (hasDerivAt_id x).div_const 2
  have h2 := incGammaR_comp_hasDerivAt (g := fun t : ℝ => t / 2) hk2 (by positivity) h1
  refine h2.congr_deriv ?_
  have h2k : 0 < (2:ℝ) ^ (d.k.val / 2) := Real.rpow_pos_of_pos h2pos _
  rw [Real.div_rpow hx.le h2pos.le, Real.rpow_sub_one h2pos.ne', Real.rpow_neg h2pos.le]
  field_simp

example : HasDerivAt (fun t : ℝ => (Gen.ChiSquared.cdf_real (⟨⟨3⟩⟩ : Gen.ChiSquared R) ⟨t⟩).val)
    (Real.exp (Gen.ChiSquared.ln_f_real (⟨⟨3⟩⟩ : Gen.ChiSquared R) ⟨1⟩).val) 1 :=
  ChiSquared_cdf_deriv ⟨⟨3⟩⟩ 1 (by norm_num) (by norm_num)

-- @site ChiSquared.sf_real
theorem ChiSquared_sf (d : Gen.ChiSquared R) (x : R) :
    (Gen.ChiSquared.sf_real d x).val = 1 - (Gen.ChiSquared.cdf_real d x).val := by
  simp only [Gen.ChiSquared.sf_real, R.sub_val, one_val]

/-! ### InvGamma (shape > 0, scale > 0, support (0, ∞)) -/

-- @site InvGamma.cdf_real
theorem InvGamma_cdf_deriv (d : Gen.InvGamma R) (x : ℝ) (hk : 0 < d.shape.val) (hs : 0 < d.scale.val)
    (hx : 0 < x) :
    HasDerivAt (fun t : ℝ => (Gen.InvGamma.cdf_real d ⟨t⟩).val)
      (Real.exp (Gen.InvGamma.ln_f_real d ⟨x⟩).val) x := by
  have hfun : (fun t : ℝ => (Gen.InvGamma.cdf_real d ⟨t⟩).val) =
      fun t => 1 - R.incGammaR (d.scale.val / t) d.shape.val := by
    funext t; simp only [Gen.InvGamma.cdf_real, R.incGamma_val, R.div_val, R.sub_val, one_val]
  have hG : 0 < Real.Gamma d.shape.val := Real.Gamma_pos_of_pos hk
  have hln : (Gen.InvGamma.ln_f_real d ⟨x⟩).val =
      Real.log x * (-(d.shape.val + 1)) + (Real.log d.scale.val * d.shape.val
        + (-Real.log (Real.Gamma d.shape.val))) + (-(d.scale.val / x)) := by
    simp only [Gen.InvGamma.ln_f_real, mulAdd, R.add_val, R.mul_val, R.sub_val, R.neg_val, R.div_val,
      R.ln_val, R.lgamma_val, one_val]
    ring
  rw [hfun, hln, Real.exp_add, Real.exp_add, Real.exp_add, Real.exp_mul, Real.exp_mul, Real.exp_log hs,
    Real.exp_log hx, Real.exp_neg (Real.log _), Real.exp_log hG]
  exact (invGamma_pattern_hasDerivAt d.shape.val d.scale.val x hk hs hx).congr_deriv (by ring)

example : HasDerivAt (fun t : ℝ => (Gen.InvGamma.cdf_real (⟨⟨3⟩, ⟨2⟩⟩ : Gen.InvGamma R) ⟨t⟩).val)
    (Real.exp (Gen.InvGamma.ln_f_real (⟨⟨3⟩, ⟨2⟩⟩ : Gen.InvGamma R) ⟨1⟩).val) 1 :=
  InvGamma_cdf_deriv ⟨⟨3⟩, ⟨2⟩⟩ 1 (by norm_num) (by norm_num) (by norm_num)

-- @site InvGamma.sf_real
theorem InvGamma_sf (d : Gen.InvGamma R) (x : R) :
    (Gen.InvGamma.sf_real d x).val = 1 - (Gen.InvGamma.cdf_real d x).val := by
  simp only [Gen.InvGamma.sf_real, R.sub_val, one_val]

/-! ### InvChiSquared (v > 0, support (0, ∞)) -/

-- @site InvChiSquared.cdf_real
theorem InvChiSquared_cdf_deriv (d : Gen.InvChiSquared R) (x : ℝ) (hv : 0 < d.v.val) (hx : 0 < x) :
    HasDerivAt (fun t : ℝ => (Gen.InvChiSquared.cdf_real d ⟨t⟩).val)
      (Real.exp (Gen.InvChiSquared.ln_f_real d ⟨x⟩).val) x := by
  have hfun : (fun t : ℝ => (Gen.InvChiSquared.cdf_real d ⟨t⟩).val) =
      fun t => 1 - R.incGammaR ((1 / 2) / t) (d.v.val / 2) := by
    funext t
    simp only [Gen.InvChiSquared.cdf_real, RealLike.recip, R.incGamma_val, R.div_val, R.sub_val, R.mul_val,
      one_val, two_val]
    rw [div_div]
  have hv2 : 0 < d.v.val / 2 := by linarith
  have hG : 0 < Real.Gamma (d.v.val / 2) := Real.Gamma_pos_of_pos hv2
  have h2pos : (0:ℝ) < 2 := by norm_num
  have hln : (Gen.InvChiSquared.ln_f_real d ⟨x⟩).val =
      Real.log x * (-(d.v.val / 2 + 1)) + (Real.log 2 * (-(d.v.val / 2))
        + (-Real.log (Real.Gamma (d.v.val / 2)))) + (-((1 / 2) / x)) := by
    simp only [Gen.InvChiSquared.ln_f_real, Gen.InvChiSquared.ln_f_const, RealLike.recip, mulAdd, R.add_val,
      R.mul_val, R.sub_val, R.neg_val, R.div_val, R.ln_val, R.lgamma_val, R.ln2_val, one_val, two_val]
    rw [div_div]
    ring
  rw [hfun, hln, Real.exp_add, Real.exp_add, Real.exp_add, Real.exp_mul, Real.exp_mul, Real.exp_log h2pos,
    Real.exp_log hx, Real.exp_neg (Real.log _), Real.exp_log hG]
  refine (invGamma_pattern_hasDerivAt (d.v.val / 2) (1 / 2) x hv2 (by norm_num) hx).congr_deriv ?_
  rw [Real.div_rpow (by norm_num) h2pos.le, Real.one_rpow, Real.rpow_neg h2pos.le]
  ring

example : HasDerivAt (fun t : ℝ => (Gen.InvChiSquared.cdf_real (⟨⟨3⟩⟩ : Gen.InvChiSquared R) ⟨t⟩).val)
    (Real.exp (Gen.InvChiSquared.ln_f_real (⟨⟨3⟩⟩ : Gen.InvChiSquared R) ⟨1⟩).val) 1 :=
  InvChiSquared_cdf_deriv ⟨⟨3⟩⟩ 1 (by norm_num) (by norm_num)

-- @site InvChiSquared.sf_real
theorem InvChiSquared_sf (d : Gen.InvChiSquared R) (x : R) :
    (Gen.InvChiSquared.sf_real d x).val = 1 - (Gen.InvChiSquared.cdf_real d x).val := by
  simp only [Gen.InvChiSquared.sf_real, R.sub_val, one_val]

/-! ### ScaledInvChiSquared (v > 0, t2 > 0, support (0, ∞)) -/

-- @site ScaledInvChiSquared.cdf_real
theorem ScaledInvChiSquared_cdf_deriv (d : Gen.ScaledInvChiSquared R) (x : ℝ) (hv : 0 < d.v.val)
    (ht : 0 < d.t2.val) (hx : 0 < x) :
    HasDerivAt (fun t : ℝ => (Gen.ScaledInvChiSquared.cdf_real d ⟨t⟩).val)
      (Real.exp (Gen.ScaledInvChiSquared.ln_f_real d ⟨x⟩).val) x := by
  have hfun : (fun t : ℝ => (Gen.ScaledInvChiSquared.cdf_real d ⟨t⟩).val) =
      fun t => 1 - R.incGammaR ((d.v.val * d.t2.val / 2) / t) (d.v.val / 2) := by
    funext t
    simp only [Gen.ScaledInvChiSquared.cdf_real, R.incGamma_val, R.div_val, R.sub_val, R.mul_val,
      one_val, two_val]
    rw [div_div]
  have hv2 : 0 < d.v.val / 2 := by linarith
  have hc : 0 < d.v.val * d.t2.val / 2 := by positivity
  have hG : 0 < Real.Gamma (d.v.val / 2) := Real.Gamma_pos_of_pos hv2
  have hln : (Gen.ScaledInvChiSquared.ln_f_real d ⟨x⟩).val =
      Real.log x * (-(d.v.val / 2 + 1)) + (Real.log (d.v.val * d.t2.val / 2) * (d.v.val / 2)
        + (-Real.log (Real.Gamma (d.v.val / 2)))) + (-((d.v.val * d.t2.val / 2) / x)) := by
    simp only [Gen.ScaledInvChiSquared.ln_f_real, Gen.ScaledInvChiSquared.ln_f_const,
      Gen.ScaledInvChiSquared.ln_gamma_v_2, mulAdd, R.add_val, R.mul_val, R.sub_val, R.neg_val, R.div_val,
      R.ln_val, R.lgamma_val, one_val, two_val, half_val]
    rw [show d.t2.val * d.v.val * (1 / 2) = d.v.val * d.t2.val / 2 by ring, div_div]
    ring
  rw [hfun, hln, Real.exp_add, Real.exp_add, Real.exp_add, Real.exp_mul, Real.exp_mul, Real.exp_log hc,
    Real.exp_log hx, Real.exp_neg (Real.log _), Real.exp_log hG]
  exact (invGamma_pattern_hasDerivAt (d.v.val / 2) (d.v.val * d.t2.val / 2) x hv2 hc hx).congr_deriv (by ring)

example : HasDerivAt
    (fun t : ℝ => (Gen.ScaledInvChiSquared.cdf_real (⟨⟨3⟩, ⟨2⟩⟩ : Gen.ScaledInvChiSquared R) ⟨t⟩).val)
    (Real.exp (Gen.ScaledInvChiSquared.ln_f_real (⟨⟨3⟩, ⟨2⟩⟩ : Gen.ScaledInvChiSquared R) ⟨1⟩).val) 1 :=
  ScaledInvChiSquared_cdf_deriv ⟨⟨3⟩, ⟨2⟩⟩ 1 (by norm_num) (by norm_num) (by norm_num)

-- @site ScaledInvChiSquared.sf_real
theorem ScaledInvChiSquared_sf (d : Gen.ScaledInvChiSquared R) (x : R) :
    (Gen.ScaledInvChiSquared.sf_real d x).val = 1 - (Gen.ScaledInvChiSquared.cdf_real d x).val := by
  simp only [Gen.ScaledInvChiSquared.sf_real, R.sub_val, one_val]

/-! ### Beta (alpha > 0, beta > 0, support (0, 1)) -/

-- @site Beta.cdf_real
theorem Beta_cdf_deriv (d : Gen.Beta R) (x : ℝ) (ha : 0 < d.alpha.val) (hb : 0 < d.beta.val)
    (hx0 : 0 < x) (hx1 : x < 1) :
    HasDerivAt (fun t : ℝ => (Gen.Beta.cdf_real d ⟨t⟩).val)
      (Real.exp (Gen.Beta.ln_f_real d ⟨x⟩).val) x := by
  have hfun : (fun t : ℝ => (Gen.Beta.cdf_real d ⟨t⟩).val) =
      fun t => R.incBetaR t d.alpha.val d.beta.val := by
    funext t; simp only [Gen.Beta.cdf_real, R.incBeta_val]
  have hB : 0 < Real.Gamma d.alpha.val * Real.Gamma d.beta.val / Real.Gamma (d.alpha.val + d.beta.val) :=
    div_pos (mul_pos (Real.Gamma_pos_of_pos ha) (Real.Gamma_pos_of_pos hb))
      (Real.Gamma_pos_of_pos (by linarith))
  have h1x : 0 < 1 - x := by linarith
  have hln : (Gen.Beta.ln_f_real d ⟨x⟩).val =
      Real.log x * (d.alpha.val - 1) + Real.log (1 - x) * (d.beta.val - 1)
        + (-Real.log (Real.Gamma d.alpha.val * Real.Gamma d.beta.val / Real.Gamma (d.alpha.val + d.beta.val))) := by
    simp only [Gen.Beta.ln_f_real, Gen.Beta.ln_beta_ab, mulAdd, R.add_val, R.mul_val, R.sub_val, R.ln_val,
      R.lnBeta_val, one_val]
    ring
  rw [hfun, hln, Real.exp_add, Real.exp_add, Real.exp_mul, Real.exp_mul, Real.exp_log hx0, Real.exp_log h1x,
    Real.exp_neg (Real.log _), Real.exp_log hB]
  exact (incBetaR_hasDerivAt d.alpha.val d.beta.val x ha hx0 hx1).congr_deriv (by rw [div_eq_mul_inv])

example : HasDerivAt (fun t : ℝ => (Gen.Beta.cdf_real (⟨⟨2⟩, ⟨3⟩⟩ : Gen.Beta R) ⟨t⟩).val)
    (Real.exp (Gen.Beta.ln_f_real (⟨⟨2⟩, ⟨3⟩⟩ : Gen.Beta R) ⟨1/2⟩).val) (1/2) :=
  Beta_cdf_deriv ⟨⟨2⟩, ⟨3⟩⟩ (1/2) (by norm_num) (by norm_num) (by norm_num) (by norm_num)

-- @site Beta.sf_real
theorem Beta_sf (d : Gen.Beta R) (x : R) :
    (Gen.Beta.sf_real d x).val = 1 - (Gen.Beta.cdf_real d x).val := by
  simp only [Gen.Beta.sf_real, R.sub_val, one_val]

/-! ### Gaussian (sigma > 0, support ℝ) -/

-- @site Gaussian.cdf_real
theorem Gaussian_cdf_deriv (d : Gen.Gaussian R) (x : ℝ) (hσ : 0 < d.sigma.val) :
    HasDerivAt (fun t : ℝ => (Gen.Gaussian.cdf_real d ⟨t⟩).val)
      (Real.exp (Gen.Gaussian.ln_f_real d ⟨x⟩).val) x := by
  have hfun : (fun t : ℝ => (Gen.Gaussian.cdf_real d ⟨t⟩).val) =
      fun t => 1 / 2 * (1 + R.erfR ((t - d.mu.val) / (d.sigma.val * Real.sqrt 2))) := by
    funext t
    exact Gaussian_cdf_eq d t
  have h2pi : (0:ℝ) < 2 * π := by positivity
  have hln : (Gen.Gaussian.ln_f_real d ⟨x⟩).val =
      -(((x - d.mu.val) / (d.sigma.val * Real.sqrt 2)) ^ 2) + (-Real.log d.sigma.val)
        + (-Real.log (Real.sqrt (2 * π))) := by
    simp only [Gen.Gaussian.ln_f_real, Gen.Gaussian.ln_sigma, mulAdd, R.add_val, R.mul_val, R.sub_val,
      R.neg_val, R.div_val, R.ln_val, R.halfLn2Pi_val, half_val]
    rw [Real.log_sqrt h2pi.le, div_pow, mul_pow, Real.sq_sqrt (by norm_num : (0:ℝ) ≤ 2)]
    field_simp
    ring
  rw [hfun, hln, Real.exp_add, Real.exp_add, Real.exp_neg (Real.log _), Real.exp_neg (Real.log _),
    Real.exp_log hσ, Real.exp_log (Real.sqrt_pos.mpr h2pi)]
  have hden : d.sigma.val * Real.sqrt 2 ≠ 0 := (mul_pos hσ (Real.sqrt_pos.mpr (by norm_num))).ne'
  have h1 : HasDerivAt (fun t : ℝ => (t - d.mu.val) / (d.sigma.val * Real.sqrt 2))
      (1 / (d.sigma.val * Real.sqrt 2)) x :=
    ((hasDerivAt_id x).sub_const d.mu.val).div_const _
  have h2 := ((erfR_comp_hasDerivAt h1).const_add 1).const_mul (1 / 2 : ℝ)
  refine h2.congr_deriv ?_
  rw [Real.sqrt_mul (by norm_num : (0:ℝ) ≤ 2)]
  have hsp : Real.sqrt π ≠ 0 := (Real.sqrt_pos.mpr Real.pi_pos).ne'
  have hs2 : Real.sqrt 2 ≠ 0 := (Real.sqrt_pos.mpr (by norm_num)).ne'
  field_simp

example : HasDerivAt (fun t : ℝ => (Gen.Gaussian.cdf_real (⟨⟨1⟩, ⟨2⟩⟩ : Gen.Gaussian R) ⟨t⟩).val)
    (Real.exp (Gen.Gaussian.ln_f_real (⟨⟨1⟩, ⟨2⟩⟩ : Gen.Gaussian R) ⟨3⟩).val) 3 :=
  Gaussian_cdf_deriv ⟨⟨1⟩, ⟨2⟩⟩ 3 (by norm_num)

/-! ### LogNormal (sigma > 0, support (0, ∞)) -/

-- @site LogNormal.cdf_real
theorem LogNormal_cdf_deriv (d : Gen.LogNormal R) (x : ℝ) (hσ : 0 < d.sigma.val) (hx : 0 < x) :
    HasDerivAt (fun t : ℝ => (Gen.LogNormal.cdf_real d ⟨t⟩).val)
      (Real.exp (Gen.LogNormal.ln_f_real d ⟨x⟩).val) x := by
  have hfun : (fun t : ℝ => (Gen.LogNormal.cdf_real d ⟨t⟩).val) =
      fun t => 1 / 2 * R.erfR ((Real.log t - d.mu.val) / (Real.sqrt 2 * d.sigma.val)) + 1 / 2 := by
    funext t
    simp only [Gen.LogNormal.cdf_real, mulAdd, R.erf_val, R.div_val, R.sub_val, R.mul_val, R.add_val,
      R.sqrt2_val, R.ln_val, half_val]
  have h2pi : (0:ℝ) < 2 * π := by positivity
  have hln : (Gen.LogNormal.ln_f_real d ⟨x⟩).val =
      -(((Real.log x - d.mu.val) / (Real.sqrt 2 * d.sigma.val)) ^ 2) + (-Real.log x) + (-Real.log d.sigma.val)
        + (-Real.log (Real.sqrt (2 * π))) := by
    simp only [Gen.LogNormal.ln_f_real, mulAdd, R.add_val, R.mul_val, R.sub_val,
      R.neg_val, R.div_val, R.ln_val, R.halfLn2Pi_val, half_val]
    rw [Real.log_sqrt h2pi.le, div_pow, mul_pow, Real.sq_sqrt (by norm_num : (0:ℝ) ≤ 2)]
    field_simp
    ring
  rw [hfun, hln, Real.exp_add, Real.exp_add, Real.exp_add, Real.exp_neg (Real.log _), Real.exp_neg (Real.log _),
    Real.exp_neg (Real.log _), Real.exp_log hσ, Real.exp_log hx, Real.exp_log (Real.sqrt_pos.mpr h2pi)]
  have h1 : HasDerivAt (fun t : ℝ => (Real.log t - d.mu.val) / (Real.sqrt 2 * d.sigma.val))
      (x⁻¹ / (Real.sqrt 2 * d.sigma.val)) x :=
    ((Real.hasDerivAt_log hx.ne').sub_const d.mu.val).div_const _
  have h2 := ((erfR_comp_hasDerivAt h1).const_mul (1 / 2 : ℝ)).add_const (1 / 2)
  refine h2.congr_deriv ?_
  rw [Real.sqrt_mul (by norm_num : (0:ℝ) ≤ 2)]
  have hsp : Real.sqrt π ≠ 0 := (Real.sqrt_pos.mpr Real.pi_pos).ne'
  have hs2 : Real.sqrt 2 ≠ 0 := (Real.sqrt_pos.mpr (by norm_num)).ne'
  field_simp

example : HasDerivAt (fun t : ℝ => (Gen.LogNormal.cdf_real (⟨⟨1⟩, ⟨2⟩⟩ : Gen.LogNormal R) ⟨t⟩).val)
    (Real.exp (Gen.LogNormal.ln_f_real (⟨⟨1⟩, ⟨2⟩⟩ : Gen.LogNormal R) ⟨3⟩).val) 3 :=
  LogNormal_cdf_deriv ⟨⟨1⟩, ⟨2⟩⟩ 3 (by norm_num) (by norm_num)

/-! ### range, monotonicity and limits of the special-function CDFs -/

-- @site InvGamma.cdf_real
/-- shared shape of the inverse-gamma family: t ↦ 1 - P(a, s/t) on (0, ∞) -/
theorem invGamma_pattern_mono (a s : ℝ) (ha : 0 < a) (hs : 0 < s) :
    MonotoneOn (fun t : ℝ => 1 - R.incGammaR (s / t) a) (Set.Ioi 0) := by
  intro x hx y hy hxy
  have hx0 : (0:ℝ) < x := hx
  have hy0 : (0:ℝ) < y := hy
  have h1 : s / y ≤ s / x := div_le_div_of_nonneg_left hs.le hx0 hxy
  have h2 := incGammaR_mono a ha (Set.mem_Ici.mpr (div_pos hs hy0).le) (Set.mem_Ici.mpr (div_pos hs hx0).le) h1
  simp only at h2 ⊢
  linarith

-- @site InvGamma.cdf_real
theorem invGamma_pattern_range (a s x : ℝ) (ha : 0 < a) (hs : 0 < s) (hx : 0 < x) :
    0 ≤ 1 - R.incGammaR (s / x) a ∧ 1 - R.incGammaR (s / x) a ≤ 1 := by
  have h1 := incGammaR_nonneg a (s / x) ha (div_pos hs hx).le
  have h2 := incGammaR_le_one a (s / x) ha (div_pos hs hx).le
  constructor <;> linarith

-- @site InvGamma.cdf_real
theorem invGamma_pattern_tendsto_top (a s : ℝ) (ha : 0 < a) :
    Tendsto (fun t : ℝ => 1 - R.incGammaR (s / t) a) atTop (𝓝 1) := by
  have h1 : Tendsto (fun t : ℝ => s / t) atTop (𝓝 0) := tendsto_const_nhds.div_atTop tendsto_id
  have h2 := ((incGammaR_continuous a ha).tendsto 0).comp h1
  rw [incGammaR_zero] at h2
  simpa [Function.comp_def] using h2.const_sub 1

-- @site InvGamma.cdf_real
theorem invGamma_pattern_tendsto_zero (a s : ℝ) (ha : 0 < a) (hs : 0 < s) :
    Tendsto (fun t : ℝ => 1 - R.incGammaR (s / t) a) (𝓝[>] 0) (𝓝 0) := by
  have h1 : Tendsto (fun t : ℝ => s / t) (𝓝[>] 0) atTop := by
    have := tendsto_inv_nhdsGT_zero (𝕜 := ℝ) |>.const_mul_atTop hs
    simpa only [div_eq_mul_inv] using this
  have h2 := (incGammaR_tendsto_atTop a ha).comp h1
  simpa [Function.comp_def] using h2.const_sub 1

-- @site Gamma.cdf_real
theorem Gamma_cdf_range (d : Gen.Gamma R) (x : ℝ) (hk : 0 < d.shape.val) (hr : 0 < d.rate.val) (hx : 0 ≤ x) :
    0 ≤ (Gen.Gamma.cdf_real d ⟨x⟩).val ∧ (Gen.Gamma.cdf_real d ⟨x⟩).val ≤ 1 := by
  simp only [Gen.Gamma.cdf_real, R.incGamma_val, R.mul_val]
  exact ⟨incGammaR_nonneg _ _ hk (mul_nonneg hr.le hx), incGammaR_le_one _ _ hk (mul_nonneg hr.le hx)⟩

-- @site Gamma.cdf_real
theorem Gamma_cdf_mono (d : Gen.Gamma R) (hk : 0 < d.shape.val) (hr : 0 < d.rate.val) :
    MonotoneOn (fun t : ℝ => (Gen.Gamma.cdf_real d ⟨t⟩).val) (Set.Ici 0) := by
  intro x hx y hy hxy
  simp only [Gen.Gamma.cdf_real, R.incGamma_val, R.mul_val]
  exact incGammaR_mono _ hk (Set.mem_Ici.mpr (mul_nonneg hr.le hx)) (Set.mem_Ici.mpr (mul_nonneg hr.le hy))
    (mul_le_mul_of_nonneg_left hxy hr.le)

-- @site Gamma.cdf_real
theorem Gamma_cdf_tendsto_top (d : Gen.Gamma R) (hk : 0 < d.shape.val) (hr : 0 < d.rate.val) :
    Tendsto (fun t : ℝ => (Gen.Gamma.cdf_real d ⟨t⟩).val) atTop (𝓝 1) := by
  simp only [Gen.Gamma.cdf_real, R.incGamma_val, R.mul_val]
  exact (incGammaR_tendsto_atTop _ hk).comp (tendsto_id.const_mul_atTop hr)

-- @site Gamma.cdf_real
theorem Gamma_cdf_bot (d : Gen.Gamma R) : (Gen.Gamma.cdf_real d ⟨0⟩).val = 0 := by
  simp only [Gen.Gamma.cdf_real, R.incGamma_val, R.mul_val, mul_zero, incGammaR_zero]

-- @site ChiSquared.cdf_real
theorem ChiSquared_cdf_range (d : Gen.ChiSquared R) (x : ℝ) (hk : 0 < d.k.val) (hx : 0 ≤ x) :
    0 ≤ (Gen.ChiSquared.cdf_real d ⟨x⟩).val ∧ (Gen.ChiSquared.cdf_real d ⟨x⟩).val ≤ 1 := by
  simp only [Gen.ChiSquared.cdf_real, R.incGamma_val, R.div_val, two_val]
  have hk2 : 0 < d.k.val / 2 := by linarith
  have hx2 : 0 ≤ x / 2 := by linarith
  exact ⟨incGammaR_nonneg _ _ hk2 hx2, incGammaR_le_one _ _ hk2 hx2⟩

-- @site ChiSquared.cdf_real
theorem ChiSquared_cdf_mono (d : Gen.ChiSquared R) (hk : 0 < d.k.val) :
    MonotoneOn (fun t : ℝ => (Gen.ChiSquared.cdf_real d ⟨t⟩).val) (Set.Ici 0) := by
  intro x hx y hy hxy
  have hx0 : (0:ℝ) ≤ x := hx
  have hy0 : (0:ℝ) ≤ y := hy
  simp only [Gen.ChiSquared.cdf_real, R.incGamma_val, R.div_val, two_val]
  exact incGammaR_mono _ (by linarith) (Set.mem_Ici.mpr (by linarith)) (Set.mem_Ici.mpr (by linarith))
    (by linarith)

-- @site ChiSquared.cdf_real
theorem ChiSquared_cdf_tendsto_top (d : Gen.ChiSquared R) (hk : 0 < d.k.val) :
    Tendsto (fun t : ℝ => (Gen.ChiSquared.cdf_real d ⟨t⟩).val) atTop (𝓝 1) := by
  simp only [Gen.ChiSquared.cdf_real, R.incGamma_val, R.div_val, two_val]
  exact (incGammaR_tendsto_atTop _ (by linarith)).comp (tendsto_id.atTop_div_const (by norm_num))

-- @site ChiSquared.cdf_real
theorem ChiSquared_cdf_bot (d : Gen.ChiSquared R) : (Gen.ChiSquared.cdf_real d ⟨0⟩).val = 0 := by
  simp only [Gen.ChiSquared.cdf_real, R.incGamma_val, R.div_val, zero_div, incGammaR_zero]

-- @site InvGamma.cdf_real
theorem InvGamma_cdf_range (d : Gen.InvGamma R) (x : ℝ) (hk : 0 < d.shape.val) (hs : 0 < d.scale.val)
    (hx : 0 < x) :
    0 ≤ (Gen.InvGamma.cdf_real d ⟨x⟩).val ∧ (Gen.InvGamma.cdf_real d ⟨x⟩).val ≤ 1 := by
  rw [InvGamma_cdf_eq]; exact invGamma_pattern_range _ _ _ hk hs hx

-- @site InvGamma.cdf_real
theorem InvGamma_cdf_mono (d : Gen.InvGamma R) (hk : 0 < d.shape.val) (hs : 0 < d.scale.val) :
    MonotoneOn (fun t : ℝ => (Gen.InvGamma.cdf_real d ⟨t⟩).val) (Set.Ioi 0) := by
  simp only [InvGamma_cdf_eq]; exact invGamma_pattern_mono _ _ hk hs

-- @site InvGamma.cdf_real
theorem InvGamma_cdf_tendsto_top (d : Gen.InvGamma R) (hk : 0 < d.shape.val) :
    Tendsto (fun t : ℝ => (Gen.InvGamma.cdf_real d ⟨t⟩).val) atTop (𝓝 1) := by
  simp only [InvGamma_cdf_eq]; exact invGamma_pattern_tendsto_top _ _ hk

-- @site InvGamma.cdf_real
theorem InvGamma_cdf_tendsto_bot (d : Gen.InvGamma R) (hk : 0 < d.shape.val) (hs : 0 < d.scale.val) :
    Tendsto (fun t : ℝ => (Gen.InvGamma.cdf_real d ⟨t⟩).val) (𝓝[>] 0) (𝓝 0) := by
  simp only [InvGamma_cdf_eq]; exact invGamma_pattern_tendsto_zero _ _ hk hs

-- @site InvChiSquared.cdf_real
theorem InvChiSquared_cdf_range (d : Gen.InvChiSquared R) (x : ℝ) (hv : 0 < d.v.val) (hx : 0 < x) :
    0 ≤ (Gen.InvChiSquared.cdf_real d ⟨x⟩).val ∧ (Gen.InvChiSquared.cdf_real d ⟨x⟩).val ≤ 1 := by
  rw [InvChiSquared_cdf_eq]; exact invGamma_pattern_range _ _ _ (by linarith) (by norm_num) hx

-- @site InvChiSquared.cdf_real
theorem InvChiSquared_cdf_mono (d : Gen.InvChiSquared R) (hv : 0 < d.v.val) :
    MonotoneOn (fun t : ℝ => (Gen.InvChiSquared.cdf_real d ⟨t⟩).val) (Set.Ioi 0) := by
  simp only [InvChiSquared_cdf_eq]; exact invGamma_pattern_mono _ _ (by linarith) (by norm_num)

-- @site InvChiSquared.cdf_real
theorem InvChiSquared_cdf_tendsto_top (d : Gen.InvChiSquared R) (hv : 0 < d.v.val) :
    Tendsto (fun t : ℝ => (Gen.InvChiSquared.cdf_real d ⟨t⟩).val) atTop (𝓝 1) := by
  simp only [InvChiSquared_cdf_eq]; exact invGamma_pattern_tendsto_top _ _ (by linarith)

-- @site InvChiSquared.cdf_real
theorem InvChiSquared_cdf_tendsto_bot (d : Gen.InvChiSquared R) (hv : 0 < d.v.val) :
    Tendsto (fun t : ℝ => (Gen.InvChiSquared.cdf_real d ⟨t⟩).val) (𝓝[>] 0) (𝓝 0) := by
  simp only [InvChiSquared_cdf_eq]; exact invGamma_pattern_tendsto_zero _ _ (by linarith) (by norm_num)

-- @site ScaledInvChiSquared.cdf_real
theorem ScaledInvChiSquared_cdf_range (d : Gen.ScaledInvChiSquared R) (x : ℝ) (hv : 0 < d.v.val)
    (ht : 0 < d.t2.val) (hx : 0 < x) :
    0 ≤ (Gen.ScaledInvChiSquared.cdf_real d ⟨x⟩).val ∧ (Gen.ScaledInvChiSquared.cdf_real d ⟨x⟩).val ≤ 1 := by
  rw [ScaledInvChiSquared_cdf_eq]; exact invGamma_pattern_range _ _ _ (by linarith) (by positivity) hx

-- @site ScaledInvChiSquared.cdf_real
theorem ScaledInvChiSquared_cdf_mono (d : Gen.ScaledInvChiSquared R) (hv : 0 < d.v.val) (ht : 0 < d.t2.val) :
    MonotoneOn (fun t : ℝ => (Gen.ScaledInvChiSquared.cdf_real d ⟨t⟩).val) (Set.Ioi 0) := by
  simp only [ScaledInvChiSquared_cdf_eq]; exact invGamma_pattern_mono _ _ (by linarith) (by positivity)

-- @site ScaledInvChiSquared.cdf_real
theorem ScaledInvChiSquared_cdf_tendsto_top (d : Gen.ScaledInvChiSquared R) (hv : 0 < d.v.val) :
    Tendsto (fun t : ℝ => (Gen.ScaledInvChiSquared.cdf_real d ⟨t⟩).val) atTop (𝓝 1) := by
  simp only [ScaledInvChiSquared_cdf_eq]; exact invGamma_pattern_tendsto_top _ _ (by linarith)

-- @site ScaledInvChiSquared.cdf_real
theorem ScaledInvChiSquared_cdf_tendsto_bot (d : Gen.ScaledInvChiSquared R) (hv : 0 < d.v.val)
    (ht : 0 < d.t2.val) :
    Tendsto (fun t : ℝ => (Gen.ScaledInvChiSquared.cdf_real d ⟨t⟩).val) (𝓝[>] 0) (𝓝 0) := by
  simp only [ScaledInvChiSquared_cdf_eq]
  exact invGamma_pattern_tendsto_zero _ _ (by linarith) (by positivity)

-- @site Gaussian.cdf_real
theorem Gaussian_cdf_range (d : Gen.Gaussian R) (x : ℝ) :
    0 ≤ (Gen.Gaussian.cdf_real d ⟨x⟩).val ∧ (Gen.Gaussian.cdf_real d ⟨x⟩).val ≤ 1 := by
  rw [Gaussian_cdf_eq]
  have h1 := erfR_le_one ((x - d.mu.val) / (d.sigma.val * Real.sqrt 2))
  have h2 := neg_one_le_erfR ((x - d.mu.val) / (d.sigma.val * Real.sqrt 2))
  constructor <;> linarith

-- @site Gaussian.cdf_real
theorem Gaussian_cdf_mono (d : Gen.Gaussian R) (hσ : 0 < d.sigma.val) :
    Monotone (fun t : ℝ => (Gen.Gaussian.cdf_real d ⟨t⟩).val) := by
  intro s t hst
  simp only [Gaussian_cdf_eq]
  have hden : 0 < d.sigma.val * Real.sqrt 2 := mul_pos hσ (Real.sqrt_pos.mpr (by norm_num))
  have := erfR_mono (div_le_div_of_nonneg_right (by linarith : s - d.mu.val ≤ t - d.mu.val) hden.le)
  linarith

-- @site Gaussian.cdf_real
theorem Gaussian_cdf_tendsto_top (d : Gen.Gaussian R) (hσ : 0 < d.sigma.val) :
    Tendsto (fun t : ℝ => (Gen.Gaussian.cdf_real d ⟨t⟩).val) atTop (𝓝 1) := by
  simp only [Gaussian_cdf_eq]
  have hden : 0 < d.sigma.val * Real.sqrt 2 := mul_pos hσ (Real.sqrt_pos.mpr (by norm_num))
  have h1 : Tendsto (fun t : ℝ => (t - d.mu.val) / (d.sigma.val * Real.sqrt 2)) atTop atTop :=
    (tendsto_atTop_add_const_right atTop (-d.mu.val) tendsto_id).atTop_div_const hden
  have h2 := ((erfR_tendsto_atTop.comp h1).const_add 1).const_mul (1 / 2 : ℝ)
  have : (1 / 2 : ℝ) * (1 + 1) = 1 := by norm_num
  rw [this] at h2
  exact h2

-- @site Gaussian.cdf_real
theorem Gaussian_cdf_tendsto_bot (d : Gen.Gaussian R) (hσ : 0 < d.sigma.val) :
    Tendsto (fun t : ℝ => (Gen.Gaussian.cdf_real d ⟨t⟩).val) atBot (𝓝 0) := by
  simp only [Gaussian_cdf_eq]
  have hden : 0 < d.sigma.val * Real.sqrt 2 := mul_pos hσ (Real.sqrt_pos.mpr (by norm_num))
  have h1 : Tendsto (fun t : ℝ => (t - d.mu.val) / (d.sigma.val * Real.sqrt 2)) atBot atBot :=
    (tendsto_atBot_add_const_right atBot (-d.mu.val) tendsto_id).atBot_div_const hden
  have h2 := ((erfR_tendsto_atBot.comp h1).const_add 1).const_mul (1 / 2 : ℝ)
  have : (1 / 2 : ℝ) * (1 + -1) = 0 := by norm_num
  rw [this] at h2
  exact h2

-- @site LogNormal.cdf_real
theorem LogNormal_cdf_range (d : Gen.LogNormal R) (x : ℝ) :
    0 ≤ (Gen.LogNormal.cdf_real d ⟨x⟩).val ∧ (Gen.LogNormal.cdf_real d ⟨x⟩).val ≤ 1 := by
  rw [LogNormal_cdf_eq]
  have h1 := erfR_le_one ((Real.log x - d.mu.val) / (Real.sqrt 2 * d.sigma.val))
  have h2 := neg_one_le_erfR ((Real.log x - d.mu.val) / (Real.sqrt 2 * d.sigma.val))
  constructor <;> linarith

-- @site LogNormal.cdf_real
theorem LogNormal_cdf_mono (d : Gen.LogNormal R) (hσ : 0 < d.sigma.val) :
    MonotoneOn (fun t : ℝ => (Gen.LogNormal.cdf_real d ⟨t⟩).val) (Set.Ioi 0) := by
  intro s hs t _ hst
  simp only [LogNormal_cdf_eq]
  have hden : 0 < Real.sqrt 2 * d.sigma.val := mul_pos (Real.sqrt_pos.mpr (by norm_num)) hσ
  have hlog : Real.log s ≤ Real.log t := Real.log_le_log hs hst
  have := erfR_mono (div_le_div_of_nonneg_right (by linarith : Real.log s - d.mu.val ≤ Real.log t - d.mu.val)
    hden.le)
  linarith

-- @site LogNormal.cdf_real
theorem LogNormal_cdf_tendsto_top (d : Gen.LogNormal R) (hσ : 0 < d.sigma.val) :
    Tendsto (fun t : ℝ => (Gen.LogNormal.cdf_real d ⟨t⟩).val) atTop (𝓝 1) := by
  simp only [LogNormal_cdf_eq]
  have hden : 0 < Real.sqrt 2 * d.sigma.val := mul_pos (Real.sqrt_pos.mpr (by norm_num)) hσ
  have h1 : Tendsto (fun t : ℝ => (Real.log t - d.mu.val) / (Real.sqrt 2 * d.sigma.val)) atTop atTop :=
    (tendsto_atTop_add_const_right atTop (-d.mu.val) Real.tendsto_log_atTop).atTop_div_const hden
  have h2 := ((erfR_tendsto_atTop.comp h1).const_mul (1 / 2 : ℝ)).add_const (1 / 2)
  have : (1 / 2 : ℝ) * 1 + 1 / 2 = 1 := by norm_num
  rw [this] at h2
  exact h2

-- @site LogNormal.cdf_real
theorem LogNormal_cdf_tendsto_bot (d : Gen.LogNormal R) (hσ : 0 < d.sigma.val) :
    Tendsto (fun t : ℝ => (Gen.LogNormal.cdf_real d ⟨t⟩).val) (𝓝[>] 0) (𝓝 0) := by
  simp only [LogNormal_cdf_eq]
  have hden : 0 < Real.sqrt 2 * d.sigma.val := mul_pos (Real.sqrt_pos.mpr (by norm_num)) hσ
  have h1 : Tendsto (fun t : ℝ => (Real.log t - d.mu.val) / (Real.sqrt 2 * d.sigma.val)) (𝓝[>] 0) atBot :=
    (tendsto_atBot_add_const_right _ (-d.mu.val) Real.tendsto_log_nhdsGT_zero).atBot_div_const hden
  have h2 := ((erfR_tendsto_atBot.comp h1).const_mul (1 / 2 : ℝ)).add_const (1 / 2)
  have : (1 / 2 : ℝ) * -1 + 1 / 2 = 0 := by norm_num
  rw [this] at h2
  exact h2

/-! ### Poisson: 1 - P(k+1, λ) is the partial sum of the textbook pmf -/

-- @site Poisson.cdf_nat
/-- S_k(x) = Σ_{j ≤ k} e^{-x} x^j / j!  has derivative  -e^{-x} x^k / k! -/
theorem poissonSum_hasDerivAt (k : ℕ) (x : ℝ) :
    HasDerivAt (fun y : ℝ => ∑ j ∈ Finset.range (k + 1), Real.exp (-y) * y ^ j / (j.factorial : ℝ))
      (-(Real.exp (-x) * x ^ k / (k.factorial : ℝ))) x := by
  induction k with
  | zero =>
    have h : HasDerivAt (fun y : ℝ => Real.exp (-y)) (-(Real.exp (-x))) x := by
      simpa using (hasDerivAt_id x).fun_neg.exp
    simpa using h
  | succ k ih =>
    have hterm : HasDerivAt (fun y : ℝ => Real.exp (-y) * y ^ (k + 1) / ((k + 1).factorial : ℝ))
        ((-(Real.exp (-x)) * x ^ (k + 1) + Real.exp (-x) * (((k + 1 : ℕ) : ℝ) * x ^ k)) / ((k + 1).factorial : ℝ)) x := by
      have h1 : HasDerivAt (fun y : ℝ => Real.exp (-y)) (-(Real.exp (-x))) x := by
        simpa using (hasDerivAt_id x).fun_neg.exp
      have h2 : HasDerivAt (fun y : ℝ => y ^ (k + 1)) (((k + 1 : ℕ) : ℝ) * x ^ k) x := by
        simpa using hasDerivAt_pow (k + 1) x
      exact (h1.mul h2).div_const _
    have hsum := ih.add hterm
    have hfun : (fun y : ℝ => ∑ j ∈ Finset.range (k + 1 + 1), Real.exp (-y) * y ^ j / (j.factorial : ℝ)) =
        fun y => (∑ j ∈ Finset.range (k + 1), Real.exp (-y) * y ^ j / (j.factorial : ℝ))
          + Real.exp (-y) * y ^ (k + 1) / ((k + 1).factorial : ℝ) := by
      funext y; rw [Finset.sum_range_succ]
    rw [hfun]
    refine hsum.congr_deriv ?_
    have hk : ((k + 1).factorial : ℝ) = ((k + 1 : ℕ) : ℝ) * (k.factorial : ℝ) := by
      rw [Nat.factorial_succ]; push_cast; ring
    have h1 : (k.factorial : ℝ) ≠ 0 := by positivity
    have h2 : ((k + 1 : ℕ) : ℝ) ≠ 0 := by positivity
    rw [hk]
    field_simp
    ring

-- @site Poisson.cdf_nat
/-- P(k+1, ·) on the carrier is smooth and its derivative is x^k e^{-x} / k! at every real x -/
theorem incGammaR_nat_hasDerivAt (k : ℕ) (x : ℝ) :
    HasDerivAt (fun y : ℝ => R.incGammaR y ((k : ℝ) + 1)) (x ^ k * Real.exp (-x) / (k.factorial : ℝ)) x := by
  have hfun : (fun y : ℝ => R.incGammaR y ((k : ℝ) + 1)) =
      fun y => (∫ t in (0:ℝ)..y, t ^ k * Real.exp (-t)) / (k.factorial : ℝ) := by
    funext y
    simp only [R.incGammaR, add_sub_cancel_right, Real.rpow_natCast, Real.Gamma_nat_eq_factorial]
  rw [hfun]
  have hc : Continuous (fun t : ℝ => t ^ k * Real.exp (-t)) := by fun_prop
  exact ((hc.integral_hasStrictDerivAt 0 x).hasDerivAt).div_const _

-- @site Poisson.cdf_nat
/-- the classical identity Q(k+1, x) = Σ_{j ≤ k} e^{-x} x^j / j! -/
theorem one_sub_incGammaR_nat (k : ℕ) (x : ℝ) :
    1 - R.incGammaR x ((k : ℝ) + 1) = ∑ j ∈ Finset.range (k + 1), Real.exp (-x) * x ^ j / (j.factorial : ℝ) := by
  set G : ℝ → ℝ := fun y => R.incGammaR y ((k : ℝ) + 1)
    + ∑ j ∈ Finset.range (k + 1), Real.exp (-y) * y ^ j / (j.factorial : ℝ) with hG
  have hd : ∀ y, HasDerivAt G 0 y := by
    intro y
    have := (incGammaR_nat_hasDerivAt k y).add (poissonSum_hasDerivAt k y)
    exact this.congr_deriv (by ring)
  have hconst := is_const_of_deriv_eq_zero (fun y => (hd y).differentiableAt) (fun y => (hd y).deriv) x 0
  have h0 : G 0 = 1 := by
    simp only [hG, incGammaR_zero, zero_add, neg_zero, Real.exp_zero, one_mul]
    rw [Finset.sum_range_succ']
    simp
  have : G x = 1 := by rw [hconst, h0]
  simp only [hG] at this
  linarith

/- Full statement:  cdf k = Σ_{j ≤ k} pmf j  with pmf = exp ∘ ln_f of the *generated* object.  On `R` this holds only up
   to the rounding of the decimal table `LN_FACT` (ln j!, j < 254) and the Stirling branch of `Gen.ln_fact`, which are
   not exactly `log j!`; proved here against the textbook pmf e^{-λ} λ^j / j!. -/
-- @site Poisson.cdf_nat
theorem Poisson_cdf_sum_partial (d : Gen.Poisson R) (k : ℕ) :
    (Gen.Poisson.cdf_nat d k).val =
      ∑ j ∈ Finset.range (k + 1), Real.exp (-d.rate.val) * d.rate.val ^ j / (j.factorial : ℝ) := by
  simp only [Gen.Poisson.cdf_nat, R.sub_val, R.incGamma_val, R.add_val, R.ofNatR_val, one_val]
  exact one_sub_incGammaR_nat k d.rate.val

example : (Gen.Poisson.cdf_nat (⟨⟨2⟩⟩ : Gen.Poisson R) 1).val =
    ∑ j ∈ Finset.range 2, Real.exp (-2) * (2:ℝ) ^ j / (j.factorial : ℝ) :=
  Poisson_cdf_sum_partial ⟨⟨2⟩⟩ 1

-- @site Poisson.cdf_nat
theorem Poisson_cdf_mono (d : Gen.Poisson R) (hr : 0 ≤ d.rate.val) :
    Monotone (fun k : ℕ => (Gen.Poisson.cdf_nat d k).val) := by
  apply monotone_nat_of_le_succ
  intro k
  rw [Poisson_cdf_sum_partial, Poisson_cdf_sum_partial, Finset.sum_range_succ _ (k + 1)]
  have : 0 ≤ Real.exp (-d.rate.val) * d.rate.val ^ (k + 1) / ((k + 1).factorial : ℝ) := by positivity
  linarith

-- @site Poisson.cdf_nat
theorem Poisson_cdf_range (d : Gen.Poisson R) (k : ℕ) (hr : 0 < d.rate.val) :
    0 ≤ (Gen.Poisson.cdf_nat d k).val ∧ (Gen.Poisson.cdf_nat d k).val ≤ 1 := by
  have hk : (0:ℝ) < (k : ℝ) + 1 := by positivity
  have h1 := incGammaR_nonneg ((k : ℝ) + 1) d.rate.val hk hr.le
  have h2 := incGammaR_le_one ((k : ℝ) + 1) d.rate.val hk hr.le
  simp only [Gen.Poisson.cdf_nat, R.sub_val, R.incGamma_val, R.add_val, R.ofNatR_val, one_val]
  constructor <;> linarith

-- @site Poisson.sf_nat
theorem Poisson_sf (d : Gen.Poisson R) (k : ℕ) :
    (Gen.Poisson.sf_nat d k).val = 1 - (Gen.Poisson.cdf_nat d k).val := by
  simp only [Gen.Poisson.sf_nat, R.sub_val, one_val]

/-! ### Beta: cdf(0) = 0, non-negative and monotone on [0, 1) -/

-- @site Beta.cdf_real
theorem betaIntegrand_intervalIntegrable (a b u v : ℝ) (ha : 0 < a) (hu : u < 1) (hv : v < 1) :
    IntervalIntegrable (fun t : ℝ => t ^ (a - 1) * (1 - t) ^ (b - 1)) volume u v := by
  refine (intervalIntegral.intervalIntegrable_rpow' (by linarith)).mul_continuousOn ?_
  intro t ht
  have ht1 : t < 1 := by rcases Set.mem_uIcc.mp ht with h | h <;> linarith [h.2]
  have : 1 - t ≠ 0 := by linarith
  exact ((Real.continuousAt_rpow_const (1 - t) (b - 1) (Or.inl this)).comp
    (continuous_const.sub continuous_id).continuousAt).continuousWithinAt

-- @site Beta.cdf_real
theorem incBetaR_mono (a b : ℝ) (ha : 0 < a) (hb : 0 < b) :
    MonotoneOn (fun x : ℝ => R.incBetaR x a b) (Set.Ico 0 1) := by
  intro x hx y hy hxy
  simp only [R.incBetaR]
  have hB : 0 < Real.Gamma a * Real.Gamma b / Real.Gamma (a + b) :=
    div_pos (mul_pos (Real.Gamma_pos_of_pos ha) (Real.Gamma_pos_of_pos hb)) (Real.Gamma_pos_of_pos (by linarith))
  have hadd := intervalIntegral.integral_add_adjacent_intervals
    (betaIntegrand_intervalIntegrable a b 0 x ha (by norm_num) hx.2)
    (betaIntegrand_intervalIntegrable a b x y ha hx.2 hy.2)
  have hnn : 0 ≤ ∫ t in x..y, t ^ (a - 1) * (1 - t) ^ (b - 1) := by
    apply intervalIntegral.integral_nonneg hxy
    intro t ht
    exact mul_nonneg (Real.rpow_nonneg (le_trans hx.1 ht.1) _)
      (Real.rpow_nonneg (by linarith [ht.2, hy.2]) _)
  exact div_le_div_of_nonneg_right (by linarith) hB.le

-- @site Beta.cdf_real
theorem Beta_cdf_bot (d : Gen.Beta R) : (Gen.Beta.cdf_real d ⟨0⟩).val = 0 := by
  simp [Gen.Beta.cdf_real, R.incBetaR]

-- @site Beta.cdf_real
theorem Beta_cdf_mono (d : Gen.Beta R) (ha : 0 < d.alpha.val) (hb : 0 < d.beta.val) :
    MonotoneOn (fun t : ℝ => (Gen.Beta.cdf_real d ⟨t⟩).val) (Set.Ico 0 1) := by
  simp only [Gen.Beta.cdf_real, R.incBeta_val]
  exact incBetaR_mono _ _ ha hb

/- Full statement: 0 ≤ cdf x ≤ 1 on [0,1] and cdf 1 = 1.  The upper bound needs ∫₀¹ t^(α-1)(1-t)^(β-1) = Γ(α)Γ(β)/Γ(α+β)
   for the *real* interval integral (Mathlib states it for the complex `betaIntegral`); proved: the lower bound. -/
-- @site Beta.cdf_real
theorem Beta_cdf_range_partial (d : Gen.Beta R) (x : ℝ) (ha : 0 < d.alpha.val) (hb : 0 < d.beta.val)
    (hx0 : 0 ≤ x) (hx1 : x < 1) : 0 ≤ (Gen.Beta.cdf_real d ⟨x⟩).val := by
  have := Beta_cdf_mono d ha hb (Set.mem_Ico.mpr ⟨le_refl 0, by norm_num⟩) (Set.mem_Ico.mpr ⟨hx0, hx1⟩) hx0
  simpa [Beta_cdf_bot] using this

end C03

#print axioms C03.incGammaR_hasDerivAt
#print axioms C03.incBetaR_hasDerivAt
#print axioms C03.erfR_hasDerivAt
#print axioms C03.erfR_comp_hasDerivAt
#print axioms C03.incGammaR_comp_hasDerivAt
#print axioms C03.invGamma_pattern_hasDerivAt
#print axioms C03.gammaIntegrand_intervalIntegrable
#print axioms C03.incGammaR_zero
#print axioms C03.incGammaR_mono
#print axioms C03.incGammaR_nonneg
#print axioms C03.incGammaR_tendsto_atTop
#print axioms C03.incGammaR_le_one
#print axioms C03.incGammaR_continuous
#print axioms C03.erfR_mono
#print axioms C03.erfR_tendsto_atTop
#print axioms C03.erfR_neg
#print axioms C03.erfR_tendsto_atBot
#print axioms C03.erfR_le_one
#print axioms C03.neg_one_le_erfR
#print axioms C03.Gamma_cdf_deriv
#print axioms C03.Gamma_sf
#print axioms C03.ChiSquared_cdf_deriv
#print axioms C03.ChiSquared_sf
#print axioms C03.InvGamma_cdf_deriv
#print axioms C03.InvGamma_sf
#print axioms C03.InvChiSquared_cdf_deriv
#print axioms C03.InvChiSquared_sf
#print axioms C03.ScaledInvChiSquared_cdf_deriv
#print axioms C03.ScaledInvChiSquared_sf
#print axioms C03.Beta_cdf_deriv
#print axioms C03.Beta_sf
#print axioms C03.Gaussian_cdf_deriv
#print axioms C03.LogNormal_cdf_deriv
#print axioms C03.invGamma_pattern_mono
#print axioms C03.invGamma_pattern_range
#print axioms C03.invGamma_pattern_tendsto_top
#print axioms C03.invGamma_pattern_tendsto_zero
#print axioms C03.Gamma_cdf_range
#print axioms C03.Gamma_cdf_mono
#print axioms C03.Gamma_cdf_tendsto_top
#print axioms C03.Gamma_cdf_bot
#print axioms C03.ChiSquared_cdf_range
#print axioms C03.ChiSquared_cdf_mono
#print axioms C03.ChiSquared_cdf_tendsto_top
#print axioms C03.ChiSquared_cdf_bot
#print axioms C03.InvGamma_cdf_range
#print axioms C03.InvGamma_cdf_mono
#print axioms C03.InvGamma_cdf_tendsto_top
#print axioms C03.InvGamma_cdf_tendsto_bot
#print axioms C03.InvChiSquared_cdf_range
#print axioms C03.InvChiSquared_cdf_mono
#print axioms C03.InvChiSquared_cdf_tendsto_top
#print axioms C03.InvChiSquared_cdf_tendsto_bot
#print axioms C03.ScaledInvChiSquared_cdf_range
#print axioms C03.ScaledInvChiSquared_cdf_mono
#print axioms C03.ScaledInvChiSquared_cdf_tendsto_top
#print axioms C03.ScaledInvChiSquared_cdf_tendsto_bot
#print axioms C03.Gaussian_cdf_range
#print axioms C03.Gaussian_cdf_mono
#print axioms C03.Gaussian_cdf_tendsto_top
#print axioms C03.Gaussian_cdf_tendsto_bot
#print axioms C03.LogNormal_cdf_range
#print axioms C03.LogNormal_cdf_mono
#print axioms C03.LogNormal_cdf_tendsto_top
#print axioms C03.LogNormal_cdf_tendsto_bot
#print axioms C03.poissonSum_hasDerivAt
#print axioms C03.incGammaR_nat_hasDerivAt
#print axioms C03.one_sub_incGammaR_nat
#print axioms C03.Poisson_cdf_sum_partial
#print axioms C03.Poisson_cdf_mono
#print axioms C03.Poisson_cdf_range
#print axioms C03.Poisson_sf
#print axioms C03.betaIntegrand_intervalIntegrable
#print axioms C03.incBetaR_mono
#print axioms C03.Beta_cdf_bot
#print axioms C03.Beta_cdf_mono
#print axioms C03.Beta_cdf_range_partial
