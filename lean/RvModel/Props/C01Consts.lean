import RvModel.RealInst
import Mathlib.Analysis.Real.Pi.Bounds
import Mathlib.Analysis.Complex.Exponential
import Mathlib.Analysis.SpecialFunctions.Log.Basic
import Mathlib.Analysis.SpecialFunctions.Sqrt
import Mathlib.NumberTheory.Harmonic.EulerMascheroni
/-!
  C01 (constants): every literal of `/repo/src/consts.rs` is within 1e-15 (relative) of the real number its
  doc comment names.  The literals are the decimal numbers written in consts.rs (the translator maps the names
  to `RealLike.halfLn2Pi` …, exact on `R`, the binary64 literal on `Float`); the additional binary64 rounding of
  a decimal literal is ≤ 2^-53 relative and is not part of these statements.

      SQRT_PI          1.772_453_850_905_515_9      √π
      HALF_LN_2PI      0.918_938_533_204_672_7      ½ ln 2π
      HALF_LN_2PI_E    1.418_938_533_204_672_7      ½ ln 2πe
      HALF_LN_PI       0.572_364_942_924_700_1      ½ ln π
      LN_PI            1.144_729_885_849_400_2      ln π
      LN_2PI           1.837_877_066_409_345_3      ln 2π
      EULER_MASCERONI  0.577_215_664_901_532_9      γ
      LN_LN_2         -0.366_512_920_581_664_3      ln ln 2
      LN_2PI_E         2.837_877_066_409_345_3      ln 2πe

  Method: 17-digit enclosures of ln 2 and ln π from the Taylor polynomial of exp (20 terms, explicit remainder,
  `Real.exp_bound'` / `Real.sum_le_exp_of_nonneg`) and Mathlib's 20-digit enclosure of π.
-/
open Real

namespace C01

/-! ### exp enclosures by the degree-19 Taylor polynomial -/

private noncomputable def T20 (x : ℝ) : ℝ := ∑ m ∈ Finset.range 20, x ^ m / (m.factorial : ℝ)

private theorem T20_le_exp {x : ℝ} (h0 : 0 ≤ x) : T20 x ≤ Real.exp x :=
  Real.sum_le_exp_of_nonneg h0 20

private theorem exp_le_T20 {x : ℝ} (h0 : 0 ≤ x) (h1 : x ≤ 1) :
    Real.exp x ≤ T20 x + x ^ 20 * 21 / ((Nat.factorial 20 : ℝ) * 20) := by
  have h := Real.exp_bound' h0 h1 (n := 20) (by norm_num)
  have e : ((20 : ℕ) : ℝ) + 1 = 21 := by norm_num
  have e' : ((20 : ℕ) : ℝ) = 20 := by norm_num
  rw [e, e'] at h
  exact h

/-! ### ln 2 and ln π to 17 digits -/

theorem log_two_gt_d17 : (0.69314718055994530 : ℝ) < Real.log 2 := by
  rw [Real.lt_log_iff_exp_lt (by norm_num)]
  refine lt_of_le_of_lt (exp_le_T20 (by norm_num) (by norm_num)) ?_
  norm_num [T20, Finset.sum_range_succ, Nat.factorial]

theorem log_two_gt_d18 : (0.693147180559945309 : ℝ) < Real.log 2 := by
  rw [Real.lt_log_iff_exp_lt (by norm_num)]
  refine lt_of_le_of_lt (exp_le_T20 (by norm_num) (by norm_num)) ?_
  norm_num [T20, Finset.sum_range_succ, Nat.factorial]

theorem log_two_lt_d17 : Real.log 2 < (0.69314718055994531 : ℝ) := by
  rw [Real.log_lt_iff_lt_exp (by norm_num)]
  refine lt_of_lt_of_le ?_ (T20_le_exp (by norm_num))
  norm_num [T20, Finset.sum_range_succ, Nat.factorial]

theorem log_pi_gt_d17 : (1.14472988584940017 : ℝ) < Real.log π := by
  rw [Real.lt_log_iff_exp_lt Real.pi_pos]
  have hsplit : Real.exp (1.14472988584940017 : ℝ)
      = Real.exp (0.572364942924700085 : ℝ) * Real.exp (0.572364942924700085 : ℝ) := by
    rw [← Real.exp_add]; norm_num
  have hb := exp_le_T20 (x := (0.572364942924700085 : ℝ)) (by norm_num) (by norm_num)
  have hpos : 0 < Real.exp (0.572364942924700085 : ℝ) := Real.exp_pos _
  have hU : T20 (0.572364942924700085 : ℝ)
      + (0.572364942924700085 : ℝ) ^ 20 * 21 / ((Nat.factorial 20 : ℝ) * 20) ≤ 1.772453850905516025 := by
    norm_num [T20, Finset.sum_range_succ, Nat.factorial]
  have hle : Real.exp (0.572364942924700085 : ℝ) ≤ 1.772453850905516025 := le_trans hb hU
  have hsq : Real.exp (0.572364942924700085 : ℝ) * Real.exp (0.572364942924700085 : ℝ)
      ≤ 1.772453850905516025 * 1.772453850905516025 :=
    mul_le_mul hle hle hpos.le (by norm_num)
  have hpi := Real.pi_gt_d20
  rw [hsplit]
  refine lt_of_le_of_lt hsq (lt_trans ?_ hpi)
  norm_num

theorem log_pi_lt_d17 : Real.log π < (1.14472988584940018 : ℝ) := by
  rw [Real.log_lt_iff_lt_exp Real.pi_pos]
  have hsplit : Real.exp (1.14472988584940018 : ℝ)
      = Real.exp (0.57236494292470009 : ℝ) * Real.exp (0.57236494292470009 : ℝ) := by
    rw [← Real.exp_add]; norm_num
  have hb := T20_le_exp (x := (0.57236494292470009 : ℝ)) (by norm_num)
  have hL : (1.772453850905516030 : ℝ) ≤ T20 (0.57236494292470009 : ℝ) := by
    norm_num [T20, Finset.sum_range_succ, Nat.factorial]
  have hle : (1.772453850905516030 : ℝ) ≤ Real.exp (0.57236494292470009 : ℝ) := le_trans hL hb
  have hsq : (1.772453850905516030 : ℝ) * 1.772453850905516030
      ≤ Real.exp (0.57236494292470009 : ℝ) * Real.exp (0.57236494292470009 : ℝ) :=
    mul_le_mul hle hle (by norm_num) (Real.exp_pos _).le
  have hpi := Real.pi_lt_d20
  rw [hsplit]
  refine lt_of_lt_of_le (lt_trans hpi ?_) hsq
  norm_num

/-- relative error from an enclosure of a positive number -/
private theorem rel_of_bounds {lit t lo hi : ℝ} (hlo : lo ≤ t) (hhi : t ≤ hi) (hpos : 0 < lo)
    (h1 : hi - lit ≤ 1e-15 * lo) (h2 : lit - lo ≤ 1e-15 * lo) : |lit - t| ≤ 1e-15 * |t| := by
  have ht : 0 < t := lt_of_lt_of_le hpos hlo
  rw [abs_of_pos ht, abs_le]
  constructor <;> linarith

/-! ### the literals of consts.rs -/

-- @site LN_PI
theorem LN_PI_lit : |(1.1447298858494002 : ℝ) - (RealLike.lnPi : R).val| ≤ 1e-15 * |(RealLike.lnPi : R).val| := by
  rw [R.lnPi_val]
  exact rel_of_bounds log_pi_gt_d17.le log_pi_lt_d17.le (by norm_num) (by norm_num) (by norm_num)

-- @site HALF_LN_PI
theorem HALF_LN_PI_lit :
    |(0.5723649429247001 : ℝ) - (RealLike.halfLnPi : R).val| ≤ 1e-15 * |(RealLike.halfLnPi : R).val| := by
  rw [R.halfLnPi_val]
  have h1 := log_pi_gt_d17
  have h2 := log_pi_lt_d17
  exact rel_of_bounds (lo := 0.572364942924700085) (hi := 0.57236494292470009) (by linarith) (by linarith)
    (by norm_num) (by norm_num) (by norm_num)

-- @site LN_2PI
theorem LN_2PI_lit :
    |(1.8378770664093453 : ℝ) - (RealLike.ln2Pi : R).val| ≤ 1e-15 * |(RealLike.ln2Pi : R).val| := by
  rw [R.ln2Pi_val, Real.log_mul (by norm_num) Real.pi_pos.ne']
  have h1 := log_pi_gt_d17
  have h2 := log_pi_lt_d17
  have h3 := log_two_gt_d17
  have h4 := log_two_lt_d17
  exact rel_of_bounds (lo := 1.83787706640934547) (hi := 1.83787706640934549) (by linarith) (by linarith)
    (by norm_num) (by norm_num) (by norm_num)

-- @site HALF_LN_2PI
theorem HALF_LN_2PI_lit :
    |(0.9189385332046727 : ℝ) - (RealLike.halfLn2Pi : R).val| ≤ 1e-15 * |(RealLike.halfLn2Pi : R).val| := by
  rw [R.halfLn2Pi_val, Real.log_mul (by norm_num) Real.pi_pos.ne']
  have h1 := log_pi_gt_d17
  have h2 := log_pi_lt_d17
  have h3 := log_two_gt_d17
  have h4 := log_two_lt_d17
  exact rel_of_bounds (lo := 0.918938533204672735) (hi := 0.918938533204672745) (by linarith) (by linarith)
    (by norm_num) (by norm_num) (by norm_num)

-- @site LN_2PI_E
theorem LN_2PI_E_lit :
    |(2.8378770664093453 : ℝ) - (RealLike.ln2PiE : R).val| ≤ 1e-15 * |(RealLike.ln2PiE : R).val| := by
  rw [R.ln2PiE_val, Real.log_mul (by positivity) (Real.exp_pos 1).ne',
    Real.log_mul (by norm_num) Real.pi_pos.ne', Real.log_exp]
  have h1 := log_pi_gt_d17
  have h2 := log_pi_lt_d17
  have h3 := log_two_gt_d17
  have h4 := log_two_lt_d17
  exact rel_of_bounds (lo := 2.83787706640934547) (hi := 2.83787706640934549) (by linarith) (by linarith)
    (by norm_num) (by norm_num) (by norm_num)

-- @site HALF_LN_2PI_E
theorem HALF_LN_2PI_E_lit :
    |(1.4189385332046727 : ℝ) - (RealLike.halfLn2PiE : R).val| ≤ 1e-15 * |(RealLike.halfLn2PiE : R).val| := by
  rw [R.halfLn2PiE_val, Real.log_mul (by positivity) (Real.exp_pos 1).ne',
    Real.log_mul (by norm_num) Real.pi_pos.ne', Real.log_exp]
  have h1 := log_pi_gt_d17
  have h2 := log_pi_lt_d17
  have h3 := log_two_gt_d17
  have h4 := log_two_lt_d17
  exact rel_of_bounds (lo := 1.418938533204672735) (hi := 1.418938533204672745) (by linarith) (by linarith)
    (by norm_num) (by norm_num) (by norm_num)

-- @site SQRT_PI
theorem SQRT_PI_lit :
    |(1.7724538509055159 : ℝ) - (RealLike.sqrtPi : R).val| ≤ 1e-15 * |(RealLike.sqrtPi : R).val| := by
  rw [R.sqrtPi_val]
  have hlo : (1.77245385090551602 : ℝ) ≤ Real.sqrt π := by
    apply Real.le_sqrt_of_sq_le
    have := Real.pi_gt_d20
    refine le_trans ?_ this.le
    norm_num
  have hhi : Real.sqrt π ≤ (1.77245385090551603 : ℝ) := by
    rw [Real.sqrt_le_left (by norm_num)]
    have := Real.pi_lt_d20
    refine le_trans this.le ?_
    norm_num
  exact rel_of_bounds hlo hhi (by norm_num) (by norm_num) (by norm_num)

/-! ### ln ln 2 -/

theorem log_log_two_gt_d17 : (-0.36651292058166434 : ℝ) < Real.log (Real.log 2) := by
  have hl2 : 0 < Real.log 2 := Real.log_pos (by norm_num)
  rw [Real.lt_log_iff_exp_lt hl2]
  refine lt_of_le_of_lt ?_ log_two_gt_d18
  rw [Real.exp_neg]
  have hb := T20_le_exp (x := (0.36651292058166434 : ℝ)) (by norm_num)
  have hL : (1.44269504088896342 : ℝ) ≤ T20 (0.36651292058166434 : ℝ) := by
    norm_num [T20, Finset.sum_range_succ, Nat.factorial]
  rw [inv_le_comm₀ (Real.exp_pos _) (by norm_num)]
  refine le_trans ?_ (le_trans hL hb)
  norm_num

theorem log_log_two_lt_d17 : Real.log (Real.log 2) < (-0.36651292058166431 : ℝ) := by
  have hl2 : 0 < Real.log 2 := Real.log_pos (by norm_num)
  rw [Real.log_lt_iff_lt_exp hl2]
  refine lt_of_lt_of_le log_two_lt_d17 ?_
  rw [Real.exp_neg]
  have hb := exp_le_T20 (x := (0.36651292058166431 : ℝ)) (by norm_num) (by norm_num)
  have hU : T20 (0.36651292058166431 : ℝ)
      + (0.36651292058166431 : ℝ) ^ 20 * 21 / ((Nat.factorial 20 : ℝ) * 20) ≤ 1.4426950408889634 := by
    norm_num [T20, Finset.sum_range_succ, Nat.factorial]
  rw [le_inv_comm₀ (by norm_num) (Real.exp_pos _)]
  refine le_trans (le_trans hb hU) ?_
  norm_num

-- @site LN_LN_2
theorem LN_LN_2_lit :
    |(-0.3665129205816643 : ℝ) - (RealLike.lnLn2 : R).val| ≤ 1e-15 * |(RealLike.lnLn2 : R).val| := by
  rw [R.lnLn2_val]
  have h1 := log_log_two_gt_d17
  have h2 := log_log_two_lt_d17
  have h := rel_of_bounds (lit := 0.3665129205816643) (t := -Real.log (Real.log 2))
    (lo := 0.36651292058166431) (hi := 0.36651292058166434) (by linarith) (by linarith) (by norm_num)
    (by norm_num) (by norm_num)
  have e : (-0.3665129205816643 : ℝ) - Real.log (Real.log 2)
      = -((0.3665129205816643 : ℝ) - -Real.log (Real.log 2)) := by ring
  rw [abs_neg] at h
  rw [e, abs_neg]
  exact h

/-! ### exact relations between the literals (what the code relies on when it mixes them) -/

-- @site HALF_LN_2PI_E
theorem HALF_LN_2PI_E_rel : |(1.4189385332046727 : ℝ) - (0.9189385332046727 + 1 / 2)| ≤ 1e-15 := by norm_num
-- @site LN_2PI
theorem LN_2PI_rel : |(1.8378770664093453 : ℝ) - 2 * 0.9189385332046727| ≤ 1e-15 := by
  rw [abs_le]; constructor <;> norm_num
-- @site LN_PI
theorem LN_PI_rel : |(1.1447298858494002 : ℝ) - 2 * 0.5723649429247001| ≤ 1e-15 := by norm_num
-- @site LN_2PI_E
theorem LN_2PI_E_rel : |(2.8378770664093453 : ℝ) - (1.8378770664093453 + 1)| ≤ 1e-15 := by norm_num

/-! ### not reached -/

/-- Full statement (not proved — Mathlib only has ½ < γ < ⅔; a 1e-15 enclosure of γ needs an Euler–Maclaurin
    argument that is not available):
    `|(0.5772156649015329 : ℝ) - eulerMascheroniConstant| ≤ 1e-15 * |eulerMascheroniConstant|`. -/
-- @site EULER_MASCERONI
theorem EULER_MASCERONI_lit_partial :
    |(0.5772156649015329 : ℝ) - (RealLike.eulerGamma : R).val| < 0.09 := by
  rw [R.eulerGamma_val]
  have h1 := Real.one_half_lt_eulerMascheroniConstant
  have h2 := Real.eulerMascheroniConstant_lt_two_thirds
  rw [abs_lt]; constructor <;> linarith

end C01

#print axioms C01.log_two_gt_d17
#print axioms C01.log_two_gt_d18
#print axioms C01.log_two_lt_d17
#print axioms C01.log_pi_gt_d17
#print axioms C01.log_pi_lt_d17
#print axioms C01.LN_PI_lit
#print axioms C01.HALF_LN_PI_lit
#print axioms C01.LN_2PI_lit
#print axioms C01.HALF_LN_2PI_lit
#print axioms C01.LN_2PI_E_lit
#print axioms C01.HALF_LN_2PI_E_lit
#print axioms C01.SQRT_PI_lit
#print axioms C01.log_log_two_gt_d17
#print axioms C01.log_log_two_lt_d17
#print axioms C01.LN_LN_2_lit
#print axioms C01.HALF_LN_2PI_E_rel
#print axioms C01.LN_2PI_rel
#print axioms C01.LN_PI_rel
#print axioms C01.LN_2PI_E_rel
#print axioms C01.EULER_MASCERONI_lit_partial
