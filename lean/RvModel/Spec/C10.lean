import RvModel.ExtInst
import RvModel.Gen.Defs
/-!
  Spec.C10 — the DOCUMENTED parameter domain of every distribution, as a predicate on `X`-valued
  parameters (`X = nan | ninf | pinf | fin r`: NaN and ±inf are values a caller can pass).

  Every `Spec.<Dist>.Valid` is transcribed from the rustdoc of `/repo/src/dist/<file>.rs`
  (doc of the struct fields, of `new`'s `# Arguments`, and of the variants of `<Dist>Error`:
  "… is less than or equal to zero", "… is infinite or NaN", …), NOT from the code of `new`.
  The doc text used is quoted in the docstring of each definition.
  `Spec.<Dist>.Inv d` is the same predicate on the fields of an object.

  Not used by the driver (imports Mathlib through `ExtInst`).
-/
namespace Spec

namespace C10
/-- "not infinite or NaN" -/
def IsFin : X → Prop
  | .fin _ => True
  | _ => False
/-- finite and "in (0, ∞)" / "> 0" / not "less than or equal to zero" -/
def IsPos : X → Prop
  | .fin r => 0 < r
  | _ => False
/-- a probability: finite, not "less than zero", not "greater than one" -/
def IsUnit : X → Prop
  | .fin r => 0 ≤ r ∧ r ≤ 1
  | _ => False
/-- finite, not "less than or equal to zero", not "greater than one" -/
def IsPosLeOne : X → Prop
  | .fin r => 0 < r ∧ r ≤ 1
  | _ => False
/-- finite, not "less than 1.0" -/
def IsGeOne : X → Prop
  | .fin r => 1 ≤ r
  | _ => False
/-- finite, not "less than zero or greater than `2*PI`" -/
def IsCircle : X → Prop
  | .fin r => 0 ≤ r ∧ r ≤ 2 * Real.pi
  | _ => False
/-- finite and not "less than zero" -/
def IsNonneg : X → Prop
  | .fin r => 0 ≤ r
  | _ => False
/-- both finite and `a < b` (negation of "A >= B" on finite values) -/
def IsLt : X → X → Prop
  | .fin a, .fin b => a < b
  | _, _ => False
end C10

/-- `Bernoulli` (`src/dist/bernoulli.rs`).  Rustdoc: `p`: "Probability of a success (x=1)"; errors: "p is less than zero", "p is greater than one", "p is infinite or NaN".
    Domain: `p` finite, in [0, 1]. -/
def Bernoulli.Valid (p : X) : Prop :=
  C10.IsUnit p
/-- parameter invariant of a `Bernoulli` object -/
def Bernoulli.Inv (d : Gen.Bernoulli X) : Prop :=
  Bernoulli.Valid d.p

/-- `Beta` (`src/dist/beta.rs`).  Rustdoc: "Beta(α, β) over x in (0, 1)"; errors: "alpha … less than or equal too zero", "alpha … infinite or NaN", same for beta.
    Domain: `alpha` finite, > 0; `beta` finite, > 0. -/
def Beta.Valid (alpha : X) (beta : X) : Prop :=
  C10.IsPos alpha ∧ C10.IsPos beta
/-- parameter invariant of a `Beta` object -/
def Beta.Inv (d : Gen.Beta X) : Prop :=
  Beta.Valid d.alpha d.beta

/-- `BetaBinomial` (`src/dist/beta_binom.rs`).  Rustdoc: `n`: "Total number of trials" (error "The number of trails is zero"); `alpha`, `beta`: "Analogous to Beta Distribution α / β parameter" (finite, > 0: the α, β of a Beta distribution; the error-enum doc of `AlphaTooLow` / `BetaTooLow` says only "less than zero", zero is not a Beta parameter either).
    Domain: `n` > 0; `alpha` finite, > 0; `beta` finite, > 0. -/
def BetaBinomial.Valid (n : Nat) (alpha : X) (beta : X) : Prop :=
  0 < n ∧ C10.IsPos alpha ∧ C10.IsPos beta
/-- parameter invariant of a `BetaBinomial` object -/
def BetaBinomial.Inv (d : Gen.BetaBinomial X) : Prop :=
  BetaBinomial.Valid d.n d.alpha d.beta

/-- `Binomial` (`src/dist/binomial.rs`).  Rustdoc: `n`: "the total number of trials" (error "The number of trials is zero"); `p`: "the probability of success" (errors: less than zero, greater than one, infinite or NaN).
    Domain: `n` > 0; `p` finite, in [0, 1]. -/
def Binomial.Valid (n : Nat) (p : X) : Prop :=
  0 < n ∧ C10.IsUnit p
/-- parameter invariant of a `Binomial` object -/
def Binomial.Inv (d : Gen.Binomial X) : Prop :=
  Binomial.Valid d.n d.p

/-- `Cauchy` (`src/dist/cauchy.rs`).  Rustdoc: "loc: location, x₀, in (-∞, ∞)"; "scale: scale, γ, in (0, ∞)".
    Domain: `loc` finite; `scale` finite, > 0. -/
def Cauchy.Valid (loc : X) (scale : X) : Prop :=
  C10.IsFin loc ∧ C10.IsPos scale
/-- parameter invariant of a `Cauchy` object -/
def Cauchy.Inv (d : Gen.Cauchy X) : Prop :=
  Cauchy.Valid d.loc d.scale

/-- `ChiSquared` (`src/dist/chi_squared.rs`).  Rustdoc: "k: Degrees of freedom in (0, ∞)".
    Domain: `k` finite, > 0. -/
def ChiSquared.Valid (k : X) : Prop :=
  C10.IsPos k
/-- parameter invariant of a `ChiSquared` object -/
def ChiSquared.Inv (d : Gen.ChiSquared X) : Prop :=
  ChiSquared.Valid d.k

/-- `Crp` (`src/dist/crp.rs`).  Rustdoc: "alpha: Discount parameter in (0, Infinity)"; "n: the number of items in the partition" (error "n parameter is zero").
    Domain: `alpha` finite, > 0; `n` > 0. -/
def Crp.Valid (alpha : X) (n : Nat) : Prop :=
  C10.IsPos alpha ∧ 0 < n
/-- parameter invariant of a `Crp` object -/
def Crp.Inv (d : Gen.Crp X) : Prop :=
  Crp.Valid d.alpha d.n

/-- `Exponential` (`src/dist/exponential.rs`).  Rustdoc: "rate: λ > 0, rate or inverse scale".
    Domain: `rate` finite, > 0. -/
def Exponential.Valid (rate : X) : Prop :=
  C10.IsPos rate
/-- parameter invariant of a `Exponential` object -/
def Exponential.Inv (d : Gen.Exponential X) : Prop :=
  Exponential.Valid d.rate

/-- `Gamma` (`src/dist/gamma.rs`).  Rustdoc: "G(α, β) over x in (0, ∞) … shape, α, and rate, β"; errors: shape/rate "less than or equal to zero", "infinite or NaN".
    Domain: `shape` finite, > 0; `rate` finite, > 0. -/
def Gamma.Valid (shape : X) (rate : X) : Prop :=
  C10.IsPos shape ∧ C10.IsPos rate
/-- parameter invariant of a `Gamma` object -/
def Gamma.Inv (d : Gen.Gamma X) : Prop :=
  Gamma.Valid d.shape d.rate

/-- `Gaussian` (`src/dist/gaussian.rs`).  Rustdoc: "N(μ, σ) … mu: mean, sigma: standard deviation"; errors: mu "infinite or NaN"; sigma "less than or equal to zero", "infinite or NaN".
    Domain: `mu` finite; `sigma` finite, > 0. -/
def Gaussian.Valid (mu : X) (sigma : X) : Prop :=
  C10.IsFin mu ∧ C10.IsPos sigma
/-- parameter invariant of a `Gaussian` object -/
def Gaussian.Inv (d : Gen.Gaussian X) : Prop :=
  Gaussian.Valid d.mu d.sigma

/-- `Geometric` (`src/dist/geometric.rs`).  Rustdoc: errors: p "infinite or NaN", "less than or equal to zero", "greater than one".
    Domain: `p` finite, in (0, 1]. -/
def Geometric.Valid (p : X) : Prop :=
  C10.IsPosLeOne p
/-- parameter invariant of a `Geometric` object -/
def Geometric.Inv (d : Gen.Geometric X) : Prop :=
  Geometric.Valid d.p

/-- `Gev` (`src/dist/gev.rs`).  Rustdoc: "Gev(μ, σ, ξ): μ is location, σ is the scale, ξ is the shape"; errors: loc/shape "infinite or NaN"; scale "infinite or NaN", "less than or equal to zero".
    Domain: `loc` finite; `scale` finite, > 0; `shape` finite. -/
def Gev.Valid (loc : X) (scale : X) (shape : X) : Prop :=
  C10.IsFin loc ∧ C10.IsPos scale ∧ C10.IsFin shape
/-- parameter invariant of a `Gev` object -/
def Gev.Inv (d : Gen.Gev X) : Prop :=
  Gev.Valid d.loc d.scale d.shape

/-- `InvChiSquared` (`src/dist/inv_chi_squared.rs`).  Rustdoc: "v: Degrees of freedom in (0, ∞)".
    Domain: `v` finite, > 0. -/
def InvChiSquared.Valid (v : X) : Prop :=
  C10.IsPos v
/-- parameter invariant of a `InvChiSquared` object -/
def InvChiSquared.Inv (d : Gen.InvChiSquared X) : Prop :=
  InvChiSquared.Valid d.v

/-- `InvGamma` (`src/dist/invgamma.rs`).  Rustdoc: "IG(α, β) over x in (0, ∞): shape parameter α, scale parameter β"; errors "less than or equal to zero", "infinite or NaN".
    Domain: `shape` finite, > 0; `scale` finite, > 0. -/
def InvGamma.Valid (shape : X) (scale : X) : Prop :=
  C10.IsPos shape ∧ C10.IsPos scale
/-- parameter invariant of a `InvGamma` object -/
def InvGamma.Inv (d : Gen.InvGamma X) : Prop :=
  InvGamma.Valid d.shape d.scale

/-- `InvGaussian` (`src/dist/invgaussian.rs`).  Rustdoc: "mu: mean > 0; lambda: shape > 0; Mu and lambda must be finite and greater than 0.".
    Domain: `mu` finite, > 0; `lambda'` finite, > 0. -/
def InvGaussian.Valid (mu : X) (lambda' : X) : Prop :=
  C10.IsPos mu ∧ C10.IsPos lambda'
/-- parameter invariant of a `InvGaussian` object -/
def InvGaussian.Inv (d : Gen.InvGaussian X) : Prop :=
  InvGaussian.Valid d.mu d.lambda'

/-- `Kumaraswamy` (`src/dist/kumaraswamy.rs`).  Rustdoc: "Kumaraswamy(α, β) over x in (0, 1)"; errors: a/b "less than or equal to zero", "infinite or NaN".
    Domain: `a` finite, > 0; `b` finite, > 0. -/
def Kumaraswamy.Valid (a : X) (b : X) : Prop :=
  C10.IsPos a ∧ C10.IsPos b
/-- parameter invariant of a `Kumaraswamy` object -/
def Kumaraswamy.Inv (d : Gen.Kumaraswamy X) : Prop :=
  Kumaraswamy.Valid d.a d.b

/-- `Laplace` (`src/dist/laplace.rs`).  Rustdoc: "mu: Location in (-∞, ∞)"; "b: Scale in (0, ∞)".
    Domain: `mu` finite; `b` finite, > 0. -/
def Laplace.Valid (mu : X) (b : X) : Prop :=
  C10.IsFin mu ∧ C10.IsPos b
/-- parameter invariant of a `Laplace` object -/
def Laplace.Inv (d : Gen.Laplace X) : Prop :=
  Laplace.Valid d.mu d.b

/-- `LogNormal` (`src/dist/lognormal.rs`).  Rustdoc: "mu: log scale mean; sigma: log scale standard deviation"; errors: mu "infinite or NaN"; sigma "less than or equal to zero", "infinite or NaN".
    Domain: `mu` finite; `sigma` finite, > 0. -/
def LogNormal.Valid (mu : X) (sigma : X) : Prop :=
  C10.IsFin mu ∧ C10.IsPos sigma
/-- parameter invariant of a `LogNormal` object -/
def LogNormal.Inv (d : Gen.LogNormal X) : Prop :=
  LogNormal.Valid d.mu d.sigma

/-- `NegBinomial` (`src/dist/neg_binom.rs`).  Rustdoc: "r: The number of successes before the trials are stopped" (errors "R is less that 1.0", "infinite or NaN"); "p: The success probability" (errors "p is not in [0, 1]", "infinite or NaN").
    Domain: `r` finite, ≥ 1; `p` finite, in [0, 1]. -/
def NegBinomial.Valid (r : X) (p : X) : Prop :=
  C10.IsGeOne r ∧ C10.IsUnit p
/-- parameter invariant of a `NegBinomial` object -/
def NegBinomial.Inv (d : Gen.NegBinomial X) : Prop :=
  NegBinomial.Valid d.r d.p

/-- `NormalGamma` (`src/dist/normal_gamma.rs`).  Rustdoc: "m: The prior mean; r: Relative precision of μ versus data; s: The mean of rho (the precision) is v/s; v: Degrees of freedom of precision of rho"; errors: m "infinite or NaN"; r, s, v "less than or equal to zero", "infinite or NaN".
    Domain: `m` finite; `r` finite, > 0; `s` finite, > 0; `v` finite, > 0. -/
def NormalGamma.Valid (m : X) (r : X) (s : X) (v : X) : Prop :=
  C10.IsFin m ∧ C10.IsPos r ∧ C10.IsPos s ∧ C10.IsPos v
/-- parameter invariant of a `NormalGamma` object -/
def NormalGamma.Inv (d : Gen.NormalGamma X) : Prop :=
  NormalGamma.Valid d.m d.r d.s d.v

/-- `NormalInvGamma` (`src/dist/normal_inv_gamma.rs`).  Rustdoc: "m: The prior mean; v: Relative variance of μ versus data; a: The mean of variance is b / (a - 1); b: Degrees of freedom of the variance"; errors: m "infinite or NaN"; v, a, b "less than or equal to zero", "infinite or NaN".
    Domain: `m` finite; `v` finite, > 0; `a` finite, > 0; `b` finite, > 0. -/
def NormalInvGamma.Valid (m : X) (v : X) (a : X) (b : X) : Prop :=
  C10.IsFin m ∧ C10.IsPos v ∧ C10.IsPos a ∧ C10.IsPos b
/-- parameter invariant of a `NormalInvGamma` object -/
def NormalInvGamma.Inv (d : Gen.NormalInvGamma X) : Prop :=
  NormalInvGamma.Valid d.m d.v d.a d.b

/-- `NormalInvChiSquared` (`src/dist/normal_inv_chi_squared.rs`).  Rustdoc: "m: The prior mean; k: How strongly we believe the prior mean (in prior pseudo-observations); v: How strongly we believe the prior variance (in prior pseudo-observations); s2: The prior variance"; errors: m "infinite or NaN"; k, v, s2 "less than or equal to zero", "infinite or NaN".
    Domain: `m` finite; `k` finite, > 0; `v` finite, > 0; `s2` finite, > 0. -/
def NormalInvChiSquared.Valid (m : X) (k : X) (v : X) (s2 : X) : Prop :=
  C10.IsFin m ∧ C10.IsPos k ∧ C10.IsPos v ∧ C10.IsPos s2
/-- parameter invariant of a `NormalInvChiSquared` object -/
def NormalInvChiSquared.Inv (d : Gen.NormalInvChiSquared X) : Prop :=
  NormalInvChiSquared.Valid d.m d.k d.v d.s2

/-- `Pareto` (`src/dist/pareto.rs`).  Rustdoc: "Pareto(x_m, α) over x in (x_m, ∞) … shape, α, and scale, x_m"; errors "less than or equal to zero", "infinite or NaN".
    Domain: `shape` finite, > 0; `scale` finite, > 0. -/
def Pareto.Valid (shape : X) (scale : X) : Prop :=
  C10.IsPos shape ∧ C10.IsPos scale
/-- parameter invariant of a `Pareto` object -/
def Pareto.Inv (d : Gen.Pareto X) : Prop :=
  Pareto.Valid d.shape d.scale

/-- `Poisson` (`src/dist/poisson.rs`).  Rustdoc: errors: "The rate parameter is less than or equal to zero", "The rate parameter is infinite or NaN".
    Domain: `rate` finite, > 0. -/
def Poisson.Valid (rate : X) : Prop :=
  C10.IsPos rate
/-- parameter invariant of a `Poisson` object -/
def Poisson.Inv (d : Gen.Poisson X) : Prop :=
  Poisson.Valid d.rate

/-- `ScaledInvChiSquared` (`src/dist/scaled_inv_chi_squared.rs`).  Rustdoc: "v: Degrees of freedom in (0, ∞); t2: Scale factor in (0, ∞)".
    Domain: `v` finite, > 0; `t2` finite, > 0. -/
def ScaledInvChiSquared.Valid (v : X) (t2 : X) : Prop :=
  C10.IsPos v ∧ C10.IsPos t2
/-- parameter invariant of a `ScaledInvChiSquared` object -/
def ScaledInvChiSquared.Inv (d : Gen.ScaledInvChiSquared X) : Prop :=
  ScaledInvChiSquared.Valid d.v d.t2

/-- `Skellam` (`src/dist/skellam.rs`).  Rustdoc: "mu_1: Mean of first poisson; mu_2: Mean of second poisson"; errors: rate "less than or equal to zero", "infinite or NaN".
    Domain: `mu_1` finite, > 0; `mu_2` finite, > 0. -/
def Skellam.Valid (mu_1 : X) (mu_2 : X) : Prop :=
  C10.IsPos mu_1 ∧ C10.IsPos mu_2
/-- parameter invariant of a `Skellam` object -/
def Skellam.Inv (d : Gen.Skellam X) : Prop :=
  Skellam.Valid d.mu_1 d.mu_2

/-- `StudentsT` (`src/dist/students_t.rs`).  Rustdoc: "v: Degrees of freedom, ν, in (0, ∞)".
    Domain: `v` finite, > 0. -/
def StudentsT.Valid (v : X) : Prop :=
  C10.IsPos v
/-- parameter invariant of a `StudentsT` object -/
def StudentsT.Inv (d : Gen.StudentsT X) : Prop :=
  StudentsT.Valid d.v

/-- `UnitPowerLaw` (`src/dist/unit_powerlaw.rs`).  Rustdoc: "UnitPowerLaw(α) over x in (0, 1)"; errors: alpha "less than or equal to zero", "infinite or NaN".
    Domain: `alpha` finite, > 0. -/
def UnitPowerLaw.Valid (alpha : X) : Prop :=
  C10.IsPos alpha
/-- parameter invariant of a `UnitPowerLaw` object -/
def UnitPowerLaw.Inv (d : Gen.UnitPowerLaw X) : Prop :=
  UnitPowerLaw.Valid d.alpha

/-- `VonMises` (`src/dist/vonmises.rs`).  Rustdoc: "mean mu, and precision, k"; errors: "mu … less than zero or greater than `2*PI`", mu "infinite or NaN", k "less than or equal to zero", "infinite or NaN"; field `i0_k`: "bessel:i0(k), save some cycles".
    Domain: `mu` finite, in [0, 2π]; `k` finite, > 0. -/
def VonMises.Valid (mu : X) (k : X) : Prop :=
  C10.IsCircle mu ∧ C10.IsPos k
/-- parameter invariant of a `VonMises` object -/
def VonMises.Inv (d : Gen.VonMises X) : Prop :=
  VonMises.Valid d.mu d.k ∧ d.i0_k = RealLike.bessI0 d.k

/-- `SymmetricDirichlet` (`src/dist/dirichlet.rs`).  Rustdoc: "alpha: The Dirichlet weight" (errors "less than or equal to zero", "infinite or NaN"); "k: The number of weights" (error "k parameter is zero").
    Domain: `alpha` finite, > 0; `k` > 0. -/
def SymmetricDirichlet.Valid (alpha : X) (k : Nat) : Prop :=
  C10.IsPos alpha ∧ 0 < k
/-- parameter invariant of a `SymmetricDirichlet` object -/
def SymmetricDirichlet.Inv (d : Gen.SymmetricDirichlet X) : Prop :=
  SymmetricDirichlet.Valid d.alpha d.k

/-- `Uniform` (`src/dist/uniform.rs`).  Rustdoc: "U(a, b) on the interval x in [a, b]"; errors: "A >= B",
    "A was infinite or NaN", "B was infinite or NaN".  Domain: `a`, `b` finite, `a < b`. -/
def Uniform.Valid (a b : X) : Prop :=
  C10.IsFin a ∧ C10.IsFin b ∧ C10.IsLt a b
/-- parameter invariant of a `Uniform` object -/
def Uniform.Inv (d : Gen.Uniform X) : Prop :=
  Uniform.Valid d.a d.b

/-- `Dirichlet` (`src/dist/dirichlet.rs`).  Rustdoc: "alphas: A `Vec` of real numbers in (0, ∞)"; errors: "alpha vector is
    empty", "alphas parameter has one or more entries less than or equal to zero", "… infinite or NaN entries".
    Domain: non-empty, every entry finite and > 0. -/
def Dirichlet.Valid (alphas : List X) : Prop :=
  alphas ≠ [] ∧ ∀ a ∈ alphas, C10.IsPos a
/-- parameter invariant of a `Dirichlet` object -/
def Dirichlet.Inv (d : Gen.Dirichlet X) : Prop :=
  Dirichlet.Valid d.alphas

/-- `Categorical::new` (`src/dist/categorical.rs`).  Rustdoc of `new`: "weights: A vector describing the proportional
    likelihood of each outcome. The weights must all be positive, but do not need to sum to 1 because they will be
    normalized in the constructor."; errors: "Weights has not entries", "One or more of the weights is infinite or NaN",
    "One or more of the weights is less than zero".  Domain (constructor doc): non-empty, every weight finite and > 0. -/
def Categorical.Valid (weights : List X) : Prop :=
  weights ≠ [] ∧ ∀ w ∈ weights, C10.IsPos w
/-- the weaker reading given by the error enum alone ("less than zero" rejected, zero allowed) -/
def Categorical.ValidNonneg (weights : List X) : Prop :=
  weights ≠ [] ∧ ∀ w ∈ weights, C10.IsNonneg w

end Spec
