import RvModel.Gen.Defs
/-!
  Spec.C01A — textbook log-densities (group A), written from the documented parameterisation of each
  distribution, *not* from the code.  Generic over the carrier: evaluated on `Float` by `rvdrv` (oracle of the
  correspondence check) and on `R` by the theorems of `Props/C01A.lean`.
-/
open RealLike
namespace Spec

/-- N(μ, σ): ln f(x) = -(x-μ)²/(2σ²) - ln σ - ½ ln(2π) -/
def Gaussian.lnPdf {α : Type} [RealLike α] (d : Gen.Gaussian α) (x : α) : α :=
  -((x - d.mu) * (x - d.mu)) / ((2.0 : α) * (d.sigma * d.sigma)) - ln d.sigma - halfLn2Pi

end Spec
