import RvModel.Gen.Defs
/-!
  Spec.C08 — textbook summaries (mean, variance, skewness, kurtosis, median, mode, entropy, KL divergence) of
  every distribution of the crate that implements them.  Written from the mathematical literature (the
  moment / entropy tables of the Wikipedia article each rustdoc links to, Johnson–Kotz–Balakrishnan,
  Cover–Thomas for KL), in the parameterisation documented by the rustdoc — *not* from the code.

  Conventions (all of them are choices the property statement leaves open; they are fixed here once):

  * `Option α`: `none` = the quantity does not exist.
  * infinite moments.  The property accepts "None or an infinity" for a moment that is infinite.  The textbook
    classification (finite / +∞ / undefined) is spelled out in every definition below; an infinite moment is
    rendered by one of the two constants `infSome = some posInf` or `infNone = none`.  Which rendering a given
    summary uses is the only thing taken from the crate (Pareto, Gev, StudentsT.kurtosis: `Some(∞)`;
    StudentsT.variance, InvGamma, (Scaled)InvChiSquared: `None`).
  * kurtosis = EXCESS kurtosis (μ₄/σ⁴ − 3).  The crate does not document the convention; its Gaussian returns 0,
    Exponential 6, Laplace 3, Uniform −6/5, Poisson 1/λ, … so excess kurtosis is the crate-wide convention.
  * entropy: Shannon / differential entropy in NATS, with 0·ln 0 = 0.
  * mode: the point of the closed support where the (continuously extended) density attains its maximum, when
    that point is unique and the density is finite there; `none` otherwise (unbounded density, flat density,
    several maximisers) — the trait doc: "None if the mode is undefined or is not a single value".
  * KL: `kl p q` = KL(p‖q) = E_p[ln p − ln q], 0·ln(0/q) = 0.
  * at degenerate parameters that the constructors accept (Bernoulli p ∈ {0,1}) the plain textbook formula is
    kept (it evaluates to ±∞ in IEEE arithmetic where the standardised moment is 0/0-free).
-/
open RealLike
namespace Spec

variable {α : Type} [RealLike α]

/-- rendering of an infinite moment as `Some(∞)` -/
def infSome : Option α := some (posInf : α)
/-- rendering of an infinite moment as `None` -/
def infNone : Option α := none

/-- x ln x with the convention 0 ln 0 = 0 -/
def xlnx (x : α) : α := if feq x (0.0 : α) then (0.0 : α) else x * ln x

/-- x (ln x − ln y) with the convention 0 ln (0/y) = 0 -/
def xlnxy (x y : α) : α := if feq x (0.0 : α) then (0.0 : α) else x * (ln x - ln y)

/-! ### Bernoulli(p), P(true) = p -/
def Bernoulli.mean (d : Gen.Bernoulli α) : Option α := some d.p
def Bernoulli.variance (d : Gen.Bernoulli α) : Option α := some (d.p * ((1.0 : α) - d.p))
def Bernoulli.skewness (d : Gen.Bernoulli α) : Option α :=
  some (((1.0 : α) - (2.0 : α) * d.p) / sqrt (d.p * ((1.0 : α) - d.p)))
def Bernoulli.kurtosis (d : Gen.Bernoulli α) : Option α :=
  some (((1.0 : α) - (6.0 : α) * d.p * ((1.0 : α) - d.p)) / (d.p * ((1.0 : α) - d.p)))
/-- 0 if p < ½, 1 if p > ½, the midpoint ½ of the median interval [0,1] if p = ½ -/
def Bernoulli.median (d : Gen.Bernoulli α) : Option α :=
  if lt d.p (0.5 : α) then some (0.0 : α) else if feq d.p (0.5 : α) then some (0.5 : α) else some (1.0 : α)
def Bernoulli.modeBool (d : Gen.Bernoulli α) : Option Bool :=
  if lt d.p (0.5 : α) then some false else if feq d.p (0.5 : α) then none else some true
def Bernoulli.modeNat (d : Gen.Bernoulli α) : Option Nat :=
  if lt d.p (0.5 : α) then some 0 else if feq d.p (0.5 : α) then none else some 1
def Bernoulli.entropy (d : Gen.Bernoulli α) : α := -(xlnx d.p) - xlnx ((1.0 : α) - d.p)
def Bernoulli.kl (p q : Gen.Bernoulli α) : α :=
  xlnxy p.p q.p + xlnxy ((1.0 : α) - p.p) ((1.0 : α) - q.p)

/-! ### Beta(α, β) on (0,1) -/
def Beta.mean (d : Gen.Beta α) : Option α := some (d.alpha / (d.alpha + d.beta))
def Beta.variance (d : Gen.Beta α) : Option α :=
  let s := d.alpha + d.beta
  some (d.alpha * d.beta / (s * s * (s + (1.0 : α))))
def Beta.skewness (d : Gen.Beta α) : Option α :=
  let s := d.alpha + d.beta
  some ((2.0 : α) * (d.beta - d.alpha) * sqrt (s + (1.0 : α)) / ((s + (2.0 : α)) * sqrt (d.alpha * d.beta)))
def Beta.kurtosis (d : Gen.Beta α) : Option α :=
  let a := d.alpha; let b := d.beta; let s := a + b
  some ((6.0 : α) * ((a - b) * (a - b) * (s + (1.0 : α)) - a * b * (s + (2.0 : α)))
        / (a * b * (s + (2.0 : α)) * (s + (3.0 : α))))
/-- interior maximum (α−1)/(α+β−2) for α,β > 1; boundary maximum 0 (α = 1 < β) or 1 (β = 1 < α) where the density
    is finite; none when the density is unbounded (α < 1 or β < 1) or flat (α = β = 1) -/
def Beta.mode (d : Gen.Beta α) : Option α :=
  let a := d.alpha; let b := d.beta
  if gt a (1.0 : α) && gt b (1.0 : α) then some ((a - (1.0 : α)) / (a + b - (2.0 : α)))
  else if feq a (1.0 : α) && gt b (1.0 : α) then some (0.0 : α)
  else if gt a (1.0 : α) && feq b (1.0 : α) then some (1.0 : α)
  else none
def Beta.entropy (d : Gen.Beta α) : α :=
  let a := d.alpha; let b := d.beta
  lnBeta a b - (a - (1.0 : α)) * digamma a - (b - (1.0 : α)) * digamma b + (a + b - (2.0 : α)) * digamma (a + b)

/-! ### BetaBinomial(n, α, β) -/
def BetaBinomial.mean (d : Gen.BetaBinomial α) : Option α :=
  some (ofNatR d.n * d.alpha / (d.alpha + d.beta))
def BetaBinomial.variance (d : Gen.BetaBinomial α) : Option α :=
  let n := ofNatR d.n; let s := d.alpha + d.beta
  some (n * d.alpha * d.beta * (s + n) / (s * s * (s + (1.0 : α))))

/-! ### Binomial(n, p) -/
def Binomial.mean (d : Gen.Binomial α) : Option α := some (ofNatR d.n * d.p)
def Binomial.variance (d : Gen.Binomial α) : Option α := some (ofNatR d.n * d.p * ((1.0 : α) - d.p))
def Binomial.skewness (d : Gen.Binomial α) : Option α :=
  some (((1.0 : α) - (2.0 : α) * d.p) / sqrt (ofNatR d.n * d.p * ((1.0 : α) - d.p)))
def Binomial.kurtosis (d : Gen.Binomial α) : Option α :=
  some (((1.0 : α) - (6.0 : α) * d.p * ((1.0 : α) - d.p)) / (ofNatR d.n * d.p * ((1.0 : α) - d.p)))

/-! ### Categorical(w), stored as ln-weights -/
def Categorical.entropy (d : Gen.Categorical α) : α :=
  sumL (d.ln_weights.map (fun lw => if feq (exp lw) (0.0 : α) then (0.0 : α) else -(exp lw * lw)))
def Categorical.kl (p q : Gen.Categorical α) : α :=
  sumL ((List.zip p.ln_weights q.ln_weights).map
    (fun (lp, lq) => if feq (exp lp) (0.0 : α) then (0.0 : α) else exp lp * (lp - lq)))

/-! ### Cauchy(x₀, γ): no moments -/
def Cauchy.median (d : Gen.Cauchy α) : Option α := some d.loc
def Cauchy.mode (d : Gen.Cauchy α) : Option α := some d.loc
def Cauchy.entropy (d : Gen.Cauchy α) : α := ln ((4.0 : α) * pi * d.scale)

/-! ### ChiSquared(k) -/
def ChiSquared.mean (d : Gen.ChiSquared α) : Option α := some d.k
def ChiSquared.variance (d : Gen.ChiSquared α) : Option α := some ((2.0 : α) * d.k)
def ChiSquared.skewness (d : Gen.ChiSquared α) : Option α := some (sqrt ((8.0 : α) / d.k))
def ChiSquared.kurtosis (d : Gen.ChiSquared α) : Option α := some ((12.0 : α) / d.k)
def ChiSquared.mode (d : Gen.ChiSquared α) : Option α := some (max (d.k - (2.0 : α)) (0.0 : α))

/-! ### DiscreteUniform{a, …, b}, n = b − a + 1 points -/
def DiscreteUniform.median (d : Gen.DiscreteUniform α) : Option α := some (ofIntR (d.a + d.b) / (2.0 : α))
def DiscreteUniform.skewness (_d : Gen.DiscreteUniform α) : Option α := some (0.0 : α)
def DiscreteUniform.kurtosis (d : Gen.DiscreteUniform α) : Option α :=
  let n : α := ofIntR (d.b - d.a + 1)
  some (-((6.0 : α) * (n * n + (1.0 : α))) / ((5.0 : α) * (n * n - (1.0 : α))))
def DiscreteUniform.entropy (d : Gen.DiscreteUniform α) : α := ln (ofIntR (d.b - d.a + 1))

/-! ### Empirical(xs): the uniform distribution on the sample -/
def Empirical.mean (d : Gen.Empirical α) : Option α := some (sumL d.xs / ofNatR d.xs.length)
def Empirical.variance (d : Gen.Empirical α) : Option α :=
  let n : α := ofNatR d.xs.length
  let m := sumL d.xs / n
  some (sumL (d.xs.map (fun x => (x - m) * (x - m))) / n)

/-! ### Exponential(λ) -/
def Exponential.mean (d : Gen.Exponential α) : Option α := some ((1.0 : α) / d.rate)
def Exponential.variance (d : Gen.Exponential α) : Option α := some ((1.0 : α) / (d.rate * d.rate))
def Exponential.skewness (_d : Gen.Exponential α) : Option α := some (2.0 : α)
def Exponential.kurtosis (_d : Gen.Exponential α) : Option α := some (6.0 : α)
def Exponential.median (d : Gen.Exponential α) : Option α := some (ln (2.0 : α) / d.rate)
def Exponential.mode (_d : Gen.Exponential α) : Option α := some (0.0 : α)
def Exponential.entropy (d : Gen.Exponential α) : α := (1.0 : α) - ln d.rate
/-- KL(Exp(λ₁)‖Exp(λ₂)) = ln(λ₁/λ₂) + λ₂/λ₁ − 1 -/
def Exponential.kl (p q : Gen.Exponential α) : α := ln p.rate - ln q.rate + q.rate / p.rate - (1.0 : α)

/-! ### Gamma(shape k, rate β) -/
def Gamma.mean (d : Gen.Gamma α) : Option α := some (d.shape / d.rate)
def Gamma.variance (d : Gen.Gamma α) : Option α := some (d.shape / (d.rate * d.rate))
def Gamma.skewness (d : Gen.Gamma α) : Option α := some ((2.0 : α) / sqrt d.shape)
def Gamma.kurtosis (d : Gen.Gamma α) : Option α := some ((6.0 : α) / d.shape)
/-- (k−1)/β for k ≥ 1; the density is unbounded for k < 1 -/
def Gamma.mode (d : Gen.Gamma α) : Option α :=
  if ge d.shape (1.0 : α) then some ((d.shape - (1.0 : α)) / d.rate) else none
def Gamma.entropy (d : Gen.Gamma α) : α :=
  d.shape - ln d.rate + lgamma d.shape + ((1.0 : α) - d.shape) * digamma d.shape

/-! ### Gaussian(μ, σ) -/
def Gaussian.mean (d : Gen.Gaussian α) : Option α := some d.mu
def Gaussian.median (d : Gen.Gaussian α) : Option α := some d.mu
def Gaussian.mode (d : Gen.Gaussian α) : Option α := some d.mu
def Gaussian.variance (d : Gen.Gaussian α) : Option α := some (d.sigma * d.sigma)
def Gaussian.skewness (_d : Gen.Gaussian α) : Option α := some (0.0 : α)
def Gaussian.kurtosis (_d : Gen.Gaussian α) : Option α := some (0.0 : α)
/-- ½ ln(2πe σ²) -/
def Gaussian.entropy (d : Gen.Gaussian α) : α := (0.5 : α) * ln ((2.0 : α) * pi * e * (d.sigma * d.sigma))
/-- ln(σ₂/σ₁) + (σ₁² + (μ₁−μ₂)²)/(2σ₂²) − ½ -/
def Gaussian.kl (p q : Gen.Gaussian α) : α :=
  ln (q.sigma / p.sigma) + (p.sigma * p.sigma + (p.mu - q.mu) * (p.mu - q.mu)) / ((2.0 : α) * (q.sigma * q.sigma))
    - (0.5 : α)

/-! ### Geometric(p) on {0,1,2,…} (failures before the first success) -/
def Geometric.mean (d : Gen.Geometric α) : Option α := some (((1.0 : α) - d.p) / d.p)
def Geometric.variance (d : Gen.Geometric α) : Option α := some (((1.0 : α) - d.p) / (d.p * d.p))
def Geometric.skewness (d : Gen.Geometric α) : Option α := some (((2.0 : α) - d.p) / sqrt ((1.0 : α) - d.p))
def Geometric.kurtosis (d : Gen.Geometric α) : Option α := some ((6.0 : α) + d.p * d.p / ((1.0 : α) - d.p))
/-- (−(1−p) ln(1−p) − p ln p)/p nats -/
def Geometric.entropy (d : Gen.Geometric α) : α := (-(xlnx ((1.0 : α) - d.p)) - xlnx d.p) / d.p

/-! ### Gev(μ, σ, ξ) -/
/-- μ + σ(Γ(1−ξ)−1)/ξ for ξ ≠ 0, ξ < 1;  μ + σγ for ξ = 0;  +∞ for ξ ≥ 1 -/
def Gev.mean (d : Gen.Gev α) : Option α :=
  if feq d.shape (0.0 : α) then some (d.loc + d.scale * eulerGamma)
  else if lt d.shape (1.0 : α) then some (d.loc + d.scale * (gamma ((1.0 : α) - d.shape) - (1.0 : α)) / d.shape)
  else infSome
/-- σ²(g₂ − g₁²)/ξ² for ξ ≠ 0, ξ < ½;  σ²π²/6 for ξ = 0;  +∞ for ξ ≥ ½ -/
def Gev.variance (d : Gen.Gev α) : Option α :=
  if feq d.shape (0.0 : α) then some (d.scale * d.scale * (pi * pi) / (6.0 : α))
  else if lt d.shape (0.5 : α) then
    let g1 := gamma ((1.0 : α) - d.shape)
    let g2 := gamma ((1.0 : α) - (2.0 : α) * d.shape)
    some (d.scale * d.scale * (g2 - g1 * g1) / (d.shape * d.shape))
  else infSome
def Gev.median (d : Gen.Gev α) : Option α :=
  if feq d.shape (0.0 : α) then some (d.loc - d.scale * ln (ln (2.0 : α)))
  else some (d.loc + d.scale * (powf (ln (2.0 : α)) (-d.shape) - (1.0 : α)) / d.shape)
/-- μ + σ((1+ξ)^(−ξ) − 1)/ξ for ξ ≠ 0, ξ ≥ −1;  μ for ξ = 0;  the density is unbounded for ξ < −1 -/
def Gev.mode (d : Gen.Gev α) : Option α :=
  if feq d.shape (0.0 : α) then some d.loc
  else if lt d.shape (-(1.0 : α)) then none
  else some (d.loc + d.scale * (powf ((1.0 : α) + d.shape) (-d.shape) - (1.0 : α)) / d.shape)
def Gev.entropy (d : Gen.Gev α) : α := ln d.scale + eulerGamma * d.shape + eulerGamma + (1.0 : α)

/-! ### InvChiSquared(ν) -/
/-- 1/(ν−2) for ν > 2; +∞ for ν ≤ 2 -/
def InvChiSquared.mean (d : Gen.InvChiSquared α) : Option α :=
  if gt d.v (2.0 : α) then some ((1.0 : α) / (d.v - (2.0 : α))) else infNone
/-- 2/((ν−2)²(ν−4)) for ν > 4; +∞ for 2 < ν ≤ 4; undefined for ν ≤ 2 -/
def InvChiSquared.variance (d : Gen.InvChiSquared α) : Option α :=
  if gt d.v (4.0 : α) then some ((2.0 : α) / ((d.v - (2.0 : α)) * (d.v - (2.0 : α)) * (d.v - (4.0 : α))))
  else if gt d.v (2.0 : α) then infNone else none
def InvChiSquared.skewness (d : Gen.InvChiSquared α) : Option α :=
  if gt d.v (6.0 : α) then some ((4.0 : α) / (d.v - (6.0 : α)) * sqrt ((2.0 : α) * (d.v - (4.0 : α))))
  else if gt d.v (4.0 : α) then infNone else none
def InvChiSquared.kurtosis (d : Gen.InvChiSquared α) : Option α :=
  if gt d.v (8.0 : α) then
    some ((12.0 : α) * ((5.0 : α) * d.v - (22.0 : α)) / ((d.v - (6.0 : α)) * (d.v - (8.0 : α))))
  else if gt d.v (4.0 : α) then infNone else none
def InvChiSquared.mode (d : Gen.InvChiSquared α) : Option α := some ((1.0 : α) / (d.v + (2.0 : α)))

/-! ### InvGamma(shape α, scale β) -/
def InvGamma.mean (d : Gen.InvGamma α) : Option α :=
  if gt d.shape (1.0 : α) then some (d.scale / (d.shape - (1.0 : α))) else infNone
def InvGamma.variance (d : Gen.InvGamma α) : Option α :=
  if gt d.shape (2.0 : α) then
    some (d.scale * d.scale / ((d.shape - (1.0 : α)) * (d.shape - (1.0 : α)) * (d.shape - (2.0 : α))))
  else if gt d.shape (1.0 : α) then infNone else none
def InvGamma.skewness (d : Gen.InvGamma α) : Option α :=
  if gt d.shape (3.0 : α) then some ((4.0 : α) * sqrt (d.shape - (2.0 : α)) / (d.shape - (3.0 : α)))
  else if gt d.shape (2.0 : α) then infNone else none
def InvGamma.kurtosis (d : Gen.InvGamma α) : Option α :=
  if gt d.shape (4.0 : α) then
    some ((6.0 : α) * ((5.0 : α) * d.shape - (11.0 : α)) / ((d.shape - (3.0 : α)) * (d.shape - (4.0 : α))))
  else if gt d.shape (2.0 : α) then infNone else none
def InvGamma.mode (d : Gen.InvGamma α) : Option α := some (d.scale / (d.shape + (1.0 : α)))
/-- α + ln(β Γ(α)) − (1+α) ψ(α) -/
def InvGamma.entropy (d : Gen.InvGamma α) : α :=
  d.shape + ln d.scale + lgamma d.shape - ((1.0 : α) + d.shape) * digamma d.shape

/-! ### InvGaussian(μ, λ) -/
def InvGaussian.mean (d : Gen.InvGaussian α) : Option α := some d.mu
def InvGaussian.variance (d : Gen.InvGaussian α) : Option α := some (d.mu * d.mu * d.mu / d.lambda')
def InvGaussian.skewness (d : Gen.InvGaussian α) : Option α := some ((3.0 : α) * sqrt (d.mu / d.lambda'))
def InvGaussian.kurtosis (d : Gen.InvGaussian α) : Option α := some ((15.0 : α) * d.mu / d.lambda')
/-- μ[√(1 + 9μ²/(4λ²)) − 3μ/(2λ)] -/
def InvGaussian.mode (d : Gen.InvGaussian α) : Option α :=
  some (d.mu * (sqrt ((1.0 : α) + (9.0 : α) * (d.mu * d.mu) / ((4.0 : α) * (d.lambda' * d.lambda')))
                - (3.0 : α) * d.mu / ((2.0 : α) * d.lambda')))

/-! ### Kumaraswamy(a, b) on (0,1) -/
/-- b·B(1 + 1/a, b) -/
def Kumaraswamy.mean (d : Gen.Kumaraswamy α) : Option α :=
  let t := (1.0 : α) + (1.0 : α) / d.a
  some (d.b * gamma t * gamma d.b / gamma (t + d.b))
def Kumaraswamy.median (d : Gen.Kumaraswamy α) : Option α :=
  some (powf ((1.0 : α) - powf (2.0 : α) (-((1.0 : α) / d.b))) ((1.0 : α) / d.a))
/-- ((a−1)/(ab−1))^(1/a) for a ≥ 1, b ≥ 1, (a,b) ≠ (1,1) -/
def Kumaraswamy.mode (d : Gen.Kumaraswamy α) : Option α :=
  if ge d.a (1.0 : α) && ge d.b (1.0 : α) then
    if feq d.a (1.0 : α) && feq d.b (1.0 : α) then none
    else some (powf ((d.a - (1.0 : α)) / (d.a * d.b - (1.0 : α))) ((1.0 : α) / d.a))
  else none
/-- (1 − 1/b) + (1 − 1/a) H_b − ln(ab), H_b = ψ(b+1) + γ the harmonic number -/
def Kumaraswamy.entropy (d : Gen.Kumaraswamy α) : α :=
  ((1.0 : α) - (1.0 : α) / d.b) + ((1.0 : α) - (1.0 : α) / d.a) * (digamma (d.b + (1.0 : α)) + eulerGamma)
    - ln (d.a * d.b)

/-! ### Laplace(μ, b) -/
def Laplace.mean (d : Gen.Laplace α) : Option α := some d.mu
def Laplace.median (d : Gen.Laplace α) : Option α := some d.mu
def Laplace.mode (d : Gen.Laplace α) : Option α := some d.mu
def Laplace.variance (d : Gen.Laplace α) : Option α := some ((2.0 : α) * (d.b * d.b))
def Laplace.skewness (_d : Gen.Laplace α) : Option α := some (0.0 : α)
def Laplace.kurtosis (_d : Gen.Laplace α) : Option α := some (3.0 : α)
def Laplace.entropy (d : Gen.Laplace α) : α := (1.0 : α) + ln ((2.0 : α) * d.b)

/-! ### LogNormal(μ, σ) -/
def LogNormal.mean (d : Gen.LogNormal α) : Option α := some (exp (d.mu + d.sigma * d.sigma / (2.0 : α)))
def LogNormal.median (d : Gen.LogNormal α) : Option α := some (exp d.mu)
def LogNormal.mode (d : Gen.LogNormal α) : Option α := some (exp (d.mu - d.sigma * d.sigma))
def LogNormal.variance (d : Gen.LogNormal α) : Option α :=
  let s2 := d.sigma * d.sigma
  some (RealLike.expm1 s2 * exp ((2.0 : α) * d.mu + s2))
def LogNormal.skewness (d : Gen.LogNormal α) : Option α :=
  let w := exp (d.sigma * d.sigma)
  some ((w + (2.0 : α)) * sqrt (w - (1.0 : α)))
def LogNormal.kurtosis (d : Gen.LogNormal α) : Option α :=
  let s2 := d.sigma * d.sigma
  some (exp ((4.0 : α) * s2) + (2.0 : α) * exp ((3.0 : α) * s2) + (3.0 : α) * exp ((2.0 : α) * s2) - (6.0 : α))
/-- μ + ½ + ln σ + ½ ln 2π -/
def LogNormal.entropy (d : Gen.LogNormal α) : α := d.mu + (0.5 : α) + ln d.sigma + halfLn2Pi

/-! ### NegBinomial(r, p): failures before the r-th success (MathWorld / scipy) -/
def NegBinomial.mean (d : Gen.NegBinomial α) : Option α := some (d.r * ((1.0 : α) - d.p) / d.p)
def NegBinomial.variance (d : Gen.NegBinomial α) : Option α := some (d.r * ((1.0 : α) - d.p) / (d.p * d.p))
def NegBinomial.skewness (d : Gen.NegBinomial α) : Option α :=
  some (((2.0 : α) - d.p) / sqrt (d.r * ((1.0 : α) - d.p)))
def NegBinomial.kurtosis (d : Gen.NegBinomial α) : Option α :=
  some ((6.0 : α) / d.r + d.p * d.p / (d.r * ((1.0 : α) - d.p)))

/-! ### Pareto(shape α, scale x_m) -/
def Pareto.mean (d : Gen.Pareto α) : Option α :=
  if gt d.shape (1.0 : α) then some (d.shape * d.scale / (d.shape - (1.0 : α))) else infSome
/-- x_m² α/((α−1)²(α−2)) for α > 2; +∞ for α ≤ 2 (Wikipedia; for α ≤ 1 the mean itself is +∞) -/
def Pareto.variance (d : Gen.Pareto α) : Option α :=
  if gt d.shape (2.0 : α) then
    some (d.scale * d.scale * d.shape / ((d.shape - (1.0 : α)) * (d.shape - (1.0 : α)) * (d.shape - (2.0 : α))))
  else infSome
def Pareto.skewness (d : Gen.Pareto α) : Option α :=
  if gt d.shape (3.0 : α) then
    some ((2.0 : α) * ((1.0 : α) + d.shape) / (d.shape - (3.0 : α)) * sqrt ((d.shape - (2.0 : α)) / d.shape))
  else if gt d.shape (2.0 : α) then infNone else none
def Pareto.kurtosis (d : Gen.Pareto α) : Option α :=
  let a := d.shape
  if gt a (4.0 : α) then
    some ((6.0 : α) * (a * a * a + a * a - (6.0 : α) * a - (2.0 : α)) / (a * (a - (3.0 : α)) * (a - (4.0 : α))))
  else if gt a (2.0 : α) then infNone else none
def Pareto.mode (d : Gen.Pareto α) : Option α := some d.scale
/-- ln((x_m/α) e^{1 + 1/α}) = ln x_m − ln α + 1 + 1/α nats -/
def Pareto.entropy (d : Gen.Pareto α) : α := ln (d.scale / d.shape) + (1.0 : α) + (1.0 : α) / d.shape

/-! ### Poisson(λ) -/
def Poisson.mean (d : Gen.Poisson α) : Option α := some d.rate
def Poisson.variance (d : Gen.Poisson α) : Option α := some d.rate
def Poisson.skewness (d : Gen.Poisson α) : Option α := some ((1.0 : α) / sqrt d.rate)
def Poisson.kurtosis (d : Gen.Poisson α) : Option α := some ((1.0 : α) / d.rate)
/-- the two modes ⌈λ⌉ − 1 and ⌊λ⌋ (equal unless λ is an integer) -/
def Poisson.modePair (d : Gen.Poisson α) : Option (Nat × Nat) :=
  some (toNat (ceil d.rate) - 1, toNat (floor d.rate))
/-- λ₁ ln(λ₁/λ₂) + λ₂ − λ₁ -/
def Poisson.kl (p q : Gen.Poisson α) : α := p.rate * (ln p.rate - ln q.rate) + q.rate - p.rate

/-! ### ScaledInvChiSquared(ν, τ²) -/
def ScaledInvChiSquared.mean (d : Gen.ScaledInvChiSquared α) : Option α :=
  if gt d.v (2.0 : α) then some (d.v * d.t2 / (d.v - (2.0 : α))) else infNone
def ScaledInvChiSquared.variance (d : Gen.ScaledInvChiSquared α) : Option α :=
  if gt d.v (4.0 : α) then
    some ((2.0 : α) * (d.v * d.v) * (d.t2 * d.t2) / ((d.v - (2.0 : α)) * (d.v - (2.0 : α)) * (d.v - (4.0 : α))))
  else if gt d.v (2.0 : α) then infNone else none
def ScaledInvChiSquared.skewness (d : Gen.ScaledInvChiSquared α) : Option α :=
  if gt d.v (6.0 : α) then some ((4.0 : α) / (d.v - (6.0 : α)) * sqrt ((2.0 : α) * (d.v - (4.0 : α))))
  else if gt d.v (4.0 : α) then infNone else none
def ScaledInvChiSquared.kurtosis (d : Gen.ScaledInvChiSquared α) : Option α :=
  if gt d.v (8.0 : α) then
    some ((12.0 : α) * ((5.0 : α) * d.v - (22.0 : α)) / ((d.v - (6.0 : α)) * (d.v - (8.0 : α))))
  else if gt d.v (4.0 : α) then infNone else none
def ScaledInvChiSquared.mode (d : Gen.ScaledInvChiSquared α) : Option α :=
  some (d.v * d.t2 / (d.v + (2.0 : α)))

/-! ### Skellam(μ₁, μ₂) -/
def Skellam.mean (d : Gen.Skellam α) : Option α := some (d.mu_1 - d.mu_2)
def Skellam.variance (d : Gen.Skellam α) : Option α := some (d.mu_1 + d.mu_2)
def Skellam.skewness (d : Gen.Skellam α) : Option α :=
  let s := d.mu_1 + d.mu_2
  some ((d.mu_1 - d.mu_2) / (s * sqrt s))
/-- excess kurtosis 1/(μ₁+μ₂) -/
def Skellam.kurtosis (d : Gen.Skellam α) : Option α := some ((1.0 : α) / (d.mu_1 + d.mu_2))

/-! ### StudentsT(ν) -/
/-- 0 for ν > 1, undefined otherwise -/
def StudentsT.mean (d : Gen.StudentsT α) : Option α := if gt d.v (1.0 : α) then some (0.0 : α) else none
def StudentsT.median (_d : Gen.StudentsT α) : Option α := some (0.0 : α)
def StudentsT.mode (_d : Gen.StudentsT α) : Option α := some (0.0 : α)
/-- ν/(ν−2) for ν > 2; +∞ for 1 < ν ≤ 2; undefined otherwise -/
def StudentsT.variance (d : Gen.StudentsT α) : Option α :=
  if gt d.v (2.0 : α) then some (d.v / (d.v - (2.0 : α))) else if gt d.v (1.0 : α) then infNone else none
/-- 0 for ν > 3, undefined otherwise -/
def StudentsT.skewness (d : Gen.StudentsT α) : Option α := if gt d.v (3.0 : α) then some (0.0 : α) else none
/-- 6/(ν−4) for ν > 4; +∞ for 2 < ν ≤ 4; undefined otherwise -/
def StudentsT.kurtosis (d : Gen.StudentsT α) : Option α :=
  if gt d.v (4.0 : α) then some ((6.0 : α) / (d.v - (4.0 : α))) else if gt d.v (2.0 : α) then infSome else none

/-! ### Uniform(a, b) -/
def Uniform.mean (d : Gen.Uniform α) : Option α := some ((d.a + d.b) / (2.0 : α))
def Uniform.median (d : Gen.Uniform α) : Option α := some ((d.a + d.b) / (2.0 : α))
def Uniform.variance (d : Gen.Uniform α) : Option α := some ((d.b - d.a) * (d.b - d.a) / (12.0 : α))
def Uniform.skewness (_d : Gen.Uniform α) : Option α := some (0.0 : α)
def Uniform.kurtosis (_d : Gen.Uniform α) : Option α := some (-((6.0 : α) / (5.0 : α)))
def Uniform.entropy (d : Gen.Uniform α) : α := ln (d.b - d.a)

/-! ### UnitPowerLaw(α): density α x^(α−1) on (0,1) (= Beta(α, 1)) -/
def UnitPowerLaw.mean (d : Gen.UnitPowerLaw α) : Option α := some (d.alpha / (d.alpha + (1.0 : α)))
def UnitPowerLaw.variance (d : Gen.UnitPowerLaw α) : Option α :=
  let a := d.alpha
  some (a / ((a + (1.0 : α)) * (a + (1.0 : α)) * (a + (2.0 : α))))
def UnitPowerLaw.skewness (d : Gen.UnitPowerLaw α) : Option α :=
  let a := d.alpha
  some ((2.0 : α) * ((1.0 : α) - a) * sqrt (a + (2.0 : α)) / ((a + (3.0 : α)) * sqrt a))
def UnitPowerLaw.kurtosis (d : Gen.UnitPowerLaw α) : Option α :=
  let a := d.alpha
  some ((6.0 : α) * ((a - (1.0 : α)) * (a - (1.0 : α)) * (a + (2.0 : α)) - a * (a + (3.0 : α)))
        / (a * (a + (3.0 : α)) * (a + (4.0 : α))))
/-- 1 for α > 1; flat for α = 1; unbounded at 0 for α < 1 -/
def UnitPowerLaw.mode (d : Gen.UnitPowerLaw α) : Option α := if gt d.alpha (1.0 : α) then some (1.0 : α) else none
/-- −∫ αx^(α−1) ln(αx^(α−1)) = 1 − 1/α − ln α -/
def UnitPowerLaw.entropy (d : Gen.UnitPowerLaw α) : α := (1.0 : α) - (1.0 : α) / d.alpha - ln d.alpha

/-! ### VonMises(μ, κ) on the circle; `i0_k` is a cached I₀(κ) and is not read here -/
def VonMises.mean (d : Gen.VonMises α) : Option α := some d.mu
def VonMises.median (d : Gen.VonMises α) : Option α := some d.mu
def VonMises.mode (d : Gen.VonMises α) : Option α := some d.mu
/-- circular variance 1 − I₁(κ)/I₀(κ) -/
def VonMises.variance (d : Gen.VonMises α) : Option α := some ((1.0 : α) - bessI1 d.k / bessI0 d.k)
/-- −κ I₁(κ)/I₀(κ) + ln(2π I₀(κ)) -/
def VonMises.entropy (d : Gen.VonMises α) : α :=
  -(d.k * bessI1 d.k / bessI0 d.k) + ln ((2.0 : α) * pi * bessI0 d.k)

end Spec
