import RvModel.Prelude
/-!
  Spec.C13 — reference definitions of the log-domain helpers, written from the mathematics
  (max-shifted evaluation, −∞ entries contribute nothing), Mathlib-free; evaluated on `Float` by `rvdrv`.
-/
open RealLike
namespace Spec

/-- ln Σ exp xᵢ ; −∞ when no entry is finite (in particular for the empty list) -/
def logsumexp {α : Type} [RealLike α] [BEq α] (xs : List α) : α :=
  let fins := xs.filter (fun x => !(feq x (negInf : α)))
  match fins with
  | [] => negInf
  | y :: ys =>
    let m := ys.foldl RealLike.max y
    -- ln Σ exp xᵢ = m + ln(1 + Σ_{i ≠ argmax} exp (xᵢ − m)), evaluated with ln1p (no cancellation)
    let rest := fins.erase m
    m + ln1p (sumL (rest.map (fun x => exp (x - m))))

def logaddexp {α : Type} [RealLike α] [BEq α] (x y : α) : α := logsumexp [x, y]

/-- ln(1 + eˣ), evaluated stably -/
def log1pexp {α : Type} [RealLike α] (x : α) : α :=
  if RealLike.gt x (0.0 : α) then x + ln1p (exp (-x)) else ln1p (exp x)

/-- prefix sums -/
def cumsum {α : Type} [RealLike α] (xs : List α) : List α :=
  (List.range xs.length).map (fun i => sumL (xs.take (i + 1)))

end Spec
