import RvModel.Gen.Defs
/-!
  Spec.C12 — textbook quantile functions (inverse CDFs), written from the documented parameterisation of each
  distribution, *not* from the code.  Generic over the carrier: evaluated on `Float` by `rvdrv` (oracle of the
  correspondence check) and on `R` by the theorems of `Props/C12A.lean`.

  For a continuous law with strictly increasing CDF `F` on its support the quantile function is `F⁻¹`; for a
  discrete law it is the generalised inverse `Q(p) = min {k ∈ support | F(k) ≥ p}`.
-/
open RealLike
namespace Spec

/-- Exp(λ): F(x) = 1 − e^{−λx}, Q(p) = −ln(1−p)/λ -/
def Exponential.quantile {α : Type} [RealLike α] (d : Gen.Exponential α) (p : α) : α :=
  -(ln ((1.0 : α) - p)) / d.rate

/-- U(a, b): F(x) = (x−a)/(b−a), Q(p) = a + p (b−a) -/
def Uniform.quantile {α : Type} [RealLike α] (d : Gen.Uniform α) (p : α) : α :=
  d.a + p * (d.b - d.a)

/-- Cauchy(x₀, γ): F(x) = ½ + arctan((x−x₀)/γ)/π, Q(p) = x₀ + γ tan(π (p − ½)) -/
def Cauchy.quantile {α : Type} [RealLike α] (d : Gen.Cauchy α) (p : α) : α :=
  d.loc + d.scale * tan ((pi : α) * (p - (0.5 : α)))

/-- Kumaraswamy(a, b): F(x) = 1 − (1 − x^a)^b, Q(p) = (1 − (1−p)^{1/b})^{1/a} -/
def Kumaraswamy.quantile {α : Type} [RealLike α] (d : Gen.Kumaraswamy α) (p : α) : α :=
  powf ((1.0 : α) - powf ((1.0 : α) - p) ((1.0 : α) / d.b)) ((1.0 : α) / d.a)

/-- UnitPowerLaw(α): F(x) = x^α on (0,1), Q(p) = p^{1/α} -/
def UnitPowerLaw.quantile {α : Type} [RealLike α] (d : Gen.UnitPowerLaw α) (p : α) : α :=
  powf p ((1.0 : α) / d.alpha)

/-- N(μ, σ): F(x) = ½ (1 + erf((x−μ)/(σ√2))), Q(p) = μ + σ √2 erf⁻¹(2p − 1) -/
def Gaussian.quantile {α : Type} [RealLike α] (d : Gen.Gaussian α) (p : α) : α :=
  d.mu + d.sigma * (sqrt2 : α) * erfInv ((2.0 : α) * p - (1.0 : α))

/-- LogNormal(μ, σ): X = e^Y with Y ~ N(μ, σ), Q(p) = exp(μ + σ √2 erf⁻¹(2p − 1)) -/
def LogNormal.quantile {α : Type} [RealLike α] (d : Gen.LogNormal α) (p : α) : α :=
  exp (d.mu + d.sigma * (sqrt2 : α) * erfInv ((2.0 : α) * p - (1.0 : α)))

/-- textbook CDF of the discrete uniform law on the integers {a, …, b}: F(k) = (k − a + 1)/(b − a + 1) for a ≤ k ≤ b,
    0 below a, 1 above b -/
def DiscreteUniform.cdf {α : Type} [RealLike α] (d : Gen.DiscreteUniform α) (k : Int) : α :=
  if k < d.a then (0.0 : α) else if d.b ≤ k then (1.0 : α)
  else ofIntR (k - d.a + 1) / ofIntR (d.b - d.a + 1)

/-- DiscreteUniform{a..b}: generalised inverse Q(p) = min {k ∈ {a..b} | F(k) ≥ p} = a + ⌈p (b−a+1)⌉ − 1 for
    p ∈ (0,1] (and a for p = 0).  `Props/C12A.lean` (`DiscreteUniform_spec_quantile_is_min`) proves that this
    closed form is the minimum in the definition. -/
def DiscreteUniform.quantile {α : Type} [RealLike α] (d : Gen.DiscreteUniform α) (p : α) : Int :=
  max d.a (d.a + toInt (ceil (p * ofIntR (d.b - d.a + 1))) - 1)

end Spec
