import RvModel.Gen.Defs
/-!
  Spec.C01B — textbook log-densities of the continuous univariate distributions, written from the mathematical
  definition under the parameterisation documented in the rustdoc of each distribution, *not* from the code.
  Generic over the carrier: evaluated on `Float` by `rvdrv` (oracle of the correspondence check) and on `R` by
  the theorems of `Props/C01B.lean`.  Every formula is the value on the (open) support of the distribution.
-/
open RealLike
namespace Spec

/-- Gamma(shape α, rate β), x > 0:  f = β^α / Γ(α) · x^(α-1) e^(-βx) -/
def Gamma.lnPdf {α : Type} [RealLike α] (d : Gen.Gamma α) (x : α) : α :=
  d.shape * ln d.rate - lgamma d.shape + (d.shape - (1.0 : α)) * ln x - d.rate * x

/-- Beta(α, β), 0 < x < 1:  f = x^(α-1) (1-x)^(β-1) / B(α, β),  B(α, β) = Γ(α)Γ(β)/Γ(α+β) -/
def Beta.lnPdf {α : Type} [RealLike α] (d : Gen.Beta α) (x : α) : α :=
  (d.alpha - (1.0 : α)) * ln x + (d.beta - (1.0 : α)) * ln ((1.0 : α) - x)
    - (lgamma d.alpha + lgamma d.beta - lgamma (d.alpha + d.beta))

/-- Exp(rate λ), x ≥ 0:  f = λ e^(-λx) -/
def Exponential.lnPdf {α : Type} [RealLike α] (d : Gen.Exponential α) (x : α) : α :=
  ln d.rate - d.rate * x

/-- Cauchy(loc x₀, scale γ):  f = 1 / (π γ (1 + ((x-x₀)/γ)²)) -/
def Cauchy.lnPdf {α : Type} [RealLike α] (d : Gen.Cauchy α) (x : α) : α :=
  -(lnPi : α) - ln d.scale - ln ((1.0 : α) + ((x - d.loc) / d.scale) * ((x - d.loc) / d.scale))

/-- Laplace(μ, b):  f = 1/(2b) · e^(-|x-μ|/b) -/
def Laplace.lnPdf {α : Type} [RealLike α] (d : Gen.Laplace α) (x : α) : α :=
  -(ln ((2.0 : α) * d.b)) - abs (x - d.mu) / d.b

/-- LogNormal(μ, σ), x > 0:  f = 1/(x σ √(2π)) · e^(-(ln x - μ)²/(2σ²)) -/
def LogNormal.lnPdf {α : Type} [RealLike α] (d : Gen.LogNormal α) (x : α) : α :=
  -(ln x) - ln d.sigma - halfLn2Pi - ((ln x - d.mu) * (ln x - d.mu)) / ((2.0 : α) * (d.sigma * d.sigma))

/-- InvGamma(shape α, scale β), x > 0:  f = β^α / Γ(α) · x^(-α-1) e^(-β/x) -/
def InvGamma.lnPdf {α : Type} [RealLike α] (d : Gen.InvGamma α) (x : α) : α :=
  d.shape * ln d.scale - lgamma d.shape - (d.shape + (1.0 : α)) * ln x - d.scale / x

/-- χ²(k), x > 0:  f = x^(k/2-1) e^(-x/2) / (2^(k/2) Γ(k/2)) -/
def ChiSquared.lnPdf {α : Type} [RealLike α] (d : Gen.ChiSquared α) (x : α) : α :=
  (d.k / (2.0 : α) - (1.0 : α)) * ln x - x / (2.0 : α) - (d.k / (2.0 : α)) * ln2 - lgamma (d.k / (2.0 : α))

/-- Inv-χ²(ν), x > 0:  f = 2^(-ν/2) / Γ(ν/2) · x^(-ν/2-1) e^(-1/(2x)) -/
def InvChiSquared.lnPdf {α : Type} [RealLike α] (d : Gen.InvChiSquared α) (x : α) : α :=
  -((d.v / (2.0 : α)) * ln2) - lgamma (d.v / (2.0 : α)) - (d.v / (2.0 : α) + (1.0 : α)) * ln x
    - (1.0 : α) / ((2.0 : α) * x)

/-- Scaled-Inv-χ²(ν, τ²), x > 0:  f = (τ²ν/2)^(ν/2) / Γ(ν/2) · x^(-(1+ν/2)) e^(-ντ²/(2x)) -/
def ScaledInvChiSquared.lnPdf {α : Type} [RealLike α] (d : Gen.ScaledInvChiSquared α) (x : α) : α :=
  (d.v / (2.0 : α)) * ln (d.t2 * d.v / (2.0 : α)) - lgamma (d.v / (2.0 : α))
    - ((1.0 : α) + d.v / (2.0 : α)) * ln x - d.v * d.t2 / ((2.0 : α) * x)

/-- Student's t(ν):  f = Γ((ν+1)/2) / (√(νπ) Γ(ν/2)) · (1 + x²/ν)^(-(ν+1)/2) -/
def StudentsT.lnPdf {α : Type} [RealLike α] (d : Gen.StudentsT α) (x : α) : α :=
  lgamma ((d.v + (1.0 : α)) / (2.0 : α)) - lgamma (d.v / (2.0 : α)) - ln (d.v * pi) / (2.0 : α)
    - ((d.v + (1.0 : α)) / (2.0 : α)) * ln ((1.0 : α) + x * x / d.v)

/-- Kumaraswamy(a, b), 0 < x < 1:  f = a b x^(a-1) (1 - x^a)^(b-1) -/
def Kumaraswamy.lnPdf {α : Type} [RealLike α] (d : Gen.Kumaraswamy α) (x : α) : α :=
  ln d.a + ln d.b + (d.a - (1.0 : α)) * ln x + (d.b - (1.0 : α)) * ln ((1.0 : α) - powf x d.a)

/-- UnitPowerLaw(α) = Beta(α, 1), 0 < x < 1:  f = α x^(α-1) -/
def UnitPowerLaw.lnPdf {α : Type} [RealLike α] (d : Gen.UnitPowerLaw α) (x : α) : α :=
  ln d.alpha + (d.alpha - (1.0 : α)) * ln x

/-- Pareto(shape α, scale x_m), x ≥ x_m:  f = α x_m^α / x^(α+1) -/
def Pareto.lnPdf {α : Type} [RealLike α] (d : Gen.Pareto α) (x : α) : α :=
  ln d.shape + d.shape * ln d.scale - (d.shape + (1.0 : α)) * ln x

/-- U(a, b), a ≤ x ≤ b:  f = 1/(b-a) -/
def Uniform.lnPdf {α : Type} [RealLike α] (d : Gen.Uniform α) (_x : α) : α :=
  -(ln (d.b - d.a))

/-- GEV(loc μ, scale σ, shape ξ), z = (x-μ)/σ, 1 + ξz > 0:
    ξ = 0 (Gumbel):  f = 1/σ · e^(-z - e^(-z));
    ξ ≠ 0:           f = 1/σ · (1+ξz)^(-1-1/ξ) e^(-(1+ξz)^(-1/ξ)) -/
def Gev.lnPdf {α : Type} [RealLike α] (d : Gen.Gev α) (x : α) : α :=
  let z := (x - d.loc) / d.scale;
  if feq d.shape (0.0 : α) then
    -(ln d.scale) - z - exp (-z)
  else
    let w := (1.0 : α) + d.shape * z;
    (-(ln d.scale) - ((1.0 : α) + (1.0 : α) / d.shape) * ln w - powf w (-((1.0 : α) / d.shape)))

/-- InvGaussian(μ, λ), x > 0:  f = √(λ/(2π x³)) · e^(-λ(x-μ)²/(2μ²x)) -/
def InvGaussian.lnPdf {α : Type} [RealLike α] (d : Gen.InvGaussian α) (x : α) : α :=
  (ln d.lambda' - ln2Pi - (3.0 : α) * ln x) / (2.0 : α)
    - d.lambda' * ((x - d.mu) * (x - d.mu)) / ((2.0 : α) * (d.mu * d.mu) * x)

/-- VonMises(μ, κ), x on the circle:  f = e^(κ cos(x-μ)) / (2π I₀(κ)) -/
def VonMises.lnPdf {α : Type} [RealLike α] (d : Gen.VonMises α) (x : α) : α :=
  d.k * cos (x - d.mu) - ln2Pi - ln (bessI0 d.k)

end Spec
