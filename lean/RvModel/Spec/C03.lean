import RvModel.Gen.Defs
/-!
  Spec.C03 — textbook cumulative distribution functions, written from the documented parameterisation of each
  distribution (*not* from the code).  Generic over the carrier: evaluated on `Float` by `rvdrv` (oracle of the
  implementation-vs-Spec comparison of C03).  Where the textbook offers two independent expressions, the one that
  differs from rv's implementation route is used (partial sums of the pmf for Poisson / NegBinomial / Geometric,
  the regularised incomplete beta function for Binomial, `erfc` for the Gaussian).
  `P(a, x)` = regularised lower incomplete gamma = `RealLike.incGamma x a`;  `I_x(a, b)` = `RealLike.incBeta x a b (ln B(a,b))`.
-/
open RealLike
namespace Spec
variable {α : Type} [RealLike α]

/-- Σ_{j=0}^{k} f j -/
def sumTo (f : Nat → α) (k : Nat) : α := (List.range (k + 1)).foldl (fun acc j => acc + f j) (0.0 : α)

/-! ### continuous, closed form -/

/-- Exponential(λ): F(x) = 1 - e^{-λx} for x ≥ 0 -/
def Exponential.cdf (d : Gen.Exponential α) (x : α) : α :=
  if lt x (0.0 : α) then (0.0 : α) else (1.0 : α) - exp (-(d.rate * x))

/-- Uniform(a, b): F(x) = (x - a)/(b - a) on [a, b] -/
def Uniform.cdf (d : Gen.Uniform α) (x : α) : α :=
  if le x d.a then (0.0 : α) else if le d.b x then (1.0 : α) else (x - d.a) / (d.b - d.a)

/-- Cauchy(x₀, γ): F(x) = 1/2 + arctan((x - x₀)/γ)/π -/
def Cauchy.cdf (d : Gen.Cauchy α) (x : α) : α :=
  (0.5 : α) + atan ((x - d.loc) / d.scale) / (pi : α)

/-- Laplace(μ, b): F(x) = ½ e^{(x-μ)/b} for x ≤ μ, 1 - ½ e^{-(x-μ)/b} for x ≥ μ -/
def Laplace.cdf (d : Gen.Laplace α) (x : α) : α :=
  if le x d.mu then (0.5 : α) * exp ((x - d.mu) / d.b) else (1.0 : α) - (0.5 : α) * exp (-((x - d.mu) / d.b))

/-- Kumaraswamy(a, b): F(x) = 1 - (1 - x^a)^b on [0, 1] -/
def Kumaraswamy.cdf (d : Gen.Kumaraswamy α) (x : α) : α :=
  (1.0 : α) - powf ((1.0 : α) - powf x d.a) d.b

/-- UnitPowerLaw(α) = Beta(α, 1): F(x) = x^α on [0, 1] -/
def UnitPowerLaw.cdf (d : Gen.UnitPowerLaw α) (x : α) : α := powf x d.alpha

/-- Pareto(shape α, scale x_m): F(x) = 1 - (x_m/x)^α for x ≥ x_m -/
def Pareto.cdf (d : Gen.Pareto α) (x : α) : α :=
  if lt x d.scale then (0.0 : α) else (1.0 : α) - powf (d.scale / x) d.shape

/-- GEV(μ, σ, ξ): F(x) = exp(-t(x)), t = (1 + ξ z)^{-1/ξ} (ξ ≠ 0) or e^{-z} (ξ = 0), z = (x-μ)/σ -/
def Gev.cdf (d : Gen.Gev α) (x : α) : α :=
  let z := (x - d.loc) / d.scale
  if feq d.shape (0.0 : α) then exp (-(exp (-z)))
  else exp (-(powf ((1.0 : α) + d.shape * z) (-((1.0 : α) / d.shape))))

/-! ### continuous, special functions -/

/-- Gamma(shape k, rate β): F(x) = P(k, βx) -/
def Gamma.cdf (d : Gen.Gamma α) (x : α) : α := incGamma (d.rate * x) d.shape

/-- χ²(k): F(x) = P(k/2, x/2) -/
def ChiSquared.cdf (d : Gen.ChiSquared α) (x : α) : α := incGamma (x / (2.0 : α)) (d.k / (2.0 : α))

/-- InvGamma(shape a, scale b): F(x) = Q(a, b/x) = 1 - P(a, b/x) -/
def InvGamma.cdf (d : Gen.InvGamma α) (x : α) : α := (1.0 : α) - incGamma (d.scale / x) d.shape

/-- Inv-χ²(ν): F(x) = Q(ν/2, 1/(2x)) -/
def InvChiSquared.cdf (d : Gen.InvChiSquared α) (x : α) : α :=
  (1.0 : α) - incGamma ((1.0 : α) / ((2.0 : α) * x)) (d.v / (2.0 : α))

/-- Scaled-Inv-χ²(ν, τ²): F(x) = Q(ν/2, ντ²/(2x)) -/
def ScaledInvChiSquared.cdf (d : Gen.ScaledInvChiSquared α) (x : α) : α :=
  (1.0 : α) - incGamma (d.v * d.t2 / ((2.0 : α) * x)) (d.v / (2.0 : α))

/-- Beta(α, β): F(x) = I_x(α, β) -/
def Beta.cdf (d : Gen.Beta α) (x : α) : α := incBeta x d.alpha d.beta (lnBeta d.alpha d.beta)

/-- N(μ, σ): F(x) = ½ erfc(-(x-μ)/(σ√2)) -/
def Gaussian.cdf (d : Gen.Gaussian α) (x : α) : α :=
  (0.5 : α) * erfc (-((x - d.mu) / (d.sigma * sqrt (2.0 : α))))

/-- LogNormal(μ, σ): F(x) = ½ erfc(-(ln x - μ)/(σ√2)) -/
def LogNormal.cdf (d : Gen.LogNormal α) (x : α) : α :=
  (0.5 : α) * erfc (-((ln x - d.mu) / (d.sigma * sqrt (2.0 : α))))

/-! ### discrete -/

/-- Bernoulli(p): F(false) = 1 - p, F(true) = 1 -/
def Bernoulli.cdf (d : Gen.Bernoulli α) (x : Bool) : α := if x then (1.0 : α) else (1.0 : α) - d.p
def Bernoulli.cdfNat (d : Gen.Bernoulli α) (x : Nat) : α := if x ≥ 1 then (1.0 : α) else (1.0 : α) - d.p

/-- Geometric(p) (number of failures): F(k) = Σ_{j ≤ k} p (1-p)^j -/
def Geometric.cdf (d : Gen.Geometric α) (k : Nat) : α :=
  sumTo (fun j => d.p * powi ((1.0 : α) - d.p) (Int.ofNat j)) k

/-- DiscreteUniform{a..b}: F(x) = (⌊x⌋ - a + 1)/(b - a + 1) on [a, b] -/
def DiscreteUniform.cdf03 (d : Gen.DiscreteUniform α) (x : α) : α :=
  if lt x (ofIntR d.a) then (0.0 : α) else if le (ofIntR d.b) x then (1.0 : α)
  else (floor x - ofIntR d.a + (1.0 : α)) / (ofIntR (d.b - d.a + 1))

/-- Binomial(n, p): F(k) = I_{1-p}(n - k, k + 1) for k < n, 1 for k ≥ n -/
def Binomial.cdf (d : Gen.Binomial α) (k : Nat) : α :=
  if k ≥ d.n then (1.0 : α)
  else
    let a : α := ofNatR (d.n - k)
    let b : α := ofNatR (k + 1)
    incBeta ((1.0 : α) - d.p) a b (lnBeta a b)
def Binomial.cdfInt (d : Gen.Binomial α) (k : Int) : α := if k < 0 then (0.0 : α) else Binomial.cdf d k.toNat

/-- ln C(n, j) B(j + α, n - j + β) / B(α, β) -/
def BetaBinomial.lnPmf03 (d : Gen.BetaBinomial α) (j : Nat) : α :=
  let n : α := ofNatR d.n
  let jf : α := ofNatR j
  lgamma (n + (1.0 : α)) - lgamma (jf + (1.0 : α)) - lgamma (n - jf + (1.0 : α))
    + lnBeta (jf + d.alpha) (n - jf + d.beta) - lnBeta d.alpha d.beta

/-- BetaBinomial(n, α, β): F(k) = Σ_{j ≤ min(k, n)} pmf j -/
def BetaBinomial.cdf (d : Gen.BetaBinomial α) (k : Nat) : α :=
  sumTo (fun j => exp (BetaBinomial.lnPmf03 d j)) (min k d.n)
def BetaBinomial.cdfInt (d : Gen.BetaBinomial α) (k : Int) : α :=
  if k < 0 then (0.0 : α) else BetaBinomial.cdf d k.toNat

/-- Categorical(w): F(x) = Σ_{j ≤ x} w_j -/
def Categorical.cdf (d : Gen.Categorical α) (x : Nat) : α :=
  sumL ((d.ln_weights.take (x + 1)).map exp)
def Categorical.cdfBool (d : Gen.Categorical α) (x : Bool) : α := Categorical.cdf d (if x then 1 else 0)

/-- Poisson(λ): F(k) = Σ_{j ≤ k} e^{-λ} λ^j / j! -/
def Poisson.cdf (d : Gen.Poisson α) (k : Nat) : α :=
  sumTo (fun j => exp (ofNatR j * ln d.rate - d.rate - lgamma (ofNatR j + (1.0 : α)))) k

/-- NegBinomial(r, p) (failures before the r-th success): F(k) = Σ_{j ≤ k} Γ(j+r)/(j! Γ(r)) p^r (1-p)^j -/
def NegBinomial.cdf (d : Gen.NegBinomial α) (k : Nat) : α :=
  sumTo (fun j =>
    let jf : α := ofNatR j
    exp (lgamma (jf + d.r) - lgamma (jf + (1.0 : α)) - lgamma d.r + d.r * ln d.p + jf * ln ((1.0 : α) - d.p))) k

/-- survival function S = 1 - F -/
def sf (F : α) : α := (1.0 : α) - F

end Spec
