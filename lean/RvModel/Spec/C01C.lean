import RvModel.Gen.Defs
/-!
  Spec.C01C — textbook log-mass functions of the discrete distributions and log-densities of the
  simplex / partition valued ones, written from the mathematical definition under the parameterisation
  documented in the rustdoc of each distribution — *not* from the code.

  Generic over the carrier: evaluated on `Float` by `rvdrv` (oracle of the correspondence check) and on `R`
  by the theorems of `Props/C01C.lean`.  Outside the support the mass is 0, i.e. the log-mass is `negInf`
  (no theorem on `R` evaluates those branches).
-/
open RealLike
namespace Spec

/-- ln n! = ln Γ(n+1) -/
def lnFactorial {α : Type} [RealLike α] (n : Nat) : α := lgamma (ofNatR (n + 1))

/-- ln C(n, k) = ln n! − ln k! − ln (n−k)!   (k ≤ n) -/
def lnChoose {α : Type} [RealLike α] (n k : Nat) : α :=
  lnFactorial n - lnFactorial k - lnFactorial (n - k)

/-- Bernoulli(p) on {false, true}: P(true) = p, P(false) = 1 − p -/
def Bernoulli.lnPmf {α : Type} [RealLike α] (d : Gen.Bernoulli α) (x : Bool) : α :=
  if x then ln d.p else ln ((1.0 : α) - d.p)

/-- Bernoulli(p) on {0, 1} ⊂ ℕ: P(1) = p, P(0) = 1 − p, 0 elsewhere -/
def Bernoulli.lnPmfNat {α : Type} [RealLike α] (d : Gen.Bernoulli α) (k : Nat) : α :=
  if k = 1 then ln d.p else if k = 0 then ln ((1.0 : α) - d.p) else negInf

/-- Binomial(n, p): P(k) = C(n,k) p^k (1−p)^(n−k), k ∈ {0..n} -/
def Binomial.lnPmf {α : Type} [RealLike α] (d : Gen.Binomial α) (k : Nat) : α :=
  if k ≤ d.n then
    lnChoose d.n k + ofNatR k * ln d.p + ofNatR (d.n - k) * ln ((1.0 : α) - d.p)
  else negInf

/-- Binomial(n, p) observed through a signed integer type -/
def Binomial.lnPmfInt {α : Type} [RealLike α] (d : Gen.Binomial α) (k : Int) : α :=
  if k < 0 then negInf else Binomial.lnPmf d k.toNat

/-- BetaBinomial(n, α, β): P(k) = C(n,k) B(k+α, n−k+β) / B(α, β), k ∈ {0..n} -/
def BetaBinomial.lnPmf {α : Type} [RealLike α] (d : Gen.BetaBinomial α) (k : Nat) : α :=
  if k ≤ d.n then
    lnChoose d.n k + lnBeta (ofNatR k + d.alpha) (ofNatR (d.n - k) + d.beta) - lnBeta d.alpha d.beta
  else negInf

def BetaBinomial.lnPmfInt {α : Type} [RealLike α] (d : Gen.BetaBinomial α) (k : Int) : α :=
  if k < 0 then negInf else BetaBinomial.lnPmf d k.toNat

/-- Poisson(λ): P(k) = λ^k e^{−λ} / k! -/
def Poisson.lnPmf {α : Type} [RealLike α] (d : Gen.Poisson α) (k : Nat) : α :=
  ofNatR k * ln d.rate - d.rate - lnFactorial k

/-- Geometric(p) over k ∈ {0, 1, 2, …} = number of failures before the first success: P(k) = (1−p)^k p -/
def Geometric.lnPmf {α : Type} [RealLike α] (d : Gen.Geometric α) (k : Nat) : α :=
  ofNatR k * ln ((1.0 : α) - d.p) + ln d.p

/-- NBin(r, p), MathWorld / scipy parameterisation: k = number of failures before the r-th success,
    P(k) = Γ(k+r) / (Γ(r) k!) · p^r (1−p)^k   (= C(k+r−1, r−1) p^r (1−p)^k for integer r) -/
def NegBinomial.lnPmf {α : Type} [RealLike α] (d : Gen.NegBinomial α) (k : Nat) : α :=
  lgamma (ofNatR k + d.r) - lgamma d.r - lnFactorial k + d.r * ln d.p + ofNatR k * ln ((1.0 : α) - d.p)

/-- Categorical over {0..K−1}; the structure stores the log-weights: ln P(k) = ln_weights[k] -/
def Categorical.lnPmf {α : Type} [RealLike α] (d : Gen.Categorical α) (k : Nat) : α :=
  match d.ln_weights[k]? with
  | some w => w
  | none => negInf

/-- Categorical observed as a Boolean: `true` is category 1, `false` is category 0 -/
def Categorical.lnPmfBool {α : Type} [RealLike α] (d : Gen.Categorical α) (b : Bool) : α :=
  Categorical.lnPmf d (if b then 1 else 0)

/-- DiscreteUniform(a, b) on the integers a..b (inclusive): P(x) = 1 / (b − a + 1) -/
def DiscreteUniform.lnPmf {α : Type} [RealLike α] (d : Gen.DiscreteUniform α) (x : Int) : α :=
  if d.a ≤ x ∧ x ≤ d.b then -(ln (ofIntR (d.b - d.a + 1))) else negInf

/-- Dirichlet(α₁..α_K) on the simplex: ln f(x) = Σ (α_i − 1) ln x_i + ln Γ(Σ α_i) − Σ ln Γ(α_i) -/
def Dirichlet.lnPdf {α : Type} [RealLike α] (d : Gen.Dirichlet α) (x : List α) : α :=
  sumL (List.zipWith (fun a xi => (a - (1.0 : α)) * ln xi) d.alphas x)
    + lgamma (sumL d.alphas) - sumL (d.alphas.map lgamma)

/-- SymmetricDirichlet(α, K) = Dirichlet(α, …, α)  (K copies) -/
def SymmetricDirichlet.lnPdf {α : Type} [RealLike α] (d : Gen.SymmetricDirichlet α) (x : List α) : α :=
  Dirichlet.lnPdf ⟨List.replicate d.k d.alpha⟩ x

/-- CRP(α, n): exchangeable partition probability function of a partition of n items into K blocks of
    sizes n₁..n_K:  P = α^K · Π (n_j − 1)! · Γ(α) / Γ(α + n) -/
def Crp.lnPmf {α : Type} [RealLike α] (d : Gen.Crp α) (x : Gen.Partition α) : α :=
  ofNatR x.counts.length * ln d.alpha + sumL (x.counts.map (fun c => lnFactorial (c - 1)))
    + lgamma d.alpha - lgamma (d.alpha + ofNatR d.n)

end Spec
