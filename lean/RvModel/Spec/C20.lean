import RvModel.Prelude
/-!
  RvModel.Spec.C20 — textbook definitions for property C20 (goodness-of-fit statistics).  Mathlib-free, generic in
  `[RealLike α]`; written from the definitions of the statistics, not from the code.

  * `ksD`          two-sided Kolmogorov–Smirnov distance  `D_n = sup_t |F_n t − F t|`  for a continuous monotone `F`, in the
                   finite form  `max_i max(|i/n − F x₍ᵢ₎|, |(i+1)/n − F x₍ᵢ₎|)`  (0-based `i` over the sorted sample): `F_n`
                   jumps from `i/n` to `(i+1)/n` at `x₍ᵢ₎`, and `|F_n − F|` is extremal on either side of a jump.
  * `countLe/Lt`, `ecdf`   the empirical CDF  `F_n x = #{i : xᵢ ≤ x}/n`  (right-continuous; the convention of the `Cdf` trait:
                   `cdf x = P(X ≤ x)`).
  * lattice paths: Hodges (1958) — with `m ≥ n`, `mg = m/g`, `ng = n/g`, `g = gcd m n`, a monotone path from `(0,0)` to `(m,n)`
                   (`x` counts steps of the larger sample) leaves the one-sided band iff it visits `(x,y)` with
                   `ng·x − mg·y ≥ h`, the two-sided band iff `|ng·x − mg·y| ≥ h`.  `P(D⁺ ≥ h/lcm) = #leaving / C(m+n, n)`.
                   Given as a brute-force enumeration (`bruteOutside`) and as the counting recurrence (`insideA`).
  * `x2Stat`       Pearson `Σ (oᵢ − n pᵢ)² / (n pᵢ)`.
-/
open RealLike
namespace Spec
namespace C20

variable {α : Type} [RealLike α]

/-! ### one-sample Kolmogorov–Smirnov distance -/

/-- `vals[i] = F x₍ᵢ₎` at the sorted sample -/
def ksD (vals : List α) : α :=
  let n : α := ofNatR vals.length
  (enumL vals).foldl (fun acc (iv : Nat × α) =>
      RealLike.max acc (RealLike.max (RealLike.abs (ofNatR iv.1 / n - iv.2))
                                    (RealLike.abs (ofNatR (iv.1 + 1) / n - iv.2)))) (0.0 : α)

/-- the part the left limits miss: `max_i |(i+1)/n − F x₍ᵢ₎|` (the value of `F_n − F` AT the sample points) -/
def ksUpper (vals : List α) : α :=
  let n : α := ofNatR vals.length
  (enumL vals).foldl (fun acc (iv : Nat × α) =>
      RealLike.max acc (RealLike.abs (ofNatR (iv.1 + 1) / n - iv.2))) (0.0 : α)

/-! ### empirical CDF -/

def countLe (xs : List α) (x : α) : Nat := xs.countP (fun y => RealLike.le y x)
def countLt (xs : List α) (x : α) : Nat := xs.countP (fun y => RealLike.lt y x)

/-- `F_n x = #{xᵢ ≤ x} / n` -/
def ecdf (xs : List α) (x : α) : α := (ofNatR (countLe xs x) : α) / ofNatR xs.length

/-- left limit `F_n(x−) = #{xᵢ < x} / n` -/
def ecdfLeft (xs : List α) (x : α) : α := (ofNatR (countLt xs x) : α) / ofNatR xs.length

/-! ### lattice paths -/

/-- Pascal's triangle -/
def choose : Nat → Nat → Nat
  | _, 0 => 1
  | 0, _ + 1 => 0
  | n + 1, k + 1 => choose n k + choose n (k + 1)

/-- all step sequences of length `k` with exactly `a` x-steps (`true` = a step in `x`) -/
def pathsK : Nat → Nat → List (List Bool)
  | 0, 0 => [[]]
  | 0, _ + 1 => []
  | k + 1, a => (if a > 0 then (pathsK k (a - 1)).map (true :: ·) else []) ++ (pathsK k a).map (false :: ·)

/-- does the path starting at `(x, y)` visit a bad point? -/
def hits (bad : Nat → Nat → Bool) : Nat → Nat → List Bool → Bool
  | x, y, [] => bad x y
  | x, y, s :: p => bad x y || (if s then hits bad (x + 1) y p else hits bad x (y + 1) p)

/-- one-sided exit condition `ng·x − mg·y ≥ h` -/
def badOne (ng mg h : Nat) (x y : Nat) : Bool := decide (ng * x ≥ mg * y + h)
/-- two-sided exit condition `|ng·x − mg·y| ≥ h` -/
def badTwo (ng mg h : Nat) (x y : Nat) : Bool := decide (ng * x ≥ mg * y + h) || decide (mg * y ≥ ng * x + h)

/-- brute force: the number of monotone lattice paths `(0,0) → (max m n, min m n)` that visit a point with
    `ng·x − mg·y ≥ h` -/
def bruteOutside (m n g h : Nat) : Nat :=
  let (m, n) := (Nat.max m n, Nat.min m n)
  ((pathsK (m + n) m).filter (hits (badOne (n / g) (m / g) h) 0 0)).length

/-- brute force, two-sided band -/
def bruteOutsideTwo (m n g h : Nat) : Nat :=
  let (m, n) := (Nat.max m n, Nat.min m n)
  ((pathsK (m + n) m).filter (hits (badTwo (n / g) (m / g) h) 0 0)).length

/-- the recurrence (the specification): `A(x,y)` = number of paths `(0,0) → (x,y)` all of whose points are good;
    `A(x,y) = 0` at a bad point, `A(0,0) = 1`, `A(x,y) = A(x−1,y) + A(x,y−1)`.  `fuel ≥ x + y`. -/
def insideA (bad : Nat → Nat → Bool) : Nat → Nat → Nat → Nat
  | 0, x, y => if bad x y then 0 else if x = 0 ∧ y = 0 then 1 else 0
  | f + 1, x, y =>
    if bad x y then 0
    else if x = 0 ∧ y = 0 then 1
    else (if x > 0 then insideA bad f (x - 1) y else 0) + (if y > 0 then insideA bad f x (y - 1) else 0)

/-- number of paths leaving the one-sided band, by the recurrence -/
def pathsOutside (m n g h : Nat) : Nat :=
  let (m, n) := (Nat.max m n, Nat.min m n)
  choose (m + n) n - insideA (badOne (n / g) (m / g) h) (m + n) m n

/-- number of paths staying strictly inside the two-sided band, by the recurrence -/
def pathsInsideTwo (m n g h : Nat) : Nat :=
  let (m, n) := (Nat.max m n, Nat.min m n)
  insideA (badTwo (n / g) (m / g) h) (m + n) m n

/-! ### Pearson's chi-square -/

/-- `Σ (oᵢ − n pᵢ)² / (n pᵢ)`, `n = Σ oᵢ` -/
def x2Stat (obs : List Nat) (ps : List α) : α :=
  let n : α := ofNatR obs.sum
  sumL ((obs.zip ps).map (fun (op : Nat × α) =>
    let e := n * op.2
    ((ofNatR op.1 : α) - e) * ((ofNatR op.1 : α) - e) / e))

end C20
end Spec
