import RvModel.RealInst
import RvModel.Gen.Defs
import Mathlib.Data.List.Perm.Basic
import Mathlib.Analysis.SpecialFunctions.Gamma.Basic
import Mathlib.Analysis.SpecialFunctions.Log.Basic
import Mathlib.Probability.Distributions.Beta
/-!
  Helper lemmas for property C06 (marginal likelihood / posterior predictive of the conjugate pairs).
-/
open Real

namespace C06L

/-! ### generic -/

theorem foldl_perm_of_comm {σ X : Type} (f : σ → X → σ) (hf : ∀ s x y, f (f s x) y = f (f s y) x)
    {xs ys : List X} (h : xs.Perm ys) (s : σ) : xs.foldl f s = ys.foldl f s :=
  h.foldl_eq' (fun x _ y _ z => hf z x y) s

@[simp] theorem lit0 : ((0.0 : R)).val = 0 := by simp only [R.sci_val]; norm_num
@[simp] theorem lit1 : ((1.0 : R)).val = 1 := by simp only [R.sci_val]; norm_num
@[simp] theorem lit05 : ((0.5 : R)).val = 1/2 := by simp only [R.sci_val]; norm_num

/-! ### checked constructors succeed on valid parameters (carrier `R`) -/

theorem Beta_new_ok (a b : R) (ha : 0 < a.val) (hb : 0 < b.val) : Gen.Beta.new a b = .ok ⟨a, b⟩ := by
  have h1 : RealLike.le a (0.0 : R) = false := by rw [R.le_false_iff, lit0]; exact not_le.mpr ha
  have h2 : RealLike.le b (0.0 : R) = false := by rw [R.le_false_iff, lit0]; exact not_le.mpr hb
  simp [Gen.Beta.new, h1, h2]

/-! ### log-Beta steps -/

theorem lnB_step_left {a a' b b' : ℝ} (ha : 0 < a) (hb : 0 < b) (h : a' = a + 1) (h' : b' = b) :
    Real.log (Real.Gamma a' * Real.Gamma b' / Real.Gamma (a' + b'))
      - Real.log (Real.Gamma a * Real.Gamma b / Real.Gamma (a + b)) = Real.log (a / (a + b)) := by
  rw [h, h']
  have hGa := Real.Gamma_pos_of_pos ha
  have hGb := Real.Gamma_pos_of_pos hb
  have hGab := Real.Gamma_pos_of_pos (add_pos ha hb)
  have e1 : Real.Gamma (a + 1) = a * Real.Gamma a := Real.Gamma_add_one ha.ne'
  have e2 : Real.Gamma (a + 1 + b) = (a + b) * Real.Gamma (a + b) := by
    rw [show a + 1 + b = (a + b) + 1 by ring]; exact Real.Gamma_add_one (add_pos ha hb).ne'
  have hab := add_pos ha hb
  rw [e1, e2, ← Real.log_div (by positivity) (by positivity)]
  congr 1
  field_simp

theorem lnB_step_right {a a' b b' : ℝ} (ha : 0 < a) (hb : 0 < b) (h : a' = a) (h' : b' = b + 1) :
    Real.log (Real.Gamma a' * Real.Gamma b' / Real.Gamma (a' + b'))
      - Real.log (Real.Gamma a * Real.Gamma b / Real.Gamma (a + b)) = Real.log (b / (a + b)) := by
  have := lnB_step_left (a := b) (a' := b') (b := a) (b' := a') hb ha h' h
  rw [mul_comm (Real.Gamma a') , add_comm a', mul_comm (Real.Gamma a), add_comm a]
  exact this

/-- `B(a,1) = 1/a` -/
theorem lnB_one {a : ℝ} (ha : 0 < a) :
    Real.log (Real.Gamma a * Real.Gamma 1 / Real.Gamma (a + 1)) = - Real.log a := by
  have hGa := Real.Gamma_pos_of_pos ha
  rw [Real.Gamma_add_one ha.ne', Real.Gamma_one, ← Real.log_inv]
  congr 1
  field_simp

/-! ### Bernoulli statistic -/

theorem BernStat_obs_comm (s : Gen.BernoulliSuffStat R) (x y : Bool) :
    Gen.BernoulliSuffStat.observe_bool (Gen.BernoulliSuffStat.observe_bool s x) y
      = Gen.BernoulliSuffStat.observe_bool (Gen.BernoulliSuffStat.observe_bool s y) x := by
  cases x <;> cases y <;> rfl

theorem BernStat_obs_le (s : Gen.BernoulliSuffStat R) (x : Bool) (h : s.k ≤ s.n) :
    (Gen.BernoulliSuffStat.observe_bool s x).k ≤ (Gen.BernoulliSuffStat.observe_bool s x).n := by
  cases x <;> simp [Gen.BernoulliSuffStat.observe_bool] <;> omega

theorem BernStat_fold_le (xs : List Bool) (s : Gen.BernoulliSuffStat R) (h : s.k ≤ s.n) :
    (xs.foldl Gen.BernoulliSuffStat.observe_bool s).k ≤ (xs.foldl Gen.BernoulliSuffStat.observe_bool s).n := by
  induction xs generalizing s with
  | nil => simpa using h
  | cons x xs ih => simpa using ih _ (BernStat_obs_le s x h)

theorem BernStat_fold_perm {xs ys : List Bool} (h : xs.Perm ys) (s : Gen.BernoulliSuffStat R) :
    xs.foldl Gen.BernoulliSuffStat.observe_bool s = ys.foldl Gen.BernoulliSuffStat.observe_bool s :=
  foldl_perm_of_comm _ BernStat_obs_comm h s


/-! ### Gamma / Poisson -/

theorem Gamma_new_ok (a b : R) (ha : 0 < a.val) (hb : 0 < b.val) : Gen.Gamma.new a b = .ok ⟨a, b⟩ := by
  have h1 : RealLike.le a (0.0 : R) = false := by rw [R.le_false_iff, lit0]; exact not_le.mpr ha
  have h2 : RealLike.le b (0.0 : R) = false := by rw [R.le_false_iff, lit0]; exact not_le.mpr hb
  simp [Gen.Gamma.new, Gen.Gamma.new_unchecked, h1, h2]

theorem PoisStat_obs_comm (s : Gen.PoissonSuffStat R) (x y : Nat) :
    Gen.PoissonSuffStat.observe_nat (Gen.PoissonSuffStat.observe_nat s x) y
      = Gen.PoissonSuffStat.observe_nat (Gen.PoissonSuffStat.observe_nat s y) x := by
  simp only [Gen.PoissonSuffStat.observe_nat]
  congr 1 <;> apply R.ext' <;> simp only [R.add_val] <;> ring

theorem PoisStat_fold_perm {xs ys : List Nat} (h : xs.Perm ys) (s : Gen.PoissonSuffStat R) :
    xs.foldl Gen.PoissonSuffStat.observe_nat s = ys.foldl Gen.PoissonSuffStat.observe_nat s :=
  foldl_perm_of_comm _ PoisStat_obs_comm h s

theorem PoisStat_fold_sum_nonneg (xs : List Nat) (s : Gen.PoissonSuffStat R) (h : 0 ≤ s.sum.val) :
    0 ≤ (xs.foldl Gen.PoissonSuffStat.observe_nat s).sum.val := by
  induction xs generalizing s with
  | nil => simpa using h
  | cons x xs ih =>
    apply ih
    simp only [Gen.PoissonSuffStat.observe_nat, R.add_val, R.ofNatR_val]
    positivity

/-- the negative-binomial predictive of the Gamma–Poisson pair against the ratio of normalisers -/
theorem gp_chain {a b k a' b' n1 n2 : ℝ} (hb : 0 < b) (h1 : n1 = a') (h2 : n2 = a)
    (ha' : a' = a + k) (hb' : b' = b + 1) :
    Real.log (Real.Gamma n1) - Real.log (Real.Gamma (k + 1)) - Real.log (Real.Gamma n2)
        + Real.log (1 - 1 / (1 + b)) * a + k * Real.log (1 / (1 + b))
      = (a' * (-Real.log b') + Real.log (Real.Gamma a')) - (a * (-Real.log b) + Real.log (Real.Gamma a))
        - Real.log (Real.Gamma (k + 1)) := by
  have h1b : (0:ℝ) < 1 + b := by linarith
  have e1 : 1 - 1 / (1 + b) = b / (1 + b) := by field_simp; ring
  rw [h1, h2, ha', hb', e1, Real.log_div hb.ne' h1b.ne', one_div, Real.log_inv, add_comm b 1]
  ring


/-! ### lists of reals -/

theorem foldl_add_val {β : Type} (g : β → R) (l : List β) (init : R) :
    (l.foldl (fun acc a => acc + g a) init).val = init.val + (l.map (fun a => (g a).val)).sum := by
  induction l generalizing init with
  | nil => simp
  | cons x xs ih => simp [List.foldl, ih, add_assoc]

theorem map_getD_range {γ : Type} (l : List γ) (d : γ) :
    (List.range l.length).map (fun k => l.getD k d) = l := by
  apply List.ext_getElem
  · simp
  · intro i h1 h2
    simp [List.getD_eq_getElem?_getD, List.getElem?_eq_getElem h2]

theorem foldl_add_val_id (l : List R) (init : R) :
    (l.foldl (fun acc a => acc + a) init).val = init.val + (l.map R.val).sum := by
  induction l generalizing init with
  | nil => simp
  | cons x xs ih => simp [List.foldl, ih, add_assoc]

theorem sum_map_getD_range {γ : Type} (l : List γ) (d : γ) (g : γ → ℝ) :
    ((List.range l.length).map (fun k => g (l.getD k d))).sum = (l.map g).sum := by
  have : (List.range l.length).map (fun k => g (l.getD k d))
      = ((List.range l.length).map (fun k => l.getD k d)).map g := by simp [List.map_map, Function.comp_def]
  rw [this, map_getD_range]

theorem sum_set (g : R → ℝ) : ∀ (cs : List R) (y : Nat) (v d : R), y < cs.length →
    ((cs.set y v).map g).sum = (cs.map g).sum - g (cs.getD y d) + g v
  | [], _, _, _, h => by simp at h
  | c :: cs, 0, v, d, _ => by simp; ring
  | c :: cs, y + 1, v, d, h => by
      have := sum_set g cs y v d (by simpa using h)
      simp only [List.set_cons_succ, List.map_cons, List.sum_cons, List.getD_cons_succ, this]; ring

theorem zsum_set (f : R → R → ℝ) : ∀ (as cs : List R) (y : Nat) (v d : R), y < as.length → y < cs.length →
    ((List.zip as (cs.set y v)).map (fun p => f p.1 p.2)).sum
      = ((List.zip as cs).map (fun p => f p.1 p.2)).sum - f (as.getD y d) (cs.getD y d) + f (as.getD y d) v
  | [], _, _, _, _, h, _ => by simp at h
  | _ :: _, [], _, _, _, _, h => by simp at h
  | a :: as, c :: cs, 0, v, d, _, _ => by simp; ring
  | a :: as, c :: cs, y + 1, v, d, h1, h2 => by
      have := zsum_set f as cs y v d (by simpa using h1) (by simpa using h2)
      simp only [List.set_cons_succ, List.zip_cons_cons, List.map_cons, List.sum_cons, List.getD_cons_succ, this]; ring

theorem zsum_replicate (f : R → R → ℝ) (z : R) : ∀ (as : List R),
    ((List.zip as (List.replicate as.length z)).map (fun p => f p.1 p.2)).sum = (as.map (fun a => f a z)).sum
  | [] => by simp
  | a :: as => by simp [List.replicate_succ, zsum_replicate f z as]

theorem zsum_add (as cs : List R) (h : as.length = cs.length) :
    ((List.zip as cs).map (fun p => p.1.val + p.2.val)).sum = (as.map R.val).sum + (cs.map R.val).sum := by
  induction as generalizing cs with
  | nil => cases cs <;> simp_all
  | cons a as ih =>
    cases cs with
    | nil => simp at h
    | cons c cs => simp [ih cs (by simpa using h)]; ring

theorem getD_zip_map {γ : Type} (g : R × R → γ) (as cs : List R) (y : Nat) (d : R) (e : γ)
    (h1 : y < as.length) (h2 : y < cs.length) :
    ((List.zip as cs).map g).getD y e = g (as.getD y d, cs.getD y d) := by
  simp [List.getD_eq_getElem?_getD, List.getElem?_eq_getElem, h1, h2]

/-- `Γ(x+1)/Γ(x) = x` in logs -/
theorem lgamma_step {x x' : ℝ} (hx : 0 < x) (h : x' = x + 1) :
    Real.log (Real.Gamma x') - Real.log (Real.Gamma x) = Real.log x := by
  rw [h, Real.Gamma_add_one hx.ne', Real.log_mul hx.ne' (Real.Gamma_pos_of_pos hx).ne']; ring

theorem sum_pos_of_pos (as : List R) (hne : as ≠ []) (hpos : ∀ a ∈ as, 0 < a.val) : 0 < (as.map R.val).sum := by
  cases as with
  | nil => exact absurd rfl hne
  | cons a as =>
    simp only [List.map_cons, List.sum_cons]
    have h1 := hpos a (List.mem_cons_self ..)
    have h2 : 0 ≤ (as.map R.val).sum := List.sum_nonneg (by
      intro x hx; simp only [List.mem_map] at hx; obtain ⟨b, hb, rfl⟩ := hx
      exact (hpos b (List.mem_cons_of_mem _ hb)).le)
    linarith

/-- a categorical predictive `k ↦ P[k] / ΣP` computed in logs sums to one -/
theorem pp_sum_one (P : List R) (hne : P ≠ []) (hP : ∀ a ∈ P, 0 < a.val) :
    ((List.range P.length).map (fun k =>
      Real.exp (Real.log (P.getD k RealLike.nan).val - Real.log (P.map R.val).sum))).sum = 1 := by
  have hT := sum_pos_of_pos P hne hP
  have e : (List.range P.length).map (fun k =>
        Real.exp (Real.log (P.getD k RealLike.nan).val - Real.log (P.map R.val).sum))
      = (List.range P.length).map (fun k => (P.getD k RealLike.nan).val * ((P.map R.val).sum)⁻¹) := by
    apply List.map_congr_left
    intro k hk
    have hk' : k < P.length := List.mem_range.mp hk
    have hp : 0 < (P.getD k RealLike.nan).val := by
      rw [List.getD_eq_getElem?_getD, List.getElem?_eq_getElem hk', Option.getD_some]
      exact hP _ (List.getElem_mem hk')
    rw [Real.exp_sub, Real.exp_log hp, Real.exp_log hT, div_eq_mul_inv]
  rw [e, List.sum_map_mul_right, sum_map_getD_range P RealLike.nan R.val, mul_inv_cancel₀ hT.ne']

theorem sum_map_add_const (α : R) (cs : List R) :
    ((cs.map (fun c => α + c)).map R.val).sum = (cs.length : ℝ) * α.val + (cs.map R.val).sum := by
  induction cs with
  | nil => simp
  | cons c cs ih => simp only [List.map_cons, List.sum_cons, List.length_cons, R.add_val, ih]; push_cast; ring

/-! ### Categorical statistic / Dirichlet -/

theorem tryForEach_ok {β ε : Type} (f : β → Except ε Unit) (l : List β) (h : ∀ x ∈ l, f x = .ok ()) :
    tryForEach f l = .ok () := by
  induction l with
  | nil => rfl
  | cons x xs ih =>
    simp only [tryForEach, h x (List.mem_cons_self ..)]
    exact ih (fun y hy => h y (List.mem_cons_of_mem _ hy))

theorem Dirichlet_new_ok (as : List R) (hne : as ≠ []) (hpos : ∀ a ∈ as, 0 < a.val) :
    Gen.Dirichlet.new as = .ok ⟨as⟩ := by
  have hE : as.isEmpty = false := by cases as <;> simp_all
  unfold Gen.Dirichlet.new
  rw [hE, tryForEach_ok]
  · simp
  · rintro ⟨i, a⟩ hm
    have ha : a ∈ as := (List.of_mem_zip (by simpa [enumL] using hm)).2
    have h1 : RealLike.le a (0.0 : R) = false := by rw [R.le_false_iff, lit0]; exact not_le.mpr (hpos a ha)
    simp [h1]

theorem CatStat_obs_comm (s : Gen.CategoricalSuffStat R) (x y : Nat) :
    Gen.CategoricalSuffStat.observe_nat (Gen.CategoricalSuffStat.observe_nat s x) y
      = Gen.CategoricalSuffStat.observe_nat (Gen.CategoricalSuffStat.observe_nat s y) x := by
  by_cases h : x = y
  · subst h; rfl
  · have h' : y ≠ x := fun e => h e.symm
    simp only [Gen.CategoricalSuffStat.observe_nat, idxR, List.getD_eq_getElem?_getD,
      List.getElem?_set_ne h, List.getElem?_set_ne h', List.set_comm _ _ h]

theorem CatStat_fold_perm {xs ys : List Nat} (h : xs.Perm ys) (s : Gen.CategoricalSuffStat R) :
    xs.foldl Gen.CategoricalSuffStat.observe_nat s = ys.foldl Gen.CategoricalSuffStat.observe_nat s :=
  foldl_perm_of_comm _ CatStat_obs_comm h s

/-- representation invariant of a Categorical statistic over `K` categories -/
def CatInv (K : Nat) (S : Gen.CategoricalSuffStat R) : Prop :=
  S.counts.length = K ∧ (∀ c ∈ S.counts, 0 ≤ c.val) ∧ (S.counts.map R.val).sum = (S.n : ℝ)

theorem CatInv_new (K : Nat) : CatInv K (Gen.CategoricalSuffStat.new K) := by
  refine ⟨by simp [Gen.CategoricalSuffStat.new], ?_, ?_⟩
  · intro c hc
    simp only [Gen.CategoricalSuffStat.new, List.mem_replicate] at hc
    rw [hc.2, lit0]
  · simp only [Gen.CategoricalSuffStat.new, List.map_replicate, List.sum_replicate, lit0]; simp

theorem CatInv_observe {K : Nat} {S : Gen.CategoricalSuffStat R} (h : CatInv K S) (x : Nat) (hx : x < K) :
    CatInv K (Gen.CategoricalSuffStat.observe_nat S x) := by
  obtain ⟨h1, h2, h3⟩ := h
  have hx' : x < S.counts.length := by omega
  have hget : 0 ≤ (S.counts.getD x RealLike.nan).val := by
    rw [List.getD_eq_getElem?_getD, List.getElem?_eq_getElem hx', Option.getD_some]; exact h2 _ (List.getElem_mem hx')
  refine ⟨by simp [Gen.CategoricalSuffStat.observe_nat, h1], ?_, ?_⟩
  · intro c hc
    simp only [Gen.CategoricalSuffStat.observe_nat] at hc
    rcases List.mem_or_eq_of_mem_set hc with hc | hc
    · exact h2 c hc
    · rw [hc]; simp only [idxR, R.add_val, lit1]; linarith
  · simp only [Gen.CategoricalSuffStat.observe_nat, idxR]
    rw [sum_set R.val _ _ _ RealLike.nan hx', h3]
    simp only [R.add_val, lit1]; push_cast; ring

theorem CatInv_fold {K : Nat} (xs : List Nat) (hxs : ∀ x ∈ xs, x < K) (S : Gen.CategoricalSuffStat R)
    (h : CatInv K S) : CatInv K (xs.foldl Gen.CategoricalSuffStat.observe_nat S) := by
  induction xs generalizing S with
  | nil => simpa using h
  | cons x xs ih =>
    simp only [List.foldl_cons]
    exact ih (fun z hz => hxs z (List.mem_cons_of_mem _ hz)) _ (CatInv_observe h x (hxs x (List.mem_cons_self ..)))


/-! ### Gaussian statistic (Welford) and the Gaussian priors -/

theorem GaussStat_obs_comm (s : Gen.GaussianSuffStat R) (x y : R) :
    Gen.GaussianSuffStat.observe_real (Gen.GaussianSuffStat.observe_real s x) y
      = Gen.GaussianSuffStat.observe_real (Gen.GaussianSuffStat.observe_real s y) x := by
  have h1 : ((s.n : ℝ) + 1) ≠ 0 := by positivity
  have h2 : ((s.n : ℝ) + 1 + 1) ≠ 0 := by positivity
  simp only [Gen.GaussianSuffStat.observe_real, mulAdd, RealLike.recip]
  congr 1 <;> apply R.ext' <;>
    simp only [R.add_val, R.sub_val, R.mul_val, R.div_val, R.ofNatR_val, lit1, Nat.cast_add, Nat.cast_one] <;>
    field_simp <;> ring

theorem GaussStat_fold_perm {xs ys : List R} (h : xs.Perm ys) (s : Gen.GaussianSuffStat R) :
    xs.foldl Gen.GaussianSuffStat.observe_real s = ys.foldl Gen.GaussianSuffStat.observe_real s :=
  foldl_perm_of_comm _ GaussStat_obs_comm h s

theorem NormalGamma_new_ok (m r s v : R) (hr : 0 < r.val) (hs : 0 < s.val) (hv : 0 < v.val) :
    Gen.NormalGamma.new m r s v = .ok ⟨m, r, s, v⟩ := by
  have h1 : RealLike.le r (0.0 : R) = false := by rw [R.le_false_iff, lit0]; exact not_le.mpr hr
  have h2 : RealLike.le s (0.0 : R) = false := by rw [R.le_false_iff, lit0]; exact not_le.mpr hs
  have h3 : RealLike.le v (0.0 : R) = false := by rw [R.le_false_iff, lit0]; exact not_le.mpr hv
  simp [Gen.NormalGamma.new, h1, h2, h3]

theorem NormalInvGamma_new_ok (m v a b : R) (hv : 0 < v.val) (ha : 0 < a.val) (hb : 0 < b.val) :
    Gen.NormalInvGamma.new m v a b = .ok ⟨m, v, a, b⟩ := by
  have h1 : RealLike.le v (0.0 : R) = false := by rw [R.le_false_iff, lit0]; exact not_le.mpr hv
  have h2 : RealLike.le a (0.0 : R) = false := by rw [R.le_false_iff, lit0]; exact not_le.mpr ha
  have h3 : RealLike.le b (0.0 : R) = false := by rw [R.le_false_iff, lit0]; exact not_le.mpr hb
  simp [Gen.NormalInvGamma.new, h1, h2, h3]

theorem NormalInvChiSquared_new_ok (m k v s2 : R) (hk : 0 < k.val) (hv : 0 < v.val) (hs : 0 < s2.val) :
    Gen.NormalInvChiSquared.new m k v s2 = .ok ⟨m, k, v, s2⟩ := by
  have h1 : RealLike.le v (0.0 : R) = false := by rw [R.le_false_iff, lit0]; exact not_le.mpr hv
  have h2 : RealLike.le k (0.0 : R) = false := by rw [R.le_false_iff, lit0]; exact not_le.mpr hk
  have h3 : RealLike.le s2 (0.0 : R) = false := by rw [R.le_false_iff, lit0]; exact not_le.mpr hs
  simp [Gen.NormalInvChiSquared.new, h1, h2, h3]


/-! ### integral form of the Beta–Bernoulli marginal -/

open MeasureTheory ProbabilityTheory in
theorem integral_beta_kernel {a b : ℝ} (ha : 0 < a) (hb : 0 < b) :
    ∫ x in Set.Ioo (0:ℝ) 1, x ^ (a - 1) * (1 - x) ^ (b - 1) = ProbabilityTheory.beta a b := by
  rw [ProbabilityTheory.beta_eq_betaIntegralReal a b ha hb, Complex.betaIntegral,
    intervalIntegral.integral_of_le (by norm_num), ← MeasureTheory.integral_Ioc_eq_integral_Ioo,
    ← RCLike.re_to_complex, ← integral_re]
  · refine MeasureTheory.setIntegral_congr_fun measurableSet_Ioc fun x ⟨hx1, hx2⟩ ↦ ?_
    norm_cast
    rw [← Complex.ofReal_cpow, ← Complex.ofReal_cpow, RCLike.re_to_complex, Complex.re_mul_ofReal, Complex.ofReal_re]
    all_goals linarith
  · convert! Complex.betaIntegral_convergent (u := a) (v := b) (by simpa) (by simpa)
    rw [intervalIntegrable_iff_integrableOn_Ioc_of_le (by simp), MeasureTheory.IntegrableOn]

/-- Bernoulli likelihood of one observation under success probability θ, through the generated `Bernoulli::f` -/
noncomputable def bernLik (θ : ℝ) (x : Bool) : ℝ := (Gen.Bernoulli.f_bool (⟨⟨θ⟩⟩ : Gen.Bernoulli R) x).val

open MeasureTheory ProbabilityTheory in
theorem bernLik_eq (θ : ℝ) (x : Bool) : bernLik θ x = if x then θ else 1 - θ := by
  cases x <;> simp only [bernLik, Gen.Bernoulli.f_bool, R.sub_val, lit1, Bool.false_eq_true, if_false, if_true]

open MeasureTheory ProbabilityTheory in
theorem lik_prod_fold (θ : ℝ) (xs : List Bool) (s : Gen.BernoulliSuffStat R) (h : s.k ≤ s.n) :
    (xs.map (bernLik θ)).prod * (θ ^ s.k * (1 - θ) ^ (s.n - s.k))
      = θ ^ (xs.foldl Gen.BernoulliSuffStat.observe_bool s).k
        * (1 - θ) ^ ((xs.foldl Gen.BernoulliSuffStat.observe_bool s).n
            - (xs.foldl Gen.BernoulliSuffStat.observe_bool s).k) := by
  induction xs generalizing s with
  | nil => simp
  | cons x xs ih =>
    rw [List.foldl_cons, ← ih _ (BernStat_obs_le s x h), List.map_cons, List.prod_cons, bernLik_eq]
    cases x
    · have e : (Gen.BernoulliSuffStat.observe_bool s false).n - (Gen.BernoulliSuffStat.observe_bool s false).k
          = (s.n - s.k) + 1 := by simp only [Gen.BernoulliSuffStat.observe_bool]; simp; omega
      have e' : (Gen.BernoulliSuffStat.observe_bool s false).k = s.k := by simp [Gen.BernoulliSuffStat.observe_bool]
      rw [e, e']; simp only [Bool.false_eq_true, if_false]; ring
    · have e : (Gen.BernoulliSuffStat.observe_bool s true).n - (Gen.BernoulliSuffStat.observe_bool s true).k
          = (s.n - s.k) := by simp only [Gen.BernoulliSuffStat.observe_bool]; simp
      have e' : (Gen.BernoulliSuffStat.observe_bool s true).k = s.k + 1 := by simp [Gen.BernoulliSuffStat.observe_bool]
      rw [e, e']; simp only [if_true]; ring

open MeasureTheory ProbabilityTheory in
theorem integral_lik_betaPDF {a b : ℝ} (ha : 0 < a) (hb : 0 < b) (k d : ℕ) :
    ∫ θ in Set.Ioo (0:ℝ) 1, (θ ^ k * (1 - θ) ^ d) * betaPDFReal a b θ
      = ProbabilityTheory.beta (a + k) (b + d) / ProbabilityTheory.beta a b := by
  have hk : 0 < a + (k : ℝ) := by positivity
  have hd : 0 < b + (d : ℝ) := by positivity
  rw [← integral_beta_kernel hk hd, div_eq_inv_mul, ← integral_const_mul]
  refine setIntegral_congr_fun measurableSet_Ioo fun θ ⟨h0, h1⟩ ↦ ?_
  have h1' : 0 < 1 - θ := by linarith
  simp only [betaPDFReal, if_pos (And.intro h0 h1)]
  rw [show a + (k:ℝ) - 1 = (k:ℝ) + (a - 1) by ring, show b + (d:ℝ) - 1 = (d:ℝ) + (b - 1) by ring,
    Real.rpow_add h0, Real.rpow_add h1', Real.rpow_natCast, Real.rpow_natCast]
  ring

end C06L
