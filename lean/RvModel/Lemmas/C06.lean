import RvModel.RealInst
import RvModel.Gen.Defs
import Mathlib.Data.List.Perm.Basic
import Mathlib.Analysis.SpecialFunctions.Gamma.Basic
import Mathlib.Analysis.SpecialFunctions.Log.Basic
import Mathlib.Probability.Distributions.Beta
import Mathlib.Analysis.Analytic.Binomial
/-!
  Helper lemmas for property C06 (marginal likelihood / posterior predictive of the conjugate pairs).
-/
set_option linter.unusedSimpArgs false
set_option linter.unnecessarySeqFocus false
open Real

namespace C06L

/-! ### generic -/

theorem foldl_perm_of_comm {σ X : Type} (f : σ → X → σ) (hf : ∀ s x y, f (f s x) y = f (f s y) x)
    {xs ys : List X} (h : xs.Perm ys) (s : σ) : xs.foldl f s = ys.foldl f s :=
  h.foldl_eq' (fun x _ y _ z => hf z x y) s

@[simp] theorem lit0 : ((0.0 : R)).val = 0 := by simp only [R.sci_val]; norm_num
@[simp] theorem lit1 : ((1.0 : R)).val = 1 := by simp only [R.sci_val]; norm_num
@[simp] theorem lit05 : ((0.5 : R)).val = 1/2 := by simp only [R.sci_val]; norm_num

/-! ### checked constructors succeed on valid parameters (carrier `R`) -/

theorem Beta_new_ok (a b : R) (ha : 0 < a.val) (hb : 0 < b.val) : Gen.Beta.new a b = .ok ⟨a, b⟩ := by
  have h1 : RealLike.le a (0.0 : R) = false := by rw [R.le_false_iff, lit0]; exact not_le.mpr ha
  have h2 : RealLike.le b (0.0 : R) = false := by rw [R.le_false_iff, lit0]; exact not_le.mpr hb
  simp [Gen.Beta.new, h1, h2]

/-! ### log-Beta steps -/

theorem lnB_step_left {a a' b b' : ℝ} (ha : 0 < a) (hb : 0 < b) (h : a' = a + 1) (h' : b' = b) :
    Real.log (Real.Gamma a' * Real.Gamma b' / Real.Gamma (a' + b'))
      - Real.log (Real.Gamma a * Real.Gamma b / Real.Gamma (a + b)) = Real.log (a / (a + b)) := by
  rw [h, h']
  have hGa := Real.Gamma_pos_of_pos ha
  have hGb := Real.Gamma_pos_of_pos hb
  have hGab := Real.Gamma_pos_of_pos (add_pos ha hb)
  have e1 : Real.Gamma (a + 1) = a * Real.Gamma a := Real.Gamma_add_one ha.ne'
  have e2 : Real.Gamma (a + 1 + b) = (a + b) * Real.Gamma (a + b) := by
    rw [show a + 1 + b = (a + b) + 1 by ring]; exact Real.Gamma_add_one (add_pos ha hb).ne'
  have hab := add_pos ha hb
  rw [e1, e2, ← Real.log_div (by positivity) (by positivity)]
  congr 1
  field_simp

theorem lnB_step_right {a a' b b' : ℝ} (ha : 0 < a) (hb : 0 < b) (h : a' = a) (h' : b' = b + 1) :
    Real.log (Real.Gamma a' * Real.Gamma b' / Real.Gamma (a' + b'))
      - Real.log (Real.Gamma a * Real.Gamma b / Real.Gamma (a + b)) = Real.log (b / (a + b)) := by
  have := lnB_step_left (a := b) (a' := b') (b := a) (b' := a') hb ha h' h
  rw [mul_comm (Real.Gamma a') , add_comm a', mul_comm (Real.Gamma a), add_comm a]
  exact this

/-- `B(a,1) = 1/a` -/
theorem lnB_one {a : ℝ} (ha : 0 < a) :
    Real.log (Real.Gamma a * Real.Gamma 1 / Real.Gamma (a + 1)) = - Real.log a := by
  have hGa := Real.Gamma_pos_of_pos ha
  rw [Real.Gamma_add_one ha.ne', Real.Gamma_one, ← Real.log_inv]
  congr 1
  field_simp

/-! ### Bernoulli statistic -/

theorem BernStat_obs_comm (s : Gen.BernoulliSuffStat R) (x y : Bool) :
    Gen.BernoulliSuffStat.observe_bool (Gen.BernoulliSuffStat.observe_bool s x) y
      = Gen.BernoulliSuffStat.observe_bool (Gen.BernoulliSuffStat.observe_bool s y) x := by
  cases x <;> cases y <;> rfl

theorem BernStat_obs_le (s : Gen.BernoulliSuffStat R) (x : Bool) (h : s.k ≤ s.n) :
    (Gen.BernoulliSuffStat.observe_bool s x).k ≤ (Gen.BernoulliSuffStat.observe_bool s x).n := by
  cases x <;> simp [Gen.BernoulliSuffStat.observe_bool] <;> omega

theorem BernStat_fold_le (xs : List Bool) (s : Gen.BernoulliSuffStat R) (h : s.k ≤ s.n) :
    (xs.foldl Gen.BernoulliSuffStat.observe_bool s).k ≤ (xs.foldl Gen.BernoulliSuffStat.observe_bool s).n := by
  induction xs generalizing s with
  | nil => simpa using h
  | cons x xs ih => simpa using ih _ (BernStat_obs_le s x h)

theorem BernStat_fold_perm {xs ys : List Bool} (h : xs.Perm ys) (s : Gen.BernoulliSuffStat R) :
    xs.foldl Gen.BernoulliSuffStat.observe_bool s = ys.foldl Gen.BernoulliSuffStat.observe_bool s :=
  foldl_perm_of_comm _ BernStat_obs_comm h s


/-! ### Gamma / Poisson -/

theorem Gamma_new_ok (a b : R) (ha : 0 < a.val) (hb : 0 < b.val) : Gen.Gamma.new a b = .ok ⟨a, b⟩ := by
  have h1 : RealLike.le a (0.0 : R) = false := by rw [R.le_false_iff, lit0]; exact not_le.mpr ha
  have h2 : RealLike.le b (0.0 : R) = false := by rw [R.le_false_iff, lit0]; exact not_le.mpr hb
  simp [Gen.Gamma.new, Gen.Gamma.new_unchecked, h1, h2]

theorem PoisStat_obs_comm (s : Gen.PoissonSuffStat R) (x y : Nat) :
    Gen.PoissonSuffStat.observe_nat (Gen.PoissonSuffStat.observe_nat s x) y
      = Gen.PoissonSuffStat.observe_nat (Gen.PoissonSuffStat.observe_nat s y) x := by
  simp only [Gen.PoissonSuffStat.observe_nat]
  congr 1 <;> apply R.ext' <;> simp only [R.add_val] <;> ring

theorem PoisStat_fold_perm {xs ys : List Nat} (h : xs.Perm ys) (s : Gen.PoissonSuffStat R) :
    xs.foldl Gen.PoissonSuffStat.observe_nat s = ys.foldl Gen.PoissonSuffStat.observe_nat s :=
  foldl_perm_of_comm _ PoisStat_obs_comm h s

theorem PoisStat_fold_sum_nonneg (xs : List Nat) (s : Gen.PoissonSuffStat R) (h : 0 ≤ s.sum.val) :
    0 ≤ (xs.foldl Gen.PoissonSuffStat.observe_nat s).sum.val := by
  induction xs generalizing s with
  | nil => simpa using h
  | cons x xs ih =>
    apply ih
    simp only [Gen.PoissonSuffStat.observe_nat, R.add_val, R.ofNatR_val]
    positivity

/-- the negative-binomial predictive of the Gamma–Poisson pair against the ratio of normalisers -/
theorem gp_chain {a b k a' b' n1 n2 : ℝ} (hb : 0 < b) (h1 : n1 = a') (h2 : n2 = a)
    (ha' : a' = a + k) (hb' : b' = b + 1) :
    Real.log (Real.Gamma n1) - Real.log (Real.Gamma (k + 1)) - Real.log (Real.Gamma n2)
        + Real.log (1 - 1 / (1 + b)) * a + k * Real.log (1 / (1 + b))
      = (a' * (-Real.log b') + Real.log (Real.Gamma a')) - (a * (-Real.log b) + Real.log (Real.Gamma a))
        - Real.log (Real.Gamma (k + 1)) := by
  have h1b : (0:ℝ) < 1 + b := by linarith
  have e1 : 1 - 1 / (1 + b) = b / (1 + b) := by field_simp; ring
  rw [h1, h2, ha', hb', e1, Real.log_div hb.ne' h1b.ne', one_div, Real.log_inv, add_comm b 1]
  ring


/-! ### lists of reals -/

theorem foldl_add_val {β : Type} (g : β → R) (l : List β) (init : R) :
    (l.foldl (fun acc a => acc + g a) init).val = init.val + (l.map (fun a => (g a).val)).sum := by
  induction l generalizing init with
  | nil => simp
  | cons x xs ih => simp [List.foldl, ih, add_assoc]

theorem map_getD_range {γ : Type} (l : List γ) (d : γ) :
    (List.range l.length).map (fun k => l.getD k d) = l := by
  apply List.ext_getElem
  · simp
  · intro i h1 h2
    simp [List.getD_eq_getElem?_getD, List.getElem?_eq_getElem h2]

theorem foldl_add_val_id (l : List R) (init : R) :
    (l.foldl (fun acc a => acc + a) init).val = init.val + (l.map R.val).sum := by
  induction l generalizing init with
  | nil => simp
  | cons x xs ih => simp [List.foldl, ih, add_assoc]

theorem sum_map_getD_range {γ : Type} (l : List γ) (d : γ) (g : γ → ℝ) :
    ((List.range l.length).map (fun k => g (l.getD k d))).sum = (l.map g).sum := by
  have : (List.range l.length).map (fun k => g (l.getD k d))
      = ((List.range l.length).map (fun k => l.getD k d)).map g := by simp [List.map_map, Function.comp_def]
  rw [this, map_getD_range]

theorem sum_set (g : R → ℝ) : ∀ (cs : List R) (y : Nat) (v d : R), y < cs.length →
    ((cs.set y v).map g).sum = (cs.map g).sum - g (cs.getD y d) + g v
  | [], _, _, _, h => by simp at h
  | c :: cs, 0, v, d, _ => by simp; ring
  | c :: cs, y + 1, v, d, h => by
      have := sum_set g cs y v d (by simpa using h)
      simp only [List.set_cons_succ, List.map_cons, List.sum_cons, List.getD_cons_succ, this]; ring

theorem zsum_set (f : R → R → ℝ) : ∀ (as cs : List R) (y : Nat) (v d : R), y < as.length → y < cs.length →
    ((List.zip as (cs.set y v)).map (fun p => f p.1 p.2)).sum
      = ((List.zip as cs).map (fun p => f p.1 p.2)).sum - f (as.getD y d) (cs.getD y d) + f (as.getD y d) v
  | [], _, _, _, _, h, _ => by simp at h
  | _ :: _, [], _, _, _, _, h => by simp at h
  | a :: as, c :: cs, 0, v, d, _, _ => by simp; ring
  | a :: as, c :: cs, y + 1, v, d, h1, h2 => by
      have := zsum_set f as cs y v d (by simpa using h1) (by simpa using h2)
      simp only [List.set_cons_succ, List.zip_cons_cons, List.map_cons, List.sum_cons, List.getD_cons_succ, this]; ring

theorem zsum_replicate (f : R → R → ℝ) (z : R) : ∀ (as : List R),
    ((List.zip as (List.replicate as.length z)).map (fun p => f p.1 p.2)).sum = (as.map (fun a => f a z)).sum
  | [] => by simp
  | a :: as => by simp [List.replicate_succ, zsum_replicate f z as]

theorem zsum_add (as cs : List R) (h : as.length = cs.length) :
    ((List.zip as cs).map (fun p => p.1.val + p.2.val)).sum = (as.map R.val).sum + (cs.map R.val).sum := by
  induction as generalizing cs with
  | nil => cases cs <;> simp_all
  | cons a as ih =>
    cases cs with
    | nil => simp at h
    | cons c cs => simp [ih cs (by simpa using h)]; ring

theorem getD_zip_map {γ : Type} (g : R × R → γ) (as cs : List R) (y : Nat) (d : R) (e : γ)
    (h1 : y < as.length) (h2 : y < cs.length) :
    ((List.zip as cs).map g).getD y e = g (as.getD y d, cs.getD y d) := by
  simp [List.getD_eq_getElem?_getD, List.getElem?_eq_getElem, h1, h2]

/-- `Γ(x+1)/Γ(x) = x` in logs -/
theorem lgamma_step {x x' : ℝ} (hx : 0 < x) (h : x' = x + 1) :
    Real.log (Real.Gamma x') - Real.log (Real.Gamma x) = Real.log x := by
  rw [h, Real.Gamma_add_one hx.ne', Real.log_mul hx.ne' (Real.Gamma_pos_of_pos hx).ne']; ring

theorem sum_pos_of_pos (as : List R) (hne : as ≠ []) (hpos : ∀ a ∈ as, 0 < a.val) : 0 < (as.map R.val).sum := by
  cases as with
  | nil => exact absurd rfl hne
  | cons a as =>
    simp only [List.map_cons, List.sum_cons]
    have h1 := hpos a (List.mem_cons_self ..)
    have h2 : 0 ≤ (as.map R.val).sum := List.sum_nonneg (by
      intro x hx; simp only [List.mem_map] at hx; obtain ⟨b, hb, rfl⟩ := hx
      exact (hpos b (List.mem_cons_of_mem _ hb)).le)
    linarith

/-- a categorical predictive `k ↦ P[k] / ΣP` computed in logs sums to one -/
theorem pp_sum_one (P : List R) (hne : P ≠ []) (hP : ∀ a ∈ P, 0 < a.val) :
    ((List.range P.length).map (fun k =>
      Real.exp (Real.log (P.getD k RealLike.nan).val - Real.log (P.map R.val).sum))).sum = 1 := by
  have hT := sum_pos_of_pos P hne hP
  have e : (List.range P.length).map (fun k =>
        Real.exp (Real.log (P.getD k RealLike.nan).val - Real.log (P.map R.val).sum))
      = (List.range P.length).map (fun k => (P.getD k RealLike.nan).val * ((P.map R.val).sum)⁻¹) := by
    apply List.map_congr_left
    intro k hk
    have hk' : k < P.length := List.mem_range.mp hk
    have hp : 0 < (P.getD k RealLike.nan).val := by
      rw [List.getD_eq_getElem?_getD, List.getElem?_eq_getElem hk', Option.getD_some]
      exact hP _ (List.getElem_mem hk')
    rw [Real.exp_sub, Real.exp_log hp, Real.exp_log hT, div_eq_mul_inv]
  rw [e, List.sum_map_mul_right, sum_map_getD_range P RealLike.nan R.val, mul_inv_cancel₀ hT.ne']

theorem sum_map_add_const (α : R) (cs : List R) :
    ((cs.map (fun c => α + c)).map R.val).sum = (cs.length : ℝ) * α.val + (cs.map R.val).sum := by
  induction cs with
  | nil => simp
  | cons c cs ih => simp only [List.map_cons, List.sum_cons, List.length_cons, R.add_val, ih]; push_cast; ring

/-! ### Categorical statistic / Dirichlet -/

theorem tryForEach_ok {β ε : Type} (f : β → Except ε Unit) (l : List β) (h : ∀ x ∈ l, f x = .ok ()) :
    tryForEach f l = .ok () := by
  induction l with
  | nil => rfl
  | cons x xs ih =>
    simp only [tryForEach, h x (List.mem_cons_self ..)]
    exact ih (fun y hy => h y (List.mem_cons_of_mem _ hy))

theorem Dirichlet_new_ok (as : List R) (hne : as ≠ []) (hpos : ∀ a ∈ as, 0 < a.val) :
    Gen.Dirichlet.new as = .ok ⟨as⟩ := by
  have hE : as.isEmpty = false := by cases as <;> simp_all
  unfold Gen.Dirichlet.new
  rw [hE, tryForEach_ok]
  · simp
  · rintro ⟨i, a⟩ hm
    have ha : a ∈ as := (List.of_mem_zip (by simpa [enumL] using hm)).2
    have h1 : RealLike.le a (0.0 : R) = false := by rw [R.le_false_iff, lit0]; exact not_le.mpr (hpos a ha)
    simp [h1]

theorem CatStat_obs_comm (s : Gen.CategoricalSuffStat R) (x y : Nat) :
    Gen.CategoricalSuffStat.observe_nat (Gen.CategoricalSuffStat.observe_nat s x) y
      = Gen.CategoricalSuffStat.observe_nat (Gen.CategoricalSuffStat.observe_nat s y) x := by
  by_cases h : x = y
  · subst h; rfl
  · have h' : y ≠ x := fun e => h e.symm
    simp only [Gen.CategoricalSuffStat.observe_nat, idxR, List.getD_eq_getElem?_getD,
      List.getElem?_set_ne h, List.getElem?_set_ne h', List.set_comm _ _ h]

theorem CatStat_fold_perm {xs ys : List Nat} (h : xs.Perm ys) (s : Gen.CategoricalSuffStat R) :
    xs.foldl Gen.CategoricalSuffStat.observe_nat s = ys.foldl Gen.CategoricalSuffStat.observe_nat s :=
  foldl_perm_of_comm _ CatStat_obs_comm h s

/-- representation invariant of a Categorical statistic over `K` categories -/
def CatInv (K : Nat) (S : Gen.CategoricalSuffStat R) : Prop :=
  S.counts.length = K ∧ (∀ c ∈ S.counts, 0 ≤ c.val) ∧ (S.counts.map R.val).sum = (S.n : ℝ)

theorem CatInv_new (K : Nat) : CatInv K (Gen.CategoricalSuffStat.new K) := by
  refine ⟨by simp [Gen.CategoricalSuffStat.new], ?_, ?_⟩
  · intro c hc
    simp only [Gen.CategoricalSuffStat.new, List.mem_replicate] at hc
    rw [hc.2, lit0]
  · simp only [Gen.CategoricalSuffStat.new, List.map_replicate, List.sum_replicate, lit0]; simp

theorem CatInv_observe {K : Nat} {S : Gen.CategoricalSuffStat R} (h : CatInv K S) (x : Nat) (hx : x < K) :
    CatInv K (Gen.CategoricalSuffStat.observe_nat S x) := by
  obtain ⟨h1, h2, h3⟩ := h
  have hx' : x < S.counts.length := by omega
  have hget : 0 ≤ (S.counts.getD x RealLike.nan).val := by
    rw [List.getD_eq_getElem?_getD, List.getElem?_eq_getElem hx', Option.getD_some]; exact h2 _ (List.getElem_mem hx')
  refine ⟨by simp [Gen.CategoricalSuffStat.observe_nat, h1], ?_, ?_⟩
  · intro c hc
    simp only [Gen.CategoricalSuffStat.observe_nat] at hc
    rcases List.mem_or_eq_of_mem_set hc with hc | hc
    · exact h2 c hc
    · rw [hc]; simp only [idxR, R.add_val, lit1]; linarith
  · simp only [Gen.CategoricalSuffStat.observe_nat, idxR]
    rw [sum_set R.val _ _ _ RealLike.nan hx', h3]
    simp only [R.add_val, lit1]; push_cast; ring

theorem CatInv_fold {K : Nat} (xs : List Nat) (hxs : ∀ x ∈ xs, x < K) (S : Gen.CategoricalSuffStat R)
    (h : CatInv K S) : CatInv K (xs.foldl Gen.CategoricalSuffStat.observe_nat S) := by
  induction xs generalizing S with
  | nil => simpa using h
  | cons x xs ih =>
    simp only [List.foldl_cons]
    exact ih (fun z hz => hxs z (List.mem_cons_of_mem _ hz)) _ (CatInv_observe h x (hxs x (List.mem_cons_self ..)))


/-! ### Gaussian statistic (Welford) and the Gaussian priors -/

theorem GaussStat_obs_comm (s : Gen.GaussianSuffStat R) (x y : R) :
    Gen.GaussianSuffStat.observe_real (Gen.GaussianSuffStat.observe_real s x) y
      = Gen.GaussianSuffStat.observe_real (Gen.GaussianSuffStat.observe_real s y) x := by
  have h1 : ((s.n : ℝ) + 1) ≠ 0 := by positivity
  have h2 : ((s.n : ℝ) + 1 + 1) ≠ 0 := by positivity
  simp only [Gen.GaussianSuffStat.observe_real, mulAdd, RealLike.recip]
  congr 1 <;> apply R.ext' <;>
    simp only [R.add_val, R.sub_val, R.mul_val, R.div_val, R.ofNatR_val, lit1, Nat.cast_add, Nat.cast_one] <;>
    field_simp <;> ring

theorem GaussStat_fold_perm {xs ys : List R} (h : xs.Perm ys) (s : Gen.GaussianSuffStat R) :
    xs.foldl Gen.GaussianSuffStat.observe_real s = ys.foldl Gen.GaussianSuffStat.observe_real s :=
  foldl_perm_of_comm _ GaussStat_obs_comm h s

theorem NormalGamma_new_ok (m r s v : R) (hr : 0 < r.val) (hs : 0 < s.val) (hv : 0 < v.val) :
    Gen.NormalGamma.new m r s v = .ok ⟨m, r, s, v⟩ := by
  have h1 : RealLike.le r (0.0 : R) = false := by rw [R.le_false_iff, lit0]; exact not_le.mpr hr
  have h2 : RealLike.le s (0.0 : R) = false := by rw [R.le_false_iff, lit0]; exact not_le.mpr hs
  have h3 : RealLike.le v (0.0 : R) = false := by rw [R.le_false_iff, lit0]; exact not_le.mpr hv
  simp [Gen.NormalGamma.new, h1, h2, h3]

theorem NormalInvGamma_new_ok (m v a b : R) (hv : 0 < v.val) (ha : 0 < a.val) (hb : 0 < b.val) :
    Gen.NormalInvGamma.new m v a b = .ok ⟨m, v, a, b⟩ := by
  have h1 : RealLike.le v (0.0 : R) = false := by rw [R.le_false_iff, lit0]; exact not_le.mpr hv
  have h2 : RealLike.le a (0.0 : R) = false := by rw [R.le_false_iff, lit0]; exact not_le.mpr ha
  have h3 : RealLike.le b (0.0 : R) = false := by rw [R.le_false_iff, lit0]; exact not_le.mpr hb
  simp [Gen.NormalInvGamma.new, h1, h2, h3]

theorem NormalInvChiSquared_new_ok (m k v s2 : R) (hk : 0 < k.val) (hv : 0 < v.val) (hs : 0 < s2.val) :
    Gen.NormalInvChiSquared.new m k v s2 = .ok ⟨m, k, v, s2⟩ := by
  have h1 : RealLike.le v (0.0 : R) = false := by rw [R.le_false_iff, lit0]; exact not_le.mpr hv
  have h2 : RealLike.le k (0.0 : R) = false := by rw [R.le_false_iff, lit0]; exact not_le.mpr hk
  have h3 : RealLike.le s2 (0.0 : R) = false := by rw [R.le_false_iff, lit0]; exact not_le.mpr hs
  simp [Gen.NormalInvChiSquared.new, h1, h2, h3]


/-! ### Student-t predictive of the Gaussian priors -/

/-- textbook log-density of the location–scale Student-t with `ν` degrees of freedom, location `μ`, squared scale `σ2` -/
noncomputable def lnStudentT (ν μ σ2 y : ℝ) : ℝ :=
  Real.log (Real.Gamma ((ν + 1) / 2)) - Real.log (Real.Gamma (ν / 2)) - (1 / 2) * Real.log (ν * π * σ2)
    - ((ν + 1) / 2) * Real.log (1 + (y - μ) ^ 2 / (ν * σ2))

/-- `ln_z` of the NormalGamma family as the Rust code computes it -/
noncomputable def lnzNG (r s v : ℝ) : ℝ :=
  (1 / 2 * v + 1 / 2) * Real.log 2 + Real.log π / 2
    - (1 / 2 * Real.log r + (1 / 2 * v) * Real.log s - Real.log (Real.Gamma (1 / 2 * v)))

theorem ng_student {r s v y μ r' s' v' : ℝ} (hr : 0 < r) (hs : 0 < s) (hv : 0 < v)
    (hr' : r' = r + 1) (hv' : v' = v + 1) (hs' : s' = s + r * (y - μ) ^ 2 / (r + 1)) :
    -(Real.log (2 * π) / 2) + lnzNG r' s' v' - lnzNG r s v = lnStudentT v μ (s * (r + 1) / (v * r)) y := by
  have hr1 : 0 < r + 1 := by linarith
  have hs1 : 0 < s + r * (y - μ) ^ 2 / (r + 1) := by positivity
  have hπ := Real.pi_pos
  have e1 : 1 + (y - μ) ^ 2 / (v * (s * (r + 1) / (v * r))) = (s + r * (y - μ) ^ 2 / (r + 1)) / s := by
    field_simp
  have e2 : v * π * (s * (r + 1) / (v * r)) = π * s * (r + 1) / r := by field_simp
  unfold lnStudentT lnzNG
  rw [hr', hv', hs', e1, e2, Real.log_div hs1.ne' hs.ne', Real.log_div (by positivity) hr.ne',
    Real.log_mul (by positivity) hr1.ne', Real.log_mul hπ.ne' hs.ne', Real.log_mul (by norm_num) hπ.ne',
    show (v + 1) / 2 = 1 / 2 * (v + 1) by ring, show v / 2 = 1 / 2 * v by ring]
  ring

/-- `ln_z` of the NormalInvGamma family as the Rust code computes it -/
noncomputable def lnzNIG (v a b : ℝ) : ℝ :=
  -(Real.log b * a - (Real.log v * (1 / 2) + Real.log (Real.Gamma a)))

theorem nig_student {v a b y μ v' a' b' : ℝ} (hv : 0 < v) (ha : 0 < a) (hb : 0 < b)
    (hv' : v' = v / (1 + v)) (ha' : a' = a + 1 / 2) (hb' : b' = b + (y - μ) ^ 2 / (2 * (1 + v))) :
    -(Real.log (2 * π) / 2) + lnzNIG v' a' b' - lnzNIG v a b = lnStudentT (2 * a) μ (b * (1 + v) / a) y := by
  have hv1 : 0 < 1 + v := by linarith
  have hb1 : 0 < b + (y - μ) ^ 2 / (2 * (1 + v)) := by positivity
  have hπ := Real.pi_pos
  have e1 : 1 + (y - μ) ^ 2 / (2 * a * (b * (1 + v) / a)) = (b + (y - μ) ^ 2 / (2 * (1 + v))) / b := by
    field_simp
  have e2 : 2 * a * π * (b * (1 + v) / a) = 2 * π * b * (1 + v) := by field_simp
  unfold lnStudentT lnzNIG
  rw [hv', ha', hb', e1, e2, Real.log_div hb1.ne' hb.ne', Real.log_div hv.ne' hv1.ne',
    Real.log_mul (by positivity) hv1.ne', Real.log_mul (by positivity) hb.ne',
    show (2 * a + 1) / 2 = a + 1 / 2 by ring, show 2 * a / 2 = a by ring]
  ring

/-- `ln_z` of the NormalInvChiSquared family as the Rust code computes it -/
noncomputable def lnzNIX (k v s2 : ℝ) : ℝ :=
  Real.log k * (-(1 / 2)) + (Real.log (v * s2) * (-(1 / 2) * v) + Real.log (Real.Gamma (1 / 2 * v)))

theorem nix_student {k v s2 y μ k' v' s2' : ℝ} (hk : 0 < k) (hv : 0 < v) (hs : 0 < s2)
    (hk' : k' = k + 1) (hv' : v' = v + 1) (hs' : v' * s2' = v * s2 + k * (y - μ) ^ 2 / (k + 1)) :
    -(Real.log π / 2) + lnzNIX k' v' s2' - lnzNIX k v s2 = lnStudentT v μ ((1 + k) * s2 / k) y := by
  have hk1 : 0 < k + 1 := by linarith
  have hvs : 0 < v * s2 := by positivity
  have hvs1 : 0 < v * s2 + k * (y - μ) ^ 2 / (k + 1) := by positivity
  have hπ := Real.pi_pos
  have e1 : 1 + (y - μ) ^ 2 / (v * ((1 + k) * s2 / k)) = (v * s2 + k * (y - μ) ^ 2 / (k + 1)) / (v * s2) := by
    field_simp
    ring
  have e2 : v * π * ((1 + k) * s2 / k) = π * (v * s2) * (k + 1) / k := by field_simp; ring
  unfold lnStudentT lnzNIX
  rw [hs', hk', hv', e1, e2, Real.log_div hvs1.ne' hvs.ne', Real.log_div (by positivity) hk.ne',
    Real.log_mul (by positivity) hk1.ne', Real.log_mul hπ.ne' hvs.ne',
    show (v + 1) / 2 = 1 / 2 * (v + 1) by ring, show v / 2 = 1 / 2 * v by ring]
  ring

/-! ### integral form of the Beta–Bernoulli marginal -/

open MeasureTheory ProbabilityTheory in
theorem integral_beta_kernel {a b : ℝ} (ha : 0 < a) (hb : 0 < b) :
    ∫ x in Set.Ioo (0:ℝ) 1, x ^ (a - 1) * (1 - x) ^ (b - 1) = ProbabilityTheory.beta a b := by
  rw [ProbabilityTheory.beta_eq_betaIntegralReal a b ha hb, Complex.betaIntegral,
    intervalIntegral.integral_of_le (by norm_num), ← MeasureTheory.integral_Ioc_eq_integral_Ioo,
    ← RCLike.re_to_complex, ← integral_re]
  · refine MeasureTheory.setIntegral_congr_fun measurableSet_Ioc fun x ⟨hx1, hx2⟩ ↦ ?_
    norm_cast
    rw [← Complex.ofReal_cpow, ← Complex.ofReal_cpow, RCLike.re_to_complex, Complex.re_mul_ofReal, Complex.ofReal_re]
    all_goals linarith
  · convert! Complex.betaIntegral_convergent (u := a) (v := b) (by simpa) (by simpa)
    rw [intervalIntegrable_iff_integrableOn_Ioc_of_le (by simp), MeasureTheory.IntegrableOn]

/-- Bernoulli likelihood of one observation under success probability θ, through the generated `Bernoulli::f` -/
noncomputable def bernLik (θ : ℝ) (x : Bool) : ℝ := (Gen.Bernoulli.f_bool (⟨⟨θ⟩⟩ : Gen.Bernoulli R) x).val

open MeasureTheory ProbabilityTheory in
theorem bernLik_eq (θ : ℝ) (x : Bool) : bernLik θ x = if x then θ else 1 - θ := by
  cases x <;> simp only [bernLik, Gen.Bernoulli.f_bool, R.sub_val, lit1, Bool.false_eq_true, if_false, if_true]

open MeasureTheory ProbabilityTheory in
theorem lik_prod_fold (θ : ℝ) (xs : List Bool) (s : Gen.BernoulliSuffStat R) (h : s.k ≤ s.n) :
    (xs.map (bernLik θ)).prod * (θ ^ s.k * (1 - θ) ^ (s.n - s.k))
      = θ ^ (xs.foldl Gen.BernoulliSuffStat.observe_bool s).k
        * (1 - θ) ^ ((xs.foldl Gen.BernoulliSuffStat.observe_bool s).n
            - (xs.foldl Gen.BernoulliSuffStat.observe_bool s).k) := by
  induction xs generalizing s with
  | nil => simp
  | cons x xs ih =>
    rw [List.foldl_cons, ← ih _ (BernStat_obs_le s x h), List.map_cons, List.prod_cons, bernLik_eq]
    cases x
    · have e : (Gen.BernoulliSuffStat.observe_bool s false).n - (Gen.BernoulliSuffStat.observe_bool s false).k
          = (s.n - s.k) + 1 := by simp only [Gen.BernoulliSuffStat.observe_bool]; simp; omega
      have e' : (Gen.BernoulliSuffStat.observe_bool s false).k = s.k := by simp [Gen.BernoulliSuffStat.observe_bool]
      rw [e, e']; simp only [Bool.false_eq_true, if_false]; ring
    · have e : (Gen.BernoulliSuffStat.observe_bool s true).n - (Gen.BernoulliSuffStat.observe_bool s true).k
          = (s.n - s.k) := by simp only [Gen.BernoulliSuffStat.observe_bool]; simp
      have e' : (Gen.BernoulliSuffStat.observe_bool s true).k = s.k + 1 := by simp [Gen.BernoulliSuffStat.observe_bool]
      rw [e, e']; simp only [if_true]; ring

open MeasureTheory ProbabilityTheory in
theorem integral_lik_betaPDF {a b : ℝ} (ha : 0 < a) (hb : 0 < b) (k d : ℕ) :
    ∫ θ in Set.Ioo (0:ℝ) 1, (θ ^ k * (1 - θ) ^ d) * betaPDFReal a b θ
      = ProbabilityTheory.beta (a + k) (b + d) / ProbabilityTheory.beta a b := by
  have hk : 0 < a + (k : ℝ) := by positivity
  have hd : 0 < b + (d : ℝ) := by positivity
  rw [← integral_beta_kernel hk hd, div_eq_inv_mul, ← integral_const_mul]
  refine setIntegral_congr_fun measurableSet_Ioo fun θ ⟨h0, h1⟩ ↦ ?_
  have h1' : 0 < 1 - θ := by linarith
  simp only [betaPDFReal, if_pos (And.intro h0 h1)]
  rw [show a + (k:ℝ) - 1 = (k:ℝ) + (a - 1) by ring, show b + (d:ℝ) - 1 = (d:ℝ) + (b - 1) by ring,
    Real.rpow_add h0, Real.rpow_add h1', Real.rpow_natCast, Real.rpow_natCast]
  ring

/-! ### Gamma–Poisson: negative-binomial closed form and integral form -/

open MeasureTheory in
theorem nb_closed {a b : ℝ} (y : ℕ) {n1 n2 : ℝ} (ha : 0 < a) (hb : 0 < b) (h1 : n1 = (y : ℝ) + a) (h2 : n2 = a) :
    Real.exp (Real.log (Real.Gamma n1) - Real.log (Real.Gamma ((y : ℝ) + 1)) - Real.log (Real.Gamma n2)
        + Real.log (1 - 1 / (1 + b)) * a + (y : ℝ) * Real.log (1 / (1 + b)))
      = Real.Gamma ((y : ℝ) + a) / (Real.Gamma ((y : ℝ) + 1) * Real.Gamma a) * (b / (1 + b)) ^ a * (1 / (1 + b)) ^ y := by
  have h1b : (0:ℝ) < 1 + b := by linarith
  have e1 : 1 - 1 / (1 + b) = b / (1 + b) := by field_simp; ring
  have hp : 0 < b / (1 + b) := by positivity
  have hq : 0 < 1 / (1 + b) := by positivity
  have g1 : 0 < Real.Gamma ((y : ℝ) + a) := Real.Gamma_pos_of_pos (by positivity)
  have g2 : 0 < Real.Gamma ((y : ℝ) + 1) := Real.Gamma_pos_of_pos (by positivity)
  have g3 : 0 < Real.Gamma a := Real.Gamma_pos_of_pos ha
  rw [h1, h2, e1, Real.exp_add, Real.exp_add, Real.exp_sub, Real.exp_sub, Real.exp_log g1, Real.exp_log g2,
    Real.exp_log g3, Real.rpow_def_of_pos hp a, ← Real.rpow_natCast, Real.rpow_def_of_pos hq (y : ℝ),
    mul_comm (y : ℝ) (Real.log _)]
  ring

/-- Poisson likelihood of one observation under rate `lam`, through the generated `Poisson::f` -/
noncomputable def poisLik (lam : ℝ) (x : Nat) : ℝ := (Gen.Poisson.f_nat (⟨⟨lam⟩⟩ : Gen.Poisson R) x).val

open MeasureTheory in
theorem poisLik_eq (lam : ℝ) (x : Nat) :
    poisLik lam x = Real.exp ((x : ℝ) * Real.log lam - lam - (Gen.ln_fact x : R).val) := by
  simp only [poisLik, Gen.Poisson.f_nat, Gen.Poisson.ln_f_nat, Gen.Poisson.ln_rate, mulAdd, R.exp_val, R.sub_val,
    R.add_val, R.mul_val, R.neg_val, R.ln_val, R.ofNatR_val]
  ring_nf

open MeasureTheory in
theorem pois_prod_fold (lam : ℝ) (xs : List Nat) (s : Gen.PoissonSuffStat R) :
    (xs.map (poisLik lam)).prod * Real.exp (s.sum.val * Real.log lam - (s.n : ℝ) * lam - s.sum_ln_fact.val)
      = Real.exp ((xs.foldl Gen.PoissonSuffStat.observe_nat s).sum.val * Real.log lam
          - ((xs.foldl Gen.PoissonSuffStat.observe_nat s).n : ℝ) * lam
          - (xs.foldl Gen.PoissonSuffStat.observe_nat s).sum_ln_fact.val) := by
  induction xs generalizing s with
  | nil => simp
  | cons x xs ih =>
    rw [List.foldl_cons, ← ih, List.map_cons, List.prod_cons, poisLik_eq, mul_assoc, mul_left_comm, ← Real.exp_add]
    congr 2
    simp only [Gen.PoissonSuffStat.observe_nat, R.add_val, R.ofNatR_val]
    push_cast
    ring

open MeasureTheory in
theorem integral_gp {a b S n slf : ℝ} (ha : 0 < a) (hb : 0 < b) (hS : 0 ≤ S) (hn : 0 ≤ n) :
    ∫ lam in Set.Ioi (0:ℝ), Real.exp (S * Real.log lam - n * lam - slf)
        * Real.exp ((a * Real.log b + -Real.log (Real.Gamma a)) + ((a - 1) * Real.log lam + -(b * lam)))
      = Real.exp (((a + S) * (-Real.log (b + n)) + Real.log (Real.Gamma (a + S)))
          - (a * (-Real.log b) + Real.log (Real.Gamma a)) - slf) := by
  have haS : 0 < a + S := by positivity
  have hbn : 0 < b + n := by positivity
  have key := Real.integral_rpow_mul_exp_neg_mul_Ioi haS hbn
  have hcong : ∫ lam in Set.Ioi (0:ℝ), Real.exp (S * Real.log lam - n * lam - slf)
        * Real.exp ((a * Real.log b + -Real.log (Real.Gamma a)) + ((a - 1) * Real.log lam + -(b * lam)))
      = ∫ lam in Set.Ioi (0:ℝ), Real.exp (-slf + a * Real.log b - Real.log (Real.Gamma a))
          * (lam ^ (a + S - 1) * Real.exp (-((b + n) * lam))) := by
    refine setIntegral_congr_fun measurableSet_Ioi fun lam hl ↦ ?_
    have hl' : 0 < lam := hl
    rw [Real.rpow_def_of_pos hl', ← Real.exp_add, ← Real.exp_add, ← Real.exp_add]
    congr 1
    ring
  rw [hcong, integral_const_mul, key, Real.rpow_def_of_pos (by positivity), Real.log_div one_ne_zero hbn.ne',
    Real.log_one, ← Real.exp_log (Real.Gamma_pos_of_pos haS), ← Real.exp_add, ← Real.exp_add,
    Real.log_exp]
  congr 1
  ring

open ProbabilityTheory in
theorem beta_pdf_bridge {a b θ : ℝ} (ha : 0 < a) (hb : 0 < b) (h0 : 0 < θ) (h1 : θ < 1) :
    Real.exp (((a - 1) * Real.log θ + (b - 1) * Real.log (1 - θ))
        - Real.log (Real.Gamma a * Real.Gamma b / Real.Gamma (a + b))) = betaPDFReal a b θ := by
  have h1' : 0 < 1 - θ := by linarith
  have hB := beta_pos ha hb
  unfold ProbabilityTheory.beta at hB
  simp only [betaPDFReal, if_pos (And.intro h0 h1), ProbabilityTheory.beta]
  rw [Real.exp_sub, Real.exp_add, Real.exp_log hB, Real.rpow_def_of_pos h0, Real.rpow_def_of_pos h1',
    mul_comm (a - 1), mul_comm (b - 1)]
  ring

open ProbabilityTheory in
theorem upl_pdf_bridge {a θ : ℝ} (ha : 0 < a) (h0 : 0 < θ) (h1 : θ < 1) :
    Real.exp (Real.log θ * (a - 1) + Real.log a) = betaPDFReal a 1 θ := by
  have hG := Real.Gamma_pos_of_pos ha
  simp only [betaPDFReal, if_pos (And.intro h0 h1), ProbabilityTheory.beta, sub_self, Real.rpow_zero, mul_one,
    Real.Gamma_one, Real.Gamma_add_one ha.ne']
  rw [Real.exp_add, Real.exp_log ha, Real.rpow_def_of_pos h0]
  field_simp


/-! ### negative-binomial series -/

theorem asc_eq_gamma {a : ℝ} (ha : 0 < a) (n : ℕ) :
    (ascPochhammer ℝ n).eval a = Real.Gamma (a + n) / Real.Gamma a := by
  have hG := (Real.Gamma_pos_of_pos ha).ne'
  induction n with
  | zero => simp [hG]
  | succ n ih =>
    have han : 0 < a + n := by positivity
    rw [ascPochhammer_succ_eval, ih, Nat.cast_succ, ← add_assoc, Real.Gamma_add_one han.ne']
    field_simp

theorem choose_eq_gamma {a : ℝ} (ha : 0 < a) (n : ℕ) :
    Ring.choose (a + n - 1) n = Real.Gamma ((n : ℝ) + a) / (Real.Gamma ((n : ℝ) + 1) * Real.Gamma a) := by
  rw [Ring.choose_eq_smul, Polynomial.descPochhammer_smeval_eq_ascPochhammer,
    Polynomial.ascPochhammer_smeval_eq_eval, show a + (n : ℝ) - 1 - n + 1 = a by ring, asc_eq_gamma ha,
    Real.Gamma_nat_eq_factorial, smul_eq_mul, add_comm a]
  have hG := (Real.Gamma_pos_of_pos ha).ne'
  have hf : ((n.factorial : ℕ) : ℝ) ≠ 0 := by exact_mod_cast Nat.factorial_ne_zero n
  field_simp

theorem negbin_hasSum {a p : ℝ} (ha : 0 < a) (hp0 : 0 ≤ p) (hp1 : p < 1) :
    HasSum (fun n : ℕ => Real.Gamma ((n : ℝ) + a) / (Real.Gamma ((n : ℝ) + 1) * Real.Gamma a) * (1 - p) ^ a * p ^ n) 1 := by
  have hball : p ∈ Metric.eball (0:ℝ) 1 := by
    rw [Metric.mem_eball, edist_dist, dist_zero_right, Real.norm_eq_abs, abs_of_nonneg hp0]
    exact ENNReal.ofReal_lt_one.mpr hp1
  have h := (Real.one_div_one_sub_rpow_hasFPowerSeriesOnBall_zero a).hasSum hball
  simp only [FormalMultilinearSeries.ofScalars_apply_eq, zero_add, smul_eq_mul] at h
  have h1p : 0 < 1 - p := by linarith
  have h2 := h.mul_right ((1 - p) ^ a)
  rw [one_div, inv_mul_cancel₀ (Real.rpow_pos_of_pos h1p a).ne'] at h2
  have e : (fun n : ℕ => Real.Gamma ((n : ℝ) + a) / (Real.Gamma ((n : ℝ) + 1) * Real.Gamma a) * (1 - p) ^ a * p ^ n)
      = fun i : ℕ => Ring.choose (a + (i : ℝ) - 1) i * p ^ i * (1 - p) ^ a := by
    funext n
    rw [choose_eq_gamma ha n]
    ring
  rw [e]
  exact h2

/-! ### model-level helpers for Props/C06A (statistics as folds, posteriors on valid parameters, closed forms) -/

abbrev BStat := Gen.BernoulliSuffStat R
noncomputable abbrev bfold (xs : List Bool) : BStat := xs.foldl Gen.BernoulliSuffStat.observe_bool Gen.BernoulliSuffStat.new

-- @site Beta.posterior_bool_Bernoulli
theorem Beta_post_stat (pr : Gen.Beta R) (S : BStat) (hα : 0 < pr.alpha.val) (hβ : 0 < pr.beta.val) :
    Gen.Beta.posterior_bool_Bernoulli pr (.suffStat S)
      = ⟨pr.alpha + RealLike.ofNatR S.k, pr.beta + RealLike.ofNatR (S.n - S.k)⟩ := by
  have h := Beta_new_ok (pr.alpha + RealLike.ofNatR S.k) (pr.beta + RealLike.ofNatR (S.n - S.k))
    (by simp only [R.add_val, R.ofNatR_val]; positivity) (by simp only [R.add_val, R.ofNatR_val]; positivity)
  simp only [Gen.Beta.posterior_bool_Bernoulli, Gen.BernoulliSuffStat.get_n, Gen.BernoulliSuffStat.get_k,
    Gen.Beta.get_alpha, Gen.Beta.get_beta, h]


-- @site BernoulliSuffStat.observe_bool
theorem bfold_append (xs : List Bool) (y : Bool) : bfold (xs ++ [y]) = Gen.BernoulliSuffStat.observe_bool (bfold xs) y := by
  simp [bfold, List.foldl_append]

-- @site BernoulliSuffStat.observe_bool
theorem bfold_le (xs : List Bool) : (bfold xs).k ≤ (bfold xs).n :=
  BernStat_fold_le xs _ (by simp [Gen.BernoulliSuffStat.new])

-- @site UnitPowerLaw.posterior_bool_Bernoulli
theorem UPL_post_stat (pr : Gen.UnitPowerLaw R) (S : BStat) (hα : 0 < pr.alpha.val) :
    Gen.UnitPowerLaw.posterior_bool_Bernoulli pr (.suffStat S)
      = ⟨pr.alpha + RealLike.ofNatR S.k, RealLike.ofNatR (1 + (S.n - S.k))⟩ := by
  have h := Beta_new_ok (pr.alpha + RealLike.ofNatR S.k) (RealLike.ofNatR (1 + (S.n - S.k)))
    (by simp only [R.add_val, R.ofNatR_val]; positivity) (by simp only [R.ofNatR_val]; push_cast; positivity)
  simp only [Gen.UnitPowerLaw.posterior_bool_Bernoulli, Gen.BernoulliSuffStat.get_n, Gen.BernoulliSuffStat.get_k,
    Gen.UnitPowerLaw.get_alpha, h]

abbrev PStat := Gen.PoissonSuffStat R
noncomputable abbrev pfold (xs : List Nat) : PStat := xs.foldl Gen.PoissonSuffStat.observe_nat Gen.PoissonSuffStat.new

-- @site Gamma.posterior_nat_Poisson
theorem Gamma_post_stat (pr : Gen.Gamma R) (S : PStat) (hs : 0 < pr.shape.val) (hr : 0 < pr.rate.val)
    (hsum : 0 ≤ S.sum.val) :
    Gen.Gamma.posterior_nat_Poisson pr (.suffStat S) = ⟨pr.shape + S.sum, pr.rate + RealLike.ofNatR S.n⟩ := by
  have h := Gamma_new_ok (pr.shape + S.sum) (pr.rate + RealLike.ofNatR S.n)
    (by simp only [R.add_val]; positivity) (by simp only [R.add_val, R.ofNatR_val]; positivity)
  simp only [Gen.Gamma.posterior_nat_Poisson, Gen.PoissonSuffStat.get_n, Gen.PoissonSuffStat.get_sum,
    Gen.Gamma.get_shape, Gen.Gamma.get_rate, h]

-- @site PoissonSuffStat.observe_nat
theorem pfold_append (xs : List Nat) (y : Nat) : pfold (xs ++ [y]) = Gen.PoissonSuffStat.observe_nat (pfold xs) y := by
  simp [pfold, List.foldl_append]

-- @site PoissonSuffStat.observe_nat
theorem pfold_sum_nonneg (xs : List Nat) : 0 ≤ (pfold xs).sum.val :=
  PoisStat_fold_sum_nonneg xs _ (by simp only [Gen.PoissonSuffStat.new, lit0]; exact le_refl _)

abbrev CStat := Gen.CategoricalSuffStat R
noncomputable abbrev cfold (K : Nat) (xs : List Nat) : CStat :=
  xs.foldl Gen.CategoricalSuffStat.observe_nat (Gen.CategoricalSuffStat.new K)

-- @site CategoricalSuffStat.observe_nat
theorem cfold_append (K : Nat) (xs : List Nat) (y : Nat) :
    cfold K (xs ++ [y]) = Gen.CategoricalSuffStat.observe_nat (cfold K xs) y := by
  simp [cfold, List.foldl_append]

-- @site CategoricalSuffStat.observe_nat
theorem cfold_inv (K : Nat) (xs : List Nat) (hxs : ∀ x ∈ xs, x < K) : CatInv K (cfold K xs) :=
  CatInv_fold xs hxs _ (CatInv_new K)

/-- posterior concentration parameters `αᵢ + cᵢ` -/
noncomputable abbrev postAlphas (as cs : List R) : List R := (List.zip as cs).map (fun p => p.1 + p.2)

theorem postAlphas_pos (as cs : List R) (hpos : ∀ a ∈ as, 0 < a.val) (hc : ∀ c ∈ cs, 0 ≤ c.val) :
    ∀ a ∈ postAlphas as cs, 0 < a.val := by
  intro a ha
  simp only [postAlphas, List.mem_map] at ha
  obtain ⟨⟨a0, c0⟩, hm, rfl⟩ := ha
  have := List.of_mem_zip hm
  simp only [R.add_val]
  linarith [hpos a0 this.1, hc c0 this.2]

theorem postAlphas_ne_nil (as cs : List R) (hne : as ≠ []) (hl : cs.length = as.length) : postAlphas as cs ≠ [] := by
  cases as with
  | nil => exact absurd rfl hne
  | cons a as => cases cs with
    | nil => simp at hl
    | cons c cs => simp [postAlphas]

-- @site Dirichlet.posterior_nat_Categorical
theorem Dir_post_stat (pr : Gen.Dirichlet R) (S : CStat) (hne : pr.alphas ≠ [])
    (hpos : ∀ a ∈ pr.alphas, 0 < a.val) (hS : CatInv pr.alphas.length S) :
    Gen.Dirichlet.posterior_nat_Categorical pr (.suffStat S) = ⟨postAlphas pr.alphas S.counts⟩ := by
  have h := Dirichlet_new_ok (postAlphas pr.alphas S.counts) (postAlphas_ne_nil _ _ hne hS.1)
    (postAlphas_pos _ _ hpos hS.2.1)
  simp only [postAlphas] at h
  simp only [Gen.Dirichlet.posterior_nat_Categorical, Gen.Dirichlet.get_alphas, Gen.CategoricalSuffStat.get_counts, h]

/-- closed form of the model's `ln_m` on a statistic -/
-- @site Dirichlet.ln_m_with_cache_nat_Categorical
theorem Dir_ln_m_val (pr : Gen.Dirichlet R) (S : CStat) :
    (Gen.Dirichlet.ln_m_nat_Categorical pr (.suffStat S)).val
      = -Real.log (Real.Gamma ((pr.alphas.map R.val).sum + (S.n : ℝ)))
        + ((List.zip pr.alphas S.counts).map (fun p => Real.log (Real.Gamma (p.1.val + p.2.val)))).sum
        + (Real.log (Real.Gamma (pr.alphas.map R.val).sum)
            - (pr.alphas.map (fun a => Real.log (Real.Gamma a.val))).sum) := by
  simp only [Gen.Dirichlet.ln_m_nat_Categorical, Gen.Dirichlet.ln_m_with_cache_nat_Categorical,
    Gen.Dirichlet.ln_m_cache_nat_Categorical, Gen.Dirichlet.get_alphas, Gen.CategoricalSuffStat.get_n,
    Gen.CategoricalSuffStat.get_counts, R.add_val, R.neg_val, R.sub_val, R.lgamma_val, R.sumL_val, R.ofNatR_val,
    foldl_add_val, foldl_add_val_id, List.map_map, Function.comp_def, lit0, zero_add]

-- @site Dirichlet.ln_pp_with_cache_nat_Categorical
theorem Dir_ln_pp_val (pr : Gen.Dirichlet R) (S : CStat) (y : Nat) (hne : pr.alphas ≠ [])
    (hpos : ∀ a ∈ pr.alphas, 0 < a.val) (hS : CatInv pr.alphas.length S) :
    (Gen.Dirichlet.ln_pp_nat_Categorical pr y (.suffStat S)).val
      = Real.log ((postAlphas pr.alphas S.counts).getD y RealLike.nan).val
        - Real.log ((postAlphas pr.alphas S.counts).map R.val).sum := by
  simp only [Gen.Dirichlet.ln_pp_nat_Categorical, Gen.Dirichlet.ln_pp_cache_nat_Categorical,
    Gen.Dirichlet.ln_pp_with_cache_nat_Categorical, Dir_post_stat pr S hne hpos hS, Gen.Dirichlet.get_alphas,
    idxR, R.sub_val, R.ln_val, foldl_add_val_id, lit0, zero_add]

theorem postAlphas_sum (as cs : List R) (h : as.length = cs.length) :
    ((postAlphas as cs).map R.val).sum = (as.map R.val).sum + (cs.map R.val).sum := by
  rw [← zsum_add as cs h]
  simp [postAlphas, List.map_map, Function.comp_def]

theorem alphas_sum_pos (as : List R) (hne : as ≠ []) (hpos : ∀ a ∈ as, 0 < a.val) : 0 < (as.map R.val).sum :=
  sum_pos_of_pos as hne hpos

/-- posterior concentration parameters `α + cᵢ` -/
noncomputable abbrev symPost (α : R) (cs : List R) : List R := cs.map (fun c => α + c)

theorem symPost_pos (α : R) (cs : List R) (hα : 0 < α.val) (hc : ∀ c ∈ cs, 0 ≤ c.val) :
    ∀ a ∈ symPost α cs, 0 < a.val := by
  intro a ha
  simp only [symPost, List.mem_map] at ha
  obtain ⟨c, hm, rfl⟩ := ha
  simp only [R.add_val]
  linarith [hc c hm]

theorem symPost_ne_nil (α : R) (cs : List R) (K : Nat) (hK : 0 < K) (hl : cs.length = K) : symPost α cs ≠ [] := by
  cases cs with
  | nil => simp at hl; omega
  | cons c cs => simp [symPost]

-- @site SymmetricDirichlet.posterior_nat_Categorical
theorem SymDir_post_stat (pr : Gen.SymmetricDirichlet R) (S : CStat) (hα : 0 < pr.alpha.val) (hK : 0 < pr.k)
    (hS : CatInv pr.k S) :
    Gen.SymmetricDirichlet.posterior_nat_Categorical pr (.suffStat S) = ⟨symPost pr.alpha S.counts⟩ := by
  have h := Dirichlet_new_ok (symPost pr.alpha S.counts) (symPost_ne_nil _ _ _ hK hS.1)
    (symPost_pos _ _ hα hS.2.1)
  simp only [symPost] at h
  simp only [Gen.SymmetricDirichlet.posterior_nat_Categorical, Gen.SymmetricDirichlet.get_alpha,
    Gen.CategoricalSuffStat.get_counts, h]

-- @site SymmetricDirichlet.ln_m_with_cache_nat_Categorical
theorem SymDir_ln_m_val (pr : Gen.SymmetricDirichlet R) (S : CStat) :
    (Gen.SymmetricDirichlet.ln_m_nat_Categorical pr (.suffStat S)).val
      = -Real.log (Real.Gamma (pr.alpha.val * (pr.k : ℝ) + (S.n : ℝ)))
        + (S.counts.map (fun c => Real.log (Real.Gamma (pr.alpha.val + c.val)))).sum
        + (Real.log (Real.Gamma (pr.alpha.val * (pr.k : ℝ))) - Real.log (Real.Gamma pr.alpha.val) * (pr.k : ℝ)) := by
  simp only [Gen.SymmetricDirichlet.ln_m_nat_Categorical, Gen.SymmetricDirichlet.ln_m_with_cache_nat_Categorical,
    Gen.SymmetricDirichlet.ln_m_cache_nat_Categorical, Gen.SymmetricDirichlet.get_alpha, Gen.SymmetricDirichlet.get_k,
    Gen.CategoricalSuffStat.get_n, Gen.CategoricalSuffStat.get_counts, R.add_val, R.neg_val, R.sub_val, R.mul_val,
    R.lgamma_val, R.ofNatR_val, foldl_add_val, lit0, zero_add]

-- @site SymmetricDirichlet.ln_pp_with_cache_nat_Categorical
theorem SymDir_ln_pp_val (pr : Gen.SymmetricDirichlet R) (S : CStat) (y : Nat) (hα : 0 < pr.alpha.val)
    (hK : 0 < pr.k) (hS : CatInv pr.k S) :
    (Gen.SymmetricDirichlet.ln_pp_nat_Categorical pr y (.suffStat S)).val
      = Real.log ((symPost pr.alpha S.counts).getD y RealLike.nan).val
        - Real.log ((symPost pr.alpha S.counts).map R.val).sum := by
  simp only [Gen.SymmetricDirichlet.ln_pp_nat_Categorical, Gen.SymmetricDirichlet.ln_pp_cache_nat_Categorical,
    Gen.SymmetricDirichlet.ln_pp_with_cache_nat_Categorical, SymDir_post_stat pr S hα hK hS, Gen.Dirichlet.get_alphas,
    idxR, R.sub_val, R.ln_val, foldl_add_val_id, lit0, zero_add]

-- @site BernoulliSuffStat.observe_nat
theorem bern_fold_nat_eq_bool (xs : List Nat) (s : BStat) :
    xs.foldl Gen.BernoulliSuffStat.observe_nat s = (xs.map (· == 1)).foldl Gen.BernoulliSuffStat.observe_bool s := by
  rw [List.foldl_map]; rfl

/-! ### model-level helpers for Props/C06B -/

abbrev GStat := Gen.GaussianSuffStat R
noncomputable abbrev gfold (xs : List R) : GStat := xs.foldl Gen.GaussianSuffStat.observe_real Gen.GaussianSuffStat.new

-- @site GaussianSuffStat.observe_real
theorem gfold_append (xs : List R) (y : R) : gfold (xs ++ [y]) = Gen.GaussianSuffStat.observe_real (gfold xs) y := by
  simp [gfold, List.foldl_append]

-- @site ln_z_normal_gamma
theorem ln_z_normal_gamma_val (r s v : R) : (Gen.ln_z_normal_gamma r s v).val = lnzNG r.val s.val v.val := by
  simp only [Gen.ln_z_normal_gamma, lnzNG, mulAdd, R.add_val, R.sub_val, R.mul_val, R.neg_val, R.ln_val,
    R.lgamma_val, R.ln2_val, R.halfLnPi_val, lit05]
  ring

-- @site GaussianSuffStat.observe_real
theorem GaussStat_obs_sx_nonneg (S : GStat) (y : R) (hsx : 0 ≤ S.sx.val) :
    0 ≤ (Gen.GaussianSuffStat.observe_real S y).sx.val := by
  have h1 : (0:ℝ) < (S.n : ℝ) + 1 := by positivity
  have e : (Gen.GaussianSuffStat.observe_real S y).sx.val
      = S.sx.val + (y.val - S.mean.val) ^ 2 * (S.n : ℝ) / ((S.n : ℝ) + 1) := by
    simp only [Gen.GaussianSuffStat.observe_real, mulAdd, RealLike.recip, R.add_val, R.sub_val, R.mul_val, R.div_val,
      R.ofNatR_val, lit1, Nat.cast_add, Nat.cast_one]
    field_simp
    ring
  rw [e]; positivity

/-- closed form of the NormalGamma posterior hyper-parameters on a statistic `(n, mean, sx)` -/
-- @site posterior_from_stat_normal_gamma
theorem NG_post_vals (pr : Gen.NormalGamma R) (S : GStat) (hr : 0 < pr.r.val) (hs : 0 < pr.s.val) (hv : 0 < pr.v.val)
    (hsx : 0 ≤ S.sx.val) :
    (Gen.posterior_from_stat_normal_gamma pr S).r.val = pr.r.val + (S.n : ℝ)
    ∧ (Gen.posterior_from_stat_normal_gamma pr S).v.val = pr.v.val + (S.n : ℝ)
    ∧ (Gen.posterior_from_stat_normal_gamma pr S).m.val
        = (pr.m.val * pr.r.val + S.mean.val * (S.n : ℝ)) / (pr.r.val + (S.n : ℝ))
    ∧ (Gen.posterior_from_stat_normal_gamma pr S).s.val
        = pr.s.val + S.sx.val + pr.r.val * (S.n : ℝ) * (S.mean.val - pr.m.val) ^ 2 / (pr.r.val + (S.n : ℝ)) := by
  have hrn : 0 < pr.r.val + (S.n : ℝ) := by positivity
  have hrn' := hrn.ne'
  simp only [Gen.posterior_from_stat_normal_gamma, Gen.NormalGamma.get_r, Gen.NormalGamma.get_s, Gen.NormalGamma.get_v,
    Gen.NormalGamma.get_m, Gen.GaussianSuffStat.get_n, Gen.GaussianSuffStat.sum_x, Gen.GaussianSuffStat.sum_x_sq,
    Gen.GaussianSuffStat.get_mean]
  rw [NormalGamma_new_ok]
  · refine ⟨?_, ?_, ?_, ?_⟩ <;>
      simp only [mulAdd, R.add_val, R.sub_val, R.mul_val, R.div_val, R.neg_val, R.ofNatR_val] <;> field_simp <;> ring
  · simp only [R.add_val, R.ofNatR_val]; exact hrn
  · have hpos : 0 < pr.s.val + S.sx.val + pr.r.val * (S.n : ℝ) * (S.mean.val - pr.m.val) ^ 2 / (pr.r.val + (S.n : ℝ)) := by
      positivity
    convert hpos using 1
    simp only [mulAdd, R.add_val, R.sub_val, R.mul_val, R.div_val, R.neg_val, R.ofNatR_val]
    field_simp
    ring
  · simp only [R.add_val, R.ofNatR_val]; positivity

-- @site posterior_from_stat_normal_inv_gamma
theorem NIG_post_new (pr : Gen.NormalInvGamma R) (hv : 0 < pr.v.val) (ha : 0 < pr.a.val) (hb : 0 < pr.b.val) :
    (Gen.posterior_from_stat_normal_inv_gamma pr Gen.GaussianSuffStat.new).v.val = pr.v.val
    ∧ (Gen.posterior_from_stat_normal_inv_gamma pr Gen.GaussianSuffStat.new).a.val = pr.a.val
    ∧ (Gen.posterior_from_stat_normal_inv_gamma pr Gen.GaussianSuffStat.new).b.val = pr.b.val := by
  have hv' := hv.ne'
  simp only [Gen.posterior_from_stat_normal_inv_gamma,
    Gen.NormalInvGamma.emit_params, Gen.NormalInvGamma.get_m, Gen.NormalInvGamma.get_v, Gen.NormalInvGamma.get_a,
    Gen.NormalInvGamma.get_b,
    Gen.GaussianSuffStat.get_n, Gen.GaussianSuffStat.sum_x, Gen.GaussianSuffStat.sum_x_sq,
    Gen.GaussianSuffStat.get_mean, Gen.GaussianSuffStat.new]
  rw [NormalInvGamma_new_ok]
  · refine ⟨?_, ?_, ?_⟩ <;>
      simp only [mulAdd, RealLike.recip, R.add_val, R.sub_val, R.mul_val, R.div_val, R.neg_val, R.ofNatR_val, lit0,
        lit05, lit1, Nat.cast_zero] <;> field_simp <;> ring
  · simp only [RealLike.recip, R.add_val, R.div_val, R.ofNatR_val, lit1, Nat.cast_zero, add_zero]; positivity
  · simp only [mulAdd, R.add_val, R.mul_val, R.ofNatR_val, Nat.cast_zero, zero_mul, zero_add]; exact ha
  · convert hb using 1
    simp only [mulAdd, RealLike.recip, R.add_val, R.sub_val, R.mul_val, R.div_val, R.neg_val, R.ofNatR_val, lit0,
      lit05, lit1, Nat.cast_zero]
    field_simp
    ring

-- @site ln_z_normal_inv_gamma
theorem ln_z_normal_inv_gamma_val (v a b : R) : (Gen.ln_z_normal_inv_gamma v a b).val = lnzNIG v.val a.val b.val := by
  simp only [Gen.ln_z_normal_inv_gamma, lnzNIG, mulAdd, R.add_val, R.sub_val, R.mul_val, R.neg_val, R.ln_val,
    R.lgamma_val, lit05]
  ring

/-- closed form of the NormalInvGamma posterior hyper-parameters on a statistic `(n, mean, sx)` -/
-- @site posterior_from_stat_normal_inv_gamma
theorem NIG_post_vals (pr : Gen.NormalInvGamma R) (S : GStat) (hv : 0 < pr.v.val) (ha : 0 < pr.a.val)
    (hb : 0 < pr.b.val) (hsx : 0 ≤ S.sx.val) :
    (Gen.posterior_from_stat_normal_inv_gamma pr S).v.val = pr.v.val / (1 + (S.n : ℝ) * pr.v.val)
    ∧ (Gen.posterior_from_stat_normal_inv_gamma pr S).a.val = pr.a.val + (S.n : ℝ) / 2
    ∧ (Gen.posterior_from_stat_normal_inv_gamma pr S).m.val
        = (pr.m.val + S.mean.val * (S.n : ℝ) * pr.v.val) / (1 + (S.n : ℝ) * pr.v.val)
    ∧ (Gen.posterior_from_stat_normal_inv_gamma pr S).b.val
        = pr.b.val + (S.sx.val + (S.n : ℝ) * (S.mean.val - pr.m.val) ^ 2 / (1 + (S.n : ℝ) * pr.v.val)) / 2 := by
  have hv' := hv.ne'
  have h1 : 0 < 1 + (S.n : ℝ) * pr.v.val := by positivity
  have h1' := h1.ne'
  have h2 : 0 < 1 / pr.v.val + (S.n : ℝ) := by positivity
  have h2' := h2.ne'
  simp only [Gen.posterior_from_stat_normal_inv_gamma,
    Gen.NormalInvGamma.emit_params, Gen.NormalInvGamma.get_m, Gen.NormalInvGamma.get_v, Gen.NormalInvGamma.get_a,
    Gen.NormalInvGamma.get_b,
    Gen.GaussianSuffStat.get_n, Gen.GaussianSuffStat.sum_x, Gen.GaussianSuffStat.sum_x_sq,
    Gen.GaussianSuffStat.get_mean]
  rw [NormalInvGamma_new_ok]
  · refine ⟨?_, ?_, ?_, ?_⟩ <;>
      simp only [mulAdd, RealLike.recip, R.add_val, R.sub_val, R.mul_val, R.div_val, R.neg_val, R.ofNatR_val,
        lit05, lit1] <;> field_simp <;> ring
  · simp only [RealLike.recip, R.add_val, R.div_val, R.ofNatR_val, lit1]; positivity
  · simp only [mulAdd, R.add_val, R.mul_val, R.ofNatR_val, lit05]; positivity
  · have hpos : 0 < pr.b.val
        + (S.sx.val + (S.n : ℝ) * (S.mean.val - pr.m.val) ^ 2 / (1 + (S.n : ℝ) * pr.v.val)) / 2 := by positivity
    convert hpos using 1
    simp only [mulAdd, RealLike.recip, R.add_val, R.sub_val, R.mul_val, R.div_val, R.neg_val, R.ofNatR_val,
      lit05, lit1]
    field_simp
    ring

-- @site NormalInvChiSquared.ln_z
theorem NIX_ln_z_val (p : Gen.NormalInvChiSquared R) :
    (Gen.NormalInvChiSquared.ln_z p).val = lnzNIX p.k.val p.v.val p.s2.val := by
  simp only [Gen.NormalInvChiSquared.ln_z, lnzNIX, mulAdd, R.add_val, R.sub_val, R.mul_val, R.neg_val, R.ln_val,
    R.lgamma_val, lit05]

/-- closed form of the NormalInvChiSquared posterior hyper-parameters on a statistic `(n, mean, sx)`; the code returns
    the prior unchanged when `n = 0`, which agrees with the closed form iff the empty statistic has `sx = 0` -/
-- @site posterior_from_stat_normal_inv_chi_squared
theorem NIX_post_vals (pr : Gen.NormalInvChiSquared R) (S : GStat) (hk : 0 < pr.k.val) (hv : 0 < pr.v.val)
    (hs : 0 < pr.s2.val) (hsx : 0 ≤ S.sx.val) (hsx0 : S.n = 0 → S.sx.val = 0) :
    (Gen.posterior_from_stat_normal_inv_chi_squared pr S).k.val = pr.k.val + (S.n : ℝ)
    ∧ (Gen.posterior_from_stat_normal_inv_chi_squared pr S).v.val = pr.v.val + (S.n : ℝ)
    ∧ (Gen.posterior_from_stat_normal_inv_chi_squared pr S).m.val
        = (pr.k.val * pr.m.val + S.mean.val * (S.n : ℝ)) / (pr.k.val + (S.n : ℝ))
    ∧ (Gen.posterior_from_stat_normal_inv_chi_squared pr S).s2.val
        = (pr.v.val * pr.s2.val + S.sx.val
            + (S.n : ℝ) * pr.k.val * (pr.m.val - S.mean.val) ^ 2 / (pr.k.val + (S.n : ℝ))) / (pr.v.val + (S.n : ℝ)) := by
  have hk' := hk.ne'
  have hv' := hv.ne'
  by_cases hn : S.n = 0
  · have e : Gen.posterior_from_stat_normal_inv_chi_squared pr S = pr := by
      simp [Gen.posterior_from_stat_normal_inv_chi_squared, Gen.GaussianSuffStat.get_n, hn]
    rw [e, hn, hsx0 hn]
    refine ⟨by simp, by simp, ?_, ?_⟩
    · simp only [Nat.cast_zero, mul_zero, add_zero] <;> field_simp
    · simp only [Nat.cast_zero, zero_mul, zero_div, add_zero] <;> field_simp
  · have hkn : 0 < pr.k.val + (S.n : ℝ) := by positivity
    have hvn : 0 < pr.v.val + (S.n : ℝ) := by positivity
    have hkn' := hkn.ne'
    have hvn' := hvn.ne'
    have hb : ((S.n == 0) = false) := by simpa using hn
    simp only [Gen.posterior_from_stat_normal_inv_chi_squared, Gen.NormalInvChiSquared.params,
      Gen.GaussianSuffStat.get_n, Gen.GaussianSuffStat.sum_x_sq, Gen.GaussianSuffStat.get_mean, hb, Bool.false_eq_true,
      if_false]
    rw [NormalInvChiSquared_new_ok]
    · refine ⟨?_, ?_, ?_, ?_⟩ <;>
        simp only [mulAdd, RealLike.recip, R.add_val, R.sub_val, R.mul_val, R.div_val, R.neg_val, R.ofNatR_val,
          lit1] <;> field_simp <;> ring
    · simp only [R.add_val, R.ofNatR_val]; exact hkn
    · simp only [R.add_val, R.ofNatR_val]; exact hvn
    · have hpos : 0 < (pr.v.val * pr.s2.val + S.sx.val
          + (S.n : ℝ) * pr.k.val * (pr.m.val - S.mean.val) ^ 2 / (pr.k.val + (S.n : ℝ))) / (pr.v.val + (S.n : ℝ)) := by
        positivity
      convert hpos using 1
      simp only [mulAdd, RealLike.recip, R.add_val, R.sub_val, R.mul_val, R.div_val, R.neg_val, R.ofNatR_val, lit1]
      field_simp
      ring

-- @site GaussianSuffStat.observe_real
theorem GaussStat_fold_valid (xs : List R) (s : GStat) (h : 0 ≤ s.sx.val ∧ (s.n = 0 → s.sx.val = 0)) :
    0 ≤ (xs.foldl Gen.GaussianSuffStat.observe_real s).sx.val
    ∧ ((xs.foldl Gen.GaussianSuffStat.observe_real s).n = 0 → (xs.foldl Gen.GaussianSuffStat.observe_real s).sx.val = 0) := by
  induction xs generalizing s with
  | nil => simpa using h
  | cons x xs ih =>
    rw [List.foldl_cons]
    exact ih _ ⟨GaussStat_obs_sx_nonneg s x h.1, by intro h0; simp [Gen.GaussianSuffStat.observe_real] at h0⟩

-- @site GaussianSuffStat.observe_real
theorem gfold_valid (xs : List R) : 0 ≤ (gfold xs).sx.val ∧ ((gfold xs).n = 0 → (gfold xs).sx.val = 0) :=
  GaussStat_fold_valid xs _ (by simp only [Gen.GaussianSuffStat.new, lit0]; exact ⟨le_refl _, fun _ => trivial⟩)

end C06L
