import RvModel.RealInst
import RvModel.Gen.Defs
import RvModel.Lemmas.Erf
import Mathlib.Analysis.SpecialFunctions.ExpDeriv
import Mathlib.Analysis.SpecialFunctions.Pow.Deriv
import Mathlib.Analysis.SpecialFunctions.Log.Deriv
import Mathlib.Algebra.BigOperators.Group.Finset.Basic
import Mathlib.Data.List.GetD
/-!
  Lemmas.C03 — helper lemmas for the C03 (CDF) theorems: values of float literals on `R`, and the generated
  closed-form CDFs unfolded to plain real expressions (`…_cdf_eq`).  No property theorems here.
-/
open Real

namespace C03

@[simp] theorem one_val : ((1.0 : R)).val = 1 := by simp only [R.sci_val]; norm_num
@[simp] theorem zero_val : ((0.0 : R)).val = 0 := by simp only [R.sci_val]; norm_num
@[simp] theorem half_val : ((0.5 : R)).val = 1 / 2 := by simp only [R.sci_val]; norm_num
@[simp] theorem two_val : ((2.0 : R)).val = 2 := by simp only [R.sci_val]; norm_num

theorem Exponential_cdf_eq (d : Gen.Exponential R) (t : ℝ) :
    (Gen.Exponential.cdf_real d ⟨t⟩).val = 1 - Real.exp (-d.rate.val * t) := by
  simp only [Gen.Exponential.cdf_real, R.sub_val, R.mul_val, R.neg_val, R.exp_val, one_val]

theorem Uniform_cdf_eq (d : Gen.Uniform R) (t : ℝ) :
    (Gen.Uniform.cdf_real d ⟨t⟩).val =
      if t < d.a.val then 0 else if d.b.val ≤ t then 1 else (t - d.a.val) / (d.b.val - d.a.val) := by
  simp only [Gen.Uniform.cdf_real, RealLike.ge, R.lt_iff, R.le_iff]
  split_ifs <;> simp only [R.sub_val, R.div_val, one_val, zero_val]

theorem Cauchy_cdf_eq (d : Gen.Cauchy R) (t : ℝ) :
    (Gen.Cauchy.cdf_real d ⟨t⟩).val = 1 / π * Real.arctan ((t - d.loc.val) / d.scale.val) + 1 / 2 := by
  simp only [Gen.Cauchy.cdf_real, mulAdd, R.add_val, R.mul_val, R.sub_val, R.div_val, R.atan_val,
    R.frac1Pi_val, half_val]

theorem Laplace_cdf_eq (d : Gen.Laplace R) (t : ℝ) :
    (Gen.Laplace.cdf_real d ⟨t⟩).val =
      if t < d.mu.val then 1 / 2 * Real.exp ((t - d.mu.val) / d.b.val)
      else 1 - 1 / 2 * Real.exp (-(t - d.mu.val) / d.b.val) := by
  simp only [Gen.Laplace.cdf_real, mulAdd, R.lt_iff]
  split_ifs
  · simp only [R.mul_val, R.exp_val, R.div_val, R.sub_val, half_val]
  · simp only [R.add_val, R.mul_val, R.exp_val, R.div_val, R.sub_val, R.neg_val, half_val, one_val]; ring

theorem Kumaraswamy_cdf_eq (d : Gen.Kumaraswamy R) (t : ℝ) :
    (Gen.Kumaraswamy.cdf_real d ⟨t⟩).val = 1 - (1 - t ^ d.a.val) ^ d.b.val := by
  simp only [Gen.Kumaraswamy.cdf_real, R.sub_val, R.powf_val, one_val]

theorem UnitPowerLaw_cdf_eq (d : Gen.UnitPowerLaw R) (t : ℝ) :
    (Gen.UnitPowerLaw.cdf_real d ⟨t⟩).val = t ^ d.alpha.val := by
  simp only [Gen.UnitPowerLaw.cdf_real, R.powf_val]

theorem Pareto_cdf_eq (d : Gen.Pareto R) (t : ℝ) :
    (Gen.Pareto.cdf_real d ⟨t⟩).val = 1 - (d.scale.val / t) ^ d.shape.val := by
  simp only [Gen.Pareto.cdf_real, R.sub_val, R.powf_val, R.div_val, one_val]

theorem Gev_cdf_eq0 (d : Gen.Gev R) (t : ℝ) (hs : d.shape.val = 0) :
    (Gen.Gev.cdf_real d ⟨t⟩).val = Real.exp (-Real.exp ((d.loc.val - t) / d.scale.val)) := by
  simp only [Gen.Gev.cdf_real, Gen.t, R.feq_iff, zero_val, hs, if_true, R.exp_val, R.neg_val, R.div_val,
    R.sub_val]

theorem Gev_cdf_eq1 (d : Gen.Gev R) (t : ℝ) (hs : d.shape.val ≠ 0) :
    (Gen.Gev.cdf_real d ⟨t⟩).val =
      Real.exp (-(1 + d.shape.val * (t - d.loc.val) / d.scale.val) ^ (-1 / d.shape.val)) := by
  simp only [Gen.Gev.cdf_real, Gen.t, R.feq_iff, zero_val, hs, if_false, R.exp_val, R.neg_val, R.div_val,
    R.sub_val, R.powf_val, R.add_val, R.mul_val, one_val]

/-- `log1pexp` is exact (`= log (1 + exp z)`) on the middle branch `-37 < z ≤ 18` -/
theorem log1pexp_val (z : R) (h1 : -37 < z.val) (h2 : z.val ≤ 18) :
    (Gen.log1pexp z).val = Real.log (1 + Real.exp z.val) := by
  have e37 : ((37.0 : R)).val = 37 := by simp only [R.sci_val]; norm_num
  have e18 : ((18.0 : R)).val = 18 := by simp only [R.sci_val]; norm_num
  have h1' : ¬ z.val ≤ -37 := not_le.mpr h1
  simp only [Gen.log1pexp, R.le_iff, R.neg_val, e37, e18, h1', h2, if_true, if_false, R.ln1p_val, R.exp_val]

/-! special-function CDFs unfolded -/

theorem InvGamma_cdf_eq (d : Gen.InvGamma R) (t : ℝ) :
    (Gen.InvGamma.cdf_real d ⟨t⟩).val = 1 - R.incGammaR (d.scale.val / t) d.shape.val := by
  simp only [Gen.InvGamma.cdf_real, R.incGamma_val, R.div_val, R.sub_val, one_val]

theorem InvChiSquared_cdf_eq (d : Gen.InvChiSquared R) (t : ℝ) :
    (Gen.InvChiSquared.cdf_real d ⟨t⟩).val = 1 - R.incGammaR ((1 / 2) / t) (d.v.val / 2) := by
  simp only [Gen.InvChiSquared.cdf_real, RealLike.recip, R.incGamma_val, R.div_val, R.sub_val, R.mul_val,
    one_val, two_val]
  rw [div_div]

theorem ScaledInvChiSquared_cdf_eq (d : Gen.ScaledInvChiSquared R) (t : ℝ) :
    (Gen.ScaledInvChiSquared.cdf_real d ⟨t⟩).val =
      1 - R.incGammaR ((d.v.val * d.t2.val / 2) / t) (d.v.val / 2) := by
  simp only [Gen.ScaledInvChiSquared.cdf_real, R.incGamma_val, R.div_val, R.sub_val, R.mul_val, one_val, two_val]
  rw [div_div]

theorem Gaussian_cdf_eq (d : Gen.Gaussian R) (t : ℝ) :
    (Gen.Gaussian.cdf_real d ⟨t⟩).val = 1 / 2 * (1 + R.erfR ((t - d.mu.val) / (d.sigma.val * Real.sqrt 2))) := by
  simp only [Gen.Gaussian.cdf_real, ErfL.erfc_neg_val, R.erf_val, R.div_val, R.sub_val, R.mul_val, R.add_val, R.sqrt2_val,
    one_val, half_val]

theorem LogNormal_cdf_eq (d : Gen.LogNormal R) (t : ℝ) :
    (Gen.LogNormal.cdf_real d ⟨t⟩).val =
      1 / 2 * R.erfR ((Real.log t - d.mu.val) / (Real.sqrt 2 * d.sigma.val)) + 1 / 2 := by
  simp only [Gen.LogNormal.cdf_real, mulAdd, R.erf_val, R.div_val, R.sub_val, R.mul_val, R.add_val,
    R.sqrt2_val, R.ln_val, half_val]

/-! list folds read on `R` -/

/-- fold of `acc + f x` over a list, read on `R` -/
theorem foldl_add_val {β : Type} (f : β → R) (l : List β) (acc : R) :
    (l.foldl (fun a x => a + f x) acc).val = acc.val + (l.map (fun x => (f x).val)).sum := by
  induction l generalizing acc with
  | nil => simp
  | cons x xs ih => simp [List.foldl, ih, add_assoc]

/-- fold of `f x + acc` over a list, read on `R` -/
theorem foldl_add_val' {β : Type} (f : β → R) (l : List β) (acc : R) :
    (l.foldl (fun a x => f x + a) acc).val = acc.val + (l.map (fun x => (f x).val)).sum := by
  induction l generalizing acc with
  | nil => simp
  | cons x xs ih => simp [List.foldl, ih]; ring

theorem list_range_map_sum (g : ℕ → ℝ) (n : ℕ) : ((List.range n).map g).sum = ∑ j ∈ Finset.range n, g j := by
  induction n with
  | zero => simp
  | succ n ih => rw [List.range_succ, List.map_append, List.sum_append, ih, Finset.sum_range_succ]; simp

theorem take_map_sum (l : List R) (g : R → ℝ) (dflt : R) (n : ℕ) (hn : n ≤ l.length) :
    ((l.take n).map g).sum = ∑ j ∈ Finset.range n, g (l.getD j dflt) := by
  induction n with
  | zero => simp
  | succ n ih =>
    have hlt : n < l.length := hn
    rw [List.take_succ_eq_append_getElem hlt, List.map_append, List.sum_append, ih (le_of_lt hlt),
      Finset.sum_range_succ, List.getD_eq_getElem (l := l) (d := dflt) hlt]
    simp

end C03
