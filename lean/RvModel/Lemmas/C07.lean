import RvModel.RealInst
import RvModel.Prelude
import Mathlib.Algebra.BigOperators.Group.List.Basic
import Mathlib.Data.List.Perm.Basic
import Mathlib.Data.List.Count
import Mathlib.Tactic.FieldSimp
import Mathlib.Tactic.Ring
import Mathlib.Tactic.Linarith
/-!
  Helper lemmas for C07 (sufficient statistics): generic "history of operations" machinery, the generic
  refinement argument, and list-sum algebra (erase, permutation, squared deviations, `prodL`).
  No property theorem lives here (those are in Props/C07A.lean, Props/C07B.lean).
-/

namespace C07

/-- one mutation of a sufficient statistic through the `SuffStat<X>` trait -/
inductive Op (X : Type) where
  | observe (x : X)
  | forget (x : X)
  | observeMany (xs : List X)
  | forgetMany (xs : List X)

/-- the four state-passing entry points of one generated statistic -/
structure Iface (S X : Type) where
  observe : S → X → S
  forget : S → X → S
  observeMany : S → List X → S
  forgetMany : S → List X → S

namespace Iface
variable {S X : Type}
def step (I : Iface S X) (s : S) : Op X → S
  | .observe x => I.observe s x
  | .forget x => I.forget s x
  | .observeMany xs => I.observeMany s xs
  | .forgetMany xs => I.forgetMany s xs
/-- run a history, left to right -/
def run (I : Iface S X) (s : S) (ops : List (Op X)) : S := ops.foldl I.step s
end Iface

section Hist
variable {S X D : Type} [DecidableEq D]

/-- remove the items of `xs` one at a time -/
def eraseL (d xs : List D) : List D := xs.foldl (fun d x => d.erase x) d
/-- add the items of `xs` one at a time -/
def pushL (d xs : List D) : List D := xs.foldl (fun d x => x :: d) d
/-- every item of `xs` is present (with multiplicity) when its turn comes -/
def canForget : List D → List D → Prop
  | _, [] => True
  | d, x :: xs => x ∈ d ∧ canForget (d.erase x) xs

@[simp] theorem eraseL_nil (d : List D) : eraseL d [] = d := rfl
@[simp] theorem eraseL_cons (d : List D) (x : D) (xs : List D) : eraseL d (x :: xs) = eraseL (d.erase x) xs := rfl
omit [DecidableEq D] in
@[simp] theorem pushL_nil (d : List D) : pushL d [] = d := rfl
omit [DecidableEq D] in
@[simp] theorem pushL_cons (d : List D) (x : D) (xs : List D) : pushL d (x :: xs) = pushL (x :: d) xs := rfl

omit [DecidableEq D] in
theorem pushL_perm (d xs : List D) : (pushL d xs).Perm (xs ++ d) := by
  induction xs generalizing d with
  | nil => simp
  | cons x xs ih =>
    simp only [pushL_cons, List.cons_append]
    exact (ih (x :: d)).trans (List.perm_middle)

theorem canForget_of_perm : ∀ (xs d : List D), xs.Perm d → canForget d xs ∧ eraseL d xs = []
  | [], d, h => by
    have : d = [] := List.Perm.eq_nil h.symm
    simp [canForget, this]
  | x :: xs, d, h => by
    have hx : x ∈ d := h.subset (List.mem_cons_self)
    have h' : xs.Perm (d.erase x) := List.Perm.cons_inv (h.trans (List.perm_cons_erase hx))
    have := canForget_of_perm xs (d.erase x) h'
    exact ⟨⟨hx, this.1⟩, by simpa using this.2⟩

/-- the data held after one operation (`emb` maps an observation to the datum it stands for) -/
def dataStep (emb : X → D) (d : List D) : Op X → List D
  | .observe x => emb x :: d
  | .forget x => d.erase (emb x)
  | .observeMany xs => pushL d (xs.map emb)
  | .forgetMany xs => eraseL d (xs.map emb)

/-- an operation is legal: observations are admissible (`P`) and nothing absent is forgotten -/
def legalStep (emb : X → D) (P : X → Prop) (d : List D) : Op X → Prop
  | .observe x => P x
  | .forget x => P x ∧ emb x ∈ d
  | .observeMany xs => ∀ x ∈ xs, P x
  | .forgetMany xs => (∀ x ∈ xs, P x) ∧ canForget d (xs.map emb)

def legal (emb : X → D) (P : X → Prop) : List D → List (Op X) → Prop
  | _, [] => True
  | d, op :: ops => legalStep emb P d op ∧ legal emb P (dataStep emb d op) ops

/-- the data remaining after a history -/
def dataAfter (emb : X → D) (d : List D) (ops : List (Op X)) : List D := ops.foldl (dataStep emb) d

/-- The statistic `S` with entry points `I` refines "a finite multiset of data" through `Abs`. -/
structure Refines (I : Iface S X) (emb : X → D) (P : X → Prop) (Abs : S → List D → Prop) (new : S) : Prop where
  abs_new : Abs new []
  abs_observe : ∀ s d x, P x → Abs s d → Abs (I.observe s x) (emb x :: d)
  abs_forget : ∀ s d x, P x → Abs s d → emb x ∈ d → Abs (I.forget s x) (d.erase (emb x))
  abs_observeMany : ∀ s d xs, (∀ x ∈ xs, P x) → Abs s d → Abs (I.observeMany s xs) (pushL d (xs.map emb))
  abs_forgetMany : ∀ s d xs, (∀ x ∈ xs, P x) → Abs s d → canForget d (xs.map emb) →
      Abs (I.forgetMany s xs) (eraseL d (xs.map emb))
  abs_perm : ∀ s d d', Abs s d → d.Perm d' → Abs s d'
  abs_unique : ∀ s s' d, Abs s d → Abs s' d → s = s'

omit [DecidableEq D] in
/-- folding single observations tracks `pushL` -/
theorem foldl_observe {obs : S → X → S} {emb : X → D} {P : X → Prop} {Abs : S → List D → Prop}
    (h : ∀ s d x, P x → Abs s d → Abs (obs s x) (emb x :: d)) :
    ∀ (xs : List X) (s : S) (d : List D), (∀ x ∈ xs, P x) → Abs s d →
      Abs (xs.foldl obs s) (pushL d (xs.map emb))
  | [], _, _, _, ha => ha
  | x :: xs, s, d, hp, ha => by
    simp only [List.foldl_cons, List.map_cons, pushL_cons]
    exact foldl_observe h xs _ _ (fun y hy => hp y (List.mem_cons_of_mem _ hy))
      (h s d x (hp x List.mem_cons_self) ha)

/-- folding single forgets tracks `eraseL` -/
theorem foldl_forget {fg : S → X → S} {emb : X → D} {P : X → Prop} {Abs : S → List D → Prop}
    (h : ∀ s d x, P x → Abs s d → emb x ∈ d → Abs (fg s x) (d.erase (emb x))) :
    ∀ (xs : List X) (s : S) (d : List D), (∀ x ∈ xs, P x) → Abs s d → canForget d (xs.map emb) →
      Abs (xs.foldl fg s) (eraseL d (xs.map emb))
  | [], _, _, _, ha, _ => ha
  | x :: xs, s, d, hp, ha, hc => by
    simp only [List.foldl_cons, List.map_cons, eraseL_cons]
    simp only [List.map_cons, canForget] at hc
    exact foldl_forget h xs _ _ (fun y hy => hp y (List.mem_cons_of_mem _ hy))
      (h s d x (hp x List.mem_cons_self) ha hc.1) hc.2

namespace Refines
variable {I : Iface S X} {emb : X → D} {P : X → Prop} {Abs : S → List D → Prop} {new : S}

theorem step (R : Refines I emb P Abs new) (s : S) (d : List D) (op : Op X) (ha : Abs s d)
    (hl : legalStep emb P d op) : Abs (I.step s op) (dataStep emb d op) := by
  cases op with
  | observe x => exact R.abs_observe s d x hl ha
  | forget x => exact R.abs_forget s d x hl.1 ha hl.2
  | observeMany xs => exact R.abs_observeMany s d xs hl ha
  | forgetMany xs => exact R.abs_forgetMany s d xs hl.1 ha hl.2

/-- every legal history ends in the abstraction of the remaining data -/
theorem history (R : Refines I emb P Abs new) : ∀ (ops : List (Op X)) (s : S) (d : List D), Abs s d →
    legal emb P d ops → Abs (I.run s ops) (dataAfter emb d ops)
  | [], _, _, ha, _ => ha
  | op :: ops, s, d, ha, hl => by
    simp only [Iface.run, dataAfter, List.foldl_cons]
    exact history R ops _ _ (R.step s d op ha hl.1) hl.2

theorem eq_of_perm (R : Refines I emb P Abs new) {s s' : S} {d d' : List D} (h : Abs s d) (h' : Abs s' d')
    (hp : d.Perm d') : s = s' := R.abs_unique s s' d' (R.abs_perm s d d' h hp) h'

/-- two legal histories from `new` that leave the same multiset of data give the same statistic -/
theorem history_indep (R : Refines I emb P Abs new) (ops ops' : List (Op X)) (hl : legal emb P [] ops)
    (hl' : legal emb P [] ops') (hp : (dataAfter emb [] ops).Perm (dataAfter emb [] ops')) :
    I.run new ops = I.run new ops' :=
  R.eq_of_perm (R.history ops new [] R.abs_new hl) (R.history ops' new [] R.abs_new hl') hp

/-- order independence of `observe_many` (= conversion from a slice) -/
theorem observeMany_perm (R : Refines I emb P Abs new) (xs ys : List X) (hx : ∀ x ∈ xs, P x)
    (hy : ∀ x ∈ ys, P x) (hp : (xs.map emb).Perm (ys.map emb)) : I.observeMany new xs = I.observeMany new ys :=
  R.eq_of_perm (R.abs_observeMany new [] xs hx R.abs_new) (R.abs_observeMany new [] ys hy R.abs_new)
    ((pushL_perm _ _).trans ((hp.append_right _).trans (pushL_perm _ _).symm))

/-- one-at-a-time, all-at-once and any split agree -/
theorem mix (R : Refines I emb P Abs new) (xs ys : List X) (hx : ∀ x ∈ xs, P x) (hy : ∀ x ∈ ys, P x) :
    I.observeMany (xs.foldl I.observe new) ys = I.observeMany new (xs ++ ys) ∧
    I.observeMany new (xs ++ ys) = (xs ++ ys).foldl I.observe new := by
  have hxy : ∀ x ∈ xs ++ ys, P x := by
    intro x h; rcases List.mem_append.1 h with h | h; exacts [hx x h, hy x h]
  have a1 := foldl_observe R.abs_observe xs new [] hx R.abs_new
  have a2 := R.abs_observeMany _ _ ys hy a1
  have a3 := R.abs_observeMany new [] (xs ++ ys) hxy R.abs_new
  have a4 := foldl_observe R.abs_observe (xs ++ ys) new [] hxy R.abs_new
  refine ⟨R.eq_of_perm a2 a3 ?_, R.eq_of_perm a3 a4 (List.Perm.refl _)⟩
  refine (pushL_perm _ _).trans (((pushL_perm _ _).append_left _).trans ?_)
  refine List.Perm.trans ?_ (pushL_perm _ _).symm
  simp only [List.map_append, List.append_nil]
  exact List.perm_append_comm

/-- `forget` undoes `observe` exactly on any state that is the statistic of some data -/
theorem forget_observe (R : Refines I emb P Abs new) (s : S) (d : List D) (x : X) (hP : P x) (ha : Abs s d) :
    I.forget (I.observe s x) x = s := by
  have h := R.abs_forget _ _ x hP (R.abs_observe s d x hP ha) List.mem_cons_self
  rw [List.erase_cons_head] at h
  exact R.abs_unique _ _ d h ha

/-- forgetting all the data, in any order and by either entry point, gives exactly `new` -/
theorem forget_all (R : Refines I emb P Abs new) (s : S) (d : List D) (xs : List X) (ha : Abs s d)
    (hx : ∀ x ∈ xs, P x) (hp : (xs.map emb).Perm d) :
    I.forgetMany s xs = new ∧ xs.foldl I.forget s = new := by
  have hc := canForget_of_perm (xs.map emb) d hp
  have a1 := R.abs_forgetMany s d xs hx ha hc.1
  have a2 := foldl_forget R.abs_forget xs s d hx ha hc.1
  rw [hc.2] at a1 a2
  exact ⟨R.abs_unique _ _ _ a1 R.abs_new, R.abs_unique _ _ _ a2 R.abs_new⟩

end Refines
end Hist

/-! ### list-sum algebra -/

theorem sum_map_erase {D : Type} [DecidableEq D] (f : D → ℝ) {a : D} {d : List D} (h : a ∈ d) :
    ((d.erase a).map f).sum = (d.map f).sum - f a := by
  have := ((List.perm_cons_erase h).map f).sum_eq
  simp only [List.map_cons, List.sum_cons] at this
  linarith

theorem length_erase_cast {D : Type} [DecidableEq D] {a : D} {d : List D} (h : a ∈ d) :
    ((d.erase a).length : ℝ) = (d.length : ℝ) - 1 := by
  have h1 := List.length_erase_of_mem h
  have h2 : 0 < d.length := List.length_pos_of_mem h
  rw [h1, Nat.cast_sub h2]; simp

theorem erase_eq_nil_of_length_le_one {D : Type} [DecidableEq D] {a : D} {d : List D} (h : a ∈ d)
    (hl : ¬ 1 < d.length) : d.erase a = [] := by
  apply List.eq_nil_of_length_eq_zero
  rw [List.length_erase_of_mem h]; omega

theorem length_eq_one_of_mem_of_not_lt {D : Type} {a : D} {d : List D} (h : a ∈ d) (hl : ¬ 1 < d.length) :
    d.length = 1 := by
  have := List.length_pos_of_mem h; omega

theorem length_eraseL {D : Type} [DecidableEq D] : ∀ (xs d : List D), canForget d xs →
    (eraseL d xs).length = d.length - xs.length
  | [], d, _ => by simp
  | x :: xs, d, h => by
    rw [eraseL_cons, length_eraseL xs _ h.2, List.length_erase_of_mem h.1, List.length_cons]; omega

theorem sum_map_eraseL {D : Type} [DecidableEq D] (f : D → ℝ) : ∀ (xs d : List D), canForget d xs →
    ((eraseL d xs).map f).sum = (d.map f).sum - (xs.map f).sum
  | [], d, _ => by simp
  | x :: xs, d, h => by
    rw [eraseL_cons, sum_map_eraseL f xs _ h.2, sum_map_erase f h.1, List.map_cons, List.sum_cons]; ring

theorem sum_map_perm {D : Type} (f : D → ℝ) {d d' : List D} (h : d.Perm d') : (d.map f).sum = (d'.map f).sum :=
  (h.map f).sum_eq

/-- Σ (y - c)² = Σ y² - 2 c Σ y + n c² -/
theorem sum_sq_dev (d : List ℝ) (c : ℝ) :
    (d.map (fun y => (y - c) ^ 2)).sum = (d.map (fun y => y ^ 2)).sum - 2 * c * d.sum + d.length * c ^ 2 := by
  induction d with
  | nil => simp
  | cons y ys ih => simp only [List.map_cons, List.sum_cons, List.length_cons, ih]; push_cast; ring

theorem sum_map_affine {D : Type} (d : List D) (f : D → ℝ) (a c : ℝ) :
    (d.map (fun y => a * f y + c)).sum = a * (d.map f).sum + d.length * c := by
  induction d with
  | nil => simp
  | cons y ys ih => simp only [List.map_cons, List.sum_cons, List.length_cons, ih]; push_cast; ring

/-- the list product helper over `R` is the real product -/
theorem prodL_val (xs : List R) : (prodL xs).val = (xs.map R.val).prod := by
  have : ∀ (acc : R) (l : List R), (l.foldl (· * ·) acc).val = acc.val * (l.map R.val).prod := by
    intro acc l
    induction l generalizing acc with
    | nil => simp
    | cons x xs ih => simp [List.foldl, ih, mul_assoc]
  simp [prodL, this]

/-- ln Π x = Σ ln x for non-zero factors -/
theorem log_prod_list (xs : List ℝ) (h : ∀ x ∈ xs, x ≠ 0) : Real.log xs.prod = (xs.map Real.log).sum := by
  induction xs with
  | nil => simp
  | cons x xs ih =>
    have hx : x ≠ 0 := h x List.mem_cons_self
    have hxs : ∀ y ∈ xs, y ≠ 0 := fun y hy => h y (List.mem_cons_of_mem _ hy)
    have hp : xs.prod ≠ 0 := List.prod_ne_zero (fun h0 => hxs 0 h0 rfl)
    simp only [List.prod_cons, List.map_cons, List.sum_cons, Real.log_mul hx hp, ih hxs]

/-! ### sample mean and squared deviations (Welford identities at the level of the data) -/

/-- sample mean, with the `0/0 = 0` convention that `GaussianSuffStat::new` uses for the empty data set -/
noncomputable def gmean (d : List ℝ) : ℝ := d.sum / d.length
/-- sum of squared deviations from the sample mean -/
noncomputable def gsx (d : List ℝ) : ℝ := (d.map (fun x => (x - gmean d) ^ 2)).sum

theorem gmean_mul_length (d : List ℝ) : gmean d * d.length = d.sum := by
  cases d with
  | nil => simp [gmean]
  | cons x xs =>
    have : ((x :: xs).length : ℝ) ≠ 0 := by simp; positivity
    simp only [gmean]; field_simp

theorem gsx_closed (d : List ℝ) :
    gsx d = (d.map (fun y => y ^ 2)).sum - d.length * gmean d ^ 2 := by
  rw [gsx, sum_sq_dev, ← gmean_mul_length d]; ring

theorem gmean_cons (x : ℝ) (d : List ℝ) :
    gmean (x :: d) = (x + gmean d * d.length) / (d.length + 1) := by
  rw [gmean_mul_length]; simp [gmean]

/-- Welford's identity (update) at the level of the data -/
theorem gsx_cons (x : ℝ) (d : List ℝ) :
    gsx (x :: d) = gsx d + (x - gmean d) * (x - gmean (x :: d)) := by
  have h : ((d.length : ℝ) + 1) ≠ 0 := by positivity
  rw [gsx_closed, gsx_closed d, gmean_cons]
  simp only [List.map_cons, List.sum_cons, List.length_cons]
  push_cast
  field_simp
  ring

theorem gmean_erase {x : ℝ} {d : List ℝ} (h : x ∈ d) (_hn : 1 < d.length) :
    gmean (d.erase x) = (d.length * gmean d - x) / (d.length - 1) := by
  have h1 := sum_map_erase (fun y => y) h
  simp only [List.map_id'] at h1
  rw [mul_comm, gmean_mul_length, gmean, h1, length_erase_cast h]

/-- Welford's identity (downdate) at the level of the data -/
theorem gsx_erase {x : ℝ} {d : List ℝ} (h : x ∈ d) (hn : 1 < d.length) :
    gsx (d.erase x) = gsx d - (x - gmean (d.erase x)) * (x - gmean d) := by
  have hn' : ((d.length : ℝ) - 1) ≠ 0 := by
    have : (1 : ℝ) < d.length := by exact_mod_cast hn
    linarith
  rw [gsx_closed, gsx_closed d, gmean_erase h hn, sum_map_erase (fun y => y ^ 2) h, length_erase_cast h]
  field_simp
  ring

theorem gmean_perm {d d' : List ℝ} (h : d.Perm d') : gmean d = gmean d' := by
  simp only [gmean, h.sum_eq, h.length_eq]

theorem gsx_perm {d d' : List ℝ} (h : d.Perm d') : gsx d = gsx d' := by
  simp only [gsx, gmean_perm h]; exact sum_map_perm _ h

/-! ### categorical counts -/

theorem sum_range_indicator (g : ℕ → ℝ) (x : ℕ) : ∀ K : ℕ,
    ((List.range K).map (fun i => (if x = i then (1:ℝ) else 0) * g i)).sum = if x < K then g x else 0
  | 0 => by simp
  | K + 1 => by
    rw [List.range_succ, List.map_append, List.sum_append, sum_range_indicator g x K]
    simp only [List.map_cons, List.map_nil, List.sum_cons, List.sum_nil, add_zero]
    by_cases h1 : x < K
    · have h2 : x ≠ K := by omega
      have h3 : x < K + 1 := by omega
      simp [h1, h2, h3]
    · by_cases h2 : x = K
      · subst h2; simp
      · have h3 : ¬ x < K + 1 := by omega
        simp [h1, h2, h3]

/-- Σ_{i<K} count_i · g i = Σ_{x ∈ d} g x -/
theorem sum_count_mul (g : ℕ → ℝ) (K : ℕ) : ∀ d : List ℕ, (∀ x ∈ d, x < K) →
    ((List.range K).map (fun i => (d.count i : ℝ) * g i)).sum = (d.map g).sum
  | [], _ => by simp
  | x :: d, h => by
    have hx : x < K := h x List.mem_cons_self
    have ih := sum_count_mul g K d (fun y hy => h y (List.mem_cons_of_mem _ hy))
    have e : ∀ i, (((x :: d).count i : ℕ) : ℝ) * g i
        = (d.count i : ℝ) * g i + (if x = i then (1:ℝ) else 0) * g i := by
      intro i
      rw [List.count_cons]
      by_cases hxi : x = i
      · simp [hxi]; ring
      · simp [hxi]
    simp only [e, List.sum_map_add, ih, sum_range_indicator g x K, hx, if_true, List.map_cons, List.sum_cons]
    ring

/-- the zipped weighted sum of `Categorical::ln_f_stat` as an indexed sum -/
theorem sum_zip_counts : ∀ (w counts : List R) (c : ℕ → ℝ), counts.length = w.length →
    (∀ i, i < w.length → (counts[i]?).map R.val = some (c i)) →
    ((List.zip w counts).map (fun p => p.2.val * p.1.val)).sum
      = ((List.range w.length).map (fun i => c i * (idxR w i).val)).sum
  | [], _, _, _, _ => by simp
  | _ :: _, [], _, hl, _ => by simp at hl
  | a :: w, b :: counts, c, hl, hc => by
    have h0 : b.val = c 0 := by
      have := hc 0 (by simp)
      simpa using this
    have ih := sum_zip_counts w counts (fun i => c (i + 1)) (by simpa using hl) (by
      intro i hi
      have := hc (i + 1) (by simpa using hi)
      simpa using this)
    rw [List.length_cons, List.range_succ_eq_map]
    simp only [List.zip_cons_cons, List.map_cons, List.sum_cons, List.map_map, ih, h0]
    simp [idxR, Function.comp_def]

end C07
