import RvModel.RealInst
import RvModel.Gen.Defs
/-!
  Lemmas.C01B — exact-real meaning of the generated `log1pexp` / `logaddexp` (misc/func.rs) on the branch where
  the code evaluates `ln(1 + eˣ)` itself (the other branches are binary64 approximations `eˣ`, `x + e⁻ˣ`, `x`).
-/
open Real

namespace C01

/-- `log1pexp y = ln(1 + e^y)` on the exact branch `-37 < y ≤ 18` -/
theorem log1pexp_val (y : R) (h1 : -37 < y.val) (h2 : y.val ≤ 18) :
    (Gen.log1pexp y).val = Real.log (1 + Real.exp y.val) := by
  have e37 : ((37.0 : R)).val = 37 := by rw [R.sci_val]; norm_num
  have e18 : ((18.0 : R)).val = 18 := by rw [R.sci_val]; norm_num
  have c1 : RealLike.le y (-(37.0 : R)) = false := by
    rw [R.le_false_iff, not_le, R.neg_val, e37]; exact h1
  have c2 : RealLike.le y (18.0 : R) = true := by rw [R.le_iff, e18]; exact h2
  simp only [Gen.log1pexp, c1, c2, if_true, Bool.false_eq_true, if_false, R.ln1p_val, R.exp_val]

/-- `logaddexp a b = ln(e^a + e^b)` when `|a - b| < 37` -/
theorem logaddexp_val (a b : R) (h : |a.val - b.val| < 37) :
    (Gen.logaddexp a b).val = Real.log (Real.exp a.val + Real.exp b.val) := by
  have h' := abs_lt.mp h
  by_cases hgt : b.val < a.val
  · have c : RealLike.gt a b = true := by show RealLike.lt b a = true; rw [R.lt_iff]; exact hgt
    have e : Real.exp a.val + Real.exp b.val = Real.exp a.val * (1 + Real.exp (b.val - a.val)) := by
      rw [mul_add, mul_one, ← Real.exp_add]; ring_nf
    simp only [Gen.logaddexp, c, if_true, R.add_val]
    rw [log1pexp_val _ (by rw [R.sub_val]; linarith) (by rw [R.sub_val]; linarith), R.sub_val, e,
      Real.log_mul (Real.exp_pos _).ne' (by positivity), Real.log_exp]
  · have c : RealLike.gt a b = false := by show RealLike.lt b a = false; rw [R.lt_false_iff]; exact hgt
    have e : Real.exp a.val + Real.exp b.val = Real.exp b.val * (1 + Real.exp (a.val - b.val)) := by
      rw [mul_add, mul_one, ← Real.exp_add]; ring_nf
    by_cases hlt : a.val < b.val
    · have c' : RealLike.gt b a = true := by show RealLike.lt a b = true; rw [R.lt_iff]; exact hlt
      simp only [Gen.logaddexp, c, c', Bool.false_eq_true, if_false, if_true, R.add_val]
      rw [log1pexp_val _ (by rw [R.sub_val]; linarith) (by rw [R.sub_val]; linarith), R.sub_val, e,
        Real.log_mul (Real.exp_pos _).ne' (by positivity), Real.log_exp]
    · -- equal arguments: the repaired code returns `a + ln 2`
      have c' : RealLike.gt b a = false := by show RealLike.lt a b = false; rw [R.lt_false_iff]; exact hlt
      have hab : a.val = b.val := le_antisymm (not_lt.mp hgt) (not_lt.mp hlt)
      simp only [Gen.logaddexp, c, c', Bool.false_eq_true, if_false, R.add_val, R.ln2_val]
      rw [hab, ← two_mul, Real.log_mul (by norm_num) (Real.exp_pos _).ne', Real.log_exp, add_comm]

end C01

#print axioms C01.log1pexp_val
#print axioms C01.logaddexp_val
