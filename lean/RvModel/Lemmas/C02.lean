import RvModel.RealInst
import RvModel.ExtInst
import RvModel.Gen.Defs
import Mathlib.Analysis.SpecialFunctions.Log.Basic
import Mathlib.Analysis.SpecialFunctions.Exp
import Mathlib.Analysis.SpecialFunctions.Pow.Real
import Mathlib.Analysis.SpecialFunctions.Gamma.Basic
import Mathlib.Tactic.NormNum.OfScientific
/-!
  Helper lemmas for Props/C02*.lean (carrier `X`): literals, `exp ∘ ln`, finiteness predicates.
-/
open Real X

namespace C02Lemmas

/-- the literals that occur in the generated probability functions -/
theorem lit_zero : (0.0 : X) = fin 0 := by norm_num
theorem lit_one : (1.0 : X) = fin 1 := by norm_num
theorem lit_two : (2.0 : X) = fin 2 := by norm_num
theorem lit_three : (3.0 : X) = fin 3 := by norm_num
theorem lit_half : (0.5 : X) = fin (1 / 2) := by norm_num
theorem lit_twelve : (12.0 : X) = fin 12 := by norm_num

/-- `exp (ln v) = v` for every non-negative finite `v`, **including** `v = 0` (`ln 0 = -inf`, `exp -inf = 0`) -/
theorem exp_ln_fin {a : ℝ} (h : 0 ≤ a) : RealLike.exp (RealLike.ln (fin a)) = fin a := by
  rcases h.eq_or_lt with h0 | h0
  · subst h0; simp
  · rw [X.ln_fin_pos h0, X.exp_fin, Real.exp_log h0]

/-- `ln` of a non-negative finite value is finite or `-inf` -/
theorem ln_fin_isFinOrNinf {a : ℝ} (h : 0 ≤ a) : IsFinOrNinf (RealLike.ln (fin a)) := by
  rcases h.eq_or_lt with h0 | h0
  · subst h0; simp
  · rw [X.ln_fin_pos h0]; trivial

theorem ne_nan_of_isFinOrNinf {x : X} (h : IsFinOrNinf x) : x ≠ nan := by
  cases x <;> simp_all

theorem ne_pinf_of_isFinOrNinf {x : X} (h : IsFinOrNinf x) : x ≠ pinf := by
  cases x <;> simp_all

theorem ne_of_eq_fin {x : X} {r : ℝ} (h : x = fin r) : x ≠ nan ∧ x ≠ pinf ∧ x ≠ ninf := by
  subst h; simp

set_option maxRecDepth 100000 in
/-- every entry of the `ln n!` table is a finite number -/
theorem LN_FACT_all_finite : (Gen.LN_FACT (α := X)).all RealLike.isFinite = true := rfl

set_option maxRecDepth 100000 in
theorem LN_FACT_length : (Gen.LN_FACT (α := X)).length = 255 := by
  decide

theorem LN_FACT_idx_fin (n : ℕ) (h : n < 254) : ∃ r, idxR (Gen.LN_FACT (α := X)) n = fin r := by
  have hl : n < (Gen.LN_FACT (α := X)).length := by rw [LN_FACT_length]; omega
  have hm : (Gen.LN_FACT (α := X))[n] ∈ Gen.LN_FACT (α := X) := List.getElem_mem hl
  have := List.all_eq_true.mp LN_FACT_all_finite _ hm
  obtain ⟨r, hr⟩ := (X.isFinite_iff _).mp this
  exact ⟨r, by simp [idxR, List.getD, hl, hr]⟩

/-- a finite value is a number: not `nan`, not `±inf` -/
theorem fin_total {v : X} (h : ∃ r, v = fin r) : v ≠ nan ∧ v ≠ pinf ∧ v ≠ ninf := by
  obtain ⟨r, rfl⟩ := h; simp

theorem isFinOrNinf_total {v : X} (h : IsFinOrNinf v) : v ≠ nan ∧ v ≠ pinf :=
  ⟨ne_nan_of_isFinOrNinf h, ne_pinf_of_isFinOrNinf h⟩

/-- `ln_fact n` is a finite number for every `n` (table entry below 254, Stirling series above) -/
theorem ln_fact_fin (n : ℕ) : ∃ r, Gen.ln_fact (α := X) n = fin r := by
  unfold Gen.ln_fact
  by_cases h : n < 254
  · simpa [h] using LN_FACT_idx_fin n h
  · have hy : (0:ℝ) < (n:ℝ) + 1 := by positivity
    have hy' : (n:ℝ) + 1 ≠ 0 := hy.ne'
    norm_num [h, mulAdd, RealLike.recip, hy, hy']

/-- `ln_binom a b` is finite whenever the three `lgamma` arguments are positive -/
theorem ln_binom_fin (a b : ℝ) (h1 : 0 < a + 1) (h2 : 0 < b + 1) (h3 : 0 < a - b + 1) :
    ∃ r, Gen.ln_binom (fin a) (fin b) = fin r := by
  unfold Gen.ln_binom
  simp only [lit_one, X.fin_add_fin, X.fin_sub_fin, X.lgamma_fin_pos h1, X.lgamma_fin_pos h2,
    X.lgamma_fin_pos h3]
  exact ⟨_, rfl⟩

/-- `try_for_each` succeeds when every step does -/
theorem tryForEach_ok {β ε : Type} (f : β → Except ε Unit) (l : List β) (h : ∀ x ∈ l, f x = Except.ok ()) :
    tryForEach f l = Except.ok () := by
  induction l with
  | nil => rfl
  | cons a t ih =>
    simp only [tryForEach, h a (by simp)]
    exact ih (fun x hx => h x (by simp [hx]))

theorem sum_pos_of_pos (l : List ℝ) (hne : l ≠ []) (h : ∀ x ∈ l, 0 < x) : 0 < l.sum := by
  induction l with
  | nil => exact absurd rfl hne
  | cons a t ih =>
    rw [List.sum_cons]
    by_cases ht : t = []
    · subst ht; simpa using h a (by simp)
    · have := ih ht (fun x hx => h x (by simp [hx]))
      have := h a (by simp)
      linarith

/-- reading a list through `getD` at the indices `0..len-1` is the list itself -/
theorem map_range_getD {β γ : Type} (ws : List β) (dflt : β) (g : β → γ) :
    (List.range ws.length).map (fun k => g (ws.getD k dflt)) = ws.map g := by
  apply List.ext_getElem (by simp)
  intro i h1 h2
  simp at h1
  simp [List.getD, h1]

end C02Lemmas
