import RvModel.RealInst
import RvModel.Gen.Defs
import Mathlib.Analysis.SpecialFunctions.Gamma.Deriv
import Mathlib.Analysis.SpecialFunctions.Log.Deriv
import Mathlib.Analysis.SpecialFunctions.Exponential
import Mathlib.Analysis.Complex.ExponentialBounds
/-!
  Helper lemmas and the normalisation tactic of the C08 proof files (Props/C08A.lean, Props/C08B.lean).
-/
open Real

namespace C08L
theorem exp2_val (a : R) : (RealLike.exp2 a).val = (2:ℝ) ^ a.val := rfl
theorem log2_val (a : R) : (RealLike.log2 a).val = Real.logb 2 a.val := rfl
theorem log10_val (a : R) : (RealLike.log10 a).val = Real.logb 10 a.val := rfl
theorem erfR_zero : R.erfR 0 = 0 := by simp [R.erfR]
theorem lit05 : (0.5:ℝ) = 1 / 2 := by norm_num
theorem lit10 : (1.0:ℝ) = 1 := by norm_num
theorem lit00 : (0.0:ℝ) = 0 := by norm_num
theorem lit20 : (2.0:ℝ) = 2 := by norm_num
end C08L

/-- push `.val` through every primitive of the carrier `R`, evaluate comparisons, push `Option.map` inside -/
macro "c08_norm" : tactic => `(tactic| simp only [mulAdd, RealLike.gt, RealLike.ge, RealLike.recip, R.add_val, R.sub_val,
  R.mul_val, R.div_val, R.neg_val, R.ln_val, R.exp_val, R.sqrt_val, R.sci_val, R.lt_iff, R.le_iff, R.feq_iff,
  R.expm1_val, R.powf_val, R.powi_val, R.max_val, R.lgamma_val, R.gamma_val, R.digamma_val, R.lnBeta_val,
  R.ofNatR_val, R.ofIntR_val, R.halfLn2Pi_val, R.halfLn2PiE_val, R.eulerGamma_val, R.lnLn2_val, R.ln2_val,
  R.ln2Pi_val, R.pi_val, R.e_val, R.atan_val, R.frac1Pi_val, R.sqrt2_val, R.erf_val, R.bessI0_val, R.bessI1_val,
  R.abs_val, C08L.exp2_val, C08L.log2_val, C08L.log10_val, Option.map_some, Option.map_none, Option.some.injEq, apply_ite (Option.map R.val),
  Bool.and_eq_true, Bool.or_eq_true, Bool.not_eq_true', decide_eq_true_eq])

/-- closing step after normalisation: ring / field arithmetic, numerals, linear arithmetic -/
macro "c08_fin" : tactic => `(tactic| first
  | done
  | (ring_nf; done)
  | (field_simp; done)
  | (field_simp; ring_nf; done)
  | (norm_num; done)
  | (norm_num; ring_nf; done)
  | (norm_num; field_simp; done)
  | (norm_num; field_simp; ring_nf; done)
  | (simp; done)
  | linarith)

/-- equality of two closed forms -/
macro "c08_close" : tactic => `(tactic| ((try c08_norm); (try norm_num1); c08_fin))

/-- equality of two case-split closed forms (existence thresholds) -/
macro "c08_split" : tactic => `(tactic| first | done | ((try c08_norm); (try norm_num1); split_ifs <;> (try simp only [Option.map_some, Option.map_none, Option.some.injEq]) <;> first | c08_fin | (exfalso; linarith) | (simp_all; done) | (simp_all; c08_fin)))

/-- `… = none ↔ ¬ existence condition` -/
macro "c08_iff" : tactic => `(tactic| first | done | ((try c08_norm); (try norm_num1); split_ifs <;> simp_all <;> (try linarith)))

namespace C08L

/-- ψ(x+1) = ψ(x) + 1/x for the digamma function of the carrier `R` (ψ = (log Γ)') -/
theorem digammaR_add_one {x : ℝ} (hx : 0 < x) : R.digammaR (x + 1) = R.digammaR x + 1 / x := by
  unfold R.digammaR
  have hΓ : 0 < Real.Gamma x := Real.Gamma_pos_of_pos hx
  have hdΓ : DifferentiableAt ℝ Real.Gamma x :=
    Real.differentiableAt_Gamma (fun m => by
      intro h
      have : (0:ℝ) ≤ (m : ℝ) := Nat.cast_nonneg m
      linarith)
  have hf : DifferentiableAt ℝ (fun t => Real.log (Real.Gamma t)) x := hdΓ.log hΓ.ne'
  have hshift : deriv (fun t => Real.log (Real.Gamma t)) (x + 1)
      = deriv (fun t => Real.log (Real.Gamma (t + 1))) x := by
    have := deriv_comp_add_const (fun t => Real.log (Real.Gamma t)) 1 x
    simpa using this.symm
  rw [hshift]
  have hev : (fun t => Real.log (Real.Gamma (t + 1))) =ᶠ[nhds x]
      (fun t => Real.log t + Real.log (Real.Gamma t)) := by
    filter_upwards [lt_mem_nhds hx] with t ht
    rw [Real.Gamma_add_one ht.ne', Real.log_mul ht.ne' (Real.Gamma_pos_of_pos ht).ne']
  rw [hev.deriv_eq]
  have h1 : HasDerivAt (fun t => Real.log t) (x⁻¹) x := Real.hasDerivAt_log hx.ne'
  have h2 := hf.hasDerivAt
  have h3 : deriv (fun t => Real.log t + Real.log (Real.Gamma t)) x
      = x⁻¹ + deriv (fun t => Real.log (Real.Gamma t)) x := (h1.add h2).deriv
  rw [h3]
  ring

/-- `foldl` of an accumulator update `acc + g x` is the initial value plus the mapped sum -/
theorem foldl_add_eq {β : Type} (g : β → ℝ) (xs : List β) (a : ℝ) :
    xs.foldl (fun acc x => acc + g x) a = a + (xs.map g).sum := by
  induction xs generalizing a with
  | nil => simp
  | cons x xs ih => simp [List.foldl_cons, ih, add_assoc]

/-- the same on the carrier `R` -/
theorem foldlR_val {β : Type} (f : R → β → R) (g : β → ℝ) (hf : ∀ a x, (f a x).val = a.val + g x)
    (xs : List β) (a : R) : (xs.foldl f a).val = a.val + (xs.map g).sum := by
  induction xs generalizing a with
  | nil => simp
  | cons x xs ih => simp [List.foldl_cons, ih, hf, add_assoc]

theorem log_two_lt_one : Real.log 2 < 1 := by
  have := Real.log_two_lt_d9
  linarith

theorem one_lt_log_ten : 1 < Real.log 10 := by
  rw [Real.lt_log_iff_exp_lt (by norm_num)]
  have := Real.exp_one_lt_d9
  linarith

end C08L
