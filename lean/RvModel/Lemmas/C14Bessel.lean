import RvModel.RealInst
import RvModel.Hand.Bessel
import Mathlib.Algebra.Order.Floor.Ring
import Mathlib.Tactic.Ring
import Mathlib.Tactic.Linarith
import Mathlib.Tactic.NormNum
/-!
  Helper lemmas for Props/C14C.lean: the Boolean tests of `Hand.Bessel` on the exact-real carrier `R`.
-/
namespace C14L
open Hand.Bessel

/-- ε = 2⁻⁵² as a real -/
noncomputable def eps : ℝ := (2 : ℝ) ^ (-52 : ℤ)

theorem eps_pos : 0 < eps := by unfold eps; positivity
theorem eps_lt_one : eps < 1 := by
  unfold eps
  norm_num

theorem floor_val (a : R) : (RealLike.floor a).val = (⌊a.val⌋ : ℝ) := rfl
theorem epsilon_val : (RealLike.epsilon : R).val = eps := rfl
theorem lit0 : ((0.0 : R)).val = 0 := by
  show (OfScientific.ofScientific 0 true 1 : ℝ) = 0; norm_num
theorem lit1 : ((1.0 : R)).val = 1 := by
  show (OfScientific.ofScientific 10 true 1 : ℝ) = 1; norm_num
theorem lit2 : ((2.0 : R)).val = 2 := by
  show (OfScientific.ofScientific 20 true 1 : ℝ) = 2; norm_num
theorem lit50 : ((50.0 : R)).val = 50 := by
  show (OfScientific.ofScientific 500 true 1 : ℝ) = 50; norm_num

/-- fractional distance of `v` above its floor -/
theorem abs_floor_sub (x : ℝ) : |(⌊x⌋ : ℝ) - x| = x - ⌊x⌋ := by
  rw [abs_of_nonpos (by linarith [Int.floor_le x])]; ring

theorem ivReflect_iff (v : R) : ivReflect v = true ↔ v.val < 0 ∧ v.val - ⌊v.val⌋ < eps := by
  unfold ivReflect
  rw [Bool.and_eq_true, R.lt_iff, R.lt_iff, R.abs_val, R.sub_val, floor_val, epsilon_val, lit0, abs_floor_sub]

theorem ivOrder_val (v : R) :
    (ivOrder v).val = if v.val < 0 ∧ v.val - ⌊v.val⌋ < eps then -v.val else v.val := by
  unfold ivOrder
  by_cases h : ivReflect v = true
  · rw [if_pos h, if_pos ((ivReflect_iff v).mp h)]; rfl
  · rw [if_neg h, if_neg (fun h' => h ((ivReflect_iff v).mpr h'))]

theorem ivFloor_sub_ivOrder (v : R) : |(ivFloor v).val - (ivOrder v).val| = v.val - ⌊v.val⌋ := by
  unfold ivFloor ivOrder
  by_cases h : ivReflect v = true
  · rw [if_pos h, if_pos h, R.neg_val, R.neg_val, floor_val]
    rw [show -(⌊v.val⌋ : ℝ) - -v.val = -((⌊v.val⌋ : ℝ) - v.val) by ring, abs_neg, abs_floor_sub]
  · rw [if_neg h, if_neg h, floor_val, abs_floor_sub]

theorem ivNotInteger_iff (v : R) : ivNotInteger v = true ↔ eps < v.val - ⌊v.val⌋ := by
  unfold ivNotInteger RealLike.gt
  rw [R.lt_iff, R.abs_val, R.sub_val, ivFloor_sub_ivOrder, epsilon_val]

/-- the order after reflection, for an integer order `n`: `|n|` -/
theorem ivOrder_int (v : R) (n : ℤ) (hv : v.val = n) : (ivOrder v).val = |(n : ℝ)| := by
  rw [ivOrder_val, hv, Int.floor_intCast]
  by_cases h : (n : ℝ) < 0
  · rw [if_pos ⟨h, by simpa using eps_pos⟩, abs_of_neg h]
  · rw [if_neg (fun h' => h h'.1), abs_of_nonneg (not_lt.mp h)]

/-- parity test on a natural number `m` (as a real): `2·(−⌊m/2⌋) + m > ε` iff `m` is odd -/
theorem parity_nat (m : ℕ) : eps < 2 * (-((⌊(m : ℝ) / 2⌋ : ℤ) : ℝ)) + (m : ℝ) ↔ m % 2 = 1 := by
  have hfl : ⌊(m : ℝ) / 2⌋ = ((m / 2 : ℕ) : ℤ) := by
    rw [Int.floor_eq_iff]
    have hm : (m : ℝ) = 2 * ((m / 2 : ℕ) : ℝ) + ((m % 2 : ℕ) : ℝ) := by
      exact_mod_cast (Nat.div_add_mod m 2).symm
    have hr : ((m % 2 : ℕ) : ℝ) < 2 := by exact_mod_cast Nat.mod_lt m (by norm_num)
    have hr0 : (0 : ℝ) ≤ ((m % 2 : ℕ) : ℝ) := by positivity
    constructor
    · rw [Int.cast_natCast]; linarith
    · rw [Int.cast_natCast]; linarith
  rw [hfl]
  have hm : (m : ℝ) = 2 * ((m / 2 : ℕ) : ℝ) + ((m % 2 : ℕ) : ℝ) := by
    exact_mod_cast (Nat.div_add_mod m 2).symm
  have e : 2 * (-(((m / 2 : ℕ) : ℤ) : ℝ)) + (m : ℝ) = ((m % 2 : ℕ) : ℝ) := by
    rw [Int.cast_natCast]; linarith
  rw [e]
  rcases Nat.mod_two_eq_zero_or_one m with h | h
  · rw [h]; simp only [Nat.cast_zero]
    constructor
    · intro h'; exact absurd h' (not_lt.mpr (le_of_lt eps_pos))
    · intro h'; omega
  · rw [h]; simp only [Nat.cast_one]
    exact ⟨fun _ => trivial, fun _ => eps_lt_one⟩

theorem ivParitySign_nat (w : R) (m : ℕ) (hw : w.val = m) :
    (ivParitySign w).val = (-1 : ℝ) ^ m := by
  unfold ivParitySign RealLike.gt
  have hc : RealLike.lt (RealLike.epsilon : R) (mulAdd (2.0 : R) (-(RealLike.floor (w / (2.0 : R)))) w) = true ↔
      m % 2 = 1 := by
    rw [R.lt_iff, epsilon_val]
    simp only [mulAdd, R.add_val, R.mul_val, R.neg_val, floor_val, R.div_val, lit2, hw]
    exact parity_nat m
  by_cases h : m % 2 = 1
  · rw [if_pos (hc.mpr h), R.neg_val, lit1, Odd.neg_one_pow (Nat.odd_iff.mpr h)]
  · rw [if_neg (fun h' => h (hc.mp h')), lit1, Even.neg_one_pow (Nat.even_iff.mpr (by omega))]

/-- from the squared rational test to the statement with `√8` -/
theorem switchSq_sound (t a b : ℚ) (ht0 : 0 ≤ t) (ht1 : t ≤ 1) (h : switchSqOk t a b = true) :
    |(a : ℝ) - (b : ℝ) / Real.sqrt 8| ≤ (t : ℝ) * (a : ℝ) := by
  simp only [switchSqOk, Bool.and_eq_true, decide_eq_true_eq] at h
  obtain ⟨⟨⟨ha, hb⟩, hlo⟩, hhi⟩ := h
  have haR : (0 : ℝ) < (a : ℝ) := by exact_mod_cast ha
  have hbR : (0 : ℝ) < (b : ℝ) := by exact_mod_cast hb
  have htR0 : (0 : ℝ) ≤ (t : ℝ) := by exact_mod_cast ht0
  have htR1 : (t : ℝ) ≤ 1 := by exact_mod_cast ht1
  have hloR : ((1 - (t : ℝ)) * (a : ℝ)) ^ 2 * 8 ≤ (b : ℝ) ^ 2 := by exact_mod_cast hlo
  have hhiR : (b : ℝ) ^ 2 ≤ ((1 + (t : ℝ)) * (a : ℝ)) ^ 2 * 8 := by exact_mod_cast hhi
  have hs : (0 : ℝ) < Real.sqrt 8 := Real.sqrt_pos.mpr (by norm_num)
  have hs2 : Real.sqrt 8 ^ 2 = 8 := Real.sq_sqrt (by norm_num)
  have x0 : (0 : ℝ) ≤ (1 - (t : ℝ)) * (a : ℝ) * Real.sqrt 8 :=
    mul_nonneg (mul_nonneg (by linarith) haR.le) hs.le
  have y0 : (0 : ℝ) ≤ (1 + (t : ℝ)) * (a : ℝ) * Real.sqrt 8 :=
    mul_nonneg (mul_nonneg (by linarith) haR.le) hs.le
  have h1 : (1 - (t : ℝ)) * (a : ℝ) * Real.sqrt 8 ≤ (b : ℝ) := by
    apply (pow_le_pow_iff_left₀ x0 hbR.le two_ne_zero).mp
    rw [mul_pow, hs2]; exact hloR
  have h2 : (b : ℝ) ≤ (1 + (t : ℝ)) * (a : ℝ) * Real.sqrt 8 := by
    apply (pow_le_pow_iff_left₀ hbR.le y0 two_ne_zero).mp
    rw [mul_pow, hs2]; exact hhiR
  have d1 : (1 - (t : ℝ)) * (a : ℝ) ≤ (b : ℝ) / Real.sqrt 8 := (le_div_iff₀ hs).mpr h1
  have d2 : (b : ℝ) / Real.sqrt 8 ≤ (1 + (t : ℝ)) * (a : ℝ) := (div_le_iff₀ hs).mpr h2
  rw [abs_le]
  constructor <;> linarith

end C14L
