import RvModel.RealInst
import RvModel.Gen.Defs
import RvModel.Hand.StickConj
import RvModel.Lemmas.C19Stick
import Mathlib.Data.List.Perm.Basic
import Mathlib.Analysis.SpecialFunctions.Gamma.Basic
import Mathlib.Analysis.SpecialFunctions.Log.Basic
import Mathlib.Algebra.BigOperators.Intervals
import Mathlib.Analysis.SpecificLimits.Basic
import Mathlib.Topology.Algebra.InfiniteSum.Real
/-!
  Helper lemmas for C05S: properties C05 / C06 on the conjugate pair `StickBreaking` / `StickBreakingDiscrete`
  (hand model `Hand/StickConj.lean`), over the exact-real carrier `R`.

  Plan: the statistic is reduced to padded pointwise addition of count vectors (`addC`), `break_pairs` to the recursive
  form `bp`, the posterior to the total closed form `postP`, `ln_m` to the real recursion `lnMR` (differences of log-Beta
  normalisers, `rising_beta_prod` being a ratio of Gamma functions) and the density to `lnFR`.
-/
set_option linter.unusedSimpArgs false
set_option linter.unusedVariables false
open Real Hand.StickConj

namespace C05SL

/-! ### literals -/

theorem lit0 : ((0.0 : R)).val = 0 := by simp only [R.sci_val]; norm_num
theorem lit1 : ((1.0 : R)).val = 1 := by simp only [R.sci_val]; norm_num

/-- Rust's float `sum()` (fold from `-0.0`) over `R` is the real sum -/
theorem sumRust_val (xs : List R) : (sumRust xs).val = (xs.map R.val).sum := by
  have : ∀ (acc : R) (l : List R), (l.foldl (· + ·) acc).val = acc.val + (l.map R.val).sum := by
    intro acc l
    induction l generalizing acc with
    | nil => simp
    | cons x xs ih => simp [List.foldl, ih, add_assoc]
  simp only [sumRust, this, R.neg_val, lit0]; simp

/-! ### the statistic: counts as padded pointwise sums -/

/-- padded pointwise sum of two count vectors -/
def addC : List Nat → List Nat → List Nat
  | [], ys => ys
  | xs, [] => xs
  | x :: xs, y :: ys => (x + y) :: addC xs ys

@[simp] theorem addC_nil_left (ys : List Nat) : addC [] ys = ys := by cases ys <;> rfl
@[simp] theorem addC_nil_right (xs : List Nat) : addC xs [] = xs := by cases xs <;> rfl
@[simp] theorem addC_cons (x y : Nat) (xs ys : List Nat) : addC (x :: xs) (y :: ys) = (x + y) :: addC xs ys := rfl

theorem addC_comm (xs ys : List Nat) : addC xs ys = addC ys xs := by
  induction xs generalizing ys with
  | nil => simp
  | cons x xs ih => cases ys with
    | nil => simp
    | cons y ys => simp [ih ys, Nat.add_comm]

theorem addC_assoc (xs ys zs : List Nat) : addC (addC xs ys) zs = addC xs (addC ys zs) := by
  induction xs generalizing ys zs with
  | nil => simp
  | cons x xs ih => cases ys with
    | nil => simp
    | cons y ys => cases zs with
      | nil => simp
      | cons z zs => simp [ih, Nat.add_assoc]

theorem sum_addC (xs ys : List Nat) : (addC xs ys).sum = xs.sum + ys.sum := by
  induction xs generalizing ys with
  | nil => simp
  | cons x xs ih => cases ys with
    | nil => simp
    | cons y ys => simp only [addC_cons, List.sum_cons, ih]; omega

theorem length_addC (xs ys : List Nat) : (addC xs ys).length = max xs.length ys.length := by
  induction xs generalizing ys with
  | nil => simp
  | cons x xs ih => cases ys with
    | nil => simp
    | cons y ys => simp [ih]

theorem getD_addC (xs ys : List Nat) (i : Nat) : (addC xs ys).getD i 0 = xs.getD i 0 + ys.getD i 0 := by
  induction xs generalizing ys i with
  | nil => simp
  | cons x xs ih => cases ys with
    | nil => simp
    | cons y ys => cases i with
      | zero => simp
      | succ i => simpa using ih ys i

/-- the count vector of the single observation `i`: `[0, …, 0, 1]` -/
def unitC (i : Nat) : List Nat := List.replicate i 0 ++ [1]

theorem observeC_nil (i : Nat) : observeC [] i = unitC i := by
  simp only [observeC, unitC]
  simp [List.replicate_succ', List.set_append]

theorem observeC_cons_zero (x : Nat) (xs : List Nat) : observeC (x :: xs) 0 = (x + 1) :: xs := by
  simp [observeC]

theorem observeC_cons_succ (x : Nat) (xs : List Nat) (i : Nat) : observeC (x :: xs) (i + 1) = x :: observeC xs i := by
  simp only [observeC, List.length_cons]
  by_cases h : xs.length < i + 1
  · have h' : xs.length + 1 < i + 1 + 1 := by omega
    simp only [h, h', if_true]
    have e : i + 1 + 1 - (xs.length + 1) = i + 1 - xs.length := by omega
    simp [e]
  · have h' : ¬ xs.length + 1 < i + 1 + 1 := by omega
    simp only [h, h', if_false]
    simp

theorem observeC_eq_addC (c : List Nat) (i : Nat) : observeC c i = addC c (unitC i) := by
  induction c generalizing i with
  | nil => simp [observeC_nil]
  | cons x xs ih => cases i with
    | zero => simp [observeC_cons_zero, unitC]
    | succ i =>
      rw [observeC_cons_succ, ih i]
      simp [unitC, List.replicate_succ]

/-- the counts of a data set (statistic `new()` + `observe_many`) -/
def countsOf (xs : List Nat) : List Nat := observeManyC [] xs

theorem observeManyC_eq (c : List Nat) (xs : List Nat) : observeManyC c xs = addC c (countsOf xs) := by
  induction xs generalizing c with
  | nil => simp [observeManyC, countsOf]
  | cons x xs ih =>
    have h1 : observeManyC c (x :: xs) = observeManyC (observeC c x) xs := rfl
    have h2 : countsOf (x :: xs) = observeManyC (observeC [] x) xs := rfl
    rw [h1, h2, ih, ih (observeC [] x), observeC_eq_addC c x, observeC_nil, addC_assoc]

theorem countsOf_append (xs ys : List Nat) : countsOf (xs ++ ys) = addC (countsOf xs) (countsOf ys) := by
  have : countsOf (xs ++ ys) = observeManyC (countsOf xs) ys := by
    simp [countsOf, observeManyC, List.foldl_append]
  rw [this, observeManyC_eq]

theorem countsOf_singleton (y : Nat) : countsOf [y] = unitC y := by
  simp [countsOf, observeManyC, observeC_nil]

theorem countsOf_nil : countsOf [] = [] := rfl

theorem countsOf_cons (x : Nat) (xs : List Nat) : countsOf (x :: xs) = addC (unitC x) (countsOf xs) := by
  have := countsOf_append [x] xs
  simpa [countsOf_singleton] using this

theorem countsOf_perm {xs ys : List Nat} (h : xs.Perm ys) : countsOf xs = countsOf ys := by
  induction h with
  | nil => rfl
  | cons x _ ih => rw [countsOf_cons, countsOf_cons, ih]
  | swap x y l =>
    rw [countsOf_cons, countsOf_cons, countsOf_cons, countsOf_cons, ← addC_assoc, ← addC_assoc, addC_comm (unitC y)]
  | trans _ _ ih1 ih2 => rw [ih1, ih2]

/-- `break_pairs` in recursive form: `(count beyond i, count at i)` -/
def bp : List Nat → List (Nat × Nat)
  | [] => []
  | x :: xs => (xs.sum, x) :: bp xs

theorem breakPairsAux_eq (c : List Nat) : breakPairsAux c.sum c = bp c := by
  induction c with
  | nil => rfl
  | cons x xs ih =>
    simp only [breakPairsAux, bp, List.sum_cons]
    rw [Nat.add_sub_cancel_left, ih]

theorem breakPairsC_eq (c : List Nat) : breakPairsC c = bp c := breakPairsAux_eq c

/-- padded pointwise sum of pair vectors -/
def addP : List (Nat × Nat) → List (Nat × Nat) → List (Nat × Nat)
  | [], qs => qs
  | ps, [] => ps
  | (s, c) :: ps, (s', c') :: qs => (s + s', c + c') :: addP ps qs

@[simp] theorem addP_nil_left (qs : List (Nat × Nat)) : addP [] qs = qs := by cases qs <;> rfl
@[simp] theorem addP_nil_right (ps : List (Nat × Nat)) : addP ps [] = ps := by cases ps <;> rfl
@[simp] theorem addP_cons (s c s' c' : Nat) (ps qs : List (Nat × Nat)) :
    addP ((s, c) :: ps) ((s', c') :: qs) = (s + s', c + c') :: addP ps qs := rfl

theorem bp_addC (xs ys : List Nat) : bp (addC xs ys) = addP (bp xs) (bp ys) := by
  induction xs generalizing ys with
  | nil => simp [bp]
  | cons x xs ih => cases ys with
    | nil => simp [bp]
    | cons y ys => simp [bp, ih, sum_addC]

theorem bp_unitC (y : Nat) : bp (unitC y) = List.replicate y (1, 0) ++ [(0, 1)] := by
  induction y with
  | zero => simp [unitC, bp]
  | succ y ih =>
    have : unitC (y + 1) = 0 :: unitC y := by simp [unitC, List.replicate_succ]
    rw [this, bp, ih]
    simp [unitC, List.replicate_succ]

theorem length_bp (c : List Nat) : (bp c).length = c.length := by
  induction c with
  | nil => rfl
  | cons x xs ih => simp [bp, ih]

theorem getD_bp (c : List Nat) (i : Nat) : (bp c).getD i (0, 0) = ((c.drop (i + 1)).sum, c.getD i 0) := by
  induction c generalizing i with
  | nil => simp [bp]
  | cons x xs ih => cases i with
    | zero => simp [bp]
    | succ i => simpa [bp] using ih i

/-! ### the posterior in closed (total) form -/

/-- validity of a prior as the checked constructors enforce it (`UnitPowerLaw::new`, `Beta::new`) -/
def ValidPre (pre : List (Gen.Beta R)) : Prop := ∀ b ∈ pre, 0 < b.alpha.val ∧ 0 < b.beta.val
def ValidSB (sb : SB R) : Prop := 0 < sb.break_tail.alpha.val ∧ ValidPre sb.break_prefix

theorem validPre_nil : ValidPre [] := by intro b hb; cases hb
theorem validPre_cons {b : Gen.Beta R} {bs : List (Gen.Beta R)} :
    ValidPre (b :: bs) ↔ (0 < b.alpha.val ∧ 0 < b.beta.val) ∧ ValidPre bs := by
  simp [ValidPre]

/-- the posterior prefix: break `i` gets `Beta(α_i + #{> i}, β_i + #{= i})`, the tail being read as `Beta(α, 1)` -/
noncomputable def postP (alpha : R) : List (Gen.Beta R) → List (Nat × Nat) → List (Gen.Beta R)
  | [], [] => []
  | b :: bs, [] => b :: postP alpha bs []
  | [], (s, c) :: ps => ⟨alpha + RealLike.ofNatR s, (1.0 : R) + RealLike.ofNatR c⟩ :: postP alpha [] ps
  | b :: bs, (s, c) :: ps => ⟨b.alpha + RealLike.ofNatR s, b.beta + RealLike.ofNatR c⟩ :: postP alpha bs ps

@[simp] theorem postP_nil_pairs (alpha : R) (pre : List (Gen.Beta R)) : postP alpha pre [] = pre := by
  induction pre with
  | nil => simp [postP]
  | cons b bs ih => simp [postP, ih]

theorem betaNewUnwrap_ok (a b : R) (ha : 0 < a.val) (hb : 0 < b.val) : betaNewUnwrap a b = some ⟨a, b⟩ := by
  have h1 : RealLike.le a (0.0 : R) = false := by rw [R.le_false_iff, lit0]; exact not_le.mpr ha
  have h2 : RealLike.le b (0.0 : R) = false := by rw [R.le_false_iff, lit0]; exact not_le.mpr hb
  simp [betaNewUnwrap, Gen.Beta.new, h1, h2]

theorem allSome_postArm (alpha : R) (ha : 0 < alpha.val) (pre : List (Gen.Beta R)) (hv : ValidPre pre)
    (ps : List (Nat × Nat)) :
    allSome ((zipLongest pre ps).map (postArm alpha)) = some (postP alpha pre ps) := by
  induction pre generalizing ps with
  | nil =>
    induction ps with
    | nil => simp [zipLongest, allSome, postP]
    | cons p ps ih =>
      obtain ⟨s, c⟩ := p
      have h1 : 0 < (alpha + RealLike.ofNatR s : R).val := by
        simp only [R.add_val, R.ofNatR_val]; positivity
      have h2 : 0 < ((1.0 : R) + RealLike.ofNatR c : R).val := by
        simp only [R.add_val, R.ofNatR_val, lit1]; positivity
      simp [zipLongest, postArm, allSome, betaNewUnwrap_ok _ _ h1 h2, ih, postP]
  | cons b bs ih =>
    obtain ⟨⟨hba, hbb⟩, hbs⟩ := validPre_cons.mp hv
    cases ps with
    | nil =>
      have := ih hbs []
      simp [zipLongest, postArm, allSome, this, postP]
    | cons p ps =>
      obtain ⟨s, c⟩ := p
      have h1 : 0 < (b.alpha + RealLike.ofNatR s : R).val := by
        simp only [R.add_val, R.ofNatR_val]; positivity
      have h2 : 0 < (b.beta + RealLike.ofNatR c : R).val := by
        simp only [R.add_val, R.ofNatR_val]; positivity
      simp [zipLongest, postArm, allSome, Gen.Beta.get_alpha, Gen.Beta.get_beta, betaNewUnwrap_ok _ _ h1 h2,
        ih hbs ps, postP]

/-- no data: every arm is `Left`, no constructor is called — holds for ANY prior -/
theorem allSome_postArm_nil (alpha : R) (pre : List (Gen.Beta R)) :
    allSome ((zipLongest pre ([] : List (Nat × Nat))).map (postArm alpha)) = some pre := by
  induction pre with
  | nil => simp [zipLongest, allSome]
  | cons b bs ih => simp [zipLongest, postArm, allSome, ih]

/-- the total posterior -/
noncomputable def postTot (sb : SB R) (counts : List Nat) : SB R :=
  ⟨postP sb.break_tail.alpha sb.break_prefix (bp counts), sb.break_tail⟩

theorem posteriorFromSuffstat_eq (sb : SB R) (hv : ValidSB sb) (st : Stat R) :
    posteriorFromSuffstat sb st = some (postTot sb st.counts) := by
  simp only [posteriorFromSuffstat, Stat.breakPairs, breakPairsC_eq, Gen.UnitPowerLaw.get_alpha,
    allSome_postArm _ hv.1 _ hv.2, Option.map_some, postTot]

theorem validPre_postP (alpha : R) (ha : 0 < alpha.val) (pre : List (Gen.Beta R)) (hv : ValidPre pre)
    (ps : List (Nat × Nat)) : ValidPre (postP alpha pre ps) := by
  induction pre generalizing ps with
  | nil =>
    induction ps with
    | nil => simpa [postP] using validPre_nil
    | cons p ps ih =>
      obtain ⟨s, c⟩ := p
      simp only [postP]
      refine validPre_cons.mpr ⟨⟨?_, ?_⟩, ih⟩
      · simp only [R.add_val, R.ofNatR_val]; positivity
      · simp only [R.add_val, R.ofNatR_val, lit1]; positivity
  | cons b bs ih =>
    obtain ⟨⟨hba, hbb⟩, hbs⟩ := validPre_cons.mp hv
    cases ps with
    | nil => simpa using hv
    | cons p ps =>
      obtain ⟨s, c⟩ := p
      simp only [postP]
      refine validPre_cons.mpr ⟨⟨?_, ?_⟩, ih hbs ps⟩
      · simp only [R.add_val, R.ofNatR_val]; positivity
      · simp only [R.add_val, R.ofNatR_val]; positivity

theorem valid_postTot (sb : SB R) (hv : ValidSB sb) (counts : List Nat) : ValidSB (postTot sb counts) :=
  ⟨hv.1, validPre_postP _ hv.1 _ hv.2 _⟩

theorem length_postP (alpha : R) (pre : List (Gen.Beta R)) (ps : List (Nat × Nat)) :
    (postP alpha pre ps).length = max pre.length ps.length := by
  induction pre generalizing ps with
  | nil =>
    induction ps with
    | nil => simp [postP]
    | cons p ps ih => obtain ⟨s, c⟩ := p; simp [postP, ih]
  | cons b bs ih =>
    cases ps with
    | nil => simp
    | cons p ps => obtain ⟨s, c⟩ := p; simp [postP, ih]

/-- parameters `(α_i, β_i)` of break `i`: the prefix `Beta`, or the tail `UnitPowerLaw(α)` read as `Beta(α, 1)` -/
def pAt (alpha : ℝ) (pre : List (Gen.Beta R)) (i : Nat) : ℝ × ℝ :=
  match pre[i]? with
  | some b => (b.alpha.val, b.beta.val)
  | none => (alpha, 1)

theorem pAt_postP (alpha : R) (pre : List (Gen.Beta R)) (ps : List (Nat × Nat)) (i : Nat) :
    pAt alpha.val (postP alpha pre ps) i
      = ((pAt alpha.val pre i).1 + ((ps.getD i (0, 0)).1 : ℝ), (pAt alpha.val pre i).2 + ((ps.getD i (0, 0)).2 : ℝ)) := by
  induction pre generalizing ps i with
  | nil =>
    induction ps generalizing i with
    | nil => simp [postP, pAt]
    | cons p ps ih =>
      obtain ⟨s, c⟩ := p
      cases i with
      | zero => simp [postP, pAt, lit1]; norm_num
      | succ i => simpa [postP, pAt] using ih i
  | cons b bs ih =>
    cases ps with
    | nil => simp [pAt]
    | cons p ps =>
      obtain ⟨s, c⟩ := p
      cases i with
      | zero => simp [postP, pAt]
      | succ i => simpa [postP, pAt] using ih ps i

theorem postP_postP (alpha : R) (pre : List (Gen.Beta R)) (p1 p2 : List (Nat × Nat)) :
    postP alpha (postP alpha pre p1) p2 = postP alpha pre (addP p1 p2) := by
  induction pre generalizing p1 p2 with
  | nil =>
    induction p1 generalizing p2 with
    | nil => simp
    | cons q1 r1 ih =>
      obtain ⟨s1, c1⟩ := q1
      cases p2 with
      | nil => simp
      | cons q2 r2 =>
        obtain ⟨s2, c2⟩ := q2
        simp only [postP, addP_cons, ih r2, List.cons.injEq, Gen.Beta.mk.injEq, and_true]
        constructor <;> apply R.ext' <;> simp only [R.add_val, R.ofNatR_val, Nat.cast_add] <;> ring
  | cons b bs ih =>
    cases p1 with
    | nil => simp
    | cons q1 r1 =>
      obtain ⟨s1, c1⟩ := q1
      cases p2 with
      | nil => simp
      | cons q2 r2 =>
        obtain ⟨s2, c2⟩ := q2
        simp only [postP, addP_cons, ih r1 r2, List.cons.injEq, Gen.Beta.mk.injEq, and_true]
        constructor <;> apply R.ext' <;> simp only [R.add_val, R.ofNatR_val, Nat.cast_add] <;> ring

theorem postTot_postTot (sb : SB R) (c1 c2 : List Nat) :
    postTot (postTot sb c1) c2 = postTot sb (addC c1 c2) := by
  simp only [postTot, postP_postP, bp_addC]

/-! ### log-Beta normalisers and `rising_beta_prod` -/

/-- `ln B(a, b)` -/
noncomputable def lB (a b : ℝ) : ℝ := Real.log (Real.Gamma a * Real.Gamma b / Real.Gamma (a + b))

/-- `ln B(a + s, b + c) − ln B(a, b)`: the log marginal likelihood of `s` passes and `c` failures at a `Beta(a, b)` break -/
noncomputable def Dlb (a b : ℝ) (s c : ℕ) : ℝ := lB (a + s) (b + c) - lB a b

theorem Dlb_zero (a b : ℝ) : Dlb a b 0 0 = 0 := by simp [Dlb]

theorem Dlb_add (a b : ℝ) (s1 c1 s2 c2 : ℕ) :
    Dlb (a + s1) (b + c1) s2 c2 = Dlb a b (s1 + s2) (c1 + c2) - Dlb a b s1 c1 := by
  simp only [Dlb, Nat.cast_add, add_assoc]
  ring

/-- `B(a, 1) = 1 / a` -/
theorem lB_one {a : ℝ} (ha : 0 < a) : lB a 1 = - Real.log a := by
  have hGa := Real.Gamma_pos_of_pos ha
  rw [lB, Real.Gamma_add_one ha.ne', Real.Gamma_one, ← Real.log_inv]
  congr 1
  field_simp

/-- first loop of `rising_beta_prod` -/
theorem rising_loop1 (x xy : R) (hx : 0 < x.val) (hxy : 0 < xy.val) (n : ℕ) :
    ((List.range n).foldl (fun (r : R) k => (let k := (RealLike.ofNatR k : R); (r * (x + k)) / (xy + k))) (1.0 : R)).val
      = Real.Gamma (x.val + n) * Real.Gamma xy.val / (Real.Gamma x.val * Real.Gamma (xy.val + n)) := by
  induction n with
  | zero =>
    have h1 := (Real.Gamma_pos_of_pos hx).ne'
    have h2 := (Real.Gamma_pos_of_pos hxy).ne'
    simp only [List.range_zero, List.foldl_nil, Nat.cast_zero, add_zero, lit1]
    field_simp
  | succ n ih =>
    rw [List.range_succ, List.foldl_append]
    simp only [List.foldl_cons, List.foldl_nil, R.div_val, R.mul_val, R.add_val, R.ofNatR_val, ih]
    have hxn : 0 < x.val + n := by positivity
    have hxyn : 0 < xy.val + n := by positivity
    have e1 : Real.Gamma (x.val + (n + 1 : ℕ)) = (x.val + n) * Real.Gamma (x.val + n) := by
      rw [Nat.cast_add, Nat.cast_one, ← add_assoc]; exact Real.Gamma_add_one hxn.ne'
    have e2 : Real.Gamma (xy.val + (n + 1 : ℕ)) = (xy.val + n) * Real.Gamma (xy.val + n) := by
      rw [Nat.cast_add, Nat.cast_one, ← add_assoc]; exact Real.Gamma_add_one hxyn.ne'
    rw [e1, e2]
    have h1 := (Real.Gamma_pos_of_pos hx).ne'
    have h2 := (Real.Gamma_pos_of_pos hxyn).ne'
    field_simp

/-- second loop of `rising_beta_prod` (any start value) -/
theorem rising_loop2 (y z r0 : R) (hy : 0 < y.val) (hz : 0 < z.val) (m : ℕ) :
    ((List.range m).foldl (fun (r : R) k => (let k := (RealLike.ofNatR k : R); (r * (y + k)) / (z + k))) r0).val
      = r0.val * (Real.Gamma (y.val + m) * Real.Gamma z.val / (Real.Gamma y.val * Real.Gamma (z.val + m))) := by
  induction m with
  | zero =>
    have h1 := (Real.Gamma_pos_of_pos hy).ne'
    have h2 := (Real.Gamma_pos_of_pos hz).ne'
    simp
    field_simp
  | succ n ih =>
    rw [List.range_succ, List.foldl_append]
    simp only [List.foldl_cons, List.foldl_nil, R.div_val, R.mul_val, R.add_val, R.ofNatR_val, ih]
    have hxn : 0 < y.val + n := by positivity
    have hxyn : 0 < z.val + n := by positivity
    have e1 : Real.Gamma (y.val + (n + 1 : ℕ)) = (y.val + n) * Real.Gamma (y.val + n) := by
      rw [Nat.cast_add, Nat.cast_one, ← add_assoc]; exact Real.Gamma_add_one hxn.ne'
    have e2 : Real.Gamma (z.val + (n + 1 : ℕ)) = (z.val + n) * Real.Gamma (z.val + n) := by
      rw [Nat.cast_add, Nat.cast_one, ← add_assoc]; exact Real.Gamma_add_one hxyn.ne'
    rw [e1, e2]
    have h1 := (Real.Gamma_pos_of_pos hy).ne'
    have h2 := (Real.Gamma_pos_of_pos hxyn).ne'
    field_simp

/-- `rising_beta_prod(a, s, b, c) = B(a + s, b + c) / B(a, b)` -/
theorem rising_val (a b : R) (ha : 0 < a.val) (hb : 0 < b.val) (s c : ℕ) :
    (risingBetaProd a s b c).val
      = (Real.Gamma (a.val + s) * Real.Gamma (b.val + c) / Real.Gamma (a.val + s + (b.val + c)))
        / (Real.Gamma a.val * Real.Gamma b.val / Real.Gamma (a.val + b.val)) := by
  have hab : 0 < (a + b : R).val := by simp only [R.add_val]; positivity
  have habs : 0 < (a + b + RealLike.ofNatR s : R).val := by simp only [R.add_val, R.ofNatR_val]; positivity
  simp only [risingBetaProd]
  rw [rising_loop2 b (a + b + RealLike.ofNatR s) _ hb habs c, rising_loop1 a (a + b) ha hab s]
  simp only [R.add_val, R.ofNatR_val]
  have g1 := (Real.Gamma_pos_of_pos ha).ne'
  have g2 := (Real.Gamma_pos_of_pos hb).ne'
  have g3 := (Real.Gamma_pos_of_pos (show 0 < a.val + b.val by positivity)).ne'
  have g4 := (Real.Gamma_pos_of_pos (show 0 < a.val + b.val + (s : ℝ) by positivity)).ne'
  have g5 := (Real.Gamma_pos_of_pos (show 0 < a.val + b.val + (s : ℝ) + (c : ℝ) by positivity)).ne'
  have g6 := (Real.Gamma_pos_of_pos (show 0 < a.val + (s : ℝ) by positivity)).ne'
  have g7 := (Real.Gamma_pos_of_pos (show 0 < b.val + (c : ℝ) by positivity)).ne'
  have e : a.val + (s : ℝ) + (b.val + (c : ℝ)) = a.val + b.val + (s : ℝ) + (c : ℝ) := by ring
  rw [e]
  field_simp

theorem ln_rising_val (a b : R) (ha : 0 < a.val) (hb : 0 < b.val) (s c : ℕ) :
    (RealLike.ln (risingBetaProd a s b c)).val = Dlb a.val b.val s c := by
  rw [R.ln_val, rising_val a b ha hb, Dlb, lB, lB]
  have g1 := Real.Gamma_pos_of_pos ha
  have g2 := Real.Gamma_pos_of_pos hb
  have g3 := Real.Gamma_pos_of_pos (show 0 < a.val + b.val by positivity)
  have g6 := Real.Gamma_pos_of_pos (show 0 < a.val + (s : ℝ) by positivity)
  have g7 := Real.Gamma_pos_of_pos (show 0 < b.val + (c : ℝ) by positivity)
  have g5 := Real.Gamma_pos_of_pos (show 0 < a.val + (s : ℝ) + (b.val + (c : ℝ)) by positivity)
  rw [Real.log_div (by positivity) (by positivity)]

/-! ### `ln_m` as a real recursion -/

/-- parameters of the prefix as real pairs -/
def paramsR (pre : List (Gen.Beta R)) : List (ℝ × ℝ) := pre.map (fun b => (b.alpha.val, b.beta.val))

/-- `ln_m`: the sum over the breaks of `ln B(α_i + s_i, β_i + c_i) − ln B(α_i, β_i)` -/
noncomputable def lnMR (alpha : ℝ) : List (ℝ × ℝ) → List (ℕ × ℕ) → ℝ
  | _, [] => 0
  | [], (s, c) :: ps => Dlb alpha 1 s c + lnMR alpha [] ps
  | (a, b) :: qs, (s, c) :: ps => Dlb a b s c + lnMR alpha qs ps

@[simp] theorem lnMR_nil (alpha : ℝ) (qs : List (ℝ × ℝ)) : lnMR alpha qs [] = 0 := by
  cases qs <;> simp [lnMR]

theorem lnMArm_sum (alpha : R) (ha : 0 < alpha.val) (pre : List (Gen.Beta R)) (hv : ValidPre pre)
    (ps : List (Nat × Nat)) :
    (((zipLongest ps (pre.map (fun b => (Gen.Beta.get_alpha b, Gen.Beta.get_beta b)))).map (lnMArm alpha)).map R.val).sum
      = lnMR alpha.val (paramsR pre) ps := by
  induction pre generalizing ps with
  | nil =>
    induction ps with
    | nil => simp [zipLongest]
    | cons p ps ih =>
      obtain ⟨s, c⟩ := p
      simp only [List.map_nil] at ih ⊢
      simp only [zipLongest, List.map_cons, List.sum_cons, ih, lnMArm, paramsR, List.map_nil, lnMR,
        R.sub_val, R.lnBeta_val, R.add_val, R.ofNatR_val, lit1, Dlb, lB]
      congr 2
      · rw [add_comm (s : ℝ) alpha.val, add_comm (c : ℝ) 1]
  | cons b bs ih =>
    obtain ⟨⟨hba, hbb⟩, hbs⟩ := validPre_cons.mp hv
    cases ps with
    | nil =>
      have := ih hbs []
      simp only [lnMR_nil] at this
      simp only [List.map_cons, zipLongest, List.sum_cons, lnMArm, lit0, this, add_zero, lnMR_nil]
    | cons p ps =>
      obtain ⟨s, c⟩ := p
      have := ih hbs ps
      simp only [Gen.Beta.get_alpha, Gen.Beta.get_beta, paramsR] at this
      simp only [List.map_cons, zipLongest, List.sum_cons, this, lnMArm, Gen.Beta.get_alpha, Gen.Beta.get_beta,
        ln_rising_val b.alpha b.beta hba hbb s c, paramsR, lnMR]

theorem lnMStat_val (sb : SB R) (hv : ValidSB sb) (st : Stat R) :
    (lnMStat sb st).val = lnMR sb.break_tail.alpha.val (paramsR sb.break_prefix) (bp st.counts) := by
  simp only [lnMStat, sumRust_val, Stat.breakPairs, breakPairsC_eq, Gen.UnitPowerLaw.get_alpha]
  exact lnMArm_sum _ hv.1 _ hv.2 _

/-- no data: every arm is `Right`, value `0.0` — holds for ANY prior -/
theorem lnMArm_sum_nil (alpha : R) (qs : List (R × R)) :
    (((zipLongest ([] : List (Nat × Nat)) qs).map (lnMArm alpha)).map R.val).sum = 0 := by
  induction qs with
  | nil => simp [zipLongest]
  | cons q qs ih => simp only [List.map_cons, zipLongest, List.sum_cons, lnMArm, lit0, ih, add_zero]

/-- telescoping: the marginal likelihood under the posterior is the ratio of marginal likelihoods under the prior -/
theorem lnMR_postP (alpha : R) (pre : List (Gen.Beta R)) (p1 p2 : List (Nat × Nat)) :
    lnMR alpha.val (paramsR (postP alpha pre p1)) p2
      = lnMR alpha.val (paramsR pre) (addP p1 p2) - lnMR alpha.val (paramsR pre) p1 := by
  induction pre generalizing p1 p2 with
  | nil =>
    induction p1 generalizing p2 with
    | nil => simp [postP, paramsR]
    | cons q1 r1 ih =>
      obtain ⟨s1, c1⟩ := q1
      cases p2 with
      | nil => simp
      | cons q2 r2 =>
        obtain ⟨s2, c2⟩ := q2
        have := ih r2
        simp only [paramsR, List.map_nil] at this
        simp only [postP, paramsR, List.map_cons, List.map_nil, addP_cons, lnMR, this, R.add_val, R.ofNatR_val, lit1,
          Dlb_add]
        ring
  | cons b bs ih =>
    cases p1 with
    | nil => simp
    | cons q1 r1 =>
      obtain ⟨s1, c1⟩ := q1
      cases p2 with
      | nil => simp
      | cons q2 r2 =>
        obtain ⟨s2, c2⟩ := q2
        have := ih r1 r2
        simp only [paramsR] at this
        simp only [postP, paramsR, List.map_cons, addP_cons, lnMR, this, R.add_val, R.ofNatR_val, Dlb_add]
        ring

/-! ### the density on break sequences / partial weights -/

/-- `ln_f` on a break sequence as a real recursion: `Beta(a, b)` log-densities on the prefix, `UnitPowerLaw(α)` beyond -/
noncomputable def lnFR (alpha : ℝ) : List (ℝ × ℝ) → List ℝ → ℝ
  | _, [] => 0
  | [], p :: ps => (Real.log p * (alpha - 1) + Real.log alpha) + lnFR alpha [] ps
  | (a, b) :: qs, p :: ps => ((a - 1) * Real.log p + (b - 1) * Real.log (1 - p) - lB a b) + lnFR alpha qs ps

@[simp] theorem lnFR_nil (alpha : ℝ) (qs : List (ℝ × ℝ)) : lnFR alpha qs [] = 0 := by
  cases qs <;> simp [lnFR]

theorem lnFTerms_sum (tail : Gen.UnitPowerLaw R) (pre : List (Gen.Beta R)) (ps : List R) :
    ((lnFTerms tail pre ps).map R.val).sum = lnFR tail.alpha.val (paramsR pre) (ps.map R.val) := by
  induction pre generalizing ps with
  | nil =>
    induction ps with
    | nil => simp [lnFTerms, paramsR]
    | cons p ps ih =>
      simp only [paramsR, List.map_nil] at ih
      simp only [lnFTerms, List.map_cons, List.sum_cons, ih, paramsR, List.map_nil, lnFR,
        Gen.UnitPowerLaw.ln_f_real, Gen.UnitPowerLaw.alpha_ln, mulAdd, R.add_val, R.mul_val, R.sub_val, R.ln_val, lit1]
  | cons b bs ih =>
    cases ps with
    | nil => simp [lnFTerms]
    | cons p ps =>
      have := ih ps
      simp only [paramsR] at this
      simp only [lnFTerms, List.map_cons, List.sum_cons, this, paramsR, lnFR, Gen.Beta.ln_f_real, Gen.Beta.ln_beta_ab,
        mulAdd, R.add_val, R.mul_val, R.sub_val, R.ln_val, R.lnBeta_val, lit1, lB]

theorem lnFBreaks_val (sb : SB R) (ps : List R) :
    (lnFBreaks sb ps).val = lnFR sb.break_tail.alpha.val (paramsR sb.break_prefix) (ps.map R.val) := by
  simp only [lnFBreaks, sumRust_val, lnFTerms_sum]

/-- log-likelihood of the count pairs as a function of the breaks: `Σ s_i ln p_i + c_i ln (1 − p_i)` -/
noncomputable def LL : List (ℕ × ℕ) → List ℝ → ℝ
  | (s, c) :: pr, p :: ps => ((s : ℝ) * Real.log p + (c : ℝ) * Real.log (1 - p)) + LL pr ps
  | [], _ => 0
  | _ :: _, [] => 0

@[simp] theorem LL_nil (ps : List ℝ) : LL [] ps = 0 := by cases ps <;> simp [LL]

/-- Bayes' rule on the log-density, in terms of the breaks (an algebraic identity in `ln p_i`, `ln (1 − p_i)`) -/
theorem lnFR_postP (alpha : R) (ha : 0 < alpha.val) (pre : List (Gen.Beta R)) (pairs : List (ℕ × ℕ)) (ps : List ℝ)
    (hlen : pairs.length ≤ ps.length) :
    lnFR alpha.val (paramsR (postP alpha pre pairs)) ps
      = lnFR alpha.val (paramsR pre) ps + LL pairs ps - lnMR alpha.val (paramsR pre) pairs := by
  induction pre generalizing pairs ps with
  | nil =>
    induction pairs generalizing ps with
    | nil => simp [postP]
    | cons q pr ih =>
      obtain ⟨s, c⟩ := q
      cases ps with
      | nil => simp at hlen
      | cons p ps =>
        have hl : pr.length ≤ ps.length := by simpa using hlen
        have := ih ps hl
        simp only [paramsR, List.map_nil] at this
        simp only [postP, paramsR, List.map_cons, List.map_nil, lnFR, LL, lnMR, this, R.add_val, R.ofNatR_val, lit1,
          Dlb, lB_one ha]
        ring
  | cons b bs ih =>
    cases pairs with
    | nil => simp
    | cons q pr =>
      obtain ⟨s, c⟩ := q
      cases ps with
      | nil => simp at hlen
      | cons p ps =>
        have hl : pr.length ≤ ps.length := by simpa using hlen
        have := ih pr ps hl
        simp only [paramsR] at this
        simp only [postP, paramsR, List.map_cons, lnFR, LL, lnMR, this, R.add_val, R.ofNatR_val, Dlb]
        ring

/-- partial weights in the interior of the support: every weight positive, every remaining mass positive -/
def PosW (r : ℝ) : List R → Prop
  | [] => True
  | w :: ws => 0 < w.val ∧ w.val < r ∧ PosW (r - w.val) ws

/-- `Σ c_i ln w_i` — `StickBreakingDiscrete::ln_f_stat` on the weights -/
noncomputable def LLW : List R → List ℕ → ℝ
  | w :: ws, c :: cs => (c : ℝ) * Real.log w.val + LLW ws cs
  | [], _ => 0
  | _ :: _, [] => 0

theorem lnFStatOfWeights_val (ws : List R) (counts : List ℕ) : (lnFStatOfWeights ws counts).val = LLW ws counts := by
  simp only [lnFStatOfWeights, sumRust_val]
  induction ws generalizing counts with
  | nil => simp [LLW]
  | cons w ws ih =>
    cases counts with
    | nil => simp [LLW]
    | cons c cs => simp [LLW, ← ih cs, Function.comp_def]

theorem LLW_eq (r : R) (hr : 0 < r.val) (ws : List R) (hw : PosW r.val ws) (counts : List ℕ)
    (hlen : counts.length ≤ ws.length) :
    LLW ws counts = (counts.sum : ℝ) * Real.log r.val + LL (bp counts) ((breaksOfWeightsAux r ws).map R.val) := by
  induction ws generalizing r counts with
  | nil =>
    cases counts with
    | nil => simp [LLW, bp]
    | cons c cs => simp at hlen
  | cons w ws ih =>
    cases counts with
    | nil => simp [LLW, bp]
    | cons c cs =>
      obtain ⟨hw0, hwr, hrest⟩ := hw
      have hl : cs.length ≤ ws.length := by simpa using hlen
      have hr' : 0 < (r - w : R).val := by simp only [R.sub_val]; linarith
      have := ih (r - w) hr' (by simpa only [R.sub_val] using hrest) cs hl
      simp only [LLW, bp, breaksOfWeightsAux, List.map_cons, LL, this, R.div_val, R.sub_val, List.sum_cons, Nat.cast_add]
      have hrw : 0 < r.val - w.val := by linarith
      have e1 : Real.log ((r.val - w.val) / r.val) = Real.log (r.val - w.val) - Real.log r.val :=
        Real.log_div hrw.ne' hr.ne'
      have e2 : 1 - (r.val - w.val) / r.val = w.val / r.val := by field_simp; ring
      rw [e1, e2, Real.log_div hw0.ne' hr.ne']
      ring

theorem breaks_mem_unit (r : R) (hr : 0 < r.val) (ws : List R) (hw : PosW r.val ws) :
    ∀ b ∈ breaksOfWeightsAux r ws, 0 < b.val ∧ b.val < 1 := by
  induction ws generalizing r with
  | nil => intro b hb; simp [breaksOfWeightsAux] at hb
  | cons w ws ih =>
    obtain ⟨hw0, hwr, hrest⟩ := hw
    have hr' : 0 < (r - w : R).val := by simp only [R.sub_val]; linarith
    intro b hb
    simp only [breaksOfWeightsAux, List.mem_cons] at hb
    rcases hb with rfl | hb
    · simp only [R.div_val, R.sub_val]
      constructor
      · apply div_pos <;> linarith
      · rw [div_lt_one hr]; linarith
    · exact ih (r - w) hr' (by simpa only [R.sub_val] using hrest) b hb

theorem breaksOfWeights_ok (ws : List R) (hne : ws ≠ []) (hw : PosW 1 ws) :
    breaksOfWeights ws = some (breaksOfWeightsAux (1.0 : R) ws) := by
  have h1 : 0 < ((1.0 : R)).val := by rw [lit1]; norm_num
  have hmem := breaks_mem_unit (1.0 : R) h1 ws (by simpa only [lit1] using hw)
  have hne' : breaksOfWeightsAux (1.0 : R) ws ≠ [] := by
    cases ws with
    | nil => exact absurd rfl hne
    | cons w ws => simp [breaksOfWeightsAux]
  simp only [breaksOfWeights]
  rw [List.getLast?_eq_getLast_of_ne_nil hne']
  have hl := hmem _ (List.getLast_mem hne')
  have c1 : RealLike.le (0.0 : R) ((breaksOfWeightsAux (1.0 : R) ws).getLast hne') = true := by
    rw [R.le_iff, lit0]; exact hl.1.le
  have c2 : RealLike.le ((breaksOfWeightsAux (1.0 : R) ws).getLast hne') (1.0 : R) = true := by
    rw [R.le_iff, lit1]; exact hl.2.le
  simp [c1, c2]

theorem length_breaksOfWeightsAux (r : R) (ws : List R) : (breaksOfWeightsAux r ws).length = ws.length := by
  induction ws generalizing r with
  | nil => rfl
  | cons w ws ih => simp [breaksOfWeightsAux, ih]

/-- round trip `BreakSequence → PartialWeights → BreakSequence` (non-zero breaks) -/
theorem breaks_weights_roundtrip (r : R) (hr : r.val ≠ 0) (bs : List R) (hb : ∀ b ∈ bs, b.val ≠ 0) :
    breaksOfWeightsAux r (weightsOfBreaksAux r bs) = bs := by
  induction bs generalizing r with
  | nil => rfl
  | cons b bs ih =>
    have hb0 : b.val ≠ 0 := hb b (by simp)
    have e : r - ((1.0 : R) - b) * r = r * b := by
      apply R.ext'; simp only [R.sub_val, R.mul_val, lit1]; ring
    simp only [weightsOfBreaksAux, breaksOfWeightsAux, e]
    have e2 : (r * b) / r = b := by
      apply R.ext'; simp only [R.div_val, R.mul_val]; field_simp
    rw [e2, ih (r * b) (by simp only [R.mul_val]; exact mul_ne_zero hr hb0) (fun b' hb' => hb b' (by simp [hb']))]

/-! ### specification-side vocabulary of the property statements -/

/-- number of observations equal to `i` -/
def nAt (counts : List ℕ) (i : ℕ) : ℕ := counts.getD i 0
/-- number of observations greater than `i` -/
def nBeyond (counts : List ℕ) (i : ℕ) : ℕ := (counts.drop (i + 1)).sum
/-- `(α_i, β_i)` of break `i` of a stick-breaking prior: prefix `Beta(α_i, β_i)`, beyond it the tail `UnitPowerLaw(α) = Beta(α, 1)` -/
def paramAt (sb : SB R) (i : ℕ) : ℝ × ℝ := pAt sb.break_tail.alpha.val sb.break_prefix i

theorem getD_unitC (x i : ℕ) : (unitC x).getD i 0 = if i = x then 1 else 0 := by
  induction x generalizing i with
  | zero => cases i <;> simp [unitC]
  | succ x ih =>
    have : unitC (x + 1) = 0 :: unitC x := by simp [unitC, List.replicate_succ]
    rw [this]
    cases i with
    | zero => simp
    | succ i => simpa using ih i

/-- the statistic counts: entry `i` is the number of observations equal to `i` -/
theorem getD_countsOf (xs : List ℕ) (i : ℕ) : (countsOf xs).getD i 0 = xs.count i := by
  induction xs with
  | nil => simp [countsOf_nil]
  | cons x xs ih =>
    rw [countsOf_cons, getD_addC, getD_unitC, ih, List.count_cons]
    by_cases h : i = x
    · subst h; simp; omega
    · have h' : ¬ (x = i) := fun e => h e.symm
      simp [h, h']

theorem length_unitC (x : ℕ) : (unitC x).length = x + 1 := by simp [unitC]

/-- … and its length is one more than the largest observation (0 without data) -/
theorem length_countsOf (xs : List ℕ) : (countsOf xs).length = xs.foldr (fun x m => max (x + 1) m) 0 := by
  induction xs with
  | nil => simp [countsOf_nil]
  | cons x xs ih => rw [countsOf_cons, length_addC, length_unitC, ih]; rfl

theorem posW_of_pos_sum (r : ℝ) (ws : List R) (hpos : ∀ w ∈ ws, 0 < w.val) (hsum : (ws.map R.val).sum < r) :
    PosW r ws := by
  induction ws generalizing r with
  | nil => trivial
  | cons w ws ih =>
    have hw : 0 < w.val := hpos w (by simp)
    have hrest : ∀ w' ∈ ws, 0 < w'.val := fun w' h => hpos w' (by simp [h])
    have hnn : 0 ≤ (ws.map R.val).sum := by
      apply List.sum_nonneg
      intro x hx
      obtain ⟨w', hw', rfl⟩ := List.mem_map.mp hx
      exact (hrest w' hw').le
    simp only [List.map_cons, List.sum_cons] at hsum
    exact ⟨hw, by linarith, ih (r - w.val) hrest (by linarith)⟩

/-- `ln_m` as the finite sum over the breaks that carry data -/
theorem lnMR_eq_sum (alpha : ℝ) (pre : List (Gen.Beta R)) (ps : List (ℕ × ℕ)) :
    lnMR alpha (paramsR pre) ps
      = ∑ i ∈ Finset.range ps.length,
          Dlb (pAt alpha pre i).1 (pAt alpha pre i).2 (ps.getD i (0, 0)).1 (ps.getD i (0, 0)).2 := by
  induction ps generalizing pre with
  | nil => simp
  | cons q ps ih =>
    obtain ⟨s, c⟩ := q
    rw [List.length_cons, Finset.sum_range_succ']
    cases pre with
    | nil =>
      have := ih []
      simp only [paramsR, List.map_nil] at this
      simp only [paramsR, List.map_nil, lnMR, this]
      simp [pAt, add_comm]
    | cons b bs =>
      have := ih bs
      simp only [paramsR] at this
      simp only [paramsR, List.map_cons, lnMR, this]
      simp [pAt, add_comm]

/-! ### the posterior predictive as a distribution over ℕ -/

/-- positivity of real parameter pairs -/
def PosQ (qs : List (ℝ × ℝ)) : Prop := ∀ q ∈ qs, 0 < q.1 ∧ 0 < q.2

theorem posQ_cons {q : ℝ × ℝ} {qs : List (ℝ × ℝ)} : PosQ (q :: qs) ↔ (0 < q.1 ∧ 0 < q.2) ∧ PosQ qs := by
  simp [PosQ]

theorem posQ_paramsR (pre : List (Gen.Beta R)) (hv : ValidPre pre) : PosQ (paramsR pre) := by
  intro q hq
  obtain ⟨b, hb, rfl⟩ := List.mem_map.mp hq
  exact hv b hb

/-- predictive probability of `y`: pass breaks `0 … y−1` (probability `E p_i = a_i / (a_i + b_i)`), fail break `y` -/
noncomputable def predR (alpha : ℝ) : List (ℝ × ℝ) → ℕ → ℝ
  | [], 0 => 1 / (alpha + 1)
  | [], y + 1 => alpha / (alpha + 1) * predR alpha [] y
  | (a, b) :: _, 0 => b / (a + b)
  | (a, b) :: qs, y + 1 => a / (a + b) * predR alpha qs y

/-- probability of passing the first `Y` breaks -/
noncomputable def tailR (alpha : ℝ) : List (ℝ × ℝ) → ℕ → ℝ
  | _, 0 => 1
  | [], y + 1 => alpha / (alpha + 1) * tailR alpha [] y
  | (a, b) :: qs, y + 1 => a / (a + b) * tailR alpha qs y

theorem pred_partial_sum (alpha : ℝ) (ha : 0 < alpha) (qs : List (ℝ × ℝ)) (hq : PosQ qs) (Y : ℕ) :
    ∑ y ∈ Finset.range Y, predR alpha qs y = 1 - tailR alpha qs Y := by
  induction Y generalizing qs with
  | zero => cases qs <;> simp [tailR]
  | succ Y ih =>
    rw [Finset.sum_range_succ']
    cases qs with
    | nil =>
      have := ih [] hq
      simp only [predR, tailR, ← Finset.mul_sum, this]
      have : alpha + 1 ≠ 0 := by positivity
      field_simp
      ring
    | cons q qs =>
      obtain ⟨a, b⟩ := q
      obtain ⟨⟨h1, h2⟩, hqs⟩ := posQ_cons.mp hq
      have := ih qs hqs
      simp only [predR, tailR, ← Finset.mul_sum, this]
      have : a + b ≠ 0 := by positivity
      field_simp
      ring

theorem predR_nonneg (alpha : ℝ) (ha : 0 < alpha) (qs : List (ℝ × ℝ)) (hq : PosQ qs) (y : ℕ) : 0 ≤ predR alpha qs y := by
  induction y generalizing qs with
  | zero =>
    cases qs with
    | nil => simp only [predR]; positivity
    | cons q qs =>
      obtain ⟨a, b⟩ := q
      obtain ⟨⟨h1, h2⟩, _⟩ := posQ_cons.mp hq
      simp only [predR]; positivity
  | succ y ih =>
    cases qs with
    | nil => simp only [predR]; exact mul_nonneg (by positivity) (ih [] hq)
    | cons q qs =>
      obtain ⟨a, b⟩ := q
      obtain ⟨⟨h1, h2⟩, hqs⟩ := posQ_cons.mp hq
      simp only [predR]; exact mul_nonneg (by positivity) (ih qs hqs)

theorem tailR_nil (alpha : ℝ) (k : ℕ) : tailR alpha [] k = (alpha / (alpha + 1)) ^ k := by
  induction k with
  | zero => simp [tailR]
  | succ k ih => simp [tailR, ih, pow_succ, mul_comm]

theorem tailR_tendsto (alpha : ℝ) (ha : 0 < alpha) (qs : List (ℝ × ℝ)) :
    Filter.Tendsto (tailR alpha qs) Filter.atTop (nhds 0) := by
  induction qs with
  | nil =>
    have h : tailR alpha [] = fun k => (alpha / (alpha + 1)) ^ k := funext (tailR_nil alpha)
    rw [h]
    apply tendsto_pow_atTop_nhds_zero_of_lt_one (by positivity)
    rw [div_lt_one (by positivity)]; linarith
  | cons q qs ih =>
    obtain ⟨a, b⟩ := q
    rw [← Filter.tendsto_add_atTop_iff_nat 1]
    have h : (fun n => tailR alpha ((a, b) :: qs) (n + 1)) = fun n => a / (a + b) * tailR alpha qs n := by
      funext n; simp [tailR]
    rw [h]
    simpa using ih.const_mul (a / (a + b))

theorem pred_hasSum (alpha : ℝ) (ha : 0 < alpha) (qs : List (ℝ × ℝ)) (hq : PosQ qs) :
    HasSum (predR alpha qs) 1 := by
  rw [hasSum_iff_tendsto_nat_of_nonneg (predR_nonneg alpha ha qs hq)]
  have h : (fun n => ∑ i ∈ Finset.range n, predR alpha qs i) = fun n => 1 - tailR alpha qs n :=
    funext (pred_partial_sum alpha ha qs hq)
  rw [h]
  simpa using (tailR_tendsto alpha ha qs).const_sub 1

theorem Dlb_pass {a b : ℝ} (ha : 0 < a) (hb : 0 < b) : Dlb a b 1 0 = Real.log (a / (a + b)) := by
  have hGa := Real.Gamma_pos_of_pos ha
  have hGb := Real.Gamma_pos_of_pos hb
  have hab := add_pos ha hb
  have hGab := Real.Gamma_pos_of_pos hab
  have e1 : Real.Gamma (a + 1) = a * Real.Gamma a := Real.Gamma_add_one ha.ne'
  have e2 : Real.Gamma (a + 1 + b) = (a + b) * Real.Gamma (a + b) := by
    rw [show a + 1 + b = (a + b) + 1 by ring]; exact Real.Gamma_add_one hab.ne'
  simp only [Dlb, lB, Nat.cast_one, Nat.cast_zero, add_zero]
  rw [e1, e2, ← Real.log_div (by positivity) (by positivity)]
  congr 1
  field_simp

theorem Dlb_fail {a b : ℝ} (ha : 0 < a) (hb : 0 < b) : Dlb a b 0 1 = Real.log (b / (a + b)) := by
  have hGa := Real.Gamma_pos_of_pos ha
  have hGb := Real.Gamma_pos_of_pos hb
  have hab := add_pos ha hb
  have hGab := Real.Gamma_pos_of_pos hab
  have e1 : Real.Gamma (b + 1) = b * Real.Gamma b := Real.Gamma_add_one hb.ne'
  have e2 : Real.Gamma (a + (b + 1)) = (a + b) * Real.Gamma (a + b) := by
    rw [show a + (b + 1) = (a + b) + 1 by ring]; exact Real.Gamma_add_one hab.ne'
  simp only [Dlb, lB, Nat.cast_one, Nat.cast_zero, add_zero]
  rw [e1, e2, ← Real.log_div (by positivity) (by positivity)]
  congr 1
  field_simp

/-- marginal likelihood of the single observation `y` -/
theorem exp_lnMR_unit (alpha : ℝ) (ha : 0 < alpha) (qs : List (ℝ × ℝ)) (hq : PosQ qs) (y : ℕ) :
    Real.exp (lnMR alpha qs (bp (unitC y))) = predR alpha qs y := by
  rw [bp_unitC]
  induction y generalizing qs with
  | zero =>
    cases qs with
    | nil =>
      simp only [List.replicate_zero, List.nil_append, lnMR, add_zero, predR, Dlb_fail ha one_pos]
      rw [Real.exp_log (by positivity)]
    | cons q qs =>
      obtain ⟨a, b⟩ := q
      obtain ⟨⟨h1, h2⟩, _⟩ := posQ_cons.mp hq
      simp only [List.replicate_zero, List.nil_append, lnMR, lnMR_nil, add_zero, predR, Dlb_fail h1 h2]
      rw [Real.exp_log (by positivity)]
  | succ y ih =>
    cases qs with
    | nil =>
      simp only [List.replicate_succ, List.cons_append, lnMR, predR, Dlb_pass ha one_pos, Real.exp_add, ih [] hq]
      rw [Real.exp_log (by positivity)]
    | cons q qs =>
      obtain ⟨a, b⟩ := q
      obtain ⟨⟨h1, h2⟩, hqs⟩ := posQ_cons.mp hq
      simp only [List.replicate_succ, List.cons_append, lnMR, predR, Dlb_pass h1 h2, Real.exp_add, ih qs hqs]
      rw [Real.exp_log (by positivity)]

/-! ### the example prior of the `example`s in Props/C05S.lean -/

/-- a posterior used as a prior: prefix `[Beta(2, 3), Beta(7/2, 1)]`, tail `UnitPowerLaw(5)` -/
noncomputable def exSB : SB R := ⟨[⟨⟨2⟩, ⟨3⟩⟩, ⟨⟨7 / 2⟩, ⟨1⟩⟩], ⟨⟨5⟩⟩⟩

theorem exSB_valid : ValidSB exSB := by
  refine ⟨by simp [exSB], ?_⟩
  intro b hb
  simp only [exSB, List.mem_cons, List.not_mem_nil, or_false] at hb
  rcases hb with rfl | rfl <;> norm_num

/-! ### `ln_f_stat` of the statistic = sum of the pointwise `ln_f`, whatever prefix of the stick sequence is realised -/

open Hand.Stick in
theorem LLW_nil_right (ws : List R) : LLW ws [] = 0 := by cases ws <;> simp [LLW]

theorem LLW_addC (ws : List R) (c1 c2 : List ℕ) (h1 : c1.length ≤ ws.length) (h2 : c2.length ≤ ws.length) :
    LLW ws (addC c1 c2) = LLW ws c1 + LLW ws c2 := by
  induction ws generalizing c1 c2 with
  | nil =>
    have e1 : c1 = [] := List.length_eq_zero_iff.mp (by simpa using h1)
    have e2 : c2 = [] := List.length_eq_zero_iff.mp (by simpa using h2)
    simp [e1, e2, LLW]
  | cons w ws ih =>
    cases c1 with
    | nil => simp [LLW_nil_right]
    | cons a as =>
      cases c2 with
      | nil => simp [LLW_nil_right]
      | cons b bs =>
        have := ih as bs (by simpa using h1) (by simpa using h2)
        simp only [addC_cons, LLW, this, Nat.cast_add]
        ring

theorem LLW_unitC (ws : List R) (x : ℕ) (hx : x < ws.length) :
    LLW ws (unitC x) = Real.log (ws.getD x RealLike.nan).val := by
  induction ws generalizing x with
  | nil => simp at hx
  | cons w ws ih =>
    cases x with
    | zero => simp [unitC, LLW, LLW_nil_right]
    | succ x =>
      have e : unitC (x + 1) = 0 :: unitC x := by simp [unitC, List.replicate_succ]
      have := ih x (by simpa using hx)
      simp [e, LLW, this]

theorem length_countsOf_le (xs : List ℕ) (n : ℕ) (h : ∀ x ∈ xs, x < n) : (countsOf xs).length ≤ n := by
  induction xs with
  | nil => simp [countsOf_nil]
  | cons x xs ih =>
    rw [countsOf_cons, length_addC, length_unitC]
    have h1 : x < n := h x (by simp)
    have h2 := ih (fun y hy => h y (by simp [hy]))
    omega

theorem lt_length_countsOf (xs : List ℕ) : ∀ x ∈ xs, x < (countsOf xs).length := by
  induction xs with
  | nil => intro x hx; cases hx
  | cons y ys ih =>
    intro x hx
    rw [countsOf_cons, length_addC, length_unitC]
    rcases List.mem_cons.mp hx with rfl | h
    · omega
    · have := ih x h; omega

/-- on any weight vector covering the data, `Σ_i counts_i · ln w_i` of the statistic of `xs` is `Σ_{x ∈ xs} ln w_x` -/
theorem LLW_countsOf (ws : List R) (xs : List ℕ) (h : ∀ x ∈ xs, x < ws.length) :
    LLW ws (countsOf xs) = (xs.map (fun x => Real.log (ws.getD x RealLike.nan).val)).sum := by
  induction xs with
  | nil => simp [countsOf_nil, LLW_nil_right]
  | cons x xs ih =>
    have hx : x < ws.length := h x (by simp)
    have hrest : ∀ y ∈ xs, y < ws.length := fun y hy => h y (by simp [hy])
    rw [countsOf_cons, LLW_addC ws _ _ (by rw [length_unitC]; omega) (length_countsOf_le xs _ hrest),
      LLW_unitC ws x hx, ih hrest]
    simp

/-- the weighted sum only reads the first `counts.length` weights -/
theorem LLW_map_range' (f : ℕ → R) (k N : ℕ) (counts : List ℕ) (h : counts.length ≤ N) :
    LLW ((List.range' k N).map f) counts
      = ∑ i ∈ Finset.range counts.length, (counts.getD i 0 : ℝ) * Real.log (f (k + i)).val := by
  induction counts generalizing k N with
  | nil => simp [LLW_nil_right]
  | cons c cs ih =>
    cases N with
    | zero => simp at h
    | succ N =>
      have := ih (k + 1) N (by simpa using h)
      rw [List.range'_succ, List.map_cons, LLW, this, List.length_cons, Finset.sum_range_succ']
      simp only [List.getD_cons_succ, List.getD_cons_zero, Nat.add_zero]
      rw [add_comm]
      congr 1
      apply Finset.sum_congr rfl
      intro i _
      rw [show k + 1 + i = k + (i + 1) by omega]

open Hand.Stick C19 in
theorem sbdLnF_spec (breaks : ℕ → R) (s : S R) (hs : SInv breaks s) (x : ℕ) :
    (sbdLnF breaks s x).1.val = Real.log (weightFn breaks x).val ∧ SInv breaks (sbdLnF breaks s x).2 := by
  obtain ⟨h1, h2⟩ := ensure_spec breaks (x + 1) s hs
  have hl := sinv_length breaks _ h1
  have hd : x + 1 ≤ (ensureBreaks breaks (x + 1) s).drawn := by rw [h2]; exact Nat.le_max_right _ _
  refine ⟨?_, h1⟩
  simp only [sbdLnF, R.ln_val]
  rw [sinv_getD breaks _ h1 x (by omega), sinv_getD breaks _ h1 (x + 1) (by omega)]
  rfl

open Hand.Stick C19 in
theorem sbdLnFs_spec (breaks : ℕ → R) (s : S R) (hs : SInv breaks s) (xs : List ℕ) :
    (sbdLnFs breaks s xs).1.map R.val = xs.map (fun x => Real.log (weightFn breaks x).val)
      ∧ SInv breaks (sbdLnFs breaks s xs).2 := by
  induction xs generalizing s with
  | nil => exact ⟨rfl, hs⟩
  | cons x xs ih =>
    obtain ⟨e1, e2⟩ := sbdLnF_spec breaks s hs x
    obtain ⟨e3, e4⟩ := ih _ e2
    exact ⟨by simp only [sbdLnFs, List.map_cons, e1, e3], e4⟩

open Hand.Stick C19 in
/-- `ln_f_stat` as the finite sum `Σ_{i < len} counts_i · ln w_i` of the TRUE weights, from any realised state -/
theorem sbdLnFStat_spec (breaks : ℕ → R) (s : S R) (hs : SInv breaks s) (counts : List ℕ) :
    (sbdLnFStat breaks s counts).1.val
        = ∑ i ∈ Finset.range counts.length, (counts.getD i 0 : ℝ) * Real.log (weightFn breaks i).val
      ∧ SInv breaks (sbdLnFStat breaks s counts).2 := by
  obtain ⟨h1, h2⟩ := ensure_spec breaks counts.length s hs
  refine ⟨?_, h1⟩
  have hd : counts.length ≤ (ensureBreaks breaks counts.length s).drawn := by rw [h2]; exact Nat.le_max_right _ _
  simp only [sbdLnFStat]
  rw [lnFStatOfWeights_val, weightsOf_spec breaks _ h1, List.range_eq_range', LLW_map_range' _ 0 _ counts hd]
  simp

open Hand.Stick C19 in
theorem sbdLnFStat_countsOf (breaks : ℕ → R) (s : S R) (hs : SInv breaks s) (xs : List ℕ) :
    (sbdLnFStat breaks s (countsOf xs)).1.val = (xs.map (fun x => Real.log (weightFn breaks x).val)).sum := by
  obtain ⟨h1, h2⟩ := ensure_spec breaks (countsOf xs).length s hs
  have hd : (countsOf xs).length ≤ (ensureBreaks breaks (countsOf xs).length s).drawn := by
    rw [h2]; exact Nat.le_max_right _ _
  simp only [sbdLnFStat]
  rw [lnFStatOfWeights_val, weightsOf_spec breaks _ h1]
  have hcov : ∀ x ∈ xs, x < ((List.range (ensureBreaks breaks (countsOf xs).length s).drawn).map (weightFn breaks)).length := by
    intro x hx
    have := lt_length_countsOf xs x hx
    simp only [List.length_map, List.length_range]; omega
  rw [LLW_countsOf _ xs hcov]
  congr 1
  apply List.map_congr_left
  intro x hx
  have hx' : x < (ensureBreaks breaks (countsOf xs).length s).drawn := by
    have := lt_length_countsOf xs x hx; omega
  simp [List.getD_eq_getElem?_getD, List.getElem?_map, List.getElem?_range hx']

end C05SL
