import Mathlib.MeasureTheory.Integral.Bochner.Basic
import Mathlib.MeasureTheory.Integral.Bochner.Set
import Mathlib.MeasureTheory.Measure.Lebesgue.Basic
/-!
  Helper lemmas for Props/C02C.lean: passing from Mathlib's `∫⁻ ofReal(pdf) = 1` to a real integral of the
  generated density over the support.
-/
open MeasureTheory

namespace C02Lemmas

/-- real integral from the `ℝ≥0∞`-valued statement -/
theorem integral_eq_one_of_lintegral {f : ℝ → ℝ} (hm : Measurable f) (h0 : ∀ x, 0 ≤ f x)
    (h : ∫⁻ x, ENNReal.ofReal (f x) = 1) : ∫ x, f x = 1 := by
  rw [integral_eq_lintegral_of_nonneg_ae (Filter.Eventually.of_forall h0) hm.aestronglyMeasurable, h]
  simp

/-- if `g = f` on `s`, `f = 0` off `s` and `∫ f = 1` then `∫_s g = 1` -/
theorem setIntegral_eq_one {f g : ℝ → ℝ} {s : Set ℝ} (hs : MeasurableSet s) (hfg : ∀ x ∈ s, g x = f x)
    (hz : ∀ x, x ∉ s → f x = 0) (h : ∫ x, f x = 1) : ∫ x in s, g x = 1 := by
  rw [setIntegral_congr_fun hs (fun x hx => hfg x hx), setIntegral_eq_integral_of_forall_compl_eq_zero hz, h]

/-- variant for an open half-line (the generated density may be junk at the end point on `R`) -/
theorem setIntegral_Ioi_eq_one {f g : ℝ → ℝ} {a : ℝ} (hfg : ∀ x, a < x → g x = f x)
    (hz : ∀ x, x < a → f x = 0) (h : ∫ x, f x = 1) : ∫ x in Set.Ioi a, g x = 1 := by
  rw [setIntegral_congr_fun measurableSet_Ioi (fun x hx => hfg x hx), ← integral_Ici_eq_integral_Ioi,
    setIntegral_eq_integral_of_forall_compl_eq_zero (s := Set.Ici a)
      (fun x (hx : ¬ a ≤ x) => hz x (not_le.mp hx)), h]

end C02Lemmas
