import RvModel.RealInst
import RvModel.Gen.Defs
import RvModel.Hand.Partition
import Mathlib.Tactic.IntervalCases
/-!
  Lemmas.C19 — definitions (`WF`, `Canonical`, the enumeration `allParts` of set partitions, loop invariants of
  `Crp::draw`) and list / arithmetic helper lemmas used by `Props/C19A.lean`.
-/
set_option linter.unusedVariables false
set_option linter.unusedSimpArgs false

namespace C19
open Hand Hand.P


def WF (p : P) : Prop :=
  p.counts.length = p.k ∧ (∀ j, j < p.k → p.counts.getD j 0 = p.z.count j) ∧
  (∀ j, j < p.k → 0 < p.counts.getD j 0) ∧ (∀ i ∈ p.z, i < p.k)

/-- number of distinct labels of a restricted-growth string: `max (zᵢ + 1)` (0 for the empty string) -/
def numBlocks (z : List Nat) : Nat := z.foldl (fun m x => Nat.max m (x + 1)) 0

/-- labels appear in order of first appearance (restricted-growth string): every label is at most the number of
    labels used before it -/
def Canonical (z : List Nat) : Prop := ∀ i, i < z.length → z.getD i 0 ≤ numBlocks (z.take i)

/-- structural invariant of the seating loop: one weight per block, `z` canonical with `k` labels -/
def CrpInv {α : Type} (s : CrpSt α) : Prop :=
  s.weights.length = s.k ∧ Canonical s.z ∧ numBlocks s.z = s.k

/-- invariant of the seating loop over the exact reals: the weight vector is the vector of block sizes and
    `sum` is (items seated) + α, i.e. `crpPflip` is called with weights `counts ++ [α]` and their exact total -/
def CrpInvR (alpha : R) (s : CrpSt R) : Prop :=
  s.weights.length = s.k ∧ (∀ j, j < s.k → (s.weights.getD j RealLike.nan).val = (s.z.count j : ℝ)) ∧
  (s.weights.map R.val).sum = (s.z.length : ℝ) ∧ s.sum.val = (s.z.length : ℝ) + alpha.val ∧
  (∀ i ∈ s.z, i < s.k)



/-- the partition obtained by seating one more item at block `j` (`j = k`: a new block): the `Ok` branch of
    `Partition::append` -/
def seat (p : P) (j : Nat) : P :=
  ⟨p.z ++ [j], if j == p.k then p.counts ++ [1] else p.counts.set j (p.counts.getD j 0 + 1)⟩

/-- children of a partition of `[n]` among the partitions of `[n+1]` -/
def children (p : P) : List P := (List.range (p.k + 1)).map (seat p)

/-- all set partitions of `{0..n-1}` as (restricted-growth string, block sizes) -/
def allParts : Nat → List P
  | 0 => [P.new]
  | n + 1 => (allParts n).flatMap children

/-- unnormalised EPPF weight `α^K · Π (n_j − 1)!` of a vector of block sizes -/
noncomputable def gW (a : ℝ) (c : List Nat) : ℝ := a ^ c.length * (c.map (fun c => ((c - 1).factorial : ℝ))).prod

/-- the generated `Partition` of a hand-model partition -/
def toGen (p : P) : Gen.Partition R := ⟨p.z, p.counts⟩



/-- the hand-model view of a generated `Partition` -/
def ofGen {α : Type} (g : Gen.Partition α) : P := ⟨g.z, g.counts⟩

/-- the hand-model view of the result of a generated fallible operation -/
def ofGenE {α : Type} : Except (Err α) (Gen.Partition α) → Except String P
  | .ok g => .ok (ofGen g)
  | .error e => .error e.variant

theorem getD_set (l : List Nat) (a v j : Nat) :
    (l.set a v).getD j 0 = if a = j ∧ j < l.length then v else l.getD j 0 := by
  simp only [List.getD_eq_getElem?_getD, List.getElem?_set]
  by_cases h : a = j
  · subst h
    by_cases h2 : a < l.length
    · simp [h2]
    · simp [h2]
  · simp [h]

theorem getD_setR (l : List R) (a j : Nat) (v d : R) :
    (l.set a v).getD j d = if a = j ∧ j < l.length then v else l.getD j d := by
  simp only [List.getD_eq_getElem?_getD, List.getElem?_set]
  by_cases h : a = j
  · subst h
    by_cases h2 : a < l.length
    · simp [h2]
    · simp [h2]
  · simp [h]

theorem tally_length (z init : List Nat) : (tally z init).length = init.length := by
  induction z generalizing init with
  | nil => rfl
  | cons a z ih => simp only [tally, List.foldl_cons] at ih ⊢; rw [ih]; simp

theorem tally_getD (z init : List Nat) (j : Nat) (hj : j < init.length) :
    (tally z init).getD j 0 = init.getD j 0 + z.count j := by
  induction z generalizing init with
  | nil => simp [tally]
  | cons a z ih =>
    have := ih (init.set a (init.getD a 0 + 1)) (by simpa using hj)
    simp only [tally, List.foldl_cons] at this ⊢
    rw [this, getD_set, List.count_cons]
    by_cases h : a = j
    · subst h; simp [hj]; omega
    · simp [h]

theorem le_foldl_max (z : List Nat) (m : Nat) : m ≤ z.foldl Nat.max m ∧ ∀ i ∈ z, i ≤ z.foldl Nat.max m := by
  induction z generalizing m with
  | nil => simp
  | cons a z ih =>
    obtain ⟨h1, h2⟩ := ih (Nat.max m a)
    simp only [List.foldl_cons, List.mem_cons]
    refine ⟨le_trans (Nat.le_max_left m a) h1, ?_⟩
    rintro i (rfl | hi)
    · exact le_trans (Nat.le_max_right m i) h1
    · exact h2 i hi

theorem count_eq_zero_of_all_lt (z : List Nat) (k : Nat) (h : ∀ i ∈ z, i < k) : z.count k = 0 := by
  rw [List.count_eq_zero]
  intro hk; exact lt_irrefl _ (h k hk)

theorem count_eraseIdx (l : List Nat) (ix a : Nat) (h : ix < l.length) :
    (l.eraseIdx ix).count a + (if l.getD ix 0 = a then 1 else 0) = l.count a := by
  induction l generalizing ix with
  | nil => simp at h
  | cons x xs ih =>
    cases ix with
    | zero => simp [List.count_cons]
    | succ i =>
      have := ih i (by simpa using h)
      simp only [List.eraseIdx_cons_succ, List.count_cons, List.getD_cons_succ]
      omega

theorem count_map_shift (l : List Nat) (zi j : Nat) (h : zi ∉ l) :
    (l.map (shift zi)).count j = l.count (if j < zi then j else j + 1) := by
  induction l with
  | nil => simp
  | cons x xs ih =>
    simp only [List.mem_cons, not_or] at h
    simp only [List.map_cons, List.count_cons, ih h.2]
    congr 1
    have hx : zi ≠ x := h.1
    have key : (shift zi x = j) ↔ (x = if j < zi then j else j + 1) := by
      simp only [shift]; split <;> split <;> omega
    simp only [beq_iff_eq, key]

theorem numBlocks_snoc (z : List Nat) (x : Nat) : numBlocks (z ++ [x]) = Nat.max (numBlocks z) (x + 1) := by
  simp [numBlocks, List.foldl_append]

theorem canonical_snoc (z : List Nat) (x : Nat) : Canonical (z ++ [x]) ↔ Canonical z ∧ x ≤ numBlocks z := by
  constructor
  · intro h
    refine ⟨?_, ?_⟩
    · intro i hi
      have := h i (by simp; omega)
      rw [List.take_append_of_le_length (by omega)] at this
      simpa [List.getD_eq_getElem?_getD, List.getElem?_append_left hi] using this
    · have := h z.length (by simp)
      simpa [List.getD_eq_getElem?_getD] using this
  · rintro ⟨h1, h2⟩ i hi
    simp only [List.length_append, List.length_singleton] at hi
    by_cases hlt : i < z.length
    · rw [List.take_append_of_le_length (by omega)]
      have := h1 i hlt
      simpa [List.getD_eq_getElem?_getD, List.getElem?_append_left hlt] using this
    · have : i = z.length := by omega
      subst this
      simpa [List.getD_eq_getElem?_getD] using h2

theorem foldl_nb (z : List Nat) (m : Nat) :
    m ≤ z.foldl (fun m x => Nat.max m (x + 1)) m ∧ (∀ i ∈ z, i + 1 ≤ z.foldl (fun m x => Nat.max m (x + 1)) m) ∧
    (∀ k, m ≤ k → (∀ i ∈ z, i < k) → z.foldl (fun m x => Nat.max m (x + 1)) m ≤ k) := by
  induction z generalizing m with
  | nil => simp
  | cons a z ih =>
    obtain ⟨h1, h2, h3⟩ := ih (Nat.max m (a + 1))
    simp only [List.foldl_cons, List.mem_cons]
    refine ⟨le_trans (Nat.le_max_left _ _) h1, ?_, ?_⟩
    · rintro i (rfl | hi)
      · exact le_trans (Nat.le_max_right _ _) h1
      · exact h2 i hi
    · intro k hk hall
      apply h3 k
      · have := hall a (Or.inl rfl); simp only [Nat.max_def]; split <;> omega
      · intro i hi; exact hall i (Or.inr hi)

/-- in a restricted-growth string every label below the number of labels occurs -/
theorem canonical_labels_present (z : List Nat) (hc : Canonical z) : ∀ j, j < numBlocks z → j ∈ z := by
  induction z using List.reverseRecOn with
  | nil => intro j hj; simp [numBlocks] at hj
  | append_singleton z x ih =>
    obtain ⟨h1, h2⟩ := (canonical_snoc z x).mp hc
    intro j hj
    rw [numBlocks_snoc] at hj
    by_cases hlt : j < numBlocks z
    · exact List.mem_append_left _ (ih h1 j hlt)
    · have : j = x := by simp only [Nat.max_def] at hj; split at hj <;> omega
      subst this; simp

theorem canonical_nil : Canonical [] := by intro i hi; simp at hi

/-! ### `Crp::draw` -/

theorem crpPflipGo_bound {α : Type} [RealLike α] (r : α) (ws : List α) (ix : Nat) (cwt : α) (i : Nat)
    (h : crpPflipGo r ws ix cwt = some i) : ix ≤ i ∧ i < ix + ws.length := by
  induction ws generalizing ix cwt with
  | nil => simp [crpPflipGo] at h
  | cons w ws ih =>
    simp only [crpPflipGo] at h
    split at h
    · injection h with h; subst h; simp
    · have := ih _ _ h
      simp only [List.length_cons]; omega

theorem crpPflipGo_some (r : R) (ws : List R) (ix : Nat) (cwt : R) (hle : cwt.val ≤ r.val)
    (h : r.val < cwt.val + (ws.map R.val).sum) : ∃ i, crpPflipGo r ws ix cwt = some i := by
  induction ws generalizing ix cwt with
  | nil => simp only [List.map_nil, List.sum_nil, add_zero] at h; linarith
  | cons w ws ih =>
    simp only [crpPflipGo]
    by_cases hgt : RealLike.gt (cwt + w) r = true
    · simp [hgt]
    · simp only [hgt, Bool.false_eq_true, if_false]
      have hgt' : ¬ r.val < (cwt + w).val := by simpa [RealLike.gt] using hgt
      apply ih
      · linarith
      · simp only [R.add_val, List.map_cons, List.sum_cons] at h ⊢
        linarith

theorem one_val : ((1.0 : R)).val = 1 := by
  show (OfScientific.ofScientific 10 true 1 : ℝ) = 1; norm_num

theorem half_val : ((0.5 : R)).val = 1 / 2 := by
  show (OfScientific.ofScientific 5 true 1 : ℝ) = 1 / 2; norm_num

theorem zero_val : ((0.0 : R)).val = 0 := by
  show (OfScientific.ofScientific 0 true 1 : ℝ) = 0; norm_num

theorem sum_set_prod (c : List Nat) (hc : ∀ x ∈ c, 1 ≤ x) :
    ((List.range c.length).map (fun j =>
      ((c.set j (c.getD j 0 + 1)).map (fun c => ((c - 1).factorial : ℝ))).prod)).sum
    = (c.map (fun c => ((c - 1).factorial : ℝ))).prod * (c.sum : ℝ) := by
  induction c with
  | nil => simp
  | cons x t ih =>
    have hx : 1 ≤ x := hc x (List.mem_cons_self ..)
    have iht := ih (fun y hy => hc y (List.mem_cons_of_mem _ hy))
    rw [List.length_cons, List.range_succ_eq_map, List.map_cons, List.sum_cons, List.map_map]
    have h0 : (((x :: t).set 0 ((x :: t).getD 0 0 + 1)).map (fun c => ((c - 1).factorial : ℝ))).prod
        = (x : ℝ) * ((x - 1).factorial : ℝ) * (t.map (fun c => ((c - 1).factorial : ℝ))).prod := by
      simp only [List.set_cons_zero, List.getD_cons_zero, List.map_cons, List.prod_cons, Nat.add_sub_cancel]
      have : x.factorial = x * (x - 1).factorial := by
        obtain ⟨m, rfl⟩ : ∃ m, x = m + 1 := ⟨x - 1, by omega⟩
        simp [Nat.factorial_succ]
      rw [this]; push_cast; ring
    have h1 : (List.range t.length).map ((fun j => (((x :: t).set j ((x :: t).getD j 0 + 1)).map
          (fun c => ((c - 1).factorial : ℝ))).prod) ∘ Nat.succ)
        = (List.range t.length).map (fun j => ((x - 1).factorial : ℝ) *
            ((t.set j (t.getD j 0 + 1)).map (fun c => ((c - 1).factorial : ℝ))).prod) := by
      apply List.map_congr_left
      intro j hj
      simp [Function.comp]
    rw [h0, h1, List.sum_map_mul_left, iht]
    simp only [List.map_cons, List.prod_cons, List.sum_cons]
    push_cast; ring

theorem sum_ite_range (a k : Nat) :
    ((List.range k).map (fun j => if a == j then 1 else 0)).sum = if a < k then 1 else 0 := by
  induction k with
  | zero => simp
  | succ k ih =>
    rw [List.range_succ, List.map_append, List.sum_append, ih]
    simp only [List.map_cons, List.map_nil, List.sum_cons, List.sum_nil, beq_iff_eq]
    by_cases h1 : a < k
    · have : a ≠ k := by omega
      have h2 : a < k + 1 := by omega
      simp [h1, this, h2]
    · by_cases h2 : a = k
      · subst h2; simp
      · have : ¬ a < k + 1 := by omega
        simp [h1, h2, this]

theorem sum_count_range (z : List Nat) (k : Nat) (h : ∀ i ∈ z, i < k) :
    ((List.range k).map (fun j => z.count j)).sum = z.length := by
  induction z with
  | nil => simp
  | cons a t ih =>
    have := ih (fun i hi => h i (List.mem_cons_of_mem _ hi))
    simp only [List.count_cons, List.length_cons]
    rw [List.sum_map_add, this, sum_ite_range]
    simp [h a (List.mem_cons_self ..)]

theorem sum_map_flatMap {β : Type} (l : List β) (f : β → List β) (g : β → ℝ) :
    ((l.flatMap f).map g).sum = (l.map (fun x => ((f x).map g).sum)).sum := by
  induction l with
  | nil => simp
  | cons x xs ih => simp [List.flatMap_cons, ih]

end C19
