import RvModel.ExtInst
import RvModel.Gen.Defs
import Mathlib.Analysis.SpecialFunctions.Log.Basic
import Mathlib.Analysis.SpecialFunctions.Exp
import Mathlib.Analysis.SpecialFunctions.Gamma.Basic
import Mathlib.Analysis.Complex.ExponentialBounds
import Mathlib.Algebra.BigOperators.Intervals
import Mathlib.Tactic.NormNum.OfScientific
/-!
  Helper lemmas for Props/C13A.lean (log-domain arithmetic).
-/
open Real

namespace C13
open X

/-- generic invariant rule for `List.foldl`: the invariant may depend on the prefix consumed so far -/
theorem foldl_invariant {σ β : Type} (P : List β → σ → Prop) (Q : β → Prop) (f : σ → β → σ)
    (init : σ) (xs : List β) (hQ : ∀ x ∈ xs, Q x) (h0 : P [] init)
    (hstep : ∀ pre st x, Q x → P pre st → P (pre ++ [x]) (f st x)) :
    P xs (xs.foldl f init) := by
  suffices h : ∀ (pre : List β) (st : σ), P pre st → (∀ x ∈ xs, Q x) → P (pre ++ xs) (xs.foldl f st) by
    simpa using h [] init h0 hQ
  induction xs with
  | nil => intro pre st h _; simpa using h
  | cons x t ih =>
    intro pre st h hq
    have h1 := hstep pre st x (hq x (by simp)) h
    have h2 := ih (fun y hy => hQ y (by simp [hy])) (pre ++ [x]) (f st x) h1 (fun y hy => hq y (by simp [hy]))
    simpa using h2

/-- invariant of the streaming log-sum-exp fold: `fs` = finite entries seen so far, state `(alpha, r)` -/
def LInv (fs : List ℝ) (st : X × X) : Prop :=
  (fs = [] ∧ st = (ninf, fin 0)) ∨
  (∃ a r, st = (fin a, fin r) ∧ 0 < r ∧ Real.exp a * r = (fs.map Real.exp).sum ∧ fs ≠ [])

/-! ### real analysis behind `log1pexp` -/

theorem log1p_le {t : ℝ} (ht : 0 ≤ t) : Real.log (1 + t) ≤ t := by
  have := Real.log_le_sub_one_of_pos (show (0:ℝ) < 1 + t by linarith)
  linarith

theorem div_le_log1p {t : ℝ} (ht : 0 ≤ t) : t / (1 + t) ≤ Real.log (1 + t) := by
  have h := Real.one_sub_inv_le_log_of_pos (show (0:ℝ) < 1 + t by linarith)
  have h1 : (1:ℝ) + t ≠ 0 := by linarith
  have : 1 - (1 + t)⁻¹ = t / (1 + t) := by field_simp; ring
  linarith

theorem log1p_nonneg {t : ℝ} (ht : 0 ≤ t) : 0 ≤ Real.log (1 + t) :=
  Real.log_nonneg (by linarith)

/-- `0 ≤ t - log(1+t) ≤ t · t/(1+t)` for `t ≥ 0` -/
theorem sub_log1p_le {t : ℝ} (ht : 0 ≤ t) : t - Real.log (1 + t) ≤ t * (t / (1 + t)) := by
  have h := div_le_log1p ht
  have h1 : (1:ℝ) + t ≠ 0 := by linarith
  have : t - t / (1 + t) = t * (t / (1 + t)) := by field_simp; ring
  linarith

theorem div_one_add_le {t : ℝ} (ht : 0 ≤ t) : t / (1 + t) ≤ t :=
  div_le_self ht (by linarith)

theorem abs_sub_log1p_le_sq {t : ℝ} (ht : 0 ≤ t) : |t - Real.log (1 + t)| ≤ t * t := by
  rw [abs_of_nonneg (by linarith [log1p_le ht])]
  exact (sub_log1p_le ht).trans (mul_le_mul_of_nonneg_left (div_one_add_le ht) ht)

/-- `log(1+eˣ) = x + log(1+e⁻ˣ)` -/
theorem softplus_eq (x : ℝ) : Real.log (1 + Real.exp x) = x + Real.log (1 + Real.exp (-x)) := by
  have h : 1 + Real.exp x = Real.exp x * (1 + Real.exp (-x)) := by
    rw [mul_add, mul_one, ← Real.exp_add]; simp [add_comm]
  rw [h, Real.log_mul (Real.exp_pos x).ne' (by positivity), Real.log_exp]

theorem le_softplus (x : ℝ) : x ≤ Real.log (1 + Real.exp x) := by
  rw [softplus_eq]; linarith [log1p_nonneg (Real.exp_pos (-x)).le]

theorem softplus_pos (x : ℝ) : 0 < Real.log (1 + Real.exp x) :=
  Real.log_pos (by linarith [Real.exp_pos x])

/-- branch `x ≤ -37` (valid for every `x`): `|eˣ - log(1+eˣ)| ≤ e^{2x}` -/
theorem softplus_small (x : ℝ) : |Real.exp x - Real.log (1 + Real.exp x)| ≤ Real.exp (2 * x) := by
  have := abs_sub_log1p_le_sq (Real.exp_pos x).le
  rwa [← Real.exp_add, ← two_mul] at this

/-- branch `18 < x ≤ 33.3` (valid for every `x`): `|x + e⁻ˣ - log(1+eˣ)| ≤ e^{-2x}` -/
theorem softplus_mid (x : ℝ) :
    |x + Real.exp (-x) - Real.log (1 + Real.exp x)| ≤ Real.exp (-(2 * x)) := by
  have := softplus_small (-x)
  rw [softplus_eq x]
  have e : x + Real.exp (-x) - (x + Real.log (1 + Real.exp (-x))) =
      Real.exp (-x) - Real.log (1 + Real.exp (-x)) := by ring
  rw [e]
  simpa [mul_neg] using this

/-- branch `33.3 < x` (valid for every `x`): `|x - log(1+eˣ)| ≤ e⁻ˣ` -/
theorem softplus_large (x : ℝ) : |x - Real.log (1 + Real.exp x)| ≤ Real.exp (-x) := by
  rw [softplus_eq x]
  have e : x - (x + Real.log (1 + Real.exp (-x))) = -Real.log (1 + Real.exp (-x)) := by ring
  rw [e, abs_neg, abs_of_nonneg (log1p_nonneg (Real.exp_pos (-x)).le)]
  exact log1p_le (Real.exp_pos (-x)).le

/-- `log(eᵃ+eᵇ) = max a b + log(1+e^{-|a-b|})` -/
theorem log_add_exp (a b : ℝ) :
    Real.log (Real.exp a + Real.exp b) = max a b + Real.log (1 + Real.exp (-|a - b|)) := by
  rcases le_total b a with h | h
  · have e : Real.exp a + Real.exp b = Real.exp a * (1 + Real.exp (-|a - b|)) := by
      rw [abs_of_nonneg (sub_nonneg.mpr h), mul_add, mul_one, ← Real.exp_add]; congr 2; ring
    rw [e, Real.log_mul (Real.exp_pos a).ne' (by positivity), Real.log_exp, max_eq_left h]
  · have e : Real.exp a + Real.exp b = Real.exp b * (1 + Real.exp (-|a - b|)) := by
      rw [abs_of_nonpos (sub_nonpos.mpr h), mul_add, mul_one, ← Real.exp_add, add_comm]; congr 2; ring
    rw [e, Real.log_mul (Real.exp_pos b).ne' (by positivity), Real.log_exp, max_eq_right h]

/-! ### numeric bounds -/

theorem exp_nat_ge (n : ℕ) : (2.718 : ℝ) ^ n ≤ Real.exp n := by
  have h : (2.718 : ℝ) ≤ Real.exp 1 := by
    have := Real.exp_one_gt_d9; norm_num at this ⊢; linarith
  have := pow_le_pow_left₀ (by norm_num) h n
  rwa [← Real.exp_nat_mul, mul_one] at this

theorem two_pow_52_le_exp_37 : (2:ℝ) ^ 52 ≤ Real.exp 37 := by
  have := exp_nat_ge 37
  norm_num at this ⊢
  linarith

theorem two_pow_52_le_exp_36 : (2:ℝ) ^ 52 ≤ 18 * Real.exp 36 := by
  have := exp_nat_ge 36
  norm_num at this ⊢
  linarith

theorem two_pow_52_le_exp_33 : (2:ℝ) ^ 52 ≤ 33 * Real.exp 33 := by
  have := exp_nat_ge 33
  norm_num at this ⊢
  linarith

/-- `e⁻³⁷ ≤ 2⁻⁵²` -/
theorem exp_neg_37_le : Real.exp (-37) ≤ (2:ℝ) ^ (-52 : ℤ) := by
  rw [Real.exp_neg, zpow_neg, zpow_ofNat]
  exact inv_anti₀ (by positivity) two_pow_52_le_exp_37

/-- `e⁻³⁶ ≤ 18·2⁻⁵²` -/
theorem exp_neg_36_le : Real.exp (-36) ≤ (2:ℝ) ^ (-52 : ℤ) * 18 := by
  rw [Real.exp_neg, zpow_neg, zpow_ofNat]
  have h := two_pow_52_le_exp_36
  have h2 : (0:ℝ) < 2 ^ 52 := by positivity
  have h3 := Real.exp_pos 36
  rw [inv_mul_eq_div, le_div_iff₀ h2, inv_mul_le_iff₀ h3]
  linarith

/-- `e⁻³³ ≤ 33·2⁻⁵²` -/
theorem exp_neg_33_le : Real.exp (-33) ≤ (2:ℝ) ^ (-52 : ℤ) * 33 := by
  rw [Real.exp_neg, zpow_neg, zpow_ofNat]
  have h := two_pow_52_le_exp_33
  have h2 : (0:ℝ) < 2 ^ 52 := by positivity
  have h3 := Real.exp_pos 33
  rw [inv_mul_eq_div, le_div_iff₀ h2, inv_mul_le_iff₀ h3]
  linarith

/-! ### folds and scans over `R` -/

theorem foldl_add_val {β : Type} (f : R → β → R) (g : β → ℝ)
    (hf : ∀ acc j, (f acc j).val = acc.val + g j) (a0 : R) (l : List β) :
    (l.foldl f a0).val = a0.val + (l.map g).sum := by
  induction l generalizing a0 with
  | nil => simp
  | cons x t ih => simp [List.foldl, ih, hf, add_assoc]

theorem sum_map_range'_one (g : ℕ → ℝ) (p : ℕ) :
    ((List.range' 1 p).map g).sum = ∑ j ∈ Finset.Icc 1 p, g j := by
  induction p with
  | zero => simp
  | succ n ih =>
    rw [List.range'_1_concat, List.map_append, List.sum_append, ih,
      Finset.sum_Icc_succ_top (by omega)]
    simp [add_comm]

theorem scanL_length {β γ : Type} (f : γ → β → γ) (init : γ) (xs : List β) :
    (scanL f init xs).length = xs.length := by
  induction xs generalizing init with
  | nil => rfl
  | cons x t ih => simp [scanL, ih]

theorem scanL_add_val (f : R → R → R) (hf : ∀ a x, (f a x).val = a.val + x.val) (init : R)
    (xs : List R) :
    (scanL f init xs).map R.val =
      (List.range xs.length).map (fun i => init.val + ((xs.map R.val).take (i + 1)).sum) := by
  induction xs generalizing init with
  | nil => simp [scanL]
  | cons x t ih =>
    simp only [scanL, List.map_cons, List.length_cons, List.range_succ_eq_map, ih, hf,
      List.map_map]
    simp [Function.comp_def, add_assoc]

end C13
