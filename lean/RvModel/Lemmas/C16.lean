import RvModel.RealInst
import RvModel.Hand.Kernel
import Mathlib.Analysis.SpecialFunctions.Pow.Real
import Mathlib.Analysis.SpecialFunctions.Trigonometric.Basic
import Mathlib.Data.List.GetD
import Mathlib.Algebra.BigOperators.Group.List.Basic
import Mathlib.Analysis.SpecialFunctions.ExpDeriv
import Mathlib.LinearAlgebra.Matrix.PosDef
import Mathlib.LinearAlgebra.Matrix.Hadamard
/-!
  Lemmas.C16 — helper definitions and lemmas for the C16 (covariance kernel) theorems: values of float literals on
  `R`, the distance folds of `Hand/Kernel.lean` as plain real sums, predicates on kernel trees (validity of the
  parameters, leaf families), `setParam`.  No property theorems here.
-/
open Real Hand.Kernel Matrix

namespace C16

-- ---- literals -------------------------------------------------------------------------------------------------------
@[simp] theorem lit0 : ((0.0 : R)).val = 0 := by simp only [R.sci_val]; norm_num
@[simp] theorem lit1 : ((1.0 : R)).val = 1 := by simp only [R.sci_val]; norm_num
@[simp] theorem lit2 : ((2.0 : R)).val = 2 := by simp only [R.sci_val]; norm_num
@[simp] theorem lit3 : ((3.0 : R)).val = 3 := by simp only [R.sci_val]; norm_num
@[simp] theorem lit5 : ((5.0 : R)).val = 5 := by simp only [R.sci_val]; norm_num
@[simp] theorem lit4 : ((4.0 : R)).val = 4 := by simp only [R.sci_val]; norm_num
@[simp] theorem lit05 : ((0.5 : R)).val = 1 / 2 := by simp only [R.sci_val]; norm_num
@[simp] theorem eps_val : (RealLike.epsilon : R).val = (2 : ℝ) ^ (-52 : ℤ) := rfl
theorem eps_pos : 0 < (RealLike.epsilon : R).val := by rw [eps_val]; positivity

/-- the real number as an element of the carrier -/
abbrev r (x : ℝ) : R := ⟨x⟩

-- ---- distance folds -------------------------------------------------------------------------------------------------

/-- Σ (aₖ - bₖ)² over the common coordinates -/
def sqSum (x y : List R) : ℝ := ((List.zip x y).map (fun ab => (ab.1.val - ab.2.val) ^ 2)).sum

theorem sqSum_nonneg (x y : List R) : 0 ≤ sqSum x y := by
  unfold sqSum
  apply List.sum_nonneg
  intro v hv
  simp only [List.mem_map] at hv
  obtain ⟨ab, _, rfl⟩ := hv
  positivity

theorem zip_swap {β : Type} (x y : List β) : List.zip y x = (List.zip x y).map Prod.swap := by
  induction x generalizing y with
  | nil => cases y <;> rfl
  | cons a as ih => cases y with
    | nil => rfl
    | cons b bs =>
      show (b, a) :: List.zip bs as = Prod.swap (a, b) :: (List.zip as bs).map Prod.swap
      rw [ih bs]; rfl

theorem sqSum_comm (x y : List R) : sqSum x y = sqSum y x := by
  unfold sqSum
  rw [zip_swap x y, List.map_map]
  congr 1
  apply List.map_congr_left
  intro ab _
  simp only [Function.comp, Prod.swap]
  ring

theorem sqSum_self (x : List R) : sqSum x x = 0 := by
  unfold sqSum
  induction x with
  | nil => simp
  | cons a as ih => simp only [List.zip_cons_cons, List.map_cons, List.sum_cons, ih]; simp

theorem foldl_add_val (g : R × R → ℝ) (f : R → R × R → R) (hf : ∀ acc ab, (f acc ab).val = acc.val + g ab)
    (l : List (R × R)) (acc : R) : (l.foldl f acc).val = acc.val + (l.map g).sum := by
  induction l generalizing acc with
  | nil => simp
  | cons a as ih => simp only [List.foldl_cons, ih, hf, List.map_cons, List.sum_cons]; ring

/-- `e2_norm(x, y, s)` is `Σ (aₖ-bₖ)² / s²` -/
theorem e2norm_val (x y : List R) (s : R) : (e2norm x y s).val = sqSum x y / s.val ^ 2 := by
  unfold e2norm sqSum
  rw [foldl_add_val (fun ab => ((ab.1.val - ab.2.val) / s.val) ^ 2)]
  · simp only [lit0, zero_add]
    induction List.zip x y with
    | nil => simp
    | cons ab l ih =>
      rw [List.map_cons, List.sum_cons, ih, List.map_cons, List.sum_cons, div_pow]
      ring
  · intro acc ab
    simp only [R.add_val, R.mul_val, R.div_val, R.sub_val]
    ring

theorem sqDist_val (x y : List R) : (sqDist x y).val = sqSum x y := by
  unfold sqDist sqSum
  rw [foldl_add_val (fun ab => (ab.1.val - ab.2.val) ^ 2)]
  · simp only [lit0, zero_add]
  · intro acc ab
    simp only [R.add_val, R.mul_val, R.sub_val]
    ring

theorem eucDist_val (x y : List R) : (eucDist x y).val = Real.sqrt (sqSum x y) := by
  simp only [eucDist, R.sqrt_val, sqDist_val]

theorem e2norm_comm (x y : List R) (s : R) : e2norm x y s = e2norm y x s :=
  R.ext' (by rw [e2norm_val, e2norm_val, sqSum_comm])

theorem sqDist_comm (x y : List R) : sqDist x y = sqDist y x :=
  R.ext' (by rw [sqDist_val, sqDist_val, sqSum_comm])

theorem eucDist_comm (x y : List R) : eucDist x y = eucDist y x := by
  simp only [eucDist, sqDist_comm x y]

theorem e2norm_self (x : List R) (s : R) : (e2norm x x s).val = 0 := by
  rw [e2norm_val, sqSum_self, zero_div]

theorem sqDist_self (x : List R) : (sqDist x x).val = 0 := by rw [sqDist_val, sqSum_self]

theorem eucDist_self (x : List R) : (eucDist x x).val = 0 := by rw [eucDist_val, sqSum_self, Real.sqrt_zero]

/-- the SEard sum: symmetric in the two points -/
theorem seardSum_comm (x y ls : List R) (s : R) : seardSum x y ls s = seardSum y x ls s := by
  induction x generalizing y ls s with
  | nil => cases y <;> cases ls <;> simp [seardSum]
  | cons a as ih =>
    cases y with
    | nil => cases ls <;> simp [seardSum]
    | cons b bs =>
      cases ls with
      | nil => simp [seardSum]
      | cons l ls =>
        simp only [seardSum]
        have : s + (a - b) / l * ((a - b) / l) = s + (b - a) / l * ((b - a) / l) := by
          apply R.ext'
          simp only [R.add_val, R.mul_val, R.div_val, R.sub_val]
          ring
        rw [this, ih]

theorem seardSum_self (x ls : List R) (s : R) : (seardSum x x ls s).val = s.val := by
  induction x generalizing ls s with
  | nil => cases ls <;> simp [seardSum]
  | cons a as ih =>
    cases ls with
    | nil => simp [seardSum]
    | cons l ls =>
      simp only [seardSum]
      rw [ih]
      simp only [R.add_val, R.mul_val, R.div_val, R.sub_val]
      ring

theorem seardGrad_length (c : R) (ls x y : List R) : (seardGrad c ls x y).length = ls.length := by
  induction ls generalizing x y with
  | nil => simp [seardGrad]
  | cons l ls ih =>
    cases x with
    | nil => simp [seardGrad, ih]
    | cons a as =>
      cases y with
      | nil => simp [seardGrad, ih]
      | cons b bs => simp [seardGrad, ih]

-- ---- predicates on trees --------------------------------------------------------------------------------------------

/-- every parameter is positive: what the checked constructors `X::new` enforce -/
def Valid : K R → Prop
  | .const c => 0 < c.val
  | .rbf l => 0 < l.val
  | .seard ls => ∀ l ∈ ls, 0 < l.val
  | .ess l p => 0 < l.val ∧ 0 < p.val
  | .rq s a => 0 < s.val ∧ 0 < a.val
  | .matern nu l => 0 < nu.val ∧ 0 < l.val
  | .white s => 0 < s.val
  | .add a b => Valid a ∧ Valid b
  | .mul a b => Valid a ∧ Valid b

/-- every leaf of the tree satisfies `p` (the inductive sub-family `GoodLeaves` of the property statements) -/
def GoodLeaves (p : K R → Bool) : K R → Prop
  | .add a b => GoodLeaves p a ∧ GoodLeaves p b
  | .mul a b => GoodLeaves p a ∧ GoodLeaves p b
  | k => p k = true

/-- leaves whose `diag` VALUE is the diagonal of `covariance(x, x)`: all but `WhiteKernel` -/
def diagValueLeaf : K R → Bool
  | .white _ => false
  | _ => true

/-- leaves whose `diag` has one element per ROW: all but `ExpSineSquaredKernel` and `RationalQuadratic` -/
def diagLenLeaf : K R → Bool
  | .ess _ _ => false
  | .rq _ _ => false
  | _ => true

/-- leaves whose `covariance_with_gradient` returns `covariance(x, x)`: all but SEard (identity), White (σ on the
    diagonal vs. 0) and Matérn (upper triangle not mirrored for coincident points) -/
def covGradLeaf : K R → Bool
  | .seard _ => false
  | .white _ => false
  | .matern _ _ => false
  | _ => true

/-- the tree has no Matérn leaf -/
def noMaternLeaf : K R → Bool
  | .matern _ _ => false
  | _ => true

/-- the LAST leaf (in parameter order) reports the right number of extraneous parameters: not ESS / RQ -/
def extraGood : K R → Bool
  | .ess _ _ => false
  | .rq _ _ => false
  | .add _ b => extraGood b
  | .mul _ b => extraGood b
  | _ => true

def isLeaf : K R → Bool
  | .add _ _ => false
  | .mul _ _ => false
  | _ => true

/-- replace the `i`-th parameter (in `parameters()` order) by the value `v` (NOT its logarithm) -/
def setParam : K R → Nat → R → K R
  | .const _, 0, v => .const v
  | .rbf _, 0, v => .rbf v
  | .white _, 0, v => .white v
  | .seard ls, i, v => .seard (ls.set i v)
  | .ess _ p, 0, v => .ess v p
  | .ess l _, 1, v => .ess l v
  | .rq _ a, 0, v => .rq v a
  | .rq s _, 1, v => .rq s v
  | .matern _ l, 0, v => .matern v l
  | .matern nu _, 1, v => .matern nu v
  | .add a b, i, v => if i < nParameters a then .add (setParam a i v) b else .add a (setParam b (i - nParameters a) v)
  | .mul a b, i, v => if i < nParameters a then .mul (setParam a i v) b else .mul a (setParam b (i - nParameters a) v)
  | k, _, _ => k

/-- the `i`-th parameter itself (not its logarithm); `1` out of range -/
def getParam : K R → Nat → R
  | .const c, 0 => c
  | .rbf l, 0 => l
  | .white s, 0 => s
  | .seard ls, i => ls.getD i (r 1)
  | .ess l _, 0 => l
  | .ess _ p, 1 => p
  | .rq s _, 0 => s
  | .rq _ a, 1 => a
  | .matern nu _, 0 => nu
  | .matern _ l, 1 => l
  | .add a b, i => if i < nParameters a then getParam a i else getParam b (i - nParameters a)
  | .mul a b, i => if i < nParameters a then getParam a i else getParam b (i - nParameters a)
  | _, _ => r 1

theorem parameters_length (k : K R) : (parameters k).length = nParameters k := by
  induction k with
  | add a b iha ihb => simp [parameters, nParameters, iha, ihb]
  | mul a b iha ihb => simp [parameters, nParameters, iha, ihb]
  | _ => simp [parameters, nParameters]

/-- the elements of `enumL X` are `(i, X[i])` -/
theorem enumL_mem {β : Type} (X : List β) (p : Nat × β) (h : p ∈ enumL X) : X[p.1]? = some p.2 := by
  unfold enumL at h
  obtain ⟨i, hi⟩ := List.mem_iff_getElem.mp h
  obtain ⟨hlt, heq⟩ := hi
  simp only [List.getElem_zip, List.getElem_range] at heq
  rw [← heq]
  simp only [List.length_zip, List.length_range, min_self] at hlt
  simp [hlt]

theorem enumL_fst_inj {β : Type} (X : List β) (p q : Nat × β) (hp : p ∈ enumL X) (hq : q ∈ enumL X)
    (h : p.1 = q.1) : p.2 = q.2 := by
  have h1 := enumL_mem X p hp
  have h2 := enumL_mem X q hq
  rw [h] at h1
  rw [h1] at h2
  exact Option.some.inj h2

theorem enumL_map_snd {β : Type} (X : List β) : (enumL X).map Prod.snd = X := by
  unfold enumL
  rw [List.map_snd_zip]
  simp

theorem map_via_enumL {β γ : Type} (f : β → γ) (X : List β) : X.map f = (enumL X).map (fun p => f p.2) := by
  conv_lhs => rw [← enumL_map_snd X]
  rw [List.map_map]; rfl

theorem zipWith_map_map {β γ : Type} (op : γ → γ → γ) (f g : β → γ) (X : List β) :
    List.zipWith op (X.map f) (X.map g) = X.map (fun x => op (f x) (g x)) := by
  induction X with
  | nil => rfl
  | cons x xs ih => simp only [List.map_cons, List.zipWith_cons_cons, ih]

theorem getD_map' {β γ : Type} (f : β → γ) (l : List β) (i : Nat) (d : γ) (h : i < l.length) :
    (l.map f).getD i d = f (l[i]) := by
  rw [List.getD_eq_getElem _ _ (by simpa using h), List.getElem_map]

theorem ofIdx_diag (i j : Nat) (h : Pos.ofIdx i j = .diag) : i = j := by
  unfold Pos.ofIdx at h
  split at h
  · cases h
  · split at h
    · assumption
    · cases h

theorem enumL_length {β : Type} (X : List β) : (enumL X).length = X.length := by
  unfold enumL; simp

theorem enumL_getElem {β : Type} (X : List β) (i : Nat) (h : i < X.length) :
    (enumL X)[i]'(by rw [enumL_length]; exact h) = (i, X[i]) := by
  simp [enumL, List.getElem_zip, List.getElem_range]

-- ---- gradients (C16B) -------------------------------------------------------------------------------------------------

/-- leaves with an exact closed-form gradient -/
def gradLeaf : K R → Bool
  | .const _ => true
  | .rbf _ => true
  | .ess _ _ => true
  | .rq _ _ => true
  | _ => false

theorem gradLeaf_covGradLeaf (k : K R) (h : GoodLeaves gradLeaf k) : GoodLeaves covGradLeaf k := by
  induction k with
  | add a b iha ihb => exact ⟨iha h.1, ihb h.2⟩
  | mul a b iha ihb => exact ⟨iha h.1, ihb h.2⟩
  | seard ls => simp [GoodLeaves, gradLeaf] at h
  | matern nu l => simp [GoodLeaves, gradLeaf] at h
  | white s => simp [GoodLeaves, gradLeaf] at h
  | _ => rfl

/-- `t ↦ S / (eᵗ)²` has derivative `-2 S / (eᵗ)²` -/
theorem hasDerivAt_div_exp_sq (S t : ℝ) :
    HasDerivAt (fun t : ℝ => S / (Real.exp t) ^ 2) (-2 * (S / (Real.exp t) ^ 2)) t := by
  have h1 : HasDerivAt (fun t : ℝ => S * Real.exp (-2 * t)) (S * (Real.exp (-2 * t) * (-2))) t := by
    have := ((hasDerivAt_id t).const_mul (-2 : ℝ)).exp
    simpa using this.const_mul S
  have hfun : (fun t : ℝ => S / (Real.exp t) ^ 2) = fun t => S * Real.exp (-2 * t) := by
    funext u
    rw [← Real.exp_nat_mul, div_eq_mul_inv, ← Real.exp_neg]
    congr 2; push_cast; ring
  rw [hfun]
  refine h1.congr_deriv ?_
  have : (Real.exp t) ^ 2 = Real.exp (2 * t) := by rw [← Real.exp_nat_mul]; push_cast; rfl
  rw [this, div_eq_mul_inv, ← Real.exp_neg]
  have : -(2 * t) = -2 * t := by ring
  rw [this]; ring

/-- the RQ distance fold with the scale `√(2 s² a)` is `S / (2 a s²)` -/
theorem rq_e2norm (s a : R) (ha : 0 ≤ a.val) (x y : List R) :
    (e2norm x y (RealLike.sqrt ((2.0 : R) * s * s * a))).val = sqSum x y / (2 * a.val * s.val ^ 2) := by
  have hD : 0 ≤ 2 * s.val * s.val * a.val := by
    have : 0 ≤ s.val * s.val := mul_self_nonneg _
    nlinarith [mul_nonneg this ha]
  rw [e2norm_val]
  simp only [R.sqrt_val, R.mul_val, lit2]
  rw [Real.sq_sqrt hD]
  congr 1; ring

-- ---- covariance matrices (C16C) ------------------------------------------------------------------------------------

/-- `covariance(X, X)` as a real matrix -/
noncomputable def covMat (k : K R) (X : List (List R)) : Matrix (Fin X.length) (Fin X.length) ℝ :=
  fun i j => (cov k (X.get i) (X.get j)).val

/-- the hypothesis: every leaf of the five stationary families has a PSD matrix on `X`
    (nothing is assumed about Constant and White leaves, nor about the combinators) -/
def LeafPSD (X : List (List R)) : K R → Prop
  | .const _ => True
  | .white _ => True
  | .add a b => LeafPSD X a ∧ LeafPSD X b
  | .mul a b => LeafPSD X a ∧ LeafPSD X b
  | k => (covMat k X).PosSemidef

theorem covMat_add (a b : K R) (X : List (List R)) : covMat (.add a b) X = covMat a X + covMat b X := by
  ext i j; simp only [covMat, cov, R.add_val, Matrix.add_apply]

theorem covMat_mul (a b : K R) (X : List (List R)) : covMat (.mul a b) X = covMat a X ⊙ covMat b X := by
  ext i j; simp only [covMat, cov, R.mul_val, Matrix.hadamard_apply]

end C16
