import RvModel.RealInst
import RvModel.Hand.Mvg
import Mathlib.LinearAlgebra.Matrix.Trace
import Mathlib.LinearAlgebra.Matrix.NonsingularInverse
import Mathlib.LinearAlgebra.Matrix.Block
import Mathlib.Data.Matrix.Mul
import Mathlib.Analysis.SpecialFunctions.Log.Basic
import Mathlib.Tactic.FieldSimp
import Mathlib.Tactic.Ring
import Mathlib.Tactic.Linarith
/-!
  Lemmas for C15 — the ABSTRACT layer of the multivariate Gaussian family: the formulas of `Hand/Mvg.lean` with the
  linear-algebra quantities taken from `Matrix (Fin d) (Fin d) ℝ` (arbitrary `d`), the Cholesky factor / inverse /
  determinant being characterised by their defining equations (`L Lᵀ = Σ`, `L` lower triangular with positive
  diagonal, `Σ⁻¹ Σ = 1`).  The scalar formulas are the SAME definitions (`Hand.Mvg.lnFCore`, `entropyCore`,
  `lnFStatCore`, `iwLnFCore`, `lnZCore`, `lnMCore`, `lnPpCore`) the executable model evaluates, at the carrier `R`.
-/
open Matrix Hand.Mvg Real

namespace C15L

abbrev V (d : ℕ) := Fin d → ℝ
abbrev Mx (d : ℕ) := Matrix (Fin d) (Fin d) ℝ

variable {d : ℕ}

/-! ## MvGaussian with its cache -/

/-- abstract `MvGaussian`: parameters and the two cached matrices (`MvgCache { cov_chol, cov_inv }`) -/
structure AMvg (d : ℕ) where
  mu : V d
  cov : Mx d
  /-- `cache.cov_chol` (the factor `L`) -/
  L : Mx d
  /-- `cache.cov_inv` -/
  inv : Mx d

/-- what `MvgCache::from_cov` establishes when nalgebra's Cholesky succeeds (trusted): `L` lower triangular with positive
    diagonal, `L Lᵀ = Σ`, and the cached inverse is a left inverse of `Σ` -/
structure AMvg.Valid (g : AMvg d) : Prop where
  lower : ∀ i j, i < j → g.L i j = 0
  diag_pos : ∀ i, 0 < g.L i i
  chol : g.L * g.Lᵀ = g.cov
  inv : g.inv * g.cov = 1

/-- `l_dirty().diagonal().fold(1.0, |acc, y| acc * y)` -/
noncomputable def detSqrtA (L : Mx d) : ℝ := ∏ i, L i i
/-- `(vᵀ · M · v)[0]` -/
noncomputable def quadA (M : Mx d) (v : V d) : ℝ := (v ᵥ* M) ⬝ᵥ v
/-- `Cholesky::ln_determinant` -/
noncomputable def cholLnDetA (L : Mx d) : ℝ := ∑ i, Real.log (L i i * L i i)

/-- `MvGaussian::ln_f` (`mvg.rs:420-434`) -/
noncomputable def AMvg.lnF (g : AMvg d) (x : V d) : ℝ :=
  (lnFCore d (⟨detSqrtA g.L⟩ : R) ⟨quadA g.inv (x - g.mu)⟩).val
/-- `MvGaussian::entropy` (`mvg.rs:483-494`) -/
noncomputable def AMvg.entropy (g : AMvg d) : ℝ := (entropyCore d (⟨detSqrtA g.L⟩ : R)).val
/-- `MvGaussian::draw` with the variates `z` (`mvg.rs:446-452`): `μ_i + Σ_{j ≤ i} L[i][j] z_j` -/
noncomputable def AMvg.drawZ (g : AMvg d) (z : V d) : V d :=
  fun i => g.mu i + ∑ j ∈ Finset.univ.filter (fun j => j ≤ i), g.L i j * z j

theorem lower_isLowerTriangular {L : Mx d} (h : ∀ i j, i < j → L i j = 0) : L.IsLowerTriangular := by
  intro i j hij
  exact h i j hij

theorem det_cov {g : AMvg d} (h : g.Valid) : g.cov.det = detSqrtA g.L ^ 2 := by
  rw [← h.chol, det_mul, det_transpose, det_of_isLowerTriangular _ (lower_isLowerTriangular h.lower), detSqrtA]
  ring

theorem detSqrtA_pos {g : AMvg d} (h : g.Valid) : 0 < detSqrtA g.L :=
  Finset.prod_pos fun i _ => h.diag_pos i

theorem det_cov_pos {g : AMvg d} (h : g.Valid) : 0 < g.cov.det := by
  rw [det_cov h]; exact pow_pos (detSqrtA_pos h) 2

theorem inv_eq {g : AMvg d} (h : g.Valid) : g.inv = g.cov⁻¹ := (inv_eq_left_inv h.inv).symm

theorem quadA_eq (M : Mx d) (v : V d) : quadA M v = v ⬝ᵥ (M *ᵥ v) := by
  rw [quadA, dotProduct_mulVec]

/-- `Σ ln(Lᵢᵢ²) = ln det Σ` -/
theorem cholLnDetA_eq {g : AMvg d} (h : g.Valid) : cholLnDetA g.L = Real.log g.cov.det := by
  rw [det_cov h, detSqrtA, cholLnDetA, ← Finset.prod_pow, Real.log_prod]
  · exact Finset.sum_congr rfl fun i _ => by rw [pow_two]
  · intro i _; exact pow_ne_zero 2 (h.diag_pos i).ne'

/-! ## the sufficient statistic -/

/-- abstract `MvGaussianSuffStat` -/
structure AStat (d : ℕ) where
  n : ℕ
  sumx : V d
  sumxsq : Mx d

/-- `MvGaussianSuffStat::new` -/
def AStat.new : AStat d := ⟨0, 0, 0⟩
/-- `observe` (`stat/mvg.rs:61-70`) with its `n == 1` branch -/
def AStat.observe (s : AStat d) (x : V d) : AStat d :=
  if s.n + 1 = 1 then ⟨s.n + 1, x, vecMulVec x x⟩ else ⟨s.n + 1, s.sumx + x, s.sumxsq + vecMulVec x x⟩
/-- `forget` (`stat/mvg.rs:72-82`) with its `n > 0` branch -/
def AStat.forget (s : AStat d) (x : V d) : AStat d :=
  if s.n - 1 > 0 then ⟨s.n - 1, s.sumx - x, s.sumxsq - vecMulVec x x⟩ else ⟨s.n - 1, 0, 0⟩
/-- the statistic `extract_stat` / `observe_many` builds from data -/
def AStat.ofData (xs : List (V d)) : AStat d := xs.foldl AStat.observe AStat.new

/-- `s` is the statistic of the data `xs` (order-free closed form) -/
def AStat.Abs (s : AStat d) (xs : List (V d)) : Prop :=
  s.n = xs.length ∧ s.sumx = xs.sum ∧ s.sumxsq = (xs.map fun x => vecMulVec x x).sum

theorem AStat.abs_new : (AStat.new : AStat d).Abs [] := ⟨rfl, rfl, rfl⟩

theorem AStat.abs_observe {s : AStat d} {xs : List (V d)} (h : s.Abs xs) (x : V d) :
    (s.observe x).Abs (xs ++ [x]) := by
  obtain ⟨hn, h1, h2⟩ := h
  unfold AStat.observe
  split_ifs with h0
  · have : xs = [] := by
      have : s.n = 0 := by omega
      exact List.length_eq_zero_iff.mp (hn ▸ this)
    subst this
    refine ⟨by simp [hn], by simp, by simp⟩
  · refine ⟨by simp [hn], by simp [h1], by simp [h2]⟩

theorem AStat.abs_ofData (xs : List (V d)) : (AStat.ofData xs).Abs xs := by
  unfold AStat.ofData
  induction xs using List.reverseRecOn with
  | nil => exact AStat.abs_new
  | append_singleton xs x ih => rw [List.foldl_append]; exact AStat.abs_observe ih x

theorem AStat.abs_forget {s : AStat d} {xs : List (V d)} (h : s.Abs xs) (x : V d) (hx : x ∈ xs) :
    (s.forget x).Abs (xs.erase x) := by
  obtain ⟨hn, h1, h2⟩ := h
  have hlen : (xs.erase x).length = xs.length - 1 := List.length_erase_of_mem hx
  have hs1 : (xs.erase x).sum = xs.sum - x := by
    have := List.sum_erase hx; rw [← this]; abel
  have hs2 : ((xs.erase x).map fun y => vecMulVec y y).sum = (xs.map fun y => vecMulVec y y).sum - vecMulVec x x := by
    have hp : (xs.map fun y => vecMulVec y y).Perm ((x :: xs.erase x).map fun y => vecMulVec y y) :=
      (List.perm_cons_erase hx).map _
    rw [hp.sum_eq, List.map_cons, List.sum_cons]; abel
  unfold AStat.forget
  split_ifs with h0
  · exact ⟨by simp [hlen, hn], by simp [hs1, h1], by simp [hs2, h2]⟩
  · have h1' : xs.length = 1 := by
      have : 0 < xs.length := List.length_pos_of_mem hx
      omega
    have he : xs.erase x = [] := List.length_eq_zero_iff.mp (by omega)
    rw [he]
    exact ⟨by simp [hn, h1'], rfl, rfl⟩


/-- `MvGaussian::ln_f_stat` (`mvg.rs:503-524`) with its early return `0.0` on the empty statistic;
    `sum_x / n` and `(sum_x sum_xᵀ) / n` written `n⁻¹ • _` -/
noncomputable def AMvg.lnFStat (g : AMvg d) (s : AStat d) : ℝ :=
  if s.n = 0 then ((0.0 : R)).val
  else
    let n : ℝ := s.n
    let xbar : V d := n⁻¹ • s.sumx
    let sigmaHat : Mx d := s.sumxsq - n⁻¹ • vecMulVec s.sumx s.sumx
    (lnFStatCore s.n d (⟨cholLnDetA g.L⟩ : R) ⟨quadA g.inv (xbar - g.mu)⟩ ⟨trace (g.inv * sigmaHat)⟩).val

theorem sum_outer_center (xs : List (V d)) (μ : V d) :
    (xs.map fun x => vecMulVec (x - μ) (x - μ)).sum
      = (xs.map fun x => vecMulVec x x).sum - vecMulVec xs.sum μ - vecMulVec μ xs.sum
        + (xs.length : ℝ) • vecMulVec μ μ := by
  induction xs with
  | nil => simp
  | cons x xs ih =>
    simp only [List.map_cons, List.sum_cons, List.length_cons, ih, Nat.cast_add, Nat.cast_one]
    ext i j
    simp only [vecMulVec_apply, Matrix.add_apply, Matrix.sub_apply, Matrix.smul_apply, Pi.sub_apply, Pi.add_apply,
      smul_eq_mul]
    ring

/-- quadratic form as a trace (cyclicity): `vᵀ M v = tr(M · v vᵀ)` -/
theorem quadA_trace (M : Mx d) (v : V d) : quadA M v = trace (M * vecMulVec v v) := by
  rw [mul_vecMulVec, trace_vecMulVec, quadA_eq, dotProduct_comm]

theorem sum_quadA (M : Mx d) (vs : List (V d)) :
    (vs.map fun v => quadA M v).sum = trace (M * (vs.map fun v => vecMulVec v v).sum) := by
  induction vs with
  | nil => simp
  | cons v vs ih => rw [List.map_cons, List.sum_cons, ih, List.map_cons, List.sum_cons, Matrix.mul_add, trace_add, quadA_trace]


/-- the scatter identity: `Σᵢ (xᵢ−μ)(xᵢ−μ)ᵀ = S + n (x̄−μ)(x̄−μ)ᵀ`, `S = Σ xᵢxᵢᵀ − n x̄ x̄ᵀ`, `x̄ = (Σ xᵢ)/n` -/
theorem scatter_identity (xs : List (V d)) (hxs : xs ≠ []) (μ : V d) :
    let n : ℝ := xs.length
    let xbar : V d := n⁻¹ • xs.sum
    let S : Mx d := (xs.map fun x => vecMulVec x x).sum - n • vecMulVec xbar xbar
    (xs.map fun x => vecMulVec (x - μ) (x - μ)).sum = S + n • vecMulVec (xbar - μ) (xbar - μ) := by
  intro n xbar S
  have hn : n ≠ 0 := by
    have : 0 < xs.length := List.length_pos_iff.mpr hxs
    simp only [n]; exact_mod_cast this.ne'
  rw [sum_outer_center]
  ext i j
  simp only [S, xbar, vecMulVec_apply, Matrix.add_apply, Matrix.sub_apply, Matrix.smul_apply, Pi.sub_apply,
    Pi.smul_apply, smul_eq_mul]
  field_simp
  ring

/-- the code's `sigma_hat = sum_x_sq − (sum_x sum_xᵀ)/n` is `S` -/
theorem sigmaHat_eq (xs : List (V d)) (hxs : xs ≠ []) :
    let n : ℝ := xs.length
    (xs.map fun x => vecMulVec x x).sum - n⁻¹ • vecMulVec xs.sum xs.sum
      = (xs.map fun x => vecMulVec x x).sum - n • vecMulVec (n⁻¹ • xs.sum) (n⁻¹ • xs.sum) := by
  intro n
  have hn : n ≠ 0 := by
    have : 0 < xs.length := List.length_pos_iff.mpr hxs
    simp only [n]; exact_mod_cast this.ne'
  ext i j
  simp only [vecMulVec_apply, Matrix.sub_apply, Matrix.smul_apply, Pi.smul_apply, smul_eq_mul]
  field_simp


/-! ## NormalInvWishart as a conjugate prior of MvGaussian -/

/-- abstract `NormalInvWishart` -/
@[ext] structure ANiw (d : ℕ) where
  mu : V d
  k : ℝ
  df : ℕ
  scale : Mx d

/-- what `validate_params` enforces beyond the shapes (which are types here) -/
def ANiw.Valid (p : ANiw d) : Prop := 0 < p.k ∧ d ≤ p.df

/-- the arguments of `NormalInvWishart::new` at `mvg_prior.rs:59`, as computed at `:38-57`
    (`nf = x.n() as f64`, `stat.n() as f64` both appear in the code) -/
noncomputable def ANiw.postParams (pr : ANiw d) (nf : ℝ) (s : AStat d) : ANiw d :=
  let snf : ℝ := s.n
  let xbar : V d := snf⁻¹ • s.sumx
  let diff : V d := xbar - pr.mu
  let S : Mx d := s.sumxsq + nf • vecMulVec xbar xbar - vecMulVec s.sumx xbar - vecMulVec xbar s.sumx
  let kn : ℝ := pr.k + snf
  { mu := kn⁻¹ • (pr.k • pr.mu + s.sumx)
    k := kn
    df := pr.df + s.n
    scale := pr.scale + S + vecMulVec (((pr.k * snf) / kn) • diff) diff }

/-- `posterior` (`mvg_prior.rs:28-63`) on a statistic, `n = x.n()` -/
noncomputable def ANiw.posterior (pr : ANiw d) (n : ℕ) (s : AStat d) : ANiw d :=
  if n = 0 then pr else pr.postParams n s

/-- `posterior(&DataOrSuffStat::Data(xs))` -/
noncomputable def ANiw.posteriorData (pr : ANiw d) (xs : List (V d)) : ANiw d :=
  pr.posterior xs.length (AStat.ofData xs)

/-- completing the square (the conjugacy core) -/
theorem complete_square (κ n : ℝ) (hκn : κ + n ≠ 0) (m xbar μ : V d) :
    κ • vecMulVec (μ - m) (μ - m) + n • vecMulVec (xbar - μ) (xbar - μ)
      = (κ + n) • vecMulVec (μ - (κ + n)⁻¹ • (κ • m + n • xbar)) (μ - (κ + n)⁻¹ • (κ • m + n • xbar))
        + (κ * n / (κ + n)) • vecMulVec (xbar - m) (xbar - m) := by
  ext i j
  simp only [vecMulVec_apply, Matrix.add_apply, Matrix.smul_apply, Pi.sub_apply, Pi.add_apply, Pi.smul_apply,
    smul_eq_mul]
  field_simp
  ring

/-- closed form of the computed posterior in terms of `n, Σx, Σxxᵀ` (valid for empty data as well) -/
theorem posteriorData_closed (pr : ANiw d) (hk : 0 < pr.k) (xs : List (V d)) :
    pr.posteriorData xs
      = { mu := (pr.k + xs.length)⁻¹ • (pr.k • pr.mu + xs.sum)
          k := pr.k + xs.length
          df := pr.df + xs.length
          scale := pr.scale + (xs.map fun x => vecMulVec x x).sum + pr.k • vecMulVec pr.mu pr.mu
                    - (pr.k + xs.length) • vecMulVec ((pr.k + xs.length : ℝ)⁻¹ • (pr.k • pr.mu + xs.sum))
                                                    ((pr.k + xs.length : ℝ)⁻¹ • (pr.k • pr.mu + xs.sum)) } := by
  obtain ⟨hn, h1, h2⟩ := AStat.abs_ofData xs
  have hk0 : pr.k ≠ 0 := hk.ne'
  unfold ANiw.posteriorData ANiw.posterior
  split_ifs with h0
  · have : xs = [] := List.length_eq_zero_iff.mp h0
    subst this
    ext <;> simp [hk0]
  · have hn0 : (xs.length : ℝ) ≠ 0 := by exact_mod_cast h0
    have hkn : pr.k + (xs.length : ℝ) ≠ 0 := by positivity
    simp only [ANiw.postParams, hn, h1, h2]
    ext i j
    · rfl
    · rfl
    · rfl
    · simp only [vecMulVec_apply, Matrix.add_apply, Matrix.sub_apply, Matrix.smul_apply, Pi.sub_apply, Pi.add_apply,
        Pi.smul_apply, smul_eq_mul]
      field_simp
      ring

/-- `ln_z(k, df, scale)` (`mvg_prior.rs:12-21`) -/
noncomputable def ANiw.lnZ (p : ANiw d) : ℝ := (lnZCore (⟨p.k⟩ : R) p.df d ⟨p.scale.det⟩).val
/-- `ln_m` = `ln_m_with_cache(&ln_m_cache(), x)` (`mvg_prior.rs:66-77`) -/
noncomputable def ANiw.lnM (pr : ANiw d) (xs : List (V d)) : ℝ :=
  (lnMCore d xs.length (⟨(pr.posteriorData xs).lnZ⟩ : R) ⟨pr.lnZ⟩).val
/-- `ln_pp(y, x)` = `ln_pp_with_cache(&ln_pp_cache(x), y)` (`mvg_prior.rs:80-101`): the predictive posterior is the
    posterior of the posterior on the one-observation STATISTIC of `y` -/
noncomputable def ANiw.lnPp (pr : ANiw d) (y : V d) (xs : List (V d)) : ℝ :=
  let post := pr.posteriorData xs
  let pred := post.posterior ((AStat.new : AStat d).observe y).n ((AStat.new : AStat d).observe y)
  (lnPpCore d (⟨pred.lnZ⟩ : R) ⟨post.lnZ⟩).val

theorem posteriorData_valid (pr : ANiw d) (h : pr.Valid) (xs : List (V d)) : (pr.posteriorData xs).Valid := by
  rw [posteriorData_closed pr h.1]
  refine ⟨?_, ?_⟩
  · have := h.1; show 0 < pr.k + (xs.length : ℝ); positivity
  · show d ≤ pr.df + xs.length; have := h.2; omega

theorem posteriorData_nil (pr : ANiw d) : pr.posteriorData [] = pr := by
  simp [ANiw.posteriorData, ANiw.posterior]

theorem posteriorData_append (pr : ANiw d) (h : pr.Valid) (xs ys : List (V d)) :
    (pr.posteriorData xs).posteriorData ys = pr.posteriorData (xs ++ ys) := by
  have hv := posteriorData_valid pr h xs
  rw [posteriorData_closed _ hv.1, posteriorData_closed pr h.1 (xs ++ ys)]
  rw [posteriorData_closed pr h.1 xs] at hv ⊢
  have hk := h.1
  have hx : (0 : ℝ) ≤ (xs.length : ℝ) := by positivity
  have hy : (0 : ℝ) ≤ (ys.length : ℝ) := by positivity
  have h1 : pr.k + (xs.length : ℝ) ≠ 0 := by positivity
  have h2 : pr.k + (xs.length : ℝ) + (ys.length : ℝ) ≠ 0 := by positivity
  have h3 : pr.k + ((xs.length : ℝ) + (ys.length : ℝ)) ≠ 0 := by positivity
  simp only [List.length_append, List.map_append, List.sum_append, Nat.cast_add]
  ext i j
  · simp only [Pi.smul_apply, Pi.add_apply, smul_eq_mul]
    field_simp
    ring
  · simp only; ring
  · simp only; omega
  · simp only [vecMulVec_apply, Matrix.add_apply, Matrix.sub_apply, Matrix.smul_apply, Pi.add_apply,
      Pi.smul_apply, smul_eq_mul]
    field_simp
    ring

/-- `InvWishart::ln_f(x)` (`wishart.rs:161-176`) with `xinv = x.try_inverse().unwrap()` -/
noncomputable def iwLnFA (scale : Mx d) (df : ℕ) (x xinv : Mx d) : ℝ :=
  (iwLnFCore d df (⟨scale.det⟩ : R) ⟨x.det⟩ ⟨trace (scale * xinv)⟩).val

/-- `NormalInvWishart::ln_f(θ)` (`niw.rs:270-277`): `inner` is the `MvGaussian::new_unchecked(m, θ.cov / k)` with its
    cache, `xinv = θ.cov.try_inverse()` -/
noncomputable def ANiw.lnF (p : ANiw d) (θ inner : AMvg d) (xinv : Mx d) : ℝ :=
  inner.lnF θ.mu + iwLnFA p.scale p.df θ.cov xinv

/-- the inner Gaussian of `NormalInvWishart::ln_f`: mean `m`, covariance `θ.cov / k`, cache valid -/
structure ANiw.InnerOk (p : ANiw d) (θ inner : AMvg d) : Prop where
  valid : inner.Valid
  mu : inner.mu = p.mu
  cov : inner.cov = p.k⁻¹ • θ.cov

theorem left_inv_unique {A B S : Mx d} (hA : A * S = 1) (hB : B * S = 1) : A = B := by
  have hS : S * B = 1 := mul_eq_one_comm.mp hB
  calc A = A * (S * B) := by rw [hS, Matrix.mul_one]
    _ = (A * S) * B := by rw [Matrix.mul_assoc]
    _ = B := by rw [hA, Matrix.one_mul]

theorem inner_inv {p : ANiw d} {θ inner : AMvg d} (hp : 0 < p.k) (hθ : θ.Valid) (h : p.InnerOk θ inner) :
    inner.inv = p.k • θ.inv := by
  have h1 : inner.inv * (p.k⁻¹ • θ.cov) = 1 := by rw [← h.cov]; exact h.valid.inv
  have h2 : (p.k⁻¹ • inner.inv) * θ.cov = 1 := by rw [Matrix.smul_mul, ← Matrix.mul_smul]; exact h1
  have := left_inv_unique h2 hθ.inv
  rw [← this, smul_smul, mul_inv_cancel₀ hp.ne', one_smul]

theorem inner_logdet {p : ANiw d} {θ inner : AMvg d} (hp : 0 < p.k) (hθ : θ.Valid) (h : p.InnerOk θ inner) :
    Real.log inner.cov.det = Real.log θ.cov.det - (d : ℝ) * Real.log p.k := by
  rw [h.cov, det_smul, Fintype.card_fin, Real.log_mul (pow_ne_zero _ (inv_ne_zero hp.ne')) (det_cov_pos hθ).ne',
    Real.log_pow, Real.log_inv]
  ring

theorem quadA_smul (c : ℝ) (M : Mx d) (v : V d) : quadA (c • M) v = c * quadA M v := by
  simp only [quadA, vecMul_smul, smul_dotProduct, smul_eq_mul]

/-- matrix identity behind Bayes' rule: `κₙ(μ−mₙ)(μ−mₙ)ᵀ + Ψₙ = κ(μ−m)(μ−m)ᵀ + Ψ + Σᵢ(xᵢ−μ)(xᵢ−μ)ᵀ` -/
theorem bayes_matrix_identity (pr : ANiw d) (hk : 0 < pr.k) (xs : List (V d)) (μ : V d) :
    (pr.posteriorData xs).k • vecMulVec (μ - (pr.posteriorData xs).mu) (μ - (pr.posteriorData xs).mu)
        + (pr.posteriorData xs).scale
      = pr.k • vecMulVec (μ - pr.mu) (μ - pr.mu) + pr.scale + (xs.map fun x => vecMulVec (x - μ) (x - μ)).sum := by
  have hn : (0 : ℝ) ≤ (xs.length : ℝ) := by positivity
  have hkn : pr.k + (xs.length : ℝ) ≠ 0 := by positivity
  rw [posteriorData_closed pr hk, sum_outer_center]
  ext i j
  simp only [vecMulVec_apply, Matrix.add_apply, Matrix.sub_apply, Matrix.smul_apply, Pi.add_apply, Pi.sub_apply,
    Pi.smul_apply, smul_eq_mul]
  field_simp
  ring

theorem half_mul_R (x : R) : ((0.5 : R) * x) = x / (2.0 : R) := by
  apply R.ext'
  simp only [R.mul_val, R.div_val, R.sci_val]
  norm_num
  ring

/-- closed form of the code's `θ.ln_f(x)` through the quadratic form of the cached inverse -/
theorem mvg_lnF_quad (θ : AMvg d) (hθ : θ.Valid) (x : V d) :
    θ.lnF x = -(1/2 : ℝ) * ((Real.log θ.cov.det + (d : ℝ) * Real.log (2 * π)) + quadA θ.inv (x - θ.mu)) := by
  rw [det_cov hθ]
  simp only [AMvg.lnF, lnFCore, mulAdd, R.add_val, R.mul_val, R.neg_val, R.ln_val, R.sci_val, R.ofNatR_val,
    R.ln2Pi_val]
  rw [pow_two]
  norm_num
  ring

/-- closed form of the code's `NormalInvWishart::ln_f` -/
theorem niw_lnF_closed (p : ANiw d) (hp : 0 < p.k) (θ inner : AMvg d) (hθ : θ.Valid) (hin : p.InnerOk θ inner)
    (xinv : Mx d) (hx : xinv * θ.cov = 1) :
    p.lnF θ inner xinv
      = -(1/2 : ℝ) * ((Real.log θ.cov.det - (d : ℝ) * Real.log p.k + (d : ℝ) * Real.log (2 * π))
            + p.k * quadA θ.inv (θ.mu - p.mu))
        + ((p.df : ℝ) / 2 * Real.log p.scale.det
            - (Real.log 2 * ((p.df : ℝ) * d / 2) + (Gen.lnmv_gamma d ((RealLike.ofNatR p.df : R) / (2.0 : R))).val)
            - ((p.df : ℝ) + d + 1) / 2 * Real.log θ.cov.det
            - trace (θ.inv * p.scale) / 2) := by
  have hxi : xinv = θ.inv := left_inv_unique hx hθ.inv
  unfold ANiw.lnF
  rw [mvg_lnF_quad inner hin.valid, inner_logdet hp hθ hin, inner_inv hp hθ hin, quadA_smul, hin.mu, hxi,
    trace_mul_comm]
  simp only [iwLnFA, iwLnFCore, half_mul_R, mulAdd, R.add_val, R.sub_val, R.mul_val, R.neg_val, R.ln_val, R.sci_val,
    R.ofNatR_val, R.ln2_val]
  norm_num
  ring

theorem niw_lnZ_closed (p : ANiw d) (hp : 0 < p.k) :
    p.lnZ = (p.df : ℝ) * d / 2 * Real.log 2 + (Gen.lnmv_gamma d ((RealLike.ofNatR p.df : R) / (2.0 : R))).val
            + ((d : ℝ) / 2 * (Real.log (2 * π) - Real.log p.k) - (p.df : ℝ) / 2 * Real.log p.scale.det) := by
  have hl : Real.log (2 * π / p.k) = Real.log (2 * π) - Real.log p.k :=
    Real.log_div (by positivity) hp.ne'
  simp only [ANiw.lnZ, lnZCore, mulAdd, R.add_val, R.mul_val, R.neg_val, R.div_val, R.ln_val, R.sci_val,
    R.ofNatR_val, R.ln2_val, R.pi_val]
  have h2 : (OfScientific.ofScientific 20 true 1 : ℝ) = 2 := by norm_num
  rw [h2, hl]
  ring

/-! ## bridge: the list functions of `Hand/Mvg.lean` at the carrier `R` on lists read off vectors / matrices -/

/-- the list encoding of a vector -/
def toVec (v : V d) : Vec R := List.ofFn fun i => (⟨v i⟩ : R)
/-- the list encoding (rows) of a matrix -/
def toMat (M : Mx d) : Mat R := List.ofFn fun i => List.ofFn fun j => (⟨M i j⟩ : R)

@[simp] theorem length_toVec (v : V d) : (toVec v).length = d := by simp [toVec]
@[simp] theorem length_toMat (M : Mx d) : (toMat M).length = d := by simp [toMat]
@[simp] theorem getElem_toVec (v : V d) (i : ℕ) (h : i < (toVec v).length) :
    (toVec v)[i] = ⟨v ⟨i, by simpa using h⟩⟩ := by simp [toVec]
@[simp] theorem getElem_toMat (M : Mx d) (i : ℕ) (h : i < (toMat M).length) :
    (toMat M)[i] = toVec (M ⟨i, by simpa using h⟩) := by simp [toMat, toVec]

theorem idxR_toVec (v : V d) (i : Fin d) : idxR (toVec v) i = ⟨v i⟩ := by
  simp [idxR, toVec, List.getD_eq_getElem?_getD]

theorem foldl_add_val (xs : List R) (a : R) : (xs.foldl (· + ·) a).val = a.val + (xs.map R.val).sum := by
  induction xs generalizing a with
  | nil => simp
  | cons x xs ih => simp [List.foldl, ih, add_assoc]

theorem foldl_mul_val (xs : List R) (a : R) : (xs.foldl (fun acc y => acc * y) a).val = a.val * (xs.map R.val).prod := by
  induction xs generalizing a with
  | nil => simp
  | cons x xs ih => simp [List.foldl, ih, mul_assoc]

theorem zero_val : ((0.0 : R)).val = 0 := by rw [R.sci_val]; norm_num
theorem one_val : ((1.0 : R)).val = 1 := by rw [R.sci_val]; norm_num

theorem vsub_toVec (u v : V d) : vsub (toVec u) (toVec v) = toVec (u - v) := by
  apply List.ext_getElem
  · simp [vsub]
  · intro i h1 h2
    simp [vsub, toVec]
    rfl

theorem vadd_toVec (u v : V d) : vadd (toVec u) (toVec v) = toVec (u + v) := by
  apply List.ext_getElem
  · simp [vadd]
  · intro i h1 h2
    simp [vadd, toVec]
    rfl

theorem dot_toVec (u v : V d) : (dot (toVec u) (toVec v)).val = u ⬝ᵥ v := by
  have : List.zipWith (· * ·) (toVec u) (toVec v) = List.ofFn fun i => (⟨u i * v i⟩ : R) := by
    apply List.ext_getElem
    · simp
    · intro i h1 h2
      simp [toVec]
      rfl
  rw [dot, this, foldl_add_val, zero_val, zero_add, List.map_ofFn, List.sum_ofFn]
  rfl


theorem ncols_toMat (M : Mx d) : ncols (toMat M) = d := by
  rcases Nat.eq_zero_or_pos d with h | h
  · subst h; simp [ncols, toMat]
  · have : (toMat M) ≠ [] := by
      intro h0; have := congrArg List.length h0; simp at this; omega
    obtain ⟨r, rs, hr⟩ := List.exists_cons_of_ne_nil this
    have h0 : (toMat M)[0]'(by simp; exact h) = r := by simp [hr]
    rw [ncols, hr, List.headD_cons, ← h0]
    simp

theorem transpose_toMat (M : Mx d) : Hand.Mvg.transpose (toMat M) = toMat Mᵀ := by
  apply List.ext_getElem
  · simp [Hand.Mvg.transpose, ncols_toMat]
  · intro j h1 h2
    have hj : j < d := by simpa using h2
    simp only [Hand.Mvg.transpose, List.getElem_map, List.getElem_range, getElem_toMat]
    apply List.ext_getElem
    · simp [toMat]
    · intro i h3 h4
      have hi : i < d := by simpa using h4
      simp only [List.getElem_map, getElem_toMat, getElem_toVec, Matrix.transpose_apply]
      exact idxR_toVec _ ⟨j, hj⟩

theorem matVec_toMat (M : Mx d) (v : V d) : matVec (toMat M) (toVec v) = toVec (M *ᵥ v) := by
  apply List.ext_getElem
  · simp [matVec]
  · intro i h1 h2
    apply R.ext'
    simp only [matVec, List.getElem_map, getElem_toMat, getElem_toVec, dot_toVec]
    rfl

theorem vecMat_toMat (v : V d) (M : Mx d) : vecMat (toVec v) (toMat M) = toVec (v ᵥ* M) := by
  apply List.ext_getElem
  · simp [vecMat, transpose_toMat]
  · intro i h1 h2
    apply R.ext'
    simp only [vecMat, transpose_toMat, List.getElem_map, getElem_toMat, getElem_toVec, dot_toVec]
    rfl

theorem quadForm_toMat (M : Mx d) (v : V d) : (quadForm (toMat M) (toVec v)).val = quadA M v := by
  rw [quadForm, vecMat_toMat, dot_toVec, quadA]


theorem mget_toMat (M : Mx d) (i j : Fin d) : mget (toMat M) i j = ⟨M i j⟩ := by
  have : (toMat M).getD i [] = toVec (M i) := by
    rw [List.getD_eq_getElem?_getD, List.getElem?_eq_getElem (by simp)]
    simp
  rw [mget, this, idxR_toVec]

theorem diagonal_toMat (M : Mx d) : Hand.Mvg.diagonal (toMat M) = toVec (fun i => M i i) := by
  apply List.ext_getElem
  · simp [Hand.Mvg.diagonal, nrows]
  · intro i h1 h2
    have hi : i < d := by simpa using h2
    simp only [Hand.Mvg.diagonal, List.getElem_map, List.getElem_range, getElem_toVec]
    exact mget_toMat M ⟨i, hi⟩ ⟨i, hi⟩

theorem detSqrt_toMat (L : Mx d) : (detSqrt (toMat L)).val = detSqrtA L := by
  rw [detSqrt, diagonal_toMat, foldl_mul_val, one_val, one_mul, toVec, List.map_ofFn, List.prod_ofFn]
  rfl

theorem trace_toMat (M : Mx d) : (Hand.Mvg.trace (toMat M)).val = Matrix.trace M := by
  rw [Hand.Mvg.trace, diagonal_toMat, foldl_add_val, zero_val, zero_add, toVec, List.map_ofFn, List.sum_ofFn]
  rfl

theorem cholLnDet_toMat (L : Mx d) : (cholLnDet (toMat L)).val = cholLnDetA L := by
  have : ∀ (xs : List R) (a : R), (xs.foldl (fun s x => s + RealLike.ln (x * x)) a).val
      = a.val + (xs.map fun x => Real.log (x.val * x.val)).sum := by
    intro xs
    induction xs with
    | nil => simp
    | cons x xs ih => intro a; simp [List.foldl, ih, add_assoc]
  rw [cholLnDet, diagonal_toMat, this, zero_val, zero_add, toVec, List.map_ofFn, List.sum_ofFn]
  rfl

theorem matMul_toMat (A B : Mx d) : matMul (toMat A) (toMat B) = toMat (A * B) := by
  apply List.ext_getElem
  · simp [matMul]
  · intro i h1 h2
    simp only [matMul, transpose_toMat, List.getElem_map, getElem_toMat]
    apply List.ext_getElem
    · simp
    · intro j h3 h4
      apply R.ext'
      simp only [List.getElem_map, getElem_toMat, getElem_toVec, dot_toVec]
      rfl

theorem outer_toVec (u v : V d) : outer (toVec u) (toVec v) = toMat (vecMulVec u v) := by
  apply List.ext_getElem
  · simp [outer]
  · intro i h1 h2
    simp only [outer, List.getElem_map, getElem_toMat, getElem_toVec]
    apply List.ext_getElem
    · simp
    · intro j h3 h4
      simp only [List.getElem_map, getElem_toVec]
      rfl

theorem madd_toMat (A B : Mx d) : madd (toMat A) (toMat B) = toMat (A + B) := by
  apply List.ext_getElem
  · simp [madd]
  · intro i h1 h2
    simp only [madd, List.getElem_zipWith, getElem_toMat, vadd_toVec]
    rfl

theorem msub_toMat (A B : Mx d) : msub (toMat A) (toMat B) = toMat (A - B) := by
  apply List.ext_getElem
  · simp [msub]
  · intro i h1 h2
    simp only [msub, List.getElem_zipWith, getElem_toMat, vsub_toVec]
    rfl

theorem vdivs_toVec (v : V d) (c : ℝ) : vdivs (toVec v) ⟨c⟩ = toVec (c⁻¹ • v) := by
  apply List.ext_getElem
  · simp [vdivs]
  · intro i h1 h2
    apply R.ext'
    simp only [vdivs, List.getElem_map, getElem_toVec, R.div_val, Pi.smul_apply, smul_eq_mul]
    rw [div_eq_inv_mul]

theorem vscale_toVec (c : ℝ) (v : V d) : vscale ⟨c⟩ (toVec v) = toVec (c • v) := by
  apply List.ext_getElem
  · simp [vscale]
  · intro i h1 h2
    apply R.ext'
    simp only [vscale, List.getElem_map, getElem_toVec, R.mul_val, Pi.smul_apply, smul_eq_mul]

theorem mdivs_toMat (A : Mx d) (c : ℝ) : mdivs (toMat A) ⟨c⟩ = toMat (c⁻¹ • A) := by
  apply List.ext_getElem
  · simp [mdivs]
  · intro i h1 h2
    simp only [mdivs, List.getElem_map, getElem_toMat, vdivs_toVec]
    rfl

theorem mscale_toMat (c : ℝ) (A : Mx d) : mscale ⟨c⟩ (toMat A) = toMat (c • A) := by
  apply List.ext_getElem
  · simp [mscale]
  · intro i h1 h2
    simp only [mscale, List.getElem_map, getElem_toMat, vscale_toVec]
    rfl

/-- the executable `MvGaussian` that carries the parameters and the cache of the abstract object -/
def AMvg.toExec (g : AMvg d) : MvGaussian R := ⟨toVec g.mu, toMat g.cov, ⟨toMat g.L, toMat g.inv⟩⟩
def AStat.toExec (s : AStat d) : MvGaussianSuffStat R := ⟨s.n, toVec s.sumx, toMat s.sumxsq⟩
def ANiw.toExec (p : ANiw d) : NormalInvWishart R := ⟨toVec p.mu, ⟨p.k⟩, p.df, toMat p.scale⟩

theorem ln_f_bridge (g : AMvg d) (x : V d) : (g.toExec.ln_f (toVec x)).val = g.lnF x := by
  simp only [MvGaussian.ln_f, AMvg.toExec, vsub_toVec, length_toVec, AMvg.lnF]
  congr 2
  · exact R.ext' (detSqrt_toMat g.L)
  · exact R.ext' (quadForm_toMat g.inv (x - g.mu))

theorem entropy_bridge (g : AMvg d) : g.toExec.entropy.val = g.entropy := by
  simp only [MvGaussian.entropy, AMvg.toExec, AMvg.entropy, nrows, length_toMat]
  congr 2
  exact R.ext' (detSqrt_toMat g.L)

theorem draw_z_bridge (g : AMvg d) (z : V d) : g.toExec.draw_z (toVec z) = toVec (g.drawZ z) := by
  apply List.ext_getElem
  · simp [MvGaussian.draw_z, AMvg.toExec]
  · intro i h1 h2
    have hi : i < d := by simpa using h2
    apply R.ext'
    simp only [MvGaussian.draw_z, AMvg.toExec, List.getElem_map, List.getElem_range, getElem_toVec, AMvg.drawZ]
    have key : ∀ (n : ℕ) (hn : n ≤ i + 1) (a : R),
        ((List.range n).foldl (fun out j => out + mget (toMat g.L) i j * idxR (toVec z) j) a).val
          = a.val + ∑ j ∈ Finset.univ.filter (fun j : Fin d => j.val < n), g.L ⟨i, hi⟩ j * z j := by
      intro n
      induction n with
      | zero => intro _ a; simp
      | succ n ih =>
        intro hn a
        have hnd : n < d := by omega
        rw [List.range_succ, List.foldl_append, List.foldl_cons, List.foldl_nil, R.add_val, R.mul_val, ih (by omega)]
        have e1 : mget (toMat g.L) i n = ⟨g.L ⟨i, hi⟩ ⟨n, hnd⟩⟩ := mget_toMat g.L ⟨i, hi⟩ ⟨n, hnd⟩
        have e2 : idxR (toVec z) n = ⟨z ⟨n, hnd⟩⟩ := idxR_toVec z ⟨n, hnd⟩
        rw [e1, e2]
        have : Finset.univ.filter (fun j : Fin d => j.val < n + 1)
            = insert ⟨n, hnd⟩ (Finset.univ.filter (fun j : Fin d => j.val < n)) := by
          ext j; simp [Fin.ext_iff]; omega
        rw [this, Finset.sum_insert (by simp)]
        ring
    rw [key (i + 1) le_rfl, idxR_toVec g.mu ⟨i, hi⟩]
    congr 1
    apply Finset.sum_congr
    · ext j; simp [Fin.le_def]
    · intros; rfl


theorem vzeros_eq : (vzeros d : Vec R) = toVec (0 : V d) := by
  apply List.ext_getElem
  · simp [vzeros]
  · intro i h1 h2
    apply R.ext'
    simp only [vzeros, List.getElem_replicate, getElem_toVec, Pi.zero_apply]
    exact zero_val

theorem mzeros_eq : (mzeros d d : Mat R) = toMat (0 : Mx d) := by
  apply List.ext_getElem
  · simp [mzeros]
  · intro i h1 h2
    simp only [mzeros, List.getElem_replicate, getElem_toMat]
    exact vzeros_eq

theorem stat_new_bridge : (MvGaussianSuffStat.new d : MvGaussianSuffStat R) = (AStat.new : AStat d).toExec := by
  simp [MvGaussianSuffStat.new, AStat.new, AStat.toExec, vzeros_eq, mzeros_eq]

theorem stat_observe_bridge (s : AStat d) (x : V d) : s.toExec.observe (toVec x) = (s.observe x).toExec := by
  unfold MvGaussianSuffStat.observe AStat.observe
  simp only [AStat.toExec]
  split_ifs with h
  · simp [outer_toVec, h]
  · have : ¬ s.n = 0 := by omega
    simp [vadd_toVec, madd_toMat, outer_toVec, this]

theorem stat_forget_bridge (s : AStat d) (x : V d) : s.toExec.forget (toVec x) = (s.forget x).toExec := by
  unfold MvGaussianSuffStat.forget AStat.forget
  simp only [AStat.toExec]
  split_ifs with h
  · have : ¬ s.n ≤ 1 := by omega
    simp [vsub_toVec, msub_toMat, outer_toVec, this]
  · have : s.n ≤ 1 := by omega
    simp [vzeros_eq, mzeros_eq, this]

theorem stat_ofData_bridge (xs : List (V d)) :
    (MvGaussianSuffStat.new d : MvGaussianSuffStat R).observe_many (xs.map toVec) = (AStat.ofData xs).toExec := by
  rw [MvGaussianSuffStat.observe_many, AStat.ofData, stat_new_bridge]
  generalize (AStat.new : AStat d) = s
  induction xs generalizing s with
  | nil => rfl
  | cons x xs ih => rw [List.map_cons, List.foldl_cons, List.foldl_cons, stat_observe_bridge, ih]

theorem ln_f_stat_bridge (g : AMvg d) (s : AStat d) : (g.toExec.ln_f_stat s.toExec).val = g.lnFStat s := by
  simp only [MvGaussian.ln_f_stat, AMvg.toExec, AStat.toExec, AMvg.lnFStat, length_toVec]
  split_ifs with h0
  · rfl
  have e0 : (RealLike.ofNatR s.n : R) = ⟨(s.n : ℝ)⟩ := rfl
  rw [e0, vdivs_toVec, outer_toVec, mdivs_toMat, msub_toMat, vsub_toVec, matMul_toMat]
  congr 2
  · exact R.ext' (cholLnDet_toMat g.L)
  · exact R.ext' (quadForm_toMat g.inv _)
  · exact R.ext' (trace_toMat _)


theorem posterior_params_bridge (p : ANiw d) (nf : ℝ) (s : AStat d) :
    p.toExec.posterior_params ⟨nf⟩ s.toExec
      = (toVec (p.postParams nf s).mu, ⟨(p.postParams nf s).k⟩, (p.postParams nf s).df, toMat (p.postParams nf s).scale) := by
  have e0 : (RealLike.ofNatR s.n : R) = ⟨(s.n : ℝ)⟩ := rfl
  have e1 : ∀ a b : ℝ, ((⟨a⟩ : R) + ⟨b⟩) = ⟨a + b⟩ := fun _ _ => rfl
  have e2 : ∀ a b : ℝ, ((⟨a⟩ : R) * ⟨b⟩) = ⟨a * b⟩ := fun _ _ => rfl
  have e3 : ∀ a b : ℝ, ((⟨a⟩ : R) / ⟨b⟩) = ⟨a / b⟩ := fun _ _ => rfl
  simp only [NormalInvWishart.posterior_params, ANiw.toExec, AStat.toExec, ANiw.postParams, e0, e1, e2, e3,
    vdivs_toVec, vsub_toVec, outer_toVec, mscale_toMat, madd_toMat, msub_toMat, vscale_toVec, vadd_toVec]

/-- the executable `posterior` on the statistic arm IS the abstract one (and never hits the `.expect`) -/
theorem posterior_bridge (p : ANiw d) (hp : p.Valid) (s : AStat d) :
    p.toExec.posterior (.suffStat s.toExec) = .ok (p.posterior s.n s).toExec := by
  unfold NormalInvWishart.posterior ANiw.posterior
  have hn : MvgData.n (DataOrSuffStat.suffStat s.toExec : MvgData R) = s.n := rfl
  rw [hn]
  split_ifs with h0
  · rfl
  · have e0 : (RealLike.ofNatR s.n : R) = ⟨(s.n : ℝ)⟩ := rfl
    simp only [MvgData.extract, e0, posterior_params_bridge]
    have hk : 0 < (p.postParams (↑s.n) s).k := by
      show 0 < p.k + (s.n : ℝ); have := hp.1; positivity
    have hdf : d ≤ (p.postParams (↑s.n) s).df := by
      show d ≤ p.df + s.n; have := hp.2; omega
    have hle : RealLike.gt (⟨(p.postParams (↑s.n) s).k⟩ : R) (0.0 : R) = true := by
      show RealLike.lt (0.0 : R) _ = true
      rw [R.lt_iff, zero_val]; exact hk
    have hsq : isSquare (toMat (p.postParams (↑s.n) s).scale) = true := by
      simp [isSquare, nrows, ncols_toMat]
    simp [NormalInvWishart.new, NormalInvWishart.validate_params, hle, hsq, nrows, ANiw.toExec, not_lt.mpr hdf]


/-- … and so is the `Data` arm (the statistic is built by `observe` from `new(ndims)`) -/
theorem posterior_data_bridge (p : ANiw d) (hp : p.Valid) (xs : List (V d)) :
    p.toExec.posterior (.data (xs.map toVec)) = .ok (p.posteriorData xs).toExec := by
  have hn := (AStat.abs_ofData xs).1
  have e : p.toExec.posterior (.data (xs.map toVec)) = p.toExec.posterior (.suffStat (AStat.ofData xs).toExec) := by
    unfold NormalInvWishart.posterior
    have h1 : MvgData.n (DataOrSuffStat.data (xs.map toVec) : MvgData R) = xs.length := by simp [MvgData.n]
    have h2 : MvgData.n (DataOrSuffStat.suffStat (AStat.ofData xs).toExec : MvgData R) = xs.length := by
      simp [MvgData.n, AStat.toExec, hn]
    have h3 : MvgData.extract (DataOrSuffStat.data (xs.map toVec) : MvgData R) p.toExec.mu.length
        = (AStat.ofData xs).toExec := by
      simp only [MvgData.extract, ANiw.toExec, length_toVec, stat_ofData_bridge]
    rw [h1, h2, h3]
    rfl
  rw [e, posterior_bridge p hp, ANiw.posteriorData, hn]

end C15L
