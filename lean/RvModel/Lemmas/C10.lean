import RvModel.ExtInst
import RvModel.Gen.Defs
import RvModel.Spec.C10
import Mathlib.Tactic.NormNum.OfScientific
import Mathlib.Tactic.Linarith
import Mathlib.Tactic.SplitIfs
import Mathlib.Tactic.CasesM
/-!
  Lemmas.C10 — tactics and helper lemmas for Props/C10A.lean, Props/C10B.lean.

  Every C10 theorem is a finite case split on the special-value shape (`nan | ninf | pinf | fin r`) of each
  `X`-valued argument, `simp` with the generated definitions and the `X` simp lemmas, and then `c10_close`
  for the real-arithmetic side goals of the all-finite case.
-/
set_option linter.unusedSimpArgs false
set_option linter.unnecessarySeqFocus false
set_option linter.unreachableTactic false
set_option linter.unusedTactic false

/-- closes the side goals left by `rcases … <;> simp [defs]`: evaluates literals, splits the remaining `if`s on
    real comparisons, substitutes the equations `c = e` / `s = d'`, finishes by linear arithmetic -/
macro "c10_close" : tactic =>
  `(tactic| ((try norm_num) <;> (try split_ifs) <;> (try intros) <;> (try subst_vars) <;> (try simp_all) <;>
      (try subst_vars) <;> (try norm_num at *) <;> (try constructorm* _ ∧ _, _ ↔ _) <;> (try intros) <;>
      (try first | assumption | linarith [Real.two_le_pi] | omega | grind [Real.two_le_pi])))

/-- evaluation of a generated function at concrete arguments -/
macro "c10_eval" "[" ls:Lean.Parser.Tactic.simpLemma,* "]" : tactic =>
  `(tactic| ((try simp [$ls,*]) <;> c10_close))

/-- a `Spec` predicate at concrete arguments -/
macro "c10_spec" "[" ls:Lean.Parser.Tactic.simpLemma,* "]" : tactic =>
  `(tactic| ((try simp [Spec.C10.IsFin, Spec.C10.IsPos, Spec.C10.IsUnit, Spec.C10.IsPosLeOne, Spec.C10.IsGeOne,
      Spec.C10.IsCircle, Spec.C10.IsLt, Spec.C10.IsNonneg, Real.pi_pos.le, $ls,*]) <;> (try norm_num) <;>
      (try first | linarith [Real.two_le_pi] | omega)))

/-- per-element side condition of a `try_for_each` closure: case split on the element -/
macro "c10_elem" : tactic =>
  `(tactic| (intro i x; rcases x with _|_|_|x <;> simp <;> c10_close))

namespace C10

/-- `try_for_each` succeeds iff the body succeeds on every element -/
theorem tryForEach_ok_iff {β ε : Type} (f : β → Except ε Unit) (xs : List β) :
    tryForEach f xs = .ok () ↔ ∀ x ∈ xs, f x = .ok () := by
  induction xs with
  | nil => simp [tryForEach]
  | cons x t ih =>
    simp only [tryForEach, List.mem_cons, forall_eq_or_imp]
    cases h : f x with
    | error e => simp
    | ok u => cases u; simp [ih]

/-- `try_for_each` fails with the error of the FIRST failing element -/
theorem tryForEach_error_iff {β ε : Type} (f : β → Except ε Unit) (xs : List β) (e : ε) :
    tryForEach f xs = .error e ↔
      ∃ pre x post, xs = pre ++ x :: post ∧ (∀ y ∈ pre, f y = .ok ()) ∧ f x = .error e := by
  induction xs with
  | nil => simp [tryForEach]
  | cons x t ih =>
    simp only [tryForEach]
    cases h : f x with
    | error e' =>
      constructor
      · intro he
        refine ⟨[], x, t, rfl, by simp, ?_⟩
        rw [h]; simpa using he
      · rintro ⟨pre, y, post, hxs, hpre, hy⟩
        cases pre with
        | nil =>
          simp only [List.nil_append, List.cons.injEq] at hxs
          obtain ⟨rfl, _⟩ := hxs
          rw [h] at hy; simpa using hy
        | cons p pre' =>
          simp only [List.cons_append, List.cons.injEq] at hxs
          obtain ⟨rfl, _⟩ := hxs
          have := hpre x (by simp)
          rw [h] at this; cases this
    | ok u =>
      cases u
      simp only [ih]
      constructor
      · rintro ⟨pre, y, post, rfl, hpre, hy⟩
        refine ⟨x :: pre, y, post, rfl, ?_, hy⟩
        intro z hz
        rcases List.mem_cons.mp hz with rfl | hz
        · exact h
        · exact hpre z hz
      · rintro ⟨pre, y, post, hxs, hpre, hy⟩
        cases pre with
        | nil =>
          simp only [List.nil_append, List.cons.injEq] at hxs
          obtain ⟨rfl, _⟩ := hxs
          rw [h] at hy; cases hy
        | cons p pre' =>
          simp only [List.cons_append, List.cons.injEq] at hxs
          obtain ⟨rfl, rfl⟩ := hxs
          exact ⟨pre', y, post, rfl, fun z hz => hpre z (by simp [hz]), hy⟩

theorem tryForEach_zip_range' {β ε : Type} (g : Nat → β → Except ε Unit) (P : β → Prop)
    (hP : ∀ i x, g i x = .ok () ↔ P x) (xs : List β) (k : Nat) :
    (tryForEach (fun p : Nat × β => g p.1 p.2) ((List.range' k xs.length).zip xs) = .ok () ↔ ∀ x ∈ xs, P x) ∧
    (∀ e, tryForEach (fun p : Nat × β => g p.1 p.2) ((List.range' k xs.length).zip xs) = .error e ↔
       ∃ pre a post, xs = pre ++ a :: post ∧ (∀ y ∈ pre, P y) ∧ g (k + pre.length) a = .error e) := by
  induction xs generalizing k with
  | nil =>
    refine ⟨by simp [tryForEach], fun e => ?_⟩
    simp [tryForEach]
  | cons x t ih =>
    have hz : (List.range' k (x :: t).length).zip (x :: t) = (k, x) :: (List.range' (k + 1) t.length).zip t := by
      simp [List.range'_succ]
    rw [hz]
    simp only [tryForEach]
    obtain ⟨ih1, ih2⟩ := ih (k + 1)
    cases h : g k x with
    | error e' =>
      have hnP : ¬ P x := fun hp => by rw [(hP k x).mpr hp] at h; cases h
      refine ⟨?_, fun e => ?_⟩
      · simp only [reduceCtorEq, false_iff]
        intro hall; exact hnP (hall x (by simp))
      · constructor
        · intro he
          refine ⟨[], x, t, rfl, by simp, ?_⟩
          simpa [h] using he
        · rintro ⟨pre, a, post, hxs, hpre, ha⟩
          cases pre with
          | nil =>
            simp only [List.nil_append, List.cons.injEq] at hxs
            obtain ⟨rfl, _⟩ := hxs
            simpa [h] using ha
          | cons p pre' =>
            simp only [List.cons_append, List.cons.injEq] at hxs
            obtain ⟨rfl, _⟩ := hxs
            exact absurd (hpre x (by simp)) hnP
    | ok u =>
      cases u
      have hPx : P x := (hP k x).mp h
      refine ⟨?_, fun e => ?_⟩
      · simp only [ih1, List.mem_cons, forall_eq_or_imp, hPx, true_and]
      · simp only [ih2]
        constructor
        · rintro ⟨pre, a, post, rfl, hpre, ha⟩
          refine ⟨x :: pre, a, post, rfl, ?_, ?_⟩
          · intro y hy
            rcases List.mem_cons.mp hy with rfl | hy
            · exact hPx
            · exact hpre y hy
          · simpa [Nat.add_assoc, Nat.add_comm 1] using ha
        · rintro ⟨pre, a, post, hxs, hpre, ha⟩
          cases pre with
          | nil =>
            simp only [List.nil_append, List.cons.injEq] at hxs
            obtain ⟨rfl, _⟩ := hxs
            simp [h] at ha
          | cons p pre' =>
            simp only [List.cons_append, List.cons.injEq] at hxs
            obtain ⟨rfl, rfl⟩ := hxs
            refine ⟨pre', a, post, rfl, fun y hy => hpre y (by simp [hy]), ?_⟩
            simpa [Nat.add_assoc, Nat.add_comm 1] using ha

/-- `xs.iter().enumerate().try_for_each(|(ix, x)| g ix x)` where success of `g ix x` is a property `P x`:
    succeeds iff `P` holds everywhere -/
theorem tryForEach_enumL_ok_iff {β ε : Type} (g : Nat → β → Except ε Unit) (P : β → Prop)
    (hP : ∀ i x, g i x = .ok () ↔ P x) (xs : List β) :
    tryForEach (fun p : Nat × β => g p.1 p.2) (enumL xs) = .ok () ↔ ∀ x ∈ xs, P x := by
  have := (tryForEach_zip_range' g P hP xs 0).1
  rwa [← List.range_eq_range'] at this

/-- … and fails with the error of the FIRST element violating `P`, at its index -/
theorem tryForEach_enumL_error_iff {β ε : Type} (g : Nat → β → Except ε Unit) (P : β → Prop)
    (hP : ∀ i x, g i x = .ok () ↔ P x) (xs : List β) (e : ε) :
    tryForEach (fun p : Nat × β => g p.1 p.2) (enumL xs) = .error e ↔
      ∃ pre a post, xs = pre ++ a :: post ∧ (∀ y ∈ pre, P y) ∧ g pre.length a = .error e := by
  have := (tryForEach_zip_range' g P hP xs 0).2 e
  rw [← List.range_eq_range'] at this
  simpa [enumL] using this

/-- uncurried forms (the generated closure is `fun (ix, x) => …`) -/
theorem tryForEach_enumL_ok_iff' {β ε : Type} (f : Nat × β → Except ε Unit) (P : β → Prop)
    (hP : ∀ i x, f (i, x) = .ok () ↔ P x) (xs : List β) :
    tryForEach f (enumL xs) = .ok () ↔ ∀ x ∈ xs, P x :=
  tryForEach_enumL_ok_iff (fun i x => f (i, x)) P hP xs

theorem tryForEach_enumL_error_iff' {β ε : Type} (f : Nat × β → Except ε Unit) (P : β → Prop)
    (hP : ∀ i x, f (i, x) = .ok () ↔ P x) (xs : List β) (e : ε) :
    tryForEach f (enumL xs) = .error e ↔
      ∃ pre a post, xs = pre ++ a :: post ∧ (∀ y ∈ pre, P y) ∧ f (pre.length, a) = .error e :=
  tryForEach_enumL_error_iff (fun i x => f (i, x)) P hP xs e

end C10
