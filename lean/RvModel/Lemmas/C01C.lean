import RvModel.RealInst
/-!
  Lemmas.C01C — list-fold helpers over the exact-real carrier `R` used by `Props/C01C.lean`.
-/
namespace C01CLemmas

/-- a left fold whose step adds `g b` to the accumulator is the sum of the `g b` -/
theorem foldl_add_val {β : Type} (f : R → β → R) (g : β → ℝ)
    (h : ∀ acc b, (f acc b).val = acc.val + g b) (acc : R) (l : List β) :
    (l.foldl f acc).val = acc.val + (l.map g).sum := by
  induction l generalizing acc with
  | nil => simp
  | cons x xs ih => simp [List.foldl, ih, h, add_assoc]

/-- `sumL` of a mapped list -/
theorem sumL_map_val {β : Type} (f : β → R) (l : List β) :
    (sumL (l.map f)).val = (l.map (fun b => (f b).val)).sum := by
  rw [R.sumL_val, List.map_map]; rfl

/-- `sumL` of a `zipWith` -/
theorem sumL_zipWith_val {β γ : Type} (f : β → γ → R) (a : List β) (x : List γ) :
    (sumL (List.zipWith f a x)).val = (List.zipWith (fun b c => (f b c).val) a x).sum := by
  rw [R.sumL_val, List.map_zipWith]

/-- summing over `zip x a` with the roles swapped is summing over `zipWith · a x` -/
theorem sum_map_zip_swap {β γ : Type} (F : β → γ → ℝ) (a : List β) (x : List γ) :
    ((List.zip x a).map (fun p => F p.2 p.1)).sum = (List.zipWith F a x).sum := by
  induction x generalizing a with
  | nil => simp
  | cons y ys ih =>
    cases a with
    | nil => simp
    | cons b bs => simp [ih]

/-- `zipWith` against a constant list of the same length is a `map` -/
theorem zipWith_replicate_left {β γ δ : Type} (F : β → γ → δ) (b : β) (x : List γ) :
    List.zipWith F (List.replicate x.length b) x = x.map (F b) := by
  induction x with
  | nil => simp
  | cons y ys ih => simp [List.replicate_succ, ih]

/-- `sumL` of a `zipWith` against a constant list of the same length -/
theorem sumL_zipWith_replicate_val {β γ : Type} (f : β → γ → R) (b : β) (x : List γ) :
    (sumL (List.zipWith f (List.replicate x.length b) x)).val = (x.map (fun c => (f b c).val)).sum := by
  rw [zipWith_replicate_left, sumL_map_val]

end C01CLemmas
