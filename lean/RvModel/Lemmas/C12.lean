import RvModel.RealInst
import RvModel.Gen.Defs
import RvModel.Spec.C12
import RvModel.Hand.C12
import RvModel.Lemmas.Erf
import Mathlib.Analysis.SpecialFunctions.Gaussian.GaussianIntegral
import Mathlib.MeasureTheory.Integral.IntegralEqImproper
/-!
  Lemmas.C12 — exact-real values of the generated `cdf` / `invcdf` definitions (one `_val` lemma per generated
  definition: the only place where the shape of the generated term matters) and the real-analysis facts about the
  closed-form quantile functions used by `Props/C12A.lean`.
-/
set_option linter.unusedSimpArgs false
set_option linter.unusedVariables false
open Real Filter Topology MeasureTheory Set

namespace C12

/-! ### values of the generated definitions over `R` -/

theorem Exponential_cdf_val (d : Gen.Exponential R) (x : R) :
    (Gen.Exponential.cdf_real d x).val = 1 - Real.exp (-(d.rate.val * x.val)) := by
  simp only [Gen.Exponential.cdf_real, mulAdd, R.add_val, R.sub_val, R.mul_val, R.div_val, R.neg_val, R.exp_val,
    R.sci_val]
  norm_num

theorem Exponential_invcdf_val (d : Gen.Exponential R) (p : R) :
    (Gen.Exponential.invcdf_real d p).val = -Real.log (1 - p.val) / d.rate.val := by
  simp only [Gen.Exponential.invcdf_real, mulAdd, R.add_val, R.sub_val, R.mul_val, R.div_val, R.neg_val, R.ln_val,
    R.sci_val]
  norm_num

theorem Uniform_invcdf_val (d : Gen.Uniform R) (p : R) :
    (Gen.Uniform.invcdf_real d p).val = d.a.val + p.val * (d.b.val - d.a.val) := by
  simp only [Gen.Uniform.invcdf_real, mulAdd, R.add_val, R.sub_val, R.mul_val, R.div_val, R.neg_val, R.sci_val]
  ring

theorem Uniform_cdf_val (d : Gen.Uniform R) (x : R) :
    (Gen.Uniform.cdf_real d x).val =
      if x.val < d.a.val then 0 else if d.b.val ≤ x.val then 1 else (x.val - d.a.val) / (d.b.val - d.a.val) := by
  simp only [Gen.Uniform.cdf_real, RealLike.ge]
  by_cases h1 : x.val < d.a.val
  · have c : RealLike.lt x d.a = true := by rw [R.lt_iff]; exact h1
    simp only [c, if_true, if_pos h1, R.sci_val]; norm_num
  · have c : RealLike.lt x d.a = false := by rw [R.lt_false_iff]; exact h1
    by_cases h2 : d.b.val ≤ x.val
    · have c2 : RealLike.le d.b x = true := by rw [R.le_iff]; exact h2
      simp only [c, c2, if_true, Bool.false_eq_true, if_false, if_neg h1, if_pos h2, R.sci_val]; norm_num
    · have c2 : RealLike.le d.b x = false := by rw [R.le_false_iff]; exact h2
      simp only [c, c2, Bool.false_eq_true, if_false, if_neg h1, if_neg h2, R.sub_val, R.div_val]

theorem Cauchy_cdf_val (d : Gen.Cauchy R) (x : R) :
    (Gen.Cauchy.cdf_real d x).val = 1 / 2 + Real.arctan ((x.val - d.loc.val) / d.scale.val) / π := by
  simp only [Gen.Cauchy.cdf_real, mulAdd, R.add_val, R.sub_val, R.mul_val, R.div_val, R.neg_val, R.atan_val,
    R.frac1Pi_val, R.sci_val]
  norm_num
  ring

theorem Cauchy_invcdf_val (d : Gen.Cauchy R) (p : R) :
    (Gen.Cauchy.invcdf_real d p).val = d.loc.val + d.scale.val * Real.tan (π * (p.val - 1 / 2)) := by
  simp only [Gen.Cauchy.invcdf_real, mulAdd, R.add_val, R.sub_val, R.mul_val, R.div_val, R.neg_val, R.tan_val,
    R.pi_val, R.sci_val]
  norm_num
  ring

theorem Kumaraswamy_cdf_val (d : Gen.Kumaraswamy R) (x : R) :
    (Gen.Kumaraswamy.cdf_real d x).val = 1 - (1 - x.val ^ d.a.val) ^ d.b.val := by
  simp only [Gen.Kumaraswamy.cdf_real, mulAdd, R.add_val, R.sub_val, R.mul_val, R.div_val, R.neg_val, R.powf_val,
    R.sci_val]
  norm_num

theorem Kumaraswamy_invcdf_val (d : Gen.Kumaraswamy R) (p : R) :
    (Gen.Kumaraswamy.invcdf_real d p).val = (1 - (1 - p.val) ^ (1 / d.b.val)) ^ (1 / d.a.val) := by
  simp only [Gen.Kumaraswamy.invcdf_real, Gen.invcdf, RealLike.recip, mulAdd, R.add_val, R.sub_val, R.mul_val,
    R.div_val, R.neg_val, R.powf_val, R.sci_val]
  norm_num

theorem UnitPowerLaw_cdf_val (d : Gen.UnitPowerLaw R) (x : R) :
    (Gen.UnitPowerLaw.cdf_real d x).val = x.val ^ d.alpha.val := by
  simp only [Gen.UnitPowerLaw.cdf_real, R.powf_val]

theorem UnitPowerLaw_invcdf_val (d : Gen.UnitPowerLaw R) (p : R) :
    (Gen.UnitPowerLaw.invcdf_real d p).val = p.val ^ (1 / d.alpha.val) := by
  simp only [Gen.UnitPowerLaw.invcdf_real, Gen.UnitPowerLaw.alpha_inv, RealLike.recip, R.div_val, R.powf_val,
    R.sci_val]
  norm_num

theorem Gaussian_cdf_val (d : Gen.Gaussian R) (x : R) :
    (Gen.Gaussian.cdf_real d x).val = (1 + R.erfR ((x.val - d.mu.val) / (d.sigma.val * Real.sqrt 2))) / 2 := by
  simp only [Gen.Gaussian.cdf_real, ErfL.erfc_neg_val, mulAdd, R.add_val, R.sub_val, R.mul_val, R.div_val, R.neg_val, R.erf_val,
    R.sqrt2_val, R.sci_val]
  norm_num
  ring

theorem Gaussian_invcdf_val (d : Gen.Gaussian R) (p : R) :
    (Gen.Gaussian.invcdf_real d p).val =
      d.mu.val + d.sigma.val * Real.sqrt 2 * Function.invFun R.erfR (2 * p.val - 1) := by
  simp only [Gen.Gaussian.invcdf_real, mulAdd, R.add_val, R.sub_val, R.mul_val, R.div_val, R.neg_val, R.erfInv_val,
    R.sqrt2_val, R.sci_val]
  norm_num
  ring_nf

theorem LogNormal_cdf_val (d : Gen.LogNormal R) (x : R) :
    (Gen.LogNormal.cdf_real d x).val =
      (1 + R.erfR ((Real.log x.val - d.mu.val) / (d.sigma.val * Real.sqrt 2))) / 2 := by
  simp only [Gen.LogNormal.cdf_real, mulAdd, R.add_val, R.sub_val, R.mul_val, R.div_val, R.neg_val, R.erf_val,
    R.ln_val, R.sqrt2_val, R.sci_val]
  norm_num
  ring_nf

theorem LogNormal_invcdf_val (d : Gen.LogNormal R) (p : R) :
    (Gen.LogNormal.invcdf_real d p).val =
      Real.exp (d.mu.val + d.sigma.val * Real.sqrt 2 * Function.invFun R.erfR (2 * p.val - 1)) := by
  simp only [Gen.LogNormal.invcdf_real, mulAdd, R.add_val, R.sub_val, R.mul_val, R.div_val, R.neg_val,
    R.erfInv_val, R.exp_val, R.sqrt2_val, R.sci_val]
  norm_num
  ring_nf

/-! ### DiscreteUniform: values of the generated cdf, the hand model of invcdf and the Spec on integers -/

theorem toInt_val (x : R) : RealLike.toInt x = if 0 ≤ x.val then ⌊x.val⌋ else ⌈x.val⌉ := rfl
theorem ceil_val (x : R) : (RealLike.ceil x).val = (⌈x.val⌉ : ℝ) := rfl

theorem toInt_ceil (x : R) : RealLike.toInt (RealLike.ceil x) = ⌈x.val⌉ := by
  rw [toInt_val, ceil_val]
  split_ifs <;> simp

theorem DiscreteUniform_hand_invcdf_val (d : Gen.DiscreteUniform R) (p : R) (hab : d.a ≤ d.b) (hp : 0 ≤ p.val) :
    Hand.DiscreteUniform.invcdf d p = ⌊p.val * ((d.b : ℝ) - (d.a : ℝ))⌋ + d.a := by
  have h : (0:ℝ) ≤ p.val * (((d.b - d.a : Int)) : ℝ) :=
    mul_nonneg hp (by exact_mod_cast sub_nonneg.mpr hab)
  simp only [Hand.DiscreteUniform.invcdf, toInt_val, R.mul_val, R.ofIntR_val]
  rw [if_pos h]
  push_cast
  rfl

theorem DiscreteUniform_cdf_val (d : Gen.DiscreteUniform R) (k : Int) :
    (Gen.DiscreteUniform.cdf_real d (RealLike.ofIntR k)).val =
      if k < d.a then 0 else if d.b ≤ k then 1 else ((k : ℝ) - (d.a : ℝ) + 1) / ((d.b : ℝ) - (d.a : ℝ) + 1) := by
  simp only [Gen.DiscreteUniform.cdf_real, RealLike.ge, Option.getD_some]
  by_cases h1 : k < d.a
  · have c : RealLike.lt (RealLike.ofIntR k : R) (RealLike.ofIntR d.a) = true := by
      rw [R.lt_iff, R.ofIntR_val, R.ofIntR_val]; exact_mod_cast h1
    simp only [c, if_true, if_pos h1, R.sci_val]; norm_num
  · have c : RealLike.lt (RealLike.ofIntR k : R) (RealLike.ofIntR d.a) = false := by
      rw [R.lt_false_iff, R.ofIntR_val, R.ofIntR_val]; exact_mod_cast h1
    by_cases h2 : d.b ≤ k
    · have c2 : RealLike.le (RealLike.ofIntR d.b : R) (RealLike.ofIntR k) = true := by
        rw [R.le_iff, R.ofIntR_val, R.ofIntR_val]; exact_mod_cast h2
      simp only [c, c2, if_true, Bool.false_eq_true, if_false, if_neg h1, if_pos h2, R.sci_val]; norm_num
    · have c2 : RealLike.le (RealLike.ofIntR d.b : R) (RealLike.ofIntR k) = false := by
        rw [R.le_false_iff, R.ofIntR_val, R.ofIntR_val]; exact_mod_cast h2
      simp only [c, c2, Bool.false_eq_true, if_false, if_neg h1, if_neg h2, R.sub_val, R.add_val, R.div_val,
        R.ofIntR_val, R.sci_val]
      norm_num

theorem DiscreteUniform_spec_cdf_val (d : Gen.DiscreteUniform R) (k : Int) :
    (Spec.DiscreteUniform.cdf d k).val =
      if k < d.a then 0 else if d.b ≤ k then 1 else ((k : ℝ) - (d.a : ℝ) + 1) / ((d.b : ℝ) - (d.a : ℝ) + 1) := by
  unfold Spec.DiscreteUniform.cdf
  split_ifs <;> simp only [R.sci_val, R.div_val, R.ofIntR_val] <;> norm_num

theorem DiscreteUniform_spec_quantile_val (d : Gen.DiscreteUniform R) (p : R) :
    Spec.DiscreteUniform.quantile d p = max d.a (d.a + ⌈p.val * ((d.b : ℝ) - (d.a : ℝ) + 1)⌉ - 1) := by
  simp only [Spec.DiscreteUniform.quantile, toInt_ceil, R.mul_val, R.ofIntR_val]
  push_cast
  rfl

/-! ### the error function `R.erfR x = 2/√π ∫₀ˣ e^{-t²} dt` is an increasing bijection ℝ → (−1, 1) -/

private theorem gauss_cont : Continuous (fun t : ℝ => Real.exp (-t ^ 2)) := by fun_prop

private theorem gauss_ii (a b : ℝ) : IntervalIntegrable (fun t : ℝ => Real.exp (-t ^ 2)) volume a b :=
  gauss_cont.intervalIntegrable a b

private theorem two_div_sqrt_pi_pos : 0 < 2 / Real.sqrt π := by positivity

theorem erfR_strictMono : StrictMono R.erfR := by
  intro x y hxy
  unfold R.erfR
  have h := intervalIntegral.integral_interval_sub_left (gauss_ii 0 y) (gauss_ii 0 x)
  have hpos := intervalIntegral.intervalIntegral_pos_of_pos (gauss_ii x y) (fun t => Real.exp_pos _) hxy
  have : (∫ t in (0:ℝ)..x, Real.exp (-t ^ 2)) < ∫ t in (0:ℝ)..y, Real.exp (-t ^ 2) := by linarith
  exact mul_lt_mul_of_pos_left this two_div_sqrt_pi_pos

theorem erfR_continuous : Continuous R.erfR := by
  unfold R.erfR
  exact continuous_const.mul (intervalIntegral.continuous_primitive gauss_ii 0)

theorem erfR_neg (x : ℝ) : R.erfR (-x) = -R.erfR x := by
  unfold R.erfR
  have h := intervalIntegral.integral_comp_neg (a := 0) (b := x) (fun t : ℝ => Real.exp (-t ^ 2))
  simp only [neg_sq, neg_zero] at h
  rw [intervalIntegral.integral_symm, ← h]
  ring

theorem erfR_tendsto_atTop : Tendsto R.erfR atTop (𝓝 1) := by
  have hint : IntegrableOn (fun t : ℝ => Real.exp (-t ^ 2)) (Ioi 0) volume := by
    have := (integrable_exp_neg_mul_sq (b := 1) one_pos).integrableOn (s := Ioi (0:ℝ))
    simpa using this
  have h := intervalIntegral_tendsto_integral_Ioi (μ := volume) (0:ℝ) hint tendsto_id
  have hval : (∫ t in Ioi (0:ℝ), Real.exp (-t ^ 2)) = Real.sqrt π / 2 := by
    have := integral_gaussian_Ioi 1
    simpa using this
  rw [hval] at h
  have h2 := h.const_mul (2 / Real.sqrt π)
  have e : 2 / Real.sqrt π * (Real.sqrt π / 2) = 1 := by
    have : Real.sqrt π ≠ 0 := by positivity
    field_simp
  rw [e] at h2
  exact h2

theorem erfR_tendsto_atBot : Tendsto R.erfR atBot (𝓝 (-1)) := by
  have h : Tendsto (fun x => -R.erfR (-x)) atBot (𝓝 (-1)) :=
    (erfR_tendsto_atTop.comp tendsto_neg_atBot_atTop).neg
  refine h.congr (fun x => ?_)
  rw [erfR_neg, neg_neg]

theorem erfR_lt_one (x : ℝ) : R.erfR x < 1 :=
  lt_of_lt_of_le (erfR_strictMono (lt_add_one x))
    (erfR_strictMono.monotone.ge_of_tendsto erfR_tendsto_atTop (x + 1))

theorem neg_one_lt_erfR (x : ℝ) : -1 < R.erfR x := by
  have := erfR_lt_one (-x)
  rw [erfR_neg] at this
  linarith

/-- `erf⁻¹ (erf x) = x` (the contract `herf'` of the external `inv_error`, proved for the exact function) -/
theorem erfR_invFun_left (x : ℝ) : Function.invFun R.erfR (R.erfR x) = x :=
  Function.leftInverse_invFun erfR_strictMono.injective x

theorem erfR_surj_Ioo (y : ℝ) (h1 : -1 < y) (h2 : y < 1) : ∃ x, R.erfR x = y := by
  have ha : ∃ a, R.erfR a ≤ y := by
    obtain ⟨a, ha⟩ := ((tendsto_order.1 erfR_tendsto_atBot).2 y h1).exists
    exact ⟨a, ha.le⟩
  have hb : ∃ b, y ≤ R.erfR b := by
    obtain ⟨b, hb⟩ := ((tendsto_order.1 erfR_tendsto_atTop).1 y h2).exists
    exact ⟨b, hb.le⟩
  exact mem_range_of_exists_le_of_exists_ge erfR_continuous ha hb

/-- `erf (erf⁻¹ y) = y` for `y ∈ (−1, 1)` (the contract `herf` of the external `inv_error`) -/
theorem erfR_invFun_right (y : ℝ) (h1 : -1 < y) (h2 : y < 1) : R.erfR (Function.invFun R.erfR y) = y :=
  Function.invFun_eq (erfR_surj_Ioo y h1 h2)

/-- `erf⁻¹` is strictly increasing on `(−1, 1)` -/
theorem erfInv_lt (y z : ℝ) (hy : -1 < y) (hyz : y < z) (hz : z < 1) :
    Function.invFun R.erfR y < Function.invFun R.erfR z := by
  by_contra h
  have := erfR_strictMono.monotone (not_lt.mp h)
  rw [erfR_invFun_right y hy (by linarith), erfR_invFun_right z (by linarith) hz] at this
  linarith

/-! ### real-analysis facts about the Kumaraswamy / power-law quantile -/

theorem rpow_inv_rpow (x a : ℝ) (hx : 0 ≤ x) (ha : a ≠ 0) : (x ^ (1 / a)) ^ a = x := by
  rw [← Real.rpow_mul hx, one_div, inv_mul_cancel₀ ha, Real.rpow_one]

theorem rpow_rpow_inv' (x a : ℝ) (hx : 0 ≤ x) (ha : a ≠ 0) : (x ^ a) ^ (1 / a) = x := by
  rw [← Real.rpow_mul hx, one_div, mul_inv_cancel₀ ha, Real.rpow_one]

theorem rpow_mem_unit (x z : ℝ) (h0 : 0 < x) (h1 : x < 1) (hz : 0 < z) : 0 < x ^ z ∧ x ^ z < 1 :=
  ⟨Real.rpow_pos_of_pos h0 z, Real.rpow_lt_one h0.le h1 hz⟩

theorem kuma_q_mem (a b p : ℝ) (ha : 0 < a) (hb : 0 < b) (hp0 : 0 < p) (hp1 : p < 1) :
    0 < (1 - (1 - p) ^ (1 / b)) ^ (1 / a) ∧ (1 - (1 - p) ^ (1 / b)) ^ (1 / a) < 1 := by
  obtain ⟨u0, u1⟩ := rpow_mem_unit (1 - p) (1 / b) (by linarith) (by linarith) (by positivity)
  exact rpow_mem_unit _ (1 / a) (by linarith) (by linarith) (by positivity)

theorem kuma_cdf_q (a b p : ℝ) (ha : 0 < a) (hb : 0 < b) (hp0 : 0 < p) (hp1 : p < 1) :
    1 - (1 - ((1 - (1 - p) ^ (1 / b)) ^ (1 / a)) ^ a) ^ b = p := by
  obtain ⟨u0, u1⟩ := rpow_mem_unit (1 - p) (1 / b) (by linarith) (by linarith) (by positivity)
  rw [rpow_inv_rpow _ a (by linarith) ha.ne', sub_sub_cancel, rpow_inv_rpow _ b (by linarith) hb.ne']
  ring

theorem kuma_q_cdf (a b x : ℝ) (ha : 0 < a) (hb : 0 < b) (hx0 : 0 < x) (hx1 : x < 1) :
    (1 - (1 - (1 - (1 - x ^ a) ^ b)) ^ (1 / b)) ^ (1 / a) = x := by
  obtain ⟨u0, u1⟩ := rpow_mem_unit x a hx0 hx1 ha
  rw [sub_sub_cancel, rpow_rpow_inv' _ b (by linarith) hb.ne', sub_sub_cancel, rpow_rpow_inv' _ a hx0.le ha.ne']

theorem kuma_q_lt (a b p q : ℝ) (ha : 0 < a) (hb : 0 < b) (hp0 : 0 < p) (hpq : p < q) (hq1 : q < 1) :
    (1 - (1 - p) ^ (1 / b)) ^ (1 / a) < (1 - (1 - q) ^ (1 / b)) ^ (1 / a) := by
  obtain ⟨u0, u1⟩ := rpow_mem_unit (1 - p) (1 / b) (by linarith) (by linarith) (by positivity)
  have h : (1 - q) ^ (1 / b) < (1 - p) ^ (1 / b) :=
    Real.rpow_lt_rpow (by linarith) (by linarith) (by positivity)
  exact Real.rpow_lt_rpow (by linarith) (by linarith) (by positivity)

/-! ### helpers -/

/-- the two arguments `pt = (1-p)/2` and `p + pt` of the trait default `interval` lie in (0,1), and a quantile
    function inverted by the cdf on (0,1) gives the central interval of mass `p` (equal tails) -/
theorem interval_of_cdf_invcdf (cdf inv : R → R)
    (h : ∀ q : R, 0 < q.val → q.val < 1 → (cdf (inv q)).val = q.val) (p : R) (hp0 : 0 < p.val) (hp1 : p.val < 1) :
    (cdf (inv (p + ((1.0 : R) - p) / (2.0 : R)))).val - (cdf (inv (((1.0 : R) - p) / (2.0 : R)))).val = p.val ∧
    (cdf (inv (((1.0 : R) - p) / (2.0 : R)))).val = 1 - (cdf (inv (p + ((1.0 : R) - p) / (2.0 : R)))).val := by
  have e1 : (((1.0 : R) - p) / (2.0 : R)).val = (1 - p.val) / 2 := by
    simp only [R.sub_val, R.div_val, R.sci_val]; norm_num
  have e2 : (p + ((1.0 : R) - p) / (2.0 : R)).val = p.val + (1 - p.val) / 2 := by
    rw [R.add_val, e1]
  rw [h _ (by rw [e2]; linarith) (by rw [e2]; linarith), h _ (by rw [e1]; linarith) (by rw [e1]; linarith), e1, e2]
  constructor <;> ring

theorem cauchy_angle (p : ℝ) (hp0 : 0 < p) (hp1 : p < 1) :
    -(π / 2) < π * (p - 1 / 2) ∧ π * (p - 1 / 2) < π / 2 := by
  have := Real.pi_pos
  constructor <;> nlinarith

theorem sigma_sqrt2_pos (s : ℝ) (hs : 0 < s) : 0 < s * Real.sqrt 2 := by positivity

end C12

#print axioms C12.erfR_invFun_left
#print axioms C12.erfR_invFun_right
#print axioms C12.erfInv_lt
#print axioms C12.kuma_cdf_q
#print axioms C12.kuma_q_cdf
