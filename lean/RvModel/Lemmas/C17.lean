import RvModel.RealInst
import RvModel.Hand.Gp
import Mathlib.LinearAlgebra.Matrix.NonsingularInverse
import Mathlib.LinearAlgebra.Matrix.Block
import Mathlib.LinearAlgebra.Matrix.Trace
import Mathlib.Analysis.SpecialFunctions.Log.Basic
import Mathlib.Algebra.BigOperators.Fin
/-!
  Helper lemmas of property C17 (Gaussian process): triangular factors, solves through a Cholesky factor,
  list lemmas for the query-matrix layout, the kernel parameter round trip on the carrier `R`.
-/
open Matrix

namespace C17

section Chol
variable {n : ℕ}

/-- a lower triangular matrix in the sense of the code (`L i j = 0` above the diagonal) is Mathlib's -/
theorem isLower_of_zero_above (L : Matrix (Fin n) (Fin n) ℝ) (h : ∀ i j, i < j → L i j = 0) :
    L.IsLowerTriangular := by
  intro i j hij
  exact h i j hij

theorem det_lower (L : Matrix (Fin n) (Fin n) ℝ) (h : ∀ i j, i < j → L i j = 0) : L.det = ∏ i, L i i :=
  det_of_isLowerTriangular L (isLower_of_zero_above L h)

/-- `det (L Lᵀ) = (∏ Lᵢᵢ)²` -/
theorem det_chol (L K : Matrix (Fin n) (Fin n) ℝ) (h : ∀ i j, i < j → L i j = 0) (hK : L * Lᵀ = K) :
    K.det = (∏ i, L i i) ^ 2 := by
  rw [← hK, det_mul, det_transpose, det_lower L h]; ring

theorem det_chol_pos (L K : Matrix (Fin n) (Fin n) ℝ) (h : ∀ i j, i < j → L i j = 0) (hK : L * Lᵀ = K)
    (hpos : ∀ i, 0 < L i i) : 0 < K.det := by
  rw [det_chol L K h hK]
  exact pow_pos (Finset.prod_pos fun i _ => hpos i) 2

theorem isUnit_det_chol (L K : Matrix (Fin n) (Fin n) ℝ) (h : ∀ i j, i < j → L i j = 0) (hK : L * Lᵀ = K)
    (hpos : ∀ i, 0 < L i i) : IsUnit K.det :=
  isUnit_iff_ne_zero.mpr (ne_of_gt (det_chol_pos L K h hK hpos))

/-- `ln det (L Lᵀ) = 2 Σ ln Lᵢᵢ` -/
theorem log_det_chol (L K : Matrix (Fin n) (Fin n) ℝ) (h : ∀ i j, i < j → L i j = 0) (hK : L * Lᵀ = K)
    (hpos : ∀ i, 0 < L i i) : Real.log K.det = 2 * ∑ i, Real.log (L i i) := by
  rw [det_chol L K h hK, Real.log_pow, Real.log_prod (fun i _ => ne_of_gt (hpos i))]
  push_cast; ring

/-- the two triangular solves of `Cholesky::solve` (vector right-hand side) solve `K x = y` -/
theorem solve_vec {L K : Matrix (Fin n) (Fin n) ℝ} (hK : L * Lᵀ = K) (hu : IsUnit K.det)
    {y z x : Fin n → ℝ} (hz : L *ᵥ z = y) (hx : Lᵀ *ᵥ x = z) : x = K⁻¹ *ᵥ y := by
  have h1 : K *ᵥ x = y := by rw [← hK, ← mulVec_mulVec, hx, hz]
  calc x = (K⁻¹ * K) *ᵥ x := by rw [nonsing_inv_mul _ hu, one_mulVec]
    _ = K⁻¹ *ᵥ y := by rw [← mulVec_mulVec, h1]

/-- the two triangular solves of `Cholesky::solve` (matrix right-hand side) solve `K V = B` -/
theorem solve_mat {q : ℕ} {L K : Matrix (Fin n) (Fin n) ℝ} (hK : L * Lᵀ = K) (hu : IsUnit K.det)
    {B Z V : Matrix (Fin n) (Fin q) ℝ} (hz : L * Z = B) (hv : Lᵀ * V = Z) : V = K⁻¹ * B := by
  have h1 : K * V = B := by rw [← hK, Matrix.mul_assoc, hv, hz]
  calc V = (K⁻¹ * K) * V := by rw [nonsing_inv_mul _ hu, Matrix.one_mul]
    _ = K⁻¹ * B := by rw [Matrix.mul_assoc, h1]

/-- `K = L Lᵀ` is symmetric, hence so is its inverse -/
theorem chol_symm {L K : Matrix (Fin n) (Fin n) ℝ} (hK : L * Lᵀ = K) : Kᵀ = K := by
  rw [← hK, transpose_mul, transpose_transpose]

theorem inv_symm {K : Matrix (Fin n) (Fin n) ℝ} (hs : Kᵀ = K) : K⁻¹ᵀ = K⁻¹ := by
  rw [transpose_nonsing_inv, hs]

/-- the quadratic form part of the trace: `αᵀ G α = tr(ααᵀ G)` -/
theorem quad_eq_trace (α : Fin n → ℝ) (G : Matrix (Fin n) (Fin n) ℝ) :
    α ⬝ᵥ (G *ᵥ α) = Matrix.trace (vecMulVec α α * G) := by
  simp only [Matrix.trace, Matrix.diag, Matrix.mul_apply, dotProduct, Matrix.mulVec, vecMulVec_apply]
  rw [Finset.sum_comm]
  refine Finset.sum_congr rfl fun i _ => ?_
  rw [Finset.mul_sum]
  refine Finset.sum_congr rfl fun j _ => ?_
  ring

end Chol

section Layout
open Hand.Gp
variable {β : Type}

/-- entry `(i, j)` of `DMatrix::from_row_iterator(n, m, flat)` -/
theorem fromRowIterator_entry (n m : ℕ) (flat : List β) (d : β) (i j : ℕ) (hi : i < n) (hj : j < m) :
    ((fromRowIterator n m flat d).getD i []).getD j d = flat.getD (i * m + j) d := by
  simp [fromRowIterator, List.getD_eq_getElem?_getD, hi, hj]

/-- rows of equal length `m` written one after the other: element `i·m + j` is `rows[i][j]` -/
theorem flatten_uniform (rows : List (List β)) (d : β) (m : ℕ) (h : ∀ r ∈ rows, r.length = m) (i j : ℕ)
    (hj : j < m) : rows.flatten.getD (i * m + j) d = (rows.getD i []).getD j d := by
  induction rows generalizing i with
  | nil => simp
  | cons r rs ih =>
    have hr : r.length = m := h r (by simp)
    cases i with
    | zero =>
      simp only [List.flatten_cons, Nat.zero_mul, Nat.zero_add, List.getD_eq_getElem?_getD, List.getElem?_cons_zero,
        Option.getD_some]
      rw [List.getElem?_append_left (by omega)]
    | succ k =>
      have hk := ih (fun r hr => h r (by simp [hr])) k
      simp only [List.flatten_cons, List.getD_eq_getElem?_getD, List.getElem?_cons_succ] at hk ⊢
      rw [List.getElem?_append_right (by rw [hr, Nat.succ_mul]; omega)]
      have : (k + 1) * m + j - r.length = k * m + j := by rw [hr, Nat.succ_mul]; omega
      rw [this, hk]

end Layout

section Params
open Hand.Gp RealLike

/-- every parameter of the tree is positive (what the checked constructors `new` enforce) -/
def KPos : Kern R → Prop
  | .const c => 0 < c.val
  | .rbf l => 0 < l.val
  | .add a b => KPos a ∧ KPos b
  | .mul a b => KPos a ∧ KPos b

theorem parameters_length (k : Kern R) : k.parameters.length = k.nParameters := by
  induction k with
  | const c => rfl
  | rbf l => rfl
  | add a b iha ihb => simp [Kern.parameters, Kern.nParameters, iha, ihb]
  | mul a b iha ihb => simp [Kern.parameters, Kern.nParameters, iha, ihb]

theorem zero_val : ((0.0 : R)).val = 0 := by
  rw [R.sci_val]; norm_num

theorem leafNew_exp_ln (mk : R → Kern R) (c : R) (hc : 0 < c.val) : leafNew mk (exp (ln c)) = .ok (mk c) := by
  have h1 : le (exp (ln c)) (0.0 : R) = false := by
    rw [R.le_false_iff, R.exp_val, zero_val]
    exact not_le.mpr (Real.exp_pos _)
  have h2 : exp (ln c) = c := by
    apply R.ext'
    rw [R.exp_val, R.ln_val, Real.exp_log hc]
  unfold leafNew
  rw [h1, h2]
  rfl

/-- `reparameterize(parameters())` rebuilds the same kernel (`exp ∘ ln = id` on positive parameters) -/
theorem reparameterize_parameters (k : Kern R) (h : KPos k) : k.reparameterize k.parameters = .ok k := by
  induction k with
  | const c => exact leafNew_exp_ln .const c h
  | rbf l => exact leafNew_exp_ln .rbf l h
  | add a b iha ihb =>
    have hl := parameters_length a
    simp only [Kern.reparameterize, Kern.parameters, List.length_append, hl]
    rw [if_neg (by omega), ← hl, List.take_left, List.drop_left, iha h.1, ihb h.2]
    rfl
  | mul a b iha ihb =>
    have hl := parameters_length a
    simp only [Kern.reparameterize, Kern.parameters, List.length_append, hl]
    rw [if_neg (by omega), ← hl, List.take_left, List.drop_left, iha h.1, ihb h.2]
    rfl

/-- `consume_parameters(parameters() ++ extra)` = the same kernel and the untouched `extra` -/
theorem consume_parameters_append (k : Kern R) (h : KPos k) (extra : List R) :
    k.consumeParameters (k.parameters ++ extra) = .ok (k, extra) := by
  have hl := parameters_length k
  simp only [Kern.consumeParameters, List.length_append]
  rw [if_neg (by omega), ← hl, List.take_left, List.drop_left, reparameterize_parameters k h]
  rfl

/-- too few parameters: `MissingParameters(n − given)` -/
theorem consume_parameters_missing (k : Kern R) (ps : List R) (h : ps.length < k.nParameters) :
    k.consumeParameters ps = .error (.missing (k.nParameters - ps.length)) := by
  simp [Kern.consumeParameters, h]

/-- what `train` stores -/
theorem train_fields {k : Kern R} {X : Mat R} {y : List R} {nm : Noise R} {gp : Gp R}
    (h : train k X y nm = .ok gp) : gp.kernel = k ∧ gp.xTrain = X ∧ gp.yTrain = y ∧ gp.noise = nm := by
  unfold train at h
  cases hn : addNoise nm (covMat k X X) with
  | error e => rw [hn] at h; cases h
  | ok K =>
    rw [hn] at h
    simp only [bind, Except.bind] at h
    cases hc : cholesky K with
    | none => rw [hc] at h; cases h
    | some L =>
      rw [hc] at h
      simp only at h
      split_ifs at h with hy
      cases h
      exact ⟨rfl, rfl, rfl, rfl⟩


/-- every cached field of what `train` returns is computed from the SAME factor of the same `K = kernel + noise` -/
theorem train_coherent {k : Kern R} {X : Mat R} {y : List R} {nm : Noise R} {gp : Gp R}
    (h : train k X y nm = .ok gp) :
    ∃ K, addNoise nm (covMat k X X) = .ok K ∧ cholesky K = some gp.chol
      ∧ gp.alpha = cholSolve gp.chol y ∧ gp.kInv = cholInverse gp.chol := by
  unfold train at h
  cases hn : addNoise nm (covMat k X X) with
  | error e => rw [hn] at h; cases h
  | ok K =>
    rw [hn] at h
    simp only [bind, Except.bind] at h
    cases hc : cholesky K with
    | none => rw [hc] at h; cases h
    | some L =>
      rw [hc] at h
      simp only at h
      split_ifs at h with hy
      cases h
      exact ⟨K, rfl, hc, rfl, rfl⟩

/-- with exactly `n_parameters` values, `consume_parameters` is `reparameterize` and nothing is left over -/
theorem consume_parameters_exact (k : Kern R) (ps : List R) (k' : Kern R) (hl : ps.length = k.nParameters)
    (hk : k.reparameterize ps = .ok k') : k.consumeParameters ps = .ok (k', []) := by
  simp only [Kern.consumeParameters]
  rw [if_neg (by omega), ← hl, List.take_length, List.drop_length, hk]
  rfl
end Params

section Bridge
open Hand.Gp RealLike

theorem foldl_add_val {γ : Type} (l : List γ) (f : γ → R) (acc : R) :
    (l.foldl (fun s e => s + f e) acc).val = acc.val + (l.map fun e => (f e).val).sum := by
  induction l generalizing acc with
  | nil => simp
  | cons x xs ih => simp [List.foldl, ih, add_assoc]

theorem enumL_eq_ofFn {γ : Type} (xs : List γ) :
    enumL xs = List.ofFn (fun i : Fin xs.length => (i.val, xs[i])) := by
  apply List.ext_getElem <;> simp [enumL]

theorem zipWith_eq_ofFn {γ δ : Type} (f : γ → γ → δ) (xs ys : List γ) (n : ℕ) (d : γ) (hx : xs.length = n) (hy : ys.length = n) :
    List.zipWith f xs ys = List.ofFn (fun k : Fin n => f (xs.getD k d) (ys.getD k d)) := by
  apply List.ext_getElem
  · simp [hx, hy]
  · intro i h1 h2
    simp at h1
    simp [List.getD_eq_getElem?_getD, h1.1, h1.2]

/-- the list dot product over `R` is the finite sum -/
theorem dotL_val (xs ys : List R) (n : ℕ) (hx : xs.length = n) (hy : ys.length = n) :
    (dotL xs ys).val = ∑ k : Fin n, (xs.getD k (0.0 : R)).val * (ys.getD k (0.0 : R)).val := by
  unfold dotL
  have := foldl_add_val (List.zipWith (· * ·) xs ys) id (0.0 : R)
  simp only [id] at this
  rw [this, zero_val, zero_add, zipWith_eq_ofFn _ xs ys n (0.0 : R) hx hy, List.map_ofFn, List.sum_ofFn]
  rfl

/-- a list-of-rows matrix over `R` as a Mathlib matrix -/
noncomputable def toM (n m : ℕ) (M : Mat R) : Matrix (Fin n) (Fin m) ℝ := fun i j => ((M.getD i []).getD j (0.0 : R)).val

theorem half_val : ((0.5 : R)).val = 1 / 2 := by
  rw [R.sci_val]; norm_num

theorem col_getD (G : Mat R) (j k : ℕ) (hk : k < G.length) :
    (Hand.Gp.col G j).getD k (0.0 : R) = (G.getD k []).getD j (0.0 : R) := by
  simp [Hand.Gp.col, List.getD_eq_getElem?_getD, hk]

/-- the executable gradient loop is the trace form -/
theorem gradLoop_val (A G : Mat R) (n : ℕ) (hA : A.length = n) (hAr : ∀ r ∈ A, r.length = n) (hG : G.length = n) :
    (gradLoop A G).val = 1 / 2 * Matrix.trace (toM n n A * toM n n G) := by
  subst hA
  unfold gradLoop
  rw [R.mul_val, half_val, foldl_add_val (enumL A) (fun e => dotL e.2 (Hand.Gp.col G e.1)) (0.0 : R), zero_val, zero_add,
    enumL_eq_ofFn, List.map_ofFn, List.sum_ofFn]
  simp only [Matrix.trace, Matrix.diag, Matrix.mul_apply, Function.comp]
  congr 1
  refine Finset.sum_congr rfl fun i _ => ?_
  rw [dotL_val (A[i]) (Hand.Gp.col G i) A.length (hAr _ (List.getElem_mem _)) (by simp [Hand.Gp.col, hG])]
  refine Finset.sum_congr rfl fun k _ => ?_
  rw [col_getD G i k (by rw [hG]; exact k.2)]
  simp [toM, List.getD_eq_getElem?_getD]

/-- the executable evidence expression, read over the reals -/
theorem lnMOf_val (L : Mat R) (y : List R) :
    (lnMOf L y).val = (L.length : ℝ) * (-(Real.log (2 * Real.pi) / 2))
      + ((-(1 / 2)) * (dotL y (cholSolve L y)).val + -(((diagOfLower L).map fun d => Real.log d.val).sum)) := by
  simp only [lnMOf, mulAdd, R.add_val, R.mul_val, R.neg_val, R.halfLn2Pi_val, R.ofNatR_val, R.sumL_val, half_val,
    List.map_map]
  rfl

end Bridge

end C17
