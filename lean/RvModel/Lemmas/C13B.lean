import RvModel.RealInst
import RvModel.ExtInst
import RvModel.Gen.Defs
import RvModel.Hand.Samplers
import RvModel.Lemmas.C13A
import Mathlib.Tactic.Ring
import Mathlib.Analysis.SpecialFunctions.Log.Basic
import Mathlib.Analysis.SpecialFunctions.Exp
import Mathlib.Tactic.Linarith
import Mathlib.Tactic.FieldSimp
import Mathlib.Algebra.BigOperators.Group.List.Basic
import Mathlib.Algebra.Order.BigOperators.Group.List
/-!
  Helper lemmas for Props/C13B.lean (index samplers, `cumsum`/`argmax`/`log_product` of src/misc/func.rs).

  IMPORTANT: `Gen.binary_search` is `whileFuel 10000 …`; the kernel must never be made to unfold `whileFuel` on that
  literal (structural recursion on `10000` = deep recursion).  Every lemma below therefore talks about the result of
  the loop through `generalize … = res` and the invariant rule `whileFuel_halving`, never through `dsimp`/`rfl`.
-/

namespace C13
open Hand

/-! ### `whileFuel` with a measure that halves -/

theorem whileFuel_halving {σ : Type} (c : σ → Bool) (f : σ → σ) (Inv : σ → Prop) (m : σ → Nat)
    (hstep : ∀ s, Inv s → c s = true → Inv (f s) ∧ m (f s) ≤ m s / 2)
    (hzero : ∀ s, Inv s → m s = 0 → c s = false) :
    ∀ (n : Nat) (s : σ), Inv s → m s < 2 ^ n →
      Inv (whileFuel n c f s) ∧ c (whileFuel n c f s) = false := by
  intro n
  induction n with
  | zero => intro s hI hm; simp only [whileFuel]; exact ⟨hI, hzero s hI (by simpa using hm)⟩
  | succ n ih =>
    intro s hI hm
    simp only [whileFuel]
    by_cases hc : c s = true
    · rw [if_pos hc]
      obtain ⟨h1, h2⟩ := hstep s hI hc
      apply ih _ h1
      have : m s / 2 < 2 ^ n := by
        rw [Nat.div_lt_iff_lt_mul (by norm_num)]; rw [pow_succ] at hm; exact hm
      omega
    · rw [if_neg hc]; exact ⟨hI, by simpa using hc⟩

theorem whileFuel_halving_res {σ : Type} (Inv : σ → Prop) (m : σ → Nat) (n : Nat) (s res : σ)
    (c : σ → Bool) (f : σ → σ) (h : whileFuel n c f s = res)
    (hstep : ∀ s, Inv s → c s = true → Inv (f s) ∧ m (f s) ≤ m s / 2)
    (hzero : ∀ s, Inv s → m s = 0 → c s = false) (hI : Inv s) (hm : m s < 2 ^ n) :
    Inv res ∧ c res = false := by
  subst h; exact whileFuel_halving c f Inv m hstep hzero n s hI hm

/-- enough fuel for the `while` of `binary_search` (modelled with fuel 10000): fewer than `2^10000` entries.
    A named predicate so that `omega`/`simp` never try to evaluate the power. -/
def fuelN : Nat := 10000
def FuelOK (n : Nat) : Prop := n < 2 ^ fuelN

theorem lt_two_pow_of_le {n N : Nat} (h : n ≤ N) : n < 2 ^ N :=
  Nat.lt_of_lt_of_le Nat.lt_two_pow_self (Nat.pow_le_pow_right (Nat.le_succ 1) h)

theorem fuelOK_of_le {n : Nat} (h : n ≤ 10000) : FuelOK n := lt_two_pow_of_le (N := fuelN) h

/-! ### lists of cumulative weights over `R` -/

/-- non-decreasing (through the accessor `idxR` the generated code uses) -/
def SortedR (cws : List R) : Prop :=
  ∀ i j, i ≤ j → j < cws.length → (idxR cws i).val ≤ (idxR cws j).val

theorem idxR_of_lt {α : Type} [RealLike α] (cws : List α) {i : Nat} (h : i < cws.length) :
    idxR cws i = cws[i] := by
  simp [idxR, h]

theorem sortedR_of_pairwise (cws : List R) (h : cws.Pairwise (fun a b => a.val ≤ b.val)) : SortedR cws := by
  intro i j hij hj
  rcases Nat.eq_or_lt_of_le hij with rfl | hlt
  · exact le_refl _
  · rw [idxR_of_lt _ (hlt.trans hj), idxR_of_lt _ hj]
    exact (List.pairwise_iff_getElem.mp h) i j _ _ hlt

theorem mem_iff_idxR (cws : List R) (x : R) : x ∈ cws ↔ ∃ j, j < cws.length ∧ idxR cws j = x := by
  rw [List.mem_iff_getElem]
  constructor
  · rintro ⟨j, h, rfl⟩; exact ⟨j, h, idxR_of_lt _ h⟩
  · rintro ⟨j, h, rfl⟩; exact ⟨j, h, (idxR_of_lt _ h).symm⟩

set_option exponentiation.threshold 10000 in
/-- the loop of `binary_search` on ANY carrier, for a list on which the test `cws[i] <= r` is downward closed
    (true of a non-decreasing list): the returned index splits the list into the entries where the test holds and
    those where it fails -/
theorem binary_search_post_gen {α : Type} [RealLike α] (cws : List α) (r : α)
    (hmono : ∀ i j, i ≤ j → j < cws.length → RealLike.le (idxR cws j) r = true →
      RealLike.le (idxR cws i) r = true)
    (hl : FuelOK cws.length) :
    Gen.binary_search cws r ≤ cws.length ∧
    (∀ j, j < Gen.binary_search cws r → RealLike.le (idxR cws j) r = true) ∧
    (∀ j, Gen.binary_search cws r ≤ j → j < cws.length → RealLike.le (idxR cws j) r = false) := by
  unfold Gen.binary_search
  simp -iota -proj only []
  generalize hres : whileFuel 10000 _ _ _ = res
  have key := whileFuel_halving_res
    (fun s : Nat × Nat => s.1 ≤ s.2 ∧ s.2 ≤ cws.length ∧ (∀ j, j < s.1 → RealLike.le (idxR cws j) r = true) ∧
      (∀ j, s.2 ≤ j → j < cws.length → RealLike.le (idxR cws j) r = false))
    (fun s => s.2 - s.1) _ _ _ _ _ hres ?_ ?_ ?_ hl
  · clear hres hl
    obtain ⟨l, u⟩ := res
    obtain ⟨⟨h1, h2, h3, h4⟩, h5⟩ := key
    simp only [decide_eq_false_iff_not, not_lt] at h5 h1 h2 h3 h4 ⊢
    refine ⟨by omega, h3, ?_⟩
    intro j hj; exact h4 j (by omega)
  · clear hl
    rintro ⟨l, u⟩ ⟨h1, h2, h3, h4⟩ hc
    simp only [decide_eq_true_eq] at hc h1 h2 h3 h4 ⊢
    have hmid : (l + u) / 2 < cws.length := by omega
    by_cases hlt : RealLike.le (idxR cws ((l + u) / 2)) r = true
    · simp only [if_pos hlt]
      refine ⟨⟨by omega, h2, ?_, h4⟩, by omega⟩
      intro j hj
      exact hmono j ((l + u) / 2) (by omega) hmid hlt
    · simp only [if_neg hlt]
      refine ⟨⟨by omega, by omega, h3, ?_⟩, by omega⟩
      intro j hj hj2
      by_contra hc2
      exact hlt (hmono ((l + u) / 2) j hj hj2 (by simpa using hc2))
  · clear hl
    rintro ⟨l, u⟩ ⟨h1, _⟩ hm
    simp only [decide_eq_false_iff_not, not_lt] at *; omega
  · exact ⟨Nat.zero_le _, le_refl _, fun j hj => absurd hj (Nat.not_lt_zero _),
      fun j hj hj2 => absurd hj2 (by omega)⟩

/-- the partition point is unique: two lists of the same length whose tests agree index by index get the same answer -/
theorem binary_search_congr {α β : Type} [RealLike α] [RealLike β] (c1 : List α) (r1 : α) (c2 : List β) (r2 : β)
    (hlen : c1.length = c2.length)
    (hp : ∀ j, j < c1.length → RealLike.le (idxR c1 j) r1 = RealLike.le (idxR c2 j) r2)
    (hmono : ∀ i j, i ≤ j → j < c1.length → RealLike.le (idxR c1 j) r1 = true →
      RealLike.le (idxR c1 i) r1 = true)
    (hl : FuelOK c1.length) :
    Gen.binary_search c1 r1 = Gen.binary_search c2 r2 := by
  have hmono2 : ∀ i j, i ≤ j → j < c2.length → RealLike.le (idxR c2 j) r2 = true →
      RealLike.le (idxR c2 i) r2 = true := by
    intro i j hij hj h
    rw [← hp j (by omega)] at h
    rw [← hp i (by omega)]
    exact hmono i j hij (by omega) h
  obtain ⟨a1, a2, a3⟩ := binary_search_post_gen c1 r1 hmono hl
  obtain ⟨b1, b2, b3⟩ := binary_search_post_gen c2 r2 hmono2 (hlen ▸ hl)
  generalize Gen.binary_search c1 r1 = i1 at *
  generalize Gen.binary_search c2 r2 = i2 at *
  rcases lt_trichotomy i1 i2 with h | h | h
  · have h1 := b2 i1 h
    have h2 := a3 i1 (le_refl _) (by omega)
    rw [hp i1 (by omega), h1] at h2
    exact absurd h2 (by simp)
  · exact h
  · have h1 := a2 i2 h
    have h2 := b3 i2 (le_refl _) (by omega)
    rw [← hp i2 (by omega), h1] at h2
    exact absurd h2 (by simp)

/-- `binary_search` on a non-decreasing list of exact reals: everything before the returned index is `≤ r`,
    everything from it on is `> r` -/
theorem binary_search_post (cws : List R) (r : R) (hs : SortedR cws) (hl : FuelOK cws.length) :
    Gen.binary_search cws r ≤ cws.length ∧
    (∀ j, j < Gen.binary_search cws r → (idxR cws j).val ≤ r.val) ∧
    (∀ j, Gen.binary_search cws r ≤ j → j < cws.length → r.val < (idxR cws j).val) := by
  obtain ⟨h1, h2, h3⟩ := binary_search_post_gen cws r (fun i j hij hj h => by
    rw [R.le_iff] at h ⊢
    exact le_trans (hs i j hij hj) h) hl
  refine ⟨h1, fun j hj => by simpa using h2 j hj, fun j hj hj2 => ?_⟩
  have := h3 j hj hj2
  rw [R.le_false_iff] at this
  exact not_le.mp this

/-! ### prefix sums -/

/-- `W ws i` = sum of the first `i` weights -/
noncomputable def W (ws : List R) (i : Nat) : ℝ := ((ws.map R.val).take i).sum

@[simp] theorem W_zero (ws : List R) : W ws 0 = 0 := by simp [W]

theorem W_succ (ws : List R) {i : Nat} (h : i < ws.length) : W ws (i + 1) = W ws i + (idxR ws i).val := by
  unfold W
  rw [List.sum_take_succ _ _ (by simpa using h), idxR_of_lt _ h]
  simp

theorem W_of_ge (ws : List R) {i : Nat} (h : ws.length ≤ i) : W ws i = (ws.map R.val).sum := by
  unfold W; rw [List.take_of_length_le (by simpa using h)]

theorem W_length (ws : List R) : W ws ws.length = (ws.map R.val).sum := W_of_ge ws (le_refl _)

theorem W_le_succ (ws : List R) (hw : ∀ w ∈ ws, 0 ≤ w.val) (i : Nat) : W ws i ≤ W ws (i + 1) := by
  by_cases h : i < ws.length
  · rw [W_succ ws h]
    have : 0 ≤ (idxR ws i).val := hw _ (by rw [idxR_of_lt _ h]; exact List.getElem_mem h)
    linarith
  · rw [W_of_ge ws (by omega), W_of_ge ws (by omega)]

theorem W_mono (ws : List R) (hw : ∀ w ∈ ws, 0 ≤ w.val) : Monotone (W ws) :=
  monotone_nat_of_le_succ (W_le_succ ws hw)

theorem W_nonneg (ws : List R) (hw : ∀ w ∈ ws, 0 ≤ w.val) (i : Nat) : 0 ≤ W ws i := by
  have := W_mono ws hw (Nat.zero_le i); simpa using this

theorem W_le_total (ws : List R) (hw : ∀ w ∈ ws, 0 ≤ w.val) (i : Nat) : W ws i ≤ (ws.map R.val).sum := by
  rcases le_total i ws.length with h | h
  · rw [← W_length]; exact W_mono ws hw h
  · rw [W_of_ge ws h]

/-- entry `i` of a running sum started at `init` -/
theorem scanL_add_idx (f : R → R → R) (hf : ∀ a x, (f a x).val = a.val + x.val) (xs : List R) :
    ∀ (init : R) (i : Nat), i < xs.length → (idxR (scanL f init xs) i).val = init.val + W xs (i + 1) := by
  induction xs with
  | nil => intro init i h; simp at h
  | cons x t ih =>
    intro init i h
    cases i with
    | zero => simp [scanL, idxR, hf, W]
    | succ k =>
      have hk : k < t.length := by simpa using h
      have := ih (f init x) k hk
      simp only [scanL, idxR, List.getD_cons_succ] at this ⊢
      rw [this, hf]
      simp [W, List.take_succ_cons, add_assoc]

theorem cumsum_length' (ws : List R) : (Gen.cumsum ws).length = ws.length := by
  unfold Gen.cumsum; exact scanL_length _ _ _

theorem cumsum_idx (ws : List R) {i : Nat} (h : i < ws.length) :
    (idxR (Gen.cumsum ws) i).val = W ws (i + 1) := by
  unfold Gen.cumsum
  rw [scanL_add_idx _ (fun a x => by simp) ws _ i h]
  norm_num

theorem cumsum_sorted (ws : List R) (hw : ∀ w ∈ ws, 0 ≤ w.val) : SortedR (Gen.cumsum ws) := by
  intro i j hij hj
  rw [cumsum_length'] at hj
  rw [cumsum_idx ws (lt_of_le_of_lt hij hj), cumsum_idx ws hj]
  exact W_mono ws hw (by omega)

/-- `*cws.last().unwrap()` of a non-empty cumulative sum is the total -/
theorem cumsum_last (ws : List R) (hne : ws ≠ []) :
    ((Gen.cumsum ws).getLastD RealLike.nan).val = (ws.map R.val).sum := by
  have hpos : 0 < ws.length := List.length_pos_iff.mpr hne
  have h1 : (Gen.cumsum ws).getLastD RealLike.nan = idxR (Gen.cumsum ws) (ws.length - 1) := by
    rw [List.getLastD_eq_getLast?, List.getLast?_eq_getElem?, cumsum_length', idxR, List.getD_eq_getElem?_getD]
  rw [h1, cumsum_idx ws (by omega), Nat.sub_add_cancel hpos, W_length]

theorem sumL_eq_total (ws : List R) : (sumL ws).val = (ws.map R.val).sum := R.sumL_val ws

/-! ### the linear scan of `pflip` is `catflip_standard ∘ cumsum` (any carrier) -/

theorem pflipLoop_eq {α : Type} [RealLike α] (ws : List α) :
    ∀ (ix : Nat) (c r : α),
      pflipLoop ws ix c r =
        (List.findIdx? (fun w => RealLike.gt w r) (scanL (fun acc x => (let acc := (acc + x); acc)) c ws)).map
          (· + ix) := by
  induction ws with
  | nil => intro ix c r; simp [pflipLoop, scanL]
  | cons w t ih =>
    intro ix c r
    simp only [pflipLoop, scanL, List.findIdx?_cons]
    by_cases h : RealLike.gt (c + w) r = true
    · simp [h]
    · simp only [h, if_false, Bool.false_eq_true]
      rw [ih]
      simp only [Option.map_map]
      congr 1
      funext k
      simp only [Function.comp]
      omega

/-! ### `pcmp` on the exact-real carrier -/

theorem pcmp_R (a b : R) :
    pcmp a b = if a.val < b.val then some .lt else if a.val = b.val then some .eq else some .gt := by
  unfold pcmp
  rcases lt_trichotomy a.val b.val with h | h | h
  · have h1 : RealLike.le a b = true := by rw [R.le_iff]; exact h.le
    have h2 : RealLike.ge a b = false := by
      show RealLike.le b a = false; rw [R.le_false_iff]; exact not_le.mpr h
    simp [h1, h2, h]
  · have h1 : RealLike.le a b = true := by rw [R.le_iff]; exact h.le
    have h2 : RealLike.ge a b = true := by show RealLike.le b a = true; rw [R.le_iff]; exact h.ge
    simp [h1, h2, h]
  · have h1 : RealLike.le a b = false := by rw [R.le_false_iff]; exact not_le.mpr h
    have h2 : RealLike.ge a b = true := by show RealLike.le b a = true; rw [R.le_iff]; exact h.le
    simp [h1, h2, not_lt.mpr h.le, h.ne']


/-! ### `pcmp` on `X` -/

theorem pcmp_fin (a b : ℝ) :
    pcmp (X.fin a) (X.fin b) = if a < b then some .lt else if a = b then some .eq else some .gt := by
  unfold pcmp
  rcases lt_trichotomy a b with h | h | h
  · simp [h, h.le, not_le.mpr h]
  · simp [h]
  · simp [h.le, not_le.mpr h, not_lt.mpr h.le, h.ne']

theorem pcmp_fin_ne_none (a b : ℝ) : pcmp (X.fin a) (X.fin b) ≠ none := by
  rw [pcmp_fin]; split_ifs <;> simp

theorem pcmp_nan_right (x : X) : pcmp x X.nan = none := by
  unfold pcmp; simp [RealLike.ge]

theorem pcmp_nan_left (x : X) : pcmp X.nan x = none := by
  unfold pcmp; simp [RealLike.ge]

theorem pcmp_fin_ninf (a : ℝ) : pcmp (X.fin a) X.ninf = some .gt := by
  unfold pcmp; simp [RealLike.ge]

/-! ### `Iterator::max_by` -/

theorem maxByLoop_some {β : Type} (cmp : β → β → Option Ordering) :
    ∀ (t : List β) (best : β), (best :: t).Pairwise (fun x y => cmp x y ≠ none) →
      ∃ b, maxByLoop cmp t best = some b ∧ b ∈ best :: t := by
  intro t
  induction t with
  | nil => intro best _; exact ⟨best, rfl, by simp⟩
  | cons y t ih =>
    intro best hp
    have hby : cmp best y ≠ none := (List.pairwise_cons.mp hp).1 y (by simp)
    have hp1 : (best :: t).Pairwise (fun x y => cmp x y ≠ none) :=
      hp.sublist (List.Sublist.cons_cons _ (List.sublist_cons_self _ _))
    have hp2 : (y :: t).Pairwise (fun x y => cmp x y ≠ none) := (List.pairwise_cons.mp hp).2
    cases h : cmp best y with
    | none => exact absurd h hby
    | some o =>
      cases o with
      | gt =>
        obtain ⟨b, hb, hm⟩ := ih best hp1
        refine ⟨b, by simp only [maxByLoop, h]; exact hb, ?_⟩
        rcases List.mem_cons.mp hm with rfl | hm
        · simp
        · simp [hm]
      | lt =>
        obtain ⟨b, hb, hm⟩ := ih y hp2
        exact ⟨b, by simp only [maxByLoop, h]; exact hb, by simp [hm]⟩
      | eq =>
        obtain ⟨b, hb, hm⟩ := ih y hp2
        exact ⟨b, by simp only [maxByLoop, h]; exact hb, by simp [hm]⟩

/-- invariant rule for `max_by`: a property kept by every comparison step holds of the winner -/
theorem maxByLoop_inv {β : Type} (cmp : β → β → Option Ordering) (P : β → List β → Prop)
    (hgt : ∀ best y t, P best (y :: t) → cmp best y = some .gt → P best t)
    (hle : ∀ best y t o, P best (y :: t) → cmp best y = some o → o ≠ .gt → P y t) :
    ∀ (t : List β) (best b : β), P best t → maxByLoop cmp t best = some b → P b [] := by
  intro t
  induction t with
  | nil => intro best b hP h; simp only [maxByLoop, Option.some.injEq] at h; exact h ▸ hP
  | cons y t ih =>
    intro best b hP h
    cases hc : cmp best y with
    | none => simp [maxByLoop, hc] at h
    | some o =>
      cases o with
      | gt => simp only [maxByLoop, hc] at h; exact ih best b (hgt best y t hP hc) h
      | lt => simp only [maxByLoop, hc] at h; exact ih y b (hle best y t _ hP hc (by simp)) h
      | eq => simp only [maxByLoop, hc] at h; exact ih y b (hle best y t _ hP hc (by simp)) h

/-! ### `log_product` -/

theorem R_isNormal (a : R) : RealLike.isNormal a = decide (a.val ≠ 0) := rfl

theorem logProductLoop_R (xs : List R) (hx : ∀ x ∈ xs, x.val ≠ 0) :
    ∀ (res prod : R), prod.val ≠ 0 →
      (logProductLoop xs res prod).val = res.val + Real.log (prod.val * (xs.map R.val).prod) := by
  induction xs with
  | nil => intro res prod _; simp [logProductLoop]
  | cons x t ih =>
    intro res prod hp
    have hx0 : x.val ≠ 0 := hx x (by simp)
    have hn : RealLike.isNormal (x * prod) = true := by
      rw [R_isNormal]; simp [hx0, hp]
    simp only [logProductLoop, hn, if_true]
    rw [ih (fun y hy => hx y (by simp [hy])) res (x * prod) (by simp [hx0, hp])]
    simp only [R.mul_val, List.map_cons, List.prod_cons]
    congr 2; ring

theorem logProductLoop_X (xs : List ℝ) (hx : ∀ x ∈ xs, 0 ≤ x) :
    ∀ (p : ℝ), 0 < p →
      logProductLoop (xs.map X.fin) (X.fin 0) (X.fin p) =
        if (0:ℝ) ∈ xs then X.ninf else X.fin (Real.log (p * xs.prod)) := by
  induction xs with
  | nil => intro p hp; simp [logProductLoop, X.ln_fin_pos hp]
  | cons x t ih =>
    intro p hp
    have hx0 : 0 ≤ x := hx x (by simp)
    rcases hx0.eq_or_lt with h | h
    · subst h
      simp only [List.map_cons, logProductLoop, X.fin_mul_fin, zero_mul, X.isNormal_fin]
      norm_num
    · have hne : x * p ≠ 0 := (mul_pos h hp).ne'
      simp only [List.map_cons, logProductLoop, X.fin_mul_fin, X.isNormal_fin, hne, ne_eq,
        not_false_eq_true, decide_true, if_true]
      rw [ih (fun y hy => hx y (by simp [hy])) (x * p) (mul_pos h hp)]
      have : (0:ℝ) ∈ x :: t ↔ (0:ℝ) ∈ t := by simp [h.ne]
      simp only [this, List.prod_cons]
      congr 3; ring

/-! ### `argmax` -/

theorem exists_lt_succ_iff (n : Nat) (P : Nat → Prop) :
    (∃ j, j < n + 1 ∧ P j) ↔ P 0 ∨ ∃ j, j < n ∧ P (j + 1) := by
  constructor
  · rintro ⟨j, hj, hP⟩
    cases j with
    | zero => exact Or.inl hP
    | succ k => exact Or.inr ⟨k, by omega, hP⟩
  · rintro (h | ⟨j, hj, hP⟩)
    · exact ⟨0, by omega, h⟩
    · exact ⟨j + 1, by omega, hP⟩

theorem argmaxLoop_spec (t : List R) :
    ∀ (k : Nat) (m : R) (ixs : List Nat), ixs.Pairwise (· < ·) → (∀ i ∈ ixs, i < k) →
      (argmaxLoop ((List.range' k t.length).zip t) m ixs).Pairwise (· < ·) ∧
      ∀ i, i ∈ argmaxLoop ((List.range' k t.length).zip t) m ixs ↔
        (i ∈ ixs ∧ ∀ y ∈ t, y.val ≤ m.val) ∨
        (∃ j, j < t.length ∧ i = k + j ∧ m.val ≤ (idxR t j).val ∧ ∀ y ∈ t, y.val ≤ (idxR t j).val) := by
  induction t with
  | nil => intro k m ixs hp hb; simp [argmaxLoop, hp]
  | cons x t ih =>
    intro k m ixs hp hb
    simp only [List.length_cons, List.range'_succ, List.zip_cons_cons, argmaxLoop, pcmp_R]
    have hidx0 : idxR (x :: t) 0 = x := rfl
    have hidxS : ∀ j, idxR (x :: t) (j + 1) = idxR t j := fun j => rfl
    rcases lt_trichotomy x.val m.val with h | h | h
    · -- smaller: nothing changes
      simp only [h, if_true]
      obtain ⟨h1, h2⟩ := ih (k + 1) m ixs hp (fun i hi => Nat.lt_succ_of_lt (hb i hi))
      refine ⟨h1, fun i => ?_⟩
      rw [h2 i, exists_lt_succ_iff]
      simp only [hidx0, hidxS, List.forall_mem_cons]
      constructor
      · rintro (⟨a, b⟩ | ⟨j, hj, rfl, c, d⟩)
        · exact Or.inl ⟨a, h.le, b⟩
        · exact Or.inr (Or.inr ⟨j, hj, by omega, c, by linarith, d⟩)
      · rintro (⟨a, _, b⟩ | ⟨_, c, _⟩ | ⟨j, hj, rfl, c, _, d⟩)
        · exact Or.inl ⟨a, b⟩
        · linarith
        · exact Or.inr ⟨j, hj, by omega, c, d⟩
    · -- equal: index appended
      have hne : ¬ x.val < m.val := by rw [h]; exact lt_irrefl _
      have e : (if x.val < m.val then some Ordering.lt else if x.val = m.val then some Ordering.eq
          else some Ordering.gt) = some Ordering.eq := by rw [if_neg hne, if_pos h]
      simp only [e]
      have hp' : (ixs ++ [k]).Pairwise (· < ·) := by
        rw [List.pairwise_append]
        exact ⟨hp, by simp, fun a ha b hb' => by simp at hb'; subst hb'; exact hb a ha⟩
      have hb' : ∀ i ∈ ixs ++ [k], i < k + 1 := by
        intro i hi
        rcases List.mem_append.mp hi with hi | hi
        · exact Nat.lt_succ_of_lt (hb i hi)
        · simp at hi; omega
      obtain ⟨h1, h2⟩ := ih (k + 1) m (ixs ++ [k]) hp' hb'
      refine ⟨h1, fun i => ?_⟩
      rw [h2 i, exists_lt_succ_iff]
      simp only [hidx0, hidxS, List.forall_mem_cons, List.mem_append, List.mem_singleton]
      constructor
      · rintro (⟨a | rfl, b⟩ | ⟨j, hj, rfl, c, d⟩)
        · exact Or.inl ⟨a, h.le, b⟩
        · exact Or.inr (Or.inl ⟨by omega, h.ge, le_refl _, fun y hy => by rw [h]; exact b y hy⟩)
        · exact Or.inr (Or.inr ⟨j, hj, by omega, c, by linarith, d⟩)
      · rintro (⟨a, _, b⟩ | ⟨hi, _, _, c⟩ | ⟨j, hj, rfl, c, _, d⟩)
        · exact Or.inl ⟨Or.inl a, b⟩
        · exact Or.inl ⟨Or.inr (by omega), fun y hy => by rw [← h]; exact c y hy⟩
        · exact Or.inr ⟨j, hj, by omega, c, d⟩
    · -- larger: new maximum
      have hne : ¬ x.val < m.val := not_lt.mpr h.le
      simp only [hne, h.ne', if_false]
      obtain ⟨h1, h2⟩ := ih (k + 1) x [k] (by simp) (by simp)
      refine ⟨h1, fun i => ?_⟩
      rw [h2 i, exists_lt_succ_iff]
      simp only [hidx0, hidxS, List.forall_mem_cons, List.mem_singleton]
      constructor
      · rintro (⟨rfl, b⟩ | ⟨j, hj, rfl, c, d⟩)
        · exact Or.inr (Or.inl ⟨by omega, h.le, le_refl _, b⟩)
        · exact Or.inr (Or.inr ⟨j, hj, by omega, by linarith, c, d⟩)
      · rintro (⟨_, c, _⟩ | ⟨hi, _, _, c⟩ | ⟨j, hj, rfl, _, c, d⟩)
        · linarith
        · exact Or.inl ⟨by omega, c⟩
        · exact Or.inr ⟨j, hj, by omega, c, d⟩


/-! ### the item list `enumerate(zip(weights, ln u))` of the Gumbel-max samplers -/

theorem items_facts (ws ls : List X) (hlen : ls.length = ws.length) (hne : ws ≠ []) :
    ∃ x t, (List.range ws.length).zip (ws.zip ls) = x :: t ∧
      (∀ it ∈ x :: t, it.1 < ws.length ∧ it.2.1 = idxR ws it.1 ∧ it.2.2 ∈ ls) ∧
      (t = [] → ws.length = 1) ∧
      (∀ Rel : X → X → Prop, ws.Pairwise Rel → (x :: t).Pairwise (fun a b => Rel a.2.1 b.2.1)) ∧
      (∀ w ∈ ws, ∃ it ∈ x :: t, it.2.1 = w) := by
  have hpos : 0 < ws.length := List.length_pos_iff.mpr hne
  have hl : ((List.range ws.length).zip (ws.zip ls)).length = ws.length := by
    simp [hlen]
  have hget : ∀ k (hk : k < ((List.range ws.length).zip (ws.zip ls)).length),
      ((List.range ws.length).zip (ws.zip ls))[k] =
        (k, ws[k]'(by rw [hl] at hk; exact hk), ls[k]'(by rw [hl] at hk; omega)) := by
    intro k hk
    simp [List.getElem_zip]
  cases hitems : (List.range ws.length).zip (ws.zip ls) with
  | nil => rw [hitems] at hl; simp at hl; omega
  | cons x t =>
    refine ⟨x, t, rfl, ?_, ?_, ?_, ?_⟩
    · intro it hit
      rw [← hitems] at hit
      obtain ⟨k, hk, rfl⟩ := List.mem_iff_getElem.mp hit
      have hk' : k < ws.length := by rw [hl] at hk; exact hk
      rw [hget k hk]
      exact ⟨hk', (idxR_of_lt ws hk').symm, List.getElem_mem _⟩
    · intro ht
      rw [hitems, ht] at hl
      simpa using hl.symm
    · intro Rel hp
      rw [← hitems, List.pairwise_iff_getElem]
      intro a b ha hb hab
      rw [hget a ha, hget b hb]
      exact (List.pairwise_iff_getElem.mp hp) a b _ _ hab
    · intro w hw
      obtain ⟨k, hk, rfl⟩ := List.mem_iff_getElem.mp hw
      have hk2 : k < ((List.range ws.length).zip (ws.zip ls)).length := by rw [hl]; exact hk
      refine ⟨((List.range ws.length).zip (ws.zip ls))[k], ?_, ?_⟩
      · rw [← hitems]; exact List.getElem_mem _
      · rw [hget k hk2]


/-! ### `ln_pflips`: the log-domain cumulative weights are the normalised cumulative weights of `exp` -/

/-- `e^w` as a real number (`0` for `-inf`) -/
noncomputable def expw (w : X) : ℝ := (RealLike.exp w).toReal

@[simp] theorem expw_fin (t : ℝ) : expw (X.fin t) = Real.exp t := rfl
@[simp] theorem expw_ninf : expw X.ninf = 0 := rfl

theorem expw_nonneg (w : X) (hw : X.IsFinOrNinf w) : 0 ≤ expw w := by
  cases w <;> simp_all [(Real.exp_pos _).le]

theorem sum_expw (lnw : List X) (hw : ∀ w ∈ lnw, X.IsFinOrNinf w) :
    (lnw.map expw).sum = ((X.fins lnw).map Real.exp).sum := by
  induction lnw with
  | nil => simp
  | cons w t ih =>
    have := ih (fun y hy => hw y (by simp [hy]))
    have hw0 := hw w (by simp)
    cases w <;> simp_all

theorem scanL_ln (S z : ℝ) (hS : 0 < S) (hz : z = Real.log S) (lnw : List X)
    (hw : ∀ w ∈ lnw, X.IsFinOrNinf w) :
    ∀ c0 : ℝ, scanL (fun state w => state + RealLike.exp (w - X.fin z)) (X.fin (c0 / S)) lnw
      = (scanL (fun (a x : ℝ) => a + x) c0 (lnw.map expw)).map (fun c => X.fin (c / S)) := by
  induction lnw with
  | nil => intro c0; simp [scanL]
  | cons w t ih =>
    intro c0
    have hw0 := hw w (by simp)
    have ih' := ih (fun y hy => hw y (by simp [hy]))
    have key : X.fin (c0 / S) + RealLike.exp (w - X.fin z) = X.fin ((c0 + expw w) / S) := by
      cases w with
      | nan => exact absurd hw0 (by simp)
      | pinf => exact absurd hw0 (by simp)
      | ninf => simp
      | fin t =>
        simp only [X.fin_sub_fin, X.exp_fin, X.fin_add_fin, expw_fin, X.fin_inj_iff]
        rw [hz, Real.exp_sub, Real.exp_log hS]; ring
    simp only [scanL, List.map_cons, key]
    rw [ih' (c0 + expw w)]

theorem scanL_R (as : List ℝ) :
    ∀ c0 : ℝ, scanL (fun (acc x : R) => (let acc := (acc + x); acc)) (R.mk c0) (as.map R.mk)
      = (scanL (fun (a x : ℝ) => a + x) c0 as).map R.mk := by
  induction as with
  | nil => intro c0; simp [scanL]
  | cons a t ih =>
    intro c0
    simp only [scanL, List.map_cons]
    have : (R.mk c0 + R.mk a : R) = R.mk (c0 + a) := rfl
    rw [this, ih (c0 + a)]

theorem idxR_map_lt {α β : Type} [RealLike α] (L : List β) (g : β → α) {j : Nat} (hj : j < L.length) :
    idxR (L.map g) j = g (L[j]) := by
  simp [idxR, hj]

/-- two images of the same real list under maps that agree on the tests `<=` / `>` against the respective thresholds
    get the same `catflip` answer (one list over `R`, non-decreasing; the other over `X`) -/
theorem catflip_map_congr (L : List ℝ) (g1 : ℝ → X) (r1 : X) (r2 : R)
    (hle : ∀ c, RealLike.le (R.mk c) r2 = RealLike.le (g1 c) r1)
    (hgt : ∀ c, RealLike.gt (R.mk c) r2 = RealLike.gt (g1 c) r1)
    (hs : SortedR (L.map R.mk)) (hl : FuelOK L.length) :
    Gen.catflip (L.map g1) r1 = Gen.catflip (L.map R.mk) r2 := by
  unfold Gen.catflip
  simp only [List.length_map]
  split_ifs
  · unfold Gen.catflip_bisection
    have e : Gen.binary_search (L.map R.mk) r2 = Gen.binary_search (L.map g1) r1 := by
      apply binary_search_congr _ _ _ _ (by simp)
      · intro j hj
        have hj' : j < L.length := by simpa using hj
        rw [idxR_map_lt L R.mk hj', idxR_map_lt L g1 hj', hle]
      · intro i j hij hj h
        rw [R.le_iff] at h ⊢
        exact le_trans (hs i j hij hj) h
      · simpa using hl
    simp only [List.length_map, e]
  · unfold Gen.catflip_standard
    rw [List.findIdx?_map, List.findIdx?_map]
    congr 1
    funext c
    simp only [Function.comp, hgt]


/-! ### the last entry of a running sum (`cws.last()`) -/

theorem scanL_real_last (as : List ℝ) (hne : as ≠ []) :
    ∀ c0 : ℝ, (scanL (fun (a x : ℝ) => a + x) c0 as).getLast? = some (c0 + as.sum) := by
  induction as with
  | nil => exact absurd rfl hne
  | cons a t ih =>
    intro c0
    cases t with
    | nil => simp [scanL]
    | cons b t' =>
      have := ih (by simp) (c0 + a)
      simp only [scanL] at this ⊢
      rw [List.getLast?_cons_cons, this]
      simp [add_assoc]

/-! ### an integer model of binary64 round-to-nearest-even, for the scaling `r = u · total` of `pflips` / `ln_pflips`

  A positive normal binary64 number is `m · 2^e` with `2^52 ≤ m < 2^53`; the variates are `k / 2^53` with `k < 2^53`
  (`std01`, `open01`; `uniform01` is `k / 2^52`, `k < 2^52`).  The exact product is `(k·m / 2^53) · 2^e`; `rne N s` is
  `N / 2^s` rounded to the nearest integer, ties to even. -/

/-- `N / 2^s` rounded to nearest, ties to even -/
def rne (N s : Nat) : Nat :=
  let q := N / 2 ^ s
  let rem := N % 2 ^ s
  if 2 * rem > 2 ^ s ∨ (2 * rem = 2 ^ s ∧ q % 2 = 1) then q + 1 else q

theorem rne_mono53 (N N' : Nat) (h : N ≤ N') : rne N 53 ≤ rne N' 53 := by
  unfold rne
  simp only []
  norm_num
  split_ifs <;> omega

/-! ### helper lemmas of Props/C13B.lean: variate maps, `pflips1`, Gumbel-max comparators -/

section
open X Real

theorem std01_val (w : Nat) : (std01 w : R).val = ((w >>> 11 : Nat) : ℝ) / 2 ^ 53 := by
  simp [std01]; norm_num

theorem open01_val (w : Nat) : (open01 w : R).val = ((2 * (w >>> 12) + 1 : Nat) : ℝ) / 2 ^ 53 := by
  simp [open01]; norm_num

theorem uniform01_val (w : Nat) : (uniform01 w : R).val = ((w >>> 12 : Nat) : ℝ) / 2 ^ 52 := by
  simp [uniform01]; norm_num

theorem length_lt_fuel {β : Type} (l : List β) (h : l.length ≤ 10000) : FuelOK l.length := fuelOK_of_le h

theorem pflip_r_val (ws : List R) (u : R) : (u * (sumL ws)).val = u.val * (ws.map R.val).sum := by
  rw [R.mul_val, sumL_eq_total]

theorem pflips1_eq (ws : List R) (u : R) (hne : ws ≠ []) :
    ∃ r : R, r.val = u.val * (ws.map R.val).sum ∧ pflips1 ws u = Gen.catflip (Gen.cumsum ws) r := by
  refine ⟨u * (Gen.cumsum ws).getLastD RealLike.nan, by rw [R.mul_val, cumsum_last ws hne], ?_⟩
  unfold pflips1
  have : ws.isEmpty = false := by cases ws with
    | nil => exact absurd rfl hne
    | cons _ _ => rfl
  simp only [this, Bool.false_eq_true, if_false]

theorem exists_ne_ninf_of_fins (lnw : List X) (hf : fins lnw ≠ []) : ∃ w ∈ lnw, w ≠ ninf := by
  induction lnw with
  | nil => exact absurd rfl hf
  | cons w t ih =>
    cases w with
    | ninf =>
      obtain ⟨y, hy, h⟩ := ih (by simpa using hf)
      exact ⟨y, by simp [hy], h⟩
    | nan => exact ⟨nan, by simp, by simp⟩
    | pinf => exact ⟨pinf, by simp, by simp⟩
    | fin a => exact ⟨fin a, by simp, by simp⟩

/-- item of the `max_by` of `ln_pflip`: log-weight finite or `-inf`, `g = ln(-ln u)` finite (i.e. `0 < u < 1`) -/
def GoodLn (it : Nat × X × X) : Prop := IsFinOrNinf it.2.1 ∧ ∃ g : ℝ, it.2.2 = fin g

theorem lnCmp_ninf_fin (i j : Nat) (b g1 g2 : ℝ) :
    lnPflipCmp (i, ninf, fin g1) (j, fin b, fin g2) = some .lt := by
  simp [lnPflipCmp, pcmp, RealLike.ge]

theorem lnCmp_fin_ninf (i j : Nat) (a g1 g2 : ℝ) :
    lnPflipCmp (i, fin a, fin g1) (j, ninf, fin g2) = some .gt := by
  simp [lnPflipCmp, pcmp_fin_ninf]

theorem lnCmp_ninf_ninf (i j : Nat) (g1 g2 : ℝ) :
    lnPflipCmp (i, ninf, fin g1) (j, ninf, fin g2) = some .eq := by
  simp [lnPflipCmp, pcmp, RealLike.ge]

theorem lnCmp_fin_fin (i j : Nat) (a b g1 g2 : ℝ) :
    lnPflipCmp (i, fin a, fin g1) (j, fin b, fin g2) ≠ none := by
  simp only [lnPflipCmp, X.fin_sub_fin]
  exact pcmp_fin_ne_none _ _

/-- with the Gumbel keys no comparison of `ln_pflip` can panic: `-inf − finite = -inf` is comparable with everything -/
theorem lnCmp_ne_none (x y : Nat × X × X) (hx : GoodLn x) (hy : GoodLn y) : lnPflipCmp x y ≠ none := by
  obtain ⟨i, w1, g1'⟩ := x
  obtain ⟨j, w2, g2'⟩ := y
  obtain ⟨hw1, g1, e1⟩ := hx
  obtain ⟨hw2, g2, e2⟩ := hy
  simp only at hw1 hw2 e1 e2
  subst e1 e2
  cases w1 <;> cases w2 <;> simp_all
  · rw [lnCmp_ninf_ninf]; simp
  · rw [lnCmp_ninf_fin]; simp
  · rw [lnCmp_fin_ninf]; simp
  · exact lnCmp_fin_fin _ _ _ _ _ _

/-- the loop of `ln_pflip` on good items (ANY number of `-inf` log-weights): no comparison panics, the winner is one of
    the items, and it is a finite-weight item as soon as there is one -/
theorem lnPflipLoop_total (t : List (Nat × X × X)) (best : Nat × X × X)
    (hg : ∀ it ∈ best :: t, GoodLn it) :
    ∃ b, maxByLoop lnPflipCmp t best = some b ∧ b ∈ best :: t ∧
      ((∃ y ∈ best :: t, y.2.1 ≠ ninf) → b.2.1 ≠ ninf) := by
  have hpc : (best :: t).Pairwise (fun x y => lnPflipCmp x y ≠ none) := by
    rw [List.pairwise_iff_forall_sublist]
    intro a b hab
    exact lnCmp_ne_none a b (hg a (hab.subset (by simp))) (hg b (hab.subset (by simp)))
  obtain ⟨b, hb, hm⟩ := maxByLoop_some lnPflipCmp t best hpc
  refine ⟨b, hb, hm, fun hfin => ?_⟩
  have key := maxByLoop_inv lnPflipCmp
    (fun best t => (∀ it ∈ best :: t, GoodLn it) ∧ (best.2.1 ≠ ninf ∨ ∃ y ∈ t, y.2.1 ≠ ninf))
    ?_ ?_ t best b ⟨hg, ?_⟩ hb
  · rcases key.2 with h | ⟨y, hy, _⟩
    · exact h
    · simp at hy
  · -- `Greater`: the current best stays; a `-inf` best is never `Greater` than a finite-weight item
    rintro best y t ⟨hg, hor⟩ hc
    refine ⟨fun it hit => hg it ?_, ?_⟩
    · rcases List.mem_cons.mp hit with rfl | h
      · simp
      · simp [h]
    · rcases hor with h | ⟨y', hy', h⟩
      · exact Or.inl h
      · rcases List.mem_cons.mp hy' with rfl | hy'
        · left
          intro hb1
          obtain ⟨i, w1, g1'⟩ := best
          obtain ⟨j, w2, g2'⟩ := y'
          obtain ⟨_, g1, e1⟩ := hg (i, w1, g1') (by simp)
          obtain ⟨hw2, g2, e2⟩ := hg (j, w2, g2') (by simp)
          simp only at hb1 h hw2 e1 e2
          subst hb1 e1 e2
          cases w2 <;> simp_all
          rw [lnCmp_ninf_fin] at hc
          simp at hc
        · exact Or.inr ⟨y', hy', h⟩
  · -- not `Greater`: `y` becomes the best; a `-inf` item never displaces a finite-weight best
    rintro best y t o ⟨hg, hor⟩ hc ho
    refine ⟨fun it hit => hg it (by simp [hit]), ?_⟩
    rcases hor with h | ⟨y', hy', h⟩
    · by_cases hy1 : y.2.1 = ninf
      · exfalso
        obtain ⟨i, w1, g1'⟩ := best
        obtain ⟨j, w2, g2'⟩ := y
        obtain ⟨hw1, g1, e1⟩ := hg (i, w1, g1') (by simp)
        obtain ⟨_, g2, e2⟩ := hg (j, w2, g2') (by simp)
        simp only at hy1 h hw1 e1 e2
        subst hy1 e1 e2
        cases w1 <;> simp_all
        rw [lnCmp_fin_ninf] at hc
        simp at hc
        exact ho hc.symm
      · exact Or.inl hy1
    · rcases List.mem_cons.mp hy' with rfl | hy'
      · exact Or.inl h
      · exact Or.inr ⟨y', hy', h⟩
  · obtain ⟨y, hy, h⟩ := hfin
    rcases List.mem_cons.mp hy with rfl | hy
    · exact Or.inl h
    · exact Or.inr ⟨y, hy, h⟩

/-- item of the `max_by` of `gumbel_pflip`: finite non-negative weight, `l = ln u` finite and negative -/
def GoodG (it : Nat × X × X) : Prop := ∃ w l : ℝ, it.2.1 = fin w ∧ 0 ≤ w ∧ it.2.2 = fin l ∧ l < 0

theorem gumbelCmp_fin (i j : Nat) (w1 w2 l1 l2 : ℝ) :
    gumbelCmp (i, fin w1, fin l1) (j, fin w2, fin l2) =
      if w2 * l1 < w1 * l2 then some .lt else if w2 * l1 = w1 * l2 then some .eq else some .gt := by
  simp [gumbelCmp, pcmp_fin]

/-- the weights `e^{ln wᵢ}` of a log-weight vector as exact reals (`0` for `-inf`) -/
noncomputable def expWeights (lnw : List X) : List R := lnw.map (fun w => R.mk (expw w))


theorem open01_X (w : Nat) : (open01 w : X) = fin (open01 w : R).val := by
  simp [open01]

theorem std01_X (w : Nat) : (std01 w : X) = fin (std01 w : R).val := by
  simp [std01]

theorem uniform01_X (w : Nat) : (uniform01 w : X) = fin (uniform01 w : R).val := by
  simp [uniform01]

end

end C13
