import RvModel.Hand.LnFact
import Mathlib.Analysis.SpecialFunctions.Log.Deriv
import Mathlib.Analysis.SpecialFunctions.Log.Basic
import Mathlib.Data.Rat.Cast.Order
import Mathlib.Analysis.Real.Pi.Bounds
import Mathlib.Tactic.NormNum
import Mathlib.Tactic.Ring
import Mathlib.Tactic.Linarith
import Mathlib.Tactic.FieldSimp
import Mathlib.Tactic.Positivity
/-!
  Soundness of the rational enclosures of `Hand.LnFact`:  `(lnEnc n).1 ≤ Real.log n ≤ (lnEnc n).2`,
  `(lnFactEnc n).1 ≤ Real.log n! ≤ (lnFactEnc n).2`, from Mathlib's two-sided artanh series bounds
  `Real.sum_range_le_log_div` / `Real.log_div_le_sum_range_add`.
-/
namespace C14L
open Hand.LnFact Finset

theorem rdDown_le (q : ℚ) : rdDown q ≤ q := by
  unfold rdDown
  rw [Rat.mkRat_eq_div]
  have hd : (0 : ℚ) < (q.den : ℚ) := by exact_mod_cast q.den_pos
  have hp : (0 : ℚ) < ((2 ^ prec : ℕ) : ℚ) := by positivity
  have hdz : ((q.den : ℤ)) ≠ 0 := by exact_mod_cast q.den_ne_zero
  have h1 : q.num * 2 ^ prec / (q.den : ℤ) * (q.den : ℤ) ≤ q.num * 2 ^ prec := Int.ediv_mul_le _ hdz
  have h2 : ((q.num * 2 ^ prec / (q.den : ℤ) : ℤ) : ℚ) * (q.den : ℚ) ≤ (q.num : ℚ) * 2 ^ prec := by
    exact_mod_cast h1
  rw [div_le_iff₀ hp]
  have h3 : ((q.num * 2 ^ prec / (q.den : ℤ) : ℤ) : ℚ) ≤ (q.num : ℚ) * 2 ^ prec / (q.den : ℚ) := by
    rw [le_div_iff₀ hd]; exact h2
  calc ((q.num * 2 ^ prec / (q.den : ℤ) : ℤ) : ℚ) ≤ (q.num : ℚ) * 2 ^ prec / (q.den : ℚ) := h3
    _ = ((q.num : ℚ) / (q.den : ℚ)) * 2 ^ prec := by ring
    _ = q * ((2 ^ prec : ℕ) : ℚ) := by rw [Rat.num_div_den]; push_cast; ring

theorem le_rdUp (q : ℚ) : q ≤ rdUp q := by
  unfold rdUp
  rw [Rat.mkRat_eq_div]
  have hd : (0 : ℚ) < (q.den : ℚ) := by exact_mod_cast q.den_pos
  have hp : (0 : ℚ) < ((2 ^ prec : ℕ) : ℚ) := by positivity
  have hdz : (0 : ℤ) < (q.den : ℤ) := by exact_mod_cast q.den_pos
  have h1 : q.num * 2 ^ prec < (q.num * 2 ^ prec / (q.den : ℤ) + 1) * (q.den : ℤ) :=
    Int.lt_ediv_add_one_mul_self _ hdz
  have h2 : (q.num : ℚ) * 2 ^ prec < ((q.num * 2 ^ prec / (q.den : ℤ) + 1 : ℤ) : ℚ) * (q.den : ℚ) := by
    exact_mod_cast h1
  rw [le_div_iff₀ hp]
  have h3 : (q.num : ℚ) * 2 ^ prec / (q.den : ℚ) ≤ ((q.num * 2 ^ prec / (q.den : ℤ) + 1 : ℤ) : ℚ) := by
    rw [div_le_iff₀ hd]; exact le_of_lt h2
  calc q * ((2 ^ prec : ℕ) : ℚ) = ((q.num : ℚ) / (q.den : ℚ)) * 2 ^ prec := by
        rw [Rat.num_div_den]; push_cast; ring
    _ = (q.num : ℚ) * 2 ^ prec / (q.den : ℚ) := by ring
    _ ≤ _ := h3

theorem atanhSum_cast (x : ℚ) (N : ℕ) :
    ((atanhSum x N : ℚ) : ℝ) = ∑ i ∈ range N, (x : ℝ) ^ (2 * i + 1) / (2 * i + 1) := by
  induction N with
  | zero => simp [atanhSum]
  | succ N ih =>
    rw [Finset.sum_range_succ, ← ih]
    simp only [atanhSum]
    push_cast
    ring

/-- `stepEnc k` encloses `log((k+1)/k)` for `k ≥ 1` -/
theorem stepEnc_sound (k : ℕ) (hk : 1 ≤ k) :
    ((stepEnc k).1 : ℝ) ≤ Real.log (((k : ℝ) + 1) / k) ∧ Real.log (((k : ℝ) + 1) / k) ≤ ((stepEnc k).2 : ℝ) := by
  have hkR : (1 : ℝ) ≤ (k : ℝ) := by exact_mod_cast hk
  set x : ℚ := 1 / ((2 * k + 1 : ℕ) : ℚ) with hx
  have hxR : (x : ℝ) = 1 / (2 * (k : ℝ) + 1) := by rw [hx]; push_cast; ring
  have hx0 : (0 : ℝ) ≤ (x : ℝ) := by rw [hxR]; positivity
  have hx1 : (x : ℝ) < 1 := by
    rw [hxR, div_lt_one (by positivity)]; linarith
  have hfrac : (1 + (x : ℝ)) / (1 - (x : ℝ)) = ((k : ℝ) + 1) / k := by
    rw [hxR]
    have h1 : (2 * (k : ℝ) + 1) ≠ 0 := by positivity
    have h2 : (k : ℝ) ≠ 0 := by positivity
    have h3 : (1 - 1 / (2 * (k : ℝ) + 1)) ≠ 0 := by
      rw [sub_ne_zero]; intro h; rw [eq_div_iff h1] at h; linarith
    rw [div_eq_div_iff h3 h2]
    field_simp
    ring
  have hlo := Real.sum_range_le_log_div hx0 hx1 nTerms
  have hhi := Real.log_div_le_sum_range_add hx0 hx1 nTerms
  rw [hfrac, ← atanhSum_cast] at hlo hhi
  constructor
  · have h := rdDown_le (2 * atanhSum x nTerms)
    have h' : ((rdDown (2 * atanhSum x nTerms) : ℚ) : ℝ) ≤ ((2 * atanhSum x nTerms : ℚ) : ℝ) := by
      exact_mod_cast h
    have : ((stepEnc k).1 : ℝ) = ((rdDown (2 * atanhSum x nTerms) : ℚ) : ℝ) := rfl
    rw [this]
    push_cast at h'
    linarith
  · have h := le_rdUp (2 * (atanhSum x nTerms + x ^ (2 * nTerms + 1) / (1 - x ^ 2)))
    have h' : ((2 * (atanhSum x nTerms + x ^ (2 * nTerms + 1) / (1 - x ^ 2)) : ℚ) : ℝ) ≤
        ((rdUp (2 * (atanhSum x nTerms + x ^ (2 * nTerms + 1) / (1 - x ^ 2))) : ℚ) : ℝ) := by
      exact_mod_cast h
    have : ((stepEnc k).2 : ℝ) = ((rdUp (2 * (atanhSum x nTerms + x ^ (2 * nTerms + 1) / (1 - x ^ 2))) : ℚ) : ℝ) := rfl
    rw [this]
    push_cast at h'
    linarith

/-- `lnEnc (n+1)` encloses `log (n+1)` -/
theorem lnEnc_sound_succ (n : ℕ) :
    ((lnEnc (n + 1)).1 : ℝ) ≤ Real.log ((n + 1 : ℕ) : ℝ) ∧ Real.log ((n + 1 : ℕ) : ℝ) ≤ ((lnEnc (n + 1)).2 : ℝ) := by
  induction n with
  | zero =>
    have h1 : (lnEnc 1).1 = 0 := by decide +kernel
    have h2 : (lnEnc 1).2 = 0 := by decide +kernel
    rw [h1, h2]; simp
  | succ n ih =>
    have hs := stepEnc_sound (n + 1) (by omega)
    have hstep : stepEnc' (n + 1) = stepEnc (n + 1) := by simp [stepEnc']
    have e1 : (lnEnc (n + 1 + 1)).1 = (lnEnc (n + 1)).1 + (stepEnc (n + 1)).1 := by
      rw [← hstep]; rfl
    have e2 : (lnEnc (n + 1 + 1)).2 = (lnEnc (n + 1)).2 + (stepEnc (n + 1)).2 := by
      rw [← hstep]; rfl
    have hpos : (0 : ℝ) < ((n + 1 : ℕ) : ℝ) := by positivity
    have hlog : Real.log ((n + 1 + 1 : ℕ) : ℝ) =
        Real.log ((n + 1 : ℕ) : ℝ) + Real.log ((((n + 1 : ℕ) : ℝ) + 1) / ((n + 1 : ℕ) : ℝ)) := by
      rw [← Real.log_mul (ne_of_gt hpos) (by positivity)]
      congr 1
      push_cast
      field_simp
    rw [e1, e2, hlog]
    push_cast at hs ih ⊢
    constructor <;> linarith [hs.1, hs.2, ih.1, ih.2]

/-- `lnEnc n` encloses `log n` for every `n ≥ 1` -/
theorem lnEnc_sound (n : ℕ) (hn : 1 ≤ n) :
    ((lnEnc n).1 : ℝ) ≤ Real.log (n : ℝ) ∧ Real.log (n : ℝ) ≤ ((lnEnc n).2 : ℝ) := by
  obtain ⟨m, rfl⟩ : ∃ m, n = m + 1 := ⟨n - 1, by omega⟩
  exact lnEnc_sound_succ m

/-- `lnFactEnc n` encloses `log n!` -/
theorem lnFactEnc_sound (n : ℕ) :
    ((lnFactEnc n).1 : ℝ) ≤ Real.log ((n.factorial : ℕ) : ℝ) ∧
      Real.log ((n.factorial : ℕ) : ℝ) ≤ ((lnFactEnc n).2 : ℝ) := by
  induction n with
  | zero => simp [lnFactEnc]
  | succ n ih =>
    have hs := lnEnc_sound_succ n
    have e1 : (lnFactEnc (n + 1)).1 = (lnFactEnc n).1 + (lnEnc (n + 1)).1 := rfl
    have e2 : (lnFactEnc (n + 1)).2 = (lnFactEnc n).2 + (lnEnc (n + 1)).2 := rfl
    have hlog : Real.log (((n + 1).factorial : ℕ) : ℝ) =
        Real.log ((n.factorial : ℕ) : ℝ) + Real.log ((n + 1 : ℕ) : ℝ) := by
      rw [Nat.factorial_succ, Nat.cast_mul, Real.log_mul (by positivity) (by positivity)]
      ring
    rw [e1, e2, hlog]
    push_cast at hs ih ⊢
    constructor <;> linarith [hs.1, hs.2, ih.1, ih.2]

theorem encRev_ne_nil (N : ℕ) : encRev N ≠ [] := by
  induction N with
  | zero => simp [encRev]
  | succ N ih =>
    cases hl : encRev N with
    | nil => exact absurd hl ih
    | cons hd tl =>
      show (match encRev N with | [] => [] | h :: l => _) ≠ _
      rw [hl]; simp

/-- the one-pass list equals the per-`n` definitions -/
theorem encRev_getD (N i : ℕ) (h : i ≤ N) :
    (encRev N).getD i ((0, 0), (0, 0)) = (lnEnc (N - i), lnFactEnc (N - i)) := by
  induction N generalizing i with
  | zero =>
    have : i = 0 := by omega
    subst this; rfl
  | succ N ih =>
    have h0 := ih 0 (Nat.zero_le N)
    rw [Nat.sub_zero] at h0
    cases hl : encRev N with
    | nil => exact absurd hl (encRev_ne_nil N)
    | cons hd tl =>
      rw [hl] at h0
      have hhd : hd = (lnEnc N, lnFactEnc N) := by simpa using h0
      have e : encRev (N + 1) =
          (((hd.1.1 + (stepEnc' N).1, hd.1.2 + (stepEnc' N).2),
            (hd.2.1 + (hd.1.1 + (stepEnc' N).1), hd.2.2 + (hd.1.2 + (stepEnc' N).2))) :: hd :: tl) := by
        show (match encRev N with | [] => [] | h :: l => _) = _
        rw [hl]
      cases i with
      | zero =>
        rw [e, hhd]; rfl
      | succ j =>
        rw [e, List.getD_cons_succ, ← hl, ih j (by omega), Nat.succ_sub_succ]

/-- `ratioEnc a N` encloses `log a` for rational `a ≥ 1` -/
theorem ratioEnc_sound (a : ℚ) (ha : 1 ≤ a) (N : ℕ) :
    ((ratioEnc a N).1 : ℝ) ≤ Real.log (a : ℝ) ∧ Real.log (a : ℝ) ≤ ((ratioEnc a N).2 : ℝ) := by
  have haR : (1 : ℝ) ≤ (a : ℝ) := by exact_mod_cast ha
  set x : ℚ := (a - 1) / (a + 1) with hx
  have hxR : (x : ℝ) = ((a : ℝ) - 1) / ((a : ℝ) + 1) := by rw [hx]; push_cast; ring
  have hpos : (0 : ℝ) < (a : ℝ) + 1 := by linarith
  have hx0 : (0 : ℝ) ≤ (x : ℝ) := by rw [hxR]; exact div_nonneg (by linarith) (le_of_lt hpos)
  have hx1 : (x : ℝ) < 1 := by rw [hxR, div_lt_one hpos]; linarith
  have hfrac : (1 + (x : ℝ)) / (1 - (x : ℝ)) = (a : ℝ) := by
    rw [hxR]
    have h1 : (a : ℝ) + 1 ≠ 0 := ne_of_gt hpos
    have e1 : 1 + ((a : ℝ) - 1) / ((a : ℝ) + 1) = 2 * (a : ℝ) / ((a : ℝ) + 1) := by field_simp; ring
    have e2 : 1 - ((a : ℝ) - 1) / ((a : ℝ) + 1) = 2 / ((a : ℝ) + 1) := by field_simp; ring
    rw [e1, e2]
    field_simp
  have hlo := Real.sum_range_le_log_div hx0 hx1 N
  have hhi := Real.log_div_le_sum_range_add hx0 hx1 N
  rw [hfrac, ← atanhSum_cast] at hlo hhi
  have e1 : ((ratioEnc a N).1 : ℝ) = ((2 * atanhSum x N : ℚ) : ℝ) := rfl
  have e2 : ((ratioEnc a N).2 : ℝ) = ((2 * (atanhSum x N + x ^ (2 * N + 1) / (1 - x ^ 2)) : ℚ) : ℝ) := rfl
  rw [e1, e2]
  push_cast
  constructor <;> linarith

theorem piLo_lt : ((piLo : ℚ) : ℝ) < Real.pi := by
  have e : ((piLo : ℚ) : ℝ) = 3.14159265358979323846 := by unfold piLo; norm_num
  rw [e]; exact Real.pi_gt_d20

theorem lt_piHi : Real.pi < ((piHi : ℚ) : ℝ) := by
  have e : ((piHi : ℚ) : ℝ) = 3.14159265358979323847 := by unfold piHi; norm_num
  rw [e]; exact Real.pi_lt_d20

/-- `ln2PiEnc` encloses `log (2π)` -/
theorem ln2PiEnc_sound :
    ((ln2PiEnc.1 : ℚ) : ℝ) ≤ Real.log (2 * Real.pi) ∧ Real.log (2 * Real.pi) ≤ ((ln2PiEnc.2 : ℚ) : ℝ) := by
  have h2 := lnEnc_sound 2 (by norm_num)
  have h3 := lnEnc_sound 3 (by norm_num)
  have hl1 : (1 : ℚ) ≤ piLo / 3 := by unfold piLo; norm_num
  have hh1 : (1 : ℚ) ≤ piHi / 3 := by unfold piHi; norm_num
  have hl := ratioEnc_sound (piLo / 3) hl1 8
  have hh := ratioEnc_sound (piHi / 3) hh1 8
  have hpi : (0 : ℝ) < Real.pi := Real.pi_pos
  have hlog : Real.log (2 * Real.pi) = Real.log 2 + Real.log 3 + Real.log (Real.pi / 3) := by
    rw [← Real.log_mul (by norm_num) (by norm_num), ← Real.log_mul (by norm_num) (by positivity)]
    congr 1; ring
  have hloPos : (0 : ℝ) < ((piLo / 3 : ℚ) : ℝ) := by
    have : (1 : ℝ) ≤ ((piLo / 3 : ℚ) : ℝ) := by exact_mod_cast hl1
    linarith
  have m1 : Real.log ((piLo / 3 : ℚ) : ℝ) ≤ Real.log (Real.pi / 3) := by
    apply Real.log_le_log hloPos
    push_cast
    have := piLo_lt
    linarith
  have m2 : Real.log (Real.pi / 3) ≤ Real.log ((piHi / 3 : ℚ) : ℝ) := by
    apply Real.log_le_log (by positivity)
    push_cast
    have := lt_piHi
    linarith
  have e1 : ((ln2PiEnc.1 : ℚ) : ℝ) =
      ((lnEnc 2).1 : ℝ) + ((lnEnc 3).1 : ℝ) + ((ratioEnc (piLo / 3) 8).1 : ℝ) := by
    unfold ln2PiEnc; push_cast; ring
  have e2 : ((ln2PiEnc.2 : ℚ) : ℝ) =
      ((lnEnc 2).2 : ℝ) + ((lnEnc 3).2 : ℝ) + ((ratioEnc (piHi / 3) 8).2 : ℝ) := by
    unfold ln2PiEnc; push_cast; ring
  rw [e1, e2, hlog]
  have c2 : ((2 : ℕ) : ℝ) = 2 := by norm_num
  have c3 : ((3 : ℕ) : ℝ) = 3 := by norm_num
  rw [c2] at h2; rw [c3] at h3
  constructor <;> linarith [h2.1, h2.2, h3.1, h3.2, hl.1, hh.2]

end C14L
