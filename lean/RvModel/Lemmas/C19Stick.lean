import RvModel.RealInst
import RvModel.Hand.Stick
/-!
  Lemmas.C19Stick — the prefix invariant of the stick-sequence state machine (`SInv`: the stored vector is the
  prefix of the fixed stream), what each request must return (`Expected`), and list helper lemmas used by
  `Props/C19B.lean`.
-/
set_option linter.unusedVariables false
set_option linter.unusedSimpArgs false

namespace C19
open Hand.Stick Hand.Stick.Sbd



/-- the stored vector is the prefix of the fixed stream: `ccdf = [c 0, …, c drawn]` -/
def SInv {α : Type} [RealLike α] (breaks : Nat → α) (s : S α) : Prop :=
  s.ccdf = (List.range (s.drawn + 1)).map (ccdfFn breaks)

theorem sinv_init {α : Type} [RealLike α] (breaks : Nat → α) : SInv breaks (init : S α) := by
  simp [SInv, init, ccdfFn]

theorem sinv_length {α : Type} [RealLike α] (breaks : Nat → α) (s : S α) (h : SInv breaks s) :
    s.ccdf.length = s.drawn + 1 := by rw [h]; simp

theorem sinv_getD {α : Type} [RealLike α] (breaks : Nat → α) (s : S α) (h : SInv breaks s) (i : Nat)
    (hi : i < s.ccdf.length) : s.ccdf.getD i RealLike.nan = ccdfFn breaks i := by
  have hl := sinv_length breaks s h
  rw [h]
  simp only [List.getD_eq_getElem?_getD]
  rw [List.getElem?_map, List.getElem?_range (by omega)]
  rfl

theorem sinv_get? {α : Type} [RealLike α] (breaks : Nat → α) (s : S α) (h : SInv breaks s) (i : Nat)
    (hi : i < s.ccdf.length) : s.ccdf[i]? = some (ccdfFn breaks i) := by
  have hl := sinv_length breaks s h
  rw [h, List.getElem?_map, List.getElem?_range (by omega)]
  rfl

theorem sinv_extend {α : Type} [RealLike α] (breaks : Nat → α) (s : S α) (h : SInv breaks s) :
    SInv breaks (extend breaks s) := by
  have hl := sinv_length breaks s h
  have hlast : s.ccdf.getLastD RealLike.nan = ccdfFn breaks s.drawn := by
    rw [List.getLastD_eq_getLast?, List.getLast?_eq_getElem?, hl]
    simp only [Nat.add_sub_cancel]
    rw [sinv_get? breaks s h _ (by omega)]; rfl
  simp only [SInv, extend, hlast]
  rw [List.range_succ, List.map_append, ← h]
  simp [ccdfFn]

theorem extendN_spec {α : Type} [RealLike α] (breaks : Nat → α) (n : Nat) (s : S α) (h : SInv breaks s) :
    SInv breaks (extendN breaks n s) ∧ (extendN breaks n s).drawn = s.drawn + n := by
  induction n generalizing s with
  | zero => exact ⟨h, rfl⟩
  | succ n ih =>
    obtain ⟨h1, h2⟩ := ih (extend breaks s) (sinv_extend breaks s h)
    refine ⟨h1, ?_⟩
    rw [extendN, h2]
    show s.drawn + 1 + n = s.drawn + (n + 1)
    omega

theorem ensure_spec {α : Type} [RealLike α] (breaks : Nat → α) (n : Nat) (s : S α) (h : SInv breaks s) :
    SInv breaks (ensureBreaks breaks n s) ∧ (ensureBreaks breaks n s).drawn = Nat.max s.drawn n := by
  have hl := sinv_length breaks s h
  obtain ⟨h1, h2⟩ := extendN_spec breaks (n + 1 - s.ccdf.length) s h
  refine ⟨h1, ?_⟩
  rw [ensureBreaks, h2, hl]
  simp only [Nat.max_def]; split <;> omega

theorem scan_weights {α : Type} [RealLike α] (c : Nat → α) (m k : Nat) (x : α) :
    (scanL (fun (st : α × α) (p : α) => (p, st.1 - p)) (c k, x)
        ((List.range m).map (fun i => c (k + 1 + i)))).map Prod.snd
      = (List.range m).map (fun i => c (k + i) - c (k + i + 1)) := by
  induction m generalizing k x with
  | zero => simp [scanL]
  | succ m ih =>
    rw [List.range_succ_eq_map]
    simp only [List.map_cons, List.map_map, scanL, Nat.add_zero]
    congr 1
    have := ih (k + 1) (c k - c (k + 1))
    have e1 : ((fun i => c (k + 1 + i)) ∘ Nat.succ) = (fun i => c (k + 1 + 1 + i)) := by
      funext i; simp only [Function.comp]; congr 1; omega
    have e2 : ((fun i => c (k + i) - c (k + i + 1)) ∘ Nat.succ) = (fun i => c (k + 1 + i) - c (k + 1 + i + 1)) := by
      funext i; simp only [Function.comp]
      have : k + i.succ = k + 1 + i := by omega
      rw [this]
    rw [e1, e2]
    exact this

theorem weightsOf_spec {α : Type} [RealLike α] (breaks : Nat → α) (s : S α) (h : SInv breaks s) :
    weightsOf s.ccdf = (List.range s.drawn).map (weightFn breaks) := by
  rw [h, weightsOf, List.range_succ_eq_map]
  simp only [List.map_cons, List.drop_succ_cons, List.drop_zero, List.map_map]
  have := scan_weights (ccdfFn breaks) s.drawn 0 (0.0 : α)
  simp only [Nat.zero_add] at this
  have e : (ccdfFn breaks ∘ Nat.succ) = (fun i => ccdfFn breaks (1 + i)) := by
    funext i; simp only [Function.comp]; congr 1; omega
  rw [e]
  exact this

theorem extendUntil_spec {α : Type} [RealLike α] (breaks : Nat → α) (pred : List α → Bool) (fuel : Nat)
    (s s' : S α) (h : SInv breaks s) (he : extendUntil breaks pred fuel s = some s') :
    SInv breaks s' ∧ pred s'.ccdf = true ∧ s.drawn ≤ s'.drawn := by
  induction fuel generalizing s with
  | zero =>
    simp only [extendUntil] at he
    split at he
    · injection he with he; subst he; exact ⟨h, by assumption, le_refl _⟩
    · cases he
  | succ fuel ih =>
    simp only [extendUntil] at he
    split at he
    · injection he with he; subst he; exact ⟨h, by assumption, le_refl _⟩
    · obtain ⟨h1, h2, h3⟩ := ih (extend breaks s) (sinv_extend breaks s h) he
      refine ⟨h1, h2, ?_⟩
      have : (extend breaks s).drawn = s.drawn + 1 := rfl
      omega

theorem positionBelow_some {α : Type} [RealLike α] (p : α) (l : List α) (start j : Nat)
    (h : positionBelow p l start = some j) :
    start ≤ j ∧ (∃ q, l[j - start]? = some q ∧ RealLike.lt q p = true) ∧
      ∀ i, i < j - start → ∀ q, l[i]? = some q → RealLike.lt q p = false := by
  induction l generalizing start with
  | nil => simp [positionBelow] at h
  | cons x xs ih =>
    simp only [positionBelow] at h
    split at h
    · injection h with h; subst h
      refine ⟨le_refl _, ⟨x, by simp, by assumption⟩, ?_⟩
      intro i hi; omega
    · rename_i hx
      obtain ⟨h1, ⟨q, hq1, hq2⟩, h3⟩ := ih (start + 1) h
      have e : j - start = (j - (start + 1)) + 1 := by omega
      refine ⟨by omega, ⟨q, by rw [e]; simpa using hq1, hq2⟩, ?_⟩
      intro i hi q' hq'
      cases i with
      | zero => simp at hq'; subst hq'; simpa using hx
      | succ i =>
        simp only [List.getElem?_cons_succ] at hq'
        exact h3 i (by omega) q' hq'

theorem positionBelow_none {α : Type} [RealLike α] (p : α) (l : List α) (start : Nat)
    (h : positionBelow p l start = none) : ∀ q ∈ l, RealLike.lt q p = false := by
  induction l generalizing start with
  | nil => simp
  | cons x xs ih =>
    simp only [positionBelow] at h
    split at h
    · cases h
    · rename_i hx
      intro q hq
      simp only [List.mem_cons] at hq
      rcases hq with rfl | hq
      · simpa using hx
      · exact ih (start + 1) h q hq

/-- `j` is the first index whose ccdf is below `p` -/
def IsFirstBelow {α : Type} [RealLike α] (c : Nat → α) (p : α) (j : Nat) : Prop :=
  RealLike.lt (c j) p = true ∧ ∀ i, i < j → RealLike.lt (c i) p = false

/-- what a request must return: a function of the break stream only -/
def Expected {α : Type} [RealLike α] (breaks : Nat → α) : Req α → Ans α → Prop
  | .ensure _, a => a = .unit
  | .ccdf n, a => a = .val (ccdfFn breaks n)
  | .weight n, a => a = .val (weightFn breaks n)
  | .sf x, a => a = .val (ccdfFn breaks (x + 1))
  | .cdf x, a => a = .val ((1.0 : α) - ccdfFn breaks (x + 1))
  | .weights n, a => ∃ m, n ≤ m ∧ a = .vals ((List.range m).map (weightFn breaks))
  | .numWeights, _ => True
  | .invccdf p, a => a = .hang ∨ ∃ j, IsFirstBelow (ccdfFn breaks) p j ∧ a = .nat (subOneWrap j)
  | .multi _ _, _ => True
  | .push _, _ => True

def NoPush {α : Type} : Req α → Prop
  | .push _ => False
  | _ => True



theorem one_valS : ((1.0 : R)).val = 1 := by
  show (OfScientific.ofScientific 10 true 1 : ℝ) = 1; norm_num

theorem lt_val (a b : R) : RealLike.lt a b = decide (a.val < b.val) := rfl

/-- breaks strictly inside the unit interval (what `UnitPowerLaw::draw` returns almost surely) -/
def UnitBreaks (breaks : Nat → R) : Prop := ∀ i, 0 < (breaks i).val ∧ (breaks i).val < 1

theorem ccdf_zero_val (breaks : Nat → R) : (ccdfFn breaks 0).val = 1 := one_valS

theorem ccdf_succ_val (breaks : Nat → R) (n : Nat) :
    (ccdfFn breaks (n + 1)).val = (ccdfFn breaks n).val * (breaks n).val := rfl

theorem firstBelow_some {α : Type} [RealLike α] (c : Nat → α) (p : α) (fuel start j : Nat)
    (h : firstBelow c p fuel start = some j) :
    start ≤ j ∧ j ≤ start + fuel ∧ RealLike.lt (c j) p = true ∧
      ∀ i, start ≤ i → i < j → RealLike.lt (c i) p = false := by
  induction fuel generalizing start with
  | zero =>
    simp only [firstBelow] at h
    split at h
    · injection h with h; subst h
      exact ⟨le_refl _, by omega, by assumption, fun i h1 h2 => by omega⟩
    · cases h
  | succ fuel ih =>
    simp only [firstBelow] at h
    split at h
    · injection h with h; subst h
      exact ⟨le_refl _, by omega, by assumption, fun i h1 h2 => by omega⟩
    · rename_i hx
      obtain ⟨h1, h2, h3, h4⟩ := ih (start + 1) h
      refine ⟨by omega, by omega, h3, ?_⟩
      intro i hi1 hi2
      by_cases e : i = start
      · subst e; simpa using hx
      · exact h4 i (by omega) hi2

theorem firstBelow_of_isFirst {α : Type} [RealLike α] (c : Nat → α) (p : α) (fuel start j : Nat)
    (hlt : RealLike.lt (c j) p = true) (hmin : ∀ i, start ≤ i → i < j → RealLike.lt (c i) p = false)
    (h1 : start ≤ j) (h2 : j ≤ start + fuel) : firstBelow c p fuel start = some j := by
  induction fuel generalizing start with
  | zero =>
    have : j = start := by omega
    subst this
    simp [firstBelow, hlt]
  | succ fuel ih =>
    simp only [firstBelow]
    by_cases e : j = start
    · subst e; simp [hlt]
    · have := hmin start (le_refl _) (by omega)
      simp only [this, Bool.false_eq_true, if_false]
      exact ih (start + 1) (fun i hi1 hi2 => hmin i (by omega) hi2) (by omega) (by omega)

theorem subOneWrap_pos (j : Nat) (h1 : 1 ≤ j) (h2 : j ≤ 2 ^ 64) : subOneWrap j = j - 1 := by
  simp only [subOneWrap, wrapNat]
  have : j + 2 ^ 64 - 1 = (j - 1) + 2 ^ 64 := by omega
  rw [this, Nat.add_mod_right, Nat.mod_eq_of_lt (by omega)]

theorem subOneWrap_zero : subOneWrap 0 = 2 ^ 64 - 1 := by decide

theorem mstep_spec {α : Type} [RealLike α] (breaks : Nat → α) (s : S α) (o : MOp) (h : SInv breaks s) :
    SInv breaks (mstep breaks s o).2 ∧ s.drawn ≤ (mstep breaks s o).2.drawn := by
  cases o with
  | ensure n =>
    obtain ⟨h1, h2⟩ := ensure_spec breaks n s h
    exact ⟨h1, by show s.drawn ≤ (ensureBreaks breaks n s).drawn; rw [h2]; exact Nat.le_max_left _ _⟩
  | readCcdf n => exact ⟨h, le_refl _⟩
  | readWeight n => exact ⟨h, le_refl _⟩

theorem mrun_spec {α : Type} [RealLike α] (breaks : Nat → α) (os : List MOp) (s : S α) (h : SInv breaks s) :
    SInv breaks (mrun breaks s os) ∧ s.drawn ≤ (mrun breaks s os).drawn := by
  induction os generalizing s with
  | nil => exact ⟨h, le_refl _⟩
  | cons o os ih =>
    obtain ⟨h1, h2⟩ := mstep_spec breaks s o h
    obtain ⟨h3, h4⟩ := ih _ h1
    exact ⟨h3, le_trans h2 h4⟩

/-! ### `multi_invccdf_sorted`: the index loop as a stack loop -/



/-- index of the first element of `qs` below `p` (`qs.length` if none) -/
def idxBelow {α : Type} [RealLike α] (p : α) : List α → Nat
  | [] => 0
  | q :: qs => if RealLike.lt q p then 0 else idxBelow p qs + 1

/-- the inner `while` of `multi_invccdf_sorted` on the stack of pending probabilities (largest on top): pop while
    the top exceeds `q`, except that the LAST pending probability is emitted but never popped (`i == 0 → break`) -/
def absInner {α : Type} [RealLike α] (q0 : Nat) (q : α) : List α → List Nat → List α × List Nat
  | [], res => ([], res)
  | [p], res => if RealLike.gt p q then ([p], res ++ [q0]) else ([p], res)
  | p :: p' :: rest, res =>
    if RealLike.gt p q then absInner q0 q (p' :: rest) (res ++ [q0]) else (p :: p' :: rest, res)

def absOuter {α : Type} [RealLike α] : List (Nat × α) → List α → List Nat → List Nat
  | [], _, res => res
  | (q0, q) :: rest, st, res => absOuter rest (absInner q0 q st res).1 (absInner q0 q st res).2

/-- `enumerate()` starting at `t` -/
def enumFrom' {α : Type} (t : Nat) (qs : List α) : List (Nat × α) := (List.range' t qs.length).zip qs

theorem enumFrom'_cons {α : Type} (t : Nat) (q : α) (qs : List α) :
    enumFrom' t (q :: qs) = (t, q) :: enumFrom' (t + 1) qs := by
  simp [enumFrom', List.range'_succ]

theorem enumL_eq {α : Type} (qs : List α) : enumL qs = enumFrom' 0 qs := by
  simp [enumL, enumFrom', List.range_eq_range']

/-- everything is emitted when every pending probability exceeds `q` -/
theorem absInner_all {α : Type} [RealLike α] (q0 : Nat) (q : α) (st : List α) (res : List Nat) (hne : st ≠ [])
    (hall : ∀ p ∈ st, RealLike.gt p q = true) :
    absInner q0 q st res = ([st.getLast hne], res ++ List.replicate st.length q0) := by
  induction st generalizing res with
  | nil => exact absurd rfl hne
  | cons p t ih =>
    cases t with
    | nil => simp [absInner, hall p (List.mem_cons_self ..)]
    | cons p' rest =>
      have hp := hall p (List.mem_cons_self ..)
      simp only [absInner, hp, if_true]
      rw [ih (res ++ [q0]) (by simp) (fun x hx => hall x (List.mem_cons_of_mem _ hx))]
      simp [List.replicate_succ, List.getLast_cons]

/-- when the last pending probability does not exceed `q` the loop is `dropWhile` -/
theorem absInner_keep {α : Type} [RealLike α] (q0 : Nat) (q : α) (st : List α) (res : List Nat) (hne : st ≠ [])
    (hlast : RealLike.gt (st.getLast hne) q = false) :
    absInner q0 q st res = (st.dropWhile (fun p => RealLike.gt p q),
      res ++ List.replicate (st.takeWhile (fun p => RealLike.gt p q)).length q0) := by
  induction st generalizing res with
  | nil => exact absurd rfl hne
  | cons p t ih =>
    cases t with
    | nil =>
      have : RealLike.gt p q = false := by simpa using hlast
      simp [absInner, this, List.dropWhile, List.takeWhile]
    | cons p' rest =>
      by_cases hp : RealLike.gt p q = true
      · simp only [absInner, hp, if_true]
        rw [ih (res ++ [q0]) (by simp) (by simpa [List.getLast_cons] using hlast)]
        simp [List.dropWhile_cons, List.takeWhile_cons, hp, List.replicate_succ]
      · have hp' : RealLike.gt p q = false := by simpa using hp
        simp [absInner, hp', List.dropWhile_cons, List.takeWhile_cons]

theorem take_succ_reverse {α : Type} [RealLike α] (ps : List α) (i : Nat) (hi : i < ps.length) :
    (ps.take (i + 1)).reverse = ps.getD i RealLike.nan :: (ps.take i).reverse := by
  rw [List.take_add_one, List.reverse_append]
  simp [List.getD_eq_getElem?_getD, List.getElem?_eq_getElem hi]

/-- the index loop of the code is the stack loop on `ps[0..=i]` reversed -/
theorem multiInner_abs {α : Type} [RealLike α] (ps : List α) (q0 : Nat) (q : α) (i : Nat) (res : List Nat)
    (hi : i < ps.length) :
    (multiInner ps q0 q (i + 1) i res).1 < ps.length ∧
    absInner q0 q (ps.take (i + 1)).reverse res
      = ((ps.take ((multiInner ps q0 q (i + 1) i res).1 + 1)).reverse, (multiInner ps q0 q (i + 1) i res).2) := by
  induction i generalizing res with
  | zero =>
    rw [take_succ_reverse ps 0 hi]
    simp only [List.take_zero, List.reverse_nil]
    by_cases hg : RealLike.gt (ps.getD 0 RealLike.nan) q = true
    · simp only [multiInner, absInner, hg, if_true, beq_self_eq_true]
      refine ⟨hi, ?_⟩
      rw [take_succ_reverse ps 0 hi]; simp
    · have hg' : RealLike.gt (ps.getD 0 RealLike.nan) q = false := by simpa using hg
      simp only [multiInner, absInner, hg', Bool.false_eq_true, if_false]
      refine ⟨hi, ?_⟩
      rw [take_succ_reverse ps 0 hi]; simp
  | succ i ih =>
    have hi' : i < ps.length := by omega
    rw [take_succ_reverse ps (i + 1) hi, take_succ_reverse ps i hi']
    by_cases hg : RealLike.gt (ps.getD (i + 1) RealLike.nan) q = true
    · obtain ⟨h1, h2⟩ := ih (res ++ [q0]) hi'
      rw [take_succ_reverse ps i hi'] at h2
      simp only [multiInner, absInner, hg, if_true, Nat.add_sub_cancel]
      have : ((i + 1 == 0) = false) := by simp
      simp only [this, Bool.false_eq_true, if_false]
      exact ⟨h1, h2⟩
    · have hg' : RealLike.gt (ps.getD (i + 1) RealLike.nan) q = false := by simpa using hg
      simp only [multiInner, absInner, hg', Bool.false_eq_true, if_false]
      refine ⟨hi, ?_⟩
      rw [take_succ_reverse ps (i + 1) hi, take_succ_reverse ps i hi']

theorem multiOuter_abs {α : Type} [RealLike α] (ps : List α) (qs : List (Nat × α)) (i : Nat) (res : List Nat)
    (hi : i < ps.length) :
    multiOuter ps qs i res = absOuter qs (ps.take (i + 1)).reverse res := by
  induction qs generalizing i res with
  | nil => rfl
  | cons x rest ih =>
    obtain ⟨q0, q⟩ := x
    obtain ⟨h1, h2⟩ := multiInner_abs ps q0 q i res hi
    simp only [multiOuter, absOuter]
    rw [ih _ _ h1, h2]

theorem gt_val (a b : R) : RealLike.gt a b = decide (b.val < a.val) := rfl

theorem sorted_ge_last (st : List R) (hne : st ≠ []) (hs : st.Pairwise (fun a b => b.val ≤ a.val)) :
    ∀ p ∈ st, (st.getLast hne).val ≤ p.val := by
  induction st with
  | nil => exact absurd rfl hne
  | cons a t ih =>
    cases t with
    | nil => intro p hp; simp at hp; subst hp; simp
    | cons b rest =>
      rw [List.pairwise_cons] at hs
      intro p hp
      rw [List.getLast_cons (by simp)]
      rcases List.mem_cons.mp hp with rfl | hp
      · exact hs.1 _ (List.getLast_mem _)
      · exact ih (by simp) hs.2 p hp

theorem dropWhile_last (st : List R) (f : R → Bool) (hne : st ≠ []) (hl : f (st.getLast hne) = false) :
    ∃ h : st.dropWhile f ≠ [], (st.dropWhile f).getLast h = st.getLast hne := by
  induction st with
  | nil => exact absurd rfl hne
  | cons a t ih =>
    by_cases ha : f a = true
    · have ht : t ≠ [] := by
        intro e; subst e; simp at hl; rw [hl] at ha; cases ha
      rw [List.getLast_cons ht] at hl
      obtain ⟨h, e⟩ := ih ht hl
      simp only [List.dropWhile_cons, ha, if_true]
      exact ⟨h, by rw [e, List.getLast_cons ht]⟩
    · have ha' : f a = false := by simpa using ha
      simp only [List.dropWhile_cons, ha', Bool.false_eq_true, if_false]
      exact ⟨List.cons_ne_nil _ _, trivial⟩

theorem dropWhile_all_le (st : List R) (q : R) (hs : st.Pairwise (fun a b => b.val ≤ a.val)) :
    ∀ p ∈ st.dropWhile (fun p => RealLike.gt p q), ¬ q.val < p.val := by
  induction st with
  | nil => simp
  | cons a t ih =>
    rw [List.pairwise_cons] at hs
    by_cases ha : RealLike.gt a q = true
    · simp only [List.dropWhile_cons, ha, if_true]
      exact ih hs.2
    · have ha' : RealLike.gt a q = false := by simpa using ha
      simp only [List.dropWhile_cons, ha', Bool.false_eq_true, if_false]
      have haq : ¬ q.val < a.val := by simpa [gt_val] using ha'
      intro p hp
      rcases List.mem_cons.mp hp with rfl | hp
      · exact haq
      · have := hs.1 p hp
        linarith

theorem idxBelow_cons_lt (p q : R) (qs : List R) (h : q.val < p.val) : idxBelow p (q :: qs) = 0 := by
  have : RealLike.lt q p = true := by simpa using h
  simp [idxBelow, this]

theorem idxBelow_cons_ge (p q : R) (qs : List R) (h : ¬ q.val < p.val) :
    idxBelow p (q :: qs) = idxBelow p qs + 1 := by
  have : RealLike.lt q p = false := by simpa using h
  simp [idxBelow, this]

/-- the stack loop over a minimal materialisation emits, for every pending probability, the index of the first
    remaining ccdf value below it -/
theorem absOuter_spec (qs : List R) (t : Nat) (st : List R) (res : List Nat)
    (hne : st ≠ []) (hs : st.Pairwise (fun a b => b.val ≤ a.val)) (hq : qs ≠ [])
    (hmin : ∀ q ∈ qs.dropLast, ¬ q.val < (st.getLast hne).val)
    (hlast : (qs.getLast hq).val < (st.getLast hne).val) :
    absOuter (enumFrom' t qs) st res = res ++ st.map (fun p => t + idxBelow p qs) := by
  induction qs generalizing t st res with
  | nil => exact absurd rfl hq
  | cons q rest ih =>
    cases rest with
    | nil =>
      simp only [List.getLast_singleton] at hlast
      have hall : ∀ p ∈ st, RealLike.gt p q = true := by
        intro p hp
        have := sorted_ge_last st hne hs p hp
        simp only [gt_val, decide_eq_true_eq]; linarith
      simp only [enumFrom'_cons, absOuter]
      rw [show enumFrom' (t + 1) ([] : List R) = [] from rfl]
      simp only [absOuter, absInner_all t q st res hne hall]
      congr 1
      symm
      rw [List.eq_replicate_iff]
      refine ⟨by simp, ?_⟩
      intro b hb
      obtain ⟨p, hp, rfl⟩ := List.mem_map.mp hb
      have := hall p hp
      simp only [gt_val, decide_eq_true_eq] at this
      rw [idxBelow_cons_lt p q [] this]
      rfl
    | cons q2 rest2 =>
      have hq0 : ¬ q.val < (st.getLast hne).val := hmin q (by simp [List.dropLast])
      have hkeep : RealLike.gt (st.getLast hne) q = false := by simpa [gt_val] using hq0
      obtain ⟨hne', hlast'⟩ := dropWhile_last st (fun p => RealLike.gt p q) hne hkeep
      rw [enumFrom'_cons, absOuter, absInner_keep t q st res hne hkeep]
      simp only
      rw [ih (t + 1) (st.dropWhile (fun p => RealLike.gt p q)) _ hne'
        (hs.sublist (List.dropWhile_sublist _)) (by simp)
        (by
          intro x hx
          rw [hlast']
          exact hmin x (by simp only [List.dropLast_cons_cons]; exact List.mem_cons_of_mem _ hx))
        (by rw [hlast']; simpa [List.getLast_cons] using hlast)]
      rw [List.append_assoc]
      congr 1
      conv_rhs => rw [← List.takeWhile_append_dropWhile (p := fun p => RealLike.gt p q) (l := st)]
      rw [List.map_append]
      congr 1
      · symm
        rw [List.eq_replicate_iff]
        refine ⟨by simp, ?_⟩
        intro b hb
        obtain ⟨p, hp, rfl⟩ := List.mem_map.mp hb
        have := (List.all_eq_true.mp (List.all_takeWhile (l := st) (p := fun p => RealLike.gt p q))) p hp
        simp only [gt_val, decide_eq_true_eq] at this
        rw [idxBelow_cons_lt p q _ this]
        rfl
      · apply List.map_congr_left
        intro p hp
        rw [idxBelow_cons_ge p q _ (dropWhile_all_le st q hs p hp)]
        omega

theorem idxBelow_spec (p : R) (qs : List R) (h : ∃ q ∈ qs, q.val < p.val) :
    idxBelow p qs < qs.length ∧ (∃ q, qs[idxBelow p qs]? = some q ∧ q.val < p.val) ∧
      ∀ i, i < idxBelow p qs → ∀ q, qs[i]? = some q → ¬ q.val < p.val := by
  induction qs with
  | nil => obtain ⟨q, hq, _⟩ := h; cases hq
  | cons a t ih =>
    by_cases ha : a.val < p.val
    · rw [idxBelow_cons_lt p a t ha]
      exact ⟨by simp, ⟨a, by simp, ha⟩, fun i hi => by omega⟩
    · rw [idxBelow_cons_ge p a t ha]
      obtain ⟨q, hq, hqp⟩ := h
      have hq' : q ∈ t := by
        rcases List.mem_cons.mp hq with rfl | hq
        · exact absurd hqp ha
        · exact hq
      obtain ⟨h1, ⟨q', hq1, hq2⟩, h3⟩ := ih ⟨q, hq', hqp⟩
      refine ⟨by simp; omega, ⟨q', by simpa using hq1, hq2⟩, ?_⟩
      intro i hi x hx
      cases i with
      | zero => simp at hx; subst hx; exact ha
      | succ i => exact h3 i (by omega) x (by simpa using hx)

/-- `invccdf` in terms of the index of the first materialised ccdf value below `p` -/
theorem invccdf_eq_idx (c : Nat → R) (p : R) (m fuel : Nat) (h0 : ¬ (c 0).val < p.val)
    (hex : (c m).val < p.val) (hf : m ≤ fuel) (hf64 : fuel < 2 ^ 64) :
    Sbd.invccdf c fuel p = some (idxBelow p ((List.range m).map (fun i => c (i + 1)))) := by
  have hm : 1 ≤ m := by
    by_contra hc
    have : m = 0 := by omega
    subst this; exact h0 hex
  have hmem : ∃ q ∈ (List.range m).map (fun i => c (i + 1)), q.val < p.val :=
    ⟨c m, List.mem_map.mpr ⟨m - 1, by simp; omega, by congr 1; omega⟩, hex⟩
  obtain ⟨h1, ⟨q, hq1, hq2⟩, h3⟩ := idxBelow_spec p _ hmem
  simp only [List.length_map, List.length_range] at h1
  set k := idxBelow p ((List.range m).map (fun i => c (i + 1))) with hk
  have hqk : q = c (k + 1) := by
    rw [List.getElem?_map, List.getElem?_range h1] at hq1
    simpa using hq1.symm
  have := firstBelow_of_isFirst c p fuel 0 (k + 1) (by rw [R.lt_iff, ← hqk]; exact hq2)
    (fun i _ hi => by
      rw [R.lt_false_iff]
      cases i with
      | zero => exact h0
      | succ i =>
        apply h3 i (by omega) (c (i + 1))
        rw [List.getElem?_map, List.getElem?_range (by omega)]
        rfl)
    (Nat.zero_le _) (by omega)
  simp only [Sbd.invccdf, this, Option.map_some]
  rw [subOneWrap_pos _ (by omega) (by omega)]
  rfl

theorem sinv_last {α : Type} [RealLike α] (breaks : Nat → α) (s : S α) (h : SInv breaks s) :
    s.ccdf.getLastD RealLike.nan = ccdfFn breaks s.drawn := by
  have hl := sinv_length breaks s h
  rw [List.getLastD_eq_getLast?, List.getLast?_eq_getElem?, hl]
  simp only [Nat.add_sub_cancel]
  rw [sinv_get? breaks s h _ (by omega)]; rfl

/-- `extend_until(last < p)` stops at the FIRST index whose ccdf is below `p` (among those not yet materialised) -/
theorem extendUntil_min {α : Type} [RealLike α] (breaks : Nat → α) (p : α) (fuel : Nat) (s s' : S α)
    (h : SInv breaks s)
    (he : extendUntil breaks (fun cs => RealLike.lt (cs.getLastD RealLike.nan) p) fuel s = some s') :
    s'.drawn ≤ s.drawn + fuel ∧ ∀ i, s.drawn ≤ i → i < s'.drawn → RealLike.lt (ccdfFn breaks i) p = false := by
  induction fuel generalizing s with
  | zero =>
    simp only [extendUntil] at he
    split at he
    · injection he with he; subst he; exact ⟨by omega, fun i h1 h2 => by omega⟩
    · cases he
  | succ fuel ih =>
    simp only [extendUntil] at he
    split at he
    · injection he with he; subst he; exact ⟨by omega, fun i h1 h2 => by omega⟩
    · rename_i hpred
      obtain ⟨h1, h2⟩ := ih (extend breaks s) (sinv_extend breaks s h) he
      have hd : (extend breaks s).drawn = s.drawn + 1 := rfl
      refine ⟨by omega, ?_⟩
      intro i hi1 hi2
      by_cases e : i = s.drawn
      · subst e
        rw [sinv_last breaks s h] at hpred
        simpa using hpred
      · exact h2 i (by omega) hi2

end C19
