import RvModel.RealInst
import RvModel.Hand.Stick
/-!
  Lemmas.C19Stick — the prefix invariant of the stick-sequence state machine (`SInv`: the stored vector is the
  prefix of the fixed stream), what each request must return (`Expected`), and list helper lemmas used by
  `Props/C19B.lean`.
-/
set_option linter.unusedVariables false
set_option linter.unusedSimpArgs false

namespace C19
open Hand.Stick Hand.Stick.Sbd



/-- the stored vector is the prefix of the fixed stream: `ccdf = [c 0, …, c drawn]` -/
def SInv {α : Type} [RealLike α] (breaks : Nat → α) (s : S α) : Prop :=
  s.ccdf = (List.range (s.drawn + 1)).map (ccdfFn breaks)

theorem sinv_init {α : Type} [RealLike α] (breaks : Nat → α) : SInv breaks (init : S α) := by
  simp [SInv, init, ccdfFn]

theorem sinv_length {α : Type} [RealLike α] (breaks : Nat → α) (s : S α) (h : SInv breaks s) :
    s.ccdf.length = s.drawn + 1 := by rw [h]; simp

theorem sinv_getD {α : Type} [RealLike α] (breaks : Nat → α) (s : S α) (h : SInv breaks s) (i : Nat)
    (hi : i < s.ccdf.length) : s.ccdf.getD i RealLike.nan = ccdfFn breaks i := by
  have hl := sinv_length breaks s h
  rw [h]
  simp only [List.getD_eq_getElem?_getD]
  rw [List.getElem?_map, List.getElem?_range (by omega)]
  rfl

theorem sinv_get? {α : Type} [RealLike α] (breaks : Nat → α) (s : S α) (h : SInv breaks s) (i : Nat)
    (hi : i < s.ccdf.length) : s.ccdf[i]? = some (ccdfFn breaks i) := by
  have hl := sinv_length breaks s h
  rw [h, List.getElem?_map, List.getElem?_range (by omega)]
  rfl

theorem sinv_extend {α : Type} [RealLike α] (breaks : Nat → α) (s : S α) (h : SInv breaks s) :
    SInv breaks (extend breaks s) := by
  have hl := sinv_length breaks s h
  have hlast : s.ccdf.getLastD RealLike.nan = ccdfFn breaks s.drawn := by
    rw [List.getLastD_eq_getLast?, List.getLast?_eq_getElem?, hl]
    simp only [Nat.add_sub_cancel]
    rw [sinv_get? breaks s h _ (by omega)]; rfl
  simp only [SInv, extend, hlast]
  rw [List.range_succ, List.map_append, ← h]
  simp [ccdfFn]

theorem extendN_spec {α : Type} [RealLike α] (breaks : Nat → α) (n : Nat) (s : S α) (h : SInv breaks s) :
    SInv breaks (extendN breaks n s) ∧ (extendN breaks n s).drawn = s.drawn + n := by
  induction n generalizing s with
  | zero => exact ⟨h, rfl⟩
  | succ n ih =>
    obtain ⟨h1, h2⟩ := ih (extend breaks s) (sinv_extend breaks s h)
    refine ⟨h1, ?_⟩
    rw [extendN, h2]
    show s.drawn + 1 + n = s.drawn + (n + 1)
    omega

theorem ensure_spec {α : Type} [RealLike α] (breaks : Nat → α) (n : Nat) (s : S α) (h : SInv breaks s) :
    SInv breaks (ensureBreaks breaks n s) ∧ (ensureBreaks breaks n s).drawn = Nat.max s.drawn n := by
  have hl := sinv_length breaks s h
  obtain ⟨h1, h2⟩ := extendN_spec breaks (n + 1 - s.ccdf.length) s h
  refine ⟨h1, ?_⟩
  rw [ensureBreaks, h2, hl]
  simp only [Nat.max_def]; split <;> omega

theorem scan_weights {α : Type} [RealLike α] (c : Nat → α) (m k : Nat) (x : α) :
    (scanL (fun (st : α × α) (p : α) => (p, st.1 - p)) (c k, x)
        ((List.range m).map (fun i => c (k + 1 + i)))).map Prod.snd
      = (List.range m).map (fun i => c (k + i) - c (k + i + 1)) := by
  induction m generalizing k x with
  | zero => simp [scanL]
  | succ m ih =>
    rw [List.range_succ_eq_map]
    simp only [List.map_cons, List.map_map, scanL, Nat.add_zero]
    congr 1
    have := ih (k + 1) (c k - c (k + 1))
    have e1 : ((fun i => c (k + 1 + i)) ∘ Nat.succ) = (fun i => c (k + 1 + 1 + i)) := by
      funext i; simp only [Function.comp]; congr 1; omega
    have e2 : ((fun i => c (k + i) - c (k + i + 1)) ∘ Nat.succ) = (fun i => c (k + 1 + i) - c (k + 1 + i + 1)) := by
      funext i; simp only [Function.comp]
      have : k + i.succ = k + 1 + i := by omega
      rw [this]
    rw [e1, e2]
    exact this

theorem weightsOf_spec {α : Type} [RealLike α] (breaks : Nat → α) (s : S α) (h : SInv breaks s) :
    weightsOf s.ccdf = (List.range s.drawn).map (weightFn breaks) := by
  rw [h, weightsOf, List.range_succ_eq_map]
  simp only [List.map_cons, List.drop_succ_cons, List.drop_zero, List.map_map]
  have := scan_weights (ccdfFn breaks) s.drawn 0 (0.0 : α)
  simp only [Nat.zero_add] at this
  have e : (ccdfFn breaks ∘ Nat.succ) = (fun i => ccdfFn breaks (1 + i)) := by
    funext i; simp only [Function.comp]; congr 1; omega
  rw [e]
  exact this

theorem extendUntil_spec {α : Type} [RealLike α] (breaks : Nat → α) (pred : List α → Bool) (fuel : Nat)
    (s s' : S α) (h : SInv breaks s) (he : extendUntil breaks pred fuel s = some s') :
    SInv breaks s' ∧ pred s'.ccdf = true ∧ s.drawn ≤ s'.drawn := by
  induction fuel generalizing s with
  | zero =>
    simp only [extendUntil] at he
    split at he
    · injection he with he; subst he; exact ⟨h, by assumption, le_refl _⟩
    · cases he
  | succ fuel ih =>
    simp only [extendUntil] at he
    split at he
    · injection he with he; subst he; exact ⟨h, by assumption, le_refl _⟩
    · obtain ⟨h1, h2, h3⟩ := ih (extend breaks s) (sinv_extend breaks s h) he
      refine ⟨h1, h2, ?_⟩
      have : (extend breaks s).drawn = s.drawn + 1 := rfl
      omega

theorem positionBelow_some {α : Type} [RealLike α] (p : α) (l : List α) (start j : Nat)
    (h : positionBelow p l start = some j) :
    start ≤ j ∧ (∃ q, l[j - start]? = some q ∧ RealLike.lt q p = true) ∧
      ∀ i, i < j - start → ∀ q, l[i]? = some q → RealLike.lt q p = false := by
  induction l generalizing start with
  | nil => simp [positionBelow] at h
  | cons x xs ih =>
    simp only [positionBelow] at h
    split at h
    · injection h with h; subst h
      refine ⟨le_refl _, ⟨x, by simp, by assumption⟩, ?_⟩
      intro i hi; omega
    · rename_i hx
      obtain ⟨h1, ⟨q, hq1, hq2⟩, h3⟩ := ih (start + 1) h
      have e : j - start = (j - (start + 1)) + 1 := by omega
      refine ⟨by omega, ⟨q, by rw [e]; simpa using hq1, hq2⟩, ?_⟩
      intro i hi q' hq'
      cases i with
      | zero => simp at hq'; subst hq'; simpa using hx
      | succ i =>
        simp only [List.getElem?_cons_succ] at hq'
        exact h3 i (by omega) q' hq'

theorem positionBelow_none {α : Type} [RealLike α] (p : α) (l : List α) (start : Nat)
    (h : positionBelow p l start = none) : ∀ q ∈ l, RealLike.lt q p = false := by
  induction l generalizing start with
  | nil => simp
  | cons x xs ih =>
    simp only [positionBelow] at h
    split at h
    · cases h
    · rename_i hx
      intro q hq
      simp only [List.mem_cons] at hq
      rcases hq with rfl | hq
      · simpa using hx
      · exact ih (start + 1) h q hq

/-- `j` is the first index whose ccdf is below `p` -/
def IsFirstBelow {α : Type} [RealLike α] (c : Nat → α) (p : α) (j : Nat) : Prop :=
  RealLike.lt (c j) p = true ∧ ∀ i, i < j → RealLike.lt (c i) p = false

/-- what a request must return: a function of the break stream only -/
def Expected {α : Type} [RealLike α] (breaks : Nat → α) : Req α → Ans α → Prop
  | .ensure _, a => a = .unit
  | .ccdf n, a => a = .val (ccdfFn breaks n)
  | .weight n, a => a = .val (weightFn breaks n)
  | .sf x, a => a = .val (ccdfFn breaks (x + 1))
  | .cdf x, a => a = .val ((1.0 : α) - ccdfFn breaks (x + 1))
  | .weights n, a => ∃ m, n ≤ m ∧ a = .vals ((List.range m).map (weightFn breaks))
  | .numWeights, _ => True
  | .invccdf p, a => a = .hang ∨ ∃ j, IsFirstBelow (ccdfFn breaks) p j ∧ a = .nat (subOneWrap j)
  | .multi _ _, _ => True
  | .push _, _ => True

def NoPush {α : Type} : Req α → Prop
  | .push _ => False
  | _ => True



theorem one_valS : ((1.0 : R)).val = 1 := by
  show (OfScientific.ofScientific 10 true 1 : ℝ) = 1; norm_num

theorem lt_val (a b : R) : RealLike.lt a b = decide (a.val < b.val) := rfl

/-- breaks strictly inside the unit interval (what `UnitPowerLaw::draw` returns almost surely) -/
def UnitBreaks (breaks : Nat → R) : Prop := ∀ i, 0 < (breaks i).val ∧ (breaks i).val < 1

theorem ccdf_zero_val (breaks : Nat → R) : (ccdfFn breaks 0).val = 1 := one_valS

theorem ccdf_succ_val (breaks : Nat → R) (n : Nat) :
    (ccdfFn breaks (n + 1)).val = (ccdfFn breaks n).val * (breaks n).val := rfl

theorem firstBelow_some {α : Type} [RealLike α] (c : Nat → α) (p : α) (fuel start j : Nat)
    (h : firstBelow c p fuel start = some j) :
    start ≤ j ∧ j ≤ start + fuel ∧ RealLike.lt (c j) p = true ∧
      ∀ i, start ≤ i → i < j → RealLike.lt (c i) p = false := by
  induction fuel generalizing start with
  | zero =>
    simp only [firstBelow] at h
    split at h
    · injection h with h; subst h
      exact ⟨le_refl _, by omega, by assumption, fun i h1 h2 => by omega⟩
    · cases h
  | succ fuel ih =>
    simp only [firstBelow] at h
    split at h
    · injection h with h; subst h
      exact ⟨le_refl _, by omega, by assumption, fun i h1 h2 => by omega⟩
    · rename_i hx
      obtain ⟨h1, h2, h3, h4⟩ := ih (start + 1) h
      refine ⟨by omega, by omega, h3, ?_⟩
      intro i hi1 hi2
      by_cases e : i = start
      · subst e; simpa using hx
      · exact h4 i (by omega) hi2

theorem firstBelow_of_isFirst {α : Type} [RealLike α] (c : Nat → α) (p : α) (fuel start j : Nat)
    (hlt : RealLike.lt (c j) p = true) (hmin : ∀ i, start ≤ i → i < j → RealLike.lt (c i) p = false)
    (h1 : start ≤ j) (h2 : j ≤ start + fuel) : firstBelow c p fuel start = some j := by
  induction fuel generalizing start with
  | zero =>
    have : j = start := by omega
    subst this
    simp [firstBelow, hlt]
  | succ fuel ih =>
    simp only [firstBelow]
    by_cases e : j = start
    · subst e; simp [hlt]
    · have := hmin start (le_refl _) (by omega)
      simp only [this, Bool.false_eq_true, if_false]
      exact ih (start + 1) (fun i hi1 hi2 => hmin i (by omega) hi2) (by omega) (by omega)

theorem subOneWrap_pos (j : Nat) (h1 : 1 ≤ j) (h2 : j ≤ 2 ^ 64) : subOneWrap j = j - 1 := by
  simp only [subOneWrap, wrapNat]
  have : j + 2 ^ 64 - 1 = (j - 1) + 2 ^ 64 := by omega
  rw [this, Nat.add_mod_right, Nat.mod_eq_of_lt (by omega)]

theorem subOneWrap_zero : subOneWrap 0 = 2 ^ 64 - 1 := by decide

theorem mstep_spec {α : Type} [RealLike α] (breaks : Nat → α) (s : S α) (o : MOp) (h : SInv breaks s) :
    SInv breaks (mstep breaks s o).2 ∧ s.drawn ≤ (mstep breaks s o).2.drawn := by
  cases o with
  | ensure n =>
    obtain ⟨h1, h2⟩ := ensure_spec breaks n s h
    exact ⟨h1, by show s.drawn ≤ (ensureBreaks breaks n s).drawn; rw [h2]; exact Nat.le_max_left _ _⟩
  | readCcdf n => exact ⟨h, le_refl _⟩
  | readWeight n => exact ⟨h, le_refl _⟩

theorem mrun_spec {α : Type} [RealLike α] (breaks : Nat → α) (os : List MOp) (s : S α) (h : SInv breaks s) :
    SInv breaks (mrun breaks s os) ∧ s.drawn ≤ (mrun breaks s os).drawn := by
  induction os generalizing s with
  | nil => exact ⟨h, le_refl _⟩
  | cons o os ih =>
    obtain ⟨h1, h2⟩ := mstep_spec breaks s o h
    obtain ⟨h3, h4⟩ := ih _ h1
    exact ⟨h3, le_trans h2 h4⟩

end C19
