import RvModel.Hand.Legendre
import Mathlib.Algebra.Order.Field.Rat
import Mathlib.Algebra.Order.Ring.Abs
import Mathlib.Tactic.Ring
import Mathlib.Tactic.Linarith
import Mathlib.Analysis.SpecialFunctions.Integrals.Basic
/-!
  Helper lemmas for Props/C14A.lean: linearity of the quadrature sum of `Hand.Legendre`
  (`unitQuadCached`), and the lift from monomials to polynomials given as coefficient lists.
-/
namespace C14L
open Hand.Legendre

theorem foldl_add_acc (l : List Rat) (a : Rat) : l.foldl (· + ·) a = a + l.foldl (· + ·) 0 := by
  induction l generalizing a with
  | nil => simp
  | cons x xs ih =>
    simp only [List.foldl_cons]
    rw [ih (a + x), ih (0 + x)]
    ring

/-- the quadrature sum over an explicit list of (weight, root) pairs -/
def Q (f : Rat → Rat) (ps : List (Rat × Rat)) : Rat :=
  (ps.map fun (wx : Rat × Rat) => wx.1 * f wx.2).foldl (· + ·) 0

theorem unitQuadCached_eq_Q (f : Rat → Rat) (W X : List Rat) : unitQuadCached f W X = Q f (W.zip X) := rfl

theorem Q_nil (f : Rat → Rat) : Q f [] = 0 := rfl

theorem Q_cons (f : Rat → Rat) (p : Rat × Rat) (ps : List (Rat × Rat)) :
    Q f (p :: ps) = p.1 * f p.2 + Q f ps := by
  unfold Q
  simp only [List.map_cons, List.foldl_cons]
  rw [foldl_add_acc]
  ring

theorem Q_zero (ps : List (Rat × Rat)) : Q (fun _ => 0) ps = 0 := by
  induction ps with
  | nil => rfl
  | cons p ps ih => rw [Q_cons, ih]; ring

theorem Q_lin (g h : Rat → Rat) (a : Rat) (ps : List (Rat × Rat)) :
    Q (fun x => a * g x + h x) ps = a * Q g ps + Q h ps := by
  induction ps with
  | nil => simp [Q_nil]
  | cons p ps ih => rw [Q_cons, Q_cons, Q_cons, ih]; ring

theorem Q_smul (g : Rat → Rat) (a : Rat) (ps : List (Rat × Rat)) :
    Q (fun x => a * g x) ps = a * Q g ps := by
  induction ps with
  | nil => simp [Q_nil]
  | cons p ps ih => rw [Q_cons, Q_cons, ih]; ring

theorem absSum_cons (a : Rat) (cs : List Rat) : absSum (a :: cs) = |a| + absSum cs := by
  show (if a < 0 then -a else a) + absSum cs = |a| + absSum cs
  split_ifs with h
  · rw [abs_of_neg h]
  · rw [abs_of_nonneg (not_lt.mp h)]

theorem absSum_nonneg (cs : List Rat) : 0 ≤ absSum cs := by
  induction cs with
  | nil => simp [absSum]
  | cons a cs ih => rw [absSum_cons]; have := abs_nonneg a; linarith

/-- lift from monomials to polynomials: if every monomial `x^j`, `k ≤ j < k + |c|`, is integrated within `eps`
    by the pair list `ps`, the polynomial `Σ c[j] x^(k+j)` is integrated within `eps · Σ|c[j]|`. -/
theorem Q_poly (ps : List (Rat × Rat)) (eps : Rat) (c : List Rat) (k : Nat)
    (h : ∀ j, k ≤ j → j < k + c.length → |Q (fun x => x ^ j) ps - monoInt j| ≤ eps) :
    |Q (polyEvalFrom k c) ps - polyIntFrom k c| ≤ eps * absSum c := by
  induction c generalizing k with
  | nil =>
    have : polyEvalFrom k [] = fun _ => 0 := by funext x; rfl
    rw [this, Q_zero]; simp [polyIntFrom, absSum]
  | cons a cs ih =>
    have hf : polyEvalFrom k (a :: cs) = fun x => a * (fun x => x ^ k) x + polyEvalFrom (k + 1) cs x := by
      funext x; rfl
    rw [hf, Q_lin, absSum_cons]
    have h1 := h k (le_refl k) (by simp)
    have h2 := ih (k + 1) (fun j hj hj' => h j (by omega) (by simp only [List.length_cons]; omega))
    have e : a * Q (fun x => x ^ k) ps + Q (polyEvalFrom (k + 1) cs) ps - polyIntFrom k (a :: cs)
        = a * (Q (fun x => x ^ k) ps - monoInt k) + (Q (polyEvalFrom (k + 1) cs) ps - polyIntFrom (k + 1) cs) := by
      simp only [polyIntFrom]; ring
    rw [e]
    calc |a * (Q (fun x => x ^ k) ps - monoInt k) + (Q (polyEvalFrom (k + 1) cs) ps - polyIntFrom (k + 1) cs)|
        ≤ |a * (Q (fun x => x ^ k) ps - monoInt k)| + |Q (polyEvalFrom (k + 1) cs) ps - polyIntFrom (k + 1) cs| :=
          abs_add_le _ _
      _ ≤ |a| * eps + eps * absSum cs := by
          rw [abs_mul]
          exact add_le_add (mul_le_mul_of_nonneg_left h1 (abs_nonneg a)) h2
      _ = eps * (|a| + absSum cs) := by ring

/-- `monoInt k` is the exact integral of the monomial over `[-1, 1]`. -/
theorem monoInt_eq_integral (k : Nat) : ((monoInt k : Rat) : ℝ) = ∫ x in (-1 : ℝ)..1, x ^ k := by
  rw [integral_pow]
  unfold monoInt
  rcases Nat.even_or_odd k with hk | hk
  · have h0 : k % 2 = 0 := Nat.even_iff.mp hk
    have h1 : ((-1 : ℝ)) ^ (k + 1) = -1 := (hk.add_one).neg_one_pow
    rw [if_pos h0, h1]
    push_cast
    norm_num
  · have h0 : ¬ k % 2 = 0 := by have := Nat.odd_iff.mp hk; omega
    have h1 : ((-1 : ℝ)) ^ (k + 1) = 1 := (hk.add_one).neg_one_pow
    rw [if_neg h0, h1]
    simp

/-- the real polynomial `x ↦ Σⱼ c[j]·x^(k+j)` with rational coefficients -/
noncomputable def polyEvalR : ℕ → List ℚ → ℝ → ℝ
  | _, [], _ => 0
  | k, a :: cs, x => (a : ℝ) * x ^ k + polyEvalR (k + 1) cs x

theorem polyEvalR_continuous (k : ℕ) (c : List ℚ) : Continuous (polyEvalR k c) := by
  induction c generalizing k with
  | nil => exact continuous_const
  | cons a cs ih =>
    have : polyEvalR k (a :: cs) = fun x => (a : ℝ) * x ^ k + polyEvalR (k + 1) cs x := by funext x; rfl
    rw [this]
    exact (continuous_const.mul (continuous_pow k)).add (ih (k + 1))

/-- the rational polynomial of `Hand.Legendre` is the restriction of the real one -/
theorem polyEvalFrom_cast (k : ℕ) (c : List ℚ) (q : ℚ) :
    ((polyEvalFrom k c q : ℚ) : ℝ) = polyEvalR k c (q : ℝ) := by
  induction c generalizing k with
  | nil => simp [polyEvalFrom, polyEvalR]
  | cons a cs ih =>
    show ((a * q ^ k + polyEvalFrom (k + 1) cs q : ℚ) : ℝ) = (a : ℝ) * (q : ℝ) ^ k + polyEvalR (k + 1) cs (q : ℝ)
    rw [← ih (k + 1)]
    push_cast
    ring

/-- `polyIntFrom k c` is the exact integral of the polynomial over `[-1, 1]` -/
theorem polyIntFrom_eq_integral (k : ℕ) (c : List ℚ) :
    ((polyIntFrom k c : ℚ) : ℝ) = ∫ x in (-1 : ℝ)..1, polyEvalR k c x := by
  induction c generalizing k with
  | nil =>
    have : polyEvalR k [] = fun _ => (0 : ℝ) := by funext x; rfl
    rw [this]; simp [polyIntFrom]
  | cons a cs ih =>
    have i1 : IntervalIntegrable (fun x : ℝ => (a : ℝ) * x ^ k) MeasureTheory.volume (-1) 1 :=
      (continuous_const.mul (continuous_pow k)).intervalIntegrable _ _
    have i2 : IntervalIntegrable (fun x : ℝ => polyEvalR (k + 1) cs x) MeasureTheory.volume (-1) 1 :=
      (polyEvalR_continuous (k + 1) cs).intervalIntegrable _ _
    show ((a * monoInt k + polyIntFrom (k + 1) cs : ℚ) : ℝ) =
      ∫ x in (-1 : ℝ)..1, ((a : ℝ) * x ^ k + polyEvalR (k + 1) cs x)
    rw [intervalIntegral.integral_add i1 i2, intervalIntegral.integral_const_mul, ← ih (k + 1),
      ← monoInt_eq_integral]
    push_cast
    ring

end C14L
