import RvModel.RealInst
import RvModel.Gen.Defs
import RvModel.Hand.Ks
import RvModel.Hand.Empirical
import RvModel.Spec.C20
import Mathlib.Tactic.NormNum.OfScientific
import Mathlib.Data.List.Sort
import Mathlib.Tactic.FieldSimp
import Mathlib.Algebra.Order.Floor.Semifield
import Mathlib.Data.Rat.Floor
import Mathlib.Algebra.BigOperators.Group.List.Basic
/-!
  Helper lemmas for Props/C20A.lean: the sort on `R`, running maxima, the contract of `bsearch`, counting on sorted lists.
-/
open Real

namespace C20L

/-! ### literals -/
theorem zero_val : ((0.0 : R)).val = 0 := by rw [R.sci_val]; norm_num
theorem one_val : ((1.0 : R)).val = 1 := by rw [R.sci_val]; norm_num

/-! ### the sort on `R` -/

theorem sortR_perm (xs : List R) : (Hand.sortR xs).Perm xs := List.mergeSort_perm _ _

theorem sortR_length (xs : List R) : (Hand.sortR xs).length = xs.length := (sortR_perm xs).length_eq

theorem sortR_sorted (xs : List R) : (Hand.sortR xs).Pairwise (fun a b => a.val ≤ b.val) := by
  have h := List.pairwise_mergeSort (le := fun a b : R => RealLike.le a b)
    (by intro a b c hab hbc; simp only [R.le_iff] at *; exact le_trans hab hbc)
    (by intro a b; simp only [Bool.or_eq_true, R.le_iff]; exact le_total _ _) xs
  exact h.imp (by intro a b hab; simpa using hab)

/-- the sorted list depends only on the multiset of the sample -/
theorem sortR_eq_of_perm {xs ys : List R} (h : xs.Perm ys) : Hand.sortR xs = Hand.sortR ys := by
  apply List.Perm.eq_of_pairwise (le := fun a b : R => a.val ≤ b.val)
  · intro a b _ _ hab hba; exact R.ext' (le_antisymm hab hba)
  · exact sortR_sorted xs
  · exact sortR_sorted ys
  · exact (sortR_perm xs).trans (h.trans (sortR_perm ys).symm)

theorem sortR_of_sorted {xs : List R} (h : xs.Pairwise (fun a b => a.val ≤ b.val)) : Hand.sortR xs = xs := by
  apply List.mergeSort_of_pairwise
  exact h.imp (by intro a b hab; simpa using hab)

/-! ### running maxima -/

/-- `max` of `a` and of `f` over the list, as the left fold the code performs -/
def fmax {β : Type} (f : β → ℝ) (l : List β) (a : ℝ) : ℝ := l.foldl (fun m x => max m (f x)) a

theorem fmax_nil {β : Type} (f : β → ℝ) (a : ℝ) : fmax f [] a = a := rfl
theorem fmax_cons {β : Type} (f : β → ℝ) (x : β) (l : List β) (a : ℝ) :
    fmax f (x :: l) a = fmax f l (max a (f x)) := rfl

theorem fmax_mono {β : Type} (f g : β → ℝ) (l : List β) (a b : ℝ) (hfg : ∀ x ∈ l, f x ≤ g x) (hab : a ≤ b) :
    fmax f l a ≤ fmax g l b := by
  induction l generalizing a b with
  | nil => simpa [fmax]
  | cons x l ih =>
    rw [fmax_cons, fmax_cons]
    exact ih _ _ (fun y hy => hfg y (List.mem_cons_of_mem _ hy))
      (max_le_max hab (hfg x (List.mem_cons_self ..)))

theorem fmax_max {β : Type} (f g : β → ℝ) (l : List β) (a b : ℝ) :
    fmax (fun x => max (f x) (g x)) l (max a b) = max (fmax f l a) (fmax g l b) := by
  induction l generalizing a b with
  | nil => rfl
  | cons x l ih =>
    rw [fmax_cons, fmax_cons, fmax_cons, ← ih]
    congr 1
    exact max_max_max_comm _ _ _ _

theorem le_fmax_init {β : Type} (f : β → ℝ) (l : List β) (a : ℝ) : a ≤ fmax f l a := by
  induction l generalizing a with
  | nil => exact le_refl _
  | cons x l ih => rw [fmax_cons]; exact le_trans (le_max_left _ _) (ih _)

theorem le_fmax_of_mem {β : Type} (f : β → ℝ) (l : List β) (a : ℝ) (x : β) (hx : x ∈ l) : f x ≤ fmax f l a := by
  induction l generalizing a with
  | nil => simp at hx
  | cons y l ih =>
    rw [fmax_cons]
    rcases List.mem_cons.mp hx with h | h
    · subst h; exact le_trans (le_max_right _ _) (le_fmax_init _ _ _)
    · exact ih _ h

theorem fmax_attained {β : Type} (f : β → ℝ) (l : List β) (a : ℝ) :
    fmax f l a = a ∨ ∃ x ∈ l, fmax f l a = f x := by
  induction l generalizing a with
  | nil => left; rfl
  | cons y l ih =>
    rw [fmax_cons]
    rcases ih (max a (f y)) with h | ⟨x, hx, h⟩
    · rcases max_cases a (f y) with ⟨hm, _⟩ | ⟨hm, _⟩
      · left; rw [h, hm]
      · right; exact ⟨y, List.mem_cons_self .., by rw [h, hm]⟩
    · right; exact ⟨x, List.mem_cons_of_mem _ hx, h⟩

theorem fmax_le {β : Type} (f : β → ℝ) (l : List β) (a c : ℝ) (ha : a ≤ c) (hf : ∀ x ∈ l, f x ≤ c) :
    fmax f l a ≤ c := by
  rcases fmax_attained f l a with h | ⟨x, hx, h⟩
  · rw [h]; exact ha
  · rw [h]; exact hf x hx

/-! ### the statistic loop of `ks_test` over `R` -/

theorem ksStep_val (n acc : R) (iv : Nat × R) :
    (Hand.ksStep n acc iv).val = max acc.val |(iv.1 : ℝ) / n.val - iv.2.val| := by
  unfold Hand.ksStep
  simp only []
  split
  · rename_i h
    rw [R.lt_iff] at h
    simp only [R.abs_val, R.sub_val, R.div_val, R.ofNatR_val] at h ⊢
    rw [max_eq_right (le_of_lt h)]
  · rename_i h
    rw [R.lt_iff] at h
    simp only [R.abs_val, R.sub_val, R.div_val, R.ofNatR_val] at h ⊢
    rw [max_eq_left (not_lt.mp h)]

theorem foldl_ksStep_val (n : R) (l : List (Nat × R)) (acc : R) :
    (l.foldl (Hand.ksStep n) acc).val = fmax (fun iv : Nat × R => |(iv.1 : ℝ) / n.val - iv.2.val|) l acc.val := by
  induction l generalizing acc with
  | nil => rfl
  | cons x l ih => rw [List.foldl_cons, ih, fmax_cons, ksStep_val]

/-- the code: `max(0, max_i |i/n − vᵢ|)` -/
theorem ksStatVals_val (vals : List R) :
    (Hand.ksStatVals vals).val =
      fmax (fun iv : Nat × R => |(iv.1 : ℝ) / (vals.length : ℝ) - iv.2.val|) (enumL vals) 0 := by
  unfold Hand.ksStatVals
  simp only []
  rw [foldl_ksStep_val, zero_val, R.ofNatR_val]

theorem foldl_max_val (f : Nat × R → R) (l : List (Nat × R)) (acc : R) :
    (l.foldl (fun a iv => RealLike.max a (f iv)) acc).val = fmax (fun iv => (f iv).val) l acc.val := by
  induction l generalizing acc with
  | nil => rfl
  | cons x l ih => rw [List.foldl_cons, ih, fmax_cons, R.max_val]

/-- the textbook distance: `max_i max(|i/n − vᵢ|, |(i+1)/n − vᵢ|)` -/
theorem ksD_val (vals : List R) :
    (Spec.C20.ksD vals).val =
      fmax (fun iv : Nat × R => max |(iv.1 : ℝ) / (vals.length : ℝ) - iv.2.val|
                                    |((iv.1 + 1 : ℕ) : ℝ) / (vals.length : ℝ) - iv.2.val|) (enumL vals) 0 := by
  unfold Spec.C20.ksD
  simp only []
  rw [foldl_max_val, zero_val]
  simp only [R.max_val, R.abs_val, R.sub_val, R.div_val, R.ofNatR_val]

theorem ksUpper_val (vals : List R) :
    (Spec.C20.ksUpper vals).val =
      fmax (fun iv : Nat × R => |((iv.1 + 1 : ℕ) : ℝ) / (vals.length : ℝ) - iv.2.val|) (enumL vals) 0 := by
  unfold Spec.C20.ksUpper
  simp only []
  rw [foldl_max_val, zero_val]
  simp only [R.abs_val, R.sub_val, R.div_val, R.ofNatR_val]

/-- `D = max(code, upper)` -/
theorem ksD_eq_max (vals : List R) :
    (Spec.C20.ksD vals).val = max (Hand.ksStatVals vals).val (Spec.C20.ksUpper vals).val := by
  rw [ksD_val, ksStatVals_val, ksUpper_val, ← fmax_max, max_self]

theorem mem_enumL {β : Type} (l : List β) (i : Nat) (h : i < l.length) : (i, l[i]) ∈ enumL l := by
  unfold enumL
  rw [List.mem_iff_getElem]
  refine ⟨i, by simpa using h, ?_⟩
  simp

theorem of_mem_enumL {β : Type} (l : List β) (p : Nat × β) (h : p ∈ enumL l) :
    ∃ hi : p.1 < l.length, l[p.1] = p.2 := by
  unfold enumL at h
  rw [List.mem_iff_getElem] at h
  obtain ⟨k, hk, he⟩ := h
  simp only [List.length_zip, List.length_range, Nat.min_self] at hk
  simp only [List.getElem_zip, List.getElem_range] at he
  subst he
  exact ⟨hk, rfl⟩

/-! ### `binary_search_by` on a sorted list of reals -/

/-- value at an index (junk outside) -/
noncomputable def gv (s : List R) (k : Nat) : ℝ := (idxR s k).val

theorem gv_eq (s : List R) (k : Nat) (h : k < s.length) : gv s k = (s[k]).val := by
  simp [gv, idxR, List.getD_eq_getElem?_getD, List.getElem?_eq_getElem h]

theorem sorted_gv {s : List R} (hs : s.Pairwise (fun a b => a.val ≤ b.val)) {i j : Nat} (hij : i ≤ j)
    (hj : j < s.length) : gv s i ≤ gv s j := by
  rw [gv_eq s i (lt_of_le_of_lt hij hj), gv_eq s j hj]
  rcases Nat.lt_or_eq_of_le hij with h | h
  · exact (List.pairwise_iff_getElem.mp hs) i j (lt_of_le_of_lt hij hj) hj h
  · subst h; exact le_refl _

theorem bsearchLoop_spec (s : List R) (x : R) (hs : s.Pairwise (fun a b => a.val ≤ b.val)) :
    ∀ (fuel size base : Nat), 1 ≤ size → size ≤ fuel + 1 → base + size ≤ s.length →
      (base = 0 ∨ gv s base ≤ x.val) → (∀ k, base + size ≤ k → k < s.length → x.val < gv s k) →
      Hand.bsearchLoop s x fuel size base < s.length ∧
      (Hand.bsearchLoop s x fuel size base = 0 ∨ gv s (Hand.bsearchLoop s x fuel size base) ≤ x.val) ∧
      (∀ k, Hand.bsearchLoop s x fuel size base + 1 ≤ k → k < s.length → x.val < gv s k) := by
  intro fuel
  induction fuel with
  | zero =>
    intro size base h1 h2 h3 h4 h5
    have : size = 1 := by omega
    subst this
    simp only [Hand.bsearchLoop]
    exact ⟨by omega, h4, h5⟩
  | succ f ih =>
    intro size base h1 h2 h3 h4 h5
    rw [Hand.bsearchLoop]
    by_cases hsz : size > 1
    · simp only [hsz, if_true]
      have hhalf : 1 ≤ size / 2 := by omega
      have hhalf2 : size / 2 ≤ size - size / 2 := by omega
      by_cases hg : RealLike.gt (idxR s (base + size / 2)) x = true
      · simp only [hg, if_true]
        have hg' : x.val < gv s (base + size / 2) := by
          have := hg; rw [R.lt_iff] at this; exact this
        apply ih (size - size / 2) base (by omega) (by omega) (by omega) h4
        intro k hk hkl
        by_cases hk2 : base + size ≤ k
        · exact h5 k hk2 hkl
        · exact lt_of_lt_of_le hg' (sorted_gv hs (by omega) hkl)
      · simp only [hg, Bool.false_eq_true, if_false]
        have hg' : gv s (base + size / 2) ≤ x.val := by
          have : ¬ (x.val < gv s (base + size / 2)) := by
            intro hc; apply hg; rw [R.lt_iff]; exact hc
          exact not_lt.mp this
        apply ih (size - size / 2) (base + size / 2) (by omega) (by omega) (by omega) (Or.inr hg')
        intro k hk hkl
        exact h5 k (by omega) hkl
    · simp only [hsz, if_false]
      have : size = 1 := by omega
      subst this
      exact ⟨by omega, h4, h5⟩

/-- the contract of `binary_search_by`, for the transcription `Hand.bsearch` on a sorted list:
    `Ok(i)`: `s[i] = x`;  `Err(i)`: everything before `i` is `< x`, everything from `i` on is `> x`. -/
theorem bsearch_spec (s : List R) (x : R) (hs : s.Pairwise (fun a b => a.val ≤ b.val)) :
    ((Hand.bsearch s x).1 = true → (Hand.bsearch s x).2 < s.length ∧ gv s (Hand.bsearch s x).2 = x.val) ∧
    ((Hand.bsearch s x).1 = false → (Hand.bsearch s x).2 ≤ s.length ∧
        (∀ k, k < (Hand.bsearch s x).2 → gv s k < x.val) ∧
        (∀ k, (Hand.bsearch s x).2 ≤ k → k < s.length → x.val < gv s k)) := by
  unfold Hand.bsearch
  by_cases h0 : s.length = 0
  · simp only [h0, if_true]
    refine ⟨(by intro h; cases h), fun _ => ⟨le_refl _, by intro k hk; omega, by intro k _ hk; omega⟩⟩
  · simp only [h0, if_false]
    obtain ⟨hb1, hb2, hb3⟩ := bsearchLoop_spec s x hs s.length s.length 0 (by omega) (by omega) (by omega)
      (Or.inl rfl) (by intro k hk hkl; omega)
    generalize Hand.bsearchLoop s x s.length s.length 0 = b at hb1 hb2 hb3
    by_cases hlt : RealLike.lt (idxR s b) x = true
    · simp only [hlt, if_true]
      have hlt' : gv s b < x.val := by rw [R.lt_iff] at hlt; exact hlt
      refine ⟨(by intro h; cases h), fun _ => ⟨by omega, ?_, hb3⟩⟩
      intro k hk
      exact lt_of_le_of_lt (sorted_gv hs (by omega) hb1) hlt'
    · simp only [hlt, Bool.false_eq_true, if_false]
      have hlt' : x.val ≤ gv s b := by
        have : ¬ (gv s b < x.val) := by intro hc; apply hlt; rw [R.lt_iff]; exact hc
        exact not_lt.mp this
      by_cases hgt : RealLike.gt (idxR s b) x = true
      · simp only [hgt, if_true]
        have hgt' : x.val < gv s b := by rw [R.lt_iff] at hgt; exact hgt
        have hb0 : b = 0 := by
          rcases hb2 with h | h
          · exact h
          · exact absurd hgt' (not_lt.mpr h)
        subst hb0
        refine ⟨(by intro h; cases h), fun _ => ⟨by omega, by intro k hk; omega, ?_⟩⟩
        intro k _ hkl
        exact lt_of_lt_of_le hgt' (sorted_gv hs (by omega) hkl)
      · simp only [hgt, Bool.false_eq_true, if_false]
        have hgt' : gv s b ≤ x.val := by
          have : ¬ (x.val < gv s b) := by intro hc; apply hgt; rw [R.lt_iff]; exact hc
          exact not_lt.mp this
        refine ⟨fun _ => ⟨hb1, le_antisymm hgt' hlt'⟩, by intro h; cases h⟩

/-! ### counting on sorted lists -/

theorem countP_eq_of_split {β : Type} (P : β → Bool) (s : List β) (z : Nat) (hz : z ≤ s.length)
    (h1 : ∀ k (hk : k < s.length), k < z → P s[k] = true)
    (h2 : ∀ k (hk : k < s.length), z ≤ k → P s[k] = false) : s.countP P = z := by
  rw [← List.take_append_drop z s, List.countP_append]
  have e1 : (s.take z).countP P = z := by
    rw [List.countP_eq_length.mpr]
    · simp [hz]
    · intro a ha
      rw [List.mem_take_iff_getElem] at ha
      obtain ⟨i, hi, rfl⟩ := ha
      exact h1 i (by omega) (by omega)
  have e2 : (s.drop z).countP P = 0 := by
    rw [List.countP_eq_zero]
    intro a ha
    rw [List.mem_drop_iff_getElem] at ha
    obtain ⟨i, hi, rfl⟩ := ha
    simp [h2 (z + i) (by omega) (by omega)]
  rw [e1, e2]; rfl

theorem le_countP_of_prefix {β : Type} (P : β → Bool) (s : List β) (z : Nat) (hz : z ≤ s.length)
    (h1 : ∀ k (hk : k < s.length), k < z → P s[k] = true) : z ≤ s.countP P := by
  rw [← List.take_append_drop z s, List.countP_append]
  have e1 : (s.take z).countP P = z := by
    rw [List.countP_eq_length.mpr]
    · simp [hz]
    · intro a ha
      rw [List.mem_take_iff_getElem] at ha
      obtain ⟨i, hi, rfl⟩ := ha
      exact h1 i (by omega) (by omega)
  omega

theorem countP_le_of_suffix {β : Type} (P : β → Bool) (s : List β) (z : Nat) (_hz : z ≤ s.length)
    (h2 : ∀ k (hk : k < s.length), z ≤ k → P s[k] = false) : s.countP P ≤ z := by
  rw [← List.take_append_drop z s, List.countP_append]
  have e2 : (s.drop z).countP P = 0 := by
    rw [List.countP_eq_zero]
    intro a ha
    rw [List.mem_drop_iff_getElem] at ha
    obtain ⟨i, hi, rfl⟩ := ha
    simp [h2 (z + i) (by omega) (by omega)]
  have : (s.take z).countP P ≤ z := le_trans (List.countP_le_length) (by simp)
  omega

theorem countLe_val (xs : List R) (x : R) :
    Spec.C20.countLe xs x = xs.countP (fun y => decide (y.val ≤ x.val)) := rfl
theorem countLt_val (xs : List R) (x : R) :
    Spec.C20.countLt xs x = xs.countP (fun y => decide (y.val < x.val)) := rfl

theorem countLe_perm {xs ys : List R} (h : xs.Perm ys) (x : R) : Spec.C20.countLe xs x = Spec.C20.countLe ys x :=
  h.countP_eq _
theorem countLt_perm {xs ys : List R} (h : xs.Perm ys) (x : R) : Spec.C20.countLt xs x = Spec.C20.countLt ys x :=
  h.countP_eq _

/-- a failed search returns the number of sample values `< x`, which then is also the number `≤ x` -/
theorem bsearch_err_count (s : List R) (x : R) (hs : s.Pairwise (fun a b => a.val ≤ b.val))
    (h : (Hand.bsearch s x).1 = false) :
    Spec.C20.countLt s x = (Hand.bsearch s x).2 ∧ Spec.C20.countLe s x = (Hand.bsearch s x).2 := by
  obtain ⟨hz, hlo, hhi⟩ := (bsearch_spec s x hs).2 h
  constructor
  · rw [countLt_val]
    apply countP_eq_of_split _ _ _ hz
    · intro k hk hkz; have := hlo k hkz; rw [gv_eq s k hk] at this; simpa using this
    · intro k hk hkz; have := hhi k hkz hk; rw [gv_eq s k hk] at this; simpa using le_of_lt this
  · rw [countLe_val]
    apply countP_eq_of_split _ _ _ hz
    · intro k hk hkz; have := hlo k hkz; rw [gv_eq s k hk] at this; simpa using le_of_lt this
    · intro k hk hkz; have := hhi k hkz hk; rw [gv_eq s k hk] at this; simpa using this

/-- a successful search returns an index in `[#{<x}, #{≤x} − 1]` -/
theorem bsearch_ok_count (s : List R) (x : R) (hs : s.Pairwise (fun a b => a.val ≤ b.val))
    (h : (Hand.bsearch s x).1 = true) :
    Spec.C20.countLt s x ≤ (Hand.bsearch s x).2 ∧ (Hand.bsearch s x).2 + 1 ≤ Spec.C20.countLe s x := by
  obtain ⟨hz, he⟩ := (bsearch_spec s x hs).1 h
  constructor
  · rw [countLt_val]
    apply countP_le_of_suffix _ _ _ (le_of_lt hz)
    intro k hk hkz
    have := sorted_gv hs hkz hk
    rw [he, gv_eq s k hk] at this
    simpa using this
  · rw [countLe_val]
    apply le_countP_of_prefix _ _ _ hz
    intro k hk hkz
    have := sorted_gv hs (Nat.le_of_lt_succ hkz) hz
    rw [he, gv_eq s k hk] at this
    simpa using this

/-- a member is found -/
theorem bsearch_found_of_mem (s : List R) (x : R) (hs : s.Pairwise (fun a b => a.val ≤ b.val))
    (hx : ∃ y ∈ s, y.val = x.val) : (Hand.bsearch s x).1 = true := by
  by_contra hne
  have hf : (Hand.bsearch s x).1 = false := by simpa using hne
  obtain ⟨hz, hlo, hhi⟩ := (bsearch_spec s x hs).2 hf
  obtain ⟨y, hy, hyx⟩ := hx
  obtain ⟨k, hk, rfl⟩ := List.mem_iff_getElem.mp hy
  by_cases hkz : k < (Hand.bsearch s x).2
  · have := hlo k hkz; rw [gv_eq s k hk, hyx] at this; exact lt_irrefl _ this
  · have := hhi k (by omega) hk; rw [gv_eq s k hk, hyx] at this; exact lt_irrefl _ this

/-- with pairwise distinct values a successful search returns exactly `#{< x}` -/
theorem bsearch_ok_count_distinct (s : List R) (x : R) (hs : s.Pairwise (fun a b => a.val < b.val))
    (h : (Hand.bsearch s x).1 = true) : Spec.C20.countLt s x = (Hand.bsearch s x).2 := by
  have hs' : s.Pairwise (fun a b => a.val ≤ b.val) := hs.imp (fun h => le_of_lt h)
  obtain ⟨hz, he⟩ := (bsearch_spec s x hs').1 h
  rw [countLt_val]
  apply countP_eq_of_split _ _ _ (le_of_lt hz)
  · intro k hk hkz
    have := (List.pairwise_iff_getElem.mp hs) k _ hk hz hkz
    rw [gv_eq s _ hz] at he
    rw [he] at this
    simpa using this
  · intro k hk hkz
    have := sorted_gv hs' hkz hk
    rw [he, gv_eq s k hk] at this
    simpa using this

/-! ### `Empirical::new` / `cdf` -/

theorem new?_some {xs : List R} {e : Gen.Empirical R} (h : Hand.Empirical.new? xs = some e) :
    e.xs = Hand.sortR xs ∧ 0 < e.xs.length ∧ e.range.1.val = gv e.xs 0 ∧ e.range.2.val = gv e.xs (e.xs.length - 1) := by
  unfold Hand.Empirical.new? at h
  simp only [] at h
  split at h
  · cases h
  · rename_i x0 tl heq
    cases h
    refine ⟨rfl, ?_, ?_, rfl⟩
    · show 0 < (Hand.sortR xs).length
      rw [heq]; simp
    · show x0.val = gv (Hand.sortR xs) 0
      rw [heq]; simp [gv, idxR]

theorem new?_nil : Hand.Empirical.new? ([] : List R) = none := by
  simp [Hand.Empirical.new?, Hand.sortR]

theorem new?_isSome {xs : List R} (h : xs ≠ []) : ∃ e, Hand.Empirical.new? xs = some e := by
  unfold Hand.Empirical.new?
  simp only []
  split
  · rename_i heq
    have := sortR_length xs
    rw [heq] at this
    simp at this
    exact absurd this.symm (by simpa using h)
  · exact ⟨_, rfl⟩

theorem empcdf_present_val (e : Gen.Empirical R) (ix : Nat) :
    (Hand.Empirical.empcdf e (.present ix)).val = (ix : ℝ) / (e.xs.length : ℝ) := by
  simp [Hand.Empirical.empcdf]
theorem empcdf_absent_val (e : Gen.Empirical R) (ix : Nat) :
    (Hand.Empirical.empcdf e (.absent ix)).val = (ix : ℝ) / (e.xs.length : ℝ) := by
  simp [Hand.Empirical.empcdf]

theorem ecdf_val (xs : List R) (x : R) :
    (Spec.C20.ecdf xs x).val = (Spec.C20.countLe xs x : ℝ) / (xs.length : ℝ) := by
  simp [Spec.C20.ecdf]
theorem ecdfLeft_val (xs : List R) (x : R) :
    (Spec.C20.ecdfLeft xs x).val = (Spec.C20.countLt xs x : ℝ) / (xs.length : ℝ) := by
  simp [Spec.C20.ecdfLeft]

/-- the three outcomes of `Empirical::cdf` on a non-empty sample, in terms of the sorted sample `s = e.xs`:
    below the minimum 0, from the maximum on 1, otherwise (index returned by the search)/n -/
theorem cdf_val_cases {xs : List R} {e : Gen.Empirical R} (h : Hand.Empirical.new? xs = some e) (x : R) :
    (x.val < gv e.xs 0 ∧ (Hand.Empirical.cdf e x).val = 0) ∨
    (gv e.xs (e.xs.length - 1) ≤ x.val ∧ (Hand.Empirical.cdf e x).val = 1) ∨
    (gv e.xs 0 ≤ x.val ∧ x.val < gv e.xs (e.xs.length - 1) ∧
      (Hand.Empirical.cdf e x).val = ((Hand.bsearch e.xs x).2 : ℝ) / (e.xs.length : ℝ)) := by
  obtain ⟨_, _, h1, h2⟩ := new?_some h
  unfold Hand.Empirical.cdf Hand.Empirical.pos
  by_cases c1 : RealLike.lt x e.range.1 = true
  · left
    simp only [c1, if_true]
    rw [R.lt_iff, h1] at c1
    exact ⟨c1, by simp [Hand.Empirical.empcdf]; norm_num⟩
  · right
    simp only [c1, Bool.false_eq_true, if_false]
    rw [R.lt_iff, h1, not_lt] at c1
    by_cases c2 : RealLike.le e.range.2 x = true
    · left
      simp only [c2, if_true]
      rw [R.le_iff, h2] at c2
      exact ⟨c2, by simp [Hand.Empirical.empcdf]; norm_num⟩
    · right
      simp only [c2, Bool.false_eq_true, if_false]
      rw [R.le_iff, h2, not_le] at c2
      refine ⟨c1, c2, ?_⟩
      split
      · exact empcdf_present_val _ _
      · exact empcdf_absent_val _ _

/-- bounds of a member of the sorted sample -/
theorem mem_bounds {s : List R} (hs : s.Pairwise (fun a b => a.val ≤ b.val)) {y : R} (hy : y ∈ s) :
    gv s 0 ≤ y.val ∧ y.val ≤ gv s (s.length - 1) := by
  obtain ⟨k, hk, rfl⟩ := List.mem_iff_getElem.mp hy
  rw [← gv_eq s k hk]
  exact ⟨sorted_gv hs (Nat.zero_le _) hk, sorted_gv hs (by omega) (by omega)⟩

/-! ### folds -/

/-- a left fold whose step adds `G x` to the accumulator sums `G` -/
theorem foldl_val_add {β : Type} (f : R → β → R) (G : β → ℝ) (hf : ∀ acc x, (f acc x).val = acc.val + G x)
    (l : List β) (a : R) : (l.foldl f a).val = a.val + (l.map G).sum := by
  induction l generalizing a with
  | nil => simp
  | cons x l ih => rw [List.foldl_cons, ih, hf]; simp [add_assoc]

/-! ### rounding primitives on `R`, evaluation helpers -/

theorem toNat_R (a : R) : RealLike.toNat a = ⌊a.val⌋₊ := rfl
theorem floor_R (a : R) : (RealLike.floor a).val = (⌊a.val⌋ : ℝ) := rfl
theorem ceil_R (a : R) : (RealLike.ceil a).val = (⌈a.val⌉ : ℝ) := rfl
theorem round_R (a : R) :
    (RealLike.round a).val = if 0 ≤ a.val then (⌊a.val + 1 / 2⌋ : ℝ) else (⌈a.val - 1 / 2⌉ : ℝ) := rfl
theorem feq_R (a b : R) : RealLike.feq a b = decide (a.val = b.val) := rfl
theorem lt_R (a b : R) : RealLike.lt a b = decide (a.val < b.val) := rfl
theorem le_R (a b : R) : RealLike.le a b = decide (a.val ≤ b.val) := rfl
theorem range1 : List.range 1 = [0] := rfl
theorem range2 : List.range 2 = [0, 1] := rfl
theorem range3 : List.range 3 = [0, 1, 2] := rfl
theorem range4 : List.range 4 = [0, 1, 2, 3] := rfl
theorem range5 : List.range 5 = [0, 1, 2, 3, 4] := rfl

theorem bsearchLoop_pos (s : List R) (x : R) (fuel size base : Nat) (h : fuel ≠ 0) :
    Hand.bsearchLoop s x fuel size base =
      if size > 1 then
        Hand.bsearchLoop s x (fuel - 1) (size - size / 2)
          (if RealLike.gt (idxR s (base + size / 2)) x then base else base + size / 2)
      else base := by
  obtain ⟨f, rfl⟩ : ∃ f, fuel = f + 1 := ⟨fuel - 1, by omega⟩
  rw [Hand.bsearchLoop]
  simp
theorem bsearchLoop_zero (s : List R) (x : R) (size base : Nat) : Hand.bsearchLoop s x 0 size base = base := rfl

theorem maxFinite_R : (RealLike.maxFinite : R).val = (2 - (2 : ℝ) ^ (-52 : ℤ)) * (2 : ℝ) ^ (1023 : ℤ) := rfl

theorem thousand_le_maxFinite : (1000 : ℝ) ≤ (RealLike.maxFinite : R).val := by
  rw [maxFinite_R]
  have h1 : (1 : ℝ) ≤ 2 - (2 : ℝ) ^ (-52 : ℤ) := by
    have : (2 : ℝ) ^ (-52 : ℤ) ≤ 1 := zpow_le_one_of_nonpos₀ (by norm_num) (by norm_num)
    linarith
  have h2 : (1000 : ℝ) ≤ (2 : ℝ) ^ (1023 : ℤ) := by
    calc (1000 : ℝ) ≤ (2 : ℝ) ^ (10 : ℤ) := by norm_num
      _ ≤ (2 : ℝ) ^ (1023 : ℤ) := zpow_le_zpow_right₀ (by norm_num) (by norm_num)
  calc (1000 : ℝ) = 1 * 1000 := by norm_num
    _ ≤ _ := mul_le_mul h1 h2 (by norm_num) (by linarith)

theorem min_maxFinite {x : ℝ} (h : x ≤ 1) : min (RealLike.maxFinite : R).val x = x :=
  min_eq_right (le_trans h (le_trans (by norm_num) thousand_le_maxFinite))
theorem max_neg_maxFinite {x : ℝ} (h : -1 ≤ x) : max (-(RealLike.maxFinite : R).val) x = x :=
  max_eq_right (le_trans (neg_le_neg (le_trans (by norm_num : (1:ℝ) ≤ 1000) thousand_le_maxFinite)) h)

/-! ### `⌈a/b⌉` on naturals -/

theorem natCeil_div (a b : Nat) (hb : 0 < b) : ⌈(a : ℝ) / (b : ℝ)⌉₊ = (a + b - 1) / b := by
  have hb' : (0 : ℝ) < (b : ℝ) := by exact_mod_cast hb
  apply le_antisymm
  · rw [Nat.ceil_le, div_le_iff₀ hb']
    have : a ≤ (a + b - 1) / b * b := by
      have h1 := Nat.div_add_mod (a + b - 1) b
      have h2 := Nat.mod_lt (a + b - 1) hb
      rw [Nat.mul_comm] at h1
      omega
    exact_mod_cast this
  · have hc : (a : ℝ) / (b : ℝ) ≤ (⌈(a : ℝ) / (b : ℝ)⌉₊ : ℝ) := Nat.le_ceil _
    rw [div_le_iff₀ hb'] at hc
    have hc' : a ≤ ⌈(a : ℝ) / (b : ℝ)⌉₊ * b := by exact_mod_cast hc
    rw [Nat.div_le_iff_le_mul_add_pred hb]
    rw [Nat.mul_comm] at hc'
    omega

/-- the abscissa `x_j` of `paths_outside`, computed in floating-point form, read over exact reals with an integral `h` -/
theorem xj_real (mg ng j h : Nat) (hng : 0 < ng) :
    RealLike.toNat (RealLike.ceil (mulAdd (RealLike.ofNatR mg : R) (RealLike.ofNatR j) (RealLike.ofNatR h) / RealLike.ofNatR ng))
      = (mg * j + h + ng - 1) / ng := by
  show ⌊((⌈((mg : ℝ) * (j : ℝ) + (h : ℝ)) / (ng : ℝ)⌉ : ℤ) : ℝ)⌋₊ = _
  rw [← Int.floor_toNat, Int.floor_intCast, Int.ceil_toNat]
  have : ((mg : ℝ) * (j : ℝ) + (h : ℝ)) = ((mg * j + h : ℕ) : ℝ) := by push_cast; ring
  rw [this, natCeil_div _ _ hng]

/-! ### two-sample ECDFs for distinct values -/

theorem sortR_strict {xs : List R} (hd : xs.Pairwise (fun a b => a.val ≠ b.val)) :
    (Hand.sortR xs).Pairwise (fun a b => a.val < b.val) := by
  have hd' : (Hand.sortR xs).Pairwise (fun a b => a.val ≠ b.val) :=
    ((sortR_perm xs).pairwise_iff (fun hab => Ne.symm hab)).mpr hd
  exact ((sortR_sorted xs).and hd').imp (fun hab => lt_of_le_of_ne hab.1 hab.2)

/-- on a strictly sorted list the index returned by the search (`Ok` or `Err`) is the number of elements `< x` -/
theorem bsearch_ix_distinct (s : List R) (x : R) (hss : s.Pairwise (fun a b => a.val < b.val)) :
    (Hand.bsearch s x).2 = Spec.C20.countLt s x := by
  have hs : s.Pairwise (fun a b => a.val ≤ b.val) := hss.imp (fun h => le_of_lt h)
  cases h : (Hand.bsearch s x).1
  · exact (bsearch_err_count s x hs h).1.symm
  · exact (bsearch_ok_count_distinct s x hss h).symm

theorem foldl_minMax_snd (ps : List (R × R)) (a b : R) :
    (ps.foldl (fun (mm : R × R) (c : R × R) =>
        (RealLike.min mm.1 (c.1 - c.2), RealLike.max mm.2 (c.1 - c.2))) (a, b)).2.val
      = fmax (fun c : R × R => c.1.val - c.2.val) ps b.val := by
  induction ps generalizing a b with
  | nil => rfl
  | cons c ps ih => rw [List.foldl_cons, ih, fmax_cons, R.max_val, R.sub_val]

/-! ### the empirical CDF on a sorted sample -/

/-- on a sorted list, "≤ t" holds exactly on the first `countLe s t` positions -/
theorem sorted_countLe_iff (s : List R) (t : R) (hs : s.Pairwise (fun a b => a.val ≤ b.val)) :
    ∀ k (hk : k < s.length), (k < Spec.C20.countLe s t ↔ s[k].val ≤ t.val) := by
  induction s with
  | nil => intro k hk; simp at hk
  | cons a l ih =>
    intro k hk
    rw [List.pairwise_cons] at hs
    rw [countLe_val, List.countP_cons]
    by_cases hat : a.val ≤ t.val
    · simp only [hat, decide_true, if_true]
      cases k with
      | zero => simp [hat]
      | succ k' =>
        have := ih hs.2 k' (by simpa using hk)
        rw [countLe_val] at this
        simp only [List.getElem_cons_succ]
        rw [← this]; omega
    · have hzero : l.countP (fun y => decide (y.val ≤ t.val)) = 0 := by
        rw [List.countP_eq_zero]
        intro y hy
        have := hs.1 y hy
        simp only [decide_eq_true_eq, not_le]
        linarith [not_le.mp hat]
      simp only [hat, decide_false, Bool.false_eq_true, if_false, hzero]
      constructor
      · intro h; omega
      · intro h
        exfalso
        cases k with
        | zero => exact hat (by simpa using h)
        | succ k' =>
          simp only [List.getElem_cons_succ] at h
          have := hs.1 _ (List.getElem_mem (by simpa using hk : k' < l.length))
          linarith [not_le.mp hat]

theorem countLe_le_length (s : List R) (t : R) : Spec.C20.countLe s t ≤ s.length := List.countP_le_length


/-- for a strictly sorted sample the two terms of `Spec.ksD` at `x₍ᵢ₎` are the value `F_n(x₍ᵢ₎) = (i+1)/n` and the left limit
    `F_n(x₍ᵢ₎−) = i/n` of the empirical CDF -/
theorem ecdf_at_sorted_point (s : List R) (hss : s.Pairwise (fun a b => a.val < b.val)) (i : Nat) (hi : i < s.length) :
    Spec.C20.countLe s s[i] = i + 1 ∧ Spec.C20.countLt s s[i] = i := by
  have hget := List.pairwise_iff_getElem.mp hss
  constructor
  · rw [countLe_val]
    apply countP_eq_of_split _ _ _ (by omega)
    · intro k hk hki
      rcases Nat.lt_or_eq_of_le (Nat.le_of_lt_succ hki) with h | h
      · simpa using le_of_lt (hget k i hk hi h)
      · subst h; simp
    · intro k hk hki
      simpa using hget i k hi hk (by omega)
  · rw [countLt_val]
    apply countP_eq_of_split _ _ _ (by omega)
    · intro k hk hki
      simpa using hget k i hk hi hki
    · intro k hk hki
      rcases Nat.lt_or_eq_of_le hki with h | h
      · simpa using le_of_lt (hget i k hi hk h)
      · subst h; simp
/-- `Spec.ksD` bounds `|F_n t − F t|` at EVERY `t` (sorted sample, `F` monotone with values in `[0,1]`) -/
theorem ksD_upper_bound (s : List R) (F : R → R) (hs : s.Pairwise (fun a b => a.val ≤ b.val))
    (hF : ∀ a b : R, a.val ≤ b.val → (F a).val ≤ (F b).val) (h01 : ∀ x, 0 ≤ (F x).val ∧ (F x).val ≤ 1)
    (hne : 0 < s.length) (t : R) :
    |(Spec.C20.ecdf s t).val - (F t).val| ≤ (Spec.C20.ksD (s.map F)).val := by
  have hD0 : 0 ≤ (Spec.C20.ksD (s.map F)).val := by rw [ksD_val]; exact le_fmax_init _ _ _
  have hterm : ∀ i (hi : i < s.length),
      |(i : ℝ) / (s.length : ℝ) - (F s[i]).val| ≤ (Spec.C20.ksD (s.map F)).val ∧
      |((i + 1 : ℕ) : ℝ) / (s.length : ℝ) - (F s[i]).val| ≤ (Spec.C20.ksD (s.map F)).val := by
    intro i hi
    rw [ksD_val]
    have hm := mem_enumL (s.map F) i (by simpa using hi)
    have := le_fmax_of_mem (fun iv : Nat × R => max |(iv.1 : ℝ) / ((s.map F).length : ℝ) - iv.2.val|
      |((iv.1 + 1 : ℕ) : ℝ) / ((s.map F).length : ℝ) - iv.2.val|) _ 0 _ hm
    simp only [List.getElem_map, List.length_map] at this ⊢
    exact ⟨le_trans (le_max_left _ _) this, le_trans (le_max_right _ _) this⟩
  have hn : (0 : ℝ) < (s.length : ℝ) := by exact_mod_cast hne
  rw [ecdf_val]
  set c := Spec.C20.countLe s t with hc
  have hcn : c ≤ s.length := countLe_le_length s t
  have hiff := sorted_countLe_iff s t hs
  rw [abs_le]
  constructor
  · -- F t − c/n ≤ D
    by_cases hlt : c < s.length
    · have hgt : t.val < s[c].val := by
        have := (hiff c hlt).not.mp (lt_irrefl c); exact not_le.mp this
      have h1 := hF t s[c] (le_of_lt hgt)
      have h2 := (abs_le.mp (hterm c hlt).1).1
      linarith
    · have hceq : c = s.length := by omega
      rw [hceq, div_self (ne_of_gt hn)]
      linarith [(h01 t).2]
  · -- c/n − F t ≤ D
    by_cases h0 : c = 0
    · rw [h0]; simp only [Nat.cast_zero, zero_div]; linarith [(h01 t).1]
    · have hc1 : c - 1 < s.length := by omega
      have hle : s[c - 1].val ≤ t.val := (hiff (c - 1) hc1).mp (by omega)
      have h1 := hF s[c - 1] t hle
      have h2 := (abs_le.mp (hterm (c - 1) hc1).2).2
      have hcast : (((c - 1 + 1 : ℕ)) : ℝ) = (c : ℝ) := by congr 1; omega
      rw [hcast] at h2
      linarith


/-! ### exchanging the two samples -/

theorem fmax_perm {β : Type} (f : β → ℝ) {l₁ l₂ : List β} (h : l₁.Perm l₂) (a : ℝ) : fmax f l₁ a = fmax f l₂ a := by
  induction h generalizing a with
  | nil => rfl
  | cons x _ ih => rw [fmax_cons, fmax_cons, ih]
  | swap x y l => rw [fmax_cons, fmax_cons, fmax_cons, fmax_cons, max_right_comm]
  | trans _ _ ih1 ih2 => rw [ih1, ih2]

theorem fmax_map {β γ : Type} (f : γ → ℝ) (g : β → γ) (l : List β) (a : ℝ) : fmax f (l.map g) a = fmax (fun x => f (g x)) l a := by
  induction l generalizing a with
  | nil => rfl
  | cons x l ih => rw [List.map_cons, fmax_cons, fmax_cons, ih]

theorem fmax_congr {β : Type} (f g : β → ℝ) (l : List β) (a : ℝ) (h : ∀ x, f x = g x) : fmax f l a = fmax g l a := by
  have : f = g := funext h
  rw [this]

theorem foldl_minMax_fst (ps : List (R × R)) (a b : R) :
    -(ps.foldl (fun (mm : R × R) (c : R × R) =>
        (RealLike.min mm.1 (c.1 - c.2), RealLike.max mm.2 (c.1 - c.2))) (a, b)).1.val
      = fmax (fun c : R × R => -(c.1.val - c.2.val)) ps (-a.val) := by
  induction ps generalizing a b with
  | nil => rfl
  | cons c ps ih => rw [List.foldl_cons, ih, fmax_cons, R.min_val, R.sub_val, max_neg_neg]

/-- the two one-sided statistics are exchanged when the samples are exchanged (exactly, whatever the search returns) -/
theorem ksTwoStatSorted_swap (bs : List R → R → Bool × Nat) (sx sy : List R) :
    (Hand.ksTwoStatSorted bs sx sy .less).val = (Hand.ksTwoStatSorted bs sy sx .greater).val ∧
    (Hand.ksTwoStatSorted bs sx sy .greater).val = (Hand.ksTwoStatSorted bs sy sx .less).val := by
  unfold Hand.ksTwoStatSorted Hand.minMaxS Hand.ecdfPairs
  simp only [R.neg_val]
  rw [foldl_minMax_fst, foldl_minMax_snd, foldl_minMax_fst, foldl_minMax_snd]
  simp only [fmax_map, R.neg_val]
  constructor
  · rw [fmax_perm _ (List.perm_append_comm : (sx ++ sy).Perm (sy ++ sx))]
    apply fmax_congr; intro x; ring
  · rw [fmax_perm _ (List.perm_append_comm : (sx ++ sy).Perm (sy ++ sx))]
    apply fmax_congr; intro x; ring

end C20L
