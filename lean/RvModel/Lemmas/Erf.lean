import RvModel.RealInst
import Mathlib.MeasureTheory.Integral.IntervalIntegral.Basic
import Mathlib.Analysis.SpecialFunctions.Exp
/-!
  Lemmas.Erf — oddness of the error function of the carrier `R` (`R.erfR x = 2/√π ∫₀ˣ e^{-t²} dt`), shared by the
  Gaussian CDF lemmas: since the repair "Gaussian::cdf uses erfc" the code computes `0.5·erfc(−z)`, which over exact
  reals is `0.5·(1 − erf(−z)) = 0.5·(1 + erf z)`.
-/
namespace ErfL

theorem erfR_neg (x : ℝ) : R.erfR (-x) = -R.erfR x := by
  unfold R.erfR
  have h := intervalIntegral.integral_comp_neg (a := 0) (b := x) (fun t : ℝ => Real.exp (-t ^ 2))
  simp only [neg_sq, neg_zero] at h
  rw [intervalIntegral.integral_symm, ← h]
  ring

/-- `erfc(−z) = 1 + erf z` on `R` -/
theorem erfc_neg_val (z : R) : (RealLike.erfc (-z)).val = 1 + R.erfR z.val := by
  rw [R.erfc_val, R.neg_val, erfR_neg]; ring

end ErfL
