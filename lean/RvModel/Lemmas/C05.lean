import RvModel.RealInst
import RvModel.Gen.Defs
/-!
  Helper lemmas for property C05 (conjugate posteriors are exactly Bayes' rule).
  Everything here is about the generated model `Gen.*` on the exact-real carrier `R`.
-/
open Real

namespace C05L

/-! ### literals -/

theorem r00 : (0.0 : ℝ) = 0 := by norm_num
theorem r10 : (1.0 : ℝ) = 1 := by norm_num
theorem r20 : (2.0 : ℝ) = 2 := by norm_num
theorem r05 : (0.5 : ℝ) = 1 / 2 := by norm_num

theorem lit0 : ((0.0 : R)).val = 0 := by simp only [R.sci_val]; norm_num
theorem lit1 : ((1.0 : R)).val = 1 := by simp only [R.sci_val]; norm_num
theorem lit2 : ((2.0 : R)).val = 2 := by simp only [R.sci_val]; norm_num
theorem lit05 : ((0.5 : R)).val = 1 / 2 := by simp only [R.sci_val]; norm_num

/-! ### checked constructors succeed on valid input -/

theorem Beta_new_ok (a b : R) (ha : 0 < a.val) (hb : 0 < b.val) :
    Gen.Beta.new a b = .ok ⟨a, b⟩ := by
  simp [Gen.Beta.new, R.le_iff, r00, not_le.mpr ha, not_le.mpr hb]

theorem Gamma_new_ok (a b : R) (ha : 0 < a.val) (hb : 0 < b.val) :
    Gen.Gamma.new a b = .ok ⟨a, b⟩ := by
  simp [Gen.Gamma.new, Gen.Gamma.new_unchecked, R.le_iff, r00, not_le.mpr ha, not_le.mpr hb]

theorem NormalGamma_new_ok (m r s v : R) (hr : 0 < r.val) (hs : 0 < s.val) (hv : 0 < v.val) :
    Gen.NormalGamma.new m r s v = .ok ⟨m, r, s, v⟩ := by
  simp [Gen.NormalGamma.new, R.le_iff, r00, not_le.mpr hr, not_le.mpr hs, not_le.mpr hv]

theorem NormalInvGamma_new_ok (m v a b : R) (hv : 0 < v.val) (ha : 0 < a.val) (hb : 0 < b.val) :
    Gen.NormalInvGamma.new m v a b = .ok ⟨m, v, a, b⟩ := by
  simp [Gen.NormalInvGamma.new, R.le_iff, r00, not_le.mpr hv, not_le.mpr ha, not_le.mpr hb]

theorem NormalInvChiSquared_new_ok (m k v s2 : R) (hk : 0 < k.val) (hv : 0 < v.val) (hs : 0 < s2.val) :
    Gen.NormalInvChiSquared.new m k v s2 = .ok ⟨m, k, v, s2⟩ := by
  simp [Gen.NormalInvChiSquared.new, R.le_iff, r00, not_le.mpr hk, not_le.mpr hv, not_le.mpr hs]

/-! ### Bernoulli statistic -/

theorem bern_fold_bool (s : Gen.BernoulliSuffStat R) (xs : List Bool) :
    xs.foldl (fun st x => Gen.BernoulliSuffStat.observe_bool st x) s
      = ⟨s.n + xs.length, s.k + xs.count true⟩ := by
  induction xs generalizing s with
  | nil => simp
  | cons x xs ih =>
    rw [List.foldl_cons, ih]
    cases x <;> simp [Gen.BernoulliSuffStat.observe_bool] <;> omega

theorem bern_fold_nat (s : Gen.BernoulliSuffStat R) (xs : List Nat) :
    xs.foldl (fun st x => Gen.BernoulliSuffStat.observe_nat st x) s
      = ⟨s.n + xs.length, s.k + xs.count 1⟩ := by
  induction xs generalizing s with
  | nil => simp
  | cons x xs ih =>
    rw [List.foldl_cons, ih]
    by_cases h : x = 1
    · subst h; simp [Gen.BernoulliSuffStat.observe_nat]; omega
    · have h' : ¬ (1 = x) := fun e => h e.symm
      simp [Gen.BernoulliSuffStat.observe_nat, h]; omega

theorem count_tf (xs : List Bool) : xs.count true + xs.count false = xs.length := by
  induction xs with
  | nil => rfl
  | cons x xs ih => cases x <;> simp <;> omega

theorem count_false_eq (xs : List Bool) : xs.length - xs.count true = xs.count false := by
  have := count_tf xs; omega

/-- Σ of the generated Bernoulli log-likelihood over a data set -/
theorem bern_loglik_bool (θ : Gen.Bernoulli R) (xs : List Bool) :
    (xs.map (fun x => (Gen.Bernoulli.ln_f_bool θ x).val)).sum
      = (xs.count true : ℝ) * Real.log θ.p.val + (xs.count false : ℝ) * Real.log (1 - θ.p.val) := by
  induction xs with
  | nil => simp
  | cons x xs ih =>
    rw [List.map_cons, List.sum_cons, ih]
    cases x <;>
    simp [Gen.Bernoulli.ln_f_bool, Gen.Bernoulli.f_bool, r10] <;> ring

/-! ### Poisson statistic -/

theorem pois_fold (s : Gen.PoissonSuffStat R) (xs : List Nat) :
    let t := xs.foldl (fun st x => Gen.PoissonSuffStat.observe_nat st x) s
    t.n = s.n + xs.length ∧ t.sum.val = s.sum.val + ((xs.sum : ℕ) : ℝ) ∧
    t.sum_ln_fact.val = s.sum_ln_fact.val + (xs.map (fun x => (Gen.ln_fact (α := R) x).val)).sum := by
  induction xs generalizing s with
  | nil => simp
  | cons x xs ih =>
    have := ih (Gen.PoissonSuffStat.observe_nat s x)
    simp only [List.foldl_cons, List.length_cons, List.map_cons, List.sum_cons] at this ⊢
    obtain ⟨h1, h2, h3⟩ := this
    refine ⟨?_, ?_, ?_⟩
    · rw [h1]; simp only [Gen.PoissonSuffStat.observe_nat]; omega
    · rw [h2]; simp only [Gen.PoissonSuffStat.observe_nat, R.add_val, R.ofNatR_val]; push_cast; ring
    · rw [h3]; simp only [Gen.PoissonSuffStat.observe_nat, R.add_val]; ring


/-- Σ of the generated Poisson log-likelihood (`Gen.ln_fact` opaque) -/
theorem pois_loglik (θ : Gen.Poisson R) (xs : List Nat) :
    (xs.map (fun x => (Gen.Poisson.ln_f_nat θ x).val)).sum
      = ((xs.sum : ℕ) : ℝ) * Real.log θ.rate.val - (xs.length : ℝ) * θ.rate.val
        - (xs.map (fun x => (Gen.ln_fact (α := R) x).val)).sum := by
  induction xs with
  | nil => simp
  | cons x xs ih =>
    rw [List.map_cons, List.sum_cons, ih]
    simp only [List.map_cons, List.sum_cons, Gen.Poisson.ln_f_nat, Gen.Poisson.ln_rate, mulAdd, R.add_val,
      R.sub_val, R.mul_val, R.neg_val, R.ln_val, R.ofNatR_val, List.length_cons]
    push_cast; ring

/-! ### Gaussian (Welford) statistic: `n`, `sum_x`, `sum_x_sq` are additive, `sx ≥ 0` is kept -/

theorem gauss_obs_n (s : Gen.GaussianSuffStat R) (x : R) :
    (Gen.GaussianSuffStat.observe_real s x).n = s.n + 1 := rfl

theorem gauss_obs_sum_x (s : Gen.GaussianSuffStat R) (x : R) :
    (Gen.GaussianSuffStat.sum_x (Gen.GaussianSuffStat.observe_real s x)).val
      = (Gen.GaussianSuffStat.sum_x s).val + x.val := by
  have hn : ((s.n : ℝ) + 1) ≠ 0 := by positivity
  simp only [Gen.GaussianSuffStat.sum_x, Gen.GaussianSuffStat.observe_real, mulAdd, RealLike.recip, R.mul_val,
    R.add_val, R.sub_val, R.div_val, R.ofNatR_val, lit1]
  push_cast; field_simp; ring

theorem gauss_obs_sum_x_sq (s : Gen.GaussianSuffStat R) (x : R) :
    (Gen.GaussianSuffStat.sum_x_sq (Gen.GaussianSuffStat.observe_real s x)).val
      = (Gen.GaussianSuffStat.sum_x_sq s).val + x.val ^ 2 := by
  have hn : ((s.n : ℝ) + 1) ≠ 0 := by positivity
  simp only [Gen.GaussianSuffStat.sum_x_sq, Gen.GaussianSuffStat.get_mean, Gen.GaussianSuffStat.observe_real, mulAdd,
    RealLike.recip, R.mul_val, R.add_val, R.sub_val, R.div_val, R.ofNatR_val, lit1]
  push_cast; field_simp; ring

theorem gauss_obs_sx (s : Gen.GaussianSuffStat R) (x : R) (h : 0 ≤ s.sx.val) :
    0 ≤ (Gen.GaussianSuffStat.observe_real s x).sx.val := by
  have hn : (0 : ℝ) < (s.n : ℝ) + 1 := by positivity
  have hn0 : (0 : ℝ) ≤ (s.n : ℝ) := by positivity
  have key : (Gen.GaussianSuffStat.observe_real s x).sx.val
      = s.sx.val + (x.val - s.mean.val) ^ 2 * ((s.n : ℝ) / ((s.n : ℝ) + 1)) := by
    simp only [Gen.GaussianSuffStat.observe_real, mulAdd, RealLike.recip, R.mul_val, R.add_val, R.sub_val,
      R.div_val, R.ofNatR_val, lit1]
    push_cast; field_simp; ring
  rw [key]; positivity

/-- the three real numbers the Gaussian priors read from a statistic, and the invariant `sx ≥ 0` -/
theorem gauss_fold (s : Gen.GaussianSuffStat R) (xs : List R) :
    let t := xs.foldl (fun st y => Gen.GaussianSuffStat.observe_real st y) s
    t.n = s.n + xs.length ∧
    (Gen.GaussianSuffStat.sum_x t).val = (Gen.GaussianSuffStat.sum_x s).val + (xs.map R.val).sum ∧
    (Gen.GaussianSuffStat.sum_x_sq t).val
      = (Gen.GaussianSuffStat.sum_x_sq s).val + (xs.map (fun x => x.val ^ 2)).sum ∧
    (0 ≤ s.sx.val → 0 ≤ t.sx.val) := by
  induction xs generalizing s with
  | nil => simp
  | cons x xs ih =>
    have := ih (Gen.GaussianSuffStat.observe_real s x)
    simp only [List.foldl_cons, List.length_cons, List.map_cons, List.sum_cons] at this ⊢
    obtain ⟨h1, h2, h3, h4⟩ := this
    refine ⟨?_, ?_, ?_, ?_⟩
    · rw [h1, gauss_obs_n]; omega
    · rw [h2, gauss_obs_sum_x]; ring
    · rw [h3, gauss_obs_sum_x_sq]; ring
    · intro h; exact h4 (gauss_obs_sx s x h)

theorem gauss_new_sum_x : (Gen.GaussianSuffStat.sum_x (Gen.GaussianSuffStat.new (α := R))).val = 0 := by
  simp [Gen.GaussianSuffStat.sum_x, Gen.GaussianSuffStat.new, r00]

theorem gauss_new_sum_x_sq : (Gen.GaussianSuffStat.sum_x_sq (Gen.GaussianSuffStat.new (α := R))).val = 0 := by
  simp [Gen.GaussianSuffStat.sum_x_sq, Gen.GaussianSuffStat.get_mean, Gen.GaussianSuffStat.new, r00]

/-- Σ of the generated Gaussian log-likelihood in terms of n, Σx, Σx² -/
theorem gauss_loglik (θ : Gen.Gaussian R) (hσ : 0 < θ.sigma.val) (xs : List R) :
    (xs.map (fun x => (Gen.Gaussian.ln_f_real θ x).val)).sum
      = -(xs.length : ℝ) * (Real.log θ.sigma.val + Real.log (2 * π) / 2)
        - ((xs.map (fun x => x.val ^ 2)).sum - 2 * θ.mu.val * (xs.map R.val).sum
            + (xs.length : ℝ) * θ.mu.val ^ 2) / (2 * θ.sigma.val ^ 2) := by
  have h : θ.sigma.val ≠ 0 := ne_of_gt hσ
  induction xs with
  | nil => simp
  | cons x xs ih =>
    rw [List.map_cons, List.sum_cons, ih]
    simp only [List.map_cons, List.sum_cons, Gen.Gaussian.ln_f_real, Gen.Gaussian.ln_sigma, mulAdd, R.add_val,
      R.sub_val, R.mul_val, R.div_val, R.neg_val, R.ln_val, R.halfLn2Pi_val, lit05, List.length_cons]
    push_cast; field_simp; ring

end C05L

/-! ### validity predicates (= what the checked constructors enforce; finiteness is automatic on `R`)
    and the sufficient statistics exactly as the `posterior` functions build them from raw data -/
namespace C05
open C05L

/-- what `Beta::new` enforces -/
def BetaValid (pr : Gen.Beta R) : Prop := 0 < pr.alpha.val ∧ 0 < pr.beta.val
/-- what `UnitPowerLaw::new` enforces -/
def UnitPowerLawValid (pr : Gen.UnitPowerLaw R) : Prop := 0 < pr.alpha.val
/-- what `Gamma::new` enforces -/
def GammaValid (pr : Gen.Gamma R) : Prop := 0 < pr.shape.val ∧ 0 < pr.rate.val
/-- what `NormalGamma::new` enforces -/
def NormalGammaValid (pr : Gen.NormalGamma R) : Prop := 0 < pr.r.val ∧ 0 < pr.s.val ∧ 0 < pr.v.val
/-- what `NormalInvGamma::new` enforces -/
def NormalInvGammaValid (pr : Gen.NormalInvGamma R) : Prop := 0 < pr.v.val ∧ 0 < pr.a.val ∧ 0 < pr.b.val
/-- what `NormalInvChiSquared::new` enforces -/
def NormalInvChiSquaredValid (pr : Gen.NormalInvChiSquared R) : Prop := 0 < pr.k.val ∧ 0 < pr.v.val ∧ 0 < pr.s2.val

/-- the sufficient statistic of a Boolean data set, as `posterior` builds it -/
noncomputable def bernStat (xs : List Bool) : Gen.BernoulliSuffStat R :=
  xs.foldl (fun st x => Gen.BernoulliSuffStat.observe_bool st x) Gen.BernoulliSuffStat.new

theorem bernStat_eq (xs : List Bool) : bernStat xs = ⟨xs.length, xs.count true⟩ := by
  simp [bernStat, bern_fold_bool, Gen.BernoulliSuffStat.new]

/-- the same for 0/1 data given as integers -/
noncomputable def bernStatNat (xs : List Nat) : Gen.BernoulliSuffStat R :=
  xs.foldl (fun st x => Gen.BernoulliSuffStat.observe_nat st x) Gen.BernoulliSuffStat.new

theorem bernStatNat_eq (xs : List Nat) : bernStatNat xs = ⟨xs.length, xs.count 1⟩ := by
  simp [bernStatNat, bern_fold_nat, Gen.BernoulliSuffStat.new]

/-- the Poisson statistic of a data set -/
noncomputable def poisStat (xs : List Nat) : Gen.PoissonSuffStat R :=
  xs.foldl (fun st x => Gen.PoissonSuffStat.observe_nat st x) Gen.PoissonSuffStat.new

theorem poisStat_facts (xs : List Nat) :
    (poisStat xs).n = xs.length ∧ (poisStat xs).sum.val = ((xs.sum : ℕ) : ℝ) ∧
    (poisStat xs).sum_ln_fact.val = (xs.map (fun x => (Gen.ln_fact (α := R) x).val)).sum := by
  have h := pois_fold (Gen.PoissonSuffStat.new (α := R)) xs
  simp only [Gen.PoissonSuffStat.new, lit0, zero_add] at h
  exact h

/-- the Gaussian (Welford) statistic of a data set -/
noncomputable def gaussStat (xs : List R) : Gen.GaussianSuffStat R :=
  xs.foldl (fun st y => Gen.GaussianSuffStat.observe_real st y) Gen.GaussianSuffStat.new

theorem gaussStat_facts (xs : List R) :
    (gaussStat xs).n = xs.length ∧
    (Gen.GaussianSuffStat.sum_x (gaussStat xs)).val = (xs.map R.val).sum ∧
    (Gen.GaussianSuffStat.sum_x_sq (gaussStat xs)).val = (xs.map (fun x => x.val ^ 2)).sum ∧
    0 ≤ (gaussStat xs).sx.val := by
  have h := gauss_fold (Gen.GaussianSuffStat.new (α := R)) xs
  simp only [gauss_new_sum_x, gauss_new_sum_x_sq, zero_add] at h
  obtain ⟨h1, h2, h3, h4⟩ := h
  refine ⟨?_, h2, h3, h4 ?_⟩
  · rw [gaussStat, h1]; simp [Gen.GaussianSuffStat.new]
  · simp [Gen.GaussianSuffStat.new, r00]


theorem gaussStat_append (xs ys : List R) :
    (gaussStat (xs ++ ys)).n = (gaussStat xs).n + (gaussStat ys).n ∧
    (Gen.GaussianSuffStat.sum_x (gaussStat (xs ++ ys))).val
      = (Gen.GaussianSuffStat.sum_x (gaussStat xs)).val + (Gen.GaussianSuffStat.sum_x (gaussStat ys)).val ∧
    (Gen.GaussianSuffStat.sum_x_sq (gaussStat (xs ++ ys))).val
      = (Gen.GaussianSuffStat.sum_x_sq (gaussStat xs)).val + (Gen.GaussianSuffStat.sum_x_sq (gaussStat ys)).val := by
  obtain ⟨a1, a2, a3, _⟩ := gaussStat_facts xs
  obtain ⟨b1, b2, b3, _⟩ := gaussStat_facts ys
  obtain ⟨c1, c2, c3, _⟩ := gaussStat_facts (xs ++ ys)
  rw [a1, a2, a3, b1, b2, b3, c1, c2, c3]
  simp [List.sum_append]

/-- Welford coordinates of the two sums -/
theorem gauss_sum_x_eq (st : Gen.GaussianSuffStat R) :
    (Gen.GaussianSuffStat.sum_x st).val = st.mean.val * (st.n : ℝ) := by
  simp [Gen.GaussianSuffStat.sum_x]

theorem gauss_sum_x_sq_eq (st : Gen.GaussianSuffStat R) :
    (Gen.GaussianSuffStat.sum_x_sq st).val = st.mean.val * st.mean.val * (st.n : ℝ) + st.sx.val := by
  simp [Gen.GaussianSuffStat.sum_x_sq, Gen.GaussianSuffStat.get_mean]

/-! ### NormalGamma: `posterior_from_stat` on a valid prior and a statistic with `sx ≥ 0` -/

/-- the four arguments `posterior_from_stat` (normal_gamma) passes to `NormalGamma::new` -/
noncomputable def ngM (pr : Gen.NormalGamma R) (st : Gen.GaussianSuffStat R) : R :=
  (pr.m * pr.r + Gen.GaussianSuffStat.sum_x st) / (pr.r + RealLike.ofNatR st.n)
noncomputable def ngR (pr : Gen.NormalGamma R) (st : Gen.GaussianSuffStat R) : R := pr.r + RealLike.ofNatR st.n
noncomputable def ngS (pr : Gen.NormalGamma R) (st : Gen.GaussianSuffStat R) : R :=
  pr.s + Gen.GaussianSuffStat.sum_x_sq st + (pr.r * (pr.m * pr.m) + -(ngR pr st) * (ngM pr st) * (ngM pr st))
noncomputable def ngV (pr : Gen.NormalGamma R) (st : Gen.GaussianSuffStat R) : R := pr.v + RealLike.ofNatR st.n

theorem NG_post_stat (pr : Gen.NormalGamma R) (hpr : NormalGammaValid pr) (st : Gen.GaussianSuffStat R)
    (hst : 0 ≤ st.sx.val) :
    Gen.NormalGamma.new (ngM pr st) (ngR pr st) (ngS pr st) (ngV pr st)
        = .ok ⟨ngM pr st, ngR pr st, ngS pr st, ngV pr st⟩
    ∧ Gen.posterior_from_stat_normal_gamma pr st = ⟨ngM pr st, ngR pr st, ngS pr st, ngV pr st⟩
    ∧ (Gen.posterior_from_stat_normal_gamma pr st).m.val
        = (pr.m.val * pr.r.val + (Gen.GaussianSuffStat.sum_x st).val) / (pr.r.val + (st.n : ℝ))
    ∧ (Gen.posterior_from_stat_normal_gamma pr st).r.val = pr.r.val + (st.n : ℝ)
    ∧ (Gen.posterior_from_stat_normal_gamma pr st).s.val
        = pr.s.val + (Gen.GaussianSuffStat.sum_x_sq st).val + pr.r.val * pr.m.val ^ 2
          - (pr.m.val * pr.r.val + (Gen.GaussianSuffStat.sum_x st).val) ^ 2 / (pr.r.val + (st.n : ℝ))
    ∧ (Gen.posterior_from_stat_normal_gamma pr st).v.val = pr.v.val + (st.n : ℝ)
    ∧ NormalGammaValid (Gen.posterior_from_stat_normal_gamma pr st) := by
  obtain ⟨hr, hs, hv⟩ := hpr
  have hn : (0 : ℝ) ≤ (st.n : ℝ) := by positivity
  have hrn : 0 < pr.r.val + (st.n : ℝ) := by linarith
  have hrn0 : pr.r.val + (st.n : ℝ) ≠ 0 := ne_of_gt hrn
  have hs' : 0 < pr.s.val + (Gen.GaussianSuffStat.sum_x_sq st).val + pr.r.val * pr.m.val ^ 2
          - (pr.m.val * pr.r.val + (Gen.GaussianSuffStat.sum_x st).val) ^ 2 / (pr.r.val + (st.n : ℝ)) := by
    have e : pr.s.val + (Gen.GaussianSuffStat.sum_x_sq st).val + pr.r.val * pr.m.val ^ 2
          - (pr.m.val * pr.r.val + (Gen.GaussianSuffStat.sum_x st).val) ^ 2 / (pr.r.val + (st.n : ℝ))
        = pr.s.val + st.sx.val
          + pr.r.val * (st.n : ℝ) * (pr.m.val - st.mean.val) ^ 2 / (pr.r.val + (st.n : ℝ)) := by
      rw [gauss_sum_x_eq, gauss_sum_x_sq_eq]; field_simp; ring
    rw [e]; positivity
  have hnew : Gen.NormalGamma.new (ngM pr st) (ngR pr st) (ngS pr st) (ngV pr st)
        = .ok ⟨ngM pr st, ngR pr st, ngS pr st, ngV pr st⟩ := by
    apply NormalGamma_new_ok
    · simp only [ngR, R.add_val, R.ofNatR_val]; exact hrn
    · refine lt_of_lt_of_eq hs' ?_
      simp only [ngS, ngR, ngM, R.add_val, R.mul_val, R.div_val, R.neg_val, R.ofNatR_val]
      field_simp; ring
    · simp only [ngV, R.add_val, R.ofNatR_val]; linarith
  have E : Gen.posterior_from_stat_normal_gamma pr st = ⟨ngM pr st, ngR pr st, ngS pr st, ngV pr st⟩ := by
    have := hnew
    simp only [ngM, ngR, ngS, ngV] at this
    simp only [Gen.posterior_from_stat_normal_gamma, Gen.GaussianSuffStat.get_n, Gen.NormalGamma.get_r,
      Gen.NormalGamma.get_v, Gen.NormalGamma.get_m, Gen.NormalGamma.get_s, mulAdd, this, ngM, ngR, ngS, ngV]
  refine ⟨hnew, E, ?_⟩
  rw [E]
  refine ⟨?_, ?_, ?_, ?_, ?_, ?_, ?_⟩
  · simp only [ngM, R.add_val, R.mul_val, R.div_val, R.ofNatR_val]
  · simp only [ngR, R.add_val, R.ofNatR_val]
  · simp only [ngS, ngR, ngM, R.add_val, R.mul_val, R.div_val, R.neg_val, R.ofNatR_val]
    field_simp; ring
  · simp only [ngV, R.add_val, R.ofNatR_val]
  · simp only [ngR, R.add_val, R.ofNatR_val]; exact hrn
  · refine lt_of_lt_of_eq hs' ?_
    simp only [ngS, ngR, ngM, R.add_val, R.mul_val, R.div_val, R.neg_val, R.ofNatR_val]
    field_simp; ring
  · simp only [ngV, R.add_val, R.ofNatR_val]; linarith

/-- Σ (xᵢ − c)² in terms of n, Σx, Σx² -/
theorem sum_sq_dev (xs : List R) (c : ℝ) :
    (xs.map (fun x => (x.val - c) ^ 2)).sum
      = (xs.map (fun x => x.val ^ 2)).sum - 2 * c * (xs.map R.val).sum + (xs.length : ℝ) * c ^ 2 := by
  induction xs with
  | nil => simp
  | cons x xs ih =>
    rw [List.map_cons, List.sum_cons, ih]
    simp only [List.map_cons, List.sum_cons, List.length_cons]
    push_cast; ring

theorem half_mul' (x : ℝ) : 1 / 2 * x = x / 2 := by ring

/-- closed form of the generated Normal-Gamma log-density at a Gaussian `(μ, σ)`, logs expanded -/
theorem NG_ln_f_closed (q : Gen.NormalGamma R) (hq : NormalGammaValid q) (θ : Gen.Gaussian R)
    (hσ : 0 < θ.sigma.val) :
    (Gen.NormalGamma.ln_f_Gaussian q θ).val
      = q.v.val / 2 * (Real.log q.s.val - Real.log 2) - Real.log (Real.Gamma (q.v.val / 2))
        + (q.v.val / 2 - 1) * (-2 * Real.log θ.sigma.val) - q.s.val / 2 / θ.sigma.val ^ 2
        - q.r.val * (θ.mu.val - q.m.val) ^ 2 / (2 * θ.sigma.val ^ 2)
        - (Real.log θ.sigma.val - Real.log q.r.val / 2) - Real.log (2 * π) / 2 := by
  obtain ⟨hr, hs, hv⟩ := hq
  obtain ⟨t, ht, hrt⟩ : ∃ t : ℝ, 0 < t ∧ q.r.val = t ^ 2 :=
    ⟨Real.sqrt q.r.val, Real.sqrt_pos.2 hr, (Real.sq_sqrt hr.le).symm⟩
  have hσ0 : θ.sigma.val ≠ 0 := hσ.ne'
  have hs0 : q.s.val ≠ 0 := hs.ne'
  have ht0 : t ≠ 0 := ht.ne'
  have e1 : Real.sqrt (1 / (t ^ 2 * (1 / (θ.sigma.val * θ.sigma.val)))) = θ.sigma.val / t := by
    rw [show (1 / (t ^ 2 * (1 / (θ.sigma.val * θ.sigma.val)))) = (θ.sigma.val / t) ^ 2 by field_simp]
    exact Real.sqrt_sq (by positivity)
  have e2 : Real.log (1 / (θ.sigma.val * θ.sigma.val)) = -2 * Real.log θ.sigma.val := by
    rw [one_div, Real.log_inv, Real.log_mul hσ0 hσ0]; ring
  have e3 : Real.log (q.s.val / 2) = Real.log q.s.val - Real.log 2 := Real.log_div hs0 two_ne_zero
  have e4 : Real.log (θ.sigma.val / t) = Real.log θ.sigma.val - Real.log t := Real.log_div hσ0 ht0
  have e5 : Real.log (t ^ 2) = 2 * Real.log t := by rw [Real.log_pow]; norm_num
  simp only [Gen.NormalGamma.ln_f_Gaussian, Gen.Gamma.ln_f_real, Gen.Gamma.new_unchecked, Gen.Gamma.ln_rate,
    Gen.Gamma.ln_gamma_shape, Gen.Gaussian.ln_f_real, Gen.Gaussian.new_unchecked, Gen.Gaussian.ln_sigma,
    Gen.Gaussian.get_sigma, Gen.Gaussian.get_mu, mulAdd, RealLike.recip, R.add_val, R.sub_val, R.mul_val, R.div_val,
    R.neg_val, R.ln_val, R.sqrt_val, R.lgamma_val, R.halfLn2Pi_val, lit1, lit2, lit05, hrt, e1, e2, e3, e4, e5]
  field_simp
  ring

/-- closed form of the generated `ln_z` of the Normal-Gamma family -/
theorem NG_ln_z_closed (r s v : R) :
    (Gen.ln_z_normal_gamma r s v).val
      = (v.val / 2 + 1 / 2) * Real.log 2 + Real.log π / 2
        - (Real.log r.val / 2 + v.val / 2 * Real.log s.val - Real.log (Real.Gamma (v.val / 2))) := by
  simp only [Gen.ln_z_normal_gamma, mulAdd, R.add_val, R.sub_val, R.mul_val, R.neg_val, R.ln_val, R.lgamma_val,
    R.halfLnPi_val, R.ln2_val, lit05, half_mul']
  ring


/-! ### NormalInvGamma: `posterior_from_stat` on a valid prior and a statistic with `sx ≥ 0` -/

/-- the four arguments `posterior_from_stat` (normal_inv_gamma) passes to `NormalInvGamma::new` -/
noncomputable def nigM (pr : Gen.NormalInvGamma R) (st : Gen.GaussianSuffStat R) : R :=
  (RealLike.recip pr.v * pr.m + Gen.GaussianSuffStat.sum_x st) / (RealLike.recip pr.v + RealLike.ofNatR st.n)
noncomputable def nigV (pr : Gen.NormalInvGamma R) (st : Gen.GaussianSuffStat R) : R :=
  RealLike.recip (RealLike.recip pr.v + RealLike.ofNatR st.n)
noncomputable def nigA (pr : Gen.NormalInvGamma R) (st : Gen.GaussianSuffStat R) : R :=
  RealLike.ofNatR st.n * (0.5 : R) + pr.a
noncomputable def nigB (pr : Gen.NormalInvGamma R) (st : Gen.GaussianSuffStat R) : R :=
  ((-(nigM pr st)) * (nigM pr st) * (RealLike.recip pr.v + RealLike.ofNatR st.n)
      + (pr.m * pr.m * RealLike.recip pr.v + Gen.GaussianSuffStat.sum_x_sq st)) * (0.5 : R) + pr.b

theorem NIG_post_stat (pr : Gen.NormalInvGamma R) (hpr : NormalInvGammaValid pr) (st : Gen.GaussianSuffStat R)
    (hst : 0 ≤ st.sx.val) :
    Gen.NormalInvGamma.new (nigM pr st) (nigV pr st) (nigA pr st) (nigB pr st)
        = .ok ⟨nigM pr st, nigV pr st, nigA pr st, nigB pr st⟩
    ∧ Gen.posterior_from_stat_normal_inv_gamma pr st = ⟨nigM pr st, nigV pr st, nigA pr st, nigB pr st⟩
    ∧ (Gen.posterior_from_stat_normal_inv_gamma pr st).m.val
        = (pr.m.val / pr.v.val + (Gen.GaussianSuffStat.sum_x st).val) / (1 / pr.v.val + (st.n : ℝ))
    ∧ (Gen.posterior_from_stat_normal_inv_gamma pr st).v.val = 1 / (1 / pr.v.val + (st.n : ℝ))
    ∧ (Gen.posterior_from_stat_normal_inv_gamma pr st).a.val = pr.a.val + (st.n : ℝ) / 2
    ∧ (Gen.posterior_from_stat_normal_inv_gamma pr st).b.val
        = pr.b.val + (pr.m.val ^ 2 / pr.v.val + (Gen.GaussianSuffStat.sum_x_sq st).val
            - (pr.m.val / pr.v.val + (Gen.GaussianSuffStat.sum_x st).val) ^ 2 / (1 / pr.v.val + (st.n : ℝ))) / 2
    ∧ NormalInvGammaValid (Gen.posterior_from_stat_normal_inv_gamma pr st) := by
  obtain ⟨hv, ha, hb⟩ := hpr
  have hn : (0 : ℝ) ≤ (st.n : ℝ) := by positivity
  have hv0 : pr.v.val ≠ 0 := hv.ne'
  have hw : 0 < 1 / pr.v.val + (st.n : ℝ) := by positivity
  have hw0 : 1 / pr.v.val + (st.n : ℝ) ≠ 0 := hw.ne'
  have hb' : 0 < pr.b.val + (pr.m.val ^ 2 / pr.v.val + (Gen.GaussianSuffStat.sum_x_sq st).val
            - (pr.m.val / pr.v.val + (Gen.GaussianSuffStat.sum_x st).val) ^ 2 / (1 / pr.v.val + (st.n : ℝ))) / 2 := by
    have e : pr.b.val + (pr.m.val ^ 2 / pr.v.val + (Gen.GaussianSuffStat.sum_x_sq st).val
            - (pr.m.val / pr.v.val + (Gen.GaussianSuffStat.sum_x st).val) ^ 2 / (1 / pr.v.val + (st.n : ℝ))) / 2
        = pr.b.val + (st.sx.val
            + (st.n : ℝ) / pr.v.val * (pr.m.val - st.mean.val) ^ 2 / (1 / pr.v.val + (st.n : ℝ))) / 2 := by
      rw [gauss_sum_x_eq, gauss_sum_x_sq_eq]; field_simp; ring
    rw [e]; positivity
  have hnew : Gen.NormalInvGamma.new (nigM pr st) (nigV pr st) (nigA pr st) (nigB pr st)
        = .ok ⟨nigM pr st, nigV pr st, nigA pr st, nigB pr st⟩ := by
    apply NormalInvGamma_new_ok
    · simp only [nigV, RealLike.recip, R.add_val, R.div_val, R.ofNatR_val, lit1]; positivity
    · simp only [nigA, R.add_val, R.mul_val, R.ofNatR_val, lit05]; positivity
    · refine lt_of_lt_of_eq hb' ?_
      simp only [nigB, nigM, RealLike.recip, R.add_val, R.mul_val, R.div_val, R.neg_val, R.ofNatR_val, lit1, lit05]
      field_simp; ring
  have E : Gen.posterior_from_stat_normal_inv_gamma pr st = ⟨nigM pr st, nigV pr st, nigA pr st, nigB pr st⟩ := by
    have := hnew
    simp only [nigM, nigV, nigA, nigB] at this
    simp only [Gen.posterior_from_stat_normal_inv_gamma, Gen.NormalInvGamma.emit_params, Gen.GaussianSuffStat.get_n,
      Gen.NormalInvGamma.get_m, Gen.NormalInvGamma.get_v, Gen.NormalInvGamma.get_a, Gen.NormalInvGamma.get_b, mulAdd,
      this, nigM, nigV, nigA, nigB]
  refine ⟨hnew, E, ?_⟩
  rw [E]
  refine ⟨?_, ?_, ?_, ?_, ?_, ?_, ?_⟩
  · simp only [nigM, RealLike.recip, R.add_val, R.mul_val, R.div_val, R.ofNatR_val, lit1]; ring
  · simp only [nigV, RealLike.recip, R.add_val, R.div_val, R.ofNatR_val, lit1]
  · simp only [nigA, R.add_val, R.mul_val, R.ofNatR_val, lit05]; ring
  · simp only [nigB, nigM, RealLike.recip, R.add_val, R.mul_val, R.div_val, R.neg_val, R.ofNatR_val, lit1, lit05]
    field_simp; ring
  · simp only [nigV, RealLike.recip, R.add_val, R.div_val, R.ofNatR_val, lit1]; positivity
  · simp only [nigA, R.add_val, R.mul_val, R.ofNatR_val, lit05]; positivity
  · refine lt_of_lt_of_eq hb' ?_
    simp only [nigB, nigM, RealLike.recip, R.add_val, R.mul_val, R.div_val, R.neg_val, R.ofNatR_val, lit1, lit05]
    field_simp; ring

/-- closed form of the generated Normal-Inverse-Gamma log-density at a Gaussian `(μ, σ)`, logs expanded -/
theorem NIG_ln_f_closed (q : Gen.NormalInvGamma R) (hq : NormalInvGammaValid q) (θ : Gen.Gaussian R)
    (hσ : 0 < θ.sigma.val) :
    (Gen.NormalInvGamma.ln_f_Gaussian q θ).val
      = -(q.a.val + 1) * (2 * Real.log θ.sigma.val) + q.a.val * Real.log q.b.val - Real.log (Real.Gamma q.a.val)
        - q.b.val / θ.sigma.val ^ 2
        - (θ.mu.val - q.m.val) ^ 2 / (2 * q.v.val * θ.sigma.val ^ 2)
        - (Real.log q.v.val / 2 + Real.log θ.sigma.val) - Real.log (2 * π) / 2 := by
  obtain ⟨hv, ha, hb⟩ := hq
  obtain ⟨t, ht, hvt⟩ : ∃ t : ℝ, 0 < t ∧ q.v.val = t ^ 2 :=
    ⟨Real.sqrt q.v.val, Real.sqrt_pos.2 hv, (Real.sq_sqrt hv.le).symm⟩
  have hσ0 : θ.sigma.val ≠ 0 := hσ.ne'
  have ht0 : t ≠ 0 := ht.ne'
  have e1 : Real.sqrt (t ^ 2) = t := Real.sqrt_sq ht.le
  have e2 : Real.log (θ.sigma.val * θ.sigma.val) = 2 * Real.log θ.sigma.val := by
    rw [Real.log_mul hσ0 hσ0]; ring
  have e4 : Real.log (t * θ.sigma.val) = Real.log t + Real.log θ.sigma.val := Real.log_mul ht0 hσ0
  have e5 : Real.log (t ^ 2) = 2 * Real.log t := by rw [Real.log_pow]; norm_num
  simp only [Gen.NormalInvGamma.ln_f_Gaussian, Gen.InvGamma.ln_f_real, Gen.InvGamma.new_unchecked,
    Gen.Gaussian.ln_f_real, Gen.Gaussian.new_unchecked, Gen.Gaussian.ln_sigma,
    Gen.Gaussian.get_sigma, Gen.Gaussian.get_mu, mulAdd, R.add_val, R.sub_val, R.mul_val, R.div_val,
    R.neg_val, R.ln_val, R.sqrt_val, R.lgamma_val, R.halfLn2Pi_val, lit1, lit05, hvt, e1, e2, e4, e5]
  field_simp
  ring

/-- closed form of the generated `ln_z` of the Normal-Inverse-Gamma family -/
theorem NIG_ln_z_closed (v a b : R) :
    (Gen.ln_z_normal_inv_gamma v a b).val
      = Real.log v.val / 2 + Real.log (Real.Gamma a.val) - a.val * Real.log b.val := by
  simp only [Gen.ln_z_normal_inv_gamma, mulAdd, R.add_val, R.mul_val, R.neg_val, R.ln_val, R.lgamma_val, lit05]
  ring


/-! ### NormalInvChiSquared: `posterior_from_stat` (early return at `n = 0`) -/

/-- the four arguments `posterior_from_stat` (normal_inv_chi_squared) passes to `NormalInvChiSquared::new` -/
noncomputable def nixM (pr : Gen.NormalInvChiSquared R) (st : Gen.GaussianSuffStat R) : R :=
  (pr.k * pr.m + st.mean * RealLike.ofNatR st.n) * RealLike.recip (pr.k + RealLike.ofNatR st.n)
noncomputable def nixK (pr : Gen.NormalInvChiSquared R) (st : Gen.GaussianSuffStat R) : R :=
  pr.k + RealLike.ofNatR st.n
noncomputable def nixV (pr : Gen.NormalInvChiSquared R) (st : Gen.GaussianSuffStat R) : R :=
  pr.v + RealLike.ofNatR st.n
noncomputable def nixS2 (pr : Gen.NormalInvChiSquared R) (st : Gen.GaussianSuffStat R) : R :=
  (RealLike.ofNatR st.n * pr.k * RealLike.recip (pr.k + RealLike.ofNatR st.n) * (pr.m - st.mean) * (pr.m - st.mean)
    + (pr.v * pr.s2 + (RealLike.ofNatR st.n * st.mean * (-st.mean) + Gen.GaussianSuffStat.sum_x_sq st)))
  / (pr.v + RealLike.ofNatR st.n)

theorem NIX_post_stat (pr : Gen.NormalInvChiSquared R) (hpr : NormalInvChiSquaredValid pr)
    (st : Gen.GaussianSuffStat R) (hst : 0 ≤ st.sx.val) (hst0 : st.n = 0 → st.sx.val = 0) :
    (st.n = 0 → Gen.posterior_from_stat_normal_inv_chi_squared pr st = pr)
    ∧ (st.n ≠ 0 →
        Gen.NormalInvChiSquared.new (nixM pr st) (nixK pr st) (nixV pr st) (nixS2 pr st)
          = .ok ⟨nixM pr st, nixK pr st, nixV pr st, nixS2 pr st⟩
        ∧ Gen.posterior_from_stat_normal_inv_chi_squared pr st = ⟨nixM pr st, nixK pr st, nixV pr st, nixS2 pr st⟩)
    ∧ (Gen.posterior_from_stat_normal_inv_chi_squared pr st).m.val
        = (pr.k.val * pr.m.val + (Gen.GaussianSuffStat.sum_x st).val) / (pr.k.val + (st.n : ℝ))
    ∧ (Gen.posterior_from_stat_normal_inv_chi_squared pr st).k.val = pr.k.val + (st.n : ℝ)
    ∧ (Gen.posterior_from_stat_normal_inv_chi_squared pr st).v.val = pr.v.val + (st.n : ℝ)
    ∧ (Gen.posterior_from_stat_normal_inv_chi_squared pr st).s2.val
        = (pr.v.val * pr.s2.val + (Gen.GaussianSuffStat.sum_x_sq st).val + pr.k.val * pr.m.val ^ 2
            - (pr.k.val * pr.m.val + (Gen.GaussianSuffStat.sum_x st).val) ^ 2 / (pr.k.val + (st.n : ℝ)))
          / (pr.v.val + (st.n : ℝ))
    ∧ NormalInvChiSquaredValid (Gen.posterior_from_stat_normal_inv_chi_squared pr st) := by
  obtain ⟨hk, hv, hs2⟩ := hpr
  have hn : (0 : ℝ) ≤ (st.n : ℝ) := by positivity
  have hk0 : pr.k.val ≠ 0 := hk.ne'
  have hv0 : pr.v.val ≠ 0 := hv.ne'
  have hkn : 0 < pr.k.val + (st.n : ℝ) := by positivity
  have hvn : 0 < pr.v.val + (st.n : ℝ) := by positivity
  have hkn0 := hkn.ne'
  have hvn0 := hvn.ne'
  by_cases h0 : st.n = 0
  · -- early return
    have E : Gen.posterior_from_stat_normal_inv_chi_squared pr st = pr := by
      simp [Gen.posterior_from_stat_normal_inv_chi_squared, Gen.GaussianSuffStat.get_n, h0]
    refine ⟨fun _ => E, fun h => absurd h0 h, ?_⟩
    rw [E, gauss_sum_x_eq, gauss_sum_x_sq_eq, hst0 h0, h0]
    simp only [Nat.cast_zero, mul_zero, add_zero]
    refine ⟨by field_simp, trivial, trivial, by field_simp; ring, hk, hv, hs2⟩
  · have hs2' : 0 < (pr.v.val * pr.s2.val + (Gen.GaussianSuffStat.sum_x_sq st).val + pr.k.val * pr.m.val ^ 2
            - (pr.k.val * pr.m.val + (Gen.GaussianSuffStat.sum_x st).val) ^ 2 / (pr.k.val + (st.n : ℝ)))
          / (pr.v.val + (st.n : ℝ)) := by
      have e : pr.v.val * pr.s2.val + (Gen.GaussianSuffStat.sum_x_sq st).val + pr.k.val * pr.m.val ^ 2
            - (pr.k.val * pr.m.val + (Gen.GaussianSuffStat.sum_x st).val) ^ 2 / (pr.k.val + (st.n : ℝ))
          = pr.v.val * pr.s2.val + st.sx.val
            + (st.n : ℝ) * pr.k.val * (pr.m.val - st.mean.val) ^ 2 / (pr.k.val + (st.n : ℝ)) := by
        rw [gauss_sum_x_eq, gauss_sum_x_sq_eq]; field_simp; ring
      rw [e]; positivity
    have hnew : Gen.NormalInvChiSquared.new (nixM pr st) (nixK pr st) (nixV pr st) (nixS2 pr st)
          = .ok ⟨nixM pr st, nixK pr st, nixV pr st, nixS2 pr st⟩ := by
      apply NormalInvChiSquared_new_ok
      · simp only [nixK, R.add_val, R.ofNatR_val]; exact hkn
      · simp only [nixV, R.add_val, R.ofNatR_val]; exact hvn
      · refine lt_of_lt_of_eq hs2' ?_
        rw [gauss_sum_x_eq, gauss_sum_x_sq_eq]
        simp only [nixS2, gauss_sum_x_sq_eq, RealLike.recip, R.add_val, R.sub_val, R.mul_val, R.div_val, R.neg_val,
          R.ofNatR_val, lit1]
        field_simp; ring
    have E : Gen.posterior_from_stat_normal_inv_chi_squared pr st
        = ⟨nixM pr st, nixK pr st, nixV pr st, nixS2 pr st⟩ := by
      have := hnew
      simp only [nixM, nixK, nixV, nixS2] at this
      simp only [Gen.posterior_from_stat_normal_inv_chi_squared, Gen.NormalInvChiSquared.params,
        Gen.GaussianSuffStat.get_n, Gen.GaussianSuffStat.get_mean, mulAdd, this, nixM, nixK, nixV, nixS2]
      simp [h0]
    refine ⟨fun h => absurd h h0, fun _ => ⟨hnew, E⟩, ?_⟩
    rw [E]
    refine ⟨?_, ?_, ?_, ?_, ?_, ?_, ?_⟩
    · rw [gauss_sum_x_eq]
      simp only [nixM, RealLike.recip, R.add_val, R.mul_val, R.div_val, R.ofNatR_val, lit1]; field_simp
    · simp only [nixK, R.add_val, R.ofNatR_val]
    · simp only [nixV, R.add_val, R.ofNatR_val]
    · rw [gauss_sum_x_eq, gauss_sum_x_sq_eq]
      simp only [nixS2, gauss_sum_x_sq_eq, RealLike.recip, R.add_val, R.sub_val, R.mul_val, R.div_val, R.neg_val,
        R.ofNatR_val, lit1]
      field_simp; ring
    · simp only [nixK, R.add_val, R.ofNatR_val]; exact hkn
    · simp only [nixV, R.add_val, R.ofNatR_val]; exact hvn
    · refine lt_of_lt_of_eq hs2' ?_
      rw [gauss_sum_x_eq, gauss_sum_x_sq_eq]
      simp only [nixS2, gauss_sum_x_sq_eq, RealLike.recip, R.add_val, R.sub_val, R.mul_val, R.div_val, R.neg_val,
        R.ofNatR_val, lit1]
      field_simp; ring

/-- closed form of the generated Normal-Inverse-χ² log-density at a Gaussian `(μ, σ)`, logs expanded -/
theorem NIX_ln_f_closed (q : Gen.NormalInvChiSquared R) (hq : NormalInvChiSquaredValid q) (θ : Gen.Gaussian R)
    (hσ : 0 < θ.sigma.val) :
    (Gen.NormalInvChiSquared.ln_f_Gaussian q θ).val
      = q.v.val / 2 * (Real.log q.s2.val + Real.log q.v.val - Real.log 2) - Real.log (Real.Gamma (q.v.val / 2))
        - q.v.val * q.s2.val / (2 * θ.sigma.val ^ 2) - (q.v.val / 2 + 1) * (2 * Real.log θ.sigma.val)
        - q.k.val * (θ.mu.val - q.m.val) ^ 2 / (2 * θ.sigma.val ^ 2)
        - (Real.log θ.sigma.val - Real.log q.k.val / 2) - Real.log (2 * π) / 2 := by
  obtain ⟨hk, hv, hs2⟩ := hq
  obtain ⟨t, ht, hkt⟩ : ∃ t : ℝ, 0 < t ∧ q.k.val = t ^ 2 :=
    ⟨Real.sqrt q.k.val, Real.sqrt_pos.2 hk, (Real.sq_sqrt hk.le).symm⟩
  have hσ0 : θ.sigma.val ≠ 0 := hσ.ne'
  have ht0 : t ≠ 0 := ht.ne'
  have hv0 : q.v.val ≠ 0 := hv.ne'
  have hs0 : q.s2.val ≠ 0 := hs2.ne'
  have e1 : Real.sqrt (t ^ 2) = t := Real.sqrt_sq ht.le
  have e2 : Real.log (θ.sigma.val * θ.sigma.val) = 2 * Real.log θ.sigma.val := by
    rw [Real.log_mul hσ0 hσ0]; ring
  have e3 : Real.log (q.s2.val * q.v.val * (1 / 2)) = Real.log q.s2.val + Real.log q.v.val - Real.log 2 := by
    rw [Real.log_mul (mul_ne_zero hs0 hv0) (by norm_num), Real.log_mul hs0 hv0, one_div, Real.log_inv]; ring
  have e4 : Real.log (θ.sigma.val / t) = Real.log θ.sigma.val - Real.log t := Real.log_div hσ0 ht0
  have e5 : Real.log (t ^ 2) = 2 * Real.log t := by rw [Real.log_pow]; norm_num
  simp only [Gen.NormalInvChiSquared.ln_f_Gaussian, Gen.NormalInvChiSquared.scaled_inv_x2,
    Gen.ScaledInvChiSquared.new_unchecked, Gen.ScaledInvChiSquared.ln_f_real, Gen.ScaledInvChiSquared.ln_f_const,
    Gen.ScaledInvChiSquared.ln_gamma_v_2, Gen.Gaussian.ln_f_real, Gen.Gaussian.new_unchecked, Gen.Gaussian.ln_sigma,
    Gen.Gaussian.get_sigma, Gen.Gaussian.get_mu, mulAdd, R.add_val, R.sub_val, R.mul_val, R.div_val,
    R.neg_val, R.ln_val, R.sqrt_val, R.lgamma_val, R.halfLn2Pi_val, lit1, lit2, lit05, hkt, e1, e2, e3, e4, e5]
  field_simp
  ring

/-- closed form of the generated `NormalInvChiSquared::ln_z` -/
theorem NIX_ln_z_closed (q : Gen.NormalInvChiSquared R) (hq : NormalInvChiSquaredValid q) :
    (Gen.NormalInvChiSquared.ln_z q).val
      = -(Real.log q.k.val / 2) - q.v.val / 2 * (Real.log q.v.val + Real.log q.s2.val)
        + Real.log (Real.Gamma (q.v.val / 2)) := by
  obtain ⟨_, hv, hs2⟩ := hq
  simp only [Gen.NormalInvChiSquared.ln_z, mulAdd, R.add_val, R.mul_val, R.neg_val, R.ln_val, R.lgamma_val, lit05,
    half_mul', Real.log_mul hv.ne' hs2.ne']
  ring


theorem gaussStat_sx_zero (xs : List R) (h : (gaussStat xs).n = 0) : (gaussStat xs).sx.val = 0 := by
  have hn := (gaussStat_facts xs).1
  rw [hn] at h
  have : xs = [] := List.length_eq_zero_iff.mp h
  subst this
  simp [gaussStat, Gen.GaussianSuffStat.new, r00]


/-! ### Dirichlet / Categorical -/

theorem tryForEach_ok {β ε : Type} (f : β → Except ε Unit) (l : List β) (h : ∀ y ∈ l, f y = .ok ()) :
    tryForEach f l = .ok () := by
  induction l with
  | nil => rfl
  | cons y ys ih =>
    have hy := h y (List.mem_cons_self ..)
    simp only [tryForEach, hy]
    exact ih (fun z hz => h z (List.mem_cons_of_mem _ hz))

/-- what `Dirichlet::new` enforces -/
def DirichletValid (pr : Gen.Dirichlet R) : Prop := pr.alphas ≠ [] ∧ ∀ a ∈ pr.alphas, 0 < a.val
/-- what `SymmetricDirichlet::new` enforces -/
def SymmetricDirichletValid (pr : Gen.SymmetricDirichlet R) : Prop := pr.k ≠ 0 ∧ 0 < pr.alpha.val
/-- a Categorical statistic of dimension `k` with non-negative counts -/
def CatStatValid (k : Nat) (st : Gen.CategoricalSuffStat R) : Prop :=
  st.counts.length = k ∧ ∀ c ∈ st.counts, 0 ≤ c.val

theorem Dirichlet_new_ok (as : List R) (hne : as ≠ []) (hpos : ∀ a ∈ as, 0 < a.val) :
    Gen.Dirichlet.new as = .ok ⟨as⟩ := by
  have h1 : as.isEmpty = false := by cases as <;> simp_all
  have h2 : tryForEach (fun (p : Nat × R) =>
        (if (RealLike.le p.2 (0.0 : R)) then (Except.error (Err.mk "AlphaTooLow" [(RealLike.ofNatR p.1), p.2]))
         else (if (!(RealLike.isFinite p.2)) then
            (Except.error (Err.mk "AlphaNotFinite" [(RealLike.ofNatR p.1), p.2])) else (Except.ok ()))))
      (enumL as) = .ok () := by
    apply tryForEach_ok
    intro p hp
    have hm : p.2 ∈ as := by
      obtain ⟨i, a⟩ := p
      exact (List.of_mem_zip hp).2
    have := hpos _ hm
    simp [R.le_iff, r00, not_le.mpr this]
  simp only [Gen.Dirichlet.new, h1]
  simp only [h2]
  simp

/-- the Categorical statistic of a data set (dimension `k`), as `posterior` builds it -/
noncomputable def catStat (k : Nat) (xs : List Nat) : Gen.CategoricalSuffStat R :=
  xs.foldl (fun st y => Gen.CategoricalSuffStat.observe_nat st y) (Gen.CategoricalSuffStat.new k)

theorem cat_obs_valid (k : Nat) (st : Gen.CategoricalSuffStat R) (h : CatStatValid k st) (x : Nat) :
    CatStatValid k (Gen.CategoricalSuffStat.observe_nat st x) := by
  obtain ⟨hl, hc⟩ := h
  refine ⟨by simp [Gen.CategoricalSuffStat.observe_nat, hl], ?_⟩
  intro c hc'
  simp only [Gen.CategoricalSuffStat.observe_nat] at hc'
  rcases List.mem_or_eq_of_mem_set hc' with h1 | h1
  · exact hc c h1
  · subst h1
    have : 0 ≤ (idxR st.counts x).val := by
      simp only [idxR, List.getD_eq_getElem?_getD]
      cases hx : st.counts[x]? with
      | none => simp [show (RealLike.nan : R).val = 0 from rfl]
      | some v => simp only [Option.getD_some]; exact hc v (List.mem_of_getElem? hx)
    simp only [R.add_val, lit1]; linarith

theorem cat_fold_valid (k : Nat) (st : Gen.CategoricalSuffStat R) (h : CatStatValid k st) (xs : List Nat) :
    CatStatValid k (xs.foldl (fun st y => Gen.CategoricalSuffStat.observe_nat st y) st) := by
  induction xs generalizing st with
  | nil => exact h
  | cons x xs ih => exact ih _ (cat_obs_valid k st h x)

theorem cat_new_valid (k : Nat) : CatStatValid k (Gen.CategoricalSuffStat.new (α := R) k) := by
  refine ⟨by simp [Gen.CategoricalSuffStat.new], ?_⟩
  intro c hc
  simp only [Gen.CategoricalSuffStat.new, List.mem_replicate] at hc
  rw [hc.2, lit0]

theorem catStat_valid (k : Nat) (xs : List Nat) : CatStatValid k (catStat k xs) :=
  cat_fold_valid k _ (cat_new_valid k) xs



/-- the Dirichlet posterior's concentration vector `alphas + counts` -/
noncomputable def dirAlphas (as cs : List R) : List R := List.zipWith (fun a c => a + c) as cs

theorem dir_post_of_new (pr : Gen.Dirichlet R) (st : Gen.CategoricalSuffStat R) (v : Gen.Dirichlet R)
    (h : Gen.Dirichlet.new (dirAlphas pr.alphas st.counts) = .ok v) :
    Gen.Dirichlet.posterior_nat_Categorical pr (.suffStat st) = v := by
  rw [dirAlphas] at h
  simp only [Gen.Dirichlet.posterior_nat_Categorical, Gen.Dirichlet.get_alphas, Gen.CategoricalSuffStat.get_counts,
    List.zip_eq_zipWith, List.map_zipWith, h]

theorem dirAlphas_valid (as cs : List R) (hne : as ≠ []) (hpos : ∀ a ∈ as, 0 < a.val)
    (hl : cs.length = as.length) (hc : ∀ c ∈ cs, 0 ≤ c.val) :
    dirAlphas as cs ≠ [] ∧ ∀ a ∈ dirAlphas as cs, 0 < a.val := by
  constructor
  · intro h
    rw [dirAlphas, List.zipWith_eq_nil_iff] at h
    rcases h with h | h
    · exact hne h
    · rw [h] at hl; exact hne (List.length_eq_zero_iff.mp hl.symm)
  · intro a ha
    rw [dirAlphas, ← List.map_uncurry_zip_eq_zipWith, List.mem_map] at ha
    obtain ⟨⟨a', c'⟩, hp, rfl⟩ := ha
    have := List.of_mem_zip hp
    have h1 := hpos a' this.1
    have h2 := hc c' this.2
    simp only [Function.uncurry, R.add_val]; linarith

/-- real value at index `i` (0 outside the list) -/
noncomputable def cv (l : List R) (i : Nat) : ℝ := (l.getD i ⟨0⟩).val

theorem cv_obs (k : Nat) (st : Gen.CategoricalSuffStat R) (hl : st.counts.length = k) (y i : Nat) :
    cv (Gen.CategoricalSuffStat.observe_nat st y).counts i
      = cv st.counts i + (if y = i ∧ i < k then 1 else 0) := by
  simp only [cv, Gen.CategoricalSuffStat.observe_nat, List.getD_eq_getElem?_getD, List.getElem?_set, idxR]
  by_cases hyi : y = i
  · subst hyi
    by_cases hy : y < k
    · have hy' : y < st.counts.length := hl ▸ hy
      simp [hy, hy', r10]
    · have hy' : ¬ y < st.counts.length := hl ▸ hy
      simp [hy, hy']
  · simp [hyi]

theorem cv_fold (k : Nat) (st : Gen.CategoricalSuffStat R) (hl : st.counts.length = k) (xs : List Nat) (i : Nat) :
    cv (xs.foldl (fun st y => Gen.CategoricalSuffStat.observe_nat st y) st).counts i
      = cv st.counts i + (if i < k then (xs.count i : ℝ) else 0) := by
  induction xs generalizing st with
  | nil => simp
  | cons y ys ih =>
    have hl' : (Gen.CategoricalSuffStat.observe_nat st y).counts.length = k := by
      simp [Gen.CategoricalSuffStat.observe_nat, hl]
    rw [List.foldl_cons, ih _ hl', cv_obs k st hl]
    by_cases hi : i < k
    · by_cases hyi : y = i
      · subst hyi; simp [hi]; ring
      · have : ¬ (i = y) := fun e => hyi e.symm
        simp [hi, hyi]
    · simp [hi]

theorem fold_n (st : Gen.CategoricalSuffStat R) (xs : List Nat) :
    (xs.foldl (fun st y => Gen.CategoricalSuffStat.observe_nat st y) st).n = st.n + xs.length := by
  induction xs generalizing st with
  | nil => simp
  | cons y ys ih => rw [List.foldl_cons, ih]; simp [Gen.CategoricalSuffStat.observe_nat]; omega

/-- the counts of `catStat k xs` are `#{x ∈ xs | x = i}` for `i < k` -/
theorem catStat_counts (k : Nat) (xs : List Nat) :
    (catStat k xs).counts.map R.val = (List.range k).map (fun i => (xs.count i : ℝ)) := by
  have hl := (catStat_valid k xs).1
  apply List.ext_getElem
  · simp [hl]
  · intro i h1 h2
    have hi : i < k := by simpa [hl] using h1
    have hi' : i < (catStat k xs).counts.length := by rw [hl]; exact hi
    have this : cv (catStat k xs).counts i = cv (Gen.CategoricalSuffStat.new (α := R) k).counts i
        + (if i < k then (xs.count i : ℝ) else 0) :=
      cv_fold k (Gen.CategoricalSuffStat.new k) (by simp [Gen.CategoricalSuffStat.new]) xs i
    simp only [hi, if_true] at this
    have e0 : cv (Gen.CategoricalSuffStat.new (α := R) k).counts i = 0 := by
      simp [cv, Gen.CategoricalSuffStat.new, List.getD_eq_getElem?_getD, hi, r00]
    rw [e0, zero_add] at this
    have hget : cv (catStat k xs).counts i = ((catStat k xs).counts[i]'hi').val := by
      simp [cv, List.getD_eq_getElem?_getD, List.getElem?_eq_getElem hi']
    simp only [List.getElem_map, List.getElem_range]
    rw [← this, hget]

theorem catStat_n (k : Nat) (xs : List Nat) : (catStat k xs).n = xs.length := by
  simp [catStat, fold_n, Gen.CategoricalSuffStat.new]


theorem zipWith_range_zero (av : List ℝ) (k : Nat) (hk : av.length = k) :
    List.zipWith (fun a c => a + c) av ((List.range k).map (fun _ => (0 : ℝ))) = av := by
  apply List.ext_getElem
  · simp [hk]
  · intro i h1 h2
    simp [List.getElem_zipWith]

theorem zipWith_range_add (av : List ℝ) (k : Nat) (f g : Nat → ℝ) :
    List.zipWith (fun a c => a + c) (List.zipWith (fun a c => a + c) av ((List.range k).map f)) ((List.range k).map g)
      = List.zipWith (fun a c => a + c) av ((List.range k).map (fun i => f i + g i)) := by
  apply List.ext_getElem
  · simp [List.length_zipWith]
  · intro i h1 h2
    simp [List.getElem_zipWith]; ring

theorem map_val_dirAlphas (as cs : List R) :
    (dirAlphas as cs).map R.val = List.zipWith (fun a c => a + c) (as.map R.val) (cs.map R.val) := by
  simp [dirAlphas, List.map_zipWith, List.zipWith_map]

/-- the SymmetricDirichlet posterior's concentration vector, as the code builds it -/
noncomputable def symAlphas (a : R) (cs : List R) : List R := List.map (fun ct => a + ct) cs

theorem sym_post_of_new (pr : Gen.SymmetricDirichlet R) (st : Gen.CategoricalSuffStat R) (v : Gen.Dirichlet R)
    (h : Gen.Dirichlet.new (symAlphas pr.alpha st.counts) = .ok v) :
    Gen.SymmetricDirichlet.posterior_nat_Categorical pr (.suffStat st) = v := by
  rw [symAlphas] at h
  simp only [Gen.SymmetricDirichlet.posterior_nat_Categorical, Gen.SymmetricDirichlet.get_alpha,
    Gen.CategoricalSuffStat.get_counts, h]

theorem symAlphas_valid (a : R) (cs : List R) (ha : 0 < a.val) (hne : cs ≠ []) (hc : ∀ c ∈ cs, 0 ≤ c.val) :
    symAlphas a cs ≠ [] ∧ ∀ b ∈ symAlphas a cs, 0 < b.val := by
  constructor
  · simpa [symAlphas] using hne
  · intro b hb
    simp only [symAlphas, List.mem_map] at hb
    obtain ⟨c, hc', rfl⟩ := hb
    have := hc c hc'
    simp only [R.add_val]; linarith

theorem map_val_symAlphas (a : R) (cs : List R) :
    (symAlphas a cs).map R.val = (cs.map R.val).map (fun c => a.val + c) := by
  simp [symAlphas]


/-! ### sums: folds of the generated code as `List.sum`, and sums over `List.range k` as `Finset` sums -/

theorem foldl_val_sum {β : Type} (F : R → β → R) (g : β → ℝ) (hF : ∀ acc b, (F acc b).val = acc.val + g b)
    (l : List β) (init : R) : (l.foldl F init).val = init.val + (l.map g).sum := by
  induction l generalizing init with
  | nil => simp
  | cons b bs ih => rw [List.foldl_cons, ih, hF]; simp; ring

theorem foldl_val_sum0 {β : Type} (F : R → β → R) (g : β → ℝ) (hF : ∀ acc b, (F acc b).val = acc.val + g b)
    (l : List β) (init : R) (h0 : init.val = 0) : (l.foldl F init).val = (l.map g).sum := by
  rw [foldl_val_sum F g hF, h0, zero_add]

theorem list_range_sum (k : Nat) (h : Nat → ℝ) : ((List.range k).map h).sum = ∑ i ∈ Finset.range k, h i := by
  induction k with
  | zero => simp
  | succ k ih => rw [List.range_succ, List.map_append, List.sum_append, ih, Finset.sum_range_succ]; simp

/-- a `zipWith` of two lists of length `k`, as a map over `range k` -/
theorem zipWith_eq_range (f : ℝ → ℝ → ℝ) (a b : List ℝ) (k : Nat) (ha : a.length = k) (hb : b.length = k) :
    List.zipWith f a b = (List.range k).map (fun i => f (a.getD i 0) (b.getD i 0)) := by
  apply List.ext_getElem
  · simp [ha, hb]
  · intro i h1 h2
    have hi : i < k := by simpa using h2
    simp [List.getElem_zipWith, List.getD_eq_getElem?_getD, List.getElem?_eq_getElem (ha ▸ hi),
      List.getElem?_eq_getElem (hb ▸ hi)]

theorem map_eq_range (f : ℝ → ℝ) (a : List ℝ) (k : Nat) (ha : a.length = k) :
    List.map f a = (List.range k).map (fun i => f (a.getD i 0)) := by
  apply List.ext_getElem
  · simp [ha]
  · intro i h1 h2
    have hi : i < k := by simpa using h2
    simp [List.getD_eq_getElem?_getD, List.getElem?_eq_getElem (ha ▸ hi)]

theorem range_getD (k : Nat) (g : Nat → ℝ) (i : Nat) (hi : i < k) : ((List.range k).map g).getD i 0 = g i := by
  simp [List.getD_eq_getElem?_getD, hi]

/-- Σ_{i<k} #{x = i} · u i = Σ_{x ∈ xs} u x   when every `x < k` -/
theorem sum_count_mul (k : Nat) (xs : List Nat) (hxs : ∀ x ∈ xs, x < k) (u : Nat → ℝ) :
    ∑ i ∈ Finset.range k, (xs.count i : ℝ) * u i = (xs.map u).sum := by
  induction xs with
  | nil => simp
  | cons y ys ih =>
    have hy : y < k := hxs y (List.mem_cons_self ..)
    have ih' := ih (fun x hx => hxs x (List.mem_cons_of_mem _ hx))
    simp only [List.count_cons, List.map_cons, List.sum_cons, Nat.cast_add, add_mul, Finset.sum_add_distrib, ih']
    have : ∑ i ∈ Finset.range k, ((if (y == i) = true then (1 : ℕ) else 0 : ℕ) : ℝ) * u i = u y := by
      have : ∀ i, ((if (y == i) = true then (1 : ℕ) else 0 : ℕ) : ℝ) * u i = if y = i then u i else 0 := by
        intro i; by_cases h : y = i <;> simp [h]
      simp only [this, Finset.sum_ite_eq, Finset.mem_range, hy, if_true]
    rw [this]; ring

theorem sum_count (k : Nat) (xs : List Nat) (hxs : ∀ x ∈ xs, x < k) :
    ∑ i ∈ Finset.range k, (xs.count i : ℝ) = (xs.length : ℝ) := by
  have := sum_count_mul k xs hxs (fun _ => 1)
  simpa using this


theorem zipWith_core (lv av cv : List ℝ) (ha : av.length = lv.length) (hc : cv.length = lv.length) :
    (List.zipWith (fun l a => (a - 1) * l) lv (List.zipWith (fun a c => a + c) av cv)).sum
      = (List.zipWith (fun l a => (a - 1) * l) lv av).sum + (List.zipWith (fun c l => c * l) cv lv).sum := by
  induction lv generalizing av cv with
  | nil => simp
  | cons l ls ih =>
    cases av with
    | nil => simp at ha
    | cons a as =>
      cases cv with
      | nil => simp at hc
      | cons c cs =>
        simp only [List.length_cons, Nat.add_right_cancel_iff] at ha hc
        simp only [List.zipWith_cons_cons, List.sum_cons, ih as cs ha hc]
        ring

theorem zipWith_add_sum (av cv : List ℝ) (h : cv.length = av.length) :
    (List.zipWith (fun a c => a + c) av cv).sum = av.sum + cv.sum := by
  induction av generalizing cv with
  | nil => cases cv with
    | nil => simp
    | cons c cs => simp at h
  | cons a as ih =>
    cases cv with
    | nil => simp at h
    | cons c cs =>
      simp only [List.length_cons, Nat.add_right_cancel_iff] at h
      simp only [List.zipWith_cons_cons, List.sum_cons, ih cs h]
      ring

/-- value of the generated Dirichlet log-density at a point `x` of the simplex -/
theorem dir_ln_f_val (d : Gen.Dirichlet R) (x : List R) :
    (Gen.Dirichlet.ln_f_Vecf64 d x).val
      = (List.zipWith (fun l a => (a - 1) * l) (x.map (fun xi => Real.log xi.val)) (d.alphas.map R.val)).sum
        - ((d.alphas.map (fun a => Real.log (Real.Gamma a.val))).sum
            - Real.log (Real.Gamma (d.alphas.map R.val).sum)) := by
  unfold Gen.Dirichlet.ln_f_Vecf64
  simp only [R.sub_val, R.lgamma_val, R.sumL_val]
  refine congrArg₂ (· - ·) ?_ (congrArg₂ (· - ·) ?_ rfl)
  · refine (foldl_val_sum0 _ (fun (p : R × R) => (p.2.val - 1) * Real.log p.1.val) ?_ _ _ lit0).trans ?_
    · rintro acc ⟨a, b⟩
      simp only [mulAdd, R.add_val, R.sub_val, R.mul_val, R.ln_val, lit1]; ring
    · simp [List.zip_eq_zipWith, List.map_zipWith, List.zipWith_map]
  · exact foldl_val_sum0 (fun (acc : R) (a : R) => acc + RealLike.lgamma a) (fun (a : R) => Real.log (Real.Gamma a.val))
      (fun acc a => by simp) _ _ lit0

/-- value of the generated Dirichlet–Categorical log marginal likelihood (sufficient-statistic arm) -/
theorem dir_ln_m_val (pr : Gen.Dirichlet R) (st : Gen.CategoricalSuffStat R) :
    (Gen.Dirichlet.ln_m_nat_Categorical pr (.suffStat st)).val
      = -Real.log (Real.Gamma ((pr.alphas.map R.val).sum + (st.n : ℝ)))
        + (List.zipWith (fun a c => Real.log (Real.Gamma (a + c))) (pr.alphas.map R.val) (st.counts.map R.val)).sum
        + (Real.log (Real.Gamma (pr.alphas.map R.val).sum)
            - (pr.alphas.map (fun a => Real.log (Real.Gamma a.val))).sum) := by
  have h1 : (pr.alphas.foldl (fun acc a => acc + a) (0.0 : R)).val = (pr.alphas.map R.val).sum :=
    foldl_val_sum0 (fun (acc : R) (a : R) => acc + a) R.val (fun acc a => by simp) _ _ lit0
  have h2 : (pr.alphas.foldl (fun acc a => acc + RealLike.lgamma a) (0.0 : R)).val
      = (pr.alphas.map (fun a => Real.log (Real.Gamma a.val))).sum :=
    foldl_val_sum0 (fun (acc : R) (a : R) => acc + RealLike.lgamma a) (fun (a : R) => Real.log (Real.Gamma a.val))
      (fun acc a => by simp) _ _ lit0
  simp only [Gen.Dirichlet.ln_m_nat_Categorical, Gen.Dirichlet.ln_m_with_cache_nat_Categorical,
    Gen.Dirichlet.ln_m_cache_nat_Categorical, Gen.Dirichlet.get_alphas, Gen.CategoricalSuffStat.get_counts,
    Gen.CategoricalSuffStat.get_n, List.zip_eq_zipWith, List.map_zipWith, R.add_val, R.sub_val, R.neg_val,
    R.lgamma_val, R.ofNatR_val, R.sumL_val, h1, h2]
  simp [List.zipWith_map]

theorem cat_loglik (θ : Gen.Categorical R) (xs : List Nat) (hxs : ∀ x ∈ xs, x < θ.ln_weights.length) :
    (xs.map (fun x => (Gen.Categorical.ln_f_nat θ x).val)).sum
      = (xs.map (fun x => (θ.ln_weights.map R.val).getD x 0)).sum := by
  congr 1
  apply List.map_congr_left
  intro x hx
  have h := hxs x hx
  simp [Gen.Categorical.ln_f_nat, idxR, List.getD_eq_getElem?_getD, List.getElem?_eq_getElem h]

/-- Σ_i cᵢ·lᵢ with `c = counts of xs` is Σ_{x ∈ xs} l_x -/
theorem counts_dot (k : Nat) (xs : List Nat) (hxs : ∀ x ∈ xs, x < k) (lv : List ℝ) (hl : lv.length = k) :
    (List.zipWith (fun c l => c * l) ((List.range k).map (fun i => (xs.count i : ℝ))) lv).sum
      = (xs.map (fun x => lv.getD x 0)).sum := by
  rw [zipWith_eq_range _ _ _ k (by simp) hl, list_range_sum, ← sum_count_mul k xs hxs]
  apply Finset.sum_congr rfl
  intro i hi
  rw [range_getD k _ i (Finset.mem_range.mp hi)]

theorem counts_sum (k : Nat) (xs : List Nat) (hxs : ∀ x ∈ xs, x < k) :
    ((List.range k).map (fun i => (xs.count i : ℝ))).sum = (xs.length : ℝ) := by
  rw [list_range_sum, sum_count k xs hxs]


theorem zipWith_core_sym (lv cv : List ℝ) (a : ℝ) (hc : cv.length = lv.length) :
    (List.zipWith (fun l a' => (a' - 1) * l) lv (cv.map (fun c => a + c))).sum
      = (lv.map (fun l => (a - 1) * l)).sum + (List.zipWith (fun c l => c * l) cv lv).sum := by
  induction lv generalizing cv with
  | nil => simp
  | cons l ls ih =>
    cases cv with
    | nil => simp at hc
    | cons c cs =>
      simp only [List.length_cons, Nat.add_right_cancel_iff] at hc
      simp only [List.map_cons, List.zipWith_cons_cons, List.sum_cons, ih cs hc]
      ring

theorem map_add_sum (cv : List ℝ) (a : ℝ) : (cv.map (fun c => a + c)).sum = a * (cv.length : ℝ) + cv.sum := by
  induction cv with
  | nil => simp
  | cons c cs ih => simp only [List.map_cons, List.sum_cons, List.length_cons, ih]; push_cast; ring

/-- value of the generated SymmetricDirichlet log-density at a point `x` -/
theorem sym_ln_f_val (d : Gen.SymmetricDirichlet R) (x : List R) :
    (Gen.SymmetricDirichlet.ln_f_Vecf64 d x).val
      = ((x.map (fun xi => Real.log xi.val)).map (fun l => (d.alpha.val - 1) * l)).sum
        - (Real.log (Real.Gamma d.alpha.val) * (d.k : ℝ) - Real.log (Real.Gamma (d.alpha.val * (d.k : ℝ)))) := by
  unfold Gen.SymmetricDirichlet.ln_f_Vecf64
  simp only [Gen.SymmetricDirichlet.ln_gamma_alpha, R.sub_val, R.mul_val, R.lgamma_val, R.ofNatR_val]
  refine congrArg₂ (· - ·) ?_ rfl
  refine (foldl_val_sum0 (fun (acc : R) (xi : R) => mulAdd (d.alpha - (1.0 : R)) (RealLike.ln xi) acc)
    (fun (xi : R) => (d.alpha.val - 1) * Real.log xi.val) ?_ _ _ lit0).trans ?_
  · intro acc xi
    simp only [mulAdd, R.add_val, R.sub_val, R.mul_val, R.ln_val, lit1]; ring
  · rw [List.map_map]; rfl

/-- value of the generated SymmetricDirichlet–Categorical log marginal likelihood (sufficient-statistic arm) -/
theorem sym_ln_m_val (pr : Gen.SymmetricDirichlet R) (st : Gen.CategoricalSuffStat R) :
    (Gen.SymmetricDirichlet.ln_m_nat_Categorical pr (.suffStat st)).val
      = -Real.log (Real.Gamma (pr.alpha.val * (pr.k : ℝ) + (st.n : ℝ)))
        + ((st.counts.map R.val).map (fun c => Real.log (Real.Gamma (pr.alpha.val + c)))).sum
        + (Real.log (Real.Gamma (pr.alpha.val * (pr.k : ℝ))) - Real.log (Real.Gamma pr.alpha.val) * (pr.k : ℝ)) := by
  have h2 : (st.counts.foldl (fun (acc : R) (ct : R) => acc + RealLike.lgamma (pr.alpha + ct)) (0.0 : R)).val
      = ((st.counts.map R.val).map (fun c => Real.log (Real.Gamma (pr.alpha.val + c)))).sum := by
    refine (foldl_val_sum0 (fun (acc : R) (ct : R) => acc + RealLike.lgamma (pr.alpha + ct))
      (fun (ct : R) => Real.log (Real.Gamma (pr.alpha.val + ct.val))) (fun acc a => by simp) _ _ lit0).trans ?_
    rw [List.map_map]; rfl
  simp only [Gen.SymmetricDirichlet.ln_m_nat_Categorical, Gen.SymmetricDirichlet.ln_m_with_cache_nat_Categorical,
    Gen.SymmetricDirichlet.ln_m_cache_nat_Categorical, Gen.SymmetricDirichlet.get_alpha,
    Gen.SymmetricDirichlet.get_k, Gen.CategoricalSuffStat.get_counts, Gen.CategoricalSuffStat.get_n, R.add_val,
    R.sub_val, R.mul_val, R.neg_val, R.lgamma_val, R.ofNatR_val, h2]

end C05
