import RvModel.RealInst
import RvModel.ExtInst
import RvModel.Gen.Defs
import RvModel.Hand.Samplers
import RvModel.Hand.Draw
import RvModel.Lemmas.C13B
import RvModel.Lemmas.C12
import Mathlib.Tactic.Ring
import Mathlib.Tactic.Linarith
import Mathlib.Tactic.FieldSimp
import Mathlib.Analysis.SpecialFunctions.Log.Basic
import Mathlib.Analysis.SpecialFunctions.Exp
import Mathlib.Analysis.SpecialFunctions.Pow.Real
import Mathlib.Analysis.SpecialFunctions.Gamma.Basic
/-!
  Helper lemmas for Props/C04A.lean: the word → variate maps on the carriers `R` and `X`, bounds of the shifted words.
-/
set_option linter.unusedSimpArgs false
set_option linter.unusedVariables false
open Real X Hand

namespace C04

/-! ### shifted words -/

theorem shr11_lt (w : Nat) (hw : w < 2 ^ 64) : w >>> 11 < 2 ^ 53 := by
  rw [Nat.shiftRight_eq_div_pow]; omega

theorem shr12_lt (w : Nat) (hw : w < 2 ^ 64) : w >>> 12 < 2 ^ 52 := by
  rw [Nat.shiftRight_eq_div_pow]; omega

theorem shr11_pos (w : Nat) (hw : 2 ^ 11 ≤ w) : 0 < w >>> 11 := by
  rw [Nat.shiftRight_eq_div_pow]; omega

theorem shr12_pos (w : Nat) (hw : 2 ^ 12 ≤ w) : 0 < w >>> 12 := by
  rw [Nat.shiftRight_eq_div_pow]; omega

/-! ### the maps on `R` -/

/-! ### the maps on `X`: always a finite value, the same real number as on `R` -/

theorem pow53_ne : ((2 ^ 53 : Nat) : ℝ) ≠ 0 := by positivity
theorem pow52_ne : ((2 ^ 52 : Nat) : ℝ) ≠ 0 := by positivity

theorem std01_X (w : Nat) : (std01 w : X) = X.fin (std01 w : R).val := by
  rw [C13.std01_val]
  unfold std01
  rw [X.ofNatR_eq, X.ofNatR_eq, X.fin_div_fin_of_ne _ pow53_ne]
  norm_num

theorem open01_X (w : Nat) : (open01 w : X) = X.fin (open01 w : R).val := by
  rw [C13.open01_val]
  unfold open01
  rw [X.ofNatR_eq, X.ofNatR_eq, X.fin_div_fin_of_ne _ pow53_ne]
  norm_num

theorem uniform01_X (w : Nat) : (uniform01 w : X) = X.fin (uniform01 w : R).val := by
  rw [C13.uniform01_val]
  unfold uniform01
  rw [X.ofNatR_eq, X.ofNatR_eq, X.fin_div_fin_of_ne _ pow52_ne]
  norm_num

/-! ### literals on `X` -/

theorem X_zero : (0.0 : X) = X.fin 0 := by norm_num
theorem X_one : (1.0 : X) = X.fin 1 := by norm_num
theorem X_two : (2.0 : X) = X.fin 2 := by norm_num
theorem X_half : (0.5 : X) = X.fin (1 / 2) := by norm_num

/-! ### helper lemmas of Props/C04A.lean: value forms of the hand models on `R` / `X`, loop invariants -/

theorem laplaceDraw_val (d : Gen.Laplace R) (u : R) :
    (laplaceDraw d u).val =
      d.b.val * -((if 0 ≤ u.val - 1 / 2 then (1:ℝ) else -1) * Real.log (2 * -|u.val - 1 / 2| + 1)) + d.mu.val := by
  simp only [laplaceDraw, laplaceDrawWith, Gen.laplace_partial_draw, mulAdd, R.add_val, R.mul_val, R.neg_val,
    R.sub_val, R.ln_val, R.abs_val, R.sci_val]
  have : (RealLike.signum (u - (0.5 : R))).val = if 0 ≤ u.val - 1 / 2 then (1:ℝ) else -1 := by
    show (if 0 ≤ (u - (0.5 : R)).val then (1:ℝ) else -1) = _
    simp only [R.sub_val, R.sci_val]; norm_num
  rw [this]; norm_num

theorem laplaceDraw_X (mu b a : ℝ) (ha : 0 < 2 * -|a - 1 / 2| + 1) :
    laplaceDraw (⟨fin mu, fin b⟩ : Gen.Laplace X) (fin a) =
      fin (b * -((if 0 ≤ a - 1 / 2 then (1:ℝ) else -1) * Real.log (2 * -|a - 1 / 2| + 1)) + mu) := by
  simp only [laplaceDraw, laplaceDrawWith, Gen.laplace_partial_draw, mulAdd, X_half, X_one, X_two, fin_sub_fin,
    signum_fin, abs_fin, neg_fin, fin_mul_fin, fin_add_fin, ln_fin_pos ha]

theorem gevDraw_val0 (d : Gen.Gev R) (u : R) (hs : d.shape.val = 0) :
    (gevDraw d u).val = d.scale.val * -(Real.log (-(Real.log u.val))) + d.loc.val := by
  have hf : RealLike.feq d.shape (0.0 : R) = true := by rw [R.feq_iff, hs]; norm_num
  simp only [gevDraw, gevDrawWith, hf, if_true, mulAdd, R.add_val, R.mul_val, R.neg_val, R.ln_val]

theorem gevDraw_val_ne0 (d : Gen.Gev R) (u : R) (hs : d.shape.val ≠ 0) :
    (gevDraw d u).val =
      d.loc.val + d.scale.val * ((-(Real.log u.val)) ^ (-d.shape.val) - 1) / d.shape.val := by
  have hf : RealLike.feq d.shape (0.0 : R) = false := by
    rw [← Bool.not_eq_true, R.feq_iff]; norm_num; exact hs
  simp only [gevDraw, gevDrawWith, hf, Bool.false_eq_true, if_false, R.add_val, R.mul_val, R.neg_val, R.ln_val,
    R.div_val, R.sub_val, R.powf_val, R.sci_val]
  norm_num

theorem gev_cdf_val (d : Gen.Gev R) (x : R) :
    (Gen.Gev.cdf_real d x).val =
      Real.exp (-(if d.shape.val = 0 then Real.exp ((d.loc.val - x.val) / d.scale.val)
        else (1 + d.shape.val * (x.val - d.loc.val) / d.scale.val) ^ (-1 / d.shape.val))) := by
  by_cases hs : d.shape.val = 0
  · have hf : RealLike.feq d.shape (0.0 : R) = true := by rw [R.feq_iff, hs]; norm_num
    simp only [Gen.Gev.cdf_real, Gen.t, hf, if_true, hs, R.exp_val, R.neg_val, R.div_val, R.sub_val]
  · have hf : RealLike.feq d.shape (0.0 : R) = false := by
      rw [← Bool.not_eq_true, R.feq_iff]; norm_num; exact hs
    simp only [Gen.Gev.cdf_real, Gen.t, hf, Bool.false_eq_true, if_false, hs, R.exp_val, R.neg_val, R.div_val,
      R.sub_val, R.add_val, R.mul_val, R.powf_val, R.sci_val]
    norm_num

theorem gevDraw_X (loc scale shape a : ℝ) (ha0 : 0 < a) (ha1 : a < 1) :
    gevDraw (⟨fin loc, fin scale, fin shape⟩ : Gen.Gev X) (fin a) =
      fin (if shape = 0 then scale * -(Real.log (-(Real.log a))) + loc
        else loc + scale * ((-(Real.log a)) ^ (-shape) - 1) / shape) := by
  have hL : 0 < -(Real.log a) := by have := Real.log_neg ha0 ha1; linarith
  by_cases hs : shape = 0
  · simp only [gevDraw, gevDrawWith, mulAdd, X_zero, X_one, ln_fin_pos ha0, neg_fin, feq_fin, hs, decide_true,
      if_true, ln_fin_pos hL, fin_mul_fin, fin_add_fin]
  · simp only [gevDraw, gevDrawWith, mulAdd, X_zero, X_one, ln_fin_pos ha0, neg_fin, feq_fin, hs, decide_false,
      Bool.false_eq_true, if_false, powf_fin_pos hL, fin_sub_fin, fin_mul_fin, fin_div_fin_of_ne _ hs, fin_add_fin]

theorem kumaraswamyDraw_X (a b u : ℝ) (ha : 0 < a) (hb : 0 < b) (h0 : 0 < u) (h1 : u < 1) :
    kumaraswamyDraw (⟨fin a, fin b⟩ : Gen.Kumaraswamy X) (fin u) = fin ((1 - (1 - u) ^ (1 / b)) ^ (1 / a)) := by
  obtain ⟨q0, q1⟩ := C12.rpow_mem_unit (1 - u) (1 / b) (by linarith) (by linarith) (by positivity)
  simp only [kumaraswamyDraw, Gen.invcdf, RealLike.recip, X_one, fin_sub_fin, fin_div_fin_of_ne _ ha.ne',
    fin_div_fin_of_ne _ hb.ne', powf_fin_pos (by linarith : (0:ℝ) < 1 - u),
    powf_fin_pos (by linarith : (0:ℝ) < 1 - (1 - u) ^ (1 / b))]

theorem geometric_cdf_val (d : Gen.Geometric R) (k : Nat) :
    (Gen.Geometric.cdf_nat d k).val = 1 - (1 - d.p.val) ^ (k + 1) := by
  simp only [Gen.Geometric.cdf_nat, Option.getD_some, R.sub_val, R.powf_val, R.add_val, R.ofNatR_val, R.sci_val]
  norm_num
  rw [← Real.rpow_natCast]; push_cast; ring_nf

theorem fromF64OrMax_natCast (kbits k : Nat) : fromF64OrMax kbits (⟨(k : ℝ)⟩ : R) = min k (2 ^ kbits - 1) := by
  have hpos : 0 < 2 ^ kbits := Nat.pos_of_ne_zero (by positivity)
  unfold fromF64OrMax
  have h1 : RealLike.gt (⟨(k : ℝ)⟩ : R) (-(1.0 : R)) = true := by
    show RealLike.lt (-(1.0 : R)) ⟨(k : ℝ)⟩ = true
    rw [R.lt_iff]; simp only [R.neg_val, R.sci_val]
    have : (0:ℝ) ≤ k := Nat.cast_nonneg k
    norm_num; linarith
  rw [h1, Bool.true_and]
  by_cases hk : k < 2 ^ kbits
  · have h2 : RealLike.lt (⟨(k : ℝ)⟩ : R) (RealLike.ofNatR (2 ^ kbits)) = true := by
      rw [R.lt_iff]; simp only [R.ofNatR_val]; exact_mod_cast hk
    rw [h2, if_pos rfl]
    show ⌊((k : ℝ))⌋₊ = _
    rw [Nat.floor_natCast]; omega
  · have h2 : RealLike.lt (⟨(k : ℝ)⟩ : R) (RealLike.ofNatR (2 ^ kbits)) = false := by
      rw [R.lt_false_iff]; simp only [R.ofNatR_val]; exact_mod_cast hk
    rw [h2]; simp only [Bool.false_eq_true, if_false]; omega

theorem geomSearchLoop_spec (kbits : Nat) (q u : R) (hq0 : 0 < q.val) (hq1 : q.val < 1) :
    ∀ (fuel n t : Nat) (sum prod : R) (t' : Nat), t = min n (2 ^ kbits - 1) →
      sum.val = 1 - q.val ^ (n + 1) → prod.val = (1 - q.val) * q.val ^ n →
      geomSearchLoop kbits q u fuel t sum prod = some t' →
      ∃ n', n ≤ n' ∧ t' = min n' (2 ^ kbits - 1) ∧ u.val ≤ 1 - q.val ^ (n' + 1) ∧
        (n' = n ∨ 1 - q.val ^ n' < u.val) := by
  intro fuel
  induction fuel with
  | zero => intro n t sum prod t' _ _ _ h; simp [geomSearchLoop] at h
  | succ f ih =>
    intro n t sum prod t' ht hs hp h
    unfold geomSearchLoop at h
    by_cases hgt : RealLike.gt u sum = true
    · rw [if_pos hgt] at h
      have hlt : sum.val < u.val := by
        have : RealLike.lt sum u = true := hgt
        rwa [R.lt_iff] at this
      -- the stagnation `break` never fires over exact arithmetic: `prod·q = (1-q) q^(n+1) > 0`
      have hne : RealLike.feq (sum + prod * q) sum = false := by
        rw [← Bool.not_eq_true, R.feq_iff]
        simp only [R.add_val, R.mul_val, hp]
        have : 0 < (1 - q.val) * q.val ^ n * q.val := by
          have := pow_pos hq0 n
          have : 0 < 1 - q.val := by linarith
          positivity
        linarith
      simp only [hne, Bool.false_eq_true, if_false] at h
      obtain ⟨n', hn, ht', hu, hlo⟩ := ih (n + 1) (min (t + 1) (2 ^ kbits - 1)) (sum + prod * q) (prod * q) t'
        (by rw [ht]; omega)
        (by simp only [R.add_val, R.mul_val, hs, hp]; ring)
        (by simp only [R.mul_val, hp]; ring) h
      refine ⟨n', by omega, ht', hu, Or.inr ?_⟩
      rcases hlo with rfl | hlo
      · rw [← hs]; exact hlt
      · exact hlo
    · rw [if_neg hgt] at h
      have hle : u.val ≤ sum.val := by
        have : RealLike.lt sum u = false := by
          cases hh : RealLike.lt sum u
          · rfl
          · exact absurd hh hgt
        rw [R.lt_false_iff] at this; linarith
      have : t' = t := by simpa using h.symm
      exact ⟨n, le_refl _, by rw [this, ht], by rw [← hs]; exact hle, Or.inl rfl⟩

theorem geomSearchLoop_terminates (kbits : Nat) (q u : R) :
    ∀ (fuel n t : Nat) (sum prod : R), 1 ≤ fuel →
      sum.val = 1 - q.val ^ (n + 1) → prod.val = (1 - q.val) * q.val ^ n →
      u.val ≤ 1 - q.val ^ (n + fuel) →
      ∃ t', geomSearchLoop kbits q u fuel t sum prod = some t' := by
  intro fuel
  induction fuel with
  | zero => intro n t sum prod h; omega
  | succ f ih =>
    intro n t sum prod _ hs hp hu
    unfold geomSearchLoop
    by_cases hgt : RealLike.gt u sum = true
    · rw [if_pos hgt]
      have hlt : sum.val < u.val := by
        have : RealLike.lt sum u = true := hgt
        rwa [R.lt_iff] at this
      have hf : 1 ≤ f := by
        by_contra hc
        have : f = 0 := by omega
        subst this
        rw [hs] at hlt; simp only [Nat.zero_add] at hu; linarith
      simp only []
      split
      · exact ⟨t, rfl⟩
      · exact ih (n + 1) _ (sum + prod * q) (prod * q) hf
          (by simp only [R.add_val, R.mul_val, hs, hp]; ring)
          (by simp only [R.mul_val, hp]; ring)
          (by rw [show n + 1 + f = n + (f + 1) by omega]; exact hu)
    · rw [if_neg hgt]; exact ⟨t, rfl⟩

theorem hi32_lt (w : Nat) : hi32 w < 2 ^ 32 := by
  unfold hi32; rw [Nat.shiftRight_eq_div_pow]
  have : w % 2 ^ 64 < 2 ^ 64 := Nat.mod_lt _ (by norm_num)
  omega

theorem uniformIntLoop_range (lbits : Nat) (hl : lbits = 32 ∨ lbits = 64) (low : Int) (range zone : Nat)
    (hr : 0 < range) (ws : List Nat) :
    ∀ (fuel i : Nat) (x : Int) (c : Nat), uniformIntLoop lbits low range zone ws fuel i = .ok x c →
      low ≤ x ∧ x < low + range ∧ i < c := by
  intro fuel
  induction fuel with
  | zero => intro i x c h; simp [uniformIntLoop] at h
  | succ f ih =>
    intro i x c h
    unfold uniformIntLoop at h
    simp only [] at h
    have hv : (if lbits = 32 then hi32 (wordAt ws i) else wordAt ws i % 2 ^ 64) < 2 ^ lbits := by
      rcases hl with rfl | rfl
      · simp only [if_true]; exact hi32_lt _
      · simp only [show ¬ (64 = 32) by norm_num, if_false]; exact Nat.mod_lt _ (by norm_num)
    generalize (if lbits = 32 then hi32 (wordAt ws i) else wordAt ws i % 2 ^ 64) = v at h hv
    split at h
    · simp only [Outcome.ok.injEq] at h
      obtain ⟨hx, hc⟩ := h
      have hhi : v * range / 2 ^ lbits < range := by
        apply Nat.div_lt_of_lt_mul
        exact Nat.mul_lt_mul_of_pos_right hv hr
      generalize v * range / 2 ^ lbits = q at hx hhi
      refine ⟨by omega, by omega, by omega⟩
    · obtain ⟨a, b, c'⟩ := ih (i + 1) x c h
      exact ⟨a, b, by omega⟩

theorem iterDraws_length {β : Type} (step : Nat → Outcome β) :
    ∀ (n i : Nat) (xs : List β) (c : Nat), iterDraws step n i = .ok xs c → xs.length = n := by
  intro n
  induction n with
  | zero => intro i xs c h; simp only [iterDraws, Outcome.ok.injEq] at h; rw [← h.1]; rfl
  | succ n ih =>
    intro i xs c h
    unfold iterDraws at h
    split at h
    · rename_i x j hstep
      split at h
      · rename_i ys k hrest
        simp only [Outcome.ok.injEq] at h
        rw [← h.1, List.length_cons, ih j ys k hrest]
      · cases h
      · cases h
    · cases h
    · cases h

theorem invGaussian_root_pos (mu lam y : ℝ) (hm : 0 < mu) (hl : 0 < lam) (hy : 0 ≤ y) :
    0 < 1 / 2 * (mu / lam * -Real.sqrt (4 * mu * lam * y + mu * mu * y * y) + mu * mu * y / lam) + mu := by
  have harg : 0 ≤ 4 * mu * lam * y + mu * mu * y * y := by positivity
  have hS : Real.sqrt (4 * mu * lam * y + mu * mu * y * y) < 2 * lam + mu * y := by
    rw [Real.sqrt_lt' (by positivity)]; nlinarith [mul_pos hl hl]
  have key : 1 / 2 * (mu / lam * -Real.sqrt (4 * mu * lam * y + mu * mu * y * y) + mu * mu * y / lam) + mu =
      mu / (2 * lam) * (2 * lam + mu * y - Real.sqrt (4 * mu * lam * y + mu * mu * y * y)) := by
    field_simp; ring
  rw [key]
  exact mul_pos (by positivity) (by linarith)

/-- the root `x` of invgaussian.rs:275-281 as an `R` term -/
noncomputable def igRoot (d : Gen.InvGaussian R) (v : R) : R :=
  mulAdd (0.5 : R) (mulAdd (d.mu / d.lambda')
    (-(RealLike.sqrt (mulAdd ((4.0 : R) * d.mu * d.lambda') (v * v) (d.mu * d.mu * (v * v) * (v * v)))))
    (d.mu * d.mu * (v * v) / d.lambda')) d.mu

theorem invGaussianDraw_eq (d : Gen.InvGaussian R) (v z : R) :
    invGaussianDraw d v z =
      if RealLike.le z (d.mu / (d.mu + igRoot d v)) then igRoot d v else d.mu * d.mu / igRoot d v := rfl

theorem igRoot_pos (d : Gen.InvGaussian R) (v : R) (hm : 0 < d.mu.val) (hl : 0 < d.lambda'.val) :
    0 < (igRoot d v).val := by
  have h := invGaussian_root_pos d.mu.val d.lambda'.val (v.val * v.val) hm hl (mul_self_nonneg _)
  have e : (igRoot d v).val = 1 / 2 * (d.mu.val / d.lambda'.val *
      -Real.sqrt (4 * d.mu.val * d.lambda'.val * (v.val * v.val) + d.mu.val * d.mu.val * (v.val * v.val) * (v.val * v.val)) +
      d.mu.val * d.mu.val * (v.val * v.val) / d.lambda'.val) + d.mu.val := by
    simp only [igRoot, mulAdd, R.add_val, R.mul_val, R.div_val, R.neg_val, R.sqrt_val, R.sci_val]
    norm_num
  rw [e]; exact h

theorem remEuclid_two_pi_mem (y : R) :
    0 ≤ (RealLike.remEuclid y ((2.0 : R) * (RealLike.pi : R))).val ∧
      (RealLike.remEuclid y ((2.0 : R) * (RealLike.pi : R))).val < 2 * π := by
  have hb : ((2.0 : R) * (RealLike.pi : R)).val = 2 * π := by
    simp only [R.mul_val, R.sci_val, R.pi_val]; norm_num
  have hpos : 0 < 2 * π := by positivity
  show 0 ≤ y.val - |((2.0 : R) * (RealLike.pi : R)).val| * (⌊y.val / |((2.0 : R) * (RealLike.pi : R)).val|⌋ : ℝ) ∧
    y.val - |((2.0 : R) * (RealLike.pi : R)).val| * (⌊y.val / |((2.0 : R) * (RealLike.pi : R)).val|⌋ : ℝ) < 2 * π
  rw [hb, abs_of_pos hpos]
  have h1 := Int.floor_le (y.val / (2 * π))
  have h2 := Int.lt_floor_add_one (y.val / (2 * π))
  rw [le_div_iff₀ hpos] at h1
  rw [div_lt_iff₀ hpos] at h2
  constructor <;> nlinarith

theorem vonMisesStep_not_panic (d : Gen.VonMises R) (r u1 u2 u3 : R) :
    vonMisesStepWith mulAdd d r u1 u2 u3 ≠ some none := by
  unfold vonMisesStepWith
  simp only []
  split
  · rename_i hacc
    have hs : Gen.VonMises.supports_real d (RealLike.remEuclid
        (mulAdd (RealLike.signum (u3 - (0.5 : R))) (RealLike.acos (mulAdd r (RealLike.cos ((RealLike.pi : R) * u1)) (1.0 : R) /
          (r + RealLike.cos ((RealLike.pi : R) * u1)))) d.mu) ((2.0 : R) * (RealLike.pi : R))) = true := by
      obtain ⟨h0, h1⟩ := remEuclid_two_pi_mem (mulAdd (RealLike.signum (u3 - (0.5 : R)))
        (RealLike.acos (mulAdd r (RealLike.cos ((RealLike.pi : R) * u1)) (1.0 : R) /
          (r + RealLike.cos ((RealLike.pi : R) * u1)))) d.mu)
      simp only [Gen.VonMises.supports_real, Bool.and_eq_true, R.le_iff, R.sci_val, R.mul_val, R.pi_val]
      constructor
      · norm_num; exact h0
      · norm_num; linarith
    rw [if_pos hs]; simp
  · simp

/-! ### VonMises: the constants of the repaired loop -/

/-- `r = τ / (2κ)` for Best & Fisher's `ρ = (τ − √(2τ)) / (2κ)`, `τ = 1 + √(4κ² + 1)` -/
theorem vonMisesR_closed (k : R) (hk : 0 < k.val) :
    (vonMisesRWith mulAdd k).val = (1 + Real.sqrt (4 * (k.val * k.val) + 1)) / (2 * k.val) := by
  have e : (vonMisesRWith mulAdd k).val =
      (((1 + Real.sqrt (4 * (k.val * k.val) + 1)) - Real.sqrt (2 * (1 + Real.sqrt (4 * (k.val * k.val) + 1)))) / (2 * k.val) *
        (((1 + Real.sqrt (4 * (k.val * k.val) + 1)) - Real.sqrt (2 * (1 + Real.sqrt (4 * (k.val * k.val) + 1)))) / (2 * k.val)) + 1) /
      (2 * (((1 + Real.sqrt (4 * (k.val * k.val) + 1)) - Real.sqrt (2 * (1 + Real.sqrt (4 * (k.val * k.val) + 1)))) / (2 * k.val))) := by
    simp only [vonMisesRWith, mulAdd, R.add_val, R.sub_val, R.mul_val, R.div_val, R.sqrt_val, R.sci_val]; norm_num
  rw [e]
  set S := Real.sqrt (4 * (k.val * k.val) + 1) with hSdef
  have hS : S * S = 4 * (k.val * k.val) + 1 := Real.mul_self_sqrt (by positivity)
  have hS1 : 1 < S := by
    rw [hSdef, Real.lt_sqrt (by norm_num)]; nlinarith [mul_pos hk hk]
  set s := Real.sqrt (2 * (1 + S)) with hsdef
  have hs : s * s = 2 * (1 + S) := Real.mul_self_sqrt (by linarith)
  have hs0 : 0 ≤ s := Real.sqrt_nonneg _
  have hlt : s < 1 + S := by
    rw [hsdef, Real.sqrt_lt' (by linarith)]; nlinarith
  set ρ := (1 + S - s) / (2 * k.val) with hρ
  have hρ0 : 0 < ρ := by rw [hρ]; apply div_pos <;> linarith
  have h1 : 2 * k.val * ρ = 1 + S - s := by rw [hρ]; field_simp
  have key : k.val * (ρ * ρ + 1) = (1 + S) * ρ := by
    have h4 : (4 * k.val) * (k.val * (ρ * ρ + 1)) = (4 * k.val) * ((1 + S) * ρ) := by
      have e1 : (4 * k.val) * (k.val * (ρ * ρ + 1)) = (2 * k.val * ρ) ^ 2 + 4 * (k.val * k.val) := by ring
      have e2 : (4 * k.val) * ((1 + S) * ρ) = 2 * (1 + S) * (2 * k.val * ρ) := by ring
      rw [e1, e2, h1]
      linear_combination hs - hS
    exact mul_left_cancel₀ (by positivity) h4
  rw [div_eq_div_iff (by positivity) (by positivity)]
  linear_combination 2 * key

/-- `c₀ = κ (r − 1) ∈ (½, 1)`: the value of `c` at the mode of the proposal -/
theorem vonMises_c0 (kap : ℝ) (hk : 0 < kap) :
    1 / 2 < kap * ((1 + Real.sqrt (4 * (kap * kap) + 1)) / (2 * kap) - 1) ∧
      kap * ((1 + Real.sqrt (4 * (kap * kap) + 1)) / (2 * kap) - 1) < 1 := by
  set S := Real.sqrt (4 * (kap * kap) + 1) with hSdef
  have hS : S * S = 4 * (kap * kap) + 1 := Real.mul_self_sqrt (by positivity)
  have hS0 : 0 ≤ S := Real.sqrt_nonneg _
  have e : kap * ((1 + S) / (2 * kap) - 1) = (1 + S) / 2 - kap := by field_simp
  rw [e]
  constructor <;> nlinarith

/-- the pass of the loop is ACCEPTED (by the first, quadratic test) whenever `κ (π u₁)² ≤ 1` and `u₂ ≤ ¾` -/
theorem vonMisesStep_accepts (d : Gen.VonMises R) (hk : 0 < d.k.val) (u1 u2 u3 : R)
    (h1 : d.k.val * (π * u1.val) ^ 2 ≤ 1) (h2 : u2.val ≤ 3 / 4) :
    vonMisesStepWith mulAdd d (vonMisesRWith mulAdd d.k) u1 u2 u3 ≠ none := by
  generalize hr : vonMisesRWith mulAdd d.k = r
  have hrv : r.val = (1 + Real.sqrt (4 * (d.k.val * d.k.val) + 1)) / (2 * d.k.val) := by
    rw [← hr]; exact vonMisesR_closed d.k hk
  obtain ⟨c0lo, c0hi⟩ := vonMises_c0 d.k.val hk
  rw [← hrv] at c0lo c0hi
  have hr1 : 1 < r.val := by
    by_contra hc
    rw [not_lt] at hc
    nlinarith
  set z : ℝ := Real.cos (π * u1.val) with hz
  have hz1 : z ≤ 1 := Real.cos_le_one _
  have hz0 : -1 ≤ z := Real.neg_one_le_cos _
  have hzc : 1 - (π * u1.val) ^ 2 / 2 ≤ z := Real.one_sub_sq_div_two_le_cos
  have hden : 0 < r.val + z := by linarith
  -- 0 ≤ 1 - f ≤ 1 - z
  have hf1 : (r.val * z + 1) / (r.val + z) ≤ 1 := by rw [div_le_one hden]; nlinarith
  have hf2 : 1 - (1 - z) ≤ (r.val * z + 1) / (r.val + z) := by
    rw [le_div_iff₀ hden]; nlinarith
  set c : ℝ := d.k.val * (r.val - (r.val * z + 1) / (r.val + z)) with hc
  have hclo : 1 / 2 < c := by rw [hc]; nlinarith
  have hchi : c ≤ 3 / 2 := by
    have : d.k.val * (1 - z) ≤ 1 / 2 := by nlinarith
    rw [hc]; nlinarith
  have hA : 0 ≤ c * (2 - c) + -u2.val := by nlinarith
  have hcond : (RealLike.ge (mulAdd (d.k * (r - mulAdd r (RealLike.cos ((RealLike.pi : R) * u1)) (1.0 : R) /
        (r + RealLike.cos ((RealLike.pi : R) * u1)))) ((2.0 : R) - d.k * (r - mulAdd r (RealLike.cos ((RealLike.pi : R) * u1)) (1.0 : R) /
        (r + RealLike.cos ((RealLike.pi : R) * u1)))) (-u2)) (0.0 : R) ||
      RealLike.ge (RealLike.ln (d.k * (r - mulAdd r (RealLike.cos ((RealLike.pi : R) * u1)) (1.0 : R) /
        (r + RealLike.cos ((RealLike.pi : R) * u1))) / u2) + (1.0 : R) - d.k * (r - mulAdd r (RealLike.cos ((RealLike.pi : R) * u1)) (1.0 : R) /
        (r + RealLike.cos ((RealLike.pi : R) * u1)))) (0.0 : R)) = true := by
    rw [Bool.or_eq_true]
    left
    show RealLike.le (0.0 : R) _ = true
    rw [R.le_iff]
    simp only [mulAdd, R.add_val, R.mul_val, R.div_val, R.sub_val, R.neg_val, R.cos_val, R.pi_val, R.sci_val]
    norm_num
    have := hA; rw [hc, hz] at this; norm_num at this; linarith
  unfold vonMisesStepWith
  simp only []
  rw [hcond]
  simp only [if_true]
  split <;> simp

theorem wordAt_lt (ws : List Nat) (hws : ∀ w ∈ ws, w < 2 ^ 64) (j : Nat) : wordAt ws j < 2 ^ 64 := by
  unfold wordAt
  rw [List.getD_eq_getElem?_getD]
  cases h : ws[min j (ws.length - 1)]? with
  | none => simp
  | some w => simpa using hws w (List.mem_of_getElem? h)

theorem gammaPdf_val (k θ y : R) (hk : 0 < k.val) (hθ : 0 < θ.val) (hy : 0 < y.val) :
    (RD.gammaPdf k θ y).val =
      Real.exp ((k.val - 1) * Real.log y.val - y.val / θ.val - Real.log (Real.Gamma k.val) - k.val * Real.log θ.val) := by
  have hG : 0 < Real.Gamma k.val := Real.Gamma_pos_of_pos hk
  have e : (RD.gammaPdf k θ y).val =
      y.val ^ (k.val - 1) * Real.exp (-(y.val / θ.val)) / (Real.Gamma k.val * θ.val ^ k.val) := by
    simp only [RD.gammaPdf, R.mul_val, R.div_val, R.powf_val, R.exp_val, R.neg_val, R.sub_val, R.gamma_val, R.sci_val]
    norm_num
  rw [e]
  have hpos : 0 < y.val ^ (k.val - 1) * Real.exp (-(y.val / θ.val)) / (Real.Gamma k.val * θ.val ^ k.val) := by
    have := Real.rpow_pos_of_pos hy (k.val - 1)
    have := Real.rpow_pos_of_pos hθ k.val
    positivity
  rw [← Real.exp_log hpos]
  congr 1
  rw [Real.log_div (by positivity) (by positivity), Real.log_mul (by positivity) (by positivity),
    Real.log_mul hG.ne' (by positivity), Real.log_rpow hy, Real.log_rpow hθ, Real.log_exp]
  ring

end C04
